(** Proofs that [EngineInv.Inv] is an inductive invariant of [Engine.step]. *)
From incr Require Import Base Heap HeapSpec HeapProofs EngineDefs Engine EngineWf EngineLemmas EngineInvM.

(** * Which projections each clause reads (extensionality lemmas) *)

Lemma chain_ext s s' : (forall n, scope (nd s' n) = scope (nd s n)) ->
  forall n t d, chain s n t d -> chain s' n t d.
Proof.
  intros Hs n t d H. induction H as [n E|n b t d E _ IH].
  - apply chain_top. rewrite Hs. exact E.
  - eapply chain_in; [rewrite Hs; exact E|exact IH].
Qed.

Lemma chain_ext_iff s s' : (forall n, scope (nd s' n) = scope (nd s n)) ->
  forall n t d, chain s' n t d <-> chain s n t d.
Proof. intros Hs n t d. split; apply chain_ext; auto. Qed.

Lemma chain_fun s n t d t' d' : chain s n t d -> chain s n t' d' -> t = t' /\ d = d'.
Proof.
  intros H. revert t' d'. induction H as [n E|n b t d E _ IH]; intros t' d' H'.
  - inversion H' as [n' E'|n' b' t'' d'' E' H'']; subst; [auto|congruence].
  - inversion H' as [n' E'|n' b' t'' d'' E' H'']; subst; [congruence|].
    assert (b' = b) as -> by congruence.
    destruct (IH _ _ H'') as [-> ->]. auto.
Qed.

(** the same for the order with a ghost owner *)
Lemma gchain_ext own s s' : (forall n, scope (nd s' n) = scope (nd s n)) ->
  forall n t d, gchain own s n t d -> gchain own s' n t d.
Proof.
  intros Hs n t d H. induction H as [n E|n b t d E _ IH].
  - apply gchain_top. unfold vsc in *. rewrite Hs. exact E.
  - eapply gchain_in; [unfold vsc in *; rewrite Hs; exact E|exact IH].
Qed.

Lemma gchain_fun own s n t d t' d' : gchain own s n t d -> gchain own s n t' d' -> t = t' /\ d = d'.
Proof.
  intros H. revert t' d'. induction H as [n E|n b t d E _ IH]; intros t' d' H'.
  - inversion H' as [n' E'|n' b' t'' d'' E' H'']; subst; [auto|congruence].
  - inversion H' as [n' E'|n' b' t'' d'' E' H'']; subst; [congruence|].
    assert (b' = b) as -> by congruence.
    destruct (IH _ _ H'') as [-> ->]. auto.
Qed.

Lemma gmu_lt_ext own s s' : (forall n, scope (nd s' n) = scope (nd s n)) ->
  forall q n, gmu_lt own s q n -> gmu_lt own s' q n.
Proof.
  intros Hs q n H tq dq tn dn Hq Hn.
  apply H; eapply gchain_ext; try eassumption; intros; symmetry; apply Hs.
Qed.

Lemma vsc_lt own s n b : scopes_ok s -> own_ok own s -> vsc own s n = Some b -> (S b < n)%nat.
Proof.
  intros Hs Ho E. unfold vsc in E. destruct (scope (nd s n)) as [b'|] eqn:Es.
  - injection E as <-. apply (Hs n b' Es).
  - apply (Ho n b E).
Qed.

Lemma gchain_exists own s : scopes_ok s -> own_ok own s -> forall n, exists t d, gchain own s n t d.
Proof.
  intros Hs Ho n. induction (lt_wf n) as [n _ IH].
  destruct (vsc own s n) as [b|] eqn:E.
  - destruct (IH b) as (t & d & H); [pose proof (vsc_lt own s n b Hs Ho E); lia|].
    exists t, (S d). eapply gchain_in; eauto.
  - exists n, 0%nat. apply gchain_top, E.
Qed.

Lemma gchain_top_le own s : scopes_ok s -> own_ok own s -> forall n t d, gchain own s n t d -> (t <= n)%nat.
Proof.
  intros Hs Ho n t d H. induction H as [n E|n b t d E _ IH]; [lia|].
  pose proof (vsc_lt own s n b Hs Ho E). lia.
Qed.

Lemma gchain_plain own s n t d :
  scope (nd s n) = None -> own n = None -> gchain own s n t d -> t = n /\ d = 0%nat.
Proof.
  intros Es Eo H. inversion H as [n' E'|n' b' t'' d'' E' H'']; subst; [auto|].
  unfold vsc in E'. rewrite Es, Eo in E'. discriminate.
Qed.

Lemma gchain_in_inv own s n b t d :
  scope (nd s n) = Some b -> gchain own s n t d -> exists d', d = S d' /\ gchain own s b t d'.
Proof.
  intros Es H. inversion H as [n' E'|n' b' t'' d'' E' H'']; subst; unfold vsc in E'; rewrite Es in E'; [discriminate|].
  injection E' as <-. eauto.
Qed.

Lemma gchain_own_inv own s n b t d :
  scope (nd s n) = None -> own n = Some b -> gchain own s n t d -> exists d', d = S d' /\ gchain own s b t d'.
Proof.
  intros Es Eo H. inversion H as [n' E'|n' b' t'' d'' E' H'']; subst; unfold vsc in E'; rewrite Es, Eo in E'; [discriminate|].
  injection E' as <-. eauto.
Qed.

Lemma own_ok_ext own s s' :
  (forall n, has s' n <-> has s n) -> (forall n, scope (nd s' n) = scope (nd s n)) ->
  (forall n, nkind (nd s' n) = nkind (nd s n)) -> own_ok own s -> own_ok own s'.
Proof. intros Hh Hs Hk H n b E. rewrite Hh, !Hs, Hk. apply (H n b E). Qed.

Lemma mu_lt_ext s s' : (forall n, scope (nd s' n) = scope (nd s n)) ->
  forall q n, mu_lt s q n -> mu_lt s' q n.
Proof.
  intros Hs q n H tq dq tn dn Hq Hn.
  apply H; eapply chain_ext; try eassumption; intros; symmetry; apply Hs.
Qed.

Lemma texp_wf_ext s s' T e :
  (forall n, has s n -> has s' n) ->
  (forall n, has s n -> scope (nd s' n) = scope (nd s n)) ->
  (forall n, has s n -> nkind (nd s' n) = nkind (nd s n)) ->
  forall root, texp_wf s T root e -> texp_wf s' T root e.
Proof.
  intros Hh Hs Hk. revert e.
  fix IH 1. intros e root. destruct e as [k| |t|f e|f e1 e2|c e|cs e|]; simpl; try tauto.
  - intros (H1 & H2 & H3 & H4). rewrite Hs, Hk by exact H1. auto.
  - apply IH.
  - intros [H1 H2]. split; apply IH; assumption.
  - apply IH.
  - intros [H1 H2]. split; [|apply IH; exact H2].
    clear H2. induction cs as [|c cs IHcs]; [exact I|].
    destruct H1 as [Hc Hcs]. split; [apply IH; exact Hc|apply IHcs; exact Hcs].
Qed.

Section ext.
  Context (s s' : state).

  Lemma ids_ok_ext :
    next s' = next s -> (forall n, has s' n <-> has s n) ->
    (forall n, decl (nd s' n) = decl (nd s n)) ->
    ids_ok s -> ids_ok s'.
  Proof.
    intros Hn Hh Hd [H1 H2]. split.
    - intros n Hn'. rewrite Hn. apply H1, Hh, Hn'.
    - intros n p. rewrite Hd, Hh. apply H2.
  Qed.

  Lemma binds_wf_ext :
    binds s' = binds s -> (forall n, has s' n <-> has s n) ->
    (forall n, nkind (nd s' n) = nkind (nd s n)) ->
    (forall n, decl (nd s' n) = decl (nd s n)) ->
    (forall n, scope (nd s' n) = scope (nd s n)) ->
    binds_wf s -> binds_wf s'.
  Proof.
    intros Hb Hh Hk Hd Hs H b r Hr. rewrite Hb in Hr.
    destruct (H b r Hr) as [? ? ? Hca ? ? ? ? ? ? ? Hrn ? ? Hcases].
    constructor; rewrite ?Hh, ?Hk, ?Hd, ?Hs; try assumption.
    - intros x q Hq. rewrite Hh, Hs, Hk. apply (Hca x q Hq).
    - intros n Hn. rewrite Hh, Hs. auto.
    - intros t d Hc. apply (chain_ext_iff s s' Hs) in Hc.
      eapply List.Forall_impl; [|apply (Hcases t d Hc)].
      intros e. apply texp_wf_ext; intros; [apply Hh; assumption|apply Hs|apply Hk].
  Qed.

  Lemma kinds_ok_ext :
    binds s' = binds s -> (forall n, has s' n <-> has s n) ->
    (forall n, nkind (nd s' n) = nkind (nd s n)) ->
    kinds_ok s -> kinds_ok s'.
  Proof. intros Hb Hh Hk H n Hn. rewrite Hk, Hb. apply H, Hh, Hn. Qed.

  Lemma scopes_ok_ext :
    binds s' = binds s -> (forall n, scope (nd s' n) = scope (nd s n)) ->
    scopes_ok s -> scopes_ok s'.
  Proof. intros Hb Hs H n b. rewrite Hs, Hb. apply H. Qed.

  Lemma scoping_ok_ext :
    binds s' = binds s -> (forall n, has s' n <-> has s n) ->
    (forall n, nkind (nd s' n) = nkind (nd s n)) ->
    (forall n, decl (nd s' n) = decl (nd s n)) ->
    (forall n, scope (nd s' n) = scope (nd s n)) ->
    scoping_ok s -> scoping_ok s'.
  Proof.
    intros Hb Hh Hk Hd Hs [H1 H2 H3 H4 H5 H6 H7].
    assert (Hbd : forall b, bd s' b = bd s b) by (intros; unfold bd; rewrite Hb; reflexivity).
    split; [| | | |intros n q b0; rewrite Hd, Hk; apply H5|intros b q b0; rewrite Hbd, Hk; apply H6
           |intros b b1; unfold inGen; rewrite Hbd, Hk; apply H7].
    - intros n q. rewrite Hd, !Hs, Hk. intros Hq. destruct (H1 n q Hq) as [?|[?|(b & ? & ? & ?)]]; auto.
      right; right. exists b. rewrite Hbd. auto.
    - intros n q b. unfold inGen. rewrite Hd, !Hs, Hbd. apply H2.
    - intros b q. unfold inGen. rewrite Hbd, Hs. apply H3.
    - destruct H4 as (own & O1 & O2 & O3). exists own. split; [apply (own_ok_ext own s s'); auto|]. split.
      + intros n q. rewrite Hd. intros Hq. apply (gmu_lt_ext own s s' Hs), O2, Hq.
      + intros b r x q. rewrite Hb. intros Hr Hq. apply (gmu_lt_ext own s s' Hs), (O3 b r x q Hr Hq).
  Qed.

  Lemma valid_ok_ext :
    binds s' = binds s -> (forall n, has s' n <-> has s n) ->
    (forall n, scope (nd s' n) = scope (nd s n)) ->
    (forall n, valid (nd s' n) = valid (nd s n)) ->
    (forall n, inGraph (nd s' n) = inGraph (nd s n)) ->
    valid_ok s -> valid_ok s'.
  Proof.
    intros Hb Hh Hs Hv Hg [H1 H2 H3 H4].
    assert (Hbd : forall b, bd s' b = bd s b) by (intros; unfold bd; rewrite Hb; reflexivity).
    split.
    - intros n. rewrite Hs, Hv. apply H1.
    - intros n b. unfold inGen. rewrite Hh, Hs, Hbd, Hv, Hg. apply H2.
    - intros n b. unfold inGen. rewrite Hbd, !Hv. apply H3.
    - intros n. rewrite Hg, Hv. apply H4.
  Qed.

  Lemma edges_ok_ext :
    (forall n, parents (nd s' n) = parents (nd s n)) ->
    (forall n, children (nd s' n) = children (nd s n)) ->
    edges_ok s -> edges_ok s'.
  Proof. intros Hp Hc H c p. rewrite Hp, Hc. apply H. Qed.

  Lemma zero_ok_ext :
    (forall n, inGraph (nd s' n) = inGraph (nd s n)) ->
    (forall n, parents (nd s' n) = parents (nd s n)) ->
    (forall n, children (nd s' n) = children (nd s n)) ->
    (forall n, observers (nd s' n) = observers (nd s n)) ->
    (forall n, height (nd s' n) = height (nd s n)) ->
    zero_ok s -> zero_ok s'.
  Proof. intros Hg Hp Hc Ho Hh H n. rewrite Hg, Hp, Hc, Ho, Hh. apply H. Qed.

  Lemma nec_ok_ext :
    (forall n, inGraph (nd s' n) = inGraph (nd s n)) ->
    (forall n, forceNec (nd s' n) = forceNec (nd s n)) ->
    (forall n, children (nd s' n) = children (nd s n)) ->
    (forall n, observers (nd s' n) = observers (nd s n)) ->
    nec_ok s -> nec_ok s'.
  Proof.
    intros Hg Hf Hc Ho H n. rewrite Hg, (isNecessary_ext (nd s' n) (nd s n)) by auto. apply H.
  Qed.

  Lemma par_ok_ext :
    (forall n, inGraph (nd s' n) = inGraph (nd s n)) ->
    (forall n, parents (nd s' n) = parents (nd s n)) ->
    (forall n, inGraph (nd s n) = true -> decl (nd s' n) = decl (nd s n)) ->
    par_ok s -> par_ok s'.
  Proof. intros Hg Hp Hd H n. rewrite Hg, Hp. intros Hn. rewrite Hd by exact Hn. apply H, Hn. Qed.

  Lemma height_ok_ext :
    maxHeight s' = maxHeight s ->
    (forall n, inGraph (nd s' n) = inGraph (nd s n)) ->
    (forall n, height (nd s' n) = height (nd s n)) ->
    (forall n, parents (nd s' n) = parents (nd s n)) ->
    (forall n, scope (nd s' n) = scope (nd s n)) ->
    height_ok s -> height_ok s'.
  Proof.
    intros Hm Hg Hh Hp Hs H n. rewrite Hg, Hm, Hh, Hp, Hs. intros Hn.
    destruct (H n Hn) as (H1 & H2 & H3). split; [exact H1|]. split.
    - intros p Hp'. rewrite Hh. apply H2, Hp'.
    - unfold scopeHeight in *. destruct (scope (nd s n)); [rewrite Hh|]; exact H3.
  Qed.

  Lemma heap_ok_ext :
    heap s' = heap s ->
    (forall n, inGraph (nd s' n) = inGraph (nd s n)) ->
    (forall n, height (nd s' n) = height (nd s n)) ->
    heap_ok s -> heap_ok s'.
  Proof. intros Hw Hg Hh [H1 H2]. unfold heap_ok. rewrite Hw. split; [exact H1|]. intros n. rewrite Hg, Hh. apply H2. Qed.

  Lemma count_ok_ext :
    reg s' = reg s -> obs s' = obs s -> numNodes s' = numNodes s ->
    (forall n, inGraph (nd s' n) = inGraph (nd s n)) ->
    count_ok s -> count_ok s'.
  Proof.
    intros Hr Ho Hn Hg [H1 H2 H3]. split; rewrite ?Hr, ?Ho, ?Hn; try assumption.
    intros n. rewrite Hg. apply H2.
  Qed.

  Lemma obs_ok_ext :
    binds s' = binds s ->
    obs s' = obs s -> next s' = next s -> (forall n, has s' n <-> has s n) ->
    (forall n, observers (nd s' n) = observers (nd s n)) ->
    (forall n, scope (nd s' n) = scope (nd s n)) ->
    obs_ok s -> obs_ok s'.
  Proof.
    intros Hbi Ho Hn Hh Hob Hs [H1 H2 H3 H4]. split.
    - intros n o. rewrite Hob, Ho. apply H1.
    - intros n. rewrite Hob. apply H2.
    - intros o n. rewrite Ho, Hn, Hh, Hs. apply H3.
    - intros o n. rewrite Ho, Hbi. apply H4.
  Qed.

  Lemma quiet_ext :
    adj s' = adj s -> invq s' = invq s -> status s' = status s -> setDuring s' = setDuring s ->
    setRemoved s' = setRemoved s -> handlers s' = handlers s ->
    (forall n, forceNec (nd s' n) = forceNec (nd s n)) ->
    (forall n, hAdj (nd s' n) = hAdj (nd s n)) ->
    quiet s -> quiet s'.
  Proof.
    intros Ha Hi Hst Hsd Hsr Hh Hf Hhj []. split; rewrite ?Ha, ?Hi, ?Hst, ?Hsd, ?Hsr, ?Hh; try assumption.
    - intros n. rewrite Hf. auto.
    - intros n. rewrite Hhj. auto.
  Qed.

  Lemma shape_ok_ext : adj s' = adj s -> maxHeight s' = maxHeight s -> shape_ok s -> shape_ok s'.
  Proof. intros Ha Hm []. split; rewrite ?Ha, ?Hm; assumption. Qed.

  Lemma stamps_ok_ext :
    stabNum s' = stabNum s ->
    (forall n, recomputedAt (nd s' n) = recomputedAt (nd s n)) ->
    (forall n, changedAt (nd s' n) = changedAt (nd s n)) ->
    (forall n, setAt (nd s' n) = setAt (nd s n)) ->
    stamps_ok s -> stamps_ok s'.
  Proof.
    intros Hn Hr Hc Hs [H1 H2]. split; rewrite Hn; [exact H1|].
    intros n. rewrite Hr, Hc, Hs. apply H2.
  Qed.

  Lemma life_ok_ext :
    log s' = log s ->
    (forall n, inGraph (nd s' n) = inGraph (nd s n)) ->
    (forall n, valid (nd s' n) = valid (nd s n)) ->
    life_ok s -> life_ok s'.
  Proof.
    intros Hl Hg Hv [H1 H2 H3]. split; rewrite Hl; [exact H1| |].
    - intros n. rewrite Hg. apply H2.
    - intros n. rewrite Hv. apply H3.
  Qed.
End ext.

(** * Consequences of the invariant used everywhere *)
Lemma edges_parent_child s c p : edges_ok s -> (p ∈ parents (nd s c) <-> c ∈ children (nd s p)).
Proof. intros H. rewrite <- !count_pos_iff, (H c p). reflexivity. Qed.

Lemma parent_has s c p : edges_ok s -> p ∈ parents (nd s c) -> has s p.
Proof. intros H Hp. apply (edges_parent_child s c p H) in Hp. eapply has_children, Hp. Qed.

Lemma child_has s c p : edges_ok s -> c ∈ children (nd s p) -> has s c.
Proof. intros H Hp. apply (edges_parent_child s c p H) in Hp. eapply has_parents, Hp. Qed.

Lemma parent_registered s c p : edges_ok s -> zero_ok s -> p ∈ parents (nd s c) -> inGraph (nd s p) = true.
Proof.
  intros He Hz Hp. apply (edges_parent_child s c p He) in Hp.
  destruct (inGraph (nd s p)) eqn:E; [reflexivity|].
  destruct (Hz p E) as (_ & Hc & _). rewrite Hc in Hp. inversion Hp.
Qed.

Lemma child_registered s c p : edges_ok s -> zero_ok s -> c ∈ children (nd s p) -> inGraph (nd s c) = true.
Proof.
  intros He Hz Hp. apply (edges_parent_child s c p He) in Hp.
  destruct (inGraph (nd s c)) eqn:E; [reflexivity|].
  destruct (Hz c E) as (Hc & _). rewrite Hc in Hp. inversion Hp.
Qed.

Lemma chain_exists s : scopes_ok s -> forall n, exists t d, chain s n t d.
Proof.
  intros Hs n. induction (lt_wf n) as [n _ IH].
  destruct (scope (nd s n)) as [b|] eqn:E.
  - destruct (Hs n b E) as [_ Hlt]. destruct (IH b ltac:(lia)) as (t & d & H).
    exists t, (S d). eapply chain_in; eauto.
  - exists n, 0%nat. apply chain_top, E.
Qed.

Lemma chain_top_le s : scopes_ok s -> forall n t d, chain s n t d -> (t <= n)%nat.
Proof.
  intros Hs n t d H. induction H as [n E|n b t d E _ IH]; [lia|].
  destruct (Hs n b E) as [_ Hlt]. lia.
Qed.

(** * The initial state *)
Lemma nd_init mh n : nd (init mh) n = dummy.
Proof. unfold nd, init. cbn. rewrite lookup_empty. reflexivity. Qed.

Lemma has_init mh n : ~ has (init mh) n.
Proof. unfold has, init. cbn. rewrite lookup_empty. intros [x H]. discriminate. Qed.

Theorem Inv_init : forall mh, (0 < mh)%nat -> Inv (init mh).
Proof.
  intros mh Hmh.
  assert (Hnd : forall n, nd (init mh) n = dummy) by apply nd_init.
  constructor.
  - split; [intros n H; destruct (has_init mh n H)|]. intros n p. rewrite Hnd. cbn. intros H; inversion H.
  - intros b r. unfold init; cbn. rewrite lookup_empty. discriminate.
  - intros n H. destruct (has_init mh n H).
  - intros n b. rewrite Hnd. cbn. discriminate.
  - split.
    + intros n q. rewrite Hnd. cbn. intros H; inversion H.
    + intros n q b. rewrite Hnd. cbn. intros H; inversion H.
    + intros b q. unfold bd, init; cbn. rewrite lookup_empty. cbn. discriminate.
    + exists (fun _ => None). split; [intros n b; discriminate|]. split.
      * intros n q. rewrite Hnd. cbn. intros H; inversion H.
      * intros b r x q. unfold init; cbn. rewrite lookup_empty. discriminate.
    + intros n q b0. rewrite Hnd. cbn. intros H; inversion H.
    + intros b q b0. unfold bd, init; cbn. rewrite lookup_empty. cbn. discriminate.
    + intros b b1. unfold inGen, bd, init; cbn. rewrite lookup_empty. cbn. intros H; inversion H.
  - split.
    + intros n _. rewrite Hnd. reflexivity.
    + intros n b H. destruct (has_init mh n H).
    + intros n b. unfold inGen, bd, init; cbn. rewrite lookup_empty. cbn. intros H; inversion H.
    + intros n. rewrite Hnd. cbn. discriminate.
  - intros c p. rewrite !Hnd. reflexivity.
  - intros n _. rewrite Hnd. cbn. auto.
  - intros n. rewrite Hnd. reflexivity.
  - intros n. rewrite Hnd. cbn. discriminate.
  - intros n. rewrite Hnd. cbn. discriminate.
  - split; [apply hinv_empty|]. intros n. unfold init; cbn. unfold Heap.ids, Heap.empty; cbn.
    rewrite concat_replicate_nil. intros H; inversion H.
  - split; unfold init; cbn.
    + constructor.
    + intros n. fold (init mh). rewrite Hnd. cbn. split; [intros H; inversion H|discriminate].
    + reflexivity.
  - split.
    + intros n o. rewrite Hnd. unfold init; cbn. rewrite lookup_empty. split; [intros H; inversion H|discriminate].
    + intros n. rewrite Hnd. cbn. constructor.
    + intros o n. unfold init; cbn. rewrite lookup_empty. discriminate.
    + intros o n. unfold init; cbn. rewrite lookup_empty. discriminate.
  - split; try reflexivity; try (intros n; rewrite Hnd; reflexivity).
    unfold init; cbn. apply Forall_replicate. reflexivity.
  - split; unfold init; cbn; [lia|]. rewrite replicate_length. lia.
  - split; [unfold init; cbn; lia|]. intros n. rewrite Hnd. unfold init; cbn. lia.
  - split.
    + exact I.
    + intros n. rewrite Hnd. unfold init; cbn. split; discriminate.
    + intros n. rewrite Hnd. unfold init; cbn. split; [discriminate|intros H; inversion H].
Qed.

(** * Extending the state by fresh, unregistered node records (construction, bind functions) *)
Definition dyn_eq (x y : node) : Prop :=
  height x = height y /\ hAdj x = hAdj y /\ recomputedAt x = recomputedAt y /\
  changedAt x = changedAt y /\ setAt x = setAt y /\ parents x = parents y /\
  children x = children y /\ observers x = observers y /\ valid x = valid y /\
  forceNec x = forceNec y /\ inGraph x = inGraph y.

Lemma dyn_eq_refl x : dyn_eq x x.
Proof. repeat split. Qed.

Lemma dyn_eq_fresh k d sc v : dyn_eq (fresh_node k d sc v) dummy.
Proof. repeat split. Qed.

Section extend.
  Context (s s' : state).
  Hypothesis (Hnext : (next s <= next s')%nat).
  Hypothesis (Hhas1 : forall m, has s m -> has s' m).
  Hypothesis (Hhas2 : forall m, has s' m -> has s m \/ (next s <= m)%nat).
  Hypothesis (Hdyn : forall m, dyn_eq (nd s' m) (nd s m)).
  Hypothesis (Hdecl : forall m, has s m -> decl (nd s' m) = decl (nd s m)).
  Hypothesis (Hscope : forall m, has s m -> scope (nd s' m) = scope (nd s m)).
  Hypothesis (Hreg : reg s' = reg s) (Hobs : obs s' = obs s) (Hheap : heap s' = heap s)
             (Hadj : adj s' = adj s) (Hinvq : invq s' = invq s) (HstabNum : stabNum s' = stabNum s)
             (Hstatus : status s' = status s) (HnumNodes : numNodes s' = numNodes s)
             (HsetDuring : setDuring s' = setDuring s) (HsetRemoved : setRemoved s' = setRemoved s)
             (Hhandlers : handlers s' = handlers s) (HmaxHeight : maxHeight s' = maxHeight s)
             (Hlog : log s' = log s).

  Local Ltac dyn m := destruct (Hdyn m) as (Dh & Dhj & Dr & Dc & Dsa & Dp & Dch & Do & Dv & Df & Dg).

  Lemma extend_edges : edges_ok s -> edges_ok s'.
  Proof. apply edges_ok_ext; intros m; dyn m; assumption. Qed.

  Lemma extend_zero : zero_ok s -> zero_ok s'.
  Proof. apply zero_ok_ext; intros m; dyn m; assumption. Qed.

  Lemma extend_nec : nec_ok s -> nec_ok s'.
  Proof. apply nec_ok_ext; intros m; dyn m; assumption. Qed.

  Lemma extend_par : par_ok s -> par_ok s'.
  Proof.
    apply par_ok_ext; try (intros m; dyn m; assumption).
    intros m Hm. apply Hdecl, has_inGraph, Hm.
  Qed.

  Lemma extend_height : height_ok s -> height_ok s'.
  Proof.
    intros H n. dyn n. rewrite Dg, Dh, Dp, HmaxHeight. intros Hn.
    destruct (H n Hn) as (H1 & H2 & H3). split; [exact H1|]. split.
    - intros p Hp. destruct (Hdyn p) as (Dh' & _). rewrite Dh'. apply H2, Hp.
    - rewrite Hscope by (apply has_inGraph, Hn). unfold scopeHeight in *.
      destruct (scope (nd s n)) as [b|]; [|exact H3].
      destruct (Hdyn b) as (Dh' & _). rewrite Dh'. exact H3.
  Qed.

  Lemma extend_heap : heap_ok s -> heap_ok s'.
  Proof. apply heap_ok_ext; [exact Hheap| |]; intros m; dyn m; assumption. Qed.

  Lemma extend_count : count_ok s -> count_ok s'.
  Proof. apply count_ok_ext; try assumption. intros m; dyn m; assumption. Qed.

  Lemma extend_obs :
    (forall n, has s n -> binds s !! n = None -> binds s' !! n = None) ->
    ids_ok s -> obs_ok s -> obs_ok s'.
  Proof.
    intros Hbn [Hlt _] [H1 H2 H3 H4]. split; [| | |intros o n; rewrite Hobs; intros Ho;
      apply Hbn; [apply (has_observers s n o), H1, Ho|apply (H4 o n Ho)]].
    - intros n o. dyn n. rewrite Do, Hobs. apply H1.
    - intros n. dyn n. rewrite Do. apply H2.
    - intros o n. rewrite Hobs. intros Ho. destruct (H3 o n Ho) as (Ha & Hb & Hc).
      split; [lia|]. split.
      + intros Hs'. destruct (Hhas2 o Hs') as [?|?]; [contradiction|lia].
      + rewrite Hscope; [exact Hc|]. apply (has_observers s n o). apply H1, Ho.
  Qed.

  Lemma extend_quiet : quiet s -> quiet s'.
  Proof. apply quiet_ext; try assumption; intros m; dyn m; assumption. Qed.

  Lemma extend_shape : shape_ok s -> shape_ok s'.
  Proof. apply shape_ok_ext; assumption. Qed.

  Lemma extend_stamps : stamps_ok s -> stamps_ok s'.
  Proof. apply stamps_ok_ext; try assumption; intros m; dyn m; assumption. Qed.

  Lemma extend_life : life_ok s -> life_ok s'.
  Proof. apply life_ok_ext; try assumption; intros m; dyn m; assumption. Qed.
End extend.

Lemma bind_wf_mono s s' b r :
  (forall n, has s n -> has s' n) ->
  (forall n, has s n -> nkind (nd s' n) = nkind (nd s n)) ->
  (forall n, has s n -> decl (nd s' n) = decl (nd s n)) ->
  (forall n, scope (nd s' n) = scope (nd s n)) ->
  bind_wf s b r -> bind_wf s' b r.
Proof.
  intros Hh Hk Hd Hs [? ? Hme Hca Hl Hm ? ? ? ? ? Hrn ? ? Hcases].
  constructor; rewrite ?Hk, ?Hd, ?Hs by assumption; auto.
  - intros x q Hq. destruct (Hca x q Hq) as (A & B & C). rewrite Hs, Hk by exact A. auto.
  - intros n Hn. destruct (Hrn n Hn). rewrite Hs. auto.
  - intros t d Hc. apply (chain_ext_iff s s' Hs) in Hc.
    eapply List.Forall_impl; [|apply (Hcases t d Hc)].
    intros e. apply texp_wf_ext; intros; [apply Hh; assumption|apply Hs|apply Hk; assumption].
Qed.

Lemma isTop_true s n : isTop s n = true -> has s n /\ scope (nd s n) = None.
Proof.
  unfold isTop, has, nd. destruct (nodes s !! n) as [x|]; [|discriminate].
  simpl. intros H%bool_decide_eq_true. eauto.
Qed.

Lemma chain_top_inv s n t d : scope (nd s n) = None -> chain s n t d -> t = n /\ d = 0%nat.
Proof. intros E H. inversion H; subst; [auto|congruence]. Qed.

Lemma rhs_has s : ids_ok s -> binds_wf s -> forall b q, b_rhs (bd s b) = Some q -> has s q.
Proof.
  intros Hi Hb b q. unfold bd. destruct (binds s !! b) as [r|] eqn:E; cbn; [|discriminate].
  intros Hr. apply (io_decl s Hi (S b) q). rewrite (bw_decl_main s b r (Hb b r E)), Hr. right. left.
Qed.

Lemma gen_has s : binds_wf s -> forall b n, inGen s b n -> has s n /\ scope (nd s n) = Some b.
Proof.
  intros Hb b n. unfold inGen, bd. destruct (binds s !! b) as [r|] eqn:E; cbn; [|intros H; inversion H].
  apply (bw_rhsNodes s b r (Hb b r E)).
Qed.

(** * Construction of a top-level node *)
Section new_top.
  Context (s : state) (k : kind) (d : list nid) (v : Z).
  Hypothesis (HI : Inv s).
  Hypothesis (Hd : forall p, p ∈ d -> has s p /\ scope (nd s p) = None /\
                                      match nkind (nd s p) with KBindLhs _ => False | _ => True end).
  Hypothesis (Hk : match k with KBindLhs _ | KBindMain _ => False | _ => True end).
  Let s' := (newNode s k d None v).1.
  Let x := next s.

  Local Lemma nt_x : ~ has s x.
  Proof. intros H. apply (io_lt s (inv_ids s HI)) in H. unfold x in H. lia. Qed.

  Local Lemma nt_nd m : nd s' m = if decide (m = x) then fresh_node k d None v else nd s m.
  Proof. apply nd_newNode. Qed.

  Local Lemma nt_nd_ne m : m <> x -> nd s' m = nd s m.
  Proof. intros H. rewrite nt_nd, decide_False by exact H. reflexivity. Qed.

  Local Lemma nt_nd_has m : has s m -> nd s' m = nd s m.
  Proof. intros H. apply nt_nd_ne. intros ->. exact (nt_x H). Qed.

  Local Lemma nt_dyn m : dyn_eq (nd s' m) (nd s m).
  Proof.
    rewrite nt_nd. destruct (decide (m = x)) as [->|]; [|apply dyn_eq_refl].
    rewrite (not_has_nd s x nt_x). apply dyn_eq_fresh.
  Qed.

  Local Lemma nt_scope m : scope (nd s' m) = scope (nd s m).
  Proof.
    rewrite nt_nd. destruct (decide (m = x)) as [->|]; [|reflexivity].
    rewrite (not_has_nd s x nt_x). reflexivity.
  Qed.

  Local Lemma nt_has m : has s' m <-> m = x \/ has s m.
  Proof. apply has_newNode. Qed.

  Local Lemma nt_binds : binds s' = binds s.
  Proof. unfold s'. rewrite binds_newNode. reflexivity. Qed.

  Local Lemma nt_bd b : bd s' b = bd s b.
  Proof. unfold bd. rewrite nt_binds. reflexivity. Qed.

  Lemma Inv_newNode_top : Inv s'.
  Proof.
    destruct HI as [Iids Ibinds Ikinds Iscopes Iscoping Ivalid Iedges Izero Inec Ipar Iheight Iheap
                    Icount Iobs Iquiet Ishape Istamps Ilife].
    assert (Hnext : next s' = S x) by (unfold s'; apply next_newNode).
    assert (Hhas1 : forall m, has s m -> has s' m) by (intros m H; apply nt_has; auto).
    assert (Hhas2 : forall m, has s' m -> has s m \/ (next s <= m)%nat).
    { intros m [->|H]%nt_has; [right; unfold x; lia|auto]. }
    constructor.
    - (* ids *) split.
      + intros n [->|H]%nt_has; [lia|]. apply (io_lt s Iids) in H. unfold x in *. lia.
      + intros n p. rewrite nt_nd. destruct (decide (n = x)) as [->|].
        * cbn. intros Hp. apply Hhas1, Hd, Hp.
        * intros Hp. eapply Hhas1, (io_decl s Iids), Hp.
    - (* binds *) intros b r. rewrite nt_binds. intros Hr.
      apply (bind_wf_mono s s'); auto using nt_scope.
      + intros n Hn. rewrite nt_nd_has by exact Hn. reflexivity.
      + intros n Hn. rewrite nt_nd_has by exact Hn. reflexivity.
    - (* kinds *) intros n. rewrite nt_nd, nt_binds. destruct (decide (n = x)) as [->|Hne].
      + intros _. cbn. destruct k; try exact I; contradiction.
      + intros [?|H]%nt_has; [contradiction|]. apply Ikinds, H.
    - (* scopes *) apply (scopes_ok_ext s s'); auto using nt_binds, nt_scope.
    - (* scoping *) destruct Iscoping as [S1 S2 S3 S4 S5 S6 S7]. split;
        [| | | | |intros b q b0; rewrite nt_bd; intros Hr; rewrite nt_nd_has by (apply (rhs_has s Iids Ibinds b q Hr)); apply (S6 b q b0 Hr)
        |intros b b1; unfold inGen; rewrite nt_bd; intros Hg; rewrite nt_nd_has by (apply (gen_has s Ibinds b b1 Hg)); apply (S7 b b1 Hg)].
      + intros n q. rewrite nt_nd. destruct (decide (n = x)) as [->|Hne].
        * cbn. intros Hq. left. rewrite nt_scope. apply Hd, Hq.
        * rewrite !nt_scope. fold (nd s n). intros Hq.
          destruct (S1 n q Hq) as [?|[?|(b & ? & ? & ?)]]; auto;
          right; right; exists b; rewrite nt_bd; auto.
      + intros n q b. unfold inGen. rewrite nt_bd, !nt_scope.
        rewrite (nt_nd n). destruct (decide (n = x)) as [->|Hne].
        * rewrite (not_has_nd s x nt_x). cbn. discriminate.
        * apply S2.
      + intros b q. unfold inGen. rewrite nt_bd, nt_scope. apply S3.
      + destruct S4 as (own & O1 & O2 & O3). exists own.
        assert (O1' : own_ok own s').
        { intros n b E. destruct (O1 n b E) as (A & B & C & D & F & G).
          rewrite !nt_scope, (nt_nd_has n A). auto 10. }
        assert (Hox : own x = None).
        { destruct (own x) as [b|] eqn:E; [|reflexivity]. destruct (nt_x (proj1 (O1 x b E))). }
        assert (Hsc' : scopes_ok s') by (apply (scopes_ok_ext s s'); auto using nt_binds, nt_scope).
        split; [exact O1'|]. split.
        * intros n q. rewrite nt_nd. destruct (decide (n = x)) as [->|Hne].
          -- cbn. intros Hq tq dq tn dn Cq Cn.
             destruct (Hd q Hq) as (Hhq & Hsq & _).
             pose proof (gchain_top_le own s' Hsc' O1' q tq dq Cq) as Hle.
             apply gchain_plain in Cn as [-> ->];
               [|rewrite nt_scope, (not_has_nd s x nt_x); reflexivity|exact Hox].
             left. apply (io_lt s Iids) in Hhq. unfold x. lia.
          -- intros Hq. apply (gmu_lt_ext own s s' nt_scope). apply O2, Hq.
        * intros b r x0 q. rewrite nt_binds. intros Hr Hq. apply (gmu_lt_ext own s s' nt_scope), (O3 b r x0 q Hr Hq).
      + intros n q b0. rewrite (nt_nd n). destruct (decide (n = x)) as [->|Hne].
        * cbn. intros Hq Hkq. destruct (Hd q Hq) as (Hhq & _ & Hnl). rewrite nt_nd_has in Hkq by exact Hhq.
          rewrite Hkq in Hnl. destruct Hnl.
        * intros Hq Hkq. rewrite nt_nd_has in Hkq by (eapply (io_decl s Iids), Hq). apply (S5 n q b0 Hq Hkq).
    - (* valid *) destruct Ivalid as [V1 V2 V3 V4]. split.
      + intros n. rewrite nt_scope. destruct (nt_dyn n) as (_&_&_&_&_&_&_&_&->&_). apply V1.
      + intros n b [->|Hn]%nt_has.
        * rewrite nt_scope, (not_has_nd s x nt_x). cbn. discriminate.
        * rewrite nt_nd_has by exact Hn. unfold inGen. rewrite nt_bd. apply V2, Hn.
      + intros n b. unfold inGen. rewrite nt_bd.
        destruct (nt_dyn n) as (_&_&_&_&_&_&_&_&->&_).
        destruct (nt_dyn b) as (_&_&_&_&_&_&_&_&->&_). apply V3.
      + intros n. destruct (nt_dyn n) as (_&_&_&_&_&_&_&_&->&_&->). apply V4.
    - apply (extend_edges s s' nt_dyn Iedges).
    - apply (extend_zero s s' nt_dyn Izero).
    - apply (extend_nec s s' nt_dyn Inec).
    - apply (extend_par s s' nt_dyn); [|exact Ipar]. intros m Hm. rewrite nt_nd_has by exact Hm. reflexivity.
    - apply (extend_height s s' nt_dyn); [| |exact Iheight].
      + intros m Hm. apply nt_scope.
      + unfold s'. apply maxHeight_newNode.
    - apply (extend_heap s s' nt_dyn); [|exact Iheap]. unfold s'. apply heap_newNode.
    - apply (extend_count s s' nt_dyn); [| | |exact Icount]; unfold s'.
      + apply reg_newNode. + apply obs_newNode. + apply numNodes_newNode.
    - apply (extend_obs s s'); try assumption.
      + rewrite Hnext. unfold x. lia.
      + apply nt_dyn.
      + intros m Hm. rewrite nt_nd_has by exact Hm. reflexivity.
      + intros m Hm. apply nt_scope.
      + unfold s'. apply obs_newNode.
      + intros m _ Hm. rewrite nt_binds. exact Hm.
    - apply (extend_quiet s s' nt_dyn); [| | | | | |exact Iquiet]; unfold s'.
      + apply adj_newNode. + apply invq_newNode. + apply status_newNode.
      + apply setDuring_newNode. + apply setRemoved_newNode. + apply handlers_newNode.
    - apply (extend_shape s s'); [| |exact Ishape]; unfold s'.
      + apply adj_newNode. + apply maxHeight_newNode.
    - apply (extend_stamps s s' nt_dyn); [|exact Istamps]. unfold s'. apply stabNum_newNode.
    - apply (extend_life s s' nt_dyn); [|exact Ilife]. unfold s'. apply log_newNode.
  Qed.
End new_top.

(** templates accepted by [op_ok] and [op_clean] are well-formed for a bind created now *)
Lemma texp_ok_wf s : ids_ok s -> forall e root,
  texp_ok s root e = true -> texp_top s e = true -> texp_wf s (next s) root e.
Proof.
  intros Hids. fix IH 1. intros e root. destruct e as [k| |t|f e|f e1 e2|c e|cs e|]; simpl; try tauto.
  - intros [Hh Hk]%isUserNode_true [_ Hs]%isTop_true. split; [exact Hh|]. split; [exact Hs|].
    split; [apply (io_lt s Hids), Hh|exact Hk].
  - apply IH.
  - intros [H1 H2]%andb_true_iff [H3 H4]%andb_true_iff. split; eapply IH; eauto.
  - apply IH.
  - intros [[_ H1]%andb_true_iff H2]%andb_true_iff [H3 H4]%andb_true_iff.
    split; [|eapply IH; eauto]. clear H2 H4.
    induction cs as [|c cs IHcs]; [exact I|]. simpl in H1, H3.
    apply andb_true_iff in H1 as [H1 H1']. apply andb_true_iff in H3 as [H3 H3'].
    split; [eapply IH; eauto|apply IHcs; assumption].
Qed.

Section new_bind.
  Context (s : state) (cases : list texp) (a : nid).
  Hypothesis (HI : Inv s).
  Hypothesis (Ha : has s a) (Has : scope (nd s a) = None).
  Hypothesis (Hak : match nkind (nd s a) with KBindLhs _ => False | _ => True end).
  Hypothesis (Hcases : Forall (texp_wf s (next s) true) cases).
  Context (memo : bool).
  Hypothesis (Hnb : memo = true -> Forall (fun e => texp_nobind e = true) cases).
  Let s' := (newBindWith memo s cases a None).1.
  Let x := next s.
  Let rec := mkBind a x (S x) None [] cases 0%nat memo [].

  Local Lemma nb_x : ~ has s x.
  Proof. intros H. apply (io_lt s (inv_ids s HI)) in H. unfold x in H. lia. Qed.
  Local Lemma nb_Sx : ~ has s (S x).
  Proof. intros H. apply (io_lt s (inv_ids s HI)) in H. unfold x in H. lia. Qed.

  Local Lemma nb_nd m :
    nd s' m = if decide (m = S x) then fresh_node (KBindMain x) [x] None 0
              else if decide (m = x) then fresh_node (KBindLhs x) [a] None 0 else nd s m.
  Proof.
    unfold s'. rewrite newBindWith_eq. set (s1 := s <| binds := _ |>).
    rewrite nd_newNode, next_newNode, nd_newNode.
    change (next s1) with x. change (nd s1 m) with (nd s m). reflexivity.
  Qed.

  Local Lemma nb_nd_has m : has s m -> nd s' m = nd s m.
  Proof.
    intros H. rewrite nb_nd.
    destruct (decide (m = S x)) as [->|]; [destruct (nb_Sx H)|].
    destruct (decide (m = x)) as [->|]; [destruct (nb_x H)|reflexivity].
  Qed.

  Local Lemma nb_dyn m : dyn_eq (nd s' m) (nd s m).
  Proof.
    rewrite nb_nd. destruct (decide (m = S x)) as [->|].
    - rewrite (not_has_nd s _ nb_Sx). apply dyn_eq_fresh.
    - destruct (decide (m = x)) as [->|]; [|apply dyn_eq_refl].
      rewrite (not_has_nd s _ nb_x). apply dyn_eq_fresh.
  Qed.

  Local Lemma nb_scope m : scope (nd s' m) = scope (nd s m).
  Proof.
    rewrite nb_nd. destruct (decide (m = S x)) as [->|].
    - rewrite (not_has_nd s _ nb_Sx). reflexivity.
    - destruct (decide (m = x)) as [->|]; [|reflexivity].
      rewrite (not_has_nd s _ nb_x). reflexivity.
  Qed.

  Local Lemma nb_has m : has s' m <-> m = S x \/ m = x \/ has s m.
  Proof.
    unfold s'. rewrite newBindWith_eq. set (s1 := s <| binds := _ |>).
    rewrite has_newNode, next_newNode, has_newNode.
    change (next s1) with x. change (has s1 m) with (has s m). reflexivity.
  Qed.

  Local Lemma nb_binds : binds s' = <[x := rec]> (binds s).
  Proof. reflexivity. Qed.

  Local Lemma nb_binds_x : binds s !! x = None.
  Proof.
    destruct (binds s !! x) as [r|] eqn:E; [|reflexivity].
    destruct (nb_x (bw_has_lhs s x r (inv_binds s HI x r E))).
  Qed.

  Local Lemma nb_bd b : b <> x -> bd s' b = bd s b.
  Proof. intros H. unfold bd. rewrite nb_binds, lookup_insert_ne by congruence. reflexivity. Qed.

  Local Lemma nb_bd_x : bd s' x = rec.
  Proof. unfold bd. rewrite nb_binds, lookup_insert. reflexivity. Qed.

  Local Lemma nb_bd_some b : is_Some (binds s !! b) -> bd s' b = bd s b.
  Proof. intros H. apply nb_bd. intros ->. rewrite nb_binds_x in H. destruct H; discriminate. Qed.

  Local Lemma nb_state : reg s' = reg s /\ obs s' = obs s /\ heap s' = heap s /\ adj s' = adj s /\
    invq s' = invq s /\ stabNum s' = stabNum s /\ status s' = status s /\ numNodes s' = numNodes s /\
    setDuring s' = setDuring s /\ setRemoved s' = setRemoved s /\ handlers s' = handlers s /\
    maxHeight s' = maxHeight s /\ log s' = log s /\ next s' = S (S x).
  Proof. repeat split. Qed.

  Lemma Inv_newBind_top : Inv s'.
  Proof.
    destruct HI as [Iids Ibinds Ikinds Iscopes Iscoping Ivalid Iedges Izero Inec Ipar Iheight Iheap
                    Icount Iobs Iquiet Ishape Istamps Ilife].
    destruct nb_state as (Sreg & Sobs & Sheap & Sadj & Sinvq & Sstab & Sstatus & Snum & Ssd & Ssr & Sh & Smh & Slog & Snext).
    assert (Hhas1 : forall m, has s m -> has s' m) by (intros m H; apply nb_has; auto).
    assert (Hhas2 : forall m, has s' m -> has s m \/ (next s <= m)%nat).
    { intros m [->|[->|H]]%nb_has; [right; unfold x; lia|right; unfold x; lia|auto]. }
    assert (Hax : (a < x)%nat) by (apply (io_lt s Iids), Ha).
    assert (Hkind : forall n, has s n -> nkind (nd s' n) = nkind (nd s n))
      by (intros n Hn; rewrite nb_nd_has by exact Hn; reflexivity).
    assert (Hdecl : forall n, has s n -> decl (nd s' n) = decl (nd s n))
      by (intros n Hn; rewrite nb_nd_has by exact Hn; reflexivity).
    assert (Hscope_some : forall n b, scope (nd s n) = Some b -> is_Some (binds s !! b))
      by (intros n b E; apply (Iscopes n b E)).
    constructor.
    - (* ids *) split.
      + intros n [->|[->|H]]%nb_has; rewrite Snext; [lia|lia|].
        apply (io_lt s Iids) in H. unfold x. lia.
      + intros n p. rewrite nb_nd. destruct (decide (n = S x)) as [->|].
        { cbn. intros ->%elem_of_list_singleton. apply nb_has. auto. }
        destruct (decide (n = x)) as [->|].
        { cbn. intros ->%elem_of_list_singleton. apply Hhas1, Ha. }
        intros Hp. eapply Hhas1, (io_decl s Iids), Hp.
    - (* binds *) intros b r. rewrite nb_binds. destruct (decide (b = x)) as [->|Hne].
      + rewrite lookup_insert. intros [= <-].
        constructor; try reflexivity; try (rewrite nb_nd; repeat (destruct (decide _); try lia; try congruence); reflexivity).
        * intros Hm. split; [reflexivity|]. split; [rewrite nb_scope, (not_has_nd s _ nb_x); reflexivity|apply Hnb, Hm].
        * cbn. intros x0 q Hq. inversion Hq.
        * apply nb_has. auto.
        * apply nb_has. auto.
        * rewrite !nb_scope. rewrite (not_has_nd s _ nb_x), (not_has_nd s _ nb_Sx). reflexivity.
        * cbn. intros n Hn. inversion Hn.
        * cbn. constructor.
        * intros t d Hc. apply chain_top_inv in Hc as [-> ->];
            [|rewrite nb_scope, (not_has_nd s _ nb_x); reflexivity].
          eapply List.Forall_impl; [|exact Hcases]. intros e.
          apply texp_wf_ext; intros; [apply Hhas1; assumption|apply nb_scope|apply Hkind; assumption].
      + rewrite lookup_insert_ne by congruence. intros Hr.
        apply (bind_wf_mono s s'); auto using nb_scope.
    - (* kinds *) intros n. rewrite nb_nd, nb_binds. destruct (decide (n = S x)) as [->|].
      { intros _. cbn. rewrite lookup_insert. split; [reflexivity|eauto]. }
      destruct (decide (n = x)) as [->|].
      { intros _. cbn. rewrite lookup_insert. split; [reflexivity|eauto]. }
      intros [?|[?|H]]%nb_has; [contradiction|contradiction|].
      specialize (Ikinds n H). destruct (nkind (nd s n)) as [| | | | | | |b|b]; try exact I.
      * destruct Ikinds as [-> Hb]. split; [reflexivity|].
        rewrite lookup_insert_ne; [exact Hb|]. intros <-. rewrite nb_binds_x in Hb. destruct Hb; discriminate.
      * destruct Ikinds as [-> Hb]. split; [reflexivity|].
        rewrite lookup_insert_ne; [exact Hb|]. intros <-. rewrite nb_binds_x in Hb. destruct Hb; discriminate.
    - (* scopes *) intros n b. rewrite nb_scope, nb_binds. intros E. destruct (Iscopes n b E) as [Hb Hlt].
      split; [|exact Hlt]. rewrite lookup_insert_ne; [exact Hb|].
      intros <-. rewrite nb_binds_x in Hb. destruct Hb; discriminate.
    - (* scoping *) destruct Iscoping as [S1 S2 S3 S4 S5 S6 S7]. split;
        [| | | | |intros b q b0; destruct (decide (b = x)) as [->|Hne];
                  [rewrite nb_bd_x; cbn; discriminate|
                   rewrite nb_bd by exact Hne; intros Hr; rewrite nb_nd_has by (apply (rhs_has s Iids Ibinds b q Hr)); apply (S6 b q b0 Hr)]
        |intros b b1; unfold inGen; destruct (decide (b = x)) as [->|Hne];
                  [rewrite nb_bd_x; cbn; intros H; inversion H|
                   rewrite nb_bd by exact Hne; intros Hg; rewrite nb_nd_has by (apply (gen_has s Ibinds b b1 Hg)); apply (S7 b b1 Hg)]].
      + intros n q. rewrite nb_nd. destruct (decide (n = S x)) as [->|].
        { cbn. intros ->%elem_of_list_singleton. left. rewrite nb_scope, (not_has_nd s _ nb_x). reflexivity. }
        destruct (decide (n = x)) as [->|].
        { cbn. intros ->%elem_of_list_singleton. left. rewrite nb_scope. exact Has. }
        rewrite !nb_scope. fold (nd s n). intros Hq.
        destruct (S1 n q Hq) as [?|[?|(b & Hk1 & Hs1 & Hr1)]]; auto.
        right; right. exists b. rewrite nb_bd_some; [auto|]. eapply Hscope_some, Hs1.
      + intros n q b Hq Hn Hq'. rewrite nb_scope in Hn, Hq'. unfold inGen.
        rewrite nb_bd_some by (eapply Hscope_some, Hn).
        assert (Hn' : has s n).
        { destruct (decide (has s n)) as [|Hno]; [assumption|]. rewrite (not_has_nd s n Hno) in Hn. discriminate. }
        rewrite nb_nd_has in Hq by exact Hn'. apply S2; assumption.
      + intros b q. destruct (decide (b = x)) as [->|Hne].
        * rewrite nb_bd_x. cbn. discriminate.
        * unfold inGen. rewrite nb_bd by exact Hne. rewrite nb_scope. apply S3.
      + destruct S4 as (own & O1 & O2 & O3). exists own.
        assert (O1' : own_ok own s').
        { intros n b E. destruct (O1 n b E) as (A & B & C & D & F & G).
          rewrite !nb_scope, (nb_nd_has n A). split; [apply Hhas1, A|auto 10]. }
        assert (Hox : own x = None).
        { destruct (own x) as [b|] eqn:E; [|reflexivity]. destruct (nb_x (proj1 (O1 x b E))). }
        assert (HoSx : own (S x) = None).
        { destruct (own (S x)) as [b|] eqn:E; [|reflexivity]. destruct (nb_Sx (proj1 (O1 (S x) b E))). }
        assert (Hsc' : scopes_ok s').
        { intros n b. rewrite nb_scope, nb_binds. intros E. destruct (Iscopes n b E) as [Hb Hlt].
          split; [|exact Hlt]. rewrite lookup_insert_ne; [exact Hb|].
          intros <-. rewrite nb_binds_x in Hb. destruct Hb; discriminate. }
        split; [exact O1'|]. split.
        * intros n q. rewrite nb_nd. destruct (decide (n = S x)) as [->|].
          { cbn. intros ->%elem_of_list_singleton tq dq tn dn Cq Cn.
            apply gchain_plain in Cq as [-> ->]; [|rewrite nb_scope, (not_has_nd s _ nb_x); reflexivity|exact Hox].
            apply gchain_plain in Cn as [-> ->]; [|rewrite nb_scope, (not_has_nd s _ nb_Sx); reflexivity|exact HoSx].
            left. lia. }
          destruct (decide (n = x)) as [->|].
          { cbn. intros ->%elem_of_list_singleton tq dq tn dn Cq Cn.
            pose proof (gchain_top_le own s' Hsc' O1' a tq dq Cq) as Hle.
            apply gchain_plain in Cn as [-> ->]; [|rewrite nb_scope, (not_has_nd s _ nb_x); reflexivity|exact Hox].
            left. lia. }
          intros Hq. apply (gmu_lt_ext own s s' nb_scope). apply O2, Hq.
        * intros b r x0 q. rewrite nb_binds. destruct (decide (b = x)) as [->|Hne].
          -- rewrite lookup_insert. intros [= <-]. cbn. intros Hq. inversion Hq.
          -- rewrite lookup_insert_ne by congruence. intros Hr Hq.
             apply (gmu_lt_ext own s s' nb_scope), (O3 b r x0 q Hr Hq).
      + intros n q b0. rewrite (nb_nd n). destruct (decide (n = S x)) as [->|].
        { cbn. intros ->%elem_of_list_singleton _. reflexivity. }
        destruct (decide (n = x)) as [->|].
        { cbn. intros ->%elem_of_list_singleton Hkq. rewrite nb_nd_has in Hkq by exact Ha.
          rewrite Hkq in Hak. destruct Hak. }
        intros Hq Hkq. rewrite nb_nd_has in Hkq by (eapply (io_decl s Iids), Hq). apply (S5 n q b0 Hq Hkq).
    - (* valid *) destruct Ivalid as [V1 V2 V3 V4]. split.
      + intros n. rewrite nb_scope. destruct (nb_dyn n) as (_&_&_&_&_&_&_&_&->&_). apply V1.
      + intros n b Hn. rewrite nb_scope. intros E. unfold inGen.
        rewrite nb_bd_some by (eapply Hscope_some, E).
        assert (Hn' : has s n).
        { destruct (decide (has s n)) as [|Hno]; [assumption|]. rewrite (not_has_nd s n Hno) in E. discriminate. }
        rewrite nb_nd_has by exact Hn'. apply V2; assumption.
      + intros n b. unfold inGen. destruct (decide (b = x)) as [->|Hne].
        * rewrite nb_bd_x. cbn. intros H; inversion H.
        * rewrite nb_bd by exact Hne.
          destruct (nb_dyn n) as (_&_&_&_&_&_&_&_&->&_).
          destruct (nb_dyn b) as (_&_&_&_&_&_&_&_&->&_). apply V3.
      + intros n. destruct (nb_dyn n) as (_&_&_&_&_&_&_&_&->&_&->). apply V4.
    - apply (extend_edges s s' nb_dyn Iedges).
    - apply (extend_zero s s' nb_dyn Izero).
    - apply (extend_nec s s' nb_dyn Inec).
    - apply (extend_par s s' nb_dyn Hdecl Ipar).
    - apply (extend_height s s' nb_dyn); [|exact Smh|exact Iheight]. intros m _. apply nb_scope.
    - apply (extend_heap s s' nb_dyn Sheap Iheap).
    - apply (extend_count s s' nb_dyn Sreg Sobs Snum Icount).
    - apply (extend_obs s s'); try assumption.
      + rewrite Snext. unfold x. lia.
      + apply nb_dyn.
      + intros m _. apply nb_scope.
      + intros m Hm Hn. rewrite nb_binds, lookup_insert_ne; [exact Hn|]. intros <-. exact (nb_x Hm).
    - apply (extend_quiet s s' nb_dyn Sadj Sinvq Sstatus Ssd Ssr Sh Iquiet).
    - apply (extend_shape s s' Sadj Smh Ishape).
    - apply (extend_stamps s s' nb_dyn Sstab Istamps).
    - apply (extend_life s s' nb_dyn Slog Ilife).
  Qed.
End new_bind.

(** * Operation groups *)
Definition is_new (o : op) : bool :=
  match o with
  | NewVar _ _ | NewReturn _ | NewMap _ _ | NewMap2 _ _ _ | NewMapN _ _ | NewCutoff _ _
  | NewAlways _ | NewBind _ _ | NewBindMemo _ _ => true
  | _ => false
  end.

Lemma user_top s a : isUserNode s a = true -> isTop s a = true -> has s a /\ scope (nd s a) = None.
Proof. intros _ H. apply isTop_true, H. Qed.

Lemma user_top3 s a : isUserNode s a = true -> isTop s a = true ->
  has s a /\ scope (nd s a) = None /\ match nkind (nd s a) with KBindLhs _ => False | _ => True end.
Proof. intros [H1 H2]%isUserNode_true [_ H3]%isTop_true. auto. Qed.

Theorem Inv_step_new s o s' e :
  Inv s -> op_ok s o = true -> op_clean s o = true -> is_new o = true ->
  step s o = Ok (s', e) -> Inv s'.
Proof.
  intros HI Hok Hcl Hnew Hstep.
  destruct o; try discriminate; simpl in Hok, Hcl, Hstep; apply ok_inv in Hstep as [-> _].
  - apply Inv_newNode_top; [exact HI| |exact I]. intros p Hp; inversion Hp.
  - apply Inv_newNode_top; [exact HI| |exact I]. intros p Hp; inversion Hp.
  - apply Inv_newNode_top; [exact HI| |exact I].
    intros p ->%elem_of_list_singleton. apply user_top3; assumption.
  - apply andb_true_iff in Hcl as [H1 H2]. apply andb_true_iff in Hok as [K1 K2].
    apply Inv_newNode_top; [exact HI| |exact I].
    intros p Hp. apply elem_of_cons in Hp as [->|Hp]; [|apply elem_of_list_singleton in Hp as ->];
      apply user_top3; assumption.
  - apply Inv_newNode_top; [exact HI| |exact I].
    intros p Hp. rewrite forallb_forall in Hcl, Hok. apply elem_of_list_In in Hp. apply user_top3; auto.
  - apply Inv_newNode_top; [exact HI| |exact I].
    intros p ->%elem_of_list_singleton. apply user_top3; assumption.
  - apply Inv_newNode_top; [exact HI| |exact I].
    intros p ->%elem_of_list_singleton. apply user_top3; assumption.
  - apply andb_true_iff in Hcl as [H1 H2]. apply andb_true_iff in Hok as [[K1 _]%andb_true_iff H3].
    destruct (user_top3 _ _ K1 H1) as (Ha & Hs & Hk).
    refine (Inv_newBind_top s cases a HI Ha Hs Hk _ false _); [|discriminate].
    rewrite forallb_forall in H2, H3. apply Forall_forall. intros c Hc.
    apply (texp_ok_wf s (inv_ids s HI) c true); [apply H3|apply H2]; exact Hc.
  - apply andb_true_iff in Hcl as [[H1 H2]%andb_true_iff H4]. apply andb_true_iff in Hok as [[K1 _]%andb_true_iff H3].
    destruct (user_top3 _ _ K1 H1) as (Ha & Hs & Hk).
    refine (Inv_newBind_top s cases a HI Ha Hs Hk _ true _).
    + rewrite forallb_forall in H2, H3. apply Forall_forall. intros c Hc.
      apply (texp_ok_wf s (inv_ids s HI) c true); [apply H3|apply H2]; exact Hc.
    + intros _. rewrite forallb_forall in H4. apply Forall_forall. intros c Hc. apply H4, Hc.
Qed.

(** * States with the same structure: everything but stamps, values, the heap, the log and
      the pass bookkeeping ([status], [stabNum], [setDuring], [setRemoved], [handlers]) *)
Definition struct_eq (x y : node) : Prop :=
  nkind x = nkind y /\ decl x = decl y /\ scope x = scope y /\ height x = height y /\
  hAdj x = hAdj y /\ parents x = parents y /\ children x = children y /\
  observers x = observers y /\ valid x = valid y /\ forceNec x = forceNec y /\
  inGraph x = inGraph y.

Record same_struct (s s' : state) : Prop := {
  ss_next : next s' = next s;
  ss_binds : binds s' = binds s;
  ss_has : forall n, has s' n <-> has s n;
  ss_reg : reg s' = reg s;
  ss_obs : obs s' = obs s;
  ss_adj : adj s' = adj s;
  ss_invq : invq s' = invq s;
  ss_numNodes : numNodes s' = numNodes s;
  ss_maxHeight : maxHeight s' = maxHeight s;
  ss_node : forall n, struct_eq (nd s' n) (nd s n)
}.

Lemma struct_eq_refl x : struct_eq x x.
Proof. repeat split. Qed.

Lemma struct_eq_trans x y z : struct_eq x y -> struct_eq y z -> struct_eq x z.
Proof.
  intros (?&?&?&?&?&?&?&?&?&?&?) (?&?&?&?&?&?&?&?&?&?&?). repeat split; congruence.
Qed.

Lemma same_struct_refl s : same_struct s s.
Proof. split; try reflexivity. intros; apply struct_eq_refl. Qed.

Lemma same_struct_trans s1 s2 s3 : same_struct s1 s2 -> same_struct s2 s3 -> same_struct s1 s3.
Proof.
  intros [] []. split; try congruence.
  - intros n. rewrite ss_has1. apply ss_has0.
  - intros n. eapply struct_eq_trans; eauto.
Qed.

(* an update of fields outside the structure *)
Lemma same_struct_upd s n f : (forall x, struct_eq (f x) x) -> same_struct s (upd s n f).
Proof.
  intros Hf. split; try reflexivity.
  - intros m. apply has_upd.
  - intros m. destruct (decide (has s n)) as [Hn|Hn].
    + rewrite nd_upd by exact Hn. destruct (decide (m = n)) as [->|]; [apply Hf|apply struct_eq_refl].
    + rewrite upd_missing by exact Hn. apply struct_eq_refl.
Qed.

Lemma same_struct_only_heap s s' : only_heap s s' -> same_struct s s'.
Proof.
  intros H. split.
  - apply (oh_next s s' H).
  - apply (oh_binds s s' H).
  - intros n. apply (oh_has s s' H).
  - apply (oh_reg s s' H).
  - apply (oh_obs s s' H).
  - apply (oh_adj s s' H).
  - apply (oh_invq s s' H).
  - apply (oh_numNodes s s' H).
  - apply (oh_maxHeight s s' H).
  - intros n. rewrite (oh_nd s s' H). apply struct_eq_refl.
Qed.

Section struct.
  Context (s s' : state) (HS : same_struct s s').
  Local Ltac st n := destruct (ss_node s s' HS n) as (Sk & Sd & Ssc & Sh & Shj & Sp & Sc & So & Sv & Sf & Sg).

  Lemma struct_Inv :
    Inv s -> heap_ok s' -> quiet s' -> stamps_ok s' -> life_ok s' -> Inv s'.
  Proof.
    intros [Iids Ibinds Ikinds Iscopes Iscoping Ivalid Iedges Izero Inec Ipar Iheight Iheap
            Icount Iobs Iquiet Ishape Istamps Ilife] Hheap Hquiet Hstamps Hlife.
    destruct HS as [Snext Sbinds Shas Sreg Sobs Sadj Sinvq Snum Smh Snode].
    assert (Hk : forall n, nkind (nd s' n) = nkind (nd s n)) by (intros n; apply Snode).
    assert (Hd : forall n, decl (nd s' n) = decl (nd s n)) by (intros n; apply Snode).
    assert (Hsc : forall n, scope (nd s' n) = scope (nd s n)) by (intros n; apply Snode).
    assert (Hh : forall n, height (nd s' n) = height (nd s n)) by (intros n; apply Snode).
    assert (Hp : forall n, parents (nd s' n) = parents (nd s n)) by (intros n; apply Snode).
    assert (Hc : forall n, children (nd s' n) = children (nd s n)) by (intros n; apply Snode).
    assert (Ho : forall n, observers (nd s' n) = observers (nd s n)) by (intros n; apply Snode).
    assert (Hv : forall n, valid (nd s' n) = valid (nd s n)) by (intros n; apply Snode).
    assert (Hf : forall n, forceNec (nd s' n) = forceNec (nd s n)) by (intros n; apply Snode).
    assert (Hg : forall n, inGraph (nd s' n) = inGraph (nd s n)) by (intros n; apply Snode).
    constructor; try assumption.
    - eapply ids_ok_ext; eauto.
    - eapply binds_wf_ext; eauto.
    - eapply kinds_ok_ext; eauto.
    - eapply scopes_ok_ext; eauto.
    - eapply scoping_ok_ext; eauto.
    - eapply valid_ok_ext; eauto.
    - eapply edges_ok_ext; eauto.
    - eapply zero_ok_ext; eauto.
    - eapply nec_ok_ext; eauto.
    - eapply par_ok_ext; eauto.
    - eapply height_ok_ext; eauto.
    - eapply count_ok_ext; eauto.
    - eapply obs_ok_ext; eauto.
    - eapply shape_ok_ext; eauto.
  Qed.
End struct.

(** * Queuing a node: [setStale], [varSet] *)
(** a node with a height is registered and its height is not negative *)
Definition hreg_ok (s : state) : Prop :=
  forall n, height (nd s n) <> unset -> inGraph (nd s n) = true /\ 0 <= height (nd s n).

Lemma Inv_hreg s : zero_ok s -> height_ok s -> hreg_ok s.
Proof.
  intros Hz Hh n Hn. destruct (inGraph (nd s n)) eqn:E.
  - split; [reflexivity|]. apply (Hh n E).
  - destruct (Hz n E) as (_ & _ & _ & Hu). contradiction.
Qed.

Lemma hreg_ok_struct s s' : same_struct s s' -> hreg_ok s -> hreg_ok s'.
Proof.
  intros HS H n. destruct (ss_node s s' HS n) as (_&_&_&Sh&_&_&_&_&_&_&Sg). rewrite Sh, Sg. apply H.
Qed.

Lemma heap_ok_struct s s' : same_struct s s' -> heap s' = heap s -> heap_ok s -> heap_ok s'.
Proof.
  intros HS Hw. apply heap_ok_ext; [exact Hw| |]; intros n; apply (ss_node s s' HS n).
Qed.

(* queueing a registered node at its height *)
Lemma heap_ok_heapAdd s n s' :
  heap_ok s -> inHeap s n = false -> inGraph (nd s n) = true -> 0 <= height (nd s n) ->
  heapAdd s n = Ok s' -> only_heap s s' /\ heap_ok s'.
Proof.
  intros [Hi Hq] Hm Hg Hh H.
  destruct (heapAdd_spec s n s' Hi Hm Hh H) as (F & I' & P & Hin).
  split; [exact F|]. split; [exact I'|].
  intros m. rewrite (oh_nd s s' F), P, Hin, elem_of_cons.
  destruct (decide (m = n)) as [->|Hne]; [auto|]. intros [?|Hm']; [contradiction|]. apply Hq, Hm'.
Qed.

Lemma heap_ok_heapAddIfNotPresent s n s' :
  heap_ok s -> inGraph (nd s n) = true -> 0 <= height (nd s n) ->
  heapAddIfNotPresent s n = Ok s' -> only_heap s s' /\ heap_ok s'.
Proof.
  intros Hk Hg Hh H. unfold heapAddIfNotPresent in H. destruct (inHeap s n) eqn:Hm.
  - injection H as <-. split; [apply only_heap_refl|exact Hk].
  - eapply heap_ok_heapAdd; eauto.
Qed.

(** what [setStale]/[varSet] may do to a node record: only [value], [pending], [setAt] move *)
Definition var_rel (k : Z) (x' x : node) : Prop :=
  struct_eq x' x /\ recomputedAt x' = recomputedAt x /\ changedAt x' = changedAt x /\
  (setAt x' = setAt x \/ setAt x' = k).

Lemma var_rel_refl k x : var_rel k x x.
Proof. split; [apply struct_eq_refl|]. auto. Qed.

Lemma var_rel_trans k x y z : var_rel k x y -> var_rel k y z -> var_rel k x z.
Proof.
  intros (S1 & ? & ? & H1) (S2 & ? & ? & H2). split; [eapply struct_eq_trans; eauto|].
  split; [congruence|]. split; [congruence|]. destruct H1 as [-> | ->]; auto.
Qed.

Record var_step (s s' : state) : Prop := {
  vs_struct : same_struct s s';
  vs_nodes : forall m, var_rel (stabNum s) (nd s' m) (nd s m);
  vs_stabNum : stabNum s' = stabNum s;
  vs_status : status s' = status s;
  vs_setRemoved : setRemoved s' = setRemoved s;
  vs_handlers : handlers s' = handlers s;
  vs_log : log s' = log s
}.

Lemma var_step_refl s : var_step s s.
Proof. split; try reflexivity; [apply same_struct_refl|]. intros; apply var_rel_refl. Qed.

Lemma var_step_trans s1 s2 s3 : var_step s1 s2 -> var_step s2 s3 -> var_step s1 s3.
Proof.
  intros [] []. split; try congruence.
  - eapply same_struct_trans; eauto.
  - intros m. eapply var_rel_trans; [|apply vs_nodes0]. rewrite <- vs_stabNum0. apply vs_nodes1.
Qed.

Lemma var_step_upd s n f :
  (forall x, var_rel (stabNum s) (f x) x) -> var_step s (upd s n f).
Proof.
  intros Hf. split; try reflexivity.
  - apply same_struct_upd. intros x. apply Hf.
  - intros m. destruct (decide (has s n)) as [Hn|Hn].
    + rewrite nd_upd by exact Hn. destruct (decide (m = n)) as [->|]; [apply Hf|apply var_rel_refl].
    + rewrite upd_missing by exact Hn. apply var_rel_refl.
Qed.

Lemma var_step_only_heap s s' : only_heap s s' -> var_step s s'.
Proof.
  intros H. split.
  - apply same_struct_only_heap, H.
  - intros m. rewrite (oh_nd s s' H). apply var_rel_refl.
  - apply (oh_stabNum s s' H).
  - apply (oh_status s s' H).
  - apply (oh_setRemoved s s' H).
  - apply (oh_handlers s s' H).
  - apply (oh_log s s' H).
Qed.

Lemma stamps_ok_var s s' : var_step s s' -> stamps_ok s -> stamps_ok s'.
Proof.
  intros V [H1 H2]. split; [rewrite (vs_stabNum s s' V); exact H1|].
  intros m. destruct (vs_nodes s s' V m) as (_ & -> & -> & Hs). rewrite (vs_stabNum s s' V).
  destruct (H2 m) as (? & ? & ?). destruct Hs as [-> | ->]; repeat split; lia.
Qed.

Lemma life_ok_var s s' : var_step s s' -> life_ok s -> life_ok s'.
Proof.
  intros V. apply life_ok_ext; [apply (vs_log s s' V)| |]; intros n; apply (ss_node s s' (vs_struct s s' V) n).
Qed.

Lemma setStale_spec s n s' :
  hreg_ok s -> heap_ok s -> setStale s n = Ok s' ->
  var_step s s' /\ heap_ok s' /\ setDuring s' = setDuring s.
Proof.
  intros Hr Hk H. apply setStale_inv in H as [[Hu ->]|[Hu H]].
  - split; [apply var_step_refl|auto].
  - destruct (Hr n Hu) as [Hg Hh].
    set (s1 := upd s n (set setAt (fun _ => stabNum s))) in *. cbn zeta in H.
    assert (V1 : var_step s s1).
    { apply var_step_upd. intros x. split; [repeat split|]. cbn. auto. }
    assert (Hk1 : heap_ok s1) by (apply (heap_ok_struct s s1 (vs_struct _ _ V1)); [reflexivity|exact Hk]).
    destruct H as [[_ ->]|[Hm H]]; [auto|].
    destruct (heap_ok_heapAdd s1 n s' Hk1) as [F Hk']; try assumption.
    + unfold s1. rewrite nd_upd_proj by reflexivity. exact Hg.
    + unfold s1. rewrite nd_upd_proj by reflexivity. exact Hh.
    + split; [eapply var_step_trans; [exact V1|apply var_step_only_heap, F]|].
      split; [exact Hk'|]. rewrite (oh_setDuring s1 s' F). reflexivity.
Qed.

Lemma varSet_spec s v x s' :
  hreg_ok s -> heap_ok s -> varSet s v x = Ok s' ->
  var_step s s' /\ heap_ok s' /\
  (if status s =? 1 then True else setDuring s' = setDuring s).
Proof.
  intros Hr Hk H. unfold varSet in H.
  destruct (_ && _ && _).
  { injection H as <-. split; [apply var_step_refl|]. split; [exact Hk|]. destruct (status s =? 1); auto. }
  destruct (status s =? 1) eqn:Est.
  - injection H as <-. split; [|split; [|exact I]].
    + split; try reflexivity.
      * split; try reflexivity.
        -- intros n. apply has_upd.
        -- intros n. apply (ss_node _ _ (same_struct_upd s v (set pending (fun _ => Some x)) ltac:(intros; repeat split)) n).
      * intros m. apply (vs_nodes _ _ (var_step_upd s v (set pending (fun _ => Some x)) ltac:(intros; split; [repeat split|cbn; auto])) m).
    + apply (heap_ok_struct s); [|reflexivity|exact Hk].
      split; try reflexivity; [intros n; apply has_upd|].
      intros n. apply (ss_node _ _ (same_struct_upd s v (set pending (fun _ => Some x)) ltac:(intros; repeat split)) n).
  - set (s1 := upd s v (set value (fun _ => x))) in *.
    assert (V1 : var_step s s1) by (apply var_step_upd; intros; split; [repeat split|cbn; auto]).
    assert (Hk1 : heap_ok s1) by (apply (heap_ok_struct s s1 (vs_struct _ _ V1)); [reflexivity|exact Hk]).
    destruct (isNecessary (nd s1 v)).
    + destruct (setStale_spec s1 v s') as (V2 & Hk2 & Hsd); try assumption.
      * apply (hreg_ok_struct s s1 (vs_struct _ _ V1) Hr).
      * split; [eapply var_step_trans; eauto|]. split; [exact Hk2|exact Hsd].
    + injection H as <-. auto.
Qed.

Lemma varUpdate_spec s v d s' :
  hreg_ok s -> heap_ok s -> varUpdate s v d = Ok s' ->
  var_step s s' /\ heap_ok s' /\
  (if status s =? 1 then True else setDuring s' = setDuring s).
Proof. unfold varUpdate. apply varSet_spec. Qed.

Definition is_setvar (o : op) : bool :=
  match o with SetVar _ _ | UpdateVar _ _ => true | _ => false end.

Lemma Inv_var_step s s' :
  Inv s -> var_step s s' -> heap_ok s' -> setDuring s' = setDuring s -> Inv s'.
Proof.
  intros HI V Hk Hsd. apply (struct_Inv s s' (vs_struct s s' V) HI Hk).
  - pose proof (vs_struct s s' V) as HS.
    apply (quiet_ext s s'); try (apply HS); try (apply V); try assumption; try (apply HI);
      try (intros n; apply (ss_node s s' HS n)).
  - apply (stamps_ok_var s s' V), HI.
  - apply (life_ok_var s s' V), HI.
Qed.

(** * No operation of a clean history crashes *)
Definition nocrash {A} (m : res A) : Prop := forall c, m <> Crash c.

Lemma nc_Ok {A} (a : A) : nocrash (Ok a).
Proof. intros c H. discriminate. Qed.
Lemma nc_fuel {A} : nocrash (@OutOfFuel A).
Proof. intros c H. discriminate. Qed.
Lemma nc_ex {A} (m : res A) : (exists a, m = Ok a) -> nocrash m.
Proof. intros [a ->]. apply nc_Ok. Qed.

Lemma nc_rbind {A B} (m : res A) (k : A -> res B) :
  nocrash m -> (forall a, m = Ok a -> nocrash (k a)) -> nocrash (rbind m k).
Proof.
  intros Hm Hk c. destruct m as [a|c'|]; simpl.
  - apply (Hk a eq_refl).
  - intros _. apply (Hm c'). reflexivity.
  - discriminate.
Qed.

Lemma nc_ebind (m : M) (k : state -> M) :
  nocrash m -> (forall s, m = Ok (s, None) -> nocrash (k s)) -> nocrash (ebind m k).
Proof.
  intros Hm Hk. unfold ebind. apply nc_rbind; [exact Hm|]. intros [s e] E.
  destruct e; [apply nc_Ok|apply Hk, E].
Qed.

Lemma nc_lift (m : res state) : nocrash m -> nocrash (lift m).
Proof. intros H. unfold lift. apply nc_rbind; [exact H|]. intros s _. apply nc_Ok. Qed.

Lemma nc_ok s : nocrash (ok s). Proof. apply nc_Ok. Qed.
Lemma nc_fail s x : nocrash (fail s x). Proof. apply nc_Ok. Qed.

Lemma nc_rfold {A S} (I : list A -> S -> Prop) (f : S -> A -> res S) l s :
  I l s ->
  (forall a l' s, I (a :: l') s -> nocrash (f s a) /\ forall s1, f s a = Ok s1 -> I l' s1) ->
  nocrash (rfold f l s).
Proof.
  intros HI Hstep. revert s HI. induction l as [|a l IH]; intros s HI; simpl; [apply nc_Ok|].
  destruct (Hstep a l s HI) as [Hn Hp]. apply nc_rbind; [exact Hn|]. intros s1 E. apply IH, Hp, E.
Qed.

Lemma nc_efold {A} (I : list A -> state -> Prop) (f : state -> A -> M) l s :
  I l s ->
  (forall a l' s, I (a :: l') s -> nocrash (f s a) /\ forall s1, f s a = Ok (s1, None) -> I l' s1) ->
  nocrash (efold f l s).
Proof.
  intros HI Hstep. revert s HI. induction l as [|a l IH]; intros s HI; simpl; [apply nc_Ok|].
  destruct (Hstep a l s HI) as [Hn Hp]. apply nc_ebind; [exact Hn|]. intros s1 E. apply IH, Hp, E.
Qed.

(** ** heap primitives *)
Lemma nc_heapAdd s n : hinv (heap s) -> inHeap s n = false -> 0 <= height (nd s n) -> nocrash (heapAdd s n).
Proof. intros H1 H2 H3. apply nc_ex, heapAdd_total; assumption. Qed.

Lemma nc_heapRemove s n : hinv (heap s) -> inHeap s n = true -> nocrash (heapRemove s n).
Proof. intros H1 H2. apply nc_ex, heapRemove_total; assumption. Qed.

Lemma nc_heapFix s n : hinv (heap s) -> inHeap s n = true -> 0 <= height (nd s n) -> nocrash (heapFix s n).
Proof. intros H1 H2 H3. apply nc_ex, heapFix_total; assumption. Qed.

Lemma nc_heapAddIfNotPresent s n : hinv (heap s) -> 0 <= height (nd s n) -> nocrash (heapAddIfNotPresent s n).
Proof.
  intros H1 H3. unfold heapAddIfNotPresent. destruct (inHeap s n) eqn:E; [apply nc_Ok|apply nc_heapAdd; assumption].
Qed.

Lemma nc_setStale s n : hreg_ok s -> heap_ok s -> nocrash (setStale s n).
Proof.
  intros Hr [Hi _]. unfold setStale. destruct (Z.eqb_spec (height (nd s n)) unset) as [|Hu]; [apply nc_Ok|].
  set (s1 := upd s n (set setAt (fun _ => stabNum s))).
  destruct (inHeap s1 n) eqn:E; [apply nc_Ok|]. apply nc_heapAdd; [exact Hi|exact E|].
  unfold s1. rewrite nd_upd_proj by reflexivity. apply (Hr n Hu).
Qed.

Lemma nc_varSet s v x : hreg_ok s -> heap_ok s -> nocrash (varSet s v x).
Proof.
  intros Hr Hk. unfold varSet. destruct (_ && _ && _); [apply nc_Ok|]. destruct (status s =? 1); [apply nc_Ok|].
  set (s1 := upd s v (set value (fun _ => x))).
  assert (Hr1 : hreg_ok s1).
  { intros n. unfold s1. rewrite !nd_upd_proj by reflexivity. apply Hr. }
  assert (Hk1 : heap_ok s1).
  { apply (heap_ok_ext s s1); auto; intros n; unfold s1; apply nd_upd_proj; reflexivity. }
  destruct (isNecessary (nd s1 v)); [apply nc_setStale; assumption|apply nc_Ok].
Qed.

Lemma nc_varUpdate s v d : hreg_ok s -> heap_ok s -> nocrash (varUpdate s v d).
Proof. intros. unfold varUpdate. apply nc_varSet; assumption. Qed.


Theorem Inv_step_setvar s o s' e :
  Inv s -> op_ok s o = true -> is_setvar o = true -> step s o = Ok (s', e) -> Inv s'.
Proof.
  intros HI Hok Hg Hstep.
  assert (Hr : hreg_ok s) by (apply Inv_hreg; apply HI).
  assert (Hst : (status s =? 1) = false) by (rewrite (q_status s (inv_quiet s HI)); reflexivity).
  destruct o; try discriminate; simpl in Hstep; apply lift_inv in Hstep as [H _].
  - destruct (varSet_spec s v x s' Hr (inv_heap s HI) H) as (V & Hk & Hsd). rewrite Hst in Hsd.
    eapply Inv_var_step; eauto.
  - destruct (varUpdate_spec s v d s' Hr (inv_heap s HI) H) as (V & Hk & Hsd). rewrite Hst in Hsd.
    eapply Inv_var_step; eauto.
Qed.

Theorem nc_step_setvar s o : Inv s -> is_setvar o = true -> nocrash (step s o).
Proof.
  intros HI Hg.
  assert (Hr : hreg_ok s) by (apply Inv_hreg; apply HI).
  destruct o; try discriminate; simpl; apply nc_lift.
  - apply nc_varSet; [exact Hr|apply HI].
  - apply nc_varUpdate; [exact Hr|apply HI].
Qed.

(** * Teardown: [removeParents] / [checkIfUnnecessary] / [removeNode] *)

(** ** What teardown never touches (no invariant needed) *)
Definition is_unnec (e : event) : Prop := exists n, e = EvUnnec n.

Record td_frame (s s' : state) : Prop := {
  tf_next : next s' = next s;
  tf_binds : binds s' = binds s;
  tf_obs : obs s' = obs s;
  tf_adj : adj s' = adj s;
  tf_invq : invq s' = invq s;
  tf_stabNum : stabNum s' = stabNum s;
  tf_status : status s' = status s;
  tf_maxHeight : maxHeight s' = maxHeight s;
  tf_has : forall m, has s' m <-> has s m;
  tf_static : forall m, nkind (nd s' m) = nkind (nd s m) /\ decl (nd s' m) = decl (nd s m) /\
                        scope (nd s' m) = scope (nd s m) /\ forceNec (nd s' m) = forceNec (nd s m) /\
                        value (nd s' m) = value (nd s m) /\ pending (nd s' m) = pending (nd s m);
  tf_hadj : forall m, hAdj (nd s' m) = hAdj (nd s m) \/ hAdj (nd s' m) = unset;
  tf_stamps : forall m,
      (recomputedAt (nd s' m) = recomputedAt (nd s m) /\ changedAt (nd s' m) = changedAt (nd s m) /\
       setAt (nd s' m) = setAt (nd s m)) \/
      (recomputedAt (nd s' m) = 0 /\ changedAt (nd s' m) = 0 /\ setAt (nd s' m) = 0);
  tf_log : exists l, log s' = l ++ log s /\ Forall is_unnec l;
  tf_handlers : forall x, x ∈ handlers s' -> x ∈ handlers s;
  tf_setDuring : forall x, x ∈ setDuring s' -> x ∈ setDuring s;
  tf_setRemoved : setDuring s = [] -> setRemoved s' = setRemoved s;
  tf_setRemoved2 : forall x, x ∈ setRemoved s' -> x ∈ setRemoved s \/ x ∈ setDuring s
}.

Lemma td_frame_refl s : td_frame s s.
Proof.
  split; try reflexivity; auto; try (intros m; repeat split; fail).
  exists []. split; [reflexivity|constructor].
Qed.

Lemma td_frame_trans s1 s2 s3 : td_frame s1 s2 -> td_frame s2 s3 -> td_frame s1 s3.
Proof.
  intros A B. split.
  - rewrite (tf_next _ _ B). apply A.
  - rewrite (tf_binds _ _ B). apply A.
  - rewrite (tf_obs _ _ B). apply A.
  - rewrite (tf_adj _ _ B). apply A.
  - rewrite (tf_invq _ _ B). apply A.
  - rewrite (tf_stabNum _ _ B). apply A.
  - rewrite (tf_status _ _ B). apply A.
  - rewrite (tf_maxHeight _ _ B). apply A.
  - intros m. rewrite (tf_has _ _ B). apply A.
  - intros m. destruct (tf_static _ _ A m) as (?&?&?&?&?&?), (tf_static _ _ B m) as (?&?&?&?&?&?).
    repeat split; congruence.
  - intros m. destruct (tf_hadj _ _ B m) as [->|]; [apply A|auto].
  - intros m. destruct (tf_stamps _ _ B m) as [(-> & -> & ->)|?]; [apply A|auto].
  - destruct (tf_log _ _ A) as (l1 & E1 & F1), (tf_log _ _ B) as (l2 & E2 & F2).
    exists (l2 ++ l1). rewrite E2, E1, app_assoc. split; [reflexivity|]. apply Forall_app; auto.
  - intros x Hx. apply A, B, Hx.
  - intros x Hx. apply A, B, Hx.
  - intros E. rewrite (tf_setRemoved _ _ B); [apply A, E|].
    destruct (setDuring s2) as [|y l] eqn:E2; [reflexivity|].
    assert (y ∈ setDuring s1) as Hy by (apply A; rewrite E2; left). rewrite E in Hy. inversion Hy.
  - intros x Hx. destruct (tf_setRemoved2 _ _ B x Hx) as [Hx'|Hx'].
    + apply (tf_setRemoved2 _ _ A x Hx').
    + right. apply (tf_setDuring _ _ A x Hx').
Qed.

Lemma td_frame_unlink s c p : td_frame s (unlink s c p).
Proof.
  split; try reflexivity; auto;
    try (intros m; autorewrite with eng; repeat split; fail);
    try (intros m; left; autorewrite with eng; auto; fail).
  - intros m. apply has_unlink.
  - exists []. split; [reflexivity|constructor].
Qed.

Lemma td_frame_emit s n : td_frame s (emit (EvUnnec n) s).
Proof.
  split; try reflexivity; auto; try (intros m; repeat split; fail).
  exists [EvUnnec n]. split; [reflexivity|]. constructor; [eexists; reflexivity|constructor].
Qed.

Lemma td_frame_removeNode s n s' : removeNode s n = Ok s' -> td_frame s s'.
Proof.
  intros H. split.
  - apply (next_removeNode s n s' H).
  - apply (binds_removeNode s n s' H).
  - apply (obs_removeNode s n s' H).
  - apply (adj_removeNode s n s' H).
  - apply (invq_removeNode s n s' H).
  - apply (stabNum_removeNode s n s' H).
  - apply (status_removeNode s n s' H).
  - apply (maxHeight_removeNode s n s' H).
  - apply (has_removeNode s n s' H).
  - intros m. rewrite (nkind_nd_removeNode s n s' H), (decl_nd_removeNode s n s' H),
      (scope_nd_removeNode s n s' H), (forceNec_nd_removeNode s n s' H),
      (value_nd_removeNode s n s' H), (pending_nd_removeNode s n s' H). repeat split.
  - intros m. rewrite (hAdj_nd_removeNode s n s' H). destruct (decide (m = n)); auto.
  - intros m. rewrite (recomputedAt_nd_removeNode s n s' H), (changedAt_nd_removeNode s n s' H),
      (setAt_nd_removeNode s n s' H). destruct (decide (m = n)); auto.
  - exists []. split; [apply (log_removeNode s n s' H)|constructor].
  - intros x. rewrite (handlers_removeNode s n s' H), elem_of_rm. tauto.
  - intros x. rewrite (setDuring_removeNode s n s' H), elem_of_rm. tauto.
  - intros E. rewrite (setRemoved_removeNode s n s' H), E.
    rewrite bool_decide_eq_false_2; [reflexivity|]. intros Hx; inversion Hx.
  - intros x. rewrite (setRemoved_removeNode s n s' H). case_bool_decide as Hn; [|auto].
    rewrite elem_of_app, elem_of_list_singleton. intros [?| ->]; auto.
Qed.

Lemma rfold_td_frame {A} (f : state -> A -> res state) l s s' :
  (forall a s s1, f s a = Ok s1 -> td_frame s s1) -> rfold f l s = Ok s' -> td_frame s s'.
Proof.
  intros Hf. revert s. induction l as [|a l IH]; intros s H; simpl in H.
  - injection H as <-. apply td_frame_refl.
  - apply rbind_ok in H as (s1 & E & H). eapply td_frame_trans; [eapply Hf, E|apply IH, H].
Qed.

Lemma checkIfUnnecessary_unfold fuel s p :
  checkIfUnnecessary fuel s p =
  if isNecessary (nd s p) then Ok s
  else if negb (inGraph (nd s p)) then Ok s
  else s1 <-! removeParents fuel (emit (EvUnnec p) s) p; removeNode s1 p.
Proof. reflexivity. Qed.

Lemma removeParents_S fuel s child :
  removeParents (S fuel) s child =
  rfold (fun s p => checkIfUnnecessary fuel (unlink s child p) p) (dedup_first [] (decl (nd s child))) s.
Proof. reflexivity. Qed.

Lemma teardown_frame fuel :
  (forall s c s', removeParents fuel s c = Ok s' -> td_frame s s') /\
  (forall s p s', checkIfUnnecessary fuel s p = Ok s' -> td_frame s s').
Proof.
  induction fuel as [|fuel [IH1 IH2]].
  - split; [intros s c s' H; discriminate|].
    intros s p s'. rewrite checkIfUnnecessary_unfold.
    destruct (isNecessary (nd s p)); [intros [= <-]; apply td_frame_refl|].
    destruct (negb (inGraph (nd s p))); [intros [= <-]; apply td_frame_refl|]. discriminate.
  - assert (H1 : forall s c s', removeParents (S fuel) s c = Ok s' -> td_frame s s').
    { intros s c s'. rewrite removeParents_S. apply rfold_td_frame.
      intros a s0 s1 H. eapply td_frame_trans; [apply td_frame_unlink|]. eapply IH2, H. }
    split; [exact H1|].
    intros s p s'. rewrite checkIfUnnecessary_unfold.
    destruct (isNecessary (nd s p)); [intros [= <-]; apply td_frame_refl|].
    destruct (negb (inGraph (nd s p))); [intros [= <-]; apply td_frame_refl|].
    intros H. apply rbind_ok in H as (s1 & E & H).
    eapply td_frame_trans; [apply td_frame_emit|].
    eapply td_frame_trans; [eapply H1, E|eapply td_frame_removeNode, H].
Qed.

(** ** The teardown invariant: [W] is the stack of nodes being torn down (registered, no longer
       necessary, [EvUnnec] already logged); [E] exempts one node from "registered iff necessary" *)
Record TInv (W : list nid) (E : nid -> Prop) (s : state) : Prop := {
  t_edges : edges_ok s;
  t_zero : zero_ok s;
  t_nec : forall n, n ∉ W -> ~ E n -> inGraph (nd s n) = isNecessary (nd s n);
  t_necE : forall n, E n -> isNecessary (nd s n) = true -> inGraph (nd s n) = true;
  t_W : forall w, w ∈ W -> inGraph (nd s w) = true /\ isNecessary (nd s w) = false;
  t_par : forall n, n ∉ W -> inGraph (nd s n) = true -> parents (nd s n) = decl (nd s n);
  t_height : height_ok s;
  t_heap : heap_ok s;
  t_count : count_ok s;
  t_obs : obs_ok s;
  t_valid : forall n, inGraph (nd s n) = true -> valid (nd s n) = true;
  t_log : log_ok (log s);
  t_life : forall n, n ∉ W -> (inGraph (nd s n) = true <-> lastNU (log s) n = Some true);
  t_lifeW : forall w, w ∈ W -> lastNU (log s) w = Some false;
  t_nodup : NoDup W
}.

Definition noE : nid -> Prop := fun _ => False.

Lemma edges_ok_unlink s c p : edges_ok s -> edges_ok (unlink s c p).
Proof.
  intros H m q. rewrite parents_nd_unlink, children_nd_unlink.
  destruct (decide (m = c)) as [->|Hm], (decide (q = p)) as [->|Hq].
  - rewrite !count_rm, !decide_True by reflexivity. reflexivity.
  - rewrite count_rm, decide_False by exact Hq. apply H.
  - rewrite count_rm, decide_False by exact Hm. apply H.
  - apply H.
Qed.

(** [s1] is [s] with the edge [c -> p] removed on both endpoints; [decl c] may differ *)
Record unlink_like (s s1 : state) (c p : nid) : Prop := {
  ul_par : forall m, parents (nd s1 m) = if decide (m = c) then rm p (parents (nd s m)) else parents (nd s m);
  ul_chi : forall m, children (nd s1 m) = if decide (m = p) then rm c (children (nd s m)) else children (nd s m);
  ul_decl : forall m, m <> c -> decl (nd s1 m) = decl (nd s m);
  ul_inGraph : forall m, inGraph (nd s1 m) = inGraph (nd s m);
  ul_observers : forall m, observers (nd s1 m) = observers (nd s m);
  ul_forceNec : forall m, forceNec (nd s1 m) = forceNec (nd s m);
  ul_height : forall m, height (nd s1 m) = height (nd s m);
  ul_valid : forall m, valid (nd s1 m) = valid (nd s m);
  ul_scope : forall m, scope (nd s1 m) = scope (nd s m);
  ul_has : forall m, has s1 m <-> has s m;
  ul_maxHeight : maxHeight s1 = maxHeight s;
  ul_heap : heap s1 = heap s;
  ul_reg : reg s1 = reg s;
  ul_obs : obs s1 = obs s;
  ul_numNodes : numNodes s1 = numNodes s;
  ul_next : next s1 = next s;
  ul_log : log s1 = log s;
  ul_binds : binds s1 = binds s
}.

Lemma unlink_like_unlink s c p : unlink_like s (unlink s c p) c p.
Proof.
  split; intros; autorewrite with eng; try reflexivity.
  - apply parents_nd_unlink.
  - apply children_nd_unlink.
  - apply has_unlink.
Qed.

Lemma TInv_unlink_like W s s1 c p :
  TInv W noE s -> unlink_like s s1 c p ->
  (forall n, n ∉ W -> inGraph (nd s n) = true -> parents (nd s1 n) = decl (nd s1 n)) ->
  TInv W (eq p) s1.
Proof.
  intros T U Hpar.
  pose proof (ul_inGraph _ _ _ _ U) as Hg. pose proof (ul_observers _ _ _ _ U) as Hob.
  pose proof (ul_forceNec _ _ _ _ U) as Hf. pose proof (ul_height _ _ _ _ U) as Hh.
  pose proof (ul_par _ _ _ _ U) as Hp. pose proof (ul_chi _ _ _ _ U) as Hc.
  assert (Hnec : forall n, isNecessary (nd s1 n) = true -> isNecessary (nd s n) = true).
  { intros n. rewrite !isNecessary_true, Hf, Hob, Hc.
    destruct (decide (n = p)) as [->|]; [|tauto].
    intros [?|[Hc'|?]]; auto. right; left. intros E. rewrite E in Hc'. apply Hc'. reflexivity. }
  assert (Hnec' : forall n, n <> p -> isNecessary (nd s1 n) = isNecessary (nd s n)).
  { intros n Hn. apply isNecessary_ext; auto. rewrite Hc, decide_False by exact Hn. reflexivity. }
  constructor.
  - intros m q. rewrite Hp, Hc.
    destruct (decide (m = c)) as [->|Hm], (decide (q = p)) as [->|Hq].
    + rewrite !count_rm, !decide_True by reflexivity. reflexivity.
    + rewrite count_rm, decide_False by exact Hq. apply T.
    + rewrite count_rm, decide_False by exact Hm. apply T.
    + apply T.
  - intros n. rewrite Hg, Hob, Hh. intros Hn. destruct (t_zero _ _ _ T n Hn) as (Hp' & Hch & Ho & Hu).
    rewrite Hp, Hc, Hp', Hch.
    repeat split; auto; destruct (decide _); reflexivity.
  - intros n Hn Hne. rewrite Hg, Hnec' by (intros ->; apply Hne; reflexivity).
    apply (t_nec _ _ _ T n Hn). intros [].
  - intros n <- Hn. rewrite Hg. apply Hnec in Hn.
    destruct (decide (p ∈ W)) as [Hw|Hw].
    + destruct (t_W _ _ _ T p Hw) as [_ Hu]. congruence.
    + rewrite (t_nec _ _ _ T p Hw); [exact Hn|intros []].
  - intros w Hw. rewrite Hg. destruct (t_W _ _ _ T w Hw) as [Hi Hu]. split; [exact Hi|].
    destruct (isNecessary (nd s1 w)) eqn:E; [|reflexivity]. apply Hnec in E. congruence.
  - intros n Hn. rewrite Hg. apply Hpar, Hn.
  - intros n. rewrite Hg, Hh, (ul_maxHeight _ _ _ _ U). intros Hn. destruct (t_height _ _ _ T n Hn) as (H1 & H2 & H3).
    split; [exact H1|]. split.
    + intros q. rewrite Hp, Hh.
      destruct (decide (n = c)); [rewrite elem_of_rm; intros [Hq _]|intros Hq]; apply H2, Hq.
    + rewrite (ul_scope _ _ _ _ U). unfold scopeHeight in *.
      destruct (scope (nd s n)); [rewrite Hh|]; exact H3.
  - apply (heap_ok_ext s s1); auto; [apply U|apply T].
  - apply (count_ok_ext s s1); auto; try apply U. apply T.
  - apply (obs_ok_ext s s1); auto; try apply U. apply T.
  - intros n. rewrite Hg, (ul_valid _ _ _ _ U). apply T.
  - rewrite (ul_log _ _ _ _ U). apply T.
  - intros n Hn. rewrite Hg, (ul_log _ _ _ _ U). apply (t_life _ _ _ T n Hn).
  - intros w Hw. rewrite (ul_log _ _ _ _ U). apply (t_lifeW _ _ _ T w Hw).
  - apply T.
Qed.

Lemma TInv_unlink W s c p : TInv W noE s -> c ∈ W -> TInv W (eq p) (unlink s c p).
Proof.
  intros T Hc. apply (TInv_unlink_like W s _ c p T (unlink_like_unlink s c p)).
  intros n Hn Hg. rewrite parents_nd_unlink, decl_nd_unlink.
  rewrite decide_False by (intros ->; contradiction). apply (t_par _ _ _ T n Hn Hg).
Qed.

Lemma TInv_settle W s p : TInv W (eq p) s ->
  (isNecessary (nd s p) = false -> inGraph (nd s p) = false) -> TInv W noE s.
Proof.
  intros T Hp. destruct T as [t_edges0 t_zero0 t_nec0 t_necE0 t_W0 t_par0 t_height0 t_heap0 t_count0 t_obs0 t_valid0 t_log0 t_life0 t_lifeW0 t_nodup0]. constructor; try assumption.
  - intros n Hn _. destruct (decide (p = n)) as [<-|Hne]; [|apply t_nec0; auto].
    destruct (isNecessary (nd s p)) eqn:E; [apply t_necE0; auto|apply Hp; reflexivity].
  - intros n [].
Qed.

Lemma TInv_push W s p : TInv W (eq p) s -> p ∉ W ->
  isNecessary (nd s p) = false -> inGraph (nd s p) = true ->
  TInv (p :: W) noE (emit (EvUnnec p) s).
Proof.
  intros T Hw Hu Hg. destruct T as [t_edges0 t_zero0 t_nec0 t_necE0 t_W0 t_par0 t_height0 t_heap0 t_count0 t_obs0 t_valid0 t_log0 t_life0 t_lifeW0 t_nodup0].
  assert (Hnd : forall n, nd (emit (EvUnnec p) s) n = nd s n) by reflexivity.
  constructor;
    first [exact t_edges0|exact t_zero0|exact t_height0|exact t_heap0
          |apply (count_ok_ext s _); [reflexivity|reflexivity|reflexivity|reflexivity|exact t_count0]
          |apply (obs_ok_ext s _); [reflexivity|reflexivity|reflexivity|reflexivity|reflexivity|reflexivity|exact t_obs0]
          |exact t_valid0|idtac].
  - intros n Hn _. rewrite Hnd. rewrite not_elem_of_cons in Hn. destruct Hn as [Hne Hn].
    apply t_nec0; [exact Hn|congruence].
  - intros n [].
  - intros w. rewrite Hnd. intros [->|Hw']%elem_of_cons; [auto|apply t_W0, Hw'].
  - intros n Hn. rewrite Hnd. rewrite not_elem_of_cons in Hn. destruct Hn as [_ Hn]. apply t_par0, Hn.
  - cbn. split; [|exact t_log0]. cbn. apply (t_life0 p Hw), Hg.
  - intros n Hn. rewrite Hnd. rewrite not_elem_of_cons in Hn. destruct Hn as [Hne Hn].
    cbn. rewrite decide_False by congruence. apply t_life0, Hn.
  - intros w. cbn. intros [->|Hw']%elem_of_cons.
    + rewrite decide_True by reflexivity. reflexivity.
    + rewrite decide_False by (intros ->; contradiction). apply t_lifeW0, Hw'.
  - apply NoDup_cons_2; assumption.
Qed.

Lemma if_nil_same {A} (P : Prop) `{Decision P} (l : list A) : (P -> l = []) -> (if decide P then [] else l) = l.
Proof. intros Hl. destruct (decide P); [symmetry; auto|reflexivity]. Qed.

Lemma TInv_removeNode W s p s' :
  TInv (p :: W) noE s -> parents (nd s p) = [] -> removeNode s p = Ok s' ->
  TInv W noE s' /\ (forall m, m <> p -> parents (nd s' m) = parents (nd s m)) /\
  (forall m, valid (nd s' m) = valid (nd s m)) /\
  (forall m, inGraph (nd s' m) = true -> inGraph (nd s m) = true).
Proof.
  intros T Hpar H.
  destruct (t_W _ _ _ T p ltac:(left)) as [Hgp Hup].
  apply isNecessary_false in Hup as (Hfp & Hcp & Hop).
  pose proof (t_nodup _ _ _ T) as Hnd. apply stdpp.list.NoDup_cons in Hnd as [HpW HndW].
  assert (Hg : forall m, inGraph (nd s' m) = if decide (m = p) then false else inGraph (nd s m))
    by apply (inGraph_nd_removeNode s p s' H).
  assert (Hp : forall m, parents (nd s' m) = parents (nd s m)).
  { intros m. rewrite (parents_nd_removeNode s p s' H). destruct (decide (m = p)) as [->|]; [symmetry|]; auto. }
  assert (Hc : forall m, children (nd s' m) = children (nd s m)).
  { intros m. rewrite (children_nd_removeNode s p s' H). destruct (decide (m = p)) as [->|]; [symmetry|]; auto. }
  assert (Ho : forall m, observers (nd s' m) = observers (nd s m)).
  { intros m. rewrite (observers_nd_removeNode s p s' H). destruct (decide (m = p)) as [->|]; [symmetry|]; auto. }
  assert (Hf : forall m, forceNec (nd s' m) = forceNec (nd s m)) by apply (forceNec_nd_removeNode s p s' H).
  assert (Hnec : forall m, isNecessary (nd s' m) = isNecessary (nd s m)) by (intros; apply isNecessary_ext; auto).
  assert (Hv : forall m, valid (nd s' m) = valid (nd s m)).
  { intros m. apply (valid_nd_removeNode s p s' H). }
  assert (Hlog : log s' = log s) by apply (log_removeNode s p s' H).
  split; [|split; [intros; apply Hp|split; [exact Hv|]]].
  2:{ intros m. rewrite Hg. destruct (decide (m = p)); [discriminate|auto]. }
  constructor.
  - apply (edges_ok_ext s s'); auto. apply T.
  - intros m. rewrite Hg, Hp, Hc, Ho, (height_nd_removeNode s p s' H).
    destruct (decide (m = p)) as [->|]; [auto|]. apply T.
  - intros n Hn _. rewrite Hg, Hnec. destruct (decide (n = p)) as [->|Hne].
    + symmetry. apply isNecessary_false. auto.
    + apply (t_nec _ _ _ T); [|intros []]. rewrite not_elem_of_cons. auto.
  - intros n [].
  - intros w Hw. rewrite Hg, Hnec. rewrite decide_False by (intros ->; contradiction).
    apply (t_W _ _ _ T). right; exact Hw.
  - intros n Hn. rewrite Hg, Hp, (decl_nd_removeNode s p s' H).
    destruct (decide (n = p)) as [->|Hne]; [discriminate|].
    apply (t_par _ _ _ T). rewrite not_elem_of_cons. auto.
  - intros n. rewrite Hg, Hp, (maxHeight_removeNode s p s' H), (height_nd_removeNode s p s' H).
    destruct (decide (n = p)) as [->|Hne]; [discriminate|]. intros Hn.
    destruct (t_height _ _ _ T n Hn) as (H1 & H2 & H3). split; [exact H1|]. split.
    + intros q Hq. rewrite (height_nd_removeNode s p s' H).
      destruct (decide (q = p)) as [->|]; [|apply H2, Hq].
      apply (edges_parent_child s n p (t_edges _ _ _ T)) in Hq. rewrite Hcp in Hq. inversion Hq.
    + rewrite (scope_nd_removeNode s p s' H). unfold scopeHeight in *.
      destruct (scope (nd s n)) as [b|]; [|exact H3]. rewrite (height_nd_removeNode s p s' H).
      destruct (decide (b = p)); [unfold unset; lia|exact H3].
  - (* heap *)
    destruct (t_heap _ _ _ T) as [Hi Hq]. pose proof (heap_removeNode s p s' H) as Hw.
    destruct (inHeap s p) eqn:Em.
    + destruct Hw as (s1 & Hr & Hw).
      destruct (heapRemove_spec s p s1 Hi Em Hr) as (F & I' & P & Hin).
      split; [rewrite Hw; exact I'|]. intros m. rewrite Hw. intros Hm.
      assert (Hm' : m ∈ Heap.ids (heap s) /\ m <> p).
      { pose proof (inv_nodup _ (hinv_inv _ Hi)) as Hnd'. rewrite P in Hnd'.
        apply stdpp.list.NoDup_cons in Hnd' as [Hnp _]. split; [rewrite P; right; exact Hm|].
        intros ->. contradiction. }
      destruct Hm' as [Hm1 Hm2]. rewrite Hg, (height_nd_removeNode s p s' H), Hin.
      rewrite !decide_False by exact Hm2. apply Hq, Hm1.
    + split; [rewrite Hw; exact Hi|]. intros m. rewrite Hw. intros Hm.
      assert (Hm2 : m <> p).
      { intros ->. apply (inHeap_iff s p Hi) in Hm. congruence. }
      rewrite Hg, (height_nd_removeNode s p s' H). rewrite !decide_False by exact Hm2. apply Hq, Hm.
  - (* count *)
    destruct (t_count _ _ _ T) as [C1 C2 C3].
    assert (Hreg : reg s' = rm p (reg s)).
    { rewrite (reg_removeNode s p s' H), Hgp. reflexivity. }
    split.
    + rewrite Hreg. apply NoDup_rm, C1.
    + intros m. rewrite Hreg, elem_of_rm, Hg, C2. destruct (decide (m = p)); [split; [tauto|discriminate]|tauto].
    + rewrite (numNodes_removeNode s p s' H), (obs_removeNode s p s' H), Hreg, C3.
      rewrite (rm_length_NoDup p (reg s) C1) by (apply C2, Hgp). lia.
  - apply (obs_ok_ext s s'); auto.
    + apply (binds_removeNode s p s' H).
    + apply (obs_removeNode s p s' H).
    + apply (next_removeNode s p s' H).
    + apply (has_removeNode s p s' H).
    + apply (scope_nd_removeNode s p s' H).
    + apply T.
  - intros n. rewrite Hg, Hv. destruct (decide (n = p)); [discriminate|apply T].
  - rewrite Hlog. apply T.
  - intros n Hn. rewrite Hg, Hlog. destruct (decide (n = p)) as [->|Hne].
    + rewrite (t_lifeW _ _ _ T p ltac:(left)). split; discriminate.
    + apply (t_life _ _ _ T). rewrite not_elem_of_cons. auto.
  - intros w Hw. rewrite Hlog. apply (t_lifeW _ _ _ T). right; exact Hw.
  - exact HndW.
Qed.

Record td_post (W : list nid) (s s' : state) : Prop := {
  tp_inv : TInv W noE s';
  tp_par : forall w, w ∈ W -> parents (nd s' w) = parents (nd s w);
  tp_valid : forall m, valid (nd s' m) = valid (nd s m);
  tp_mono : forall m, inGraph (nd s' m) = true -> inGraph (nd s m) = true
}.

Definition RP_spec (fuel : nat) : Prop :=
  forall s c W s', TInv (c :: W) noE s ->
    (forall q, q ∈ parents (nd s c) <-> q ∈ decl (nd s c)) ->
    removeParents fuel s c = Ok s' ->
    TInv (c :: W) noE s' /\ parents (nd s' c) = [] /\
    (forall w, w ∈ W -> parents (nd s' w) = parents (nd s w)) /\
    (forall m, valid (nd s' m) = valid (nd s m)) /\
    (forall m, inGraph (nd s' m) = true -> inGraph (nd s m) = true).

Definition CK_spec (fuel : nat) : Prop :=
  forall s p W s', TInv W (eq p) s -> p ∉ W ->
    checkIfUnnecessary fuel s p = Ok s' -> td_post W s s'.

Lemma CK_from_RP fuel : RP_spec fuel -> CK_spec fuel.
Proof.
  intros RP s p W s' T Hw. rewrite checkIfUnnecessary_unfold.
  destruct (isNecessary (nd s p)) eqn:En.
  { intros [= <-]. split; auto. apply (TInv_settle W s p T). congruence. }
  destruct (inGraph (nd s p)) eqn:Eg; simpl.
  2:{ intros [= <-]. split; auto. apply (TInv_settle W s p T). auto. }
  intros H. apply rbind_ok in H as (s3 & H3 & H4).
  pose proof (TInv_push W s p T Hw En Eg) as T2.
  set (s2 := emit (EvUnnec p) s) in *.
  assert (Hpar : forall q, q ∈ parents (nd s2 p) <-> q ∈ decl (nd s2 p)).
  { intros q. change (nd s2 p) with (nd s p). rewrite (t_par _ _ _ T p Hw Eg). reflexivity. }
  destruct (RP s2 p W s3 T2 Hpar H3) as (T3 & Hp3 & Hf3 & Hv3 & Hm3).
  destruct (TInv_removeNode W s3 p s' T3 Hp3 H4) as (T4 & Hf4 & Hv4 & Hm4).
  split.
  - exact T4.
  - intros w Hw'. rewrite Hf4 by (intros ->; contradiction). rewrite (Hf3 w Hw'). reflexivity.
  - intros m. rewrite Hv4, Hv3. reflexivity.
  - intros m Hm. apply Hm4, Hm3 in Hm. exact Hm.
Qed.

Lemma RP_S fuel : CK_spec fuel -> RP_spec (S fuel).
Proof.
  intros CK s c W s' T Hpar. rewrite removeParents_S.
  set (l := dedup_first [] (decl (nd s c))).
  intros H.
  pose (I := fun (rest : list nid) (st : state) =>
    TInv (c :: W) noE st /\ NoDup rest /\
    (forall q, q ∈ parents (nd st c) <-> q ∈ rest) /\
    (forall w, w ∈ W -> parents (nd st w) = parents (nd s w)) /\
    (forall m, valid (nd st m) = valid (nd s m)) /\
    (forall m, inGraph (nd st m) = true -> inGraph (nd s m) = true)).
  assert (HI : I [] s').
  { eapply (rfold_inv I); [| |exact H].
    - split; [exact T|]. split; [apply NoDup_dedup_first|].
      split; [|auto]. intros q. rewrite Hpar. unfold l. rewrite elem_of_dedup_first_nil. reflexivity.
    - clear H. intros p rest st s1 (Tst & Hnd & Hiff & Hfw & Hv & Hm) Hck.
      apply stdpp.list.NoDup_cons in Hnd as [Hp_rest Hnd].
      assert (Hp_par : p ∈ parents (nd st c)) by (apply Hiff; left).
      assert (Hp_nec : isNecessary (nd st p) = true).
      { apply isNecessary_true. right; left. intros E.
        apply (edges_parent_child st c p (t_edges _ _ _ Tst)) in Hp_par. rewrite E in Hp_par. inversion Hp_par. }
      assert (Hp_W : p ∉ c :: W).
      { intros Hin. destruct (t_W _ _ _ Tst p Hin) as [_ Hu]. congruence. }
      pose proof (t_nodup _ _ _ Tst) as HndW. apply stdpp.list.NoDup_cons in HndW as [Hc_W HndW].
      pose proof (TInv_unlink (c :: W) st c p Tst ltac:(left)) as T1.
      destruct (CK (unlink st c p) p (c :: W) s1 T1 Hp_W Hck) as [T2 Hf2 Hv2 Hm2].
      split; [exact T2|]. split; [exact Hnd|]. split; [|split; [|split]].
      + intros q. rewrite (Hf2 c ltac:(left)), parents_nd_unlink, decide_True by reflexivity.
        rewrite elem_of_rm, Hiff, elem_of_cons. split.
        * intros [[->|Hq] Hne]; [congruence|exact Hq].
        * intros Hq. split; [auto|]. intros ->. contradiction.
      + intros w Hw. rewrite (Hf2 w ltac:(right; exact Hw)), parents_nd_unlink.
        rewrite decide_False by (intros ->; contradiction). apply Hfw, Hw.
      + intros m. rewrite Hv2, valid_nd_unlink. apply Hv.
      + intros m Hm'. apply Hm2 in Hm'. rewrite inGraph_nd_unlink in Hm'. apply Hm, Hm'. }
  destruct HI as (T' & _ & Hiff & Hfw & Hv & Hm).
  split; [exact T'|]. split; [|auto].
  destruct (parents (nd s' c)) as [|q l'] eqn:E; [reflexivity|].
  assert (q ∈ []) as Hq by (apply Hiff; left). inversion Hq.
Qed.

Lemma teardown_spec fuel : RP_spec fuel /\ CK_spec fuel.
Proof.
  induction fuel as [|fuel [IH1 IH2]].
  - assert (RP_spec 0) as R by (intros s c W s' _ _ H; discriminate).
    split; [exact R|apply CK_from_RP, R].
  - pose proof (RP_S fuel IH2) as R. split; [exact R|apply CK_from_RP, R].
Qed.

Lemma checkIfUnnecessary_spec fuel s p W s' :
  TInv W (eq p) s -> p ∉ W -> checkIfUnnecessary fuel s p = Ok s' -> td_post W s s' /\ td_frame s s'.
Proof.
  intros T Hw H. split.
  - eapply (proj2 (teardown_spec fuel)); eauto.
  - eapply (proj2 (teardown_frame fuel)); eauto.
Qed.

(** ** teardown *)
Lemma nc_zeroNode s n : hinv (heap s) -> nocrash (zeroNode s n).
Proof.
  intros Hi. unfold zeroNode. apply nc_rbind; [|intros s1 _; apply nc_Ok].
  destruct (inHeap s n) eqn:E; [apply nc_heapRemove; assumption|apply nc_Ok].
Qed.

Lemma nc_removeNode s n : hinv (heap s) -> nocrash (removeNode s n).
Proof.
  intros Hi. unfold removeNode. apply nc_zeroNode. destruct (inGraph (nd s n)); exact Hi.
Qed.

Definition RP_nc (fuel : nat) : Prop :=
  forall s c W, TInv (c :: W) noE s ->
    (forall q, q ∈ parents (nd s c) <-> q ∈ decl (nd s c)) -> nocrash (removeParents fuel s c).
Definition CK_nc (fuel : nat) : Prop :=
  forall s p W, TInv W (eq p) s -> p ∉ W -> nocrash (checkIfUnnecessary fuel s p).

Lemma CK_nc_from_RP fuel : RP_nc fuel -> CK_nc fuel.
Proof.
  intros RP s p W T Hw. rewrite checkIfUnnecessary_unfold.
  destruct (isNecessary (nd s p)) eqn:En; [apply nc_Ok|].
  destruct (inGraph (nd s p)) eqn:Eg; simpl; [|apply nc_Ok].
  pose proof (TInv_push W s p T Hw En Eg) as T2.
  set (s2 := emit (EvUnnec p) s) in *.
  assert (Hpar : forall q, q ∈ parents (nd s2 p) <-> q ∈ decl (nd s2 p)).
  { intros q. change (nd s2 p) with (nd s p). rewrite (t_par _ _ _ T p Hw Eg). reflexivity. }
  apply nc_rbind; [apply (RP s2 p W T2 Hpar)|]. intros s3 H3.
  destruct (proj1 (teardown_spec fuel) s2 p W s3 T2 Hpar H3) as (T3 & _).
  apply nc_removeNode. apply (t_heap _ _ _ T3).
Qed.

Lemma RP_nc_S fuel : CK_nc fuel -> RP_nc (S fuel).
Proof.
  intros CK s c W T Hpar. rewrite removeParents_S.
  pose (I := fun (rest : list nid) (st : state) =>
    TInv (c :: W) noE st /\ NoDup rest /\
    (forall q, q ∈ parents (nd st c) <-> q ∈ rest)).
  apply (nc_rfold I).
  - split; [exact T|]. split; [apply NoDup_dedup_first|].
    intros q. rewrite Hpar, elem_of_dedup_first_nil. reflexivity.
  - intros p rest st (Tst & Hnd & Hiff).
    apply stdpp.list.NoDup_cons in Hnd as [Hp_rest Hnd].
    assert (Hp_par : p ∈ parents (nd st c)) by (apply Hiff; left).
    assert (Hp_nec : isNecessary (nd st p) = true).
    { apply isNecessary_true. right; left. intros E.
      apply (edges_parent_child st c p (t_edges _ _ _ Tst)) in Hp_par. rewrite E in Hp_par. inversion Hp_par. }
    assert (Hp_W : p ∉ c :: W).
    { intros Hin. destruct (t_W _ _ _ Tst p Hin) as [_ Hu]. congruence. }
    pose proof (TInv_unlink (c :: W) st c p Tst ltac:(left)) as T1.
    split; [apply (CK (unlink st c p) p (c :: W) T1 Hp_W)|].
    intros s1 Hck.
    destruct (proj2 (teardown_spec fuel) (unlink st c p) p (c :: W) s1 T1 Hp_W Hck) as [T2 Hf2 Hv2 Hm2].
    split; [exact T2|]. split; [exact Hnd|].
    intros q. rewrite (Hf2 c ltac:(left)), parents_nd_unlink, decide_True by reflexivity.
    rewrite elem_of_rm, Hiff, elem_of_cons. split.
    + intros [[->|Hq] Hne]; [congruence|exact Hq].
    + intros Hq. split; [auto|]. intros ->. contradiction.
Qed.

Lemma nc_teardown fuel : RP_nc fuel /\ CK_nc fuel.
Proof.
  induction fuel as [|fuel [IH1 IH2]].
  - assert (RP_nc 0) as R by (intros s c W _ _; apply nc_fuel).
    split; [exact R|apply CK_nc_from_RP, R].
  - pose proof (RP_nc_S fuel IH2) as R. split; [exact R|apply CK_nc_from_RP, R].
Qed.

Lemma nc_checkIfUnnecessary fuel s p W : TInv W (eq p) s -> p ∉ W -> nocrash (checkIfUnnecessary fuel s p).
Proof. apply (proj2 (nc_teardown fuel)). Qed.


(** ** Assembling [Inv] from the teardown invariant and the clauses teardown does not touch *)
Record Rest (s : state) : Prop := {
  r_ids : ids_ok s;
  r_binds : binds_wf s;
  r_kinds : kinds_ok s;
  r_scopes : scopes_ok s;
  r_scoping : scoping_ok s;
  r_vtop : forall n, scope (nd s n) = None -> valid (nd s n) = true;
  r_vdead : forall n b, has s n -> scope (nd s n) = Some b -> ~ inGen s b n ->
    valid (nd s n) = false /\ inGraph (nd s n) = false;
  r_vgen : forall n b, inGen s b n -> valid (nd s n) = valid (nd s b);
  r_quiet : quiet s;
  r_shape : shape_ok s;
  r_stamps : stamps_ok s;
  r_inval : forall n, valid (nd s n) = false <-> EvInval n ∈ log s
}.

Lemma Inv_Rest s : Inv s -> Rest s.
Proof.
  intros HI. destruct HI as [inv_ids0 inv_binds0 inv_kinds0 inv_scopes0 inv_scoping0 inv_valid0 inv_edges0 inv_zero0 inv_nec0 inv_par0 inv_height0 inv_heap0 inv_count0 inv_obs0 inv_quiet0 inv_shape0 inv_stamps0 inv_life0]. destruct inv_valid0 as [vo_top0 vo_dead0 vo_gen0 vo_reg0], inv_life0 as [lf_log0 lf_reg0 lf_inval0].
  constructor; assumption.
Qed.

Lemma Inv_TInv s : Inv s -> TInv [] noE s.
Proof.
  intros HI. destruct HI as [inv_ids0 inv_binds0 inv_kinds0 inv_scopes0 inv_scoping0 inv_valid0 inv_edges0 inv_zero0 inv_nec0 inv_par0 inv_height0 inv_heap0 inv_count0 inv_obs0 inv_quiet0 inv_shape0 inv_stamps0 inv_life0]. destruct inv_valid0 as [vo_top0 vo_dead0 vo_gen0 vo_reg0], inv_life0 as [lf_log0 lf_reg0 lf_inval0].
  constructor; try assumption.
  - intros n _ _. apply inv_nec0.
  - intros n [].
  - intros w Hw. inversion Hw.
  - intros n _. apply inv_par0.
  - intros n _. apply lf_reg0.
  - intros w Hw. inversion Hw.
  - constructor.
Qed.

Lemma TInv_Rest_Inv s : TInv [] noE s -> Rest s -> Inv s.
Proof.
  intros T R. destruct T as [t_edges0 t_zero0 t_nec0 t_necE0 t_W0 t_par0 t_height0 t_heap0 t_count0 t_obs0 t_valid0 t_log0 t_life0 t_lifeW0 t_nodup0], R as [r_ids0 r_binds0 r_kinds0 r_scopes0 r_scoping0 r_vtop0 r_vdead0 r_vgen0 r_quiet0 r_shape0 r_stamps0 r_inval0]. constructor; try assumption.
  - constructor; assumption.
  - intros n. apply t_nec0; [intros H; inversion H|intros []].
  - intros n. apply t_par0. intros H; inversion H.
  - constructor; try assumption. intros n. apply t_life0. intros H; inversion H.
Qed.

Lemma unnec_inval l n : Forall is_unnec l -> forall l', EvInval n ∈ l ++ l' <-> EvInval n ∈ l'.
Proof.
  intros Hl l'. rewrite elem_of_app. split; [|auto]. intros [H|H]; [|exact H].
  rewrite stdpp.list.Forall_forall in Hl. destruct (Hl _ H) as [m Hm]. discriminate.
Qed.

Lemma Rest_td_frame s s' :
  td_frame s s' -> (forall m, valid (nd s' m) = valid (nd s m)) ->
  (forall m, inGraph (nd s' m) = true -> inGraph (nd s m) = true) ->
  Rest s -> Rest s'.
Proof.
  intros F Hv Hm R. destruct R as [r_ids0 r_binds0 r_kinds0 r_scopes0 r_scoping0 r_vtop0 r_vdead0 r_vgen0 r_quiet0 r_shape0 r_stamps0 r_inval0].
  assert (Hk : forall n, nkind (nd s' n) = nkind (nd s n)) by (intros n; apply (tf_static _ _ F n)).
  assert (Hd : forall n, decl (nd s' n) = decl (nd s n)) by (intros n; apply (tf_static _ _ F n)).
  assert (Hsc : forall n, scope (nd s' n) = scope (nd s n)) by (intros n; apply (tf_static _ _ F n)).
  assert (Hf : forall n, forceNec (nd s' n) = forceNec (nd s n)) by (intros n; apply (tf_static _ _ F n)).
  assert (Hbd : forall b, bd s' b = bd s b) by (intros b; unfold bd; rewrite (tf_binds _ _ F); reflexivity).
  constructor.
  - apply (ids_ok_ext s s'); auto; apply F.
  - apply (binds_wf_ext s s'); auto; apply F.
  - apply (kinds_ok_ext s s'); auto; apply F.
  - apply (scopes_ok_ext s s'); auto; apply F.
  - apply (scoping_ok_ext s s'); auto; apply F.
  - intros n. rewrite Hsc, Hv. auto.
  - intros n b. rewrite (tf_has _ _ F), Hsc, Hv. unfold inGen. rewrite Hbd. intros H1 H2 H3.
    destruct (r_vdead0 n b H1 H2 H3) as [H4 H5]. split; [exact H4|].
    destruct (inGraph (nd s' n)) eqn:E; [|reflexivity]. apply Hm in E. congruence.
  - intros n b. unfold inGen. rewrite Hbd, !Hv. auto.
  - destruct r_quiet0 as [q_anum0 q_invq0 q_status0 q_setDuring0 q_setRemoved0 q_handlers0 q_force0 q_hadj0 q_by0]. split.
    + rewrite (tf_adj _ _ F). assumption.
    + rewrite (tf_invq _ _ F). assumption.
    + rewrite (tf_status _ _ F). assumption.
    + destruct (setDuring s') as [|x l] eqn:E; [reflexivity|].
      assert (x ∈ setDuring s) as Hx by (apply F; rewrite E; left). rewrite q_setDuring0 in Hx. inversion Hx.
    + rewrite (tf_setRemoved _ _ F); assumption.
    + destruct (handlers s') as [|x l] eqn:E; [reflexivity|].
      assert (x ∈ handlers s) as Hx by (apply F; rewrite E; left). rewrite q_handlers0 in Hx. inversion Hx.
    + intros n. rewrite Hf. auto.
    + intros n. destruct (tf_hadj _ _ F n) as [-> | ->]; auto.
    + rewrite (tf_adj _ _ F). assumption.
  - eapply shape_ok_ext; [apply F|apply F|assumption].
  - destruct r_stamps0 as [S1 S2]. split; rewrite (tf_stabNum _ _ F); [exact S1|].
    intros n. destruct (tf_stamps _ _ F n) as [(-> & -> & ->)|(-> & -> & ->)]; [apply S2|lia].
  - intros n. rewrite Hv. destruct (tf_log _ _ F) as (l & -> & Hl). rewrite (unnec_inval l n Hl). auto.
Qed.

(** ** Unobserve *)
Definition is_unobserve (o : op) : bool := match o with Unobserve _ => true | _ => false end.

Lemma unobserve_setup s o n :
  Inv s -> obs s !! o = Some n ->
  let s1 := s <| obs := delete o (obs s) |> <| numNodes := numNodes s - 1 |> <| handlers := rm o (handlers s) |> in
  let s2 := upd s1 n (set observers (rm o)) in
  Rest s2 /\ TInv [] (eq n) s2.
Proof.
  intros HI Eo s1 s2.
  pose proof (Inv_TInv s HI) as T. pose proof (Inv_Rest s HI) as R.
  assert (Hn : has s n).
  { apply (has_observers s n o). apply (ob_iff s (inv_obs s HI)), Eo. }
  assert (Hnd : forall m, nd s2 m = if decide (m = n) then set observers (rm o) (nd s n) else nd s m).
  { intros m. unfold s2. rewrite nd_upd by exact Hn. reflexivity. }
  assert (Hfield : forall {A} (g : node -> A), (forall x f, g (set observers f x) = g x) ->
                   forall m, g (nd s2 m) = g (nd s m)).
  { intros A g Hg' m. rewrite Hnd. destruct (decide (m = n)) as [->|]; [apply Hg'|reflexivity]. }
  assert (Hobs : forall m, observers (nd s2 m) = if decide (m = n) then rm o (observers (nd s n)) else observers (nd s m)).
  { intros m. rewrite Hnd. destruct (decide (m = n)); reflexivity. }
  assert (Hhas : forall m, has s2 m <-> has s m) by (intros m; apply (has_upd s1 n)).
  (* the clauses teardown does not touch *)
  assert (R2 : Rest s2).
  { destruct R as [r_ids0 r_binds0 r_kinds0 r_scopes0 r_scoping0 r_vtop0 r_vdead0 r_vgen0 r_quiet0 r_shape0 r_stamps0 r_inval0]. constructor.
    - apply (ids_ok_ext s s2); auto; try (apply Hfield; reflexivity).
    - apply (binds_wf_ext s s2); auto; try (apply Hfield; reflexivity).
    - apply (kinds_ok_ext s s2); auto; try (apply Hfield; reflexivity).
    - apply (scopes_ok_ext s s2); auto; try (apply Hfield; reflexivity).
    - apply (scoping_ok_ext s s2); auto; try (apply Hfield; reflexivity).
    - intros m. rewrite (Hfield _ scope), (Hfield _ valid) by reflexivity. auto.
    - intros m b. rewrite Hhas, (Hfield _ scope), (Hfield _ valid), (Hfield _ inGraph) by reflexivity. apply r_vdead0.
    - intros m b. rewrite !(Hfield _ valid) by reflexivity. apply r_vgen0.
    - destruct r_quiet0 as [q_anum0 q_invq0 q_status0 q_setDuring0 q_setRemoved0 q_handlers0 q_force0 q_hadj0 q_by0]. split; try assumption.
      + cbn. rewrite q_handlers0. reflexivity.
      + intros m. rewrite (Hfield _ forceNec) by reflexivity. auto.
      + intros m. rewrite (Hfield _ hAdj) by reflexivity. auto.
    - destruct r_shape0 as [? ?]. split; assumption.
    - destruct r_stamps0 as [S1 S2]. split; [exact S1|]. intros m.
      rewrite (Hfield _ recomputedAt), (Hfield _ changedAt), (Hfield _ setAt) by reflexivity. apply S2.
    - intros m. rewrite (Hfield _ valid) by reflexivity. apply r_inval0. }
  assert (T2 : TInv [] (eq n) s2).
  { destruct T as [t_edges0 t_zero0 t_nec0 t_necE0 t_W0 t_par0 t_height0 t_heap0 t_count0 t_obs0 t_valid0 t_log0 t_life0 t_lifeW0 t_nodup0].
    assert (Hnec_ne : forall m, m <> n -> isNecessary (nd s2 m) = isNecessary (nd s m)).
    { intros m Hm. rewrite Hnd, decide_False by exact Hm. reflexivity. }
    constructor.
    - apply (edges_ok_ext s s2); [apply (Hfield _ parents)|apply (Hfield _ children)|assumption]; reflexivity.
    - intros m. rewrite (Hfield _ inGraph), (Hfield _ parents), (Hfield _ children), (Hfield _ height) by reflexivity.
      intros Hm. destruct (t_zero0 m Hm) as (? & ? & Ho & ?). repeat split; auto.
      rewrite Hobs. destruct (decide (m = n)) as [->|]; [rewrite Ho; reflexivity|exact Ho].
    - intros m _ Hne. rewrite (Hfield _ inGraph) by reflexivity. rewrite Hnec_ne by congruence.
      apply t_nec0; [intros Hx; inversion Hx|intros []].
    - intros m <- Hnec. rewrite (Hfield _ inGraph) by reflexivity.
      rewrite (t_nec0 n); [|intros Hx; inversion Hx|intros []].
      apply isNecessary_true. apply isNecessary_true in Hnec. rewrite Hnd, decide_True in Hnec by reflexivity.
      cbn in Hnec. destruct Hnec as [?|[?|Ho]]; auto. right; right. intros E. rewrite E in Ho. apply Ho. reflexivity.
    - intros w Hw. inversion Hw.
    - intros m _. rewrite (Hfield _ inGraph), (Hfield _ parents), (Hfield _ decl) by reflexivity.
      apply t_par0. intros Hx; inversion Hx.
    - apply (height_ok_ext s s2); try assumption; try reflexivity;
        [apply (Hfield _ inGraph)|apply (Hfield _ height)|apply (Hfield _ parents)|apply (Hfield _ scope)]; reflexivity.
    - apply (heap_ok_ext s s2); try assumption; try reflexivity;
        [apply (Hfield _ inGraph)|apply (Hfield _ height)]; reflexivity.
    - destruct t_count0 as [C1 C2 C3]. split; [exact C1| |].
      + intros m. rewrite (Hfield _ inGraph) by reflexivity. apply C2.
      + cbn. rewrite C3, map_size_delete, Eo.
        assert (0 < size (obs s))%nat; [|lia].
        destruct (decide (size (obs s) = 0)%nat) as [E0|]; [|lia].
        apply map_size_empty_inv in E0. rewrite E0, lookup_empty in Eo. discriminate.
    - destruct t_obs0 as [O1 O2 O3 O4]. split; [| | |intros o' m; cbn; rewrite lookup_delete_Some; intros [_ Ho']; apply (O4 o' m Ho')].
      + intros m o'. rewrite Hobs. cbn. rewrite lookup_delete_Some.
        destruct (decide (m = n)) as [->|Hne].
        * rewrite elem_of_rm, O1. split; [intros [? ?]; split; [congruence|assumption]|intros [? ?]; split; [assumption|congruence]].
        * rewrite O1. split; [|tauto]. intros Ho'. split; [|exact Ho']. intros <-. congruence.
      + intros m. rewrite Hobs. destruct (decide (m = n)); [apply NoDup_rm|]; apply O2.
      + intros o' m. cbn. rewrite lookup_delete_Some. intros [_ Ho'].
        rewrite Hhas, (Hfield _ scope) by reflexivity. apply O3, Ho'.
    - intros m. rewrite (Hfield _ inGraph), (Hfield _ valid) by reflexivity. apply t_valid0.
    - exact t_log0.
    - intros m _. rewrite (Hfield _ inGraph) by reflexivity. apply t_life0. intros Hx; inversion Hx.
    - intros w Hw. inversion Hw.
    - constructor. }
  split; [exact R2|exact T2].
Qed.

Theorem Inv_step_unobserve s o s' e :
  Inv s -> op_ok s o = true -> is_unobserve o = true -> step s o = Ok (s', e) -> Inv s'.
Proof.
  intros HI Hok Hg Hstep. destruct o as [| | | | | | | | | | | |o| | | | | | |]; try discriminate.
  simpl in Hstep. apply lift_inv in Hstep as [H _]. unfold unobserve in H.
  destruct (obs s !! o) as [n|] eqn:Eo; [|injection H as <-; exact HI].
  set (s1 := s <| obs := delete o (obs s) |> <| numNodes := numNodes s - 1 |> <| handlers := rm o (handlers s) |>) in *.
  set (s2 := upd s1 n (set observers (rm o))) in *.
  destruct (unobserve_setup s o n HI Eo) as [R2 T2]. fold s1 s2 in R2, T2.
  destruct (checkIfUnnecessary_spec _ s2 n [] s' T2 ltac:(intros Hx; inversion Hx) H) as [[T' _ Hv Hm] F].
  apply TInv_Rest_Inv; [exact T'|]. eapply Rest_td_frame; eauto.
Qed.

Theorem nc_step_unobserve s o : Inv s -> is_unobserve o = true -> nocrash (step s o).
Proof.
  intros HI Hg. destruct o as [| | | | | | | | | | | |o| | | | | | |]; try discriminate.
  simpl. apply nc_lift. unfold unobserve.
  destruct (obs s !! o) as [n|] eqn:Eo; [|apply nc_Ok].
  destruct (unobserve_setup s o n HI Eo) as [R2 T2].
  apply (nc_checkIfUnnecessary _ _ n [] T2). intros Hx; inversion Hx.
Qed.

(** ** [TInv] / [Rest] under steps that keep the structure *)
Lemma TInv_struct W E s s' :
  same_struct s s' -> log s' = log s -> heap_ok s' -> TInv W E s -> TInv W E s'.
Proof.
  intros HS Hlog Hk T.
  destruct T as [t_edges0 t_zero0 t_nec0 t_necE0 t_W0 t_par0 t_height0 t_heap0 t_count0 t_obs0 t_valid0 t_log0 t_life0 t_lifeW0 t_nodup0].
  destruct HS as [Snext Sbinds Shas Sreg Sobs Sadj Sinvq Snum Smh Snode].
  assert (Hd : forall n, decl (nd s' n) = decl (nd s n)) by (intros n; apply Snode).
  assert (Hsc : forall n, scope (nd s' n) = scope (nd s n)) by (intros n; apply Snode).
  assert (Hh : forall n, height (nd s' n) = height (nd s n)) by (intros n; apply Snode).
  assert (Hp : forall n, parents (nd s' n) = parents (nd s n)) by (intros n; apply Snode).
  assert (Hc : forall n, children (nd s' n) = children (nd s n)) by (intros n; apply Snode).
  assert (Ho : forall n, observers (nd s' n) = observers (nd s n)) by (intros n; apply Snode).
  assert (Hv : forall n, valid (nd s' n) = valid (nd s n)) by (intros n; apply Snode).
  assert (Hf : forall n, forceNec (nd s' n) = forceNec (nd s n)) by (intros n; apply Snode).
  assert (Hg : forall n, inGraph (nd s' n) = inGraph (nd s n)) by (intros n; apply Snode).
  assert (Hnec : forall n, isNecessary (nd s' n) = isNecessary (nd s n)) by (intros; apply isNecessary_ext; auto).
  constructor; try assumption.
  - apply (edges_ok_ext s s'); auto.
  - apply (zero_ok_ext s s'); auto.
  - intros n. rewrite Hg, Hnec. apply t_nec0.
  - intros n. rewrite Hg, Hnec. apply t_necE0.
  - intros n. rewrite Hg, Hnec. apply t_W0.
  - intros n. rewrite Hg, Hp, Hd. apply t_par0.
  - apply (height_ok_ext s s'); auto.
  - apply (count_ok_ext s s'); auto.
  - apply (obs_ok_ext s s'); auto.
  - intros n. rewrite Hg, Hv. apply t_valid0.
  - rewrite Hlog. exact t_log0.
  - intros n. rewrite Hg, Hlog. apply t_life0.
  - intros n. rewrite Hlog. apply t_lifeW0.
Qed.

Lemma Rest_var_step s s' : var_step s s' -> setDuring s' = setDuring s -> Rest s -> Rest s'.
Proof.
  intros V Hsd R.
  destruct R as [r_ids0 r_binds0 r_kinds0 r_scopes0 r_scoping0 r_vtop0 r_vdead0 r_vgen0 r_quiet0 r_shape0 r_stamps0 r_inval0].
  pose proof (vs_struct _ _ V) as HS.
  destruct HS as [Snext Sbinds Shas Sreg Sobs Sadj Sinvq Snum Smh Snode].
  assert (Hk : forall n, nkind (nd s' n) = nkind (nd s n)) by (intros n; apply Snode).
  assert (Hd : forall n, decl (nd s' n) = decl (nd s n)) by (intros n; apply Snode).
  assert (Hsc : forall n, scope (nd s' n) = scope (nd s n)) by (intros n; apply Snode).
  assert (Hv : forall n, valid (nd s' n) = valid (nd s n)) by (intros n; apply Snode).
  assert (Hg : forall n, inGraph (nd s' n) = inGraph (nd s n)) by (intros n; apply Snode).
  assert (Hf : forall n, forceNec (nd s' n) = forceNec (nd s n)) by (intros n; apply Snode).
  assert (Hhj : forall n, hAdj (nd s' n) = hAdj (nd s n)) by (intros n; apply Snode).
  assert (Hbd : forall b, bd s' b = bd s b) by (intros b; unfold bd; rewrite Sbinds; reflexivity).
  constructor.
  - apply (ids_ok_ext s s'); auto.
  - apply (binds_wf_ext s s'); auto.
  - apply (kinds_ok_ext s s'); auto.
  - apply (scopes_ok_ext s s'); auto.
  - apply (scoping_ok_ext s s'); auto.
  - intros n. rewrite Hsc, Hv. auto.
  - intros n b. rewrite Shas, Hsc, Hv, Hg. unfold inGen. rewrite Hbd. apply r_vdead0.
  - intros n b. unfold inGen. rewrite Hbd, !Hv. apply r_vgen0.
  - apply (quiet_ext s s'); auto; apply V.
  - apply (shape_ok_ext s s'); auto.
  - apply (stamps_ok_var s s' V), r_stamps0.
  - intros n. rewrite Hv, (vs_log _ _ V). auto.
Qed.

(** ** RemoveInput *)
Definition is_removeinput (o : op) : bool := match o with RemoveInput _ _ => true | _ => false end.

Lemma bind_wf_mono' s s' b r :
  (forall n, has s n -> has s' n) ->
  (forall n, has s n -> nkind (nd s' n) = nkind (nd s n)) ->
  decl (nd s' b) = decl (nd s b) -> decl (nd s' (S b)) = decl (nd s (S b)) ->
  (forall n, scope (nd s' n) = scope (nd s n)) ->
  bind_wf s b r -> bind_wf s' b r.
Proof.
  intros Hh Hk Hd1 Hd2 Hs [? ? Hme Hca Hl Hm ? ? ? ? ? Hrn ? ? Hcases].
  constructor; rewrite ?Hk, ?Hd1, ?Hd2, ?Hs by assumption; auto.
  - intros x q Hq. destruct (Hca x q Hq) as (A & B & C). rewrite Hs, Hk by exact A. auto.
  - intros n Hn. destruct (Hrn n Hn). rewrite Hs. auto.
  - intros t d Hc. apply (chain_ext_iff s s' Hs) in Hc.
    eapply List.Forall_impl; [|apply (Hcases t d Hc)].
    intros e. apply texp_wf_ext; intros; [apply Hh; assumption|apply Hs|apply Hk; assumption].
Qed.

Lemma removeinput_setup s n a fn :
  Inv s -> has s n -> nkind (nd s n) = KMapN fn ->
  let s3 := upd (upd (upd s n (set decl (rm a))) n (set parents (rm a))) a (set children (rm n)) in
  TInv [] (eq a) s3 /\ Rest s3.
Proof.
  intros HI Hn Hkn s3.
  pose proof (Inv_TInv s HI) as T. pose proof (Inv_Rest s HI) as R.
  (* field equations of s3 *)
  assert (Hfield : forall {A} (g : node -> A),
             (forall x f, g (set decl f x) = g x) -> (forall x f, g (set parents f x) = g x) ->
             (forall x f, g (set children f x) = g x) -> forall m, g (nd s3 m) = g (nd s m)).
  { intros A g G1 G2 G3 m. unfold s3. rewrite !nd_upd_proj by (intros; auto). reflexivity. }
  assert (Hdecl : forall m, decl (nd s3 m) = if decide (m = n) then rm a (decl (nd s n)) else decl (nd s m)).
  { intros m. unfold s3. rewrite !nd_upd_proj by reflexivity. rewrite nd_upd by exact Hn.
    destruct (decide (m = n)); reflexivity. }
  assert (U : unlink_like s s3 n a).
  { split; try reflexivity; try (apply Hfield; reflexivity).
    - intros m. unfold s3. rewrite nd_upd_proj by reflexivity. rewrite upd_dummy_fix by reflexivity.
      destruct (decide (m = n)) as [->|]; cbn; rewrite nd_upd_proj by reflexivity; reflexivity.
    - intros m. unfold s3. rewrite upd_dummy_fix by reflexivity.
      destruct (decide (m = a)) as [->|]; cbn; rewrite !nd_upd_proj by reflexivity; reflexivity.
    - intros m Hm. rewrite Hdecl, decide_False by exact Hm. reflexivity.
    - intros m. unfold s3. rewrite !has_upd. reflexivity. }
  assert (T3 : TInv [] (eq a) s3).
  { apply (TInv_unlink_like [] s s3 n a T U). intros m Hm Hgm.
    rewrite (ul_par _ _ _ _ U), Hdecl. rewrite (t_par _ _ _ T m Hm Hgm).
    destruct (decide (m = n)) as [->|]; reflexivity. }
  assert (R3 : Rest s3).
  { destruct R as [r_ids0 r_binds0 r_kinds0 r_scopes0 r_scoping0 r_vtop0 r_vdead0 r_vgen0 r_quiet0 r_shape0 r_stamps0 r_inval0].
    assert (Hsub : forall m q, q ∈ decl (nd s3 m) -> q ∈ decl (nd s m)).
    { intros m q. rewrite Hdecl. destruct (decide (m = n)) as [->|]; [rewrite elem_of_rm; tauto|auto]. }
    assert (Hk : forall m, nkind (nd s3 m) = nkind (nd s m)) by (apply Hfield; reflexivity).
    assert (Hsc : forall m, scope (nd s3 m) = scope (nd s m)) by (apply Hfield; reflexivity).
    assert (Hv : forall m, valid (nd s3 m) = valid (nd s m)) by (apply Hfield; reflexivity).
    assert (Hhas : forall m, has s3 m <-> has s m) by apply U.
    constructor.
    - destruct r_ids0 as [I1 I2]. split; [intros m Hm; apply I1, Hhas, Hm|].
      intros m q Hq. apply Hhas. eapply I2, Hsub, Hq.
    - intros b r Hr. apply (bind_wf_mono' s s3); auto; try (intros; apply Hhas; assumption).
      + rewrite Hdecl. rewrite decide_False; [reflexivity|]. intros <-.
        rewrite (bw_kind_lhs s b r (r_binds0 b r Hr)) in Hkn. discriminate.
      + rewrite Hdecl. rewrite decide_False; [reflexivity|]. intros <-.
        rewrite (bw_kind_main s b r (r_binds0 b r Hr)) in Hkn. discriminate.
    - apply (kinds_ok_ext s s3); auto.
    - apply (scopes_ok_ext s s3); auto.
    - destruct r_scoping0 as [S1 S2 S3 S4 S5 S6 S7]. split; [| | | | |intros b q b0; rewrite Hk; apply S6|intros b b1; rewrite Hk; apply S7].
      + intros m q Hq. rewrite !Hsc, Hk. apply S1, Hsub, Hq.
      + intros m q b Hq. rewrite !Hsc. apply S2, Hsub, Hq.
      + intros b q. rewrite Hsc. apply S3.
      + destruct S4 as (own & O1 & O2 & O3). exists own. split; [apply (own_ok_ext own s s3); auto|]. split.
        * intros m q Hq. apply (gmu_lt_ext own s s3 Hsc). apply O2, Hsub, Hq.
        * intros b r x q Hr Hq. apply (gmu_lt_ext own s s3 Hsc). apply (O3 b r x q Hr Hq).
      + intros m q b0 Hq. rewrite Hk. apply S5, Hsub, Hq.
    - intros m. rewrite Hsc, Hv. auto.
    - intros m b. rewrite Hhas, Hsc, Hv, (Hfield _ inGraph) by reflexivity. apply r_vdead0.
    - intros m b. rewrite !Hv. apply r_vgen0.
    - apply (quiet_ext s s3); auto; apply Hfield; reflexivity.
    - apply (shape_ok_ext s s3); auto.
    - apply (stamps_ok_ext s s3); auto; apply Hfield; reflexivity.
    - intros m. rewrite Hv. apply r_inval0. }
  split; [exact T3|exact R3].
Qed.

Theorem Inv_step_removeinput s o s' e :
  Inv s -> op_ok s o = true -> is_removeinput o = true -> step s o = Ok (s', e) -> Inv s'.
Proof.
  intros HI Hok Hg Hstep. destruct o as [| | | | | | | | | | | | | | | |n a| | |]; try discriminate.
  simpl in Hstep, Hok. apply lift_inv in Hstep as [H _]. unfold removeInput in H.
  destruct (bool_decide (a ∈ decl (nd s n))) eqn:Ea; simpl in H; [|injection H as <-; exact HI].
  apply andb_true_iff in Hok as [Hn _]. apply isMapN_true in Hn as [Hn [fn Hkn]].
  apply rbind_ok in H as (s4 & H4 & H).
  set (s3 := upd (upd (upd s n (set decl (rm a))) n (set parents (rm a))) a (set children (rm n))) in *.
  destruct (removeinput_setup s n a fn HI Hn Hkn) as [T3 R3]. fold s3 in T3, R3.
  (* setStale *)
  destruct (setStale_spec s3 n s4) as (V & Hk4 & Hsd); try assumption.
  { apply Inv_hreg; apply T3. }
  { apply T3. }
  assert (T4 : TInv [] (eq a) s4) by (apply (TInv_struct _ _ s3 s4); [apply V|apply V|exact Hk4|exact T3]).
  assert (R4 : Rest s4) by (apply (Rest_var_step s3 s4 V Hsd R3)).
  destruct (checkIfUnnecessary_spec _ s4 a [] s' T4 ltac:(intros Hx; inversion Hx) H) as [[T' _ Hv Hm] F].
  apply TInv_Rest_Inv; [exact T'|]. eapply Rest_td_frame; eauto.
Qed.

Theorem nc_step_removeinput s o : Inv s -> op_ok s o = true -> is_removeinput o = true -> nocrash (step s o).
Proof.
  intros HI Hok Hg. destruct o as [| | | | | | | | | | | | | | | |n a| | |]; try discriminate.
  simpl in Hok |- *. apply nc_lift. unfold removeInput.
  destruct (bool_decide (a ∈ decl (nd s n))) eqn:Ea; simpl; [|apply nc_Ok].
  apply andb_true_iff in Hok as [Hn _]. apply isMapN_true in Hn as [Hn [fn Hkn]].
  destruct (removeinput_setup s n a fn HI Hn Hkn) as [T3 R3].
  set (s3 := upd (upd (upd s n (set decl (rm a))) n (set parents (rm a))) a (set children (rm n))) in *.
  assert (Hr3 : hreg_ok s3) by (apply Inv_hreg; apply T3).
  apply nc_rbind; [apply (nc_setStale s3 n Hr3), T3|]. intros s4 H4.
  destruct (setStale_spec s3 n s4 Hr3 (t_heap _ _ _ T3) H4) as (V & Hk4 & Hsd).
  assert (T4 : TInv [] (eq a) s4) by (apply (TInv_struct _ _ s3 s4); [apply V|apply V|exact Hk4|exact T3]).
  apply (nc_checkIfUnnecessary _ _ a [] T4). intros Hx; inversion Hx.
Qed.

(** * Becoming necessary: [becameNecessaryRecursive] *)
Definition bn_body (fuel : nat) (n : nid) (s : state) (p : nid) : M :=
  let wasNec := isNecessary (nd s p) in
  let s := link s n p in
  let s := if valid (nd s p) then s else s <| invq := invq s ++ [n] |> in
  s <-? (if wasNec then ok s else becameNecessaryRecursive fuel s p);
  if height (nd s p) >=? height (nd s n)
  then setHeight s n (height (nd s p) + 1) else ok s.

Lemma BN_S fuel s n :
  becameNecessaryRecursive (S fuel) s n =
  (let was := inGraph (nd s n) in
   let s := addNode s n in
   let s := if was then s else emit (EvNec n) s in
   s <-? setHeight s n (scopeHeight s (scope (nd s n)) + 1);
   s <-? efold (bn_body fuel n) (decl (nd s n)) s;
   if isStale s n then lift (heapAddIfNotPresent s n) else ok s).
Proof. reflexivity. Qed.

(** ** declared-input reachability *)
Inductive dreach (s : state) (n : nid) : nid -> Prop :=
| dr_refl : dreach s n n
| dr_step m q : dreach s n m -> q ∈ decl (nd s m) -> dreach s n q.

Lemma dreach_trans s a b c : dreach s a b -> dreach s b c -> dreach s a c.
Proof. intros H1 H2. induction H2; [exact H1|]. eapply dr_step; eauto. Qed.

Lemma dreach_decl s n p m : p ∈ decl (nd s n) -> dreach s p m -> dreach s n m.
Proof. intros Hp H. eapply dreach_trans; [|exact H]. eapply dr_step; [apply dr_refl|exact Hp]. Qed.

Lemma dreach_ext s s' : (forall m, decl (nd s' m) = decl (nd s m)) -> forall n m, dreach s n m -> dreach s' n m.
Proof.
  intros Hd n m H. induction H; [apply dr_refl|]. eapply dr_step; [eassumption|]. rewrite Hd. assumption.
Qed.

(** ** what becoming necessary never touches *)
Definition is_nec (e : event) : Prop := exists n, e = EvNec n.

Record bn_frame (s s' : state) : Prop := {
  bf_next : next s' = next s;
  bf_binds : binds s' = binds s;
  bf_obs : obs s' = obs s;
  bf_stabNum : stabNum s' = stabNum s;
  bf_status : status s' = status s;
  bf_maxHeight : maxHeight s' = maxHeight s;
  bf_setDuring : setDuring s' = setDuring s;
  bf_setRemoved : setRemoved s' = setRemoved s;
  bf_handlers : handlers s' = handlers s;
  bf_byHeight : a_byHeight (adj s') = a_byHeight (adj s);
  bf_anum : a_num (adj s') = a_num (adj s);
  bf_alower : a_lower (adj s') = a_lower (adj s);
  bf_has : forall m, has s' m <-> has s m;
  bf_static : forall m,
    nkind (nd s' m) = nkind (nd s m) /\ decl (nd s' m) = decl (nd s m) /\ scope (nd s' m) = scope (nd s m) /\
    valid (nd s' m) = valid (nd s m) /\ forceNec (nd s' m) = forceNec (nd s m) /\
    observers (nd s' m) = observers (nd s m) /\ hAdj (nd s' m) = hAdj (nd s m) /\
    recomputedAt (nd s' m) = recomputedAt (nd s m) /\ changedAt (nd s' m) = changedAt (nd s m) /\
    setAt (nd s' m) = setAt (nd s m) /\ value (nd s' m) = value (nd s m) /\ pending (nd s' m) = pending (nd s m);
  bf_log : exists l, log s' = l ++ log s /\ Forall is_nec l;
  bf_mono : forall m, inGraph (nd s m) = true -> inGraph (nd s' m) = true
}.

Lemma bn_frame_refl s : bn_frame s s.
Proof.
  split; try reflexivity; auto; try (intros m; repeat split; fail).
  exists []. split; [reflexivity|constructor].
Qed.

Lemma bn_frame_trans s1 s2 s3 : bn_frame s1 s2 -> bn_frame s2 s3 -> bn_frame s1 s3.
Proof.
  intros A B. split.
  - rewrite (bf_next _ _ B). apply A.
  - rewrite (bf_binds _ _ B). apply A.
  - rewrite (bf_obs _ _ B). apply A.
  - rewrite (bf_stabNum _ _ B). apply A.
  - rewrite (bf_status _ _ B). apply A.
  - rewrite (bf_maxHeight _ _ B). apply A.
  - rewrite (bf_setDuring _ _ B). apply A.
  - rewrite (bf_setRemoved _ _ B). apply A.
  - rewrite (bf_handlers _ _ B). apply A.
  - rewrite (bf_byHeight _ _ B). apply A.
  - rewrite (bf_anum _ _ B). apply A.
  - rewrite (bf_alower _ _ B). apply A.
  - intros m. rewrite (bf_has _ _ B). apply A.
  - intros m. destruct (bf_static _ _ A m) as (?&?&?&?&?&?&?&?&?&?&?&?),
                       (bf_static _ _ B m) as (?&?&?&?&?&?&?&?&?&?&?&?).
    repeat split; congruence.
  - destruct (bf_log _ _ A) as (l1 & E1 & F1), (bf_log _ _ B) as (l2 & E2 & F2).
    exists (l2 ++ l1). rewrite E2, E1, app_assoc. split; [reflexivity|]. apply Forall_app; auto.
  - intros m Hm. apply B, A, Hm.
Qed.

Lemma bn_frame_addNode s n : bn_frame s (addNode s n).
Proof.
  split; intros; autorewrite with eng; try reflexivity.
  - apply has_addNode.
  - repeat split.
  - exists []. split; [reflexivity|constructor].
  - apply inGraph_nd_addNode_mono. assumption.
Qed.

Lemma bn_frame_emit s n : bn_frame s (emit (EvNec n) s).
Proof.
  split; try reflexivity; auto; try (intros m; repeat split; fail).
  exists [EvNec n]. split; [reflexivity|]. constructor; [eexists; reflexivity|constructor].
Qed.

Lemma bn_frame_link s c p : bn_frame s (link s c p).
Proof.
  split; intros; autorewrite with eng; try reflexivity.
  - apply has_link.
  - repeat split.
  - exists []. split; [reflexivity|constructor].
  - assumption.
Qed.

Lemma bn_frame_invq s l : bn_frame s (s <| invq := l |>).
Proof.
  split; try reflexivity; auto; try (intros m; repeat split; fail).
  exists []. split; [reflexivity|constructor].
Qed.

Lemma bn_frame_setHeight s n h s' e : setHeight s n h = Ok (s', e) -> bn_frame s s'.
Proof.
  intros H. destruct e as [x|].
  - apply setHeight_err in H as [_ ->]. apply bn_frame_refl.
  - split.
    + apply (next_setHeight _ _ _ _ H). + apply (binds_setHeight _ _ _ _ H).
    + apply (obs_setHeight _ _ _ _ H). + apply (stabNum_setHeight _ _ _ _ H).
    + apply (status_setHeight _ _ _ _ H). + apply (maxHeight_setHeight _ _ _ _ H).
    + apply (setDuring_setHeight _ _ _ _ H). + apply (setRemoved_setHeight _ _ _ _ H).
    + apply (handlers_setHeight _ _ _ _ H). + apply (a_byHeight_setHeight _ _ _ _ H).
    + apply (a_num_setHeight _ _ _ _ H). + apply (a_lower_setHeight _ _ _ _ H).
    + apply (has_setHeight _ _ _ _ H).
    + intros m. repeat split; apply (proj_nd_setHeight _ _ _ _ H); reflexivity.
    + exists []. split; [apply (log_setHeight _ _ _ _ H)|constructor].
    + intros m. rewrite (proj_nd_setHeight _ _ _ _ H inGraph) by reflexivity. auto.
Qed.

Lemma bn_frame_only_heap s s' : only_heap s s' -> bn_frame s s'.
Proof.
  intros F. split.
  - apply (oh_next _ _ F). - apply (oh_binds _ _ F). - apply (oh_obs _ _ F).
  - apply (oh_stabNum _ _ F). - apply (oh_status _ _ F). - apply (oh_maxHeight _ _ F).
  - apply (oh_setDuring _ _ F). - apply (oh_setRemoved _ _ F). - apply (oh_handlers _ _ F).
  - rewrite (oh_adj _ _ F). reflexivity. - rewrite (oh_adj _ _ F). reflexivity.
  - rewrite (oh_adj _ _ F). reflexivity.
  - apply (oh_has _ _ F).
  - intros m. rewrite (oh_nd _ _ F). repeat split.
  - exists []. split; [apply (oh_log _ _ F)|constructor].
  - intros m. rewrite (oh_nd _ _ F). auto.
Qed.

Lemma only_heap_heapAddIfNotPresent s n s' : heapAddIfNotPresent s n = Ok s' -> only_heap s s'.
Proof.
  unfold heapAddIfNotPresent. destruct (inHeap s n); [intros [= <-]; apply only_heap_refl|].
  intros H. apply heapAdd_inv in H as (w & _ & ->). apply only_heap_set.
Qed.

Definition BN_frame_spec (fuel : nat) : Prop :=
  forall s n s' e, becameNecessaryRecursive fuel s n = Ok (s', e) ->
    bn_frame s s' /\ (forall m, ~ dreach s n m -> nd s' m = nd s m).

Lemma bn_body_frame fuel n : BN_frame_spec fuel ->
  forall s p s' e, bn_body fuel n s p = Ok (s', e) ->
    bn_frame s s' /\ (forall m, m <> n -> ~ dreach s p m -> nd s' m = nd s m).
Proof.
  intros IH s p s' e H. unfold bn_body in H.
  set (s1 := link s n p) in *.
  set (s2 := if valid (nd s1 p) then s1 else s1 <| invq := invq s1 ++ [n] |>) in *.
  assert (F2 : bn_frame s s2).
  { eapply bn_frame_trans; [apply bn_frame_link|]. unfold s2.
    destruct (valid (nd s1 p)); [apply bn_frame_refl|apply bn_frame_invq]. }
  assert (N2 : forall m, m <> n -> m <> p -> nd s2 m = nd s m).
  { intros m H1 H2. unfold s2. destruct (valid (nd s1 p)); apply nd_link_ne; assumption. }
  apply ebind_inv in H as (s3 & e3 & H3 & Hrest).
  assert (F3 : bn_frame s2 s3 /\ forall m, ~ dreach s2 p m -> nd s3 m = nd s2 m).
  { destruct (isNecessary (nd s p)).
    - apply ok_inv in H3 as [-> _]. split; [apply bn_frame_refl|auto].
    - apply IH in H3. exact H3. }
  destruct F3 as [F3 N3].
  assert (Hd2 : forall m, decl (nd s2 m) = decl (nd s m)) by (intros m; apply (bf_static _ _ F2 m)).
  assert (N3' : forall m, m <> n -> ~ dreach s p m -> nd s3 m = nd s m).
  { intros m Hn Hr. rewrite N3.
    - apply N2; [exact Hn|]. intros ->. apply Hr, dr_refl.
    - intros Hr'. apply Hr. apply (dreach_ext s2 s); [intros; symmetry; apply Hd2|exact Hr']. }
  destruct Hrest as [[-> H4]|(Hne & -> & ->)].
  - destruct (height (nd s3 p) >=? height (nd s3 n)).
    + pose proof (bn_frame_setHeight _ _ _ _ _ H4) as F4.
      split; [eapply bn_frame_trans; [exact F2|eapply bn_frame_trans; [exact F3|exact F4]]|].
      intros m Hn Hr. destruct e as [x|].
      * apply setHeight_err in H4 as [_ ->]. apply N3'; assumption.
      * rewrite (nd_setHeight_ne _ _ _ _ m H4 Hn). apply N3'; assumption.
    + apply ok_inv in H4 as [-> ->].
      split; [eapply bn_frame_trans; [exact F2|exact F3]|exact N3'].
  - split; [eapply bn_frame_trans; [exact F2|exact F3]|exact N3'].
Qed.

Lemma bn_loop_frame fuel n : BN_frame_spec fuel ->
  forall l s s' e, efold (bn_body fuel n) l s = Ok (s', e) ->
    bn_frame s s' /\ (forall m, m <> n -> (forall p, p ∈ l -> ~ dreach s p m) -> nd s' m = nd s m).
Proof.
  intros IH l. induction l as [|p l IHl]; intros s s' e H; simpl in H.
  - apply ok_inv in H as [-> ->]. split; [apply bn_frame_refl|auto].
  - apply ebind_inv in H as (s1 & e1 & H1 & Hrest).
    destruct (bn_body_frame fuel n IH s p s1 e1 H1) as [F1 N1].
    destruct Hrest as [[-> H2]|(Hne & -> & ->)].
    + destruct (IHl s1 s' e H2) as [F2 N2].
      split; [eapply bn_frame_trans; eauto|].
      intros m Hn Hr. rewrite N2; [apply N1; [exact Hn|apply Hr; left]|exact Hn|].
      intros q Hq Hr'. apply (Hr q ltac:(right; exact Hq)).
      apply (dreach_ext s1 s); [|exact Hr']. intros x. symmetry. apply (bf_static _ _ F1 x).
    + split; [exact F1|]. intros m Hn Hr. apply N1; [exact Hn|apply Hr; left].
Qed.

Lemma BN_frame fuel : BN_frame_spec fuel.
Proof.
  induction fuel as [|fuel IH]; intros s n s' e H; [discriminate|].
  rewrite BN_S in H. cbn zeta in H.
  set (s1 := addNode s n) in *.
  set (s2 := if inGraph (nd s n) then s1 else emit (EvNec n) s1) in *.
  assert (F2 : bn_frame s s2).
  { eapply bn_frame_trans; [apply bn_frame_addNode|]. unfold s2.
    destruct (inGraph (nd s n)); [apply bn_frame_refl|apply bn_frame_emit]. }
  assert (N2 : forall m, m <> n -> nd s2 m = nd s m).
  { intros m Hm. unfold s2. destruct (inGraph (nd s n)); apply nd_addNode_ne, Hm. }
  apply ebind_inv in H as (s3 & e3 & H3 & Hrest).
  pose proof (bn_frame_setHeight _ _ _ _ _ H3) as F3.
  assert (N3 : forall m, m <> n -> nd s3 m = nd s m).
  { intros m Hm. destruct e3 as [x|].
    - apply setHeight_err in H3 as [_ ->]. apply N2, Hm.
    - rewrite (nd_setHeight_ne _ _ _ _ m H3 Hm). apply N2, Hm. }
  assert (F03 : bn_frame s s3) by (eapply bn_frame_trans; eauto).
  assert (Hd3 : forall m, decl (nd s3 m) = decl (nd s m)) by (intros m; apply (bf_static _ _ F03 m)).
  destruct Hrest as [[-> H4]|(Hne & -> & ->)].
  2:{ split; [exact F03|]. intros m Hr. apply N3. intros ->. apply Hr, dr_refl. }
  apply ebind_inv in H4 as (s4 & e4 & H4 & Hrest).
  destruct (bn_loop_frame fuel n IH _ _ _ _ H4) as [F4 N4].
  assert (F04 : bn_frame s s4) by (eapply bn_frame_trans; eauto).
  assert (N04 : forall m, ~ dreach s n m -> nd s4 m = nd s m).
  { intros m Hr. assert (Hn : m <> n) by (intros ->; apply Hr, dr_refl).
    rewrite N4; [apply N3, Hn|exact Hn|]. intros p Hp Hr'. apply Hr.
    rewrite Hd3 in Hp. apply (dreach_decl s n p m Hp).
    apply (dreach_ext s3 s); [intros x; symmetry; apply Hd3|exact Hr']. }
  destruct Hrest as [[-> H5]|(Hne & -> & ->)]; [|auto].
  destruct (isStale s4 n).
  - apply lift_inv in H5 as [H5 ->]. apply only_heap_heapAddIfNotPresent in H5.
    split; [eapply bn_frame_trans; [exact F04|apply bn_frame_only_heap, H5]|].
    intros m Hr. rewrite (oh_nd _ _ H5). apply N04, Hr.
  - apply ok_inv in H5 as [-> ->]. auto.
Qed.

(** ** The invariant while nodes become necessary.  [X]: the open nodes (being set up by a caller
       further up: their own clauses are the caller's business) *)
Definition good_h (s : state) (m : nid) : Prop :=
  0 <= height (nd s m) < maxHeight s /\
  (forall p, p ∈ parents (nd s m) -> height (nd s p) < height (nd s m)) /\
  scopeHeight s (scope (nd s m)) < height (nd s m).

Record BInv (X : list nid) (s : state) : Prop := {
  b_edges : edges_ok s;
  b_zero1 : forall m, inGraph (nd s m) = false -> parents (nd s m) = [] /\ height (nd s m) = unset;
  b_zero2 : forall m, m ∉ X -> inGraph (nd s m) = false -> children (nd s m) = [] /\ observers (nd s m) = [];
  b_nec : forall m, m ∉ X -> inGraph (nd s m) = isNecessary (nd s m);
  b_par : forall m, m ∉ X -> inGraph (nd s m) = true -> parents (nd s m) = decl (nd s m);
  b_height : forall m, m ∉ X -> inGraph (nd s m) = true -> good_h s m;
  b_heap : heap_ok s;
  b_count : count_ok s;
  b_obs : obs_ok s;
  b_valid : forall m, inGraph (nd s m) = true -> valid (nd s m) = true;
  b_sreg : forall m b, inGraph (nd s m) = true -> scope (nd s m) = Some b -> inGraph (nd s b) = true;
  b_log : log_ok (log s);
  b_life : forall m, inGraph (nd s m) = true <-> lastNU (log s) m = Some true
}.

(** static facts, never changed while nodes become necessary *)
Record Sta (s : state) : Prop := {
  sta_ids : ids_ok s;
  sta_binds : binds_wf s;
  sta_kinds : kinds_ok s;
  sta_scopes : scopes_ok s;
  sta_scoping : scoping_ok s;
  sta_vc : forall m q, valid (nd s m) = true -> q ∈ decl (nd s m) -> valid (nd s q) = true
}.

Lemma Sta_bn_frame s s' : bn_frame s s' -> Sta s -> Sta s'.
Proof.
  intros F [H1 H2 H3 H4 H5 H6].
  assert (Hk : forall n, nkind (nd s' n) = nkind (nd s n)) by (intros n; apply (bf_static _ _ F n)).
  assert (Hd : forall n, decl (nd s' n) = decl (nd s n)) by (intros n; apply (bf_static _ _ F n)).
  assert (Hsc : forall n, scope (nd s' n) = scope (nd s n)) by (intros n; apply (bf_static _ _ F n)).
  assert (Hv : forall n, valid (nd s' n) = valid (nd s n)) by (intros n; apply (bf_static _ _ F n)).
  split.
  - apply (ids_ok_ext s s'); auto; apply F.
  - apply (binds_wf_ext s s'); auto; apply F.
  - apply (kinds_ok_ext s s'); auto; apply F.
  - apply (scopes_ok_ext s s'); auto; apply F.
  - apply (scoping_ok_ext s s'); auto; apply F.
  - intros m q. rewrite !Hv, Hd. apply H6.
Qed.

(** acyclicity of declarations, from the key order *)
Lemma key_lt_trans a b c : key_lt a b -> key_lt b c -> key_lt a c.
Proof. destruct a as [[? ?] ?], b as [[? ?] ?], c as [[? ?] ?]. unfold key_lt. lia. Qed.

Lemma key_lt_irrefl a : ~ key_lt a a.
Proof. destruct a as [[? ?] ?]. unfold key_lt. lia. Qed.

Lemma mu_lt_trans s a b c : scopes_ok s -> mu_lt s a b -> mu_lt s b c -> mu_lt s a c.
Proof.
  intros Hs H1 H2 ta da tc dc Ca Cc. destruct (chain_exists s Hs b) as (tb & db & Cb).
  eapply key_lt_trans; [apply (H1 _ _ _ _ Ca Cb)|apply (H2 _ _ _ _ Cb Cc)].
Qed.

Lemma mu_lt_irrefl s a : scopes_ok s -> ~ mu_lt s a a.
Proof.
  intros Hs H. destruct (chain_exists s Hs a) as (t & d & C). exact (key_lt_irrefl _ (H _ _ _ _ C C)).
Qed.

Lemma gmu_lt_trans own s a b c : scopes_ok s -> own_ok own s -> gmu_lt own s a b -> gmu_lt own s b c -> gmu_lt own s a c.
Proof.
  intros Hs Ho H1 H2 ta da tc dc Ca Cc. destruct (gchain_exists own s Hs Ho b) as (tb & db & Cb).
  eapply key_lt_trans; [apply (H1 _ _ _ _ Ca Cb)|apply (H2 _ _ _ _ Cb Cc)].
Qed.

Lemma gmu_lt_irrefl own s a : scopes_ok s -> own_ok own s -> ~ gmu_lt own s a a.
Proof.
  intros Hs Ho H. destruct (gchain_exists own s Hs Ho a) as (t & d & C). exact (key_lt_irrefl _ (H _ _ _ _ C C)).
Qed.

Lemma dreach_mu own s n m :
  scopes_ok s -> own_ok own s -> (forall n q, q ∈ decl (nd s n) -> gmu_lt own s q n) ->
  dreach s n m -> m = n \/ gmu_lt own s m n.
Proof.
  intros Hs Ho Hacy H. induction H as [|m q _ IH Hq]; [auto|]. right.
  pose proof (Hacy m q Hq) as Hlt.
  destruct IH as [->|IH]; [exact Hlt|]. eapply gmu_lt_trans; [exact Hs|exact Ho|exact Hlt|exact IH].
Qed.

(* no declaration cycle through [n] *)
Lemma no_cycle s n m : Sta s -> dreach s n m -> n ∈ decl (nd s m) -> False.
Proof.
  intros St H Hn. destruct (sc_acyclic s (sta_scoping s St)) as (own & Ho & Hacy & _).
  pose proof (sta_scopes s St) as Hs. pose proof (Hacy m n Hn) as Hlt.
  destruct (dreach_mu own s n m Hs Ho Hacy H) as [->|Hm].
  - exact (gmu_lt_irrefl own s n Hs Ho Hlt).
  - exact (gmu_lt_irrefl own s n Hs Ho (gmu_lt_trans own s n m n Hs Ho Hlt Hm)).
Qed.

Lemma no_cycle2 s a b : Sta s -> dreach s a b -> dreach s b a -> a = b.
Proof.
  intros St H1 H2. destruct H2 as [|m q H2 Hq]; [reflexivity|].
  exfalso. apply (no_cycle s q m St); [|exact Hq]. eapply dreach_trans; [|exact H2].
  exact H1.
Qed.

(* a node of the scope of [n] is not reachable from the lhs-change node [n] *)
Lemma scope_reach s n m : Sta s -> dreach s n m -> scope (nd s m) = Some n -> False.
Proof.
  intros St H Hs.
  assert (Hmain : dreach s n (S n)).
  { induction H as [|m q H IH Hq].
    - destruct (sta_scopes s St n n Hs) as [_ Hlt]. lia.
    - destruct (sc_decl s (sta_scoping s St) m q Hq) as [E|[E|(b & Hk & Hb & _)]].
      + congruence.
      + apply IH. congruence.
      + assert (b = n) as -> by congruence.
        pose proof (sta_kinds s St m (has_decl s m q Hq)) as Hkm. rewrite Hk in Hkm.
        destruct Hkm as [-> _]. exact H. }
  destruct (sta_scopes s St m n Hs) as [[r Hr] _].
  pose proof (bw_decl_main s n r (sta_binds s St n r Hr)) as Hd.
  apply (no_cycle s n (S n) St Hmain). rewrite Hd. left.
Qed.

Lemma edges_ok_link s c p : edges_ok s -> has s c -> has s p -> edges_ok (link s c p).
Proof.
  intros H Hc Hp m q. rewrite parents_nd_link by exact Hc. rewrite children_nd_link by exact Hp.
  destruct (decide (m = c)) as [->|Hm], (decide (q = p)) as [->|Hq]; rewrite ?count_app, ?count_singleton.
  - rewrite !decide_True by reflexivity. rewrite (H c p). reflexivity.
  - rewrite decide_False by congruence. rewrite (H c q). lia.
  - rewrite decide_False by congruence. rewrite (H m p). lia.
  - apply H.
Qed.

Lemma BInv_weaken X Y s : (forall m, m ∈ X -> m ∈ Y) -> BInv X s -> BInv Y s.
Proof.
  intros Hsub [b_edges0 b_zero10 b_zero20 b_nec0 b_par0 b_height0 b_heap0 b_count0 b_obs0 b_valid0 b_sreg0 b_log0 b_life0].
  constructor; try assumption; intros m Hm; [apply b_zero20|apply b_nec0|apply b_par0|apply b_height0]; auto.
Qed.

Lemma BInv_close X s p :
  BInv (p :: X) s ->
  (inGraph (nd s p) = false -> children (nd s p) = [] /\ observers (nd s p) = []) ->
  inGraph (nd s p) = isNecessary (nd s p) ->
  (inGraph (nd s p) = true -> parents (nd s p) = decl (nd s p) /\ good_h s p) ->
  BInv X s.
Proof.
  intros [b_edges0 b_zero10 b_zero20 b_nec0 b_par0 b_height0 b_heap0 b_count0 b_obs0 b_valid0 b_sreg0 b_log0 b_life0] H1 H2 H3.
  assert (Hin : forall m, m ∉ X -> m = p \/ m ∉ p :: X).
  { intros m Hm. destruct (decide (m = p)); [auto|right]. rewrite not_elem_of_cons. auto. }
  constructor; try assumption.
  - intros m Hm. destruct (Hin m Hm) as [->|Hm']; auto.
  - intros m Hm. destruct (Hin m Hm) as [->|Hm']; auto.
  - intros m Hm Hg. destruct (Hin m Hm) as [->|Hm']; [apply H3, Hg|auto].
  - intros m Hm Hg. destruct (Hin m Hm) as [->|Hm']; [apply H3, Hg|auto].
Qed.

Lemma BInv_only_heap X s s' : only_heap s s' -> heap_ok s' -> BInv X s -> BInv X s'.
Proof.
  intros F Hk [b_edges0 b_zero10 b_zero20 b_nec0 b_par0 b_height0 b_heap0 b_count0 b_obs0 b_valid0 b_sreg0 b_log0 b_life0].
  assert (Hnd : forall m, nd s' m = nd s m) by apply (oh_nd _ _ F).
  constructor; try assumption.
  - intros c p. rewrite !Hnd. apply b_edges0.
  - intros m. rewrite !Hnd. apply b_zero10.
  - intros m. rewrite !Hnd. apply b_zero20.
  - intros m. rewrite !Hnd. apply b_nec0.
  - intros m. rewrite !Hnd. apply b_par0.
  - intros m Hm. rewrite Hnd. intros Hg. destruct (b_height0 m Hm Hg) as (H1 & H2 & H3).
    unfold good_h. rewrite Hnd, (oh_maxHeight _ _ F). split; [exact H1|]. split.
    + intros q. rewrite Hnd. apply H2.
    + unfold scopeHeight in *. destruct (scope (nd s m)); [rewrite Hnd|]; exact H3.
  - apply (count_ok_ext s s'); auto; [apply (oh_reg _ _ F)|apply (oh_obs _ _ F)|apply (oh_numNodes _ _ F)|].
    intros m. rewrite Hnd. reflexivity.
  - apply (obs_ok_ext s s'); auto; [apply (oh_binds _ _ F)|apply (oh_obs _ _ F)|apply (oh_next _ _ F)|apply (oh_has _ _ F)| |];
      intros m; rewrite Hnd; reflexivity.
  - intros m. rewrite Hnd. apply b_valid0.
  - intros m b. rewrite !Hnd. apply b_sreg0.
  - rewrite (oh_log _ _ F). assumption.
  - intros m. rewrite Hnd, (oh_log _ _ F). apply b_life0.
Qed.

Lemma BInv_link X s n p :
  BInv (n :: X) s -> has s n -> has s p -> inGraph (nd s n) = true ->
  BInv (p :: n :: X) (link s n p).
Proof.
  intros [b_edges0 b_zero10 b_zero20 b_nec0 b_par0 b_height0 b_heap0 b_count0 b_obs0 b_valid0 b_sreg0 b_log0 b_life0] Hn Hp Hgn.
  set (s1 := link s n p).
  assert (Hg : forall m, inGraph (nd s1 m) = inGraph (nd s m)) by (intros; apply inGraph_nd_link).
  assert (Hh : forall m, height (nd s1 m) = height (nd s m)) by (intros; apply height_nd_link).
  assert (Hpar : forall m, m <> n -> parents (nd s1 m) = parents (nd s m)).
  { intros m Hm. unfold s1. rewrite parents_nd_link, decide_False by assumption. reflexivity. }
  assert (Hchi : forall m, m <> p -> children (nd s1 m) = children (nd s m)).
  { intros m Hm. unfold s1. rewrite children_nd_link, decide_False by assumption. reflexivity. }
  assert (Hnin : forall m, m ∉ p :: n :: X -> m <> p /\ m <> n /\ m ∉ n :: X).
  { intros m Hm. rewrite !not_elem_of_cons in Hm. rewrite not_elem_of_cons. tauto. }
  constructor.
  - apply edges_ok_link; assumption.
  - intros m. rewrite Hg, Hh. intros Hm. rewrite Hpar; [apply b_zero10, Hm|]. intros ->. congruence.
  - intros m Hm. destruct (Hnin m Hm) as (H1 & H2 & H3). rewrite Hg, Hchi by exact H1.
    unfold s1. rewrite observers_nd_link. apply b_zero20, H3.
  - intros m Hm. destruct (Hnin m Hm) as (H1 & H2 & H3). rewrite Hg.
    rewrite (isNecessary_ext (nd s1 m) (nd s m));
      [apply b_nec0, H3|apply forceNec_nd_link|apply Hchi, H1|apply observers_nd_link].
  - intros m Hm. destruct (Hnin m Hm) as (H1 & H2 & H3). rewrite Hg, Hpar by exact H2.
    unfold s1. rewrite decl_nd_link. apply b_par0, H3.
  - intros m Hm. destruct (Hnin m Hm) as (H1 & H2 & H3). rewrite Hg. intros Hgm.
    destruct (b_height0 m H3 Hgm) as (A & B & C). unfold good_h. rewrite Hh, Hpar by exact H2.
    split; [exact A|]. split.
    + intros q. rewrite Hh. apply B.
    + unfold s1. rewrite scope_nd_link. unfold scopeHeight in *.
      destruct (scope (nd s m)); [rewrite height_nd_link|]; exact C.
  - apply (heap_ok_ext s s1); auto.
  - apply (count_ok_ext s s1); auto.
  - apply (obs_ok_ext s s1); auto; intros m; unfold s1; autorewrite with eng; try reflexivity. apply has_link.
  - intros m. rewrite Hg. unfold s1. rewrite valid_nd_link. apply b_valid0.
  - intros m b. rewrite !Hg. unfold s1. rewrite scope_nd_link. apply b_sreg0.
  - exact b_log0.
  - intros m. rewrite Hg. apply b_life0.
Qed.

Lemma BInv_raise X s n h s' :
  BInv (n :: X) s -> has s n -> inGraph (nd s n) = true -> n ∉ Heap.ids (heap s) ->
  (forall c, c ∈ children (nd s n) -> c ∈ n :: X) ->
  (forall m, m ∉ n :: X -> inGraph (nd s m) = true -> scope (nd s m) <> Some n) ->
  setHeight s n h = Ok (s', None) -> BInv (n :: X) s'.
Proof.
  intros [b_edges0 b_zero10 b_zero20 b_nec0 b_par0 b_height0 b_heap0 b_count0 b_obs0 b_valid0 b_sreg0 b_log0 b_life0]
         Hn Hgn Hheap Hchi Hsc H.
  assert (Hproj : forall {A} (g : node -> A), (forall x v, g (set height v x) = g x) -> forall m, g (nd s' m) = g (nd s m)).
  { intros A g Hg m. apply (proj_nd_setHeight _ _ _ _ H g m Hg). }
  assert (Hh : forall m, height (nd s' m) = if decide (m = n) then h else height (nd s m))
    by (intros m; apply (height_nd_setHeight _ _ _ _ H m Hn)).
  assert (Hg : forall m, inGraph (nd s' m) = inGraph (nd s m)) by (apply Hproj; reflexivity).
  assert (Hp : forall m, parents (nd s' m) = parents (nd s m)) by (apply Hproj; reflexivity).
  assert (Hc : forall m, children (nd s' m) = children (nd s m)) by (apply Hproj; reflexivity).
  assert (Ho : forall m, observers (nd s' m) = observers (nd s m)) by (apply Hproj; reflexivity).
  constructor.
  - apply (edges_ok_ext s s'); auto.
  - intros m. rewrite Hg, Hp, Hh. intros Hm. rewrite decide_False by (intros ->; congruence). apply b_zero10, Hm.
  - intros m Hm. rewrite Hg, Hc, Ho. apply b_zero20, Hm.
  - intros m Hm. rewrite Hg, (isNecessary_ext (nd s' m) (nd s m)); auto; apply Hproj; reflexivity.
  - intros m Hm. rewrite Hg, Hp, (Hproj _ decl) by reflexivity. apply b_par0, Hm.
  - intros m Hm. rewrite Hg. intros Hgm. destruct (b_height0 m Hm Hgm) as (A & B & C).
    assert (Hmn : m <> n) by (intros ->; apply Hm; left).
    unfold good_h. rewrite Hh, decide_False, Hp, (maxHeight_setHeight _ _ _ _ H) by exact Hmn.
    split; [exact A|]. split.
    + intros q Hq. rewrite Hh. destruct (decide (q = n)) as [->|]; [|apply B, Hq].
      exfalso. apply Hm, Hchi. apply (edges_parent_child s m n b_edges0), Hq.
    + rewrite (Hproj _ scope) by reflexivity. unfold scopeHeight in *.
      destruct (scope (nd s m)) as [b|] eqn:Eb; [|exact C]. rewrite Hh.
      destruct (decide (b = n)) as [->|]; [|exact C]. exfalso. exact (Hsc m Hm Hgm Eb).
  - destruct b_heap0 as [Hi Hq]. unfold heap_ok. rewrite (heap_setHeight _ _ _ _ H). split; [exact Hi|].
    intros m Hm. rewrite Hg, Hh. rewrite decide_False by (intros ->; contradiction). apply Hq, Hm.
  - apply (count_ok_ext s s'); auto;
      first [apply (reg_setHeight _ _ _ _ H)|apply (obs_setHeight _ _ _ _ H)|apply (numNodes_setHeight _ _ _ _ H)].
  - apply (obs_ok_ext s s'); auto;
      first [apply (binds_setHeight _ _ _ _ H)|apply (obs_setHeight _ _ _ _ H)|apply (next_setHeight _ _ _ _ H)
            |apply (has_setHeight _ _ _ _ H)|apply Hproj; reflexivity].
  - intros m. rewrite Hg, (Hproj _ valid) by reflexivity. apply b_valid0.
  - intros m b. rewrite !Hg, (Hproj _ scope) by reflexivity. apply b_sreg0.
  - rewrite (log_setHeight _ _ _ _ H). exact b_log0.
  - intros m. rewrite Hg, (log_setHeight _ _ _ _ H). apply b_life0.
Qed.

Lemma BInv_register X s n s3 :
  BInv (n :: X) s -> has s n -> inGraph (nd s n) = false -> valid (nd s n) = true ->
  (forall c, c ∈ children (nd s n) -> c ∈ X) ->
  (forall b, scope (nd s n) = Some b -> inGraph (nd s b) = true) ->
  scope (nd s n) <> Some n ->
  0 <= scopeHeight s (scope (nd s n)) + 1 ->
  setHeight (emit (EvNec n) (addNode s n)) n (scopeHeight s (scope (nd s n)) + 1) = Ok (s3, None) ->
  BInv (n :: X) s3 /\ inGraph (nd s3 n) = true /\ parents (nd s3 n) = [] /\ good_h s3 n /\
  n ∉ Heap.ids (heap s3) /\ (forall m, m <> n -> nd s3 m = nd s m) /\
  children (nd s3 n) = children (nd s n) /\ heap s3 = heap s /\ invq s3 = invq s.
Proof.
  intros [b_edges0 b_zero10 b_zero20 b_nec0 b_par0 b_height0 b_heap0 b_count0 b_obs0 b_valid0 b_sreg0 b_log0 b_life0]
         Hn Hgn Hvn Hchi Hsreg Hscn Hh0 H.
  set (h0 := scopeHeight s (scope (nd s n)) + 1) in *.
  set (s2 := emit (EvNec n) (addNode s n)) in *.
  assert (Hn2 : has s2 n) by (apply has_addNode; exact Hn).
  assert (E2 : forall m, nd s2 m = if decide (m = n) then set inGraph (fun _ => true) (nd s n) else nd s m).
  { intros m. unfold s2. rewrite nd_emit. unfold addNode. rewrite Hgn.
    change (nd (upd s n (set inGraph (fun _ => true))) m = if decide (m = n) then set inGraph (fun _ => true) (nd s n) else nd s m).
    apply nd_upd, Hn. }
  assert (E3 : forall m, nd s3 m = if decide (m = n) then set height (fun _ => h0) (set inGraph (fun _ => true) (nd s n)) else nd s m).
  { intros m. rewrite (nd_setHeight _ _ _ _ H m Hn2), !E2. destruct (decide (m = n)) as [->|]; [|reflexivity].
    rewrite decide_True by reflexivity. reflexivity. }
  assert (Ene : forall m, m <> n -> nd s3 m = nd s m) by (intros m Hm; rewrite E3, decide_False by exact Hm; reflexivity).
  assert (Hproj : forall {A} (g : node -> A), (forall x v, g (set height v x) = g x) ->
                   (forall x v, g (set inGraph v x) = g x) -> forall m, g (nd s3 m) = g (nd s m)).
  { intros A g G1 G2 m. rewrite E3. destruct (decide (m = n)) as [->|]; [rewrite G1, G2|]; reflexivity. }
  assert (Hg : forall m, inGraph (nd s3 m) = if decide (m = n) then true else inGraph (nd s m)).
  { intros m. rewrite E3. destruct (decide (m = n)); reflexivity. }
  assert (Hh : forall m, height (nd s3 m) = if decide (m = n) then h0 else height (nd s m)).
  { intros m. rewrite E3. destruct (decide (m = n)); reflexivity. }
  assert (Hp : forall m, parents (nd s3 m) = parents (nd s m)) by (apply Hproj; reflexivity).
  assert (Hc : forall m, children (nd s3 m) = children (nd s m)) by (apply Hproj; reflexivity).
  assert (Hsc : forall m, scope (nd s3 m) = scope (nd s m)) by (apply Hproj; reflexivity).
  assert (Hheap : heap s3 = heap s) by (rewrite (heap_setHeight _ _ _ _ H); unfold s2; autorewrite with eng; reflexivity).
  assert (Hmh : maxHeight s3 = maxHeight s) by (rewrite (maxHeight_setHeight _ _ _ _ H); unfold s2; autorewrite with eng; reflexivity).
  assert (Hlog : log s3 = EvNec n :: log s).
  { rewrite (log_setHeight _ _ _ _ H). unfold s2. rewrite log_emit, log_addNode. reflexivity. }
  assert (Hnin : forall m, m ∉ n :: X -> m <> n /\ m ∉ X) by (intros m Hm; rewrite not_elem_of_cons in Hm; exact Hm).
  assert (Hpn : parents (nd s n) = []) by (apply b_zero10, Hgn).
  assert (Hnheap : n ∉ Heap.ids (heap s)).
  { intros Hin. destruct b_heap0 as [_ Hq]. destruct (Hq n Hin) as [Hq' _]. congruence. }
  assert (Hreg : reg s3 = reg s ++ [n]).
  { rewrite (reg_setHeight _ _ _ _ H). unfold s2. rewrite reg_emit, reg_addNode, Hgn. reflexivity. }
  split; [|split; [|split; [|split; [|split; [|split; [|split; [|split]]]]]]].
  - constructor.
    + apply (edges_ok_ext s s3); auto.
    + intros m. rewrite Hg. destruct (decide (m = n)) as [->|Hm]; [discriminate|].
      rewrite Ene by exact Hm. apply b_zero10.
    + intros m Hm. destruct (Hnin m Hm) as [Hm1 Hm2]. rewrite Ene by exact Hm1. apply b_zero20, Hm.
    + intros m Hm. destruct (Hnin m Hm) as [Hm1 Hm2]. rewrite Ene by exact Hm1. apply b_nec0, Hm.
    + intros m Hm. destruct (Hnin m Hm) as [Hm1 Hm2]. rewrite Ene by exact Hm1. apply b_par0, Hm.
    + intros m Hm. destruct (Hnin m Hm) as [Hm1 Hm2]. rewrite Ene by exact Hm1. intros Hgm.
      destruct (b_height0 m Hm Hgm) as (A & B & C). unfold good_h. rewrite Ene, Hmh by exact Hm1.
      split; [exact A|]. split.
      * intros q Hq. rewrite Hh. destruct (decide (q = n)) as [->|]; [|apply B, Hq].
        exfalso. apply Hm2, Hchi. apply (edges_parent_child s m n b_edges0), Hq.
      * unfold scopeHeight in *. destruct (scope (nd s m)) as [b|] eqn:Eb; [|exact C]. rewrite Hh.
        destruct (decide (b = n)) as [->|]; [|exact C]. rewrite (b_sreg0 m n Hgm Eb) in Hgn. discriminate.
    + destruct b_heap0 as [Hi Hq]. unfold heap_ok. rewrite Hheap. split; [exact Hi|].
      intros m Hm. assert (m <> n) by (intros ->; contradiction). rewrite Ene by assumption. apply Hq, Hm.
    + destruct b_count0 as [C1 C2 C3]. split.
      * rewrite Hreg. apply NoDup_app. split; [exact C1|]. split; [|apply NoDup_singleton].
        intros x Hx ->%elem_of_list_singleton. apply C2 in Hx. congruence.
      * intros m. rewrite Hreg, elem_of_app, elem_of_list_singleton, Hg, C2.
        destruct (decide (m = n)) as [->|]; [tauto|]. split; [intros [?|?]; [assumption|contradiction]|auto].
      * rewrite Hreg, app_length. cbn [length].
        rewrite (numNodes_setHeight _ _ _ _ H). unfold s2. rewrite numNodes_emit, numNodes_addNode, Hgn.
        rewrite (obs_setHeight _ _ _ _ H). unfold s2. rewrite obs_emit, obs_addNode. lia.
    + apply (obs_ok_ext s s3); auto;
        first [rewrite (binds_setHeight _ _ _ _ H); unfold s2; autorewrite with eng; reflexivity
              |rewrite (obs_setHeight _ _ _ _ H); unfold s2; autorewrite with eng; reflexivity
              |rewrite (next_setHeight _ _ _ _ H); unfold s2; autorewrite with eng; reflexivity
              |intros m; rewrite (has_setHeight _ _ _ _ H); unfold s2; apply has_addNode
              |apply Hproj; reflexivity].
    + intros m. rewrite Hg, (Hproj _ valid) by reflexivity. destruct (decide (m = n)) as [->|]; [auto|apply b_valid0].
    + intros m b. rewrite !Hg, Hsc. intros Hm Hb.
      assert (inGraph (nd s b) = true) as Hb'.
      { destruct (decide (m = n)) as [->|]; [apply Hsreg, Hb|apply (b_sreg0 m b Hm Hb)]. }
      destruct (decide (b = n)); [reflexivity|exact Hb'].
    + rewrite Hlog. split; [|exact b_log0]. cbn. intros E. apply b_life0 in E. congruence.
    + intros m. rewrite Hg, Hlog. cbn. destruct (decide (n = m)) as [->|Hne].
      * rewrite decide_True by reflexivity. tauto.
      * rewrite decide_False by congruence. apply b_life0.
  - rewrite Hg, decide_True by reflexivity. reflexivity.
  - rewrite Hp. exact Hpn.
  - unfold good_h. rewrite Hh, decide_True, Hp, Hpn, Hmh by reflexivity. split; [|split].
    + split; [exact Hh0|]. pose proof (setHeight_le _ _ _ _ H) as Hle.
      assert (maxHeight s2 = maxHeight s) as Em by (unfold s2; autorewrite with eng; reflexivity). lia.
    + intros q Hq. inversion Hq.
    + rewrite Hsc. unfold h0, scopeHeight. destruct (scope (nd s n)) as [b|] eqn:Eb; [|lia].
      rewrite Hh, decide_False by congruence. lia.
  - rewrite Hheap. exact Hnheap.
  - exact Ene.
  - apply Hc.
  - exact Hheap.
  - rewrite (invq_setHeight _ _ _ _ H). unfold s2. autorewrite with eng. reflexivity.
Qed.

Record bn_post (X : list nid) (s : state) (n : nid) (s' : state) : Prop := {
  bp_inv : BInv X s';
  bp_invq : invq s' = invq s;
  bp_reg : inGraph (nd s' n) = true;
  bp_height : forall m, inGraph (nd s m) = true -> height (nd s' m) = height (nd s m);
  bp_heap : forall m, m ∈ Heap.ids (heap s') -> m ∈ Heap.ids (heap s) \/ dreach s n m;
  bp_new : forall m, inGraph (nd s' m) = true -> inGraph (nd s m) = true \/ dreach s n m
}.

Definition BN_spec (fuel : nat) : Prop :=
  forall s n X s' e,
    Sta s -> BInv (n :: X) s -> has s n -> inGraph (nd s n) = false ->
    isNecessary (nd s n) = true -> valid (nd s n) = true ->
    (forall c, c ∈ children (nd s n) -> c ∈ X) ->
    (forall b, scope (nd s n) = Some b -> inGraph (nd s b) = true) ->
    (forall x, x ∈ X -> exists m, dreach s x m /\ n ∈ decl (nd s m)) ->
    becameNecessaryRecursive fuel s n = Ok (s', e) ->
    match e with None => bn_post X s n s' | Some x => x = EHeightLimit end.

(** the loop invariant of [becameNecessaryRecursive s n] over the declared inputs of [n] *)
Record BJ (s : state) (n : nid) (X : list nid) (rest : list nid) (st : state) : Prop := {
  j_inv : BInv (n :: X) st;
  j_frame : bn_frame s st;
  j_touch : forall m, ~ dreach s n m -> nd st m = nd s m;
  j_invq : invq st = invq s;
  j_reg : inGraph (nd st n) = true;
  j_par : parents (nd st n) ++ rest = decl (nd s n);
  j_h : 0 <= height (nd st n) < maxHeight st;
  j_hs : scopeHeight st (scope (nd st n)) < height (nd st n);
  j_hp : forall q, q ∈ parents (nd st n) -> inGraph (nd st q) = true /\ height (nd st q) < height (nd st n);
  j_chi : children (nd st n) = children (nd s n);
  j_heapn : n ∉ Heap.ids (heap st);
  j_height : forall m, inGraph (nd s m) = true -> height (nd st m) = height (nd s m);
  j_heap : forall m, m ∈ Heap.ids (heap st) -> m ∈ Heap.ids (heap s) \/ dreach s n m;
  j_new : forall m, inGraph (nd st m) = true -> inGraph (nd s m) = true \/ dreach s n m
}.

Lemma scopeHeight_ext s s' sc : (forall m, height (nd s' m) = height (nd s m)) -> scopeHeight s' sc = scopeHeight s sc.
Proof. intros H. unfold scopeHeight. destruct sc; [apply H|reflexivity]. Qed.

Lemma good_h_ext s s' m :
  maxHeight s' = maxHeight s -> parents (nd s' m) = parents (nd s m) -> scope (nd s' m) = scope (nd s m) ->
  (forall q, height (nd s' q) = height (nd s q)) -> good_h s m -> good_h s' m.
Proof.
  intros Hm Hp Hs Hh (A & B & C). unfold good_h. rewrite Hm, Hp, Hs, Hh. split; [exact A|]. split.
  - intros q. rewrite Hh. apply B.
  - rewrite (scopeHeight_ext s s') by exact Hh. exact C.
Qed.

Section bn_iter.
  Context (fuel : nat) (IH : BN_spec fuel).
  Context (s : state) (n : nid) (X : list nid).
  Hypothesis (St : Sta s) (Hn : has s n) (Hgn : inGraph (nd s n) = false) (Hvn : valid (nd s n) = true).
  Hypothesis (Hchi : forall c, c ∈ children (nd s n) -> c ∈ X).
  Hypothesis (HX : forall x, x ∈ X -> exists m, dreach s x m /\ n ∈ decl (nd s m)).
  Hypothesis (Hsregn : forall m, inGraph (nd s m) = true -> scope (nd s m) <> Some n).

  Lemma bn_iter p rest st st' e :
    BJ s n X (p :: rest) st -> bn_body fuel n st p = Ok (st', e) ->
    match e with None => BJ s n X rest st' | Some x => x = EHeightLimit end.
  Proof.
    intros J H.
    pose proof (j_frame _ _ _ _ _ J) as F.
    pose proof (Sta_bn_frame s st F St) as Sst.
    assert (Hd : forall m, decl (nd st m) = decl (nd s m)) by (intros m; apply (bf_static _ _ F m)).
    assert (Hsc : forall m, scope (nd st m) = scope (nd s m)) by (intros m; apply (bf_static _ _ F m)).
    assert (Hvv : forall m, valid (nd st m) = valid (nd s m)) by (intros m; apply (bf_static _ _ F m)).
    assert (Hhas : forall m, has st m <-> has s m) by apply F.
    assert (Hdr : forall a b, dreach st a b -> dreach s a b).
    { intros a b. apply dreach_ext. intros x. symmetry. apply Hd. }
    assert (Hdr' : forall a b, dreach s a b -> dreach st a b) by (intros a b; apply dreach_ext, Hd).
    assert (Hpd : p ∈ decl (nd s n)).
    { rewrite <- (j_par _ _ _ _ _ J). apply elem_of_app. right. left. }
    assert (Hp : has s p) by (apply (io_decl s (sta_ids s St) n p Hpd)).
    assert (Hvp : valid (nd s p) = true) by (apply (sta_vc s St n p Hvn Hpd)).
    assert (Hpn : p <> n).
    { intros ->. apply (no_cycle s n n St (dr_refl s n) Hpd). }
    assert (HpX : p ∉ n :: X).
    { rewrite not_elem_of_cons. split; [exact Hpn|]. intros Hx. destruct (HX p Hx) as (m & Hm1 & Hm2).
      apply (no_cycle s n m St); [|exact Hm2]. eapply dreach_decl; eauto. }
    assert (Hnp : ~ dreach s p n).
    { intros Hr. assert (p = n); [|contradiction]. symmetry. apply (no_cycle2 s n p St); [|exact Hr].
      eapply dr_step; [apply dr_refl|exact Hpd]. }
    destruct J as [Jinv _ Jtouch Jinvq Jreg Jpar Jh Jhs Jhp Jchi Jheapn Jheight Jheap Jnew].
    unfold bn_body in H. set (st1 := link st n p) in *.
    assert (Hv1 : valid (nd st1 p) = true) by (unfold st1; rewrite valid_nd_link, Hvv; exact Hvp).
    rewrite Hv1 in H.
    assert (Hn' : has st n) by (apply Hhas, Hn). assert (Hp' : has st p) by (apply Hhas, Hp).
    pose proof (BInv_link X st n p Jinv Hn' Hp' Jreg) as B1.
    assert (F1 : bn_frame st st1) by apply bn_frame_link.
    assert (Hpar1 : parents (nd st1 n) = parents (nd st n) ++ [p]).
    { unfold st1. rewrite parents_nd_link, decide_True by auto. reflexivity. }
    assert (Hchi1 : children (nd st1 p) = children (nd st p) ++ [n]).
    { unfold st1. rewrite children_nd_link, decide_True by auto. reflexivity. }
    assert (Hh1 : forall m, height (nd st1 m) = height (nd st m)) by (intros; apply height_nd_link).
    assert (Hg1 : forall m, inGraph (nd st1 m) = inGraph (nd st m)) by (intros; apply inGraph_nd_link).
    apply ebind_inv in H as (st3 & e3 & H3 & Hrest).
    (* the state after the input has been made necessary *)
    assert (Mid : match e3 with
                  | Some x => x = EHeightLimit
                  | None => BInv (n :: X) st3 /\ bn_frame st1 st3 /\ nd st3 n = nd st1 n /\
                            (forall m, m <> p -> ~ dreach s p m -> nd st3 m = nd st1 m) /\
                            invq st3 = invq st1 /\ inGraph (nd st3 p) = true /\
                            (forall m, inGraph (nd st1 m) = true -> height (nd st3 m) = height (nd st1 m)) /\
                            (forall m, m ∈ Heap.ids (heap st3) -> m ∈ Heap.ids (heap st1) \/ dreach s p m) /\
                            (forall m, inGraph (nd st3 m) = true -> inGraph (nd st1 m) = true \/ dreach s p m)
                  end).
    { destruct (isNecessary (nd st p)) eqn:Enec.
      - apply ok_inv in H3 as [-> ->].
        assert (Hgp : inGraph (nd st p) = true) by (rewrite (b_nec _ _ Jinv p HpX); exact Enec).
        split; [|split; [apply bn_frame_refl|repeat split; auto]]; [|rewrite Hg1; exact Hgp].
        apply (BInv_close (n :: X) st1 p B1).
        + rewrite Hg1, Hgp. discriminate.
        + rewrite Hg1, Hgp. symmetry. apply isNecessary_true. right; left. rewrite Hchi1.
          intros E. apply app_eq_nil in E as [_ E]. discriminate.
        + intros _. split.
          * unfold st1. rewrite parents_nd_link by exact Hn'. rewrite decide_False by exact Hpn.
            rewrite decl_nd_link. apply (b_par _ _ Jinv p HpX Hgp).
          * apply (good_h_ext st st1); auto; unfold st1; autorewrite with eng; try reflexivity.
            -- rewrite parents_nd_link by exact Hn'. rewrite decide_False by exact Hpn. reflexivity.
            -- apply (b_height _ _ Jinv p HpX Hgp).
      - assert (Hgp : inGraph (nd st p) = false) by (rewrite (b_nec _ _ Jinv p HpX); exact Enec).
        assert (St1 : Sta st1) by (apply (Sta_bn_frame st st1 F1 Sst)).
        assert (Hd1 : forall m, decl (nd st1 m) = decl (nd s m)).
        { intros m. unfold st1. rewrite decl_nd_link. apply Hd. }
        assert (Hdr1 : forall a b, dreach s a b -> dreach st1 a b) by (intros a b; apply dreach_ext, Hd1).
        assert (Hdr1' : forall a b, dreach st1 a b -> dreach s a b).
        { intros a b. apply dreach_ext. intros x. symmetry. apply Hd1. }
        specialize (IH st1 p (n :: X) st3 e3 St1 B1).
        assert (Post : match e3 with None => bn_post (n :: X) st1 p st3 | Some x => x = EHeightLimit end).
        { apply IH; try assumption.
          - apply has_link, Hp'.
          - rewrite Hg1. exact Hgp.
          - apply isNecessary_true. right; left. rewrite Hchi1.
            intros E. apply app_eq_nil in E as [_ E]. discriminate.
          - intros c. rewrite Hchi1. destruct (b_zero2 _ _ Jinv p HpX Hgp) as [-> _].
            intros ->%elem_of_list_singleton. left.
          - (* the scope of p is registered *)
            intros b Hb. rewrite Hg1. unfold st1 in Hb. rewrite scope_nd_link, Hsc in Hb.
            destruct (sc_decl s (sta_scoping s St) n p Hpd) as [E|[E|(b' & Hk & Hb' & Hr)]].
            + congruence.
            + apply (b_sreg _ _ Jinv n b Jreg). rewrite Hsc. congruence.
            + assert (b' = b) as -> by congruence.
              pose proof (sta_kinds s St n Hn) as Hkn. rewrite Hk in Hkn. destruct Hkn as [-> [r Hr']].
              pose proof (bw_decl_main s b r (sta_binds s St b r Hr')) as Hdm.
              unfold bd in Hr. rewrite Hr' in Hr. simpl in Hr. rewrite Hr in Hdm. simpl in Hdm.
              assert (Hbp : b ∈ parents (nd st (S b))).
              { rewrite Hdm in Jpar. destruct (parents (nd st (S b))) as [|y l]; simpl in Jpar.
                - injection Jpar as Hpb _. destruct (sta_scopes s St p b Hb) as [_ Hlt]. lia.
                - injection Jpar as -> _. left. }
              apply (Jhp b Hbp).
          - intros x [->|Hx]%elem_of_cons.
            + exists n. split; [apply dr_refl|]. rewrite Hd1. exact Hpd.
            + destruct (HX x Hx) as (m & Hm1 & Hm2). exists n. split; [|rewrite Hd1; exact Hpd].
              apply Hdr1. eapply dr_step; eauto. }
        destruct e3 as [x|]; [exact Post|].
        destruct (BN_frame fuel st1 p st3 None H3) as [F3 T3].
        destruct Post as [P1 P2 P3 P4 P5 P6].
        split; [exact P1|]. split; [exact F3|]. split; [|split; [|split; [exact P2|split; [exact P3|split; [exact P4|split]]]]].
        + apply T3. intros Hr. apply Hnp, Hdr1', Hr.
        + intros m _ Hr. apply T3. intros Hr'. apply Hr, Hdr1', Hr'.
        + intros m Hm. destruct (P5 m Hm) as [?|Hr]; [auto|right; apply Hdr1', Hr].
        + intros m Hm. destruct (P6 m Hm) as [?|Hr]; [auto|right; apply Hdr1', Hr]. }
    destruct Hrest as [[-> H4]|(Hne & -> & ->)].
    2:{ destruct e3 as [x|]; [exact Mid|congruence]. }
    destruct Mid as (B3 & F3 & En3 & T3 & Iq3 & Gp3 & Hh3 & Hp3 & Hn3).
    assert (F03 : bn_frame s st3) by (eapply bn_frame_trans; [exact F|eapply bn_frame_trans; eauto]).
    (* facts about n in st3 *)
    assert (Hpar3 : parents (nd st3 n) = parents (nd st n) ++ [p]) by (rewrite En3; exact Hpar1).
    assert (Hhn3 : height (nd st3 n) = height (nd st n)) by (rewrite En3; apply Hh1).
    assert (Hgn3 : inGraph (nd st3 n) = true) by (rewrite En3, Hg1; exact Jreg).
    assert (Hchi3 : children (nd st3 n) = children (nd s n)).
    { rewrite En3. unfold st1. rewrite children_nd_link by exact Hp'. rewrite decide_False by congruence. exact Jchi. }
    assert (Hheap3 : n ∉ Heap.ids (heap st3)).
    { intros Hin. destruct (Hp3 n Hin) as [Hin'|Hr]; [|exact (Hnp Hr)]. apply Jheapn. exact Hin'. }
    assert (Hmono13 : forall m, inGraph (nd st m) = true -> inGraph (nd st3 m) = true).
    { intros m Hm. apply (bf_mono _ _ F3). rewrite Hg1. exact Hm. }
    assert (Hold : forall q, q ∈ parents (nd st n) -> inGraph (nd st3 q) = true /\ height (nd st3 q) = height (nd st q)).
    { intros q Hq. destruct (Jhp q Hq) as [Hgq _]. split; [apply Hmono13, Hgq|].
      rewrite Hh3 by (rewrite Hg1; exact Hgq). apply Hh1. }
    assert (Hsc3 : scope (nd st3 n) = scope (nd st n)).
    { rewrite En3. unfold st1. apply scope_nd_link. }
    assert (Hscb3 : forall b, scope (nd st n) = Some b -> height (nd st3 b) = height (nd st b) /\ b <> n).
    { intros b Eb. split.
      - rewrite Hh3 by (rewrite Hg1; apply (b_sreg _ _ Jinv n b Jreg Eb)). apply Hh1.
      - intros ->. rewrite Hsc in Eb. destruct (sta_scopes s St n n Eb) as [_ Hlt]. lia. }
    assert (Hnew3 : forall m, inGraph (nd st3 m) = true -> inGraph (nd s m) = true \/ dreach s n m).
    { intros m Hm. destruct (Hn3 m Hm) as [Hm'|Hr].
      - rewrite Hg1 in Hm'. apply Jnew, Hm'.
      - right. eapply dreach_decl; eauto. }
    assert (Hmh3 : maxHeight st3 = maxHeight st) by (rewrite (bf_maxHeight _ _ F3); reflexivity).
    (* the common conclusion, given the final height of n *)
    assert (Fin : forall st', (forall m, m <> n -> nd st' m = nd st3 m) ->
              bn_frame st3 st' -> BInv (n :: X) st' -> heap st' = heap st3 -> invq st' = invq st3 ->
              parents (nd st' n) = parents (nd st3 n) -> children (nd st' n) = children (nd st3 n) ->
              inGraph (nd st' n) = true -> scope (nd st' n) = scope (nd st3 n) ->
              height (nd st3 n) <= height (nd st' n) < maxHeight st' ->
              height (nd st3 p) < height (nd st' n) ->
              BJ s n X rest st').
    { intros st'' Ene F' B' Hw' Hq' Hpar' Hchi' Hg' Hsc' Hhn' Hhp'.
      assert (Hhne : forall m, m <> n -> height (nd st'' m) = height (nd st3 m)) by (intros m Hm; rewrite Ene by exact Hm; reflexivity).
      constructor.
      - exact B'.
      - eapply bn_frame_trans; eauto.
      - intros m Hr. assert (m <> n) by (intros ->; apply Hr, dr_refl).
        assert (m <> p) by (intros ->; apply Hr; eapply dr_step; [apply dr_refl|exact Hpd]).
        rewrite Ene by assumption. rewrite T3; [|assumption|intros Hr'; apply Hr; eapply dreach_decl; eauto].
        unfold st1. rewrite nd_link_ne by assumption. apply Jtouch, Hr.
      - rewrite Hq', Iq3. unfold st1. rewrite invq_link. exact Jinvq.
      - exact Hg'.
      - rewrite Hpar', Hpar3, <- app_assoc. exact Jpar.
      - split; [lia|apply Hhn'].
      - rewrite Hsc', Hsc3. unfold scopeHeight in *. destruct (scope (nd st n)) as [b|] eqn:Eb; [|lia].
        destruct (Hscb3 b eq_refl) as [Hb1 Hb2]. rewrite Hhne by exact Hb2. rewrite Hb1. lia.
      - intros q. rewrite Hpar', Hpar3, elem_of_app, elem_of_list_singleton. intros [Hq| ->].
        + destruct (Hold q Hq) as [Hgq Hhq]. destruct (Jhp q Hq) as [_ Hlt].
          assert (q <> n).
          { intros ->. apply (no_cycle s n n St (dr_refl s n)). rewrite <- Jpar. apply elem_of_app. left. exact Hq. }
          split; [apply (bf_mono _ _ F'), Hgq|]. rewrite Hhne by assumption. lia.
        + split; [apply (bf_mono _ _ F'), Gp3|]. rewrite Hhne by exact Hpn. exact Hhp'.
      - rewrite Hchi'. exact Hchi3.
      - rewrite Hw'. exact Hheap3.
      - intros m Hm. assert (m <> n) by (intros ->; congruence).
        rewrite Hhne by assumption. rewrite Hh3.
        + rewrite Hh1. apply Jheight, Hm.
        + rewrite Hg1. apply (bf_mono _ _ F), Hm.
      - intros m. rewrite Hw'. intros Hm. destruct (Hp3 m Hm) as [Hm'|Hr].
        + apply Jheap. exact Hm'.
        + right. eapply dreach_decl; eauto.
      - intros m Hm. destruct (decide (m = n)) as [->|Hmn]; [right; apply dr_refl|].
        apply Hnew3. rewrite <- Ene by exact Hmn. exact Hm. }
    destruct (Z.geb_spec (height (nd st3 p)) (height (nd st3 n))) as [Hge|Hlt].
    - destruct e as [x|]; [apply setHeight_err in H4 as [-> _]; reflexivity|].
      assert (Hn3' : has st3 n) by (apply (bf_has _ _ F03), Hn).
      apply Fin.
      + intros m Hm. apply (nd_setHeight_ne _ _ _ _ m H4 Hm).
      + apply (bn_frame_setHeight _ _ _ _ _ H4).
      + eapply (BInv_raise X st3 n); [exact B3|exact Hn3'|exact Hgn3|exact Hheap3| | |exact H4].
        * intros c. rewrite Hchi3. intros Hc. right. apply Hchi, Hc.
        * intros m Hm Hgm Hs. rewrite (proj1 (proj2 (proj2 (bf_static _ _ F03 m)))) in Hs.
          destruct (Hnew3 m Hgm) as [Hg0|Hr]; [exact (Hsregn m Hg0 Hs)|exact (scope_reach s n m St Hr Hs)].
      + apply (heap_setHeight _ _ _ _ H4).
      + apply (invq_setHeight _ _ _ _ H4).
      + apply (proj_nd_setHeight _ _ _ _ H4 parents). reflexivity.
      + apply (proj_nd_setHeight _ _ _ _ H4 children). reflexivity.
      + rewrite (proj_nd_setHeight _ _ _ _ H4 inGraph) by reflexivity. exact Hgn3.
      + apply (proj_nd_setHeight _ _ _ _ H4 scope). reflexivity.
      + rewrite (height_nd_setHeight _ _ _ _ H4 n Hn3'), decide_True by reflexivity.
        pose proof (setHeight_le _ _ _ _ H4). rewrite (maxHeight_setHeight _ _ _ _ H4). lia.
      + rewrite (height_nd_setHeight _ _ _ _ H4 n Hn3'), decide_True by reflexivity. lia.
    - apply ok_inv in H4 as [-> ->]. apply Fin; auto.
      + apply bn_frame_refl.
      + rewrite Hhn3, Hmh3. split; [lia|apply Jh].
  Qed.
End bn_iter.

Lemma BN_spec_all fuel : BN_spec fuel.
Proof.
  induction fuel as [|fuel IH]; intros s n X s' e St B Hn Hgn Hnec Hvn Hchi Hsreg HX H; [discriminate|].
  rewrite BN_S in H. cbn zeta in H. rewrite Hgn in H.
  set (s2 := emit (EvNec n) (addNode s n)) in *.
  assert (Eh : scopeHeight s2 (scope (nd s2 n)) = scopeHeight s (scope (nd s n))).
  { unfold s2. rewrite nd_emit, scope_nd_addNode. apply scopeHeight_ext.
    intros m. rewrite nd_emit. apply height_nd_addNode. }
  rewrite Eh in H.
  apply ebind_inv in H as (s3 & e3 & H3 & Hrest).
  destruct e3 as [x|].
  { apply setHeight_err in H3 as [-> _]. destruct Hrest as [[? _]|(_ & _ & ->)]; [discriminate|reflexivity]. }
  destruct Hrest as [[_ H]|(Hne & _)]; [|congruence].
  assert (Hscn : scope (nd s n) <> Some n).
  { intros E. destruct (sta_scopes s St n n E) as [_ Hlt]. lia. }
  assert (Hh0 : 0 <= scopeHeight s (scope (nd s n)) + 1).
  { unfold scopeHeight. destruct (scope (nd s n)) as [b|] eqn:Eb; [|unfold unset; lia].
    assert (Hb : b ∉ n :: X).
    { rewrite not_elem_of_cons. split; [congruence|]. intros Hx. destruct (HX b Hx) as (m & Hm1 & Hm2).
      apply (scope_reach s b n St); [eapply dr_step; eauto|exact Eb]. }
    destruct (b_height _ _ B b Hb (Hsreg b eq_refl)) as (A & _). lia. }
  destruct (BInv_register X s n s3 B Hn Hgn Hvn Hchi Hsreg Hscn Hh0 H3)
    as (B3 & Hg3 & Hp3 & Hgood3 & Hheap3 & Ene3 & Hchi3 & Hw3 & Hq3).
  assert (F3 : bn_frame s s3).
  { eapply bn_frame_trans; [apply bn_frame_addNode|]. eapply bn_frame_trans; [apply bn_frame_emit|].
    apply (bn_frame_setHeight _ _ _ _ _ H3). }
  assert (Hsregn : forall m, inGraph (nd s m) = true -> scope (nd s m) <> Some n).
  { intros m Hm E. rewrite (b_sreg _ _ B m n Hm E) in Hgn. discriminate. }
  assert (J3 : BJ s n X (decl (nd s n)) s3).
  { destruct Hgood3 as (A & Bq & C). constructor; auto.
    - intros m Hr. apply Ene3. intros ->. apply Hr, dr_refl.
    - rewrite Hp3. reflexivity.
    - rewrite Hp3. intros q Hq. inversion Hq.
    - intros m Hm. rewrite Ene3; [reflexivity|]. intros ->. congruence.
    - intros m. rewrite Hw3. auto.
    - intros m Hm. destruct (decide (m = n)) as [->|Hne]; [right; apply dr_refl|].
      left. rewrite <- Ene3 by exact Hne. exact Hm. }
  assert (Hd3 : decl (nd s3 n) = decl (nd s n)) by apply (bf_static _ _ F3 n).
  rewrite Hd3 in H.
  apply ebind_inv in H as (s4 & e4 & H4 & Hrest).
  pose proof (efold_inv (BJ s n X) (fun _ x => x = EHeightLimit) (bn_body fuel n) _ _ _ _ J3
                (fun p rest st st' e1 J Hb => bn_iter fuel IH s n X St Hn Hgn Hvn Hchi HX Hsregn p rest st st' e1 J Hb) H4) as L.
  destruct e4 as [x|].
  { destruct Hrest as [[? _]|(_ & _ & ->)]; [discriminate|exact L]. }
  destruct Hrest as [[_ H]|(Hne & _)]; [|congruence].
  destruct L as [Jinv Jframe Jtouch Jinvq Jreg Jpar Jh Jhs Jhp Jchi Jheapn Jheight Jheap Jnew].
  rewrite app_nil_r in Jpar.
  assert (B4 : BInv X s4).
  { apply (BInv_close X s4 n Jinv).
    - rewrite Jreg. discriminate.
    - rewrite Jreg. symmetry. rewrite <- Hnec. apply isNecessary_ext; [| exact Jchi |]; apply (bf_static _ _ Jframe n).
    - intros _. split.
      + rewrite Jpar. symmetry. apply (bf_static _ _ Jframe n).
      + split; [exact Jh|]. split; [|exact Jhs]. intros q Hq. apply Jhp, Hq. }
  assert (Post4 : forall s5, only_heap s4 s5 -> heap_ok s5 ->
             (forall m, m ∈ Heap.ids (heap s5) -> m = n \/ m ∈ Heap.ids (heap s4)) -> bn_post X s n s5).
  { intros s5 F5 Hk5 Hids. constructor.
    - apply (BInv_only_heap X s4 s5 F5 Hk5 B4).
    - rewrite (oh_invq _ _ F5). exact Jinvq.
    - rewrite (oh_nd _ _ F5). exact Jreg.
    - intros m Hm. rewrite (oh_nd _ _ F5). apply Jheight, Hm.
    - intros m Hm. destruct (Hids m Hm) as [->|Hm']; [right; apply dr_refl|apply Jheap, Hm'].
    - intros m. rewrite (oh_nd _ _ F5). apply Jnew. }
  destruct (isStale s4 n).
  - apply lift_inv in H as [H ->].
    destruct (heap_ok_heapAddIfNotPresent s4 n s' (b_heap _ _ B4) Jreg ltac:(lia) H) as [F5 Hk5].
    apply Post4; [exact F5|exact Hk5|].
    destruct (heapAddIfNotPresent_spec s4 n s' (proj1 (b_heap _ _ B4)) ltac:(lia) H) as (_ & _ & Hids & _).
    intros m Hm. apply Hids, Hm.
  - apply ok_inv in H as [-> ->]. apply Post4; [apply only_heap_refl|apply B4|auto].
Qed.

(** ** becoming necessary *)
Lemma nc_setHeight s n h : nocrash (setHeight s n h).
Proof. unfold setHeight. destruct (h >? maxHeight s - 1); apply nc_Ok. Qed.

Definition BN_nc (fuel : nat) : Prop :=
  forall s n X, Sta s -> BInv (n :: X) s -> has s n -> inGraph (nd s n) = false ->
    isNecessary (nd s n) = true -> valid (nd s n) = true ->
    (forall c, c ∈ children (nd s n) -> c ∈ X) ->
    (forall b, scope (nd s n) = Some b -> inGraph (nd s b) = true) ->
    (forall x, x ∈ X -> exists m, dreach s x m /\ n ∈ decl (nd s m)) ->
    nocrash (becameNecessaryRecursive fuel s n).

Section bn_nc.
  Context (fuel : nat) (IH : BN_nc fuel).
  Context (s : state) (n : nid) (X : list nid).
  Hypothesis (St : Sta s) (Hn : has s n) (Hgn : inGraph (nd s n) = false) (Hvn : valid (nd s n) = true).
  Hypothesis (Hchi : forall c, c ∈ children (nd s n) -> c ∈ X).
  Hypothesis (HX : forall x, x ∈ X -> exists m, dreach s x m /\ n ∈ decl (nd s m)).

  Lemma bn_body_nc p rest st : BJ s n X (p :: rest) st -> nocrash (bn_body fuel n st p).
  Proof.
    intros J.
    pose proof (j_frame _ _ _ _ _ J) as F.
    pose proof (Sta_bn_frame s st F St) as Sst.
    assert (Hd : forall m, decl (nd st m) = decl (nd s m)) by (intros m; apply (bf_static _ _ F m)).
    assert (Hsc : forall m, scope (nd st m) = scope (nd s m)) by (intros m; apply (bf_static _ _ F m)).
    assert (Hvv : forall m, valid (nd st m) = valid (nd s m)) by (intros m; apply (bf_static _ _ F m)).
    assert (Hhas : forall m, has st m <-> has s m) by apply F.
    assert (Hpd : p ∈ decl (nd s n)).
    { rewrite <- (j_par _ _ _ _ _ J). apply elem_of_app. right. left. }
    assert (Hp : has s p) by (apply (io_decl s (sta_ids s St) n p Hpd)).
    assert (Hvp : valid (nd s p) = true) by (apply (sta_vc s St n p Hvn Hpd)).
    assert (Hpn : p <> n).
    { intros ->. apply (no_cycle s n n St (dr_refl s n) Hpd). }
    assert (HpX : p ∉ n :: X).
    { rewrite not_elem_of_cons. split; [exact Hpn|]. intros Hx. destruct (HX p Hx) as (m & Hm1 & Hm2).
      apply (no_cycle s n m St); [|exact Hm2]. eapply dreach_decl; eauto. }
    destruct J as [Jinv _ Jtouch Jinvq Jreg Jpar Jh Jhs Jhp Jchi Jheapn Jheight Jheap Jnew].
    unfold bn_body. set (st1 := link st n p) in *.
    assert (Hv1 : valid (nd st1 p) = true) by (unfold st1; rewrite valid_nd_link, Hvv; exact Hvp).
    rewrite Hv1.
    assert (Hn' : has st n) by (apply Hhas, Hn). assert (Hp' : has st p) by (apply Hhas, Hp).
    pose proof (BInv_link X st n p Jinv Hn' Hp' Jreg) as B1.
    assert (F1 : bn_frame st st1) by apply bn_frame_link.
    assert (Hchi1 : children (nd st1 p) = children (nd st p) ++ [n]).
    { unfold st1. rewrite children_nd_link, decide_True by auto. reflexivity. }
    assert (Hg1 : forall m, inGraph (nd st1 m) = inGraph (nd st m)) by (intros; apply inGraph_nd_link).
    apply nc_ebind; [|intros st3 _; destruct (_ >=? _); [apply nc_setHeight|apply nc_Ok]].
    destruct (isNecessary (nd st p)) eqn:Enec; [apply nc_Ok|].
    assert (Hgp : inGraph (nd st p) = false) by (rewrite (b_nec _ _ Jinv p HpX); exact Enec).
    assert (St1 : Sta st1) by (apply (Sta_bn_frame st st1 F1 Sst)).
    assert (Hd1 : forall m, decl (nd st1 m) = decl (nd s m)).
    { intros m. unfold st1. rewrite decl_nd_link. apply Hd. }
    assert (Hdr1 : forall a b, dreach s a b -> dreach st1 a b) by (intros a b; apply dreach_ext, Hd1).
    apply (IH st1 p (n :: X) St1 B1); try assumption.
    - apply has_link, Hp'.
    - rewrite Hg1. exact Hgp.
    - apply isNecessary_true. right; left. rewrite Hchi1.
      intros E. apply app_eq_nil in E as [_ E]. discriminate.
    - intros c. rewrite Hchi1. destruct (b_zero2 _ _ Jinv p HpX Hgp) as [-> _].
      intros ->%elem_of_list_singleton. left.
    - intros b Hb. rewrite Hg1. unfold st1 in Hb. rewrite scope_nd_link, Hsc in Hb.
      destruct (sc_decl s (sta_scoping s St) n p Hpd) as [E|[E|(b' & Hk & Hb' & Hr)]].
      + congruence.
      + apply (b_sreg _ _ Jinv n b Jreg). rewrite Hsc. congruence.
      + assert (b' = b) as -> by congruence.
        pose proof (sta_kinds s St n Hn) as Hkn. rewrite Hk in Hkn. destruct Hkn as [-> [r Hr']].
        pose proof (bw_decl_main s b r (sta_binds s St b r Hr')) as Hdm.
        unfold bd in Hr. rewrite Hr' in Hr. simpl in Hr. rewrite Hr in Hdm. simpl in Hdm.
        assert (Hbp : b ∈ parents (nd st (S b))).
        { rewrite Hdm in Jpar. destruct (parents (nd st (S b))) as [|y l]; simpl in Jpar.
          - injection Jpar as Hpb _. destruct (sta_scopes s St p b Hb) as [_ Hlt]. lia.
          - injection Jpar as -> _. left. }
        apply (Jhp b Hbp).
    - intros x [->|Hx]%elem_of_cons.
      + exists n. split; [apply dr_refl|]. rewrite Hd1. exact Hpd.
      + destruct (HX x Hx) as (m & Hm1 & Hm2). exists n. split; [|rewrite Hd1; exact Hpd].
        apply Hdr1. eapply dr_step; eauto.
  Qed.
End bn_nc.

Lemma nc_BN fuel : BN_nc fuel.
Proof.
  induction fuel as [|fuel IH]; intros s n X St B Hn Hgn Hnec Hvn Hchi Hsreg HX; [apply nc_fuel|].
  rewrite BN_S. cbn zeta. rewrite Hgn.
  set (s2 := emit (EvNec n) (addNode s n)) in *.
  assert (Eh : scopeHeight s2 (scope (nd s2 n)) = scopeHeight s (scope (nd s n))).
  { unfold s2. rewrite nd_emit, scope_nd_addNode. apply scopeHeight_ext.
    intros m. rewrite nd_emit. apply height_nd_addNode. }
  rewrite Eh.
  apply nc_ebind; [apply nc_setHeight|]. intros s3 H3.
  assert (Hscn : scope (nd s n) <> Some n).
  { intros E. destruct (sta_scopes s St n n E) as [_ Hlt]. lia. }
  assert (Hh0 : 0 <= scopeHeight s (scope (nd s n)) + 1).
  { unfold scopeHeight. destruct (scope (nd s n)) as [b|] eqn:Eb; [|unfold unset; lia].
    assert (Hb : b ∉ n :: X).
    { rewrite not_elem_of_cons. split; [congruence|]. intros Hx. destruct (HX b Hx) as (m & Hm1 & Hm2).
      apply (scope_reach s b n St); [eapply dr_step; eauto|exact Eb]. }
    destruct (b_height _ _ B b Hb (Hsreg b eq_refl)) as (A & _). lia. }
  destruct (BInv_register X s n s3 B Hn Hgn Hvn Hchi Hsreg Hscn Hh0 H3)
    as (B3 & Hg3 & Hp3 & Hgood3 & Hheap3 & Ene3 & Hchi3 & Hw3 & Hq3).
  assert (F3 : bn_frame s s3).
  { eapply bn_frame_trans; [apply bn_frame_addNode|]. eapply bn_frame_trans; [apply bn_frame_emit|].
    apply (bn_frame_setHeight _ _ _ _ _ H3). }
  assert (Hsregn : forall m, inGraph (nd s m) = true -> scope (nd s m) <> Some n).
  { intros m Hm E. rewrite (b_sreg _ _ B m n Hm E) in Hgn. discriminate. }
  assert (J3 : BJ s n X (decl (nd s n)) s3).
  { destruct Hgood3 as (A & Bq & C). constructor; auto.
    - intros m Hr. apply Ene3. intros ->. apply Hr, dr_refl.
    - rewrite Hp3. reflexivity.
    - rewrite Hp3. intros q Hq. inversion Hq.
    - intros m Hm. rewrite Ene3; [reflexivity|]. intros ->. congruence.
    - intros m. rewrite Hw3. auto.
    - intros m Hm. destruct (decide (m = n)) as [->|Hne]; [right; apply dr_refl|].
      left. rewrite <- Ene3 by exact Hne. exact Hm. }
  assert (Hd3 : decl (nd s3 n) = decl (nd s n)) by apply (bf_static _ _ F3 n).
  rewrite Hd3.
  apply nc_ebind.
  - apply (nc_efold (BJ s n X)); [exact J3|]. intros p rest st J. split.
    + apply (bn_body_nc fuel IH s n X St Hn Hgn Hvn Hchi HX p rest st J).
    + intros st' Hb. apply (bn_iter fuel (BN_spec_all fuel) s n X St Hn Hgn Hvn Hchi HX Hsregn p rest st st' None J Hb).
  - intros s4 H4.
    pose proof (efold_inv (BJ s n X) (fun _ x => x = EHeightLimit) (bn_body fuel n) _ _ _ _ J3
                  (fun p rest st st' e1 J Hb => bn_iter fuel (BN_spec_all fuel) s n X St Hn Hgn Hvn Hchi HX Hsregn p rest st st' e1 J Hb) H4) as L.
    destruct (isStale s4 n); [|apply nc_Ok]. apply nc_lift.
    destruct L as [Jinv Jframe Jtouch Jinvq Jreg Jpar Jh Jhs Jhp Jchi Jheapn Jheight Jheap Jnew].
    apply nc_heapAddIfNotPresent; [apply (b_heap _ _ Jinv)|lia].
Qed.


(** ** Consequences of the quiescent clauses: validity is closed under declarations; a registered
       scope node has its lhs-change registered *)
Lemma valid_closed s :
  binds_wf s -> kinds_ok s -> scoping_ok s ->
  (forall n, scope (nd s n) = None -> valid (nd s n) = true) ->
  (forall n b, has s n -> scope (nd s n) = Some b -> ~ inGen s b n -> valid (nd s n) = false /\ inGraph (nd s n) = false) ->
  (forall n b, inGen s b n -> valid (nd s n) = valid (nd s b)) ->
  forall m q, valid (nd s m) = true -> q ∈ decl (nd s m) -> valid (nd s q) = true.
Proof.
  intros Hb Hk [S1 S2 S3 S4] V1 V2 V3 m q Hv Hq.
  assert (Hm : has s m) by (eapply has_decl, Hq).
  assert (Hgen : forall x b, has s x -> valid (nd s x) = true -> scope (nd s x) = Some b -> inGen s b x).
  { intros x b Hx Hvx Hsx. destruct (decide (x ∈ b_rhsNodes (bd s b))) as [|Hno]; [assumption|].
    destruct (V2 x b Hx Hsx Hno) as [E _]. congruence. }
  destruct (S1 m q Hq) as [E|[E|(b & Hkm & Hsq & Hr)]].
  - apply V1, E.
  - destruct (scope (nd s m)) as [b|] eqn:Esm; [|apply V1, E].
    pose proof (Hgen m b Hm Hv Esm) as Gm. pose proof (S2 m q b Hq Esm E Gm) as Gq.
    rewrite (V3 q b Gq), <- (V3 m b Gm). exact Hv.
  - destruct (S3 b q Hr) as [E|[_ Gq]]; [congruence|]. rewrite (V3 q b Gq).
    pose proof (Hk m Hm) as Hkm'. rewrite Hkm in Hkm'. destruct Hkm' as [-> [r Hr']].
    pose proof (Hb b r Hr') as W.
    destruct (scope (nd s b)) as [b0|] eqn:Esb; [|apply V1, Esb].
    assert (Esm : scope (nd s (S b)) = Some b0) by (rewrite (bw_scope s b r W); exact Esb).
    pose proof (Hgen (S b) b0 Hm Hv Esm) as Gm.
    assert (Hbd : b ∈ decl (nd s (S b))) by (rewrite (bw_decl_main s b r W); left).
    pose proof (S2 (S b) b b0 Hbd Esm Esb Gm) as Gb.
    rewrite (V3 b b0 Gb), <- (V3 (S b) b0 Gm). exact Hv.
Qed.

Lemma Inv_Sta s : Inv s -> Sta s.
Proof.
  intros HI. split; try apply HI. destruct (inv_valid s HI) as [V1 V2 V3 V4].
  apply valid_closed; auto; apply HI.
Qed.

Lemma scope_registered s :
  edges_ok s -> zero_ok s -> nec_ok s -> par_ok s -> height_ok s -> obs_ok s ->
  (forall m, forceNec (nd s m) = false) ->
  binds_wf s -> kinds_ok s -> scoping_ok s ->
  forall m b, inGraph (nd s m) = true -> scope (nd s m) = Some b -> inGraph (nd s b) = true.
Proof.
  intros He Hz Hnec Hpar Hh Hobs Hf Hb Hk Hsc m b.
  remember (Z.to_nat (maxHeight s - height (nd s m))) as k eqn:Ek.
  revert m Ek. induction (lt_wf k) as [k _ IH]. intros m Ek Hg Hs.
  pose proof Hg as Hn. rewrite (Hnec m) in Hn. apply isNecessary_true in Hn as [Hn|[Hn|Hn]].
  - rewrite Hf in Hn. discriminate.
  - destruct (children (nd s m)) as [|c l] eqn:Ec; [congruence|].
    assert (Hc : c ∈ children (nd s m)) by (rewrite Ec; left).
    pose proof (child_registered s c m He Hz Hc) as Hgc.
    apply (edges_parent_child s c m He) in Hc.
    destruct (Hh c Hgc) as (Hc1 & Hc2 & _). specialize (Hc2 m Hc).
    rewrite (Hpar c Hgc) in Hc.
    destruct (sc_decl s Hsc c m Hc) as [E|[E|(b' & Hkc & Hsm & _)]].
    + congruence.
    + assert (Hlt : (Z.to_nat (maxHeight s - height (nd s c)) < k)%nat).
      { destruct (Hh m Hg) as (Hm1 & _). subst k. lia. }
      apply (IH _ Hlt c eq_refl Hgc). congruence.
    + assert (b' = b) as -> by congruence.
      pose proof (Hk c (has_inGraph s c Hgc)) as Hkc'. rewrite Hkc in Hkc'. destruct Hkc' as [-> [r Hr]].
      apply (parent_registered s (S b) b He Hz). rewrite (Hpar (S b) Hgc), (bw_decl_main s b r (Hb b r Hr)). left.
  - destruct (observers (nd s m)) as [|o l] eqn:Eo; [congruence|].
    assert (Ho : o ∈ observers (nd s m)) by (rewrite Eo; left).
    apply (ob_iff s Hobs) in Ho. destruct (ob_ids s Hobs o m Ho) as (_ & _ & E). congruence.
Qed.

Lemma Inv_sreg s : Inv s -> forall m b, inGraph (nd s m) = true -> scope (nd s m) = Some b -> inGraph (nd s b) = true.
Proof.
  intros HI. apply scope_registered;
    first [apply (inv_edges s HI)|apply (inv_zero s HI)|apply (inv_nec s HI)|apply (inv_par s HI)
          |apply (inv_height s HI)|apply (inv_obs s HI)|apply (q_force s (inv_quiet s HI))
          |apply (inv_binds s HI)|apply (inv_kinds s HI)|apply (inv_scoping s HI)].
Qed.

Lemma BInv_TInv s : BInv [] s -> TInv [] noE s.
Proof.
  intros [b_edges0 b_zero10 b_zero20 b_nec0 b_par0 b_height0 b_heap0 b_count0 b_obs0 b_valid0 b_sreg0 b_log0 b_life0].
  assert (Hnil : forall m : nid, m ∉ []) by (intros m Hm; inversion Hm).
  constructor.
  - exact b_edges0.
  - intros m Hm. destruct (b_zero10 m Hm), (b_zero20 m (Hnil m) Hm). auto.
  - intros m _ _. apply b_nec0, Hnil.
  - intros m [].
  - intros w Hw. inversion Hw.
  - intros m _. apply b_par0, Hnil.
  - intros m Hm. apply (b_height0 m (Hnil m) Hm).
  - exact b_heap0.
  - exact b_count0.
  - exact b_obs0.
  - exact b_valid0.
  - exact b_log0.
  - intros m _. apply b_life0.
  - intros w Hw. inversion Hw.
  - constructor.
Qed.

Lemma TInv_BInv s : TInv [] noE s ->
  (forall m b, inGraph (nd s m) = true -> scope (nd s m) = Some b -> inGraph (nd s b) = true) ->
  BInv [] s.
Proof.
  intros [t_edges0 t_zero0 t_nec0 t_necE0 t_W0 t_par0 t_height0 t_heap0 t_count0 t_obs0 t_valid0 t_log0 t_life0 t_lifeW0 t_nodup0] Hsreg.
  assert (Hnil : forall m : nid, m ∉ []) by (intros m Hm; inversion Hm).
  constructor.
  - exact t_edges0.
  - intros m Hm. destruct (t_zero0 m Hm) as (? & ? & ? & ?). auto.
  - intros m _ Hm. destruct (t_zero0 m Hm) as (? & ? & ? & ?). auto.
  - intros m _. apply t_nec0; [apply Hnil|intros []].
  - intros m _. apply t_par0, Hnil.
  - intros m _ Hm. apply (t_height0 m Hm).
  - exact t_heap0.
  - exact t_count0.
  - exact t_obs0.
  - exact t_valid0.
  - exact Hsreg.
  - exact t_log0.
  - intros m. apply t_life0, Hnil.
Qed.

Lemma nec_inval l n : Forall is_nec l -> forall l', EvInval n ∈ l ++ l' <-> EvInval n ∈ l'.
Proof.
  intros Hl l'. rewrite elem_of_app. split; [|auto]. intros [H|H]; [|exact H].
  rewrite stdpp.list.Forall_forall in Hl. destruct (Hl _ H) as [m Hm]. discriminate.
Qed.

Lemma Rest_bn_frame s s' :
  bn_frame s s' -> invq s' = invq s ->
  (forall m, inGraph (nd s' m) = true -> valid (nd s' m) = true) ->
  Rest s -> Rest s'.
Proof.
  intros F Hq Hvr R.
  destruct R as [r_ids0 r_binds0 r_kinds0 r_scopes0 r_scoping0 r_vtop0 r_vdead0 r_vgen0 r_quiet0 r_shape0 r_stamps0 r_inval0].
  assert (Hk : forall n, nkind (nd s' n) = nkind (nd s n)) by (intros n; apply (bf_static _ _ F n)).
  assert (Hd : forall n, decl (nd s' n) = decl (nd s n)) by (intros n; apply (bf_static _ _ F n)).
  assert (Hsc : forall n, scope (nd s' n) = scope (nd s n)) by (intros n; apply (bf_static _ _ F n)).
  assert (Hv : forall n, valid (nd s' n) = valid (nd s n)) by (intros n; apply (bf_static _ _ F n)).
  assert (Hf : forall n, forceNec (nd s' n) = forceNec (nd s n)) by (intros n; apply (bf_static _ _ F n)).
  assert (Hhj : forall n, hAdj (nd s' n) = hAdj (nd s n)) by (intros n; apply (bf_static _ _ F n)).
  assert (Hbd : forall b, bd s' b = bd s b) by (intros b; unfold bd; rewrite (bf_binds _ _ F); reflexivity).
  constructor.
  - apply (ids_ok_ext s s'); auto; apply F.
  - apply (binds_wf_ext s s'); auto; apply F.
  - apply (kinds_ok_ext s s'); auto; apply F.
  - apply (scopes_ok_ext s s'); auto; apply F.
  - apply (scoping_ok_ext s s'); auto; apply F.
  - intros n. rewrite Hsc, Hv. auto.
  - intros n b. rewrite (bf_has _ _ F), Hsc, Hv. unfold inGen. rewrite Hbd. intros H1 H2 H3.
    destruct (r_vdead0 n b H1 H2 H3) as [H4 H5]. split; [exact H4|].
    destruct (inGraph (nd s' n)) eqn:E; [|reflexivity]. apply Hvr in E. rewrite Hv in E. congruence.
  - intros n b. unfold inGen. rewrite Hbd, !Hv. apply r_vgen0.
  - destruct r_quiet0 as [q_anum0 q_invq0 q_status0 q_setDuring0 q_setRemoved0 q_handlers0 q_force0 q_hadj0 q_by0]. split.
    + rewrite (bf_anum _ _ F). assumption.
    + rewrite Hq. assumption.
    + rewrite (bf_status _ _ F). assumption.
    + rewrite (bf_setDuring _ _ F). assumption.
    + rewrite (bf_setRemoved _ _ F). assumption.
    + rewrite (bf_handlers _ _ F). assumption.
    + intros n. rewrite Hf. auto.
    + intros n. rewrite Hhj. auto.
    + rewrite (bf_byHeight _ _ F). assumption.
  - destruct r_shape0 as [A B]. split; [rewrite (bf_maxHeight _ _ F); exact A|].
    rewrite (bf_byHeight _ _ F), (bf_maxHeight _ _ F). exact B.
  - destruct r_stamps0 as [S1 S2]. split; rewrite (bf_stabNum _ _ F); [exact S1|].
    intros n. destruct (bf_static _ _ F n) as (_&_&_&_&_&_&_& -> & -> & -> &_). apply S2.
  - intros n. rewrite Hv. destruct (bf_log _ _ F) as (l & -> & Hl). rewrite (nec_inval l n Hl). auto.
Qed.

(** [Rest] reads neither edges, heights, observers, the registry nor the heap *)
Lemma Rest_ext s s' :
  (next s <= next s')%nat -> binds s' = binds s -> (forall m, has s' m <-> has s m) ->
  adj s' = adj s -> invq s' = invq s -> status s' = status s -> setDuring s' = setDuring s ->
  setRemoved s' = setRemoved s -> handlers s' = handlers s -> maxHeight s' = maxHeight s ->
  stabNum s' = stabNum s -> log s' = log s ->
  (forall m, nkind (nd s' m) = nkind (nd s m) /\ decl (nd s' m) = decl (nd s m) /\
             scope (nd s' m) = scope (nd s m) /\ valid (nd s' m) = valid (nd s m) /\
             inGraph (nd s' m) = inGraph (nd s m) /\ forceNec (nd s' m) = forceNec (nd s m) /\
             hAdj (nd s' m) = hAdj (nd s m) /\ recomputedAt (nd s' m) = recomputedAt (nd s m) /\
             changedAt (nd s' m) = changedAt (nd s m) /\ setAt (nd s' m) = setAt (nd s m)) ->
  Rest s -> Rest s'.
Proof.
  intros Hnext Hb Hhas Hadj Hq Hst Hsd Hsr Hh Hmh Hsn Hlog Hnode R.
  destruct R as [r_ids0 r_binds0 r_kinds0 r_scopes0 r_scoping0 r_vtop0 r_vdead0 r_vgen0 r_quiet0 r_shape0 r_stamps0 r_inval0].
  assert (Hk : forall n, nkind (nd s' n) = nkind (nd s n)) by (intros n; apply Hnode).
  assert (Hd : forall n, decl (nd s' n) = decl (nd s n)) by (intros n; apply Hnode).
  assert (Hsc : forall n, scope (nd s' n) = scope (nd s n)) by (intros n; apply Hnode).
  assert (Hv : forall n, valid (nd s' n) = valid (nd s n)) by (intros n; apply Hnode).
  assert (Hg : forall n, inGraph (nd s' n) = inGraph (nd s n)) by (intros n; apply Hnode).
  assert (Hf : forall n, forceNec (nd s' n) = forceNec (nd s n)) by (intros n; apply Hnode).
  assert (Hhj : forall n, hAdj (nd s' n) = hAdj (nd s n)) by (intros n; apply Hnode).
  assert (Hbd : forall b, bd s' b = bd s b) by (intros b; unfold bd; rewrite Hb; reflexivity).
  constructor.
  - destruct r_ids0 as [I1 I2]. split.
    + intros n Hn. apply Hhas, I1 in Hn. lia.
    + intros n p. rewrite Hd, Hhas. apply I2.
  - apply (binds_wf_ext s s'); auto.
  - apply (kinds_ok_ext s s'); auto.
  - apply (scopes_ok_ext s s'); auto.
  - apply (scoping_ok_ext s s'); auto.
  - intros n. rewrite Hsc, Hv. auto.
  - intros n b. rewrite Hhas, Hsc, Hv, Hg. unfold inGen. rewrite Hbd. apply r_vdead0.
  - intros n b. unfold inGen. rewrite Hbd, !Hv. apply r_vgen0.
  - apply (quiet_ext s s'); auto.
  - apply (shape_ok_ext s s'); auto.
  - apply (stamps_ok_ext s s'); auto; intros n; apply Hnode.
  - intros n. rewrite Hv, Hlog. auto.
Qed.

Lemma opFuel_pos s : exists k, opFuel s = S k.
Proof. unfold opFuel. exists ((next s + 4) * (Z.to_nat (maxHeight s) + 4) - 1)%nat. nia. Qed.

Lemma propagateInvalidity_nil fuel s : invq s = [] -> propagateInvalidity (S fuel) s = Ok s.
Proof. intros H. simpl. rewrite H. reflexivity. Qed.

(** ** Observe *)
Definition is_observe (o : op) : bool := match o with Observe _ => true | _ => false end.

Lemma observe_setup s n :
  Inv s -> has s n -> scope (nd s n) = None -> binds s !! n = None ->
  let o := next s in
  let s1 := s <| next := S o |> <| obs := <[o := n]> (obs s) |> <| numNodes := numNodes s + 1 |> in
  let s2 := upd s1 n (set observers (fun l => l ++ [o])) in
  (forall m, nd s2 m = if decide (m = n) then set observers (fun l => l ++ [o]) (nd s n) else nd s m) /\
  (forall m, has s2 m <-> has s m) /\ Rest s2 /\ Sta s2 /\ BInv [n] s2 /\ isNecessary (nd s2 n) = true.
Proof.
  intros HI Hn Hscn Hbn o s1 s2.
  pose proof (Inv_TInv s HI) as T. pose proof (Inv_Rest s HI) as R. pose proof (Inv_sreg s HI) as Hsreg.
  assert (Hnd : forall m, nd s2 m = if decide (m = n) then set observers (fun l => l ++ [o]) (nd s n) else nd s m).
  { intros m. unfold s2. rewrite nd_upd by exact Hn. reflexivity. }
  assert (Hfield : forall {A} (g : node -> A), (forall x f, g (set observers f x) = g x) ->
                   forall m, g (nd s2 m) = g (nd s m)).
  { intros A g Hg' m. rewrite Hnd. destruct (decide (m = n)) as [->|]; [apply Hg'|reflexivity]. }
  assert (Hobs : forall m, observers (nd s2 m) = if decide (m = n) then observers (nd s n) ++ [o] else observers (nd s m)).
  { intros m. rewrite Hnd. destruct (decide (m = n)); reflexivity. }
  assert (Hhas : forall m, has s2 m <-> has s m) by (intros m; apply (has_upd s1 n)).
  assert (Ho_fresh : obs s !! o = None).
  { destruct (obs s !! o) as [x|] eqn:E; [|reflexivity].
    destruct (ob_ids s (inv_obs s HI) o x E) as (Hlt & _). unfold o in Hlt. lia. }
  assert (Ho_nohas : ~ has s o).
  { intros H. apply (io_lt s (inv_ids s HI)) in H. unfold o in H. lia. }
  assert (R2 : Rest s2).
  { apply (Rest_ext s s2); auto; try reflexivity.
    - cbn. unfold o. lia.
    - intros m. repeat split; apply Hfield; reflexivity. }
  assert (St2 : Sta s2).
  { destruct R2. split; auto. apply valid_closed; auto. }
  assert (B2 : BInv [n] s2).
  { destruct T as [t_edges0 t_zero0 t_nec0 t_necE0 t_W0 t_par0 t_height0 t_heap0 t_count0 t_obs0 t_valid0 t_log0 t_life0 t_lifeW0 t_nodup0].
    assert (Hnil : forall m : nid, m ∉ []) by (intros m Hm; inversion Hm).
    assert (Hne : forall m, m ∉ [n] -> m <> n) by (intros m Hm ->; apply Hm; left).
    constructor.
    - apply (edges_ok_ext s s2); auto; apply Hfield; reflexivity.
    - intros m. rewrite (Hfield _ inGraph), (Hfield _ parents), (Hfield _ height) by reflexivity.
      intros Hm. destruct (t_zero0 m Hm) as (? & ? & ? & ?). auto.
    - intros m Hm. rewrite Hnd, decide_False by (apply Hne, Hm).
      intros Hg. destruct (t_zero0 m Hg) as (? & ? & ? & ?). auto.
    - intros m Hm. rewrite Hnd, decide_False by (apply Hne, Hm). apply t_nec0; [apply Hnil|intros []].
    - intros m Hm. rewrite Hnd, decide_False by (apply Hne, Hm). apply t_par0, Hnil.
    - intros m Hm. rewrite (Hfield _ inGraph) by reflexivity. intros Hg.
      apply (good_h_ext s s2); auto; try (apply Hfield; reflexivity). apply (t_height0 m Hg).
    - apply (heap_ok_ext s s2); auto; apply Hfield; reflexivity.
    - destruct t_count0 as [C1 C2 C3]. split; [exact C1| |].
      + intros m. rewrite (Hfield _ inGraph) by reflexivity. apply C2.
      + cbn. rewrite C3, map_size_insert, Ho_fresh. lia.
    - destruct t_obs0 as [O1 O2 O3 O4]. split;
        [| | |intros o' m; cbn; rewrite lookup_insert_Some; intros [[<- <-]|[Hne' Ho']]; [exact Hbn|apply (O4 o' m Ho')]].
      + intros m o'. rewrite Hobs. cbn. rewrite lookup_insert_Some.
        destruct (decide (m = n)) as [->|Hne'].
        * rewrite elem_of_app, elem_of_list_singleton, O1. split.
          -- intros [Ho'| ->]; [right; split; [|exact Ho']|left; auto]. intros <-. congruence.
          -- intros [[<- _]|[_ Ho']]; auto.
        * rewrite O1. split; [|intros [[_ ?]|[_ ?]]; [congruence|assumption]].
          intros Ho'. right. split; [|exact Ho']. intros <-. congruence.
      + intros m. rewrite Hobs. destruct (decide (m = n)) as [->|]; [|apply O2].
        apply NoDup_app. split; [apply O2|]. split; [|apply NoDup_singleton].
        intros x Hx ->%elem_of_list_singleton. apply O1 in Hx. congruence.
      + intros o' m. cbn. rewrite lookup_insert_Some. intros [[<- <-]|[Hne' Ho']].
        * split; [lia|]. split; [rewrite Hhas; exact Ho_nohas|]. rewrite (Hfield _ scope) by reflexivity. exact Hscn.
        * destruct (O3 o' m Ho') as (A & B & C). split; [unfold o; lia|].
          split; [rewrite Hhas; exact B|]. rewrite (Hfield _ scope) by reflexivity. exact C.
    - intros m. rewrite (Hfield _ inGraph), (Hfield _ valid) by reflexivity. apply t_valid0.
    - intros m b. rewrite !(Hfield _ inGraph), (Hfield _ scope) by reflexivity. apply Hsreg.
    - exact t_log0.
    - intros m. rewrite (Hfield _ inGraph) by reflexivity. apply t_life0, Hnil. }
  assert (Hnec2 : isNecessary (nd s2 n) = true).
  { apply isNecessary_true. right; right. rewrite Hobs, decide_True by reflexivity.
    intros E. apply app_eq_nil in E as [_ E]. discriminate. }
  split; [exact Hnd|]. split; [exact Hhas|]. split; [exact R2|]. split; [exact St2|]. split; [exact B2|exact Hnec2].
Qed.

Theorem Inv_step_observe s o s' e :
  Inv s -> op_ok s o = true -> op_clean s o = true -> is_observe o = true ->
  step s o = Ok (s', e) -> e <> Some EHeightLimit -> Inv s'.
Proof.
  intros HI Hok Hcl Hgo Hstep Herr. destruct o as [| | | | | | | | | | |n| | | | | | | |]; try discriminate.
  simpl in Hstep, Hok, Hcl. apply isTop_true in Hcl as [Hn Hscn].
  assert (Hbn : binds s !! n = None).
  { destruct (binds s !! n) as [r|] eqn:Er; [|reflexivity]. exfalso.
    apply isUserNode_true in Hok as [_ Hnl]. rewrite (bw_kind_lhs s n r (inv_binds s HI n r Er)) in Hnl. exact Hnl. }
  unfold observe in Hstep.
  set (o := next s) in *.
  set (s1 := s <| next := S o |> <| obs := <[o := n]> (obs s) |> <| numNodes := numNodes s + 1 |>) in *.
  set (s2 := upd s1 n (set observers (fun l => l ++ [o]))) in *.
  destruct (observe_setup s n HI Hn Hscn Hbn) as (Hnd & Hhas & R2 & St2 & B2 & Hnec2). fold o s1 s2 in Hnd, Hhas, R2, St2, B2, Hnec2.
  assert (Hfield : forall {A} (g : node -> A), (forall x f, g (set observers f x) = g x) ->
                   forall m, g (nd s2 m) = g (nd s m)).
  { intros A g Hg' m. rewrite Hnd. destruct (decide (m = n)) as [->|]; [apply Hg'|reflexivity]. }
  assert (Hfin : forall s3, BInv [] s3 -> Rest s3 -> Inv s3).
  { intros s3 B3 R3. apply TInv_Rest_Inv; [apply BInv_TInv, B3|exact R3]. }
  change (isNecessary (nd s1 n)) with (isNecessary (nd s n)) in Hstep.
  destruct (isNecessary (nd s n)) eqn:Enec.
  - apply ok_inv in Hstep as [-> _]. apply Hfin; [|exact R2].
    assert (Hgn : inGraph (nd s n) = true) by (rewrite (inv_nec s HI n); exact Enec).
    apply (BInv_close [] s2 n B2).
    + rewrite (Hfield _ inGraph), Hgn by reflexivity. discriminate.
    + rewrite (Hfield _ inGraph), Hgn, Hnec2 by reflexivity. reflexivity.
    + intros _. split.
      * rewrite (Hfield _ parents), (Hfield _ decl) by reflexivity. apply (inv_par s HI n Hgn).
      * apply (good_h_ext s s2); auto; try (apply Hfield; reflexivity). apply (inv_height s HI n Hgn).
  - assert (Hgn : inGraph (nd s n) = false) by (rewrite (inv_nec s HI n); exact Enec).
    apply ebind_inv in Hstep as (s3 & e3 & H3 & Hrest).
    pose proof (BN_spec_all (opFuel s2) s2 n [] s3 e3 St2 B2 ltac:(apply Hhas, Hn)) as Post.
    destruct (BN_frame (opFuel s2) s2 n s3 e3 H3) as [F3 _].
    assert (Post' : match e3 with None => bn_post [] s2 n s3 | Some x => x = EHeightLimit end).
    { apply Post; auto.
      - rewrite (Hfield _ inGraph) by reflexivity. exact Hgn.
      - rewrite (Hfield _ valid) by reflexivity. apply (vo_top s (inv_valid s HI)), Hscn.
      - intros c. rewrite (Hfield _ children) by reflexivity.
        destruct (inv_zero s HI n Hgn) as (_ & -> & _). intros Hc; inversion Hc.
      - intros b. rewrite (Hfield _ scope), Hscn by reflexivity. discriminate.
      - intros x Hx. inversion Hx. }
    destruct e3 as [x|].
    { destruct Hrest as [[? _]|(_ & _ & ->)]; [discriminate|]. subst x. congruence. }
    destruct Hrest as [[_ H]|(Hne & _)]; [|congruence].
    destruct Post' as [P1 P2 P3 P4 P5 P6].
    assert (Hq3 : invq s3 = []) by (rewrite P2; apply (q_invq s (inv_quiet s HI))).
    destruct (opFuel_pos s3) as [k Ek]. rewrite Ek in H. apply lift_inv in H as [H _].
    rewrite (propagateInvalidity_nil k s3 Hq3) in H. injection H as <-.
    apply Hfin; [exact P1|]. apply (Rest_bn_frame s2 s3 F3 P2); [|exact R2]. apply (b_valid _ _ P1).
Qed.

Theorem nc_step_observe s o : Inv s -> op_ok s o = true -> op_clean s o = true -> is_observe o = true -> nocrash (step s o).
Proof.
  intros HI Hok Hcl Hgo. destruct o as [| | | | | | | | | | |n| | | | | | | |]; try discriminate.
  simpl in Hok, Hcl |- *. apply isTop_true in Hcl as [Hn Hscn].
  assert (Hbn : binds s !! n = None).
  { destruct (binds s !! n) as [r|] eqn:Er; [|reflexivity]. exfalso.
    apply isUserNode_true in Hok as [_ Hnl]. rewrite (bw_kind_lhs s n r (inv_binds s HI n r Er)) in Hnl. exact Hnl. }
  unfold observe.
  destruct (observe_setup s n HI Hn Hscn Hbn) as (Hnd & Hhas & R2 & St2 & B2 & Hnec2).
  set (o := next s) in *.
  set (s1 := s <| next := S o |> <| obs := <[o := n]> (obs s) |> <| numNodes := numNodes s + 1 |>) in *.
  set (s2 := upd s1 n (set observers (fun l => l ++ [o]))) in *.
  assert (Hfield : forall {A} (g : node -> A), (forall x f, g (set observers f x) = g x) ->
                   forall m, g (nd s2 m) = g (nd s m)).
  { intros A g Hg' m. rewrite Hnd. destruct (decide (m = n)) as [->|]; [apply Hg'|reflexivity]. }
  change (isNecessary (nd s1 n)) with (isNecessary (nd s n)).
  destruct (isNecessary (nd s n)) eqn:Enec; [apply nc_Ok|].
  assert (Hgn : inGraph (nd s n) = false) by (rewrite (inv_nec s HI n); exact Enec).
  assert (Pre : forall (P : Prop),
            (has s2 n -> inGraph (nd s2 n) = false -> valid (nd s2 n) = true ->
             (forall c, c ∈ children (nd s2 n) -> c ∈ []) ->
             (forall b, scope (nd s2 n) = Some b -> inGraph (nd s2 b) = true) ->
             (forall x, x ∈ [] -> exists m, dreach s2 x m /\ n ∈ decl (nd s2 m)) -> P) -> P).
  { intros P HP. apply HP.
    - apply Hhas, Hn.
    - rewrite (Hfield _ inGraph) by reflexivity. exact Hgn.
    - rewrite (Hfield _ valid) by reflexivity. apply (vo_top s (inv_valid s HI)), Hscn.
    - intros c. rewrite (Hfield _ children) by reflexivity.
      destruct (inv_zero s HI n Hgn) as (_ & -> & _). intros Hc; inversion Hc.
    - intros b. rewrite (Hfield _ scope), Hscn by reflexivity. discriminate.
    - intros x Hx. inversion Hx. }
  apply Pre. intros P1 P2 P3 P4 P5 P6.
  apply nc_ebind; [apply (nc_BN (opFuel s2) s2 n [] St2 B2 P1 P2 Hnec2 P3 P4 P5 P6)|].
  intros s3 H3. apply nc_lift.
  pose proof (BN_spec_all (opFuel s2) s2 n [] s3 None St2 B2 P1 P2 Hnec2 P3 P4 P5 P6 H3) as [Q1 Q2 _ _ _ _].
  assert (Hq3 : invq s3 = []) by (rewrite Q2; apply (q_invq s (inv_quiet s HI))).
  destruct (opFuel_pos s3) as [k Ek]. rewrite Ek. rewrite (propagateInvalidity_nil k s3 Hq3). apply nc_Ok.
Qed.

(** * adjustHeights *)
Record adj_ok (s : state) : Prop := {
  ao_nodup : NoDup (adj_ids s);
  ao_num : a_num (adj s) = Z.of_nat (length (adj_ids s));
  ao_mem : forall n, n ∈ adj_ids s <-> hAdj (nd s n) <> unset
}.

(** what adjusting heights never touches *)
Record aj_frame (s s' : state) : Prop := {
  af_next : next s' = next s;
  af_binds : binds s' = binds s;
  af_reg : reg s' = reg s;
  af_obs : obs s' = obs s;
  af_invq : invq s' = invq s;
  af_stabNum : stabNum s' = stabNum s;
  af_status : status s' = status s;
  af_numNodes : numNodes s' = numNodes s;
  af_setDuring : setDuring s' = setDuring s;
  af_setRemoved : setRemoved s' = setRemoved s;
  af_handlers : handlers s' = handlers s;
  af_maxHeight : maxHeight s' = maxHeight s;
  af_log : log s' = log s;
  af_len : length (a_byHeight (adj s')) = length (a_byHeight (adj s));
  af_has : forall m, has s' m <-> has s m;
  af_node : forall m,
    nkind (nd s' m) = nkind (nd s m) /\ decl (nd s' m) = decl (nd s m) /\ scope (nd s' m) = scope (nd s m) /\
    parents (nd s' m) = parents (nd s m) /\ children (nd s' m) = children (nd s m) /\
    observers (nd s' m) = observers (nd s m) /\ valid (nd s' m) = valid (nd s m) /\
    forceNec (nd s' m) = forceNec (nd s m) /\ inGraph (nd s' m) = inGraph (nd s m) /\
    recomputedAt (nd s' m) = recomputedAt (nd s m) /\ changedAt (nd s' m) = changedAt (nd s m) /\
    setAt (nd s' m) = setAt (nd s m) /\ value (nd s' m) = value (nd s m) /\ pending (nd s' m) = pending (nd s m)
}.

Lemma aj_frame_refl s : aj_frame s s.
Proof. split; try reflexivity. intros m. repeat split. Qed.

Lemma aj_frame_trans s1 s2 s3 : aj_frame s1 s2 -> aj_frame s2 s3 -> aj_frame s1 s3.
Proof.
  intros A B. split.
  - rewrite (af_next _ _ B). apply A. - rewrite (af_binds _ _ B). apply A.
  - rewrite (af_reg _ _ B). apply A. - rewrite (af_obs _ _ B). apply A.
  - rewrite (af_invq _ _ B). apply A. - rewrite (af_stabNum _ _ B). apply A.
  - rewrite (af_status _ _ B). apply A. - rewrite (af_numNodes _ _ B). apply A.
  - rewrite (af_setDuring _ _ B). apply A. - rewrite (af_setRemoved _ _ B). apply A.
  - rewrite (af_handlers _ _ B). apply A. - rewrite (af_maxHeight _ _ B). apply A.
  - rewrite (af_log _ _ B). apply A. - rewrite (af_len _ _ B). apply A.
  - intros m. rewrite (af_has _ _ B). apply A.
  - intros m. destruct (af_node _ _ A m) as (?&?&?&?&?&?&?&?&?&?&?&?&?&?),
                       (af_node _ _ B m) as (?&?&?&?&?&?&?&?&?&?&?&?&?&?).
    repeat split; congruence.
Qed.

Lemma aj_frame_only_heap s s' : only_heap s s' -> aj_frame s s'.
Proof.
  intros F. split.
  - apply (oh_next _ _ F). - apply (oh_binds _ _ F). - apply (oh_reg _ _ F). - apply (oh_obs _ _ F).
  - apply (oh_invq _ _ F). - apply (oh_stabNum _ _ F). - apply (oh_status _ _ F). - apply (oh_numNodes _ _ F).
  - apply (oh_setDuring _ _ F). - apply (oh_setRemoved _ _ F). - apply (oh_handlers _ _ F).
  - apply (oh_maxHeight _ _ F). - apply (oh_log _ _ F). - rewrite (oh_adj _ _ F). reflexivity.
  - apply (oh_has _ _ F).
  - intros m. rewrite (oh_nd _ _ F). repeat split.
Qed.

Lemma aj_frame_setHeight s n h s' : setHeight s n h = Ok (s', None) -> aj_frame s s'.
Proof.
  intros H. split.
  - apply (next_setHeight _ _ _ _ H). - apply (binds_setHeight _ _ _ _ H). - apply (reg_setHeight _ _ _ _ H).
  - apply (obs_setHeight _ _ _ _ H). - apply (invq_setHeight _ _ _ _ H). - apply (stabNum_setHeight _ _ _ _ H).
  - apply (status_setHeight _ _ _ _ H). - apply (numNodes_setHeight _ _ _ _ H).
  - apply (setDuring_setHeight _ _ _ _ H). - apply (setRemoved_setHeight _ _ _ _ H).
  - apply (handlers_setHeight _ _ _ _ H). - apply (maxHeight_setHeight _ _ _ _ H).
  - apply (log_setHeight _ _ _ _ H). - rewrite (a_byHeight_setHeight _ _ _ _ H). reflexivity.
  - apply (has_setHeight _ _ _ _ H).
  - intros m. repeat split; apply (proj_nd_setHeight _ _ _ _ H); reflexivity.
Qed.

(* an update of hAdj together with a new adjust-heights heap *)
Lemma aj_frame_hadj s n f a :
  length (a_byHeight a) = length (a_byHeight (adj s)) ->
  aj_frame s ((upd s n (set hAdj f)) <| adj := a |>).
Proof.
  intros Hl. split; try reflexivity; try exact Hl.
  - intros m. apply (has_upd s n).
  - intros m. change (nd (upd s n (set hAdj f) <| adj := a |>) m) with (nd (upd s n (set hAdj f)) m).
    repeat split; apply nd_upd_proj; reflexivity.
Qed.

Lemma adj_ids_nil s : Forall (fun q => q = []) (a_byHeight (adj s)) -> adj_ids s = [].
Proof.
  unfold adj_ids. induction (a_byHeight (adj s)) as [|b l IH]; intros H; [reflexivity|].
  apply stdpp.list.Forall_cons in H as [-> H]. simpl. apply IH, H.
Qed.

Lemma adj_ids_nil_inv s : adj_ids s = [] -> Forall (fun q => q = []) (a_byHeight (adj s)).
Proof.
  unfold adj_ids. induction (a_byHeight (adj s)) as [|b l IH]; intros H; [constructor|].
  simpl in H. apply app_eq_nil in H as [-> H]. constructor; [reflexivity|apply IH, H].
Qed.

Lemma quiet_adj_ok s : quiet s -> adj_ok s.
Proof.
  intros Q. pose proof (adj_ids_nil s (q_by s Q)) as E. split; rewrite ?E.
  - constructor.
  - rewrite (q_anum s Q). reflexivity.
  - intros n. rewrite (q_hadj s Q n). split; [intros H; inversion H|congruence].
Qed.

Lemma adj_ok_adjAdd s n s' :
  adj_ok s -> has s n -> adjAdd s n = Ok s' ->
  adj_ok s' /\ aj_frame s s' /\ heap s' = heap s /\
  (forall m, height (nd s' m) = height (nd s m)) /\
  (forall m, hAdj (nd s' m) <> unset <-> m = n \/ hAdj (nd s m) <> unset).
Proof.
  intros [A1 A2 A3] Hn H. apply adjAdd_inv in H as [[E ->]|(E & Hh & q & Hq & ->)].
  { split; [split; assumption|]. split; [apply aj_frame_refl|]. split; [reflexivity|]. split; [reflexivity|].
    intros m. split; [auto|]. intros [->|?]; assumption. }
  set (h := height (nd s n)) in *.
  set (s' := (upd s n (set hAdj (fun _ => h))) <| adj := _ |>).
  assert (Hnd : forall m, nd s' m = if decide (m = n) then set hAdj (fun _ => h) (nd s n) else nd s m).
  { intros m. unfold s'. change (nd (upd s n (set hAdj (fun _ => h)) <| adj := _ |>) m) with (nd (upd s n (set hAdj (fun _ => h))) m).
    apply nd_upd, Hn. }
  assert (Hhj : forall m, hAdj (nd s' m) = if decide (m = n) then h else hAdj (nd s m)).
  { intros m. rewrite Hnd. destruct (decide (m = n)); reflexivity. }
  destruct (concat_insert_perm _ _ _ (q ++ [n]) Hq) as (l1 & l2 & E1 & E2).
  assert (Hids : adj_ids s' ≡ₚ n :: adj_ids s).
  { unfold adj_ids, s'. cbn [adj set a_byHeight]. cbn. rewrite E2, E1.
    rewrite <- !app_assoc. cbn. rewrite !app_assoc. symmetry. apply Permutation_middle. }
  assert (Hnin : n ∉ adj_ids s) by (rewrite A3; intros Hx; apply Hx, E).
  split; [|split; [|split; [reflexivity|split]]].
  - split.
    + rewrite Hids. apply NoDup_cons_2; assumption.
    + rewrite Hids. unfold s'. cbn. rewrite A2. lia.
    + intros m. rewrite Hids, elem_of_cons, Hhj, A3. destruct (decide (m = n)) as [->|Hne].
      * split; [intros _; unfold unset; lia|auto].
      * split; [intros [?|?]; [contradiction|assumption]|auto].
  - apply aj_frame_hadj. cbn. apply insert_length.
  - intros m. rewrite Hnd. destruct (decide (m = n)) as [->|]; reflexivity.
  - intros m. rewrite Hhj. destruct (decide (m = n)) as [->|Hne].
    + split; [auto|]. intros _. unfold unset. lia.
    + split; [auto|]. intros [?|?]; [contradiction|assumption].
Qed.

Lemma adj_ok_pop s n s' :
  adj_ok s -> adjRemoveMin s = Ok (Some n, s') ->
  adj_ok s' /\ aj_frame s s' /\ heap s' = heap s /\ hAdj (nd s n) <> unset /\
  (forall m, height (nd s' m) = height (nd s m)) /\
  (forall m, hAdj (nd s' m) = if decide (m = n) then unset else hAdj (nd s m)).
Proof.
  intros [A1 A2 A3] H. apply adjRemoveMin_inv in H as [[? _]|(n' & x & b' & [= <-] & Hx & ->)]; [discriminate|].
  destruct (concat_insert_perm _ _ _ b' Hx) as (l1 & l2 & E1 & E2).
  assert (Hin : n ∈ adj_ids s).
  { unfold adj_ids. rewrite E1. apply elem_of_app. right. left. }
  assert (Hhn : hAdj (nd s n) <> unset) by (apply A3, Hin).
  assert (Hn : has s n) by (apply (has_of_field hAdj); exact Hhn).
  set (s' := (upd s n (set hAdj (fun _ => unset))) <| adj := _ |>).
  assert (Hnd : forall m, nd s' m = if decide (m = n) then set hAdj (fun _ => unset) (nd s n) else nd s m).
  { intros m. unfold s'. change (nd (upd s n (set hAdj (fun _ => unset)) <| adj := _ |>) m) with (nd (upd s n (set hAdj (fun _ => unset))) m).
    apply nd_upd, Hn. }
  assert (Hhj : forall m, hAdj (nd s' m) = if decide (m = n) then unset else hAdj (nd s m)).
  { intros m. rewrite Hnd. destruct (decide (m = n)); reflexivity. }
  assert (Hids : adj_ids s ≡ₚ n :: adj_ids s').
  { unfold adj_ids, s'. cbn. rewrite E2, E1. symmetry. apply Permutation_middle. }
  pose proof A1 as A1'. rewrite Hids in A1'. apply stdpp.list.NoDup_cons in A1' as [Hnin A1'].
  split; [|split; [|split; [reflexivity|split; [exact Hhn|split; [|exact Hhj]]]]].
  - split.
    + exact A1'.
    + unfold s' at 1. cbn. rewrite A2, Hids. cbn. lia.
    + intros m. rewrite Hhj. destruct (decide (m = n)) as [->|Hne].
      * split; [contradiction|congruence].
      * rewrite <- A3, Hids, elem_of_cons. split; [auto|]. intros [?|?]; [contradiction|assumption].
  - apply aj_frame_hadj. cbn. apply insert_length.
  - intros m. rewrite Hnd. destruct (decide (m = n)) as [->|]; reflexivity.
Qed.

Lemma adj_ok_frame s s' :
  adj_ids s' = adj_ids s -> a_num (adj s') = a_num (adj s) -> (forall m, hAdj (nd s' m) = hAdj (nd s m)) ->
  adj_ok s -> adj_ok s'.
Proof. intros E1 E2 E3 [A1 A2 A3]. split; rewrite ?E1, ?E2; auto. intros n. rewrite E3. apply A3. Qed.

Section adjust.
  (* [Pop]: the nodes that may enter the adjust-heights heap (a downward-closed set: see [as_pop]) *)
  Context (Pop : nid -> Prop).

(** the height invariant while heights are being adjusted: an edge may be violated only if its
    lower endpoint waits in the adjust-heights heap, or the edge is explicitly exempt *)
Record HInv (exP exS : nid -> nid -> Prop) (s : state) : Prop := {
  h_range : forall m, inGraph (nd s m) = true -> 0 <= height (nd s m) < maxHeight s;
  h_par : forall m p, inGraph (nd s m) = true -> p ∈ parents (nd s m) -> hAdj (nd s p) = unset ->
                      ~ exP m p -> height (nd s p) < height (nd s m);
  h_scope : forall m b, inGraph (nd s m) = true -> scope (nd s m) = Some b -> hAdj (nd s b) = unset ->
                        ~ exS m b -> height (nd s b) < height (nd s m);
  h_zero : forall m, inGraph (nd s m) = false -> height (nd s m) = unset;
  h_heap : hinv (heap s) /\ forall n, n ∈ Heap.ids (heap s) ->
             inGraph (nd s n) = true /\ (hAdj (nd s n) = unset -> Heap.hinOf (heap s) n = height (nd s n));
  h_adj : adj_ok s;
  h_pop : forall x, hAdj (nd s x) <> unset -> Pop x
}.

Definition noEx : nid -> nid -> Prop := fun _ _ => False.

Lemma HInv_weaken (exP exS exP' exS' : nid -> nid -> Prop) s :
  (forall m q, inGraph (nd s m) = true -> q ∈ parents (nd s m) -> exP m q -> exP' m q) ->
  (forall m q, inGraph (nd s m) = true -> scope (nd s m) = Some q -> exS m q -> exS' m q) ->
  HInv exP exS s -> HInv exP' exS' s.
Proof.
  intros H1 H2 [A B C D E F G]. constructor; auto.
Qed.

(** structural facts adjusting relies on (none of them reads a height) *)
Record AStat (s : state) : Prop := {
  as_edges : edges_ok s;
  as_nec : forall m, inGraph (nd s m) = isNecessary (nd s m);
  as_child : forall c p, c ∈ children (nd s p) -> inGraph (nd s c) = true /\ c <> p;
  as_scope : forall m b, inGraph (nd s m) = true -> scope (nd s m) = Some b -> Pop b ->
                         m ∈ b_rhsNodes (bd s b) /\ nkind (nd s b) = KBindLhs b /\ m <> b;
  as_kind : forall p b, has s p -> nkind (nd s p) = KBindLhs b -> b = p;
  as_rhs : forall b r, r ∈ b_rhsNodes (bd s b) -> r <> b /\ scope (nd s r) = Some b;
  as_pop : forall c p, Pop p -> inGraph (nd s c) = true ->
                       c ∈ children (nd s p) \/ scope (nd s c) = Some p -> Pop c
}.

Lemma AStat_frame s s' : aj_frame s s' -> AStat s -> AStat s'.
Proof.
  intros F [A B C D E G H].
  assert (Hp : forall m, parents (nd s' m) = parents (nd s m)) by (intros m; apply (af_node _ _ F m)).
  assert (Hc : forall m, children (nd s' m) = children (nd s m)) by (intros m; apply (af_node _ _ F m)).
  assert (Hg : forall m, inGraph (nd s' m) = inGraph (nd s m)) by (intros m; apply (af_node _ _ F m)).
  assert (Hk : forall m, nkind (nd s' m) = nkind (nd s m)) by (intros m; apply (af_node _ _ F m)).
  assert (Hsc : forall m, scope (nd s' m) = scope (nd s m)) by (intros m; apply (af_node _ _ F m)).
  assert (Hbd : forall b, bd s' b = bd s b) by (intros b; unfold bd; rewrite (af_binds _ _ F); reflexivity).
  split.
  - apply (edges_ok_ext s s'); auto.
  - intros m. rewrite Hg, (isNecessary_ext (nd s' m) (nd s m)); auto; apply (af_node _ _ F m).
  - intros c p. rewrite Hc, Hg. apply C.
  - intros m b. rewrite Hg, Hsc, Hbd, Hk. apply D.
  - intros p b. rewrite (af_has _ _ F), Hk. apply E.
  - intros b r. rewrite Hbd, Hsc. apply G.
  - intros c p. rewrite Hg, Hc, Hsc. apply H.
Qed.

Lemma ensure_spec (exP exS : nid -> nid -> Prop) s oP c p s' e :
  HInv exP exS s -> inGraph (nd s c) = true -> c <> p -> Pop c ->
  ensureHeightRequirement s oP c p = Ok (s', e) ->
  match e with
  | None => HInv (fun m q => exP m q /\ ~ (m = c /\ q = p)) (fun m q => exS m q /\ ~ (m = c /\ q = p)) s' /\
            aj_frame s s' /\ (forall m, m <> c -> nd s' m = nd s m) /\ height (nd s p) < height (nd s' c)
  | Some x => x = ECycle \/ x = EHeightLimit
  end.
Proof.
  intros HI Hgc Hcp Hpc H. unfold ensureHeightRequirement in H.
  destruct (bool_decide (oP = c)); [apply fail_inv in H as [_ ->]; auto|].
  destruct (Z.geb_spec (height (nd s p)) (height (nd s c))) as [Hge|Hlt].
  2:{ apply ok_inv in H as [-> ->]. split; [|split; [apply aj_frame_refl|split; [auto|lia]]].
      destruct HI as [A B C D E F G]. constructor; auto.
      - intros m q Hm Hq Hj Hex. destruct (decide (m = c /\ q = p)) as [[-> ->]|Hne]; [exact Hlt|].
        apply B; auto; intros Hx; apply Hex; auto.
      - intros m q Hm Hq Hj Hex. destruct (decide (m = c /\ q = p)) as [[-> ->]|Hne]; [exact Hlt|].
        apply C; auto; intros Hx; apply Hex; auto. }
  apply ebind_inv in H as (s1 & e1 & H1 & Hrest). apply lift_inv in H1 as [H1 ->].
  destruct Hrest as [[_ H2]|(Hne & _)]; [|congruence].
  assert (Hc : has s c) by (apply has_inGraph, Hgc).
  destruct (adj_ok_adjAdd s c s1 (h_adj _ _ _ HI) Hc H1) as (A1 & F1 & Hw1 & Hh1 & Hj1).
  rewrite !Hh1 in H2.
  destruct e as [x|]; [apply setHeight_err in H2 as [-> _]; auto|].
  assert (Hc1 : has s1 c) by (apply (af_has _ _ F1), Hc).
  pose proof (aj_frame_setHeight _ _ _ _ H2) as F2.
  assert (Hnd2 : forall m, m <> c -> nd s' m = nd s1 m) by (intros m Hm; apply (nd_setHeight_ne _ _ _ _ m H2 Hm)).
  assert (Hh2 : forall m, height (nd s' m) = if decide (m = c) then height (nd s p) + 1 else height (nd s m)).
  { intros m. rewrite (height_nd_setHeight _ _ _ _ H2 m Hc1), Hh1. reflexivity. }
  assert (Hj2 : forall m, hAdj (nd s' m) = hAdj (nd s1 m)).
  { intros m. apply (proj_nd_setHeight _ _ _ _ H2 hAdj). reflexivity. }
  assert (F : aj_frame s s') by (eapply aj_frame_trans; eauto).
  assert (Hg : forall m, inGraph (nd s' m) = inGraph (nd s m)) by (intros m; apply (af_node _ _ F m)).
  assert (Hp : forall m, parents (nd s' m) = parents (nd s m)) by (intros m; apply (af_node _ _ F m)).
  assert (Hsc : forall m, scope (nd s' m) = scope (nd s m)) by (intros m; apply (af_node _ _ F m)).
  assert (Hjc : hAdj (nd s' c) <> unset) by (rewrite Hj2; apply Hj1; auto).
  assert (Hjne : forall m, m <> c -> hAdj (nd s' m) = unset -> hAdj (nd s m) = unset).
  { intros m Hm Hu. rewrite Hj2 in Hu. destruct (decide (hAdj (nd s m) = unset)) as [|Hn]; [assumption|].
    exfalso. assert (hAdj (nd s1 m) <> unset) by (apply Hj1; auto). contradiction. }
  split; [|split; [exact F|split]].
  - destruct HI as [A B C D [E1 E2] G GP]. constructor.
    + intros m. rewrite Hg, Hh2, (af_maxHeight _ _ F). intros Hm. destruct (decide (m = c)) as [->|]; [|apply A, Hm].
      pose proof (setHeight_le _ _ _ _ H2) as Hle. rewrite (af_maxHeight _ _ F1) in Hle.
      destruct (A c Hgc). lia.
    + intros m q. rewrite Hg, Hp, !Hh2. intros Hm Hq Hj Hex.
      destruct (decide (q = c)) as [->|Hqc]; [contradiction|].
      apply Hjne in Hj; [|exact Hqc].
      destruct (decide (m = c)) as [->|Hmc].
      * destruct (decide (q = p)) as [->|Hqp]; [lia|].
        assert (height (nd s q) < height (nd s c)); [|lia].
        apply B; auto; intros Hx; apply Hex; split; [exact Hx|]; intros [_ ?]; contradiction.
      * apply B; auto; intros Hx; apply Hex; split; [exact Hx|]; intros [? _]; contradiction.
    + intros m q. rewrite Hg, Hsc, !Hh2. intros Hm Hq Hj Hex.
      destruct (decide (q = c)) as [->|Hqc]; [contradiction|].
      apply Hjne in Hj; [|exact Hqc].
      destruct (decide (m = c)) as [->|Hmc].
      * destruct (decide (q = p)) as [->|Hqp]; [lia|].
        assert (height (nd s q) < height (nd s c)); [|lia].
        apply C; auto; intros Hx; apply Hex; split; [exact Hx|]; intros [_ ?]; contradiction.
      * apply C; auto; intros Hx; apply Hex; split; [exact Hx|]; intros [? _]; contradiction.
    + intros m. rewrite Hg, Hh2. intros Hm. rewrite decide_False by (intros ->; congruence). apply D, Hm.
    + rewrite (heap_setHeight _ _ _ _ H2), Hw1. split; [exact E1|]. intros m Hm. rewrite Hg, Hh2.
      destruct (E2 m Hm) as [Hgm Hhm]. split; [exact Hgm|]. intros Hj.
      destruct (decide (m = c)) as [->|Hmc]; [contradiction|]. apply Hhm, Hjne; assumption.
    + apply (adj_ok_frame s1 s'); auto.
      * unfold adj_ids. rewrite (a_byHeight_setHeight _ _ _ _ H2). reflexivity.
      * apply (a_num_setHeight _ _ _ _ H2).
    + intros x. rewrite Hj2, Hj1. intros [->|Hx]; [exact Hpc|apply GP, Hx].
  - intros m Hm. rewrite Hnd2 by exact Hm.
    apply adjAdd_inv in H1 as [[_ ->]|(_ & _ & q & _ & ->)]; [reflexivity|].
    match goal with |- nd (?a <| adj := ?b |>) m = _ => change (nd (a <| adj := b |>) m) with (nd a m) end.
    apply nd_upd_ne, Hm.
  - rewrite Hh2, decide_True by reflexivity. lia.
Qed.

Lemma adjustLoop_S fuel s oP :
  adjustLoop (S fuel) s oP =
  if a_num (adj s) <=? 0 then ok s else
  '(popped, s) <-! adjRemoveMin s;
  match popped with
  | None => Crash NilDeref
  | Some p =>
    s <-? lift (if inHeap s p then heapFix s p else Ok s);
    s <-? efold (fun s c => ensureHeightRequirement s oP c p) (children (nd s p)) s;
    s <-? (match nkind (nd s p) with
           | KBindLhs b =>
             efold (fun s r => if isNecessary (nd s r)
                               then ensureHeightRequirement s oP r p else ok s)
                   (b_rhsNodes (bd s b)) s
           | _ => ok s
           end);
    adjustLoop fuel s oP
  end.
Proof. reflexivity. Qed.

Definition adj_err (x : err) : Prop := x = ECycle \/ x = EHeightLimit.

Lemma adjustLoop_spec fuel : forall s oP s' e,
  AStat s -> HInv noEx noEx s -> adjustLoop fuel s oP = Ok (s', e) ->
  match e with
  | None => HInv noEx noEx s' /\ a_num (adj s') <= 0 /\ aj_frame s s'
  | Some x => adj_err x
  end.
Proof.
  induction fuel as [|fuel IH]; intros s oP s' e St HI H; [discriminate|].
  rewrite adjustLoop_S in H.
  destruct (Z.leb_spec (a_num (adj s)) 0) as [Hle|Hpos].
  { apply ok_inv in H as [-> ->]. split; [exact HI|]. split; [exact Hle|apply aj_frame_refl]. }
  apply rbind_ok in H as ([popped s1] & H1 & H). destruct popped as [p|]; [|discriminate].
  destruct (adj_ok_pop s p s1 (h_adj _ _ _ HI) H1) as (A1 & F1 & Hw1 & Hjp & Hh1 & Hj1).
  assert (Hp : has s p) by (apply (has_of_field hAdj); exact Hjp).
  assert (Hpp : Pop p) by (apply (h_pop _ _ _ HI), Hjp).
  apply ebind_inv in H as (s2 & e2 & H2 & Hrest). apply lift_inv in H2 as [H2 ->].
  destruct Hrest as [[_ H]|(Hne & _)]; [|congruence].
  assert (Hg1 : forall m, inGraph (nd s1 m) = inGraph (nd s m)) by (intros m; apply (af_node _ _ F1 m)).
  (* after the pop and the fix of the recompute heap *)
  assert (F12 : only_heap s1 s2 /\ hinv (heap s2) /\
                (forall n, n ∈ Heap.ids (heap s2) ->
                   inGraph (nd s1 n) = true /\ (hAdj (nd s1 n) = unset -> Heap.hinOf (heap s2) n = height (nd s1 n)))).
  { destruct (h_heap _ _ _ HI) as [E1 E2]. destruct (inHeap s1 p) eqn:Em.
    - assert (Hin : p ∈ Heap.ids (heap s)).
      { apply (inHeap_iff s p E1). unfold inHeap in *. rewrite <- Hw1. exact Em. }
      destruct (E2 p Hin) as [Hgp _].
      assert (Hhp : 0 <= height (nd s1 p)) by (rewrite Hh1; apply (h_range _ _ _ HI p Hgp)).
      assert (E1' : hinv (heap s1)) by (rewrite Hw1; exact E1).
      destruct (heapFix_spec s1 p s2 E1' Em Hhp H2) as (F & I' & P & Hin').
      split; [exact F|]. split; [exact I'|]. intros n. rewrite P, Hw1, Hin', ?Hw1. intros Hn.
      destruct (E2 n Hn) as [Hgn Hhn]. rewrite Hg1. split; [exact Hgn|].
      destruct (decide (n = p)) as [->|Hnp]; [reflexivity|].
      rewrite Hj1, decide_False, Hh1 by exact Hnp. exact Hhn.
    - injection H2 as <-. split; [apply only_heap_refl|]. split; [rewrite Hw1; exact E1|].
      intros n. rewrite Hw1. intros Hn. destruct (E2 n Hn) as [Hgn Hhn]. rewrite Hg1. split; [exact Hgn|].
      assert (Hnp : n <> p).
      { intros ->. apply (inHeap_iff s p E1) in Hn. unfold inHeap in *. rewrite Hw1 in Em. congruence. }
      rewrite Hj1, decide_False, Hh1 by exact Hnp. exact Hhn. }
  destruct F12 as (F12 & Hi2 & Hq2).
  assert (F2 : aj_frame s s2) by (eapply aj_frame_trans; [exact F1|apply aj_frame_only_heap, F12]).
  assert (St2 : AStat s2) by (apply (AStat_frame s s2 F2 St)).
  assert (Hnd2 : forall m, nd s2 m = nd s1 m) by apply (oh_nd _ _ F12).
  assert (HI2 : HInv (fun m q => q = p /\ m ∈ children (nd s2 p)) (fun m q => q = p) s2).
  { destruct HI as [A B C D E G GP]. constructor.
    - intros m. rewrite Hnd2, Hg1, Hh1, (af_maxHeight _ _ F2). apply A.
    - intros m q. rewrite !Hnd2, Hg1, !Hh1, Hj1. destruct (af_node _ _ F1 m) as (_&_&_&->&_).
      intros Hm Hq Hj Hex. destruct (decide (q = p)) as [->|Hqp].
      + exfalso. apply Hex. split; [reflexivity|]. destruct (af_node _ _ F1 p) as (_&_&_&_&->&_).
        apply (edges_parent_child s m p (as_edges s St)), Hq.
      + apply B; auto.
    - intros m q. rewrite !Hnd2, Hg1, !Hh1, Hj1. destruct (af_node _ _ F1 m) as (_&_&->&_).
      intros Hm Hq Hj Hex. destruct (decide (q = p)) as [->|Hqp]; [exfalso; apply Hex; reflexivity|].
      apply C; auto.
    - intros m. rewrite Hnd2, Hg1, Hh1. apply D.
    - split; [exact Hi2|]. intros n Hn. rewrite !Hnd2. apply Hq2, Hn.
    - apply (adj_ok_frame s1 s2); auto.
      + unfold adj_ids. rewrite (oh_adj _ _ F12). reflexivity.
      + rewrite (oh_adj _ _ F12). reflexivity.
      + intros m. rewrite Hnd2. reflexivity.
    - intros x. rewrite Hnd2, Hj1. destruct (decide (x = p)); [congruence|apply GP]. }
  (* the children of p *)
  apply ebind_inv in H as (s3 & e3 & H3 & Hrest).
  pose (I3 := fun (rest : list nid) (st : state) =>
    HInv (fun m q => q = p /\ m ∈ rest) (fun m q => q = p) st /\ aj_frame s2 st /\ nd st p = nd s2 p /\
    (forall c, c ∈ rest -> c ∈ children (nd s2 p))).
  assert (L3 : match e3 with None => I3 [] s3 | Some x => adj_err x end).
  { eapply (efold_inv I3 (fun _ x => adj_err x)); [| |exact H3].
    { split; [exact HI2|split; [apply aj_frame_refl|split; [reflexivity|auto]]]. }
    intros c rest st st1 e1 (Hst & Fst & Ep & Hsub) Hc.
    assert (Stst : AStat st) by (apply (AStat_frame s2 st Fst St2)).
    destruct (as_child s2 St2 c p (Hsub c ltac:(left))) as [Hgc Hcp].
    assert (Hgc' : inGraph (nd st c) = true).
    { destruct (af_node _ _ Fst c) as (_&_&_&_&_&_&_&_&->&_). exact Hgc. }
    assert (Hpopc : Pop c).
    { apply (as_pop st Stst c p Hpp Hgc'). left.
      destruct (af_node _ _ Fst p) as (_&_&_&_&->&_). apply Hsub. left. }
    pose proof (ensure_spec _ _ st oP c p st1 e1 Hst Hgc' Hcp Hpopc Hc) as E.
    destruct e1 as [x|]; [exact E|]. destruct E as (E1 & E2 & E3 & _).
    split; [|split; [eapply aj_frame_trans; eauto|split]].
    - eapply HInv_weaken; [| |exact E1].
      + intros m q _ _ [[-> Hm] Hne]. split; [reflexivity|].
        apply elem_of_cons in Hm as [->|Hm]; [exfalso; apply Hne; auto|exact Hm].
      + intros m q _ _ [-> _]. reflexivity.
    - rewrite E3 by congruence. exact Ep.
    - intros c' Hc'. apply Hsub. right. exact Hc'. }
  destruct e3 as [x|].
  { destruct Hrest as [[? _]|(_ & _ & ->)]; [discriminate|exact L3]. }
  destruct Hrest as [[_ H]|(Hne & _)]; [|congruence].
  destruct L3 as (HI3 & F3 & Ep3 & _).
  assert (F03 : aj_frame s s3) by (eapply aj_frame_trans; eauto).
  assert (St3 : AStat s3) by (apply (AStat_frame s s3 F03 St)).
  assert (Hp3 : has s3 p) by (apply (af_has _ _ F03), Hp).
  (* the scope nodes of p, when p is a lhs-change node *)
  apply ebind_inv in H as (s4 & e4 & H4 & Hrest).
  assert (L4 : match e4 with None => HInv noEx noEx s4 /\ aj_frame s3 s4 | Some x => adj_err x end).
  { destruct (nkind (nd s3 p)) as [| | | | | | |b|b] eqn:Ek;
      try (apply ok_inv in H4 as [-> ->]; split; [|apply aj_frame_refl];
           eapply HInv_weaken; [| |exact HI3];
           [intros m q _ _ [_ Hm]; inversion Hm
           |intros m q Hm Hq ->; destruct (as_scope s3 St3 m p Hm Hq Hpp) as (_ & Hk & _); congruence]).
    assert (b = p) as -> by (apply (as_kind s3 St3 p b Hp3 Ek)).
    pose (I4 := fun (rest : list nid) (st : state) =>
      HInv noEx (fun m q => q = p /\ m ∈ rest) st /\ aj_frame s3 st /\
      (forall r, r ∈ rest -> r ∈ b_rhsNodes (bd s3 p))).
    assert (I40 : I4 (b_rhsNodes (bd s3 p)) s3).
    { split; [|split; [apply aj_frame_refl|auto]]. eapply HInv_weaken; [| |exact HI3].
      - intros m q _ _ [_ Hm]. inversion Hm.
      - intros m q Hm Hq ->. split; [reflexivity|]. apply (as_scope s3 St3 m p Hm Hq Hpp). }
    assert (L4' : match e4 with None => I4 [] s4 | Some x => adj_err x end).
    { eapply (efold_inv I4 (fun _ x => adj_err x)); [exact I40| |exact H4].
      intros r rest st st1 e1 (Hst & Fst & Hsub) Hr.
      assert (Fst' : aj_frame s st) by (eapply aj_frame_trans; eauto).
      assert (Stst : AStat st) by (apply (AStat_frame s st Fst' St)).
      destruct (as_rhs s3 St3 p r (Hsub r ltac:(left))) as [Hrp Hrs].
      destruct (isNecessary (nd st r)) eqn:En.
      - assert (Hgr : inGraph (nd st r) = true) by (rewrite (as_nec st Stst r); exact En).
        assert (Hpopr : Pop r).
        { apply (as_pop st Stst r p Hpp Hgr). right. destruct (af_node _ _ Fst r) as (_&_&->&_). exact Hrs. }
        pose proof (ensure_spec _ _ st oP r p st1 e1 Hst Hgr Hrp Hpopr Hr) as E.
        destruct e1 as [x|]; [exact E|]. destruct E as (E1 & E2 & _).
        split; [|split; [eapply aj_frame_trans; eauto|]].
        + eapply HInv_weaken; [| |exact E1].
          * intros m q _ _ [[] _].
          * intros m q _ _ [[-> Hm] Hne]. split; [reflexivity|].
            apply elem_of_cons in Hm as [->|Hm]; [exfalso; apply Hne; auto|exact Hm].
        + intros r' Hr'. apply Hsub. right. exact Hr'.
      - apply ok_inv in Hr as [-> ->].
        assert (Hgr : inGraph (nd st r) = false) by (rewrite (as_nec st Stst r); exact En).
        split; [|split; [exact Fst|]].
        + eapply HInv_weaken; [| |exact Hst].
          * intros m q _ _ [].
          * intros m q Hm _ [-> Hm']. split; [reflexivity|].
            apply elem_of_cons in Hm' as [->|Hm']; [congruence|exact Hm'].
        + intros r' Hr'. apply Hsub. right. exact Hr'. }
    destruct e4 as [x|]; [exact L4'|]. destruct L4' as (A & B & _). split; [|exact B].
    eapply HInv_weaken; [| |exact A].
    - intros m q _ _ [].
    - intros m q _ _ [_ Hm]. inversion Hm. }
  destruct e4 as [x|].
  { destruct Hrest as [[? _]|(_ & _ & ->)]; [discriminate|exact L4]. }
  destruct Hrest as [[_ H]|(Hne & _)]; [|congruence].
  destruct L4 as [HI4 F4].
  assert (F04 : aj_frame s s4) by (eapply aj_frame_trans; eauto).
  pose proof (IH s4 oP s' e (AStat_frame s s4 F04 St) HI4 H) as R.
  destruct e as [x|]; [exact R|]. destruct R as (R1 & R2 & R3).
  split; [exact R1|]. split; [exact R2|eapply aj_frame_trans; eauto].
Qed.

Lemma adjustHeights_spec fuel s oC oP s' e :
  AStat s -> HInv (fun m q => m = oC /\ q = oP) noEx s -> inGraph (nd s oC) = true -> oC <> oP -> Pop oC ->
  adjustHeights fuel s oC oP = Ok (s', e) ->
  match e with
  | None => HInv noEx noEx s' /\ a_num (adj s') <= 0 /\ aj_frame s s'
  | Some x => adj_err x
  end.
Proof.
  intros St HI Hg Hne Hpo H. unfold adjustHeights in H.
  set (s0 := s <| adj := adj s <| a_lower := height (nd s oC) |> |>) in *.
  assert (F0 : aj_frame s s0).
  { split; try reflexivity. intros m. repeat split. }
  assert (HI0 : HInv (fun m q => m = oC /\ q = oP) noEx s0).
  { destruct HI as [A B C D E G GP]. constructor; auto. destruct G as [G1 G2 G3]. split; auto. }
  apply ebind_inv in H as (s1 & e1 & H1 & Hrest).
  pose proof (ensure_spec _ _ s0 oP oC oP s1 e1 HI0 Hg Hne Hpo H1) as E.
  destruct e1 as [x|].
  { destruct Hrest as [[? _]|(_ & _ & ->)]; [discriminate|exact E]. }
  destruct Hrest as [[_ H]|(Hne' & _)]; [|congruence].
  destruct E as (E1 & E2 & _).
  assert (F01 : aj_frame s s1) by (eapply aj_frame_trans; eauto).
  assert (HI1 : HInv noEx noEx s1).
  { eapply HInv_weaken; [| |exact E1].
    - intros m q _ _ [[-> ->] Hn]. apply Hn. auto.
    - intros m q _ _ [[] _]. }
  pose proof (adjustLoop_spec fuel s1 oP s' e (AStat_frame s s1 F01 St) HI1 H) as R.
  destruct e as [x|]; [exact R|]. destruct R as (R1 & R2 & R3).
  split; [exact R1|]. split; [exact R2|eapply aj_frame_trans; eauto].
Qed.

(** when the adjust-heights heap is empty again, [HInv] is the plain height and heap clauses *)
Lemma HInv_done s : HInv noEx noEx s -> a_num (adj s) <= 0 ->
  (forall m, hAdj (nd s m) = unset) /\ a_num (adj s) = 0 /\ Forall (fun q => q = []) (a_byHeight (adj s)) /\
  height_ok s /\ heap_ok s.
Proof.
  intros [A B C D [E1 E2] [G1 G2 G3] _] Hle.
  assert (Hids : adj_ids s = []).
  { destruct (adj_ids s) as [|x l] eqn:E; [reflexivity|]. rewrite G2 in Hle. simpl in Hle. lia. }
  assert (Hj : forall m, hAdj (nd s m) = unset).
  { intros m. destruct (decide (hAdj (nd s m) = unset)) as [|Hn]; [assumption|].
    apply G3 in Hn. rewrite Hids in Hn. inversion Hn. }
  split; [exact Hj|]. split; [rewrite G2, Hids; reflexivity|]. split; [apply adj_ids_nil_inv, Hids|]. split.
  - intros m Hm. split; [apply A, Hm|]. split.
    + intros p Hp. apply B; auto; intros [].
    + unfold scopeHeight. destruct (scope (nd s m)) as [b|] eqn:Eb; [|destruct (A m Hm); unfold unset; lia].
      apply C; auto; intros [].
  - split; [exact E1|]. intros n Hn. destruct (E2 n Hn) as [Hg Hh]. split; [exact Hg|apply Hh, Hj].
Qed.

End adjust.


(** ** [addChild]: link, make the input necessary, adjust heights, queue the child *)
Record ac_frame (s s' : state) : Prop := {
  cf_next : next s' = next s;
  cf_binds : binds s' = binds s;
  cf_obs : obs s' = obs s;
  cf_stabNum : stabNum s' = stabNum s;
  cf_status : status s' = status s;
  cf_maxHeight : maxHeight s' = maxHeight s;
  cf_setDuring : setDuring s' = setDuring s;
  cf_setRemoved : setRemoved s' = setRemoved s;
  cf_handlers : handlers s' = handlers s;
  cf_len : length (a_byHeight (adj s')) = length (a_byHeight (adj s));
  cf_has : forall m, has s' m <-> has s m;
  cf_static : forall m,
    nkind (nd s' m) = nkind (nd s m) /\ decl (nd s' m) = decl (nd s m) /\ scope (nd s' m) = scope (nd s m) /\
    valid (nd s' m) = valid (nd s m) /\ forceNec (nd s' m) = forceNec (nd s m) /\
    observers (nd s' m) = observers (nd s m) /\
    recomputedAt (nd s' m) = recomputedAt (nd s m) /\ changedAt (nd s' m) = changedAt (nd s m) /\
    setAt (nd s' m) = setAt (nd s m) /\ value (nd s' m) = value (nd s m) /\ pending (nd s' m) = pending (nd s m);
  cf_log : exists l, log s' = l ++ log s /\ Forall is_nec l;
  cf_mono : forall m, inGraph (nd s m) = true -> inGraph (nd s' m) = true
}.

Lemma ac_frame_refl s : ac_frame s s.
Proof.
  split; try reflexivity; auto; try (intros m; repeat split; fail).
  exists []. split; [reflexivity|constructor].
Qed.

Lemma ac_frame_trans s1 s2 s3 : ac_frame s1 s2 -> ac_frame s2 s3 -> ac_frame s1 s3.
Proof.
  intros A B. split.
  - rewrite (cf_next _ _ B). apply A. - rewrite (cf_binds _ _ B). apply A.
  - rewrite (cf_obs _ _ B). apply A. - rewrite (cf_stabNum _ _ B). apply A.
  - rewrite (cf_status _ _ B). apply A. - rewrite (cf_maxHeight _ _ B). apply A.
  - rewrite (cf_setDuring _ _ B). apply A. - rewrite (cf_setRemoved _ _ B). apply A.
  - rewrite (cf_handlers _ _ B). apply A. - rewrite (cf_len _ _ B). apply A.
  - intros m. rewrite (cf_has _ _ B). apply A.
  - intros m. destruct (cf_static _ _ A m) as (?&?&?&?&?&?&?&?&?&?&?),
                       (cf_static _ _ B m) as (?&?&?&?&?&?&?&?&?&?&?).
    repeat split; congruence.
  - destruct (cf_log _ _ A) as (l1 & E1 & F1), (cf_log _ _ B) as (l2 & E2 & F2).
    exists (l2 ++ l1). rewrite E2, E1, app_assoc. split; [reflexivity|]. apply Forall_app; auto.
  - intros m Hm. apply B, A, Hm.
Qed.

Lemma ac_frame_bn s s' : bn_frame s s' -> ac_frame s s'.
Proof.
  intros F. split; try apply F.
  - rewrite (bf_byHeight _ _ F). reflexivity.
  - intros m. destruct (bf_static _ _ F m) as (?&?&?&?&?&?&?&?&?&?&?&?). repeat split; assumption.
Qed.

Lemma ac_frame_aj s s' : aj_frame s s' -> ac_frame s s'.
Proof.
  intros F. split; try apply F.
  - intros m. destruct (af_node _ _ F m) as (?&?&?&?&?&?&?&?&?&?&?&?&?&?). repeat split; assumption.
  - exists []. split; [apply F|constructor].
  - intros m. destruct (af_node _ _ F m) as (_&_&_&_&_&_&_&_&->&_). auto.
Qed.

Definition adj_idle (s : state) : Prop :=
  a_num (adj s) = 0 /\ Forall (fun q => q = []) (a_byHeight (adj s)) /\ forall m, hAdj (nd s m) = unset.

Lemma adj_idle_ok s : adj_idle s -> adj_ok s.
Proof.
  intros (A & B & C). pose proof (adj_ids_nil s B) as E. split; rewrite ?E.
  - constructor.
  - rewrite A. reflexivity.
  - intros n. rewrite C. split; [intros H; inversion H|congruence].
Qed.

Lemma adj_idle_bn s s' : bn_frame s s' -> adj_idle s -> adj_idle s'.
Proof.
  intros F (A & B & C). split; [rewrite (bf_anum _ _ F); exact A|]. split; [rewrite (bf_byHeight _ _ F); exact B|].
  intros m. destruct (bf_static _ _ F m) as (_&_&_&_&_&_& -> &_). apply C.
Qed.

(** the structural facts adjusting needs, from the invariant with some nodes still open *)
Lemma AStat_of (Pop : nid -> Prop) X s :
  Sta s -> BInv X s ->
  (forall x, x ∈ X -> inGraph (nd s x) = isNecessary (nd s x) /\
                      forall q, q ∈ parents (nd s x) -> q ∈ decl (nd s x)) ->
  (forall n b, has s n -> scope (nd s n) = Some b -> ~ inGen s b n -> Pop b -> valid (nd s n) = false) ->
  (forall c p, Pop p -> inGraph (nd s c) = true ->
               c ∈ children (nd s p) \/ scope (nd s c) = Some p -> Pop c) ->
  AStat Pop s.
Proof.
  intros St B HX Hdead Hpop.
  assert (Hpd : forall m q, q ∈ parents (nd s m) -> q ∈ decl (nd s m)).
  { intros m q Hq. destruct (decide (m ∈ X)) as [Hx|Hx]; [apply (HX m Hx), Hq|].
    destruct (inGraph (nd s m)) eqn:Eg.
    - rewrite <- (b_par _ _ B m Hx Eg). exact Hq.
    - destruct (b_zero1 _ _ B m Eg) as [E _]. rewrite E in Hq. inversion Hq. }
  split.
  - apply B.
  - intros m. destruct (decide (m ∈ X)) as [Hx|Hx]; [apply (HX m Hx)|apply (b_nec _ _ B m Hx)].
  - intros c p Hc. apply (edges_parent_child s c p (b_edges _ _ B)) in Hc. split.
    + destruct (inGraph (nd s c)) eqn:Eg; [reflexivity|].
      destruct (b_zero1 _ _ B c Eg) as [E _]. rewrite E in Hc. inversion Hc.
    + intros ->. apply (no_cycle s p p St (dr_refl s p)), Hpd, Hc.
  - intros m b Hm Hs Hpb. destruct (sta_scopes s St m b Hs) as [[r Hr] Hlt].
    split; [|split; [apply (bw_kind_lhs s b r (sta_binds s St b r Hr))|lia]].
    destruct (decide (m ∈ b_rhsNodes (bd s b))) as [|Hno]; [assumption|].
    pose proof (Hdead m b (has_inGraph s m Hm) Hs Hno Hpb) as E. rewrite (b_valid _ _ B m Hm) in E. discriminate.
  - intros p b Hp Hk. pose proof (sta_kinds s St p Hp) as K. rewrite Hk in K. symmetry. apply K.
  - intros b r Hr. unfold bd in Hr. destruct (binds s !! b) as [rec|] eqn:E; [|inversion Hr].
    simpl in Hr. destruct (bw_rhsNodes s b rec (sta_binds s St b rec E) r Hr) as [_ Hs].
    destruct (sta_scopes s St r b Hs) as [_ Hlt]. split; [lia|exact Hs].
  - exact Hpop.
Qed.

Lemma BInv_after_adjust X s1 s2 :
  BInv X s1 -> aj_frame s1 s2 -> height_ok s2 -> heap_ok s2 ->
  (forall m, inGraph (nd s2 m) = false -> height (nd s2 m) = unset) ->
  (forall x, x ∈ X -> inGraph (nd s1 x) = true /\ isNecessary (nd s1 x) = true /\
                      parents (nd s1 x) = decl (nd s1 x)) ->
  BInv [] s2.
Proof.
  intros [b_edges0 b_zero10 b_zero20 b_nec0 b_par0 b_height0 b_heap0 b_count0 b_obs0 b_valid0 b_sreg0 b_log0 b_life0]
         F Hh Hk Hz HX.
  assert (Hp : forall m, parents (nd s2 m) = parents (nd s1 m)) by (intros m; apply (af_node _ _ F m)).
  assert (Hc : forall m, children (nd s2 m) = children (nd s1 m)) by (intros m; apply (af_node _ _ F m)).
  assert (Ho : forall m, observers (nd s2 m) = observers (nd s1 m)) by (intros m; apply (af_node _ _ F m)).
  assert (Hg : forall m, inGraph (nd s2 m) = inGraph (nd s1 m)) by (intros m; apply (af_node _ _ F m)).
  assert (Hd : forall m, decl (nd s2 m) = decl (nd s1 m)) by (intros m; apply (af_node _ _ F m)).
  assert (Hsc : forall m, scope (nd s2 m) = scope (nd s1 m)) by (intros m; apply (af_node _ _ F m)).
  assert (Hv : forall m, valid (nd s2 m) = valid (nd s1 m)) by (intros m; apply (af_node _ _ F m)).
  assert (Hnec : forall m, isNecessary (nd s2 m) = isNecessary (nd s1 m)).
  { intros m. apply isNecessary_ext; auto. apply (af_node _ _ F m). }
  constructor.
  - apply (edges_ok_ext s1 s2); auto.
  - intros m Hm. split; [|apply Hz, Hm]. rewrite Hp. rewrite Hg in Hm. apply b_zero10, Hm.
  - intros m _. rewrite Hg, Hc, Ho. intros Hm. destruct (decide (m ∈ X)) as [Hx|Hx]; [|apply b_zero20; assumption].
    destruct (HX m Hx) as (E & _). congruence.
  - intros m _. rewrite Hg, Hnec. destruct (decide (m ∈ X)) as [Hx|Hx]; [|apply b_nec0, Hx].
    destruct (HX m Hx) as (-> & -> & _). reflexivity.
  - intros m _. rewrite Hg, Hp, Hd. intros Hm. destruct (decide (m ∈ X)) as [Hx|Hx]; [apply (HX m Hx)|apply b_par0; assumption].
  - intros m _ Hm. apply (Hh m Hm).
  - exact Hk.
  - apply (count_ok_ext s1 s2); auto; apply F.
  - apply (obs_ok_ext s1 s2); auto; apply F.
  - intros m. rewrite Hg, Hv. apply b_valid0.
  - intros m b. rewrite !Hg, Hsc. apply b_sreg0.
  - rewrite (af_log _ _ F). exact b_log0.
  - intros m. rewrite Hg, (af_log _ _ F). apply b_life0.
Qed.

Lemma adj_idle_only_heap s s' : only_heap s s' -> adj_idle s -> adj_idle s'.
Proof.
  intros F (A & B & C). split; [rewrite (oh_adj _ _ F); exact A|]. split; [rewrite (oh_adj _ _ F); exact B|].
  intros m. rewrite (oh_nd _ _ F). apply C.
Qed.

Lemma BInv_parent_registered X s m q :
  BInv X s -> q ∈ parents (nd s m) -> q ∉ X -> inGraph (nd s q) = true.
Proof.
  intros B Hq Hx. apply (edges_parent_child s m q (b_edges _ _ B)) in Hq.
  destruct (inGraph (nd s q)) eqn:E; [reflexivity|].
  destruct (b_zero2 _ _ B q Hx E) as [Ec _]. rewrite Ec in Hq. inversion Hq.
Qed.

(** ** the adjust-heights heap never faults *)
Lemma adjScan_min bs : forall x upto x' n b',
  adjScan bs x upto = Some (x', n, b') ->
  exists i, bs !! i = Some (n :: b') /\ x' = (x + i)%nat /\ forall j, (j < i)%nat -> bs !! j = Some [].
Proof.
  induction bs as [|b bs IH]; intros x upto x' n b' H; simpl in H; [discriminate|].
  destruct (Z.of_nat x >? upto); [discriminate|]. destruct b as [|m b].
  - apply IH in H as (i & Hi & -> & Hmin). exists (S i). split; [exact Hi|]. split; [lia|].
    intros [|j] Hj; [reflexivity|]. apply Hmin. lia.
  - injection H as <- <- <-. exists 0%nat. split; [reflexivity|]. split; [lia|]. intros j Hj. lia.
Qed.

Lemma adjScan_none bs : forall x upto,
  adjScan bs x upto = None -> forall i q, bs !! i = Some q -> Z.of_nat (x + i) <= upto -> q = [].
Proof.
  induction bs as [|b bs IH]; intros x upto H i q Hq Hle; simpl in H; [rewrite lookup_nil in Hq; discriminate|].
  destruct (Z.gtb_spec (Z.of_nat x) upto) as [Hgt|_]; [lia|].
  destruct b as [|m b]; [|discriminate].
  destruct i as [|i]; [injection Hq as <-; reflexivity|].
  apply (IH (S x) upto H i q Hq). lia.
Qed.

Record AQ (s : state) : Prop := {
  q_lower : 0 <= a_lower (adj s);
  q_len : forall h, 0 <= h < maxHeight s -> is_Some (a_byHeight (adj s) !! Z.to_nat h);
  q_bucket : forall i q n, a_byHeight (adj s) !! i = Some q -> n ∈ q ->
               hAdj (nd s n) = Z.of_nat i /\ a_lower (adj s) <= Z.of_nat i <= a_maxSeen (adj s);
  q_edge : forall m p, inGraph (nd s m) = true -> p ∈ parents (nd s m) \/ scope (nd s m) = Some p ->
             hAdj (nd s p) <> unset -> hAdj (nd s p) < height (nd s m)
}.

Lemma nc_adjAdd s n : AQ s -> (hAdj (nd s n) = unset -> 0 <= height (nd s n) < maxHeight s) -> nocrash (adjAdd s n).
Proof.
  intros Q Hh. unfold adjAdd. destruct (Z.eqb_spec (hAdj (nd s n)) unset) as [E|E]; simpl; [|apply nc_Ok].
  specialize (Hh E). destruct (Z.ltb_spec (height (nd s n)) 0); [lia|].
  destruct (q_len s Q _ Hh) as [q ->]. apply nc_Ok.
Qed.

(* popping: something is found whenever the heap is not empty *)
Lemma pop_some s : adj_ok s -> AQ s -> 0 < a_num (adj s) -> exists p s1, adjRemoveMin s = Ok (Some p, s1).
Proof.
  intros [A1 A2 A3] Q Hpos. unfold adjRemoveMin.
  destruct (Z.eqb_spec (a_num (adj s)) 0); [lia|].
  destruct (Z.ltb_spec (a_lower (adj s)) 0); [pose proof (q_lower s Q); lia|].
  destruct (adjScan _ _ _) as [[[x n0] b']|] eqn:E; [eauto|]. exfalso.
  destruct (adj_ids s) as [|m l] eqn:Em; [rewrite A2 in Hpos; simpl in Hpos; lia|].
  assert (Hm : m ∈ adj_ids s) by (rewrite Em; left).
  unfold adj_ids in Hm. apply elem_of_concat_bk in Hm as [i Hmq]. unfold bk in Hmq.
  destruct (a_byHeight (adj s) !! i) as [q|] eqn:Hi; simpl in Hmq; [|inversion Hmq].
  destruct (q_bucket s Q i q m Hi Hmq) as [_ [Hlo Hhi]].
  set (from := Z.to_nat (a_lower (adj s))) in *.
  assert (Hi' : drop from (a_byHeight (adj s)) !! (i - from)%nat = Some q).
  { rewrite lookup_drop. replace (from + (i - from))%nat with i by lia. exact Hi. }
  pose proof (adjScan_none _ _ _ E (i - from)%nat q Hi' ltac:(lia)) as ->. inversion Hmq.
Qed.

Lemma pop_AQ s p s1 :
  adj_ok s -> AQ s -> adjRemoveMin s = Ok (Some p, s1) ->
  AQ s1 /\ a_lower (adj s1) = hAdj (nd s p) /\ hAdj (nd s p) <> unset.
Proof.
  intros [A1 A2 A3] Q H.
  unfold adjRemoveMin in H.
  destruct (a_num (adj s) =? 0); [discriminate|].
  destruct (a_lower (adj s) <? 0); [discriminate|].
  destruct (adjScan _ _ _) as [[[x n] b']|] eqn:E; [|discriminate].
  injection H as -> <-.
  apply adjScan_min in E as (i & Hi & -> & Hmin). rewrite lookup_drop in Hi.
  set (from := Z.to_nat (a_lower (adj s))) in *. set (x := (from + i)%nat) in *.
  assert (Hpq : p ∈ p :: b') by left.
  destruct (q_bucket s Q x _ p Hi Hpq) as [Hjp [Hlo Hhi]].
  assert (Hjpu : hAdj (nd s p) <> unset) by (rewrite Hjp; unfold unset; lia).
  assert (Hp : has s p) by (apply (has_of_field hAdj); exact Hjpu).
  set (s1 := (upd s p (set hAdj (fun _ => unset))) <| adj := _ |>).
  assert (Hnd : forall m, nd s1 m = if decide (m = p) then set hAdj (fun _ => unset) (nd s p) else nd s m).
  { intros m. unfold s1. change (nd (upd s p (set hAdj (fun _ => unset)) <| adj := _ |>) m) with (nd (upd s p (set hAdj (fun _ => unset))) m).
    apply nd_upd, Hp. }
  assert (Hfld : forall {A} (g : node -> A), (forall y f, g (set hAdj f y) = g y) -> forall m, g (nd s1 m) = g (nd s m)).
  { intros A g Hg m. rewrite Hnd. destruct (decide (m = p)) as [->|]; [apply Hg|reflexivity]. }
  assert (Hlen : (x < length (a_byHeight (adj s)))%nat) by (eapply lookup_lt_Some; eauto).
  assert (Hlook : forall j, a_byHeight (adj s1) !! j = if decide (j = x) then Some b' else a_byHeight (adj s) !! j).
  { intros j. unfold s1. cbn. destruct (decide (j = x)) as [->|Hne].
    - apply list_lookup_insert, Hlen.
    - apply list_lookup_insert_ne. congruence. }
  (* p occurs nowhere else *)
  destruct (concat_insert_perm _ _ _ b' Hi) as (l1 & l2 & E1 & E2).
  assert (Hnd1 : NoDup (l1 ++ (p :: b') ++ l2)) by (unfold adj_ids in A1; rewrite E1 in A1; exact A1).
  assert (Hp_else : forall j q, a_byHeight (adj s1) !! j = Some q -> p ∉ q).
  { intros j q Hj Hin.
    assert (Hin' : p ∈ concat (a_byHeight (adj s1))) by (apply elem_of_concat_bk; exists j; unfold bk; rewrite Hj; exact Hin).
    unfold s1 in Hin'. cbn in Hin'. rewrite E2 in Hin'.
    apply NoDup_app in Hnd1 as (N1 & N2 & N3). apply stdpp.list.NoDup_app in N3 as (N4 & N5 & N6).
    apply stdpp.list.NoDup_cons in N4 as [N7 N8].
    apply elem_of_app in Hin' as [Hx|Hx]; [apply (N2 p Hx); apply elem_of_app; left; left|].
    apply elem_of_app in Hx as [Hx|Hx]; [contradiction|]. apply (N5 p); [left|exact Hx]. }
  split; [|split; [rewrite Hjp; reflexivity|exact Hjpu]].
  constructor.
  - unfold s1. cbn. lia.
  - intros h Hh. rewrite Hlook. destruct (decide _); [eauto|]. apply (q_len s Q h Hh).
  - intros j q n Hj Hn. rewrite Hlook in Hj.
    assert (Hnp : n <> p) by (intros ->; apply (Hp_else j q); [rewrite Hlook; exact Hj|exact Hn]).
    rewrite (Hnd n), decide_False by exact Hnp.
    assert (Hb : exists q0, a_byHeight (adj s) !! j = Some q0 /\ n ∈ q0).
    { destruct (decide (j = x)) as [->|]; [injection Hj as <-; exists (p :: b'); split; [exact Hi|right; exact Hn]|eauto]. }
    destruct Hb as (q0 & Hq0 & Hn0). destruct (q_bucket s Q j q0 n Hq0 Hn0) as [B1 [B2 B3]].
    split; [exact B1|]. unfold s1. cbn. split; [|exact B3].
    (* nothing is queued below the bucket that was found *)
    destruct (decide (x <= j)%nat) as [|Hlt]; [lia|]. exfalso.
    assert (Hj' : (from <= j)%nat) by lia.
    specialize (Hmin (j - from)%nat ltac:(lia)). rewrite lookup_drop in Hmin.
    replace (from + (j - from))%nat with j in Hmin by lia. rewrite Hq0 in Hmin. injection Hmin as ->. inversion Hn0.
  - intros m q. rewrite (Hfld _ inGraph), (Hfld _ parents), (Hfld _ scope), (Hfld _ height) by reflexivity.
    intros Hm Hq. rewrite (Hnd q). destruct (decide (q = p)) as [->|]; [cbn; congruence|]. apply (q_edge s Q m q Hm Hq).
Qed.

Section adjust_nc.
  Context (Pop : nid -> Prop).

  Lemma ensure_AQ (exP exS : nid -> nid -> Prop) s oP c p s' :
    HInv Pop exP exS s -> AQ s -> inGraph (nd s c) = true ->
    (forall m, ~ exP m c) -> (forall m, ~ exS m c) -> a_lower (adj s) <= height (nd s c) ->
    ensureHeightRequirement s oP c p = Ok (s', None) ->
    AQ s' /\ a_lower (adj s') = a_lower (adj s) /\ (forall m, height (nd s m) <= height (nd s' m)).
  Proof.
    intros HI Q Hgc HexP HexS Hlow H. unfold ensureHeightRequirement in H.
    destruct (bool_decide (oP = c)); [apply fail_inv in H as [_ ?]; discriminate|].
    destruct (height (nd s p) >=? height (nd s c)) eqn:Ege.
    2:{ apply ok_inv in H as [-> _]. split; [exact Q|]. split; [reflexivity|intros; lia]. }
    apply Z.geb_le in Ege.
    apply ebind_inv in H as (s1 & e1 & H1 & Hrest). apply lift_inv in H1 as [H1 ->].
    destruct Hrest as [[_ H2]|(Hne & _)]; [|congruence].
    assert (Hc : has s c) by (apply has_inGraph, Hgc).
    destruct (h_range _ _ _ _ HI c Hgc) as [Hc0 Hcm].
    (* after the insertion *)
    assert (Q1 : AQ s1 /\ a_lower (adj s1) = a_lower (adj s) /\ (forall m, height (nd s1 m) = height (nd s m)) /\
                 maxHeight s1 = maxHeight s /\ has s1 c /\
                 (forall m, inGraph (nd s1 m) = inGraph (nd s m) /\ parents (nd s1 m) = parents (nd s m) /\ scope (nd s1 m) = scope (nd s m))).
    { apply adjAdd_inv in H1 as [[E ->]|(E & Hh & q & Hq & ->)];
        [split; [exact Q|]; split; [reflexivity|]; split; [reflexivity|]; split; [reflexivity|]; split; [exact Hc|]; intros m; auto|].
      set (h := height (nd s c)) in *.
      set (s1 := (upd s c (set hAdj (fun _ => h))) <| adj := _ |>).
      assert (Hnd : forall m, nd s1 m = if decide (m = c) then set hAdj (fun _ => h) (nd s c) else nd s m).
      { intros m. unfold s1. change (nd (upd s c (set hAdj (fun _ => h)) <| adj := _ |>) m) with (nd (upd s c (set hAdj (fun _ => h))) m).
        apply nd_upd, Hc. }
      assert (Hfld : forall {A} (g : node -> A), (forall y f, g (set hAdj f y) = g y) -> forall m, g (nd s1 m) = g (nd s m)).
      { intros A g Hg m. rewrite Hnd. destruct (decide (m = c)) as [->|]; [apply Hg|reflexivity]. }
      assert (Hlen : (Z.to_nat h < length (a_byHeight (adj s)))%nat) by (eapply lookup_lt_Some; eauto).
      assert (Hlook : forall j, a_byHeight (adj s1) !! j = if decide (j = Z.to_nat h) then Some (q ++ [c]) else a_byHeight (adj s) !! j).
      { intros j. unfold s1. cbn. destruct (decide (j = Z.to_nat h)) as [->|Hne].
        - apply list_lookup_insert, Hlen.
        - apply list_lookup_insert_ne. congruence. }
      split; [|split; [reflexivity|split; [apply Hfld; reflexivity|split; [reflexivity|split; [unfold s1; apply has_upd, Hc|]]]]].
      2:{ intros m. repeat split; apply Hfld; reflexivity. }
      constructor.
      - unfold s1. cbn. apply (q_lower s Q).
      - intros h' Hh'. rewrite Hlook. destruct (decide _); [eauto|]. apply (q_len s Q h' Hh').
      - intros j q' n Hj Hn. rewrite Hlook in Hj. unfold s1. cbn [adj a_lower a_maxSeen set].
        assert (Hcase : (n = c /\ j = Z.to_nat h) \/ (exists q0, a_byHeight (adj s) !! j = Some q0 /\ n ∈ q0)).
        { destruct (decide (j = Z.to_nat h)) as [->|]; [|right; eauto]. injection Hj as <-.
          apply elem_of_app in Hn as [Hn| ->%elem_of_list_singleton]; [right; eauto|left; auto]. }
        destruct Hcase as [[-> ->]|(q0 & Hq0 & Hn0)].
        + rewrite Hnd, decide_True by reflexivity. cbn. rewrite Z2Nat.id by exact Hh. split; [reflexivity|]. cbn. lia.
        + destruct (q_bucket s Q j q0 n Hq0 Hn0) as [B1 [B2 B3]].
          assert (n <> c) by (intros ->; rewrite E in B1; unfold unset in B1; lia).
          rewrite Hnd, decide_False by assumption. split; [exact B1|]. cbn. lia.
      - intros m q'. rewrite (Hfld _ inGraph), (Hfld _ parents), (Hfld _ scope), (Hfld _ height) by reflexivity.
        intros Hm Hq'. rewrite (Hnd q'). destruct (decide (q' = c)) as [->|]; [|apply (q_edge s Q m q' Hm Hq')].
        cbn. intros _. destruct Hq' as [Hq'|Hq'].
        + apply (h_par _ _ _ _ HI m c Hm Hq' E (HexP m)).
        + apply (h_scope _ _ _ _ HI m c Hm Hq' E (HexS m)). }
    destruct Q1 as (Q1 & Hl1 & Hh1 & Hmh1 & Hc1 & Hn1).
    rewrite !Hh1 in H2.
    assert (Hh2 : forall m, height (nd s' m) = if decide (m = c) then height (nd s p) + 1 else height (nd s m)).
    { intros m. rewrite (height_nd_setHeight _ _ _ _ H2 m Hc1), Hh1. reflexivity. }
    split; [|split].
    - destruct Q1 as [B1 B2 B3 B4]. constructor.
      + rewrite (a_lower_setHeight _ _ _ _ H2). exact B1.
      + intros h. rewrite (maxHeight_setHeight _ _ _ _ H2), (a_byHeight_setHeight _ _ _ _ H2). apply B2.
      + intros j q n. rewrite (a_byHeight_setHeight _ _ _ _ H2), (a_lower_setHeight _ _ _ _ H2), (a_maxSeen_setHeight _ _ _ _ H2).
        rewrite (proj_nd_setHeight _ _ _ _ H2 hAdj) by reflexivity. intros Hj Hn.
        destruct (B3 j q n Hj Hn) as [C1 [C2 C3]]. split; [exact C1|lia].
      + intros m q. rewrite (proj_nd_setHeight _ _ _ _ H2 inGraph), (proj_nd_setHeight _ _ _ _ H2 parents),
          (proj_nd_setHeight _ _ _ _ H2 scope), (proj_nd_setHeight _ _ _ _ H2 hAdj) by reflexivity.
        intros Hm Hq Hj. pose proof (B4 m q Hm Hq Hj) as Hlt. rewrite Hh1 in Hlt. rewrite Hh2.
        destruct (decide (m = c)) as [->|]; lia.
    - rewrite (a_lower_setHeight _ _ _ _ H2). exact Hl1.
    - intros m. rewrite Hh2. destruct (decide (m = c)) as [->|]; lia.
  Qed.

  Lemma nc_ensure (exP exS : nid -> nid -> Prop) s oP c p :
    HInv Pop exP exS s -> AQ s -> inGraph (nd s c) = true -> nocrash (ensureHeightRequirement s oP c p).
  Proof.
    intros HI Q Hgc. unfold ensureHeightRequirement.
    destruct (bool_decide (oP = c)); [apply nc_Ok|]. destruct (_ >=? _); [|apply nc_Ok].
    apply nc_ebind; [|intros s1 _; apply nc_setHeight].
    apply nc_lift, nc_adjAdd; [exact Q|]. intros _. apply (h_range _ _ _ _ HI c Hgc).
  Qed.

  Lemma AQ_only_heap s s' : only_heap s s' -> AQ s -> AQ s'.
  Proof.
    intros F [A B C D]. assert (Hnd : forall m, nd s' m = nd s m) by apply (oh_nd _ _ F).
    constructor.
    - rewrite (oh_adj _ _ F). exact A.
    - intros h. rewrite (oh_adj _ _ F), (oh_maxHeight _ _ F). apply B.
    - intros i q n. rewrite (oh_adj _ _ F), Hnd. apply C.
    - intros m q. rewrite !Hnd. apply D.
  Qed.

  Lemma nc_adjustLoop fuel : forall s oP,
    AStat Pop s -> HInv Pop noEx noEx s -> AQ s -> nocrash (adjustLoop fuel s oP).
  Proof.
    induction fuel as [|fuel IH]; intros s oP St HI Q; [apply nc_fuel|].
    rewrite adjustLoop_S.
    destruct (Z.leb_spec (a_num (adj s)) 0) as [Hle|Hpos]; [apply nc_Ok|].
    destruct (pop_some s (h_adj _ _ _ _ HI) Q Hpos) as (p & s1 & H1).
    apply nc_rbind; [rewrite H1; apply nc_Ok|]. intros [popped s1'] E. rewrite H1 in E. injection E as <- <-.
    destruct (adj_ok_pop s p s1 (h_adj _ _ _ _ HI) H1) as (A1 & F1 & Hw1 & Hjp & Hh1 & Hj1).
    destruct (pop_AQ s p s1 (h_adj _ _ _ _ HI) Q H1) as (Q1 & Hx & _).
    set (x := hAdj (nd s p)) in *.
    assert (Hp : has s p) by (apply (has_of_field hAdj); exact Hjp).
    assert (Hpp : Pop p) by (apply (h_pop _ _ _ _ HI), Hjp).
    assert (Hg1 : forall m, inGraph (nd s1 m) = inGraph (nd s m)) by (intros m; apply (af_node _ _ F1 m)).
    (* every dependent of p lies above the block p was found in *)
    assert (Bnd0 : forall m, inGraph (nd s m) = true -> p ∈ parents (nd s m) \/ scope (nd s m) = Some p -> x < height (nd s m)).
    { intros m Hm Hq. apply (q_edge s Q m p Hm Hq Hjp). }
    destruct (h_heap _ _ _ _ HI) as [E1 E2].
    assert (E1' : hinv (heap s1)) by (rewrite Hw1; exact E1).
    apply nc_ebind.
    { apply nc_lift. destruct (inHeap s1 p) eqn:Em; [|apply nc_Ok]. apply nc_heapFix; [exact E1'|exact Em|].
      assert (Hin : p ∈ Heap.ids (heap s)).
      { apply (inHeap_iff s p E1). unfold inHeap in *. rewrite <- Hw1. exact Em. }
      destruct (E2 p Hin) as [Hgp _]. rewrite Hh1. apply (h_range _ _ _ _ HI p Hgp). }
    intros s2 H2. apply lift_inv in H2 as [H2 _].
    assert (F12 : only_heap s1 s2 /\ hinv (heap s2) /\
                  (forall n, n ∈ Heap.ids (heap s2) ->
                     inGraph (nd s1 n) = true /\ (hAdj (nd s1 n) = unset -> Heap.hinOf (heap s2) n = height (nd s1 n)))).
    { destruct (inHeap s1 p) eqn:Em.
      - assert (Hin : p ∈ Heap.ids (heap s)).
        { apply (inHeap_iff s p E1). unfold inHeap in *. rewrite <- Hw1. exact Em. }
        destruct (E2 p Hin) as [Hgp _].
        assert (Hhp : 0 <= height (nd s1 p)) by (rewrite Hh1; apply (h_range _ _ _ _ HI p Hgp)).
        destruct (heapFix_spec s1 p s2 E1' Em Hhp H2) as (F & I' & P & Hin').
        split; [exact F|]. split; [exact I'|]. intros n. rewrite P, Hw1, Hin', ?Hw1. intros Hn.
        destruct (E2 n Hn) as [Hgn Hhn]. rewrite Hg1. split; [exact Hgn|].
        destruct (decide (n = p)) as [->|Hnp]; [reflexivity|].
        rewrite Hj1, decide_False, Hh1 by exact Hnp. exact Hhn.
      - injection H2 as <-. split; [apply only_heap_refl|]. split; [exact E1'|].
        intros n. rewrite Hw1. intros Hn. destruct (E2 n Hn) as [Hgn Hhn]. rewrite Hg1. split; [exact Hgn|].
        assert (Hnp : n <> p).
        { intros ->. apply (inHeap_iff s p E1) in Hn. unfold inHeap in *. rewrite Hw1 in Em. congruence. }
        rewrite Hj1, decide_False, Hh1 by exact Hnp. exact Hhn. }
    destruct F12 as (F12 & Hi2 & Hq2).
    assert (F2 : aj_frame s s2) by (eapply aj_frame_trans; [exact F1|apply aj_frame_only_heap, F12]).
    assert (St2 : AStat Pop s2) by (apply (AStat_frame Pop s s2 F2 St)).
    assert (Hnd2 : forall m, nd s2 m = nd s1 m) by apply (oh_nd _ _ F12).
    pose proof (AQ_only_heap s1 s2 F12 Q1) as Q2.
    assert (Hx2 : a_lower (adj s2) = x) by (rewrite (oh_adj _ _ F12); exact Hx).
    assert (HI2 : HInv Pop (fun m q => q = p /\ m ∈ children (nd s2 p)) (fun m q => q = p) s2).
    { destruct HI as [A B C D E G GP]. constructor.
      - intros m. rewrite Hnd2, Hg1, Hh1, (af_maxHeight _ _ F2). apply A.
      - intros m q. rewrite !Hnd2, Hg1, !Hh1, Hj1. destruct (af_node _ _ F1 m) as (_&_&_&->&_).
        intros Hm Hq Hj Hex. destruct (decide (q = p)) as [->|Hqp].
        + exfalso. apply Hex. split; [reflexivity|]. destruct (af_node _ _ F1 p) as (_&_&_&_&->&_).
          apply (edges_parent_child s m p (as_edges Pop s St)), Hq.
        + apply B; auto.
      - intros m q. rewrite !Hnd2, Hg1, !Hh1, Hj1. destruct (af_node _ _ F1 m) as (_&_&->&_).
        intros Hm Hq Hj Hex. destruct (decide (q = p)) as [->|Hqp]; [exfalso; apply Hex; reflexivity|].
        apply C; auto.
      - intros m. rewrite Hnd2, Hg1, Hh1. apply D.
      - split; [exact Hi2|]. intros n Hn. rewrite !Hnd2. apply Hq2, Hn.
      - apply (adj_ok_frame s1 s2); auto.
        + unfold adj_ids. rewrite (oh_adj _ _ F12). reflexivity.
        + rewrite (oh_adj _ _ F12). reflexivity.
        + intros m. rewrite Hnd2. reflexivity.
      - intros y. rewrite Hnd2, Hj1. destruct (decide (y = p)); [congruence|apply GP]. }
    (* the bound, as a loop invariant *)
    pose (Bnd := fun st : state => forall m, inGraph (nd s m) = true -> p ∈ parents (nd s m) \/ scope (nd s m) = Some p -> x < height (nd st m)).
    assert (Bnd2 : Bnd s2) by (intros m Hm Hq; rewrite Hnd2, Hh1; apply Bnd0; assumption).
    assert (Bnd_mono : forall st st', Bnd st -> (forall m, height (nd st m) <= height (nd st' m)) -> Bnd st').
    { intros st st' B Hmono m Hm Hq. specialize (B m Hm Hq). specialize (Hmono m). lia. }
    (* the children of p *)
    pose (I3 := fun (rest : list nid) (st : state) =>
      (HInv Pop (fun m q => q = p /\ m ∈ rest) (fun m q => q = p) st /\ aj_frame s2 st /\ nd st p = nd s2 p /\
       (forall c, c ∈ rest -> c ∈ children (nd s2 p))) /\ AQ st /\ a_lower (adj st) = x /\ Bnd st).
    assert (Step3 : forall c rest st, I3 (c :: rest) st ->
              nocrash (ensureHeightRequirement st oP c p) /\
              forall st1, ensureHeightRequirement st oP c p = Ok (st1, None) -> I3 rest st1).
    { intros c rest st ((Hst & Fst & Ep & Hsub) & Qst & Hxst & Bst).
      assert (Stst : AStat Pop st) by (apply (AStat_frame Pop s2 st Fst St2)).
      destruct (as_child Pop s2 St2 c p (Hsub c ltac:(left))) as [Hgc Hcp].
      assert (Hgc' : inGraph (nd st c) = true).
      { destruct (af_node _ _ Fst c) as (_&_&_&_&_&_&_&_&->&_). exact Hgc. }
      assert (Hpopc : Pop c).
      { apply (as_pop Pop st Stst c p Hpp Hgc'). left.
        destruct (af_node _ _ Fst p) as (_&_&_&_&->&_). apply Hsub. left. }
      split; [apply (nc_ensure _ _ st oP c p Hst Qst Hgc')|]. intros st1 Hc.
      pose proof (ensure_spec Pop _ _ st oP c p st1 None Hst Hgc' Hcp Hpopc Hc) as (E1a & E2a & E3a & _).
      assert (Hcs : inGraph (nd s c) = true /\ p ∈ parents (nd s c)).
      { split.
        - rewrite <- Hg1, <- Hnd2. exact Hgc.
        - apply (edges_parent_child s c p (as_edges Pop s St)).
          destruct (af_node _ _ F2 p) as (_&_&_&_&<-&_). apply Hsub. left. }
      destruct (ensure_AQ _ _ st oP c p st1 Hst Qst Hgc') as (Qa & Qb & Qc).
      { intros m [Hcp' _]. contradiction. }
      { intros m Hcp'. contradiction. }
      { rewrite Hxst. specialize (Bst c (proj1 Hcs) (or_introl (proj2 Hcs))). lia. }
      { exact Hc. }
      split; [|split; [exact Qa|split; [congruence|apply (Bnd_mono st st1 Bst Qc)]]].
      split; [|split; [eapply aj_frame_trans; eauto|split]].
      - eapply HInv_weaken; [| |exact E1a].
        + intros m q _ _ [[-> Hm] Hne]. split; [reflexivity|].
          apply elem_of_cons in Hm as [->|Hm]; [exfalso; apply Hne; auto|exact Hm].
        + intros m q _ _ [-> _]. reflexivity.
      - rewrite E3a by congruence. exact Ep.
      - intros c' Hc'. apply Hsub. right. exact Hc'. }
    assert (I30 : I3 (children (nd s2 p)) s2).
    { split; [split; [exact HI2|split; [apply aj_frame_refl|split; [reflexivity|auto]]]|]. split; [exact Q2|split; [exact Hx2|exact Bnd2]]. }
    apply nc_ebind; [apply (nc_efold I3); [exact I30|exact Step3]|]. intros s3 H3.
    assert (L3 : I3 [] s3).
    { refine (efold_inv I3 (fun _ _ => True) (fun s c => ensureHeightRequirement s oP c p) _ _ _ None I30 _ H3).
      intros c rest st st1 e1 HIst Hc. destruct e1; [exact Logic.I|]. apply (proj2 (Step3 c rest st HIst) st1 Hc). }
    destruct L3 as ((HI3 & F3 & Ep3 & _) & Q3 & Hx3 & Bnd3).
    assert (F03 : aj_frame s s3) by (eapply aj_frame_trans; eauto).
    assert (St3 : AStat Pop s3) by (apply (AStat_frame Pop s s3 F03 St)).
    assert (Hp3 : has s3 p) by (apply (af_has _ _ F03), Hp).
    (* the scope nodes of p *)
    assert (Scope : nocrash (match nkind (nd s3 p) with
                             | KBindLhs b => efold (fun s r => if isNecessary (nd s r) then ensureHeightRequirement s oP r p else ok s)
                                                   (b_rhsNodes (bd s3 b)) s3
                             | _ => ok s3 end) /\
                    forall s4, (match nkind (nd s3 p) with
                             | KBindLhs b => efold (fun s r => if isNecessary (nd s r) then ensureHeightRequirement s oP r p else ok s)
                                                   (b_rhsNodes (bd s3 b)) s3
                             | _ => ok s3 end) = Ok (s4, None) -> HInv Pop noEx noEx s4 /\ aj_frame s3 s4 /\ AQ s4).
    { destruct (nkind (nd s3 p)) as [| | | | | | |b|b] eqn:Ek;
        try (split; [apply nc_Ok|]; intros s4 [-> _]%ok_inv; split; [|split; [apply aj_frame_refl|exact Q3]];
             eapply HInv_weaken; [| |exact HI3];
             [intros m q _ _ [_ Hm]; inversion Hm
             |intros m q Hm Hq ->; destruct (as_scope Pop s3 St3 m p Hm Hq Hpp) as (_ & Hk & _); congruence]).
      assert (b = p) as -> by (apply (as_kind Pop s3 St3 p b Hp3 Ek)).
      pose (I4 := fun (rest : list nid) (st : state) =>
        (HInv Pop noEx (fun m q => q = p /\ m ∈ rest) st /\ aj_frame s3 st /\
         (forall r, r ∈ rest -> r ∈ b_rhsNodes (bd s3 p))) /\ AQ st /\ a_lower (adj st) = x /\ Bnd st).
      assert (I40 : I4 (b_rhsNodes (bd s3 p)) s3).
      { split; [|split; [exact Q3|split; [exact Hx3|exact Bnd3]]].
        split; [|split; [apply aj_frame_refl|auto]]. eapply HInv_weaken; [| |exact HI3].
        - intros m q _ _ [_ Hm]. inversion Hm.
        - intros m q Hm Hq ->. split; [reflexivity|]. apply (as_scope Pop s3 St3 m p Hm Hq Hpp). }
      assert (Step4 : forall r rest st, I4 (r :: rest) st ->
                nocrash (if isNecessary (nd st r) then ensureHeightRequirement st oP r p else ok st) /\
                forall st1, (if isNecessary (nd st r) then ensureHeightRequirement st oP r p else ok st) = Ok (st1, None) -> I4 rest st1).
      { intros r rest st ((Hst & Fst & Hsub) & Qst & Hxst & Bst).
        assert (Fst' : aj_frame s st) by (eapply aj_frame_trans; eauto).
        assert (Stst : AStat Pop st) by (apply (AStat_frame Pop s st Fst' St)).
        destruct (as_rhs Pop s3 St3 p r (Hsub r ltac:(left))) as [Hrp Hrs].
        destruct (isNecessary (nd st r)) eqn:En.
        - assert (Hgr : inGraph (nd st r) = true) by (rewrite (as_nec Pop st Stst r); exact En).
          assert (Hpopr : Pop r).
          { apply (as_pop Pop st Stst r p Hpp Hgr). right. destruct (af_node _ _ Fst r) as (_&_&->&_). exact Hrs. }
          split; [apply (nc_ensure _ _ st oP r p Hst Qst Hgr)|]. intros st1 Hr.
          pose proof (ensure_spec Pop _ _ st oP r p st1 None Hst Hgr Hrp Hpopr Hr) as (E1a & E2a & _).
          assert (Hrs0 : inGraph (nd s r) = true /\ scope (nd s r) = Some p).
          { split.
            - destruct (af_node _ _ Fst' r) as (_&_&_&_&_&_&_&_&<-&_). exact Hgr.
            - destruct (af_node _ _ F03 r) as (_&_&<-&_). exact Hrs. }
          destruct (ensure_AQ _ _ st oP r p st1 Hst Qst Hgr) as (Qa & Qb & Qc).
          { intros m []. }
          { intros m [Hrp' _]. contradiction. }
          { rewrite Hxst. specialize (Bst r (proj1 Hrs0) (or_intror (proj2 Hrs0))). lia. }
          { exact Hr. }
          split; [|split; [exact Qa|split; [congruence|apply (Bnd_mono st st1 Bst Qc)]]].
          split; [|split; [eapply aj_frame_trans; eauto|]].
          + eapply HInv_weaken; [| |exact E1a].
            * intros m q _ _ [[] _].
            * intros m q _ _ [[-> Hm] Hne]. split; [reflexivity|].
              apply elem_of_cons in Hm as [->|Hm]; [exfalso; apply Hne; auto|exact Hm].
          + intros r' Hr'. apply Hsub. right. exact Hr'.
        - split; [apply nc_Ok|]. intros st1 [-> _]%ok_inv.
          assert (Hgr : inGraph (nd st r) = false) by (rewrite (as_nec Pop st Stst r); exact En).
          split; [|split; [exact Qst|split; [exact Hxst|exact Bst]]].
          split; [|split; [exact Fst|]].
          + eapply HInv_weaken; [| |exact Hst].
            * intros m q _ _ [].
            * intros m q Hm _ [-> Hm']. split; [reflexivity|].
              apply elem_of_cons in Hm' as [->|Hm']; [congruence|exact Hm'].
          + intros r' Hr'. apply Hsub. right. exact Hr'. }
      split; [apply (nc_efold I4); [exact I40|exact Step4]|]. intros s4 H4.
      assert (L4 : I4 [] s4).
      { refine (efold_inv I4 (fun _ _ => True) _ _ _ _ None I40 _ H4).
        intros r rest st st1 e1 HIst Hr. destruct e1; [exact Logic.I|]. apply (proj2 (Step4 r rest st HIst) st1 Hr). }
      destruct L4 as ((A & B & _) & Q4 & _). split; [|split; [exact B|exact Q4]].
      eapply HInv_weaken; [| |exact A].
      - intros m q _ _ [].
      - intros m q _ _ [_ Hm]. inversion Hm. }
    destruct Scope as [Sc1 Sc2].
    apply nc_ebind; [exact Sc1|]. intros s4 H4. destruct (Sc2 s4 H4) as (HI4 & F4 & Q4).
    assert (F04 : aj_frame s s4) by (eapply aj_frame_trans; eauto).
    apply (IH s4 oP (AStat_frame Pop s s4 F04 St) HI4 Q4).
  Qed.

  Lemma nc_adjustHeights fuel s oC oP :
    AStat Pop s -> HInv Pop (fun m q => m = oC /\ q = oP) noEx s -> adj_idle s -> shape_ok s ->
    inGraph (nd s oC) = true -> oC <> oP -> Pop oC -> nocrash (adjustHeights fuel s oC oP).
  Proof.
    intros St HI (I1 & I2 & I3) Hsh Hg Hne Hpo. unfold adjustHeights.
    set (s0 := s <| adj := adj s <| a_lower := height (nd s oC) |> |>) in *.
    assert (F0 : aj_frame s s0).
    { split; try reflexivity. intros m. repeat split. }
    assert (HI0 : HInv Pop (fun m q => m = oC /\ q = oP) noEx s0).
    { destruct HI as [A B C D E G GP]. constructor; auto. destruct G as [G1 G2 G3]. split; auto. }
    assert (Q0 : AQ s0).
    { constructor.
      - unfold s0. cbn. apply (h_range _ _ _ _ HI oC Hg).
      - intros h Hh. change (maxHeight s0) with (maxHeight s) in Hh. unfold s0. cbn. apply lookup_lt_is_Some. rewrite (sh_len s Hsh). lia.
      - intros i q n Hi Hn. exfalso. unfold s0 in Hi. cbn in Hi.
        rewrite stdpp.list.Forall_forall in I2. rewrite (I2 q) in Hn; [inversion Hn|]. eapply elem_of_list_lookup_2, Hi.
      - intros m q _ _ Hj. exfalso. apply Hj. change (nd s0 q) with (nd s q). apply I3. }
    apply nc_ebind; [apply (nc_ensure _ _ s0 oP oC oP HI0 Q0 Hg)|]. intros s1 H1.
    pose proof (ensure_spec Pop _ _ s0 oP oC oP s1 None HI0 Hg Hne Hpo H1) as (E1 & E2 & _).
    destruct (ensure_AQ _ _ s0 oP oC oP s1 HI0 Q0 Hg) as (Q1 & _).
    { intros m [_ ->]. contradiction. }
    { intros m []. }
    { unfold s0. cbn. change (nd (s <| adj := adj s <| a_lower := height (nd s oC) |> |>) oC) with (nd s oC). lia. }
    { exact H1. }
    assert (F01 : aj_frame s s1) by (eapply aj_frame_trans; eauto).
    assert (HI1 : HInv Pop noEx noEx s1).
    { eapply HInv_weaken; [| |exact E1].
      - intros m q _ _ [[-> ->] Hn]. apply Hn. auto.
      - intros m q _ _ [[] _]. }
    apply (nc_adjustLoop fuel s1 oP (AStat_frame Pop s s1 F01 St) HI1 Q1).
  Qed.
End adjust_nc.

Lemma addChild_spec fuel s c p s' e :
  Sta s -> BInv [c] s -> adj_idle s -> invq s = [] ->
  (forall n b, has s n -> scope (nd s n) = Some b -> ~ inGen s b n ->
     valid (nd s n) = false \/ (inGraph (nd s b) = true /\ height (nd s b) < height (nd s c))) ->
  has s c -> has s p ->
  inGraph (nd s c) = true -> isNecessary (nd s c) = true -> valid (nd s p) = true ->
  parents (nd s c) ++ [p] = decl (nd s c) ->
  0 <= height (nd s c) < maxHeight s ->
  scopeHeight s (scope (nd s c)) < height (nd s c) ->
  (forall q, q ∈ parents (nd s c) -> height (nd s q) < height (nd s c)) ->
  (forall b, scope (nd s p) = Some b -> inGraph (nd s b) = true) ->
  addChild fuel s c p = Ok (s', e) ->
  match e with
  | None => BInv [] s' /\ ac_frame s s' /\ invq s' = [] /\ adj_idle s'
  | Some x => adj_err x
  end.
Proof.
  intros St B Hidle Hq0 Hdead Hc Hp Hgc Hnc Hvp Hpar Hrange Hscope Hlow Hsregp H.
  assert (Hpd : p ∈ decl (nd s c)) by (rewrite <- Hpar; apply elem_of_app; right; left).
  assert (Hpc : p <> c) by (intros ->; apply (no_cycle s c c St (dr_refl s c) Hpd)).
  assert (Hnpc : ~ dreach s p c).
  { intros Hr. apply Hpc. apply (no_cycle2 s p c St Hr). eapply dr_step; [apply dr_refl|exact Hpd]. }
  unfold addChild, addChildWithoutAdjustingHeights in H.
  set (s1 := link s c p) in *.
  assert (Hv1 : valid (nd s1 p) = true) by (unfold s1; rewrite valid_nd_link; exact Hvp).
  rewrite Hv1 in H.
  pose proof (BInv_link [] s c p B Hc Hp Hgc) as B1.
  assert (F1 : bn_frame s s1) by apply bn_frame_link.
  assert (St1 : Sta s1) by (apply (Sta_bn_frame s s1 F1 St)).
  assert (Hpar1 : parents (nd s1 c) = decl (nd s1 c)).
  { unfold s1. rewrite parents_nd_link by exact Hc. rewrite decide_True, decl_nd_link by reflexivity. exact Hpar. }
  assert (Hchi1 : children (nd s1 p) = children (nd s p) ++ [c]).
  { unfold s1. rewrite children_nd_link by exact Hp. rewrite decide_True by reflexivity. reflexivity. }
  assert (Hg1 : forall m, inGraph (nd s1 m) = inGraph (nd s m)) by (intros; apply inGraph_nd_link).
  assert (Hh1 : forall m, height (nd s1 m) = height (nd s m)) by (intros; apply height_nd_link).
  assert (HpX : p ∉ [c]) by (intros Hx; apply elem_of_list_singleton in Hx; contradiction).
  apply ebind_inv in H as (s2 & e2 & H2 & Hrest).
  (* the input is necessary now *)
  assert (Mid : match e2 with
                | Some x => adj_err x
                | None => BInv [c] s2 /\ bn_frame s1 s2 /\ nd s2 c = nd s1 c /\ invq s2 = invq s1 /\
                          inGraph (nd s2 p) = true /\
                          (forall m, inGraph (nd s1 m) = true -> height (nd s2 m) = height (nd s1 m))
                end).
  { destruct (isNecessary (nd s p)) eqn:Enec.
    - apply ok_inv in H2 as [-> ->].
      assert (Hgp : inGraph (nd s p) = true) by (rewrite (b_nec _ _ B p HpX); exact Enec).
      split; [|split; [apply bn_frame_refl|repeat split; auto]]; [|rewrite Hg1; exact Hgp].
      apply (BInv_close [c] s1 p B1).
      + rewrite Hg1, Hgp. discriminate.
      + rewrite Hg1, Hgp. symmetry. apply isNecessary_true. right; left. rewrite Hchi1.
        intros E. apply app_eq_nil in E as [_ E]. discriminate.
      + intros _. split.
        * unfold s1. rewrite parents_nd_link by exact Hc. rewrite decide_False by exact Hpc.
          rewrite decl_nd_link. apply (b_par _ _ B p HpX Hgp).
        * apply (good_h_ext s s1); auto; unfold s1; autorewrite with eng; try reflexivity.
          -- rewrite parents_nd_link by exact Hc. rewrite decide_False by exact Hpc. reflexivity.
          -- apply (b_height _ _ B p HpX Hgp).
    - assert (Hgp : inGraph (nd s p) = false) by (rewrite (b_nec _ _ B p HpX); exact Enec).
      pose proof (BN_spec_all fuel s1 p [c] s2 e2 St1 B1) as Post.
      assert (Post' : match e2 with None => bn_post [c] s1 p s2 | Some x => x = EHeightLimit end).
      { apply Post; try assumption.
        - apply has_link, Hp.
        - rewrite Hg1. exact Hgp.
        - apply isNecessary_true. right; left. rewrite Hchi1.
          intros E. apply app_eq_nil in E as [_ E]. discriminate.
        - intros x. rewrite Hchi1. destruct (b_zero2 _ _ B p HpX Hgp) as [-> _].
          intros ->%elem_of_list_singleton. left.
        - intros b. rewrite Hg1. unfold s1. rewrite scope_nd_link. apply Hsregp.
        - intros x ->%elem_of_list_singleton. exists c. split; [apply dr_refl|].
          unfold s1. rewrite decl_nd_link. exact Hpd. }
      destruct e2 as [x|]; [right; exact Post'|].
      destruct (BN_frame fuel s1 p s2 None H2) as [F2 T2].
      destruct Post' as [P1 P2 P3 P4 P5 P6].
      split; [exact P1|]. split; [exact F2|]. split; [|split; [exact P2|split; [exact P3|exact P4]]].
      apply T2. intros Hr. apply Hnpc. apply (dreach_ext s1 s); [|exact Hr].
      intros m. unfold s1. rewrite decl_nd_link. reflexivity. }
  destruct e2 as [x|].
  { destruct Hrest as [[? _]|(_ & _ & ->)]; [discriminate|exact Mid]. }
  destruct Hrest as [[_ H]|(Hne & _)]; [|congruence].
  destruct Mid as (B2 & F2 & Ec2 & Iq2 & Gp2 & Hh2).
  assert (F02 : bn_frame s s2) by (eapply bn_frame_trans; eauto).
  assert (St2 : Sta s2) by (apply (Sta_bn_frame s s2 F02 St)).
  assert (Hidle2 : adj_idle s2) by (apply (adj_idle_bn s s2 F02 Hidle)).
  assert (Hq2 : invq s2 = []) by (rewrite Iq2; unfold s1; rewrite invq_link; exact Hq0).
  assert (Hgc2 : inGraph (nd s2 c) = true) by (rewrite Ec2, Hg1; exact Hgc).
  assert (Hhc2 : height (nd s2 c) = height (nd s c)) by (rewrite Ec2; apply Hh1).
  assert (Hpar2 : parents (nd s2 c) = decl (nd s2 c)).
  { rewrite Ec2. exact Hpar1. }
  assert (Hparc2 : parents (nd s2 c) = parents (nd s c) ++ [p]).
  { rewrite Ec2. unfold s1. rewrite parents_nd_link by exact Hc. rewrite decide_True by reflexivity. reflexivity. }
  assert (Hnc2 : isNecessary (nd s2 c) = true).
  { rewrite Ec2. rewrite <- Hnc. apply isNecessary_ext; unfold s1; autorewrite with eng; auto.
    rewrite children_nd_link by exact Hp. rewrite decide_False by congruence. reflexivity. }
  assert (Hold : forall q, q ∈ parents (nd s c) -> height (nd s2 q) = height (nd s q)).
  { intros q Hq. rewrite Hh2, Hh1; [reflexivity|]. rewrite Hg1.
    apply (BInv_parent_registered [c] s c q B Hq). intros Hx%elem_of_list_singleton. subst q.
    apply (no_cycle s c c St (dr_refl s c)). rewrite <- Hpar. apply elem_of_app. left. exact Hq. }
  assert (Hmh2 : maxHeight s2 = maxHeight s) by (rewrite (bf_maxHeight _ _ F02); reflexivity).
  assert (Hscc2 : scope (nd s2 c) = scope (nd s c)) by apply (bf_static _ _ F02 c).
  assert (Hsch2 : scopeHeight s2 (scope (nd s2 c)) = scopeHeight s (scope (nd s c))).
  { rewrite Hscc2. unfold scopeHeight. destruct (scope (nd s c)) as [b|] eqn:Eb; [|reflexivity].
    rewrite Hh2, Hh1; [reflexivity|]. rewrite Hg1. apply (b_sreg _ _ B c b Hgc Eb). }
  apply ebind_inv in H as (s3 & e3 & H3 & Hrest).
  (* heights *)
  assert (Adj : match e3 with
                | Some x => adj_err x
                | None => BInv [] s3 /\ ac_frame s2 s3 /\ invq s3 = [] /\ adj_idle s3
                end).
  { destruct (Z.geb_spec (height (nd s2 p)) (height (nd s2 c))) as [Hge|Hlt].
    - set (Pop := fun x => height (nd s2 c) <= height (nd s2 x)).
      assert (HI : HInv Pop (fun m q => m = c /\ q = p) noEx s2).
      { destruct Hidle2 as (I1 & I2 & I3). constructor.
        - intros m Hm. destruct (decide (m = c)) as [->|Hmc]; [rewrite Hhc2, Hmh2; exact Hrange|].
          apply (b_height _ _ B2 m); [intros Hx%elem_of_list_singleton; contradiction|exact Hm].
        - intros m q Hm Hq _ Hex. destruct (decide (m = c)) as [->|Hmc].
          + rewrite Hparc2, elem_of_app, elem_of_list_singleton in Hq. destruct Hq as [Hq| ->]; [|exfalso; apply Hex; auto].
            rewrite Hhc2, (Hold q Hq). apply Hlow, Hq.
          + apply (b_height _ _ B2 m); [intros Hx%elem_of_list_singleton; contradiction|exact Hm|exact Hq].
        - intros m b Hm Hb _ _. destruct (decide (m = c)) as [->|Hmc].
          + pose proof Hscope as Hs. rewrite <- Hsch2, Hb in Hs. simpl in Hs. rewrite Hhc2. exact Hs.
          + destruct (b_height _ _ B2 m ltac:(intros Hx%elem_of_list_singleton; contradiction) Hm) as (_ & _ & Hs).
            rewrite Hb in Hs. exact Hs.
        - intros m Hm. apply (b_zero1 _ _ B2 m Hm).
        - destruct (b_heap _ _ B2) as [E1 E2]. split; [exact E1|]. intros n Hn. destruct (E2 n Hn). auto.
        - apply adj_idle_ok. repeat split; assumption.
        - intros x Hx. rewrite I3 in Hx. congruence. }
      assert (AS : AStat Pop s2).
      { apply (AStat_of Pop [c] s2 St2 B2).
        - intros x ->%elem_of_list_singleton. split; [rewrite Hgc2, Hnc2; reflexivity|].
          intros q. rewrite Hpar2. auto.
        - intros n b. rewrite (bf_has _ _ F02). destruct (bf_static _ _ F02 n) as (_ & _ & -> & -> & _).
          unfold inGen, bd. rewrite (bf_binds _ _ F02). intros Hn Hs Hno Hpb.
          destruct (Hdead n b Hn Hs Hno) as [Hv|[Hgb Hhb]]; [exact Hv|]. exfalso. unfold Pop in Hpb.
          rewrite Hhc2 in Hpb. rewrite Hh2, Hh1 in Hpb by (rewrite Hg1; exact Hgb). lia.
        - intros c' q Hpq Hgc' [Hc'|Hc'].
          + destruct (decide (c' = c)) as [->|Hne]; [unfold Pop; lia|].
            apply (edges_parent_child s2 c' q (b_edges _ _ B2)) in Hc'.
            pose proof (h_par _ _ _ _ HI c' q Hgc' Hc' (proj2 (proj2 Hidle2) q)) as Hlt.
            unfold Pop in *. assert (height (nd s2 q) < height (nd s2 c')); [|lia].
            apply Hlt. intros [? _]. contradiction.
          + pose proof (h_scope _ _ _ _ HI c' q Hgc' Hc' (proj2 (proj2 Hidle2) q)) as Hlt.
            unfold Pop in *. assert (height (nd s2 q) < height (nd s2 c')); [|lia]. apply Hlt. intros []. }
      pose proof (adjustHeights_spec Pop fuel s2 c p s3 e3 AS HI Hgc2 ltac:(congruence) ltac:(unfold Pop; lia) H3) as R.
      destruct e3 as [x|]; [exact R|]. destruct R as (R1 & R2 & R3).
      destruct (HInv_done Pop s3 R1 R2) as (D1 & D2 & D3 & D4 & D5).
      split; [|split; [apply ac_frame_aj, R3|split; [rewrite (af_invq _ _ R3); exact Hq2|repeat split; assumption]]].
      apply (BInv_after_adjust [c] s2 s3 B2 R3 D4 D5).
      + intros m. apply (h_zero _ _ _ _ R1).
      + intros x ->%elem_of_list_singleton. auto.
    - apply ok_inv in H3 as [-> ->].
      split; [|split; [apply ac_frame_refl|split; [exact Hq2|exact Hidle2]]].
      apply (BInv_close [] s2 c B2).
      + rewrite Hgc2. discriminate.
      + rewrite Hgc2, Hnc2. reflexivity.
      + intros _. split; [exact Hpar2|]. split; [rewrite Hhc2, Hmh2; exact Hrange|]. split.
        * intros q. rewrite Hparc2, elem_of_app, elem_of_list_singleton. intros [Hq| ->]; [|exact Hlt].
          rewrite Hhc2, (Hold q Hq). apply Hlow, Hq.
        * rewrite Hsch2, Hhc2. exact Hscope. }
  destruct e3 as [x|].
  { destruct Hrest as [[? _]|(_ & _ & ->)]; [discriminate|exact Adj]. }
  destruct Hrest as [[_ H]|(Hne & _)]; [|congruence].
  destruct Adj as (B3 & F3 & Hq3 & Hidle3).
  assert (F03 : ac_frame s s3) by (eapply ac_frame_trans; [apply ac_frame_bn, F02|exact F3]).
  apply ebind_inv in H as (s4 & e4 & H4 & Hrest). apply lift_inv in H4 as [H4 ->].
  destruct Hrest as [[_ H]|(Hne & _)]; [|congruence].
  assert (E4 : s4 = s3).
  { destruct fuel as [|k]; [discriminate|]. rewrite (propagateInvalidity_nil k s3 Hq3) in H4. congruence. }
  subst s4.
  assert (Hgc3 : inGraph (nd s3 c) = true) by (apply (cf_mono _ _ F3), Hgc2).
  destruct (_ || _).
  - apply lift_inv in H as [H ->].
    assert (Hh3 : 0 <= height (nd s3 c)).
    { destruct (b_height _ _ B3 c ltac:(intros Hx; inversion Hx) Hgc3) as (A & _). lia. }
    destruct (heap_ok_heapAddIfNotPresent s3 c s' (b_heap _ _ B3) Hgc3 Hh3 H) as [F5 Hk5].
    split; [apply (BInv_only_heap [] s3 s' F5 Hk5 B3)|].
    split; [eapply ac_frame_trans; [exact F03|apply ac_frame_bn, bn_frame_only_heap, F5]|].
    split; [rewrite (oh_invq _ _ F5); exact Hq3|apply (adj_idle_only_heap s3 s' F5 Hidle3)].
  - apply ok_inv in H as [-> ->]. auto.
Qed.

Lemma nc_addChild fuel s c p :
  Sta s -> BInv [c] s -> adj_idle s -> shape_ok s -> invq s = [] ->
  (forall n b, has s n -> scope (nd s n) = Some b -> ~ inGen s b n ->
     valid (nd s n) = false \/ (inGraph (nd s b) = true /\ height (nd s b) < height (nd s c))) ->
  has s c -> has s p ->
  inGraph (nd s c) = true -> isNecessary (nd s c) = true -> valid (nd s p) = true ->
  parents (nd s c) ++ [p] = decl (nd s c) ->
  0 <= height (nd s c) < maxHeight s ->
  scopeHeight s (scope (nd s c)) < height (nd s c) ->
  (forall q, q ∈ parents (nd s c) -> height (nd s q) < height (nd s c)) ->
  (forall b, scope (nd s p) = Some b -> inGraph (nd s b) = true) ->
  nocrash (addChild fuel s c p).
Proof.
  intros St B Hidle Hshape Hq0 Hdead Hc Hp Hgc Hnc Hvp Hpar Hrange Hscope Hlow Hsregp.
  assert (Hpd : p ∈ decl (nd s c)) by (rewrite <- Hpar; apply elem_of_app; right; left).
  assert (Hpc : p <> c) by (intros ->; apply (no_cycle s c c St (dr_refl s c) Hpd)).
  assert (Hnpc : ~ dreach s p c).
  { intros Hr. apply Hpc. apply (no_cycle2 s p c St Hr). eapply dr_step; [apply dr_refl|exact Hpd]. }
  unfold addChild, addChildWithoutAdjustingHeights.
  set (s1 := link s c p) in *.
  assert (Hv1 : valid (nd s1 p) = true) by (unfold s1; rewrite valid_nd_link; exact Hvp).
  rewrite Hv1.
  pose proof (BInv_link [] s c p B Hc Hp Hgc) as B1.
  assert (F1 : bn_frame s s1) by apply bn_frame_link.
  assert (St1 : Sta s1) by (apply (Sta_bn_frame s s1 F1 St)).
  assert (Hpar1 : parents (nd s1 c) = decl (nd s1 c)).
  { unfold s1. rewrite parents_nd_link by exact Hc. rewrite decide_True, decl_nd_link by reflexivity. exact Hpar. }
  assert (Hchi1 : children (nd s1 p) = children (nd s p) ++ [c]).
  { unfold s1. rewrite children_nd_link by exact Hp. rewrite decide_True by reflexivity. reflexivity. }
  assert (Hg1 : forall m, inGraph (nd s1 m) = inGraph (nd s m)) by (intros; apply inGraph_nd_link).
  assert (Hh1 : forall m, height (nd s1 m) = height (nd s m)) by (intros; apply height_nd_link).
  assert (HpX : p ∉ [c]) by (intros Hx; apply elem_of_list_singleton in Hx; contradiction).
  (* the preconditions of making the input necessary *)
  assert (Pre : isNecessary (nd s p) = false ->
            has s1 p /\ inGraph (nd s1 p) = false /\ isNecessary (nd s1 p) = true /\
            (forall x, x ∈ children (nd s1 p) -> x ∈ [c]) /\
            (forall b, scope (nd s1 p) = Some b -> inGraph (nd s1 b) = true) /\
            (forall x, x ∈ [c] -> exists m, dreach s1 x m /\ p ∈ decl (nd s1 m))).
  { intros Enec. assert (Hgp : inGraph (nd s p) = false) by (rewrite (b_nec _ _ B p HpX); exact Enec).
    split; [apply has_link, Hp|]. split; [rewrite Hg1; exact Hgp|]. split.
    { apply isNecessary_true. right; left. rewrite Hchi1. intros E. apply app_eq_nil in E as [_ E]. discriminate. }
    split.
    { intros x. rewrite Hchi1. destruct (b_zero2 _ _ B p HpX Hgp) as [-> _]. intros ->%elem_of_list_singleton. left. }
    split.
    { intros b. rewrite Hg1. unfold s1. rewrite scope_nd_link. apply Hsregp. }
    intros x ->%elem_of_list_singleton. exists c. split; [apply dr_refl|]. unfold s1. rewrite decl_nd_link. exact Hpd. }
  apply nc_ebind.
  { destruct (isNecessary (nd s p)) eqn:Enec; [apply nc_Ok|].
    destruct (Pre eq_refl) as (P1 & P2 & P3 & P4 & P5 & P6).
    apply (nc_BN fuel s1 p [c] St1 B1 P1 P2 P3 Hv1 P4 P5 P6). }
  intros s2 H2.
  assert (Mid : BInv [c] s2 /\ bn_frame s1 s2 /\ nd s2 c = nd s1 c /\ invq s2 = invq s1 /\
                inGraph (nd s2 p) = true /\
                (forall m, inGraph (nd s1 m) = true -> height (nd s2 m) = height (nd s1 m))).
  { destruct (isNecessary (nd s p)) eqn:Enec.
    - apply ok_inv in H2 as [-> _].
      assert (Hgp : inGraph (nd s p) = true) by (rewrite (b_nec _ _ B p HpX); exact Enec).
      split; [|split; [apply bn_frame_refl|repeat split; auto]]; [|rewrite Hg1; exact Hgp].
      apply (BInv_close [c] s1 p B1).
      + rewrite Hg1, Hgp. discriminate.
      + rewrite Hg1, Hgp. symmetry. apply isNecessary_true. right; left. rewrite Hchi1.
        intros E. apply app_eq_nil in E as [_ E]. discriminate.
      + intros _. split.
        * unfold s1. rewrite parents_nd_link by exact Hc. rewrite decide_False by exact Hpc.
          rewrite decl_nd_link. apply (b_par _ _ B p HpX Hgp).
        * apply (good_h_ext s s1); auto; unfold s1; autorewrite with eng; try reflexivity.
          -- rewrite parents_nd_link by exact Hc. rewrite decide_False by exact Hpc. reflexivity.
          -- apply (b_height _ _ B p HpX Hgp).
    - destruct (Pre eq_refl) as (P1 & P2 & P3 & P4 & P5 & P6).
      pose proof (BN_spec_all fuel s1 p [c] s2 None St1 B1 P1 P2 P3 Hv1 P4 P5 P6 H2) as Post'.
      destruct (BN_frame fuel s1 p s2 None H2) as [F2 T2].
      destruct Post' as [Q1 Q2 Q3 Q4 Q5 Q6].
      split; [exact Q1|]. split; [exact F2|]. split; [|split; [exact Q2|split; [exact Q3|exact Q4]]].
      apply T2. intros Hr. apply Hnpc. apply (dreach_ext s1 s); [|exact Hr].
      intros m. unfold s1. rewrite decl_nd_link. reflexivity. }
  destruct Mid as (B2 & F2 & Ec2 & Iq2 & Gp2 & Hh2).
  assert (F02 : bn_frame s s2) by (eapply bn_frame_trans; eauto).
  assert (St2 : Sta s2) by (apply (Sta_bn_frame s s2 F02 St)).
  assert (Hidle2 : adj_idle s2) by (apply (adj_idle_bn s s2 F02 Hidle)).
  assert (Hshape2 : shape_ok s2).
  { destruct Hshape as [A1 A2]. split; rewrite ?(bf_byHeight _ _ F02), (bf_maxHeight _ _ F02); assumption. }
  assert (Hq2 : invq s2 = []) by (rewrite Iq2; unfold s1; rewrite invq_link; exact Hq0).
  assert (Hgc2 : inGraph (nd s2 c) = true) by (rewrite Ec2, Hg1; exact Hgc).
  assert (Hhc2 : height (nd s2 c) = height (nd s c)) by (rewrite Ec2; apply Hh1).
  assert (Hpar2 : parents (nd s2 c) = decl (nd s2 c)).
  { rewrite Ec2. exact Hpar1. }
  assert (Hparc2 : parents (nd s2 c) = parents (nd s c) ++ [p]).
  { rewrite Ec2. unfold s1. rewrite parents_nd_link by exact Hc. rewrite decide_True by reflexivity. reflexivity. }
  assert (Hnc2 : isNecessary (nd s2 c) = true).
  { rewrite Ec2. rewrite <- Hnc. apply isNecessary_ext; unfold s1; autorewrite with eng; auto.
    rewrite children_nd_link by exact Hp. rewrite decide_False by congruence. reflexivity. }
  assert (Hold : forall q, q ∈ parents (nd s c) -> height (nd s2 q) = height (nd s q)).
  { intros q Hq. rewrite Hh2, Hh1; [reflexivity|]. rewrite Hg1.
    apply (BInv_parent_registered [c] s c q B Hq). intros Hx%elem_of_list_singleton. subst q.
    apply (no_cycle s c c St (dr_refl s c)). rewrite <- Hpar. apply elem_of_app. left. exact Hq. }
  assert (Hmh2 : maxHeight s2 = maxHeight s) by (rewrite (bf_maxHeight _ _ F02); reflexivity).
  assert (Hscc2 : scope (nd s2 c) = scope (nd s c)) by apply (bf_static _ _ F02 c).
  assert (Hsch2 : scopeHeight s2 (scope (nd s2 c)) = scopeHeight s (scope (nd s c))).
  { rewrite Hscc2. unfold scopeHeight. destruct (scope (nd s c)) as [b|] eqn:Eb; [|reflexivity].
    rewrite Hh2, Hh1; [reflexivity|]. rewrite Hg1. apply (b_sreg _ _ B c b Hgc Eb). }
  (* heights *)
  assert (Adj : nocrash (if height (nd s2 p) >=? height (nd s2 c) then adjustHeights fuel s2 c p else ok s2) /\
                forall s3, (if height (nd s2 p) >=? height (nd s2 c) then adjustHeights fuel s2 c p else ok s2) = Ok (s3, None) ->
                  BInv [] s3 /\ invq s3 = [] /\ inGraph (nd s3 c) = true).
  { destruct (Z.geb_spec (height (nd s2 p)) (height (nd s2 c))) as [Hge|Hlt].
    - set (Pop := fun x => height (nd s2 c) <= height (nd s2 x)).
      assert (HI : HInv Pop (fun m q => m = c /\ q = p) noEx s2).
      { destruct Hidle2 as (I1 & I2 & I3). constructor.
        - intros m Hm. destruct (decide (m = c)) as [->|Hmc]; [rewrite Hhc2, Hmh2; exact Hrange|].
          apply (b_height _ _ B2 m); [intros Hx%elem_of_list_singleton; contradiction|exact Hm].
        - intros m q Hm Hq _ Hex. destruct (decide (m = c)) as [->|Hmc].
          + rewrite Hparc2, elem_of_app, elem_of_list_singleton in Hq. destruct Hq as [Hq| ->]; [|exfalso; apply Hex; auto].
            rewrite Hhc2, (Hold q Hq). apply Hlow, Hq.
          + apply (b_height _ _ B2 m); [intros Hx%elem_of_list_singleton; contradiction|exact Hm|exact Hq].
        - intros m b Hm Hb _ _. destruct (decide (m = c)) as [->|Hmc].
          + pose proof Hscope as Hs. rewrite <- Hsch2, Hb in Hs. simpl in Hs. rewrite Hhc2. exact Hs.
          + destruct (b_height _ _ B2 m ltac:(intros Hx%elem_of_list_singleton; contradiction) Hm) as (_ & _ & Hs).
            rewrite Hb in Hs. exact Hs.
        - intros m Hm. apply (b_zero1 _ _ B2 m Hm).
        - destruct (b_heap _ _ B2) as [E1 E2]. split; [exact E1|]. intros n Hn. destruct (E2 n Hn). auto.
        - apply adj_idle_ok. repeat split; assumption.
        - intros x Hx. rewrite I3 in Hx. congruence. }
      assert (AS : AStat Pop s2).
      { apply (AStat_of Pop [c] s2 St2 B2).
        - intros x ->%elem_of_list_singleton. split; [rewrite Hgc2, Hnc2; reflexivity|].
          intros q. rewrite Hpar2. auto.
        - intros n b. rewrite (bf_has _ _ F02). destruct (bf_static _ _ F02 n) as (_ & _ & -> & -> & _).
          unfold inGen, bd. rewrite (bf_binds _ _ F02). intros Hn Hs Hno Hpb.
          destruct (Hdead n b Hn Hs Hno) as [Hv|[Hgb Hhb]]; [exact Hv|]. exfalso. unfold Pop in Hpb.
          rewrite Hhc2 in Hpb. rewrite Hh2, Hh1 in Hpb by (rewrite Hg1; exact Hgb). lia.
        - intros c' q Hpq Hgc' [Hc'|Hc'].
          + destruct (decide (c' = c)) as [->|Hne]; [unfold Pop; lia|].
            apply (edges_parent_child s2 c' q (b_edges _ _ B2)) in Hc'.
            pose proof (h_par _ _ _ _ HI c' q Hgc' Hc' (proj2 (proj2 Hidle2) q)) as Hlt.
            unfold Pop in *. assert (height (nd s2 q) < height (nd s2 c')); [|lia].
            apply Hlt. intros [? _]. contradiction.
          + pose proof (h_scope _ _ _ _ HI c' q Hgc' Hc' (proj2 (proj2 Hidle2) q)) as Hlt.
            unfold Pop in *. assert (height (nd s2 q) < height (nd s2 c')); [|lia]. apply Hlt. intros []. }
      split; [apply (nc_adjustHeights Pop fuel s2 c p AS HI Hidle2 Hshape2 Hgc2 ltac:(congruence) ltac:(unfold Pop; lia))|].
      intros s3 H3.
      pose proof (adjustHeights_spec Pop fuel s2 c p s3 None AS HI Hgc2 ltac:(congruence) ltac:(unfold Pop; lia) H3) as (R1 & R2 & R3).
      destruct (HInv_done Pop s3 R1 R2) as (D1 & D2 & D3 & D4 & D5).
      split; [|split; [rewrite (af_invq _ _ R3); exact Hq2|destruct (af_node _ _ R3 c) as (_&_&_&_&_&_&_&_&->&_); exact Hgc2]].
      apply (BInv_after_adjust [c] s2 s3 B2 R3 D4 D5).
      + intros m. apply (h_zero _ _ _ _ R1).
      + intros x ->%elem_of_list_singleton. auto.
    - split; [apply nc_Ok|]. intros s3 [-> _]%ok_inv. split; [|split; [exact Hq2|exact Hgc2]].
      apply (BInv_close [] s2 c B2).
      + rewrite Hgc2. discriminate.
      + rewrite Hgc2, Hnc2. reflexivity.
      + intros _. split; [exact Hpar2|]. split; [rewrite Hhc2, Hmh2; exact Hrange|]. split.
        * intros q. rewrite Hparc2, elem_of_app, elem_of_list_singleton. intros [Hq| ->]; [|exact Hlt].
          rewrite Hhc2, (Hold q Hq). apply Hlow, Hq.
        * rewrite Hsch2, Hhc2. exact Hscope. }
  destruct Adj as [Adj1 Adj2].
  apply nc_ebind; [exact Adj1|]. intros s3 H3. destruct (Adj2 s3 H3) as (B3 & Hq3 & Hgc3).
  assert (Hprop : forall k, propagateInvalidity k s3 = OutOfFuel \/ propagateInvalidity k s3 = Ok s3).
  { intros [|k]; [left; reflexivity|right; apply (propagateInvalidity_nil k s3 Hq3)]. }
  apply nc_ebind.
  { apply nc_lift. destruct (Hprop fuel) as [-> | ->]; [apply nc_fuel|apply nc_Ok]. }
  intros s4 H4. apply lift_inv in H4 as [H4 _].
  assert (E4 : s4 = s3) by (destruct (Hprop fuel) as [E|E]; rewrite E in H4; congruence). subst s4.
  destruct (_ || _); [|apply nc_Ok]. apply nc_lift.
  apply nc_heapAddIfNotPresent; [apply (b_heap _ _ B3)|].
  destruct (b_height _ _ B3 c ltac:(intros Hx; inversion Hx) Hgc3) as (A & _). lia.
Qed.

Lemma Rest_ac_frame s s' :
  ac_frame s s' -> invq s' = [] -> adj_idle s' ->
  (forall m, inGraph (nd s' m) = true -> valid (nd s' m) = true) ->
  Rest s -> Rest s'.
Proof.
  intros F Hq (I1 & I2 & I3) Hvr R.
  destruct R as [r_ids0 r_binds0 r_kinds0 r_scopes0 r_scoping0 r_vtop0 r_vdead0 r_vgen0 r_quiet0 r_shape0 r_stamps0 r_inval0].
  assert (Hk : forall n, nkind (nd s' n) = nkind (nd s n)) by (intros n; apply (cf_static _ _ F n)).
  assert (Hd : forall n, decl (nd s' n) = decl (nd s n)) by (intros n; apply (cf_static _ _ F n)).
  assert (Hsc : forall n, scope (nd s' n) = scope (nd s n)) by (intros n; apply (cf_static _ _ F n)).
  assert (Hv : forall n, valid (nd s' n) = valid (nd s n)) by (intros n; apply (cf_static _ _ F n)).
  assert (Hf : forall n, forceNec (nd s' n) = forceNec (nd s n)) by (intros n; apply (cf_static _ _ F n)).
  assert (Hbd : forall b, bd s' b = bd s b) by (intros b; unfold bd; rewrite (cf_binds _ _ F); reflexivity).
  constructor.
  - apply (ids_ok_ext s s'); auto; apply F.
  - apply (binds_wf_ext s s'); auto; apply F.
  - apply (kinds_ok_ext s s'); auto; apply F.
  - apply (scopes_ok_ext s s'); auto; apply F.
  - apply (scoping_ok_ext s s'); auto; apply F.
  - intros n. rewrite Hsc, Hv. auto.
  - intros n b. rewrite (cf_has _ _ F), Hsc, Hv. unfold inGen. rewrite Hbd. intros H1 H2 H3.
    destruct (r_vdead0 n b H1 H2 H3) as [H4 H5]. split; [exact H4|].
    destruct (inGraph (nd s' n)) eqn:E; [|reflexivity]. apply Hvr in E. rewrite Hv in E. congruence.
  - intros n b. unfold inGen. rewrite Hbd, !Hv. apply r_vgen0.
  - destruct r_quiet0 as [q_anum0 q_invq0 q_status0 q_setDuring0 q_setRemoved0 q_handlers0 q_force0 q_hadj0 q_by0]. split; auto.
    + rewrite (cf_status _ _ F). assumption.
    + rewrite (cf_setDuring _ _ F). assumption.
    + rewrite (cf_setRemoved _ _ F). assumption.
    + rewrite (cf_handlers _ _ F). assumption.
    + intros n. rewrite Hf. auto.
  - destruct r_shape0 as [A B]. split; [rewrite (cf_maxHeight _ _ F); exact A|].
    rewrite (cf_len _ _ F), (cf_maxHeight _ _ F). exact B.
  - destruct r_stamps0 as [S1 S2]. split; rewrite (cf_stabNum _ _ F); [exact S1|].
    intros n. destruct (cf_static _ _ F n) as (_&_&_&_&_&_& -> & -> & -> &_). apply S2.
  - intros n. rewrite Hv. destruct (cf_log _ _ F) as (l & -> & Hl). rewrite (nec_inval l n Hl). auto.
Qed.

(** ** AddInput *)
Definition is_addinput (o : op) : bool := match o with AddInput _ _ => true | _ => false end.

Lemma addinput_setup s n a fn :
  Inv s -> has s n -> nkind (nd s n) = KMapN fn ->
  match nkind (nd s a) with KBindLhs _ => False | _ => True end ->
  scope (nd s n) = None -> has s a -> scope (nd s a) = None -> (a < n)%nat ->
  let s1 := upd s n (set decl (fun l => l ++ [a])) in
  Rest s1 /\ BInv [n] s1.
Proof.
  intros HI Hn Hkn Hnla Hscn Ha Hsca Hlt s1.
  pose proof (Inv_TInv s HI) as T. pose proof (Inv_Rest s HI) as R. pose proof (Inv_sreg s HI) as Hsreg.
  assert (Hnd : forall m, nd s1 m = if decide (m = n) then set decl (fun l => l ++ [a]) (nd s n) else nd s m).
  { intros m. unfold s1. apply nd_upd, Hn. }
  assert (Hfield : forall {A} (g : node -> A), (forall x f, g (set decl f x) = g x) -> forall m, g (nd s1 m) = g (nd s m)).
  { intros A g Hg' m. rewrite Hnd. destruct (decide (m = n)) as [->|]; [apply Hg'|reflexivity]. }
  assert (Hdecl : forall m, decl (nd s1 m) = if decide (m = n) then decl (nd s n) ++ [a] else decl (nd s m)).
  { intros m. rewrite Hnd. destruct (decide (m = n)); reflexivity. }
  assert (Hhas : forall m, has s1 m <-> has s m) by (intros m; apply (has_upd s n)).
  assert (Hsc : forall m, scope (nd s1 m) = scope (nd s m)) by (apply Hfield; reflexivity).
  assert (Hk : forall m, nkind (nd s1 m) = nkind (nd s m)) by (apply Hfield; reflexivity).
  assert (Hv : forall m, valid (nd s1 m) = valid (nd s m)) by (apply Hfield; reflexivity).
  assert (Hg : forall m, inGraph (nd s1 m) = inGraph (nd s m)) by (apply Hfield; reflexivity).
  assert (R1 : Rest s1).
  { destruct R as [r_ids0 r_binds0 r_kinds0 r_scopes0 r_scoping0 r_vtop0 r_vdead0 r_vgen0 r_quiet0 r_shape0 r_stamps0 r_inval0].
    constructor.
    - destruct r_ids0 as [I1 I2]. split; [intros m Hm; apply I1, Hhas, Hm|].
      intros m q. rewrite Hdecl, Hhas. destruct (decide (m = n)) as [->|]; [|apply I2].
      rewrite elem_of_app, elem_of_list_singleton. intros [Hq| ->]; [eapply I2, Hq|exact Ha].
    - intros b r Hr. apply (bind_wf_mono' s s1); auto; try (intros; apply Hhas; assumption).
      + rewrite Hdecl. rewrite decide_False; [reflexivity|]. intros <-.
        rewrite (bw_kind_lhs s b r (r_binds0 b r Hr)) in Hkn. discriminate.
      + rewrite Hdecl. rewrite decide_False; [reflexivity|]. intros <-.
        rewrite (bw_kind_main s b r (r_binds0 b r Hr)) in Hkn. discriminate.
    - apply (kinds_ok_ext s s1); auto.
    - apply (scopes_ok_ext s s1); auto.
    - destruct r_scoping0 as [S1 S2 S3 S4 S5 S6 S7]. split;
        [| | | |intros m q b0; rewrite Hdecl, Hk; destruct (decide (m = n)) as [->|]; [|apply S5];
                rewrite elem_of_app, elem_of_list_singleton; intros [Hq| ->] Hkq; [apply (S5 n q b0 Hq Hkq)|rewrite Hkq in Hnla; destruct Hnla]
        |intros b q b0; rewrite Hk; apply S6|intros b b1; rewrite Hk; apply S7].
      + intros m q. rewrite Hdecl, !Hsc, Hk. destruct (decide (m = n)) as [->|]; [|apply S1].
        rewrite elem_of_app, elem_of_list_singleton. intros [Hq| ->]; [apply S1, Hq|left; exact Hsca].
      + intros m q b. rewrite Hdecl, !Hsc. destruct (decide (m = n)) as [->|]; [|apply S2].
        intros _ E. congruence.
      + intros b q. rewrite Hsc. apply S3.
      + destruct S4 as (own & O1 & O2 & O3). exists own.
        assert (O1' : own_ok own s1) by (apply (own_ok_ext own s s1); auto).
        assert (Hsc1 : scopes_ok s1) by (apply (scopes_ok_ext s s1); auto).
        assert (Hon : own n = None).
        { destruct (own n) as [b|] eqn:E; [|reflexivity]. destruct (O1 n b E) as (_&_&_&_&_&G). rewrite Hkn in G. destruct G. }
        split; [exact O1'|]. split.
        * intros m q. rewrite Hdecl. destruct (decide (m = n)) as [->|].
          -- rewrite elem_of_app, elem_of_list_singleton. intros [Hq| ->]; [apply (gmu_lt_ext own s s1 Hsc), O2, Hq|].
             intros tq dq tn dn Cq Cn.
             pose proof (gchain_top_le own s1 Hsc1 O1' a tq dq Cq) as Hle.
             apply gchain_plain in Cn as [-> ->]; [|rewrite Hsc; exact Hscn|exact Hon]. left. lia.
          -- intros Hq. apply (gmu_lt_ext own s s1 Hsc), O2, Hq.
        * intros b r x q Hr Hq. apply (gmu_lt_ext own s s1 Hsc), (O3 b r x q Hr Hq).
    - intros m. rewrite Hsc, Hv. auto.
    - intros m b. rewrite Hhas, Hsc, Hv, Hg. apply r_vdead0.
    - intros m b. rewrite !Hv. apply r_vgen0.
    - apply (quiet_ext s s1); auto; apply Hfield; reflexivity.
    - apply (shape_ok_ext s s1); auto.
    - apply (stamps_ok_ext s s1); auto; apply Hfield; reflexivity.
    - intros m. rewrite Hv. apply r_inval0. }
  (* the dynamic clauses of s1, with n open *)
  assert (B1 : BInv [n] s1).
  { pose proof (TInv_BInv s T Hsreg) as B0.
    destruct B0 as [b_edges0 b_zero10 b_zero20 b_nec0 b_par0 b_height0 b_heap0 b_count0 b_obs0 b_valid0 b_sreg0 b_log0 b_life0].
    assert (Hnil : forall m : nid, m ∉ []) by (intros m Hm; inversion Hm).
    constructor.
    - apply (edges_ok_ext s s1); auto; apply Hfield; reflexivity.
    - intros m. rewrite Hg, (Hfield _ parents), (Hfield _ height) by reflexivity. apply b_zero10.
    - intros m _. rewrite Hg, (Hfield _ children), (Hfield _ observers) by reflexivity. apply b_zero20, Hnil.
    - intros m _. rewrite Hg, (isNecessary_ext (nd s1 m) (nd s m)); try (apply Hfield; reflexivity). apply b_nec0, Hnil.
    - intros m Hm. rewrite Hg, (Hfield _ parents), Hdecl by reflexivity.
      rewrite decide_False by (intros ->; apply Hm; left). apply b_par0, Hnil.
    - intros m _. rewrite Hg. intros Hgm.
      apply (good_h_ext s s1); auto; try (apply Hfield; reflexivity); try apply (b_height0 m (Hnil m) Hgm).
    - apply (heap_ok_ext s s1); auto; apply Hfield; reflexivity.
    - apply (count_ok_ext s s1); auto.
    - apply (obs_ok_ext s s1); auto; try (apply Hfield; reflexivity).
    - intros m. rewrite Hg, Hv. apply b_valid0.
    - intros m b. rewrite !Hg, Hsc. apply b_sreg0.
    - exact b_log0.
    - intros m. rewrite Hg. apply b_life0. }
  split; [exact R1|exact B1].
Qed.

Theorem Inv_step_addinput s o s' e :
  Inv s -> op_ok s o = true -> op_clean s o = true -> is_addinput o = true ->
  step s o = Ok (s', e) -> e <> Some ECycle -> e <> Some EHeightLimit -> Inv s'.
Proof.
  intros HI Hok Hcl Hgo Hstep He1 He2. destruct o as [| | | | | | | | | | | | | | |n a| | | |]; try discriminate.
  simpl in Hstep, Hok, Hcl.
  apply andb_true_iff in Hok as [Hn Hua]. apply isMapN_true in Hn as [Hn [fn Hkn]].
  apply isUserNode_true in Hua as [_ Hnla].
  apply andb_true_iff in Hcl as [[Htn Hta]%andb_true_iff Hlt].
  apply isTop_true in Htn as [_ Hscn]. apply isTop_true in Hta as [Ha Hsca]. apply Nat.ltb_lt in Hlt.
  unfold addInput in Hstep.
  set (s1 := upd s n (set decl (fun l => l ++ [a]))) in *.
  pose proof (Inv_TInv s HI) as T. pose proof (Inv_Rest s HI) as R. pose proof (Inv_sreg s HI) as Hsreg.
  assert (Hnd : forall m, nd s1 m = if decide (m = n) then set decl (fun l => l ++ [a]) (nd s n) else nd s m).
  { intros m. unfold s1. apply nd_upd, Hn. }
  assert (Hfield : forall {A} (g : node -> A), (forall x f, g (set decl f x) = g x) -> forall m, g (nd s1 m) = g (nd s m)).
  { intros A g Hg' m. rewrite Hnd. destruct (decide (m = n)) as [->|]; [apply Hg'|reflexivity]. }
  assert (Hdecl : forall m, decl (nd s1 m) = if decide (m = n) then decl (nd s n) ++ [a] else decl (nd s m)).
  { intros m. rewrite Hnd. destruct (decide (m = n)); reflexivity. }
  assert (Hhas : forall m, has s1 m <-> has s m) by (intros m; apply (has_upd s n)).
  assert (Hsc : forall m, scope (nd s1 m) = scope (nd s m)) by (apply Hfield; reflexivity).
  assert (Hk : forall m, nkind (nd s1 m) = nkind (nd s m)) by (apply Hfield; reflexivity).
  assert (Hv : forall m, valid (nd s1 m) = valid (nd s m)) by (apply Hfield; reflexivity).
  assert (Hg : forall m, inGraph (nd s1 m) = inGraph (nd s m)) by (apply Hfield; reflexivity).
  destruct (addinput_setup s n a fn HI Hn Hkn Hnla Hscn Ha Hsca Hlt) as [R1 B1]. fold s1 in R1, B1.
  rewrite (Hfield _ height) in Hstep by reflexivity.
  destruct (Z.eqb_spec (height (nd s n)) unset) as [Hu|Hu].
  - (* n is not registered *)
    apply ok_inv in Hstep as [-> _].
    assert (Hgn : inGraph (nd s n) = false).
    { destruct (inGraph (nd s n)) eqn:E; [|reflexivity]. destruct (inv_height s HI n E) as ((A & _) & _). unfold unset in Hu. lia. }
    apply TInv_Rest_Inv; [|exact R1]. apply BInv_TInv. apply (BInv_close [] s1 n B1).
    + rewrite Hg, (Hfield _ children), (Hfield _ observers) by reflexivity. intros _.
      destruct (inv_zero s HI n Hgn) as (_ & ? & ? & _). auto.
    + rewrite Hg, (isNecessary_ext (nd s1 n) (nd s n)); try (apply Hfield; reflexivity). apply (inv_nec s HI n).
    + rewrite Hg, Hgn. discriminate.
  - (* n is registered *)
    assert (Hgn : inGraph (nd s n) = true).
    { destruct (inGraph (nd s n)) eqn:E; [reflexivity|]. destruct (inv_zero s HI n E) as (_ & _ & _ & ?). contradiction. }
    destruct (inv_height s HI n Hgn) as (Hr & Hlow & Hscope).
    assert (St1 : Sta s1).
    { destruct R1. split; auto. apply valid_closed; auto. }
    apply ebind_inv in Hstep as (s2 & e2 & H2 & Hrest).
    assert (Hidle1 : adj_idle s1).
    { destruct (inv_quiet s HI). repeat split; auto. intros m. rewrite (Hfield _ hAdj) by reflexivity. auto. }
    pose proof (addChild_spec (opFuel s1) s1 n a s2 e2 St1 B1 Hidle1 (q_invq s (inv_quiet s HI))) as AC.
    assert (AC' : match e2 with None => BInv [] s2 /\ ac_frame s1 s2 /\ invq s2 = [] /\ adj_idle s2 | Some x => adj_err x end).
    { apply AC; auto.
      - intros m b Hm Hs Hno. left. apply (r_vdead s1 R1 m b Hm Hs Hno).
      - apply Hhas, Hn.
      - apply Hhas, Ha.
      - rewrite Hg. exact Hgn.
      - rewrite (isNecessary_ext (nd s1 n) (nd s n)); try (apply Hfield; reflexivity). rewrite <- (inv_nec s HI n). exact Hgn.
      - rewrite Hv. apply (vo_top s (inv_valid s HI)), Hsca.
      - rewrite (Hfield _ parents), Hdecl, decide_True by reflexivity. rewrite (inv_par s HI n Hgn). reflexivity.
      - rewrite (Hfield _ height) by reflexivity. exact Hr.
      - rewrite Hsc, (Hfield _ height), (scopeHeight_ext s s1) by (try reflexivity; apply Hfield; reflexivity). exact Hscope.
      - intros q. rewrite (Hfield _ parents), !(Hfield _ height) by reflexivity. apply Hlow.
      - intros b. rewrite Hsc, Hsca. discriminate. }
    destruct e2 as [x|].
    { destruct Hrest as [[? _]|(_ & _ & ->)]; [discriminate|]. destruct AC' as [->| ->]; congruence. }
    destruct Hrest as [[_ H]|(Hne & _)]; [|congruence]. apply lift_inv in H as [H _].
    destruct AC' as (B2 & F2 & Hq2 & Hidle2).
    assert (R2 : Rest s2) by (apply (Rest_ac_frame s1 s2 F2 Hq2 Hidle2 (b_valid _ _ B2) R1)).
    pose proof (BInv_TInv s2 B2) as T2.
    destruct (setStale_spec s2 n s') as (V & Hk' & Hsd); try assumption.
    { apply Inv_hreg; apply T2. }
    { apply T2. }
    apply TInv_Rest_Inv.
    + apply (TInv_struct _ _ s2 s'); [apply V|apply V|exact Hk'|exact T2].
    + apply (Rest_var_step s2 s' V Hsd R2).
Qed.

Theorem nc_step_addinput s o : Inv s -> op_ok s o = true -> op_clean s o = true -> is_addinput o = true -> nocrash (step s o).
Proof.
  intros HI Hok Hcl Hgo. destruct o as [| | | | | | | | | | | | | | |n a| | | |]; try discriminate.
  simpl in Hok, Hcl |- *.
  apply andb_true_iff in Hok as [Hn Hua]. apply isMapN_true in Hn as [Hn [fn Hkn]].
  apply isUserNode_true in Hua as [_ Hnla].
  apply andb_true_iff in Hcl as [[Htn Hta]%andb_true_iff Hlt].
  apply isTop_true in Htn as [_ Hscn]. apply isTop_true in Hta as [Ha Hsca]. apply Nat.ltb_lt in Hlt.
  unfold addInput.
  set (s1 := upd s n (set decl (fun l => l ++ [a]))) in *.
  pose proof (Inv_TInv s HI) as T. pose proof (Inv_Rest s HI) as R. pose proof (Inv_sreg s HI) as Hsreg.
  assert (Hnd : forall m, nd s1 m = if decide (m = n) then set decl (fun l => l ++ [a]) (nd s n) else nd s m).
  { intros m. unfold s1. apply nd_upd, Hn. }
  assert (Hfield : forall {A} (g : node -> A), (forall x f, g (set decl f x) = g x) -> forall m, g (nd s1 m) = g (nd s m)).
  { intros A g Hg' m. rewrite Hnd. destruct (decide (m = n)) as [->|]; [apply Hg'|reflexivity]. }
  assert (Hdecl : forall m, decl (nd s1 m) = if decide (m = n) then decl (nd s n) ++ [a] else decl (nd s m)).
  { intros m. rewrite Hnd. destruct (decide (m = n)); reflexivity. }
  assert (Hhas : forall m, has s1 m <-> has s m) by (intros m; apply (has_upd s n)).
  assert (Hsc : forall m, scope (nd s1 m) = scope (nd s m)) by (apply Hfield; reflexivity).
  assert (Hk : forall m, nkind (nd s1 m) = nkind (nd s m)) by (apply Hfield; reflexivity).
  assert (Hv : forall m, valid (nd s1 m) = valid (nd s m)) by (apply Hfield; reflexivity).
  assert (Hg : forall m, inGraph (nd s1 m) = inGraph (nd s m)) by (apply Hfield; reflexivity).
  destruct (addinput_setup s n a fn HI Hn Hkn Hnla Hscn Ha Hsca Hlt) as [R1 B1]. fold s1 in R1, B1.
  rewrite (Hfield _ height) by reflexivity.
  destruct (Z.eqb_spec (height (nd s n)) unset) as [Hu|Hu]; [apply nc_Ok|].
  assert (Hgn : inGraph (nd s n) = true).
  { destruct (inGraph (nd s n)) eqn:E; [reflexivity|]. destruct (inv_zero s HI n E) as (_ & _ & _ & ?). contradiction. }
  destruct (inv_height s HI n Hgn) as (Hr & Hlow & Hscope).
  assert (St1 : Sta s1).
  { destruct R1. split; auto. apply valid_closed; auto. }
  assert (Hidle1 : adj_idle s1).
  { destruct (inv_quiet s HI). repeat split; auto. intros m. rewrite (Hfield _ hAdj) by reflexivity. auto. }
  assert (Pre : forall (P : Prop),
     ((forall m b, has s1 m -> scope (nd s1 m) = Some b -> ~ inGen s1 b m ->
         valid (nd s1 m) = false \/ (inGraph (nd s1 b) = true /\ height (nd s1 b) < height (nd s1 n))) ->
      has s1 n -> has s1 a -> inGraph (nd s1 n) = true -> isNecessary (nd s1 n) = true -> valid (nd s1 a) = true ->
      parents (nd s1 n) ++ [a] = decl (nd s1 n) -> 0 <= height (nd s1 n) < maxHeight s1 ->
      scopeHeight s1 (scope (nd s1 n)) < height (nd s1 n) ->
      (forall q, q ∈ parents (nd s1 n) -> height (nd s1 q) < height (nd s1 n)) ->
      (forall b, scope (nd s1 a) = Some b -> inGraph (nd s1 b) = true) -> P) -> P).
  { intros P HP. apply HP.
    - intros m b Hm Hs Hno. left. apply (r_vdead s1 R1 m b Hm Hs Hno).
    - apply Hhas, Hn.
    - apply Hhas, Ha.
    - rewrite Hg. exact Hgn.
    - rewrite (isNecessary_ext (nd s1 n) (nd s n)); try (apply Hfield; reflexivity). rewrite <- (inv_nec s HI n). exact Hgn.
    - rewrite Hv. apply (vo_top s (inv_valid s HI)), Hsca.
    - rewrite (Hfield _ parents), Hdecl, decide_True by reflexivity. rewrite (inv_par s HI n Hgn). reflexivity.
    - rewrite (Hfield _ height) by reflexivity. exact Hr.
    - rewrite Hsc, (Hfield _ height), (scopeHeight_ext s s1) by (try reflexivity; apply Hfield; reflexivity). exact Hscope.
    - intros q. rewrite (Hfield _ parents), !(Hfield _ height) by reflexivity. apply Hlow.
    - intros b. rewrite Hsc, Hsca. discriminate. }
  apply Pre. intros P1 P2 P3 P4 P5 P6 P7 P8 P9 P10 P11.
  assert (Hsh1 : shape_ok s1) by (destruct (inv_shape s HI); split; assumption).
  apply nc_ebind.
  { apply (nc_addChild (opFuel s1) s1 n a St1 B1 Hidle1 Hsh1 (q_invq s (inv_quiet s HI)) P1 P2 P3 P4 P5 P6 P7 P8 P9 P10 P11). }
  intros s2 H2. apply nc_lift.
  destruct (addChild_spec (opFuel s1) s1 n a s2 None St1 B1 Hidle1 (q_invq s (inv_quiet s HI)) P1 P2 P3 P4 P5 P6 P7 P8 P9 P10 P11 H2) as (B2 & F2 & Hq2 & Hidle2).
  pose proof (BInv_TInv s2 B2) as T2.
  apply nc_setStale; [apply Inv_hreg; apply T2|apply T2].
Qed.

(** * The pass *)
(** ** the invariant between two recomputations of a pass *)
Record pquiet (s : state) : Prop := {
  pq_status : status s = 1;
  pq_invq : invq s = [];
  pq_adj : adj_idle s;
  pq_force : forall n, forceNec (nd s n) = false;
  pq_vars : forall v, v ∈ setDuring s \/ v ∈ setRemoved s -> exists e, nkind (nd s v) = KVar e
}.

Record PInv (s : state) : Prop := {
  p_t : TInv [] noE s;
  p_ids : ids_ok s;
  p_binds : binds_wf s;
  p_kinds : kinds_ok s;
  p_scopes : scopes_ok s;
  p_scoping : scoping_ok s;
  p_vtop : forall n, scope (nd s n) = None -> valid (nd s n) = true;
  p_vdead : forall n b, has s n -> scope (nd s n) = Some b -> ~ inGen s b n ->
    valid (nd s n) = false /\ inGraph (nd s n) = false;
  p_vgen : forall n b, inGen s b n -> valid (nd s n) = valid (nd s b);
  p_pq : pquiet s;
  p_shape : shape_ok s;
  p_stamps : stamps_ok s;
  p_inval : forall n, valid (nd s n) = false <-> EvInval n ∈ log s
}.

(* events a recomputation may log *)
Definition ev_benign (s : state) (e : event) : Prop :=
  match e with
  | EvNec _ | EvUnnec _ | EvInval _ => False
  | EvInvoked n _ _ | EvCutoff n _ _ _ | EvBindFn n _ _ => inGraph (nd s n) = true
  | _ => True
  end.

Lemma lastNU_benign s l l' n : Forall (ev_benign s) l -> lastNU (l ++ l') n = lastNU l' n.
Proof.
  induction l as [|e l IH]; intros H; [reflexivity|].
  apply stdpp.list.Forall_cons in H as [He Hl]. simpl. destruct e; simpl in He; try contradiction; apply IH, Hl.
Qed.

Lemma benign_inval s l l' n : Forall (ev_benign s) l -> (EvInval n ∈ l ++ l' <-> EvInval n ∈ l').
Proof.
  intros Hl. rewrite elem_of_app. split; [|auto]. intros [H|H]; [|exact H].
  rewrite stdpp.list.Forall_forall in Hl. specialize (Hl _ H). contradiction.
Qed.

Lemma log_ok_benign s l l' :
  Forall (ev_benign s) l -> (forall n, inGraph (nd s n) = true -> lastNU l' n = Some true) ->
  (forall n, inGraph (nd s n) = true -> EvInval n ∉ l') ->
  log_ok l' -> log_ok (l ++ l').
Proof.
  intros Hl Hreg Hinv Hok. induction l as [|e l IH]; [exact Hok|].
  apply stdpp.list.Forall_cons in Hl as [He Hl]. simpl. split; [|apply IH, Hl].
  destruct e; simpl in *; try contradiction; try exact I;
    (split; [rewrite (lastNU_benign s l l' _ Hl); apply Hreg, He|rewrite (benign_inval s l l' _ Hl); apply Hinv, He]).
Qed.

Lemma PInv_soft s s' l :
  PInv s -> same_struct s s' -> log s' = l ++ log s -> Forall (ev_benign s) l ->
  heap_ok s' -> stamps_ok s' -> status s' = status s ->
  (forall v, v ∈ setDuring s' \/ v ∈ setRemoved s' -> exists e, nkind (nd s v) = KVar e) ->
  PInv s'.
Proof.
  intros [T Iids Ibinds Ikinds Iscopes Iscoping V1 V2 V3 [Q1 Q2 Q3 Q4 Q5] Ishape Istamps Iinval]
         HS Hlog Hl Hk Hst Hstatus Hvars.
  destruct HS as [Snext Sbinds Shas Sreg Sobs Sadj Sinvq Snum Smh Snode].
  assert (Hk' : forall n, nkind (nd s' n) = nkind (nd s n)) by (intros n; apply Snode).
  assert (Hd : forall n, decl (nd s' n) = decl (nd s n)) by (intros n; apply Snode).
  assert (Hsc : forall n, scope (nd s' n) = scope (nd s n)) by (intros n; apply Snode).
  assert (Hh : forall n, height (nd s' n) = height (nd s n)) by (intros n; apply Snode).
  assert (Hhj : forall n, hAdj (nd s' n) = hAdj (nd s n)) by (intros n; apply Snode).
  assert (Hp : forall n, parents (nd s' n) = parents (nd s n)) by (intros n; apply Snode).
  assert (Hc : forall n, children (nd s' n) = children (nd s n)) by (intros n; apply Snode).
  assert (Ho : forall n, observers (nd s' n) = observers (nd s n)) by (intros n; apply Snode).
  assert (Hv : forall n, valid (nd s' n) = valid (nd s n)) by (intros n; apply Snode).
  assert (Hf : forall n, forceNec (nd s' n) = forceNec (nd s n)) by (intros n; apply Snode).
  assert (Hg : forall n, inGraph (nd s' n) = inGraph (nd s n)) by (intros n; apply Snode).
  assert (Hbd : forall b, bd s' b = bd s b) by (intros b; unfold bd; rewrite Sbinds; reflexivity).
  assert (Hnec : forall n, isNecessary (nd s' n) = isNecessary (nd s n)) by (intros; apply isNecessary_ext; auto).
  destruct T as [t_edges0 t_zero0 t_nec0 t_necE0 t_W0 t_par0 t_height0 t_heap0 t_count0 t_obs0 t_valid0 t_log0 t_life0 t_lifeW0 t_nodup0].
  assert (Hnil : forall m : nid, m ∉ []) by (intros m Hm; inversion Hm).
  constructor.
  - constructor.
    + apply (edges_ok_ext s s'); auto.
    + apply (zero_ok_ext s s'); auto.
    + intros n. rewrite Hg, Hnec. apply t_nec0.
    + intros n [].
    + intros w Hw. inversion Hw.
    + intros n. rewrite Hg, Hp, Hd. apply t_par0.
    + apply (height_ok_ext s s'); auto.
    + exact Hk.
    + apply (count_ok_ext s s'); auto.
    + apply (obs_ok_ext s s'); auto.
    + intros n. rewrite Hg, Hv. apply t_valid0.
    + rewrite Hlog. apply (log_ok_benign s); auto; [intros n Hn; apply (t_life0 n (Hnil n)), Hn|].
      intros n Hn Hx. apply Iinval in Hx. rewrite (t_valid0 n Hn) in Hx. discriminate.
    + intros n _. rewrite Hg, Hlog, (lastNU_benign s l _ n Hl). apply t_life0, Hnil.
    + intros w Hw. inversion Hw.
    + constructor.
  - apply (ids_ok_ext s s'); auto.
  - apply (binds_wf_ext s s'); auto.
  - apply (kinds_ok_ext s s'); auto.
  - apply (scopes_ok_ext s s'); auto.
  - apply (scoping_ok_ext s s'); auto.
  - intros n. rewrite Hsc, Hv. auto.
  - intros n b. rewrite Shas, Hsc, Hv, Hg. unfold inGen. rewrite Hbd. apply V2.
  - intros n b. unfold inGen. rewrite Hbd, !Hv. apply V3.
  - split.
    + rewrite Hstatus. exact Q1.
    + rewrite Sinvq. exact Q2.
    + destruct Q3 as (A & B & C). split; [rewrite Sadj; exact A|]. split; [rewrite Sadj; exact B|].
      intros m. rewrite Hhj. apply C.
    + intros n. rewrite Hf. apply Q4.
    + intros v Hv'. rewrite Hk'. apply Hvars, Hv'.
  - apply (shape_ok_ext s s'); auto.
  - exact Hst.
  - intros n. rewrite Hv, Hlog, (benign_inval s l _ n Hl). apply Iinval.
Qed.

(** ** steps that keep the structure: stamps, values, the heap, handlers, the log *)
Definition vars_in (s : state) (s0 : state) : Prop :=
  forall v, v ∈ setDuring s \/ v ∈ setRemoved s -> exists e, nkind (nd s0 v) = KVar e.

Record soft (s s' : state) : Prop := {
  so_struct : same_struct s s';
  so_stabNum : stabNum s' = stabNum s;
  so_status : status s' = status s;
  so_log : exists l, log s' = l ++ log s /\ Forall (ev_benign s) l;
  so_stamps : stamps_ok s -> stamps_ok s';
  so_vars : vars_in s s -> vars_in s' s;
  so_heap : heap_ok s -> hreg_ok s -> heap_ok s'
}.

Lemma ev_benign_struct s s' e : same_struct s s' -> ev_benign s' e -> ev_benign s e.
Proof.
  intros HS. destruct e; simpl; auto; intros H;
    match goal with |- inGraph (nd s ?n) = true => destruct (ss_node s s' HS n) as (_&_&_&_&_&_&_&_&_&_&<-) end; exact H.
Qed.

Lemma soft_refl s : soft s s.
Proof.
  split; auto; [apply same_struct_refl|]. exists []. split; [reflexivity|constructor].
Qed.

Lemma soft_trans s1 s2 s3 : soft s1 s2 -> soft s2 s3 -> soft s1 s3.
Proof.
  intros A B. split.
  - eapply same_struct_trans; [apply A|apply B].
  - rewrite (so_stabNum _ _ B). apply A.
  - rewrite (so_status _ _ B). apply A.
  - destruct (so_log _ _ A) as (l1 & E1 & F1), (so_log _ _ B) as (l2 & E2 & F2).
    exists (l2 ++ l1). rewrite E2, E1, app_assoc. split; [reflexivity|]. apply Forall_app. split; [|exact F1].
    eapply List.Forall_impl; [|exact F2]. intros e. apply ev_benign_struct, A.
  - intros H. apply B, A, H.
  - intros H v Hv.
    assert (H2 : vars_in s2 s2).
    { intros w Hw. destruct (so_vars _ _ A H w Hw) as [e He]. exists e.
      destruct (ss_node _ _ (so_struct _ _ A) w) as (-> & _). exact He. }
    destruct (so_vars _ _ B H2 v Hv) as [e He]. exists e.
    destruct (ss_node _ _ (so_struct _ _ A) v) as (<- & _). exact He.
  - intros H1 H2. apply B; [apply A; assumption|]. apply (hreg_ok_struct s1 s2 (so_struct _ _ A) H2).
Qed.

Lemma PInv_of_soft s s' : PInv s -> soft s s' -> PInv s'.
Proof.
  intros P S. destruct (so_log _ _ S) as (l & El & Fl).
  apply (PInv_soft s s' l P (so_struct _ _ S) El Fl).
  - apply S; [apply (t_heap _ _ _ (p_t s P))|]. apply Inv_hreg; apply (p_t s P).
  - apply S, P.
  - apply S.
  - apply (so_vars _ _ S). intros v Hv. apply (pq_vars s (p_pq s P) v Hv).
Qed.

Definition stamp_bounded (k : Z) (x : node) : Prop :=
  0 <= recomputedAt x <= k /\ 0 <= changedAt x <= k /\ 0 <= setAt x <= k.

Lemma soft_upd s n f :
  (forall x, struct_eq (f x) x) ->
  (forall x, 1 <= stabNum s -> stamp_bounded (stabNum s) x -> stamp_bounded (stabNum s) (f x)) ->
  soft s (upd s n f).
Proof.
  intros Hf Hb. split; try reflexivity; auto.
  - apply same_struct_upd, Hf.
  - exists []. split; [reflexivity|constructor].
  - intros [S1 S2]. split; [exact S1|]. intros m. change (stabNum (upd s n f)) with (stabNum s).
    destruct (decide (has s n)) as [Hn|Hn]; [|rewrite upd_missing by exact Hn; apply S2].
    rewrite nd_upd by exact Hn. destruct (decide (m = n)) as [->|]; [|apply S2].
    apply (Hb (nd s n) S1 (S2 n)).
  - intros [H1 H2] _. split; [exact H1|]. intros m Hm.
    destruct (ss_node _ _ (same_struct_upd s n f Hf) m) as (_&_&_&->&_&_&_&_&_&_&->). apply H2, Hm.
Qed.

Lemma same_struct_nodes s s' :
  nodes s' = nodes s -> next s' = next s -> binds s' = binds s -> reg s' = reg s -> obs s' = obs s ->
  adj s' = adj s -> invq s' = invq s -> numNodes s' = numNodes s -> maxHeight s' = maxHeight s ->
  same_struct s s'.
Proof.
  intros Hn. split; auto.
  - intros n. unfold has. rewrite Hn. reflexivity.
  - intros n. unfold nd. rewrite Hn. apply struct_eq_refl.
Qed.

Lemma soft_emit s e : ev_benign s e -> soft s (emit e s).
Proof.
  intros He. split; try reflexivity.
  - apply same_struct_nodes; reflexivity.
  - exists [e]. split; [reflexivity|]. constructor; [exact He|constructor].
  - apply stamps_ok_ext; reflexivity.
  - intros H; exact H.
  - intros H _; exact H.
Qed.

Lemma soft_handlers s l : soft s (s <| handlers := l |>).
Proof.
  split; try reflexivity.
  - apply same_struct_nodes; reflexivity.
  - exists []. split; [reflexivity|constructor].
  - apply stamps_ok_ext; reflexivity.
  - intros H; exact H.
  - intros H _; exact H.
Qed.

Lemma soft_only_heap s s' : only_heap s s' -> (heap_ok s -> hreg_ok s -> heap_ok s') -> soft s s'.
Proof.
  intros F Hk. split; auto.
  - apply same_struct_only_heap, F.
  - apply (oh_stabNum _ _ F).
  - apply (oh_status _ _ F).
  - exists []. split; [apply (oh_log _ _ F)|constructor].
  - apply stamps_ok_ext; [apply (oh_stabNum _ _ F)| | |]; intros m; rewrite (oh_nd _ _ F); reflexivity.
  - intros H v. rewrite (oh_setDuring _ _ F), (oh_setRemoved _ _ F). apply H.
Qed.

(* queueing succeeded: the node has a height, hence it is registered *)
Lemma soft_heapAddIfNotPresent s n s' : heapAddIfNotPresent s n = Ok s' -> soft s s'.
Proof.
  intros H. apply soft_only_heap; [apply (only_heap_heapAddIfNotPresent s n s' H)|].
  intros Hk Hr. unfold heapAddIfNotPresent in H. destruct (inHeap s n) eqn:Em; [injection H as <-; exact Hk|].
  assert (Hh : 0 <= height (nd s n)).
  { destruct (Z.ltb_spec (height (nd s n)) 0) as [Hneg|]; [|assumption].
    rewrite (heapAdd_negative s n Hneg) in H. discriminate. }
  destruct (Hr n ltac:(unfold unset; lia)) as [Hg _].
  apply (heap_ok_heapAdd s n s' Hk Em Hg Hh H).
Qed.

Lemma soft_heapAdd s n s' : inHeap s n = false -> heapAdd s n = Ok s' -> soft s s'.
Proof.
  intros Em H. apply (soft_heapAddIfNotPresent s n s'). unfold heapAddIfNotPresent. rewrite Em. exact H.
Qed.

Lemma isVar_kind s v : isVar s v = true -> exists e, nkind (nd s v) = KVar e.
Proof. intros H. apply isVar_true in H as [_ H]. exact H. Qed.

Lemma elem_of_insert_sorted' x n l : x ∈ insert_sorted n l -> x = n \/ x ∈ l.
Proof. apply elem_of_insert_sorted. Qed.

Lemma varSet_soft s v x s' :
  status s = 1 -> isVar s v = true -> varSet s v x = Ok s' -> soft s s'.
Proof.
  intros Hst Hv H. unfold varSet in H. destruct (_ && _ && _); [injection H as <-; apply soft_refl|].
  rewrite Hst in H. simpl in H. injection H as <-.
  eapply soft_trans; [apply (soft_upd s v (set pending (fun _ => Some x)))|].
  - intros y. repeat split.
  - intros y _ Hb. exact Hb.
  - set (s1 := upd s v (set pending (fun _ => Some x))).
    split; try reflexivity.
    + apply same_struct_nodes; reflexivity.
    + exists []. split; [reflexivity|constructor].
    + apply stamps_ok_ext; reflexivity.
    + intros H w. cbn. intros [Hw|Hw]; [|apply H; right; exact Hw].
      apply elem_of_insert_sorted' in Hw as [->|Hw]; [|apply H; left; exact Hw].
      destruct (isVar_kind s v Hv) as [e He]. exists e. unfold s1. rewrite nd_upd_proj by reflexivity. exact He.
    + intros H _; exact H.
Qed.

Lemma varUpdate_soft s v d s' :
  status s = 1 -> isVar s v = true -> varUpdate s v d = Ok s' -> soft s s'.
Proof. unfold varUpdate. apply varSet_soft. Qed.

Lemma isVar_struct s s' v : same_struct s s' -> isVar s v = true -> isVar s' v = true.
Proof.
  intros HS H. apply isVar_true in H as [Hh [e He]]. unfold isVar.
  apply (ss_has s s' HS) in Hh. rewrite (has_lookup s' v Hh).
  destruct (ss_node s s' HS v) as (-> & _). rewrite He. reflexivity.
Qed.

Lemma plan_ok_struct s s' p : same_struct s s' -> plan_ok s p = true -> plan_ok s' p = true.
Proof.
  intros HS. unfold plan_ok. rewrite !forallb_forall. intros H x Hx. specialize (H x Hx).
  destruct x as [[n w] a]. destruct a; auto; apply (isVar_struct s s' _ HS H).
Qed.

Definition acts_ok (s : state) (acts : list action) : Prop :=
  forall a, a ∈ acts -> match a with ASet v _ | AUpdate v _ => isVar s v = true | AFail _ => True end.

Lemma acts_ok_of_plan s p n w : plan_ok s p = true -> acts_ok s (actions_of p n w).
Proof.
  intros H a Ha. unfold actions_of in Ha. apply elem_of_list_omap in Ha as ([[m w'] a'] & Hin & Hsome).
  unfold plan_ok in H. rewrite forallb_forall in H. apply elem_of_list_In in Hin. specialize (H _ Hin). simpl in H.
  destruct ((m =? n)%nat && which_eqb w w'); [|discriminate]. injection Hsome as <-.
  destruct a'; [exact I|exact H|exact H].
Qed.

Lemma applyActions_soft acts : forall s s' f0 f,
  status s = 1 -> acts_ok s acts ->
  rfold (fun '(s, f) a =>
           match f with
           | Some _ => Ok (s, f)
           | None =>
             match a with
             | AFail k => Ok (s, Some k)
             | ASet v x => s <-! varSet s v x; Ok (s, None)
             | AUpdate v d => s <-! varUpdate s v d; Ok (s, None)
             end
           end) acts (s, f0) = Ok (s', f) -> soft s s'.
Proof.
  induction acts as [|a acts IH]; intros s s' f0 f Hst Hok H; simpl in H.
  - injection H as <- _. apply soft_refl.
  - apply rbind_ok in H as ([s1 f1] & H1 & H).
    assert (S1 : soft s s1).
    { destruct f0; [injection H1 as <- _; apply soft_refl|]. destruct a as [k|v x|v d].
      - injection H1 as <- _. apply soft_refl.
      - apply rbind_ok in H1 as (s2 & H2 & [= <- _]). apply (varSet_soft s v x s2 Hst); [|exact H2].
        apply (Hok (ASet v x)). left.
      - apply rbind_ok in H1 as (s2 & H2 & [= <- _]). apply (varUpdate_soft s v d s2 Hst); [|exact H2].
        apply (Hok (AUpdate v d)). left. }
    eapply soft_trans; [exact S1|]. apply (IH s1 s' f1 f); [rewrite (so_status _ _ S1); exact Hst| |exact H].
    intros a' Ha'. specialize (Hok a' ltac:(right; exact Ha')).
    destruct a'; auto; apply (isVar_struct s s1 _ (so_struct _ _ S1) Hok).
Qed.

Lemma invoke_soft p s n w s' e :
  status s = 1 -> plan_ok s p = true -> invoke p s n w = Ok (s', e) -> soft s s'.
Proof.
  intros Hst Hp H. unfold invoke in H. apply rbind_ok in H as ([s1 f] & H1 & H).
  assert (S1 : soft s s1).
  { unfold applyActions in H1. apply (applyActions_soft (actions_of p n w) s s1 None f Hst); [|exact H1].
    apply acts_ok_of_plan, Hp. }
  destruct f as [[|]|]; injection H as <- _; try exact S1;
    (eapply soft_trans; [exact S1|apply soft_emit; exact I]).
Qed.

(* user functions: the variable writes they perform never fault *)
Lemma PInv_hreg s : PInv s -> hreg_ok s /\ heap_ok s.
Proof. intros P. pose proof (p_t s P) as T. split; [apply Inv_hreg; apply T|apply T]. Qed.

Lemma nc_applyActions acts : forall s f0,
  hreg_ok s -> heap_ok s ->
  nocrash (rfold (fun '(s, f) a =>
           match f with
           | Some _ => Ok (s, f)
           | None =>
             match a with
             | AFail k => Ok (s, Some k)
             | ASet v x => s <-! varSet s v x; Ok (s, None)
             | AUpdate v d => s <-! varUpdate s v d; Ok (s, None)
             end
           end) acts (s, f0)).
Proof.
  induction acts as [|a acts IH]; intros s f0 Hr Hk; simpl; [apply nc_Ok|].
  apply nc_rbind.
  - destruct f0; [apply nc_Ok|]. destruct a as [k|v x|v d]; [apply nc_Ok| |].
    + apply nc_rbind; [apply nc_varSet; assumption|intros; apply nc_Ok].
    + apply nc_rbind; [apply nc_varUpdate; assumption|intros; apply nc_Ok].
  - intros [s1 f1] E. destruct f0; [injection E as <- <-; apply IH; assumption|].
    destruct a as [k|v x|v d].
    + injection E as <- <-. apply IH; assumption.
    + apply rbind_ok in E as (s2 & H2 & [= <- <-]).
      destruct (varSet_spec s v x s2 Hr Hk H2) as (V & Hk2 & _).
      apply IH; [apply (hreg_ok_struct s s2 (vs_struct _ _ V) Hr)|exact Hk2].
    + apply rbind_ok in E as (s2 & H2 & [= <- <-]).
      destruct (varUpdate_spec s v d s2 Hr Hk H2) as (V & Hk2 & _).
      apply IH; [apply (hreg_ok_struct s s2 (vs_struct _ _ V) Hr)|exact Hk2].
Qed.

Lemma nc_invoke p s n w : hreg_ok s -> heap_ok s -> nocrash (invoke p s n w).
Proof.
  intros Hr Hk. unfold invoke. apply nc_rbind.
  - unfold applyActions. apply nc_applyActions; assumption.
  - intros [s1 f] _. destruct f as [[|]|]; apply nc_Ok.
Qed.

(** ** recomputing one node *)
Definition rejected_err (e : option err) : Prop := e = Some ECycle \/ e = Some EHeightLimit.

(** what the pass needs from the stabilization of a bind's lhs-change node *)
Definition bind_spec (Q : state -> Prop) : Prop := forall fuel p s b s' e,
  Q s -> PInv s -> plan_ok s p = true -> nkind (nd s b) = KBindLhs b -> inGraph (nd s b) = true ->
  bindLhsStabilize fuel p s b = Ok (s', e) ->
  rejected_err e \/ (PInv s' /\ plan_ok s' p = true /\ stabNum s' = stabNum s /\ Q s').

Lemma soft_value s n v : soft s (upd s n (set value (fun _ => v))).
Proof. apply soft_upd; intros x; [repeat split|auto]. Qed.

Section pass.
  Context (Q : state -> Prop) (HQ : forall s s', same_struct s s' -> Q s -> Q s') (HB : bind_spec Q).

  Lemma stabilizeNode_spec fuel p s n s' e :
    Q s -> PInv s -> plan_ok s p = true -> inGraph (nd s n) = true ->
    stabilizeNode fuel p s n = Ok (s', e) ->
    rejected_err e \/ (PInv s' /\ plan_ok s' p = true /\ stabNum s' = stabNum s /\ Q s').
  Proof.
    intros Hq P Hp Hg H. unfold stabilizeNode in H.
    assert (Hst : status s = 1) by apply (pq_status s (p_pq s P)).
    assert (Fin : forall s1, soft s s1 -> rejected_err e \/ (PInv s1 /\ plan_ok s1 p = true /\ stabNum s1 = stabNum s /\ Q s1)).
    { intros s1 S. right. split; [apply (PInv_of_soft s s1 P S)|].
      split; [apply (plan_ok_struct s s1 p (so_struct _ _ S) Hp)|]. split; [apply S|apply (HQ s s1 (so_struct _ _ S) Hq)]. }
    assert (Hinv : forall s1 e1 r (f : Z -> list Z) args,
              invoke p s n WFn = Ok (s1, e1) ->
              match e1 with
              | Some e0 => fail s1 e0
              | None => ok (emit (EvInvoked n args r) (upd s1 n (set value (fun _ => r))))
              end = Ok (s', e) -> rejected_err e \/ (PInv s' /\ plan_ok s' p = true /\ stabNum s' = stabNum s /\ Q s')).
    { intros s1 e1 r _ args H1 H2. pose proof (invoke_soft p s n WFn s1 e1 Hst Hp H1) as S1.
      destruct e1 as [e0|].
      - apply fail_inv in H2 as [-> ->]. apply Fin, S1.
      - apply ok_inv in H2 as [-> ->]. apply Fin.
        eapply soft_trans; [exact S1|]. eapply soft_trans; [apply soft_value|].
        apply soft_emit. simpl. rewrite nd_upd_proj by reflexivity.
        destruct (ss_node _ _ (so_struct _ _ S1) n) as (_&_&_&_&_&_&_&_&_&_&->). exact Hg. }
    destruct (nkind (nd s n)) as [eqv| |f|f|f|c| |b|b] eqn:Ek.
    - destruct (pending (nd s n)) as [v|].
      + destruct (recomputedAt (nd s n) =? stabNum s); apply ok_inv in H as [-> ->]; apply Fin; [apply soft_refl|].
        apply soft_upd; intros x; [repeat split|auto].
      + apply ok_inv in H as [-> ->]. apply Fin, soft_refl.
    - apply ok_inv in H as [-> ->]. apply Fin, soft_refl.
    - apply rbind_ok in H as ([s1 e1] & H1 & H2). eapply (Hinv s1 e1 _ (fun _ => []) _ H1 H2).
    - apply rbind_ok in H as ([s1 e1] & H1 & H2). eapply (Hinv s1 e1 _ (fun _ => []) _ H1 H2).
    - apply rbind_ok in H as ([s1 e1] & H1 & H2). eapply (Hinv s1 e1 _ (fun _ => []) _ H1 H2).
    - apply ok_inv in H as [-> ->]. apply Fin, soft_value.
    - apply ok_inv in H as [-> ->]. apply Fin, soft_refl.
    - assert (b = n) as ->.
      { pose proof (p_kinds s P n (has_inGraph s n Hg)) as K. rewrite Ek in K. symmetry. apply K. }
      apply (HB fuel p s n s' e Hq P Hp Ek Hg H).
    - apply ok_inv in H as [-> ->]. apply Fin, soft_value.
  Qed.

  Lemma soft_errorHandlers s n : soft s (errorHandlers s n).
  Proof.
    unfold errorHandlers. destruct (nkind (nd s n)) as [| | | | | | |b|b];
      try (apply soft_emit; exact I).
    apply (soft_trans _ (emit (EvErrH (b_main (bd s b))) s)); apply soft_emit; exact I.
  Qed.

  Lemma recomputeFailed_soft s n prev s' :
    0 <= prev <= stabNum s -> recomputeFailed s n prev = Ok s' -> soft s s'.
  Proof.
    intros Hprev H. unfold recomputeFailed in H.
    eapply soft_trans; [|apply (soft_heapAddIfNotPresent _ _ _ H)].
    apply soft_upd; intros x; [repeat split|]. intros _ (A & B & C). repeat split; cbn; try lia; apply B || apply C.
  Qed.

  (* the children loop: hold one child back, queue the rest *)
  Lemma childrenLoop_spec s n s' held :
    PInv s -> childrenLoop s n = Ok (s', held) ->
    soft s s' /\ (forall h, held = Some h -> inHeap s' h = false /\ inGraph (nd s' h) = true).
  Proof.
    intros P H. unfold childrenLoop in H.
    pose (I := fun (rest : list nid) (st : state * option nid) =>
      soft s st.1 /\ (forall c, c ∈ rest -> inGraph (nd s c) = true) /\
      (forall h, st.2 = Some h -> inHeap st.1 h = false /\ inGraph (nd s h) = true)).
    assert (HI : I [] (s', held)).
    { eapply (rfold_inv I); [| |exact H].
      - split; [apply soft_refl|]. split; [|discriminate].
        intros c Hc. apply (child_registered s c n (t_edges _ _ _ (p_t s P)) (t_zero _ _ _ (p_t s P)) Hc).
      - clear H. intros c rest [st h0] [st1 h1] (S & Hreg & Hh) Hstep. cbn [fst snd] in *.
        assert (Hreg' : forall c', c' ∈ rest -> inGraph (nd s c') = true) by (intros c' Hc'; apply Hreg; right; exact Hc').
        assert (Same : I rest (st, h0)) by (split; [exact S|split; [exact Hreg'|exact Hh]]).
        revert Hstep. destruct (bool_decide_reflect (h0 = Some c)) as [|Hneq]; [intros [= <- <-]; exact Same|].
        destruct (shouldRecomputeChild st c) eqn:Esh; simpl; [|intros [= <- <-]; exact Same]. intros Hstep.
        assert (Hcm : inHeap st c = false).
        { unfold shouldRecomputeChild in Esh. destruct (inHeap st c); [discriminate|reflexivity]. }
        apply rbind_ok in Hstep as (st2 & H2 & [= <- <-]).
        destruct h0 as [h|].
        + destruct (Hh h eq_refl) as [Hhm Hhg].
          pose proof (soft_heapAdd st h st2 Hhm H2) as S2.
          split; [eapply soft_trans; eauto|]. split; [exact Hreg'|].
          intros h' [= <-]. split; [|apply Hreg; left].
          assert (Pst : PInv st) by (apply (PInv_of_soft s st P S)).
          destruct (t_heap _ _ _ (p_t st Pst)) as [Hi _].
          assert (Hh0 : 0 <= height (nd st h)).
          { destruct (Z.ltb_spec (height (nd st h)) 0) as [Hneg|]; [|assumption].
            rewrite (heapAdd_negative st h Hneg) in H2. discriminate. }
          destruct (heapAdd_spec st h st2 Hi Hhm Hh0 H2) as (_ & I2 & Pm & _).
          apply (inHeap_false_iff st2 c I2). rewrite Pm. rewrite not_elem_of_cons. split.
          * intros ->. congruence.
          * apply (inHeap_false_iff st c Hi), Hcm.
        + injection H2 as <-. split; [exact S|]. split; [exact Hreg'|].
          intros h' [= <-]. split; [exact Hcm|apply Hreg; left]. }
    destruct HI as (S & _ & Hh). cbn [fst snd] in *. split; [exact S|].
    intros h Eh. destruct (Hh h Eh) as [A B]. split; [exact A|].
    destruct (ss_node _ _ (so_struct _ _ S) h) as (_&_&_&_&_&_&_&_&_&_&->). exact B.
  Qed.

  Lemma soft_insert_handlers s l : soft s (foldl (fun s o => insert_handler o s) s l).
  Proof.
    revert s. induction l as [|o l IH]; intros s; [apply soft_refl|]. simpl.
    eapply soft_trans; [|apply IH]. apply soft_handlers.
  Qed.

  Definition pass_ok (p : plan) (s0 s : state) : Prop :=
    PInv s /\ plan_ok s p = true /\ stabNum s = stabNum s0 /\ Q s.

  Lemma pass_ok_soft p s0 s s' : pass_ok p s0 s -> soft s s' -> pass_ok p s0 s'.
  Proof.
    intros (P & Hp & Hn & Hq) S. split; [apply (PInv_of_soft s s' P S)|].
    split; [apply (plan_ok_struct s s' p (so_struct _ _ S) Hp)|].
    split; [rewrite (so_stabNum _ _ S); exact Hn|apply (HQ s s' (so_struct _ _ S) Hq)].
  Qed.

  Lemma recomputeNodeSerial_spec fuel p s n s' e imm :
    Q s -> PInv s -> plan_ok s p = true -> inGraph (nd s n) = true ->
    recomputeNodeSerial fuel p s n = Ok (s', e, imm) ->
    rejected_err e \/ (pass_ok p s s' /\ forall c, imm = Some c -> inGraph (nd s' c) = true).
  Proof.
    intros Hq P Hp Hg H. unfold recomputeNodeSerial in H.
    assert (Hst : status s = 1) by apply (pq_status s (p_pq s P)).
    set (prev := recomputedAt (nd s n)) in *.
    assert (Hprev : 0 <= prev <= stabNum s) by apply (st_le s (p_stamps s P) n).
    set (s1 := upd s n (set recomputedAt (fun _ => stabNum s))) in *.
    assert (S1 : soft s s1).
    { apply soft_upd; intros x; [repeat split|]. intros Hk (A & B & C). repeat split; cbn; try lia; apply B || apply C. }
    assert (K0 : pass_ok p s s) by (split; [exact P|split; [exact Hp|split; [reflexivity|exact Hq]]]).
    assert (Hreg : forall st, soft s st -> inGraph (nd st n) = true).
    { intros st S. destruct (ss_node _ _ (so_struct _ _ S) n) as (_&_&_&_&_&_&_&_&_&_&->). exact Hg. }
    apply rbind_ok in H as ([[s2 e2] cut] & H2 & H).
    (* the cutoff phase: a soft step, never a rejection *)
    assert (C2 : soft s s2 /\ ~ rejected_err e2).
    { destruct (nkind (nd s n)) as [| | | | |c| | |] eqn:Ek; try (injection H2 as <- <- <-; split; [exact S1|intros [?|?]; discriminate]).
      apply rbind_ok in H2 as ([s3 e3] & H3 & H2).
      assert (Hst1 : status s1 = 1) by (rewrite (so_status _ _ S1); exact Hst).
      pose proof (invoke_soft p s1 n WCut s3 e3 Hst1 (plan_ok_struct s s1 p (so_struct _ _ S1) Hp) H3) as S3.
      assert (He3 : ~ rejected_err e3).
      { unfold invoke in H3. apply rbind_ok in H3 as ([s4 f] & _ & H3).
        destruct f as [[|]|]; injection H3 as _ <-; intros [?|?]; discriminate. }
      destruct e3 as [e0|]; injection H2 as <- <- <-.
      - split; [eapply soft_trans; eauto|exact He3].
      - split; [|intros [?|?]; discriminate]. eapply soft_trans; [exact S1|]. eapply soft_trans; [exact S3|].
        apply soft_emit. simpl. apply Hreg. eapply soft_trans; eauto. }
    destruct C2 as [S2 He2].
    assert (Hprev2 : forall st, soft s st -> 0 <= prev <= stabNum st) by (intros st S; rewrite (so_stabNum _ _ S); exact Hprev).
    (* failing: restore the stamp, queue again, run the error handlers *)
    assert (Fail : forall st e0 st', pass_ok p s st -> e0 <> None ->
               (s0 <-! recomputeFailed st n prev; Ok (errorHandlers s0 n, e0, @None nid)) = Ok (st', e, imm) ->
               pass_ok p s st' /\ forall c, imm = Some c -> inGraph (nd st' c) = true).
    { intros st e0 st' K Hne HF. apply rbind_ok in HF as (s0 & H0 & [= <- _ <-]).
      destruct K as (K1 & K2 & K3 & K4).
      split; [|discriminate]. apply (pass_ok_soft p s st); [split; auto|].
      eapply soft_trans; [apply (recomputeFailed_soft st n prev s0); [rewrite K3; exact Hprev|exact H0]|apply soft_errorHandlers]. }
    destruct e2 as [e0|].
    { destruct e0; try (right; refine (Fail s2 _ s' (pass_ok_soft p s s s2 K0 S2) _ H); discriminate);
        try (exfalso; apply He2; unfold rejected_err; auto; fail).
      cbn in H. injection H as <- <- <-. right. split; [apply (pass_ok_soft p s s s2 K0 S2)|discriminate]. }
    destruct cut.
    { injection H as <- <- <-. right. split; [apply (pass_ok_soft p s s s2 K0 S2)|discriminate]. }
    apply rbind_ok in H as ([s3 e3] & H3 & H).
    destruct (pass_ok_soft p s s s2 K0 S2) as (P2 & Hp2 & Hn2 & Hq2).
    destruct (stabilizeNode_spec fuel p s2 n s3 e3 Hq2 P2 Hp2 (Hreg s2 S2) H3) as [Hrej|(P3 & Hp3 & Hn3 & Hq3)].
    { destruct Hrej as [-> | ->]; apply rbind_ok in H as (s0 & _ & [= _ <- _]); left; unfold rejected_err; auto. }
    assert (K3 : pass_ok p s s3) by (split; [exact P3|split; [exact Hp3|split; [congruence|exact Hq3]]]).
    destruct e3 as [e0|].
    { destruct e0; try (right; refine (Fail s3 _ s' K3 _ H); discriminate).
      cbn in H. injection H as <- <- <-. right. split; [exact K3|discriminate]. }
    (* success: stamp, handlers, children *)
    set (s4 := insert_handler n (upd s3 n (set changedAt (fun _ => stabNum s3)))) in *.
    assert (S4 : soft s3 s4).
    { eapply soft_trans; [|apply soft_handlers].
      apply soft_upd; intros x; [repeat split|]. intros Hk (A & B & C). repeat split; cbn; try lia; apply A || apply C. }
    apply rbind_ok in H as ([s5 held] & H5 & H).
    destruct (childrenLoop_spec s4 n s5 held (PInv_of_soft s3 s4 P3 S4) H5) as [S5 Hheld].
    apply rbind_ok in H as ([s6 imm'] & H6 & H). injection H as <- <- <-.
    assert (S6 : soft s5 s6 /\ forall c, imm' = Some c -> inGraph (nd s6 c) = true).
    { destruct held as [h|]; [|injection H6 as <- <-; split; [apply soft_refl|discriminate]].
      destruct (Hheld h eq_refl) as [Hm Hgh].
      destruct (canRecomputeImmediately s5 n h).
      - injection H6 as <- <-. split; [apply soft_refl|]. intros c [= <-]. exact Hgh.
      - apply rbind_ok in H6 as (s7 & H7 & [= <- <-]). split; [apply (soft_heapAdd s5 h s7 Hm H7)|discriminate]. }
    destruct S6 as [S6 Himm]. right.
    assert (S36 : soft s3 (foldl (fun s o => insert_handler o s) s6 (observers (nd s6 n)))).
    { eapply soft_trans; [exact S4|]. eapply soft_trans; [exact S5|]. eapply soft_trans; [exact S6|apply soft_insert_handlers]. }
    split; [apply (pass_ok_soft p s s3 _ K3 S36)|].
    intros c Hc. specialize (Himm c Hc).
    destruct (ss_node _ _ (so_struct _ _ (soft_insert_handlers s6 (observers (nd s6 n)))) c) as (_&_&_&_&_&_&_&_&_&_&->).
    exact Himm.
  Qed.

  Lemma recomputeChain_spec fuel : forall p s0 s n s' e at_,
    pass_ok p s0 s -> inGraph (nd s n) = true ->
    recomputeChain fuel p s n = Ok (s', e, at_) ->
    rejected_err e \/ pass_ok p s0 s'.
  Proof.
    induction fuel as [|fuel IH]; intros p s0 s n s' e at_ (P & Hp & Hn & Hq) Hg H; [discriminate|].
    simpl in H. apply rbind_ok in H as ([[s1 e1] imm] & H1 & H).
    destruct (recomputeNodeSerial_spec fuel p s n s1 e1 imm Hq P Hp Hg H1) as [Hrej|[(P1 & Hp1 & Hn1 & Hq1) Himm]].
    { destruct Hrej as [-> | ->]; injection H as <- <- <-; left; unfold rejected_err; auto. }
    assert (K1 : pass_ok p s0 s1) by (split; [exact P1|split; [exact Hp1|split; [congruence|exact Hq1]]]).
    destruct e1 as [e0|]; [injection H as <- <- <-; right; exact K1|].
    destruct imm as [c|]; [|injection H as <- <- <-; right; exact K1].
    apply (IH p s0 s1 c s' e at_ K1 (Himm c eq_refl) H).
  Qed.
End pass.

(** ** the end of the pass *)
Record soft2 (s s' : state) : Prop := {
  s2_struct : same_struct s s';
  s2_log : exists l, log s' = l ++ log s /\ Forall (ev_benign s) l;
  s2_stamps : stamps_ok s -> stamps_ok s';
  s2_heap : heap_ok s -> hreg_ok s -> heap_ok s'
}.

Lemma soft_soft2 s s' : soft s s' -> soft2 s s'.
Proof. intros []. split; assumption. Qed.

Lemma soft2_refl s : soft2 s s.
Proof. apply soft_soft2, soft_refl. Qed.

Lemma soft2_trans s1 s2 s3 : soft2 s1 s2 -> soft2 s2 s3 -> soft2 s1 s3.
Proof.
  intros A B. split.
  - eapply same_struct_trans; [apply A|apply B].
  - destruct (s2_log _ _ A) as (l1 & E1 & F1), (s2_log _ _ B) as (l2 & E2 & F2).
    exists (l2 ++ l1). rewrite E2, E1, app_assoc. split; [reflexivity|]. apply Forall_app. split; [|exact F1].
    eapply List.Forall_impl; [|exact F2]. intros e. apply ev_benign_struct, A.
  - intros H. apply B, A, H.
  - intros H1 H2. apply B; [apply A; assumption|]. apply (hreg_ok_struct s1 s2 (s2_struct _ _ A) H2).
Qed.

(* changes of the pass bookkeeping only *)
Lemma soft2_book s s' :
  nodes s' = nodes s -> next s' = next s -> binds s' = binds s -> reg s' = reg s -> obs s' = obs s ->
  heap s' = heap s -> adj s' = adj s -> invq s' = invq s -> numNodes s' = numNodes s ->
  maxHeight s' = maxHeight s -> log s' = log s -> stabNum s <= stabNum s' ->
  soft2 s s'.
Proof.
  intros Hn Hnx Hb Hr Ho Hw Ha Hq Hnn Hm Hl Hs.
  assert (Hnd : forall m, nd s' m = nd s m) by (intros m; unfold nd; rewrite Hn; reflexivity).
  split.
  - apply same_struct_nodes; assumption.
  - exists []. split; [exact Hl|constructor].
  - intros [S1 S2]. split; [lia|]. intros m. rewrite Hnd. destruct (S2 m) as (?&?&?). repeat split; lia.
  - intros [H1 H2] _. unfold heap_ok. rewrite Hw. split; [exact H1|]. intros m. rewrite Hnd. apply H2.
Qed.

Lemma soft2_var_step s s' : var_step s s' -> (heap_ok s -> hreg_ok s -> heap_ok s') -> soft2 s s'.
Proof.
  intros V Hk. split; [apply V| |apply (stamps_ok_var s s' V)|exact Hk].
  exists []. split; [apply V|constructor].
Qed.

Lemma runHandlers_soft2 l : forall s,
  soft2 s (foldl (fun s k => match obs s !! k with
                             | Some n => emit (EvObsUpd k (valueOf s n)) s
                             | None => emit (EvUpd k) s
                             end) s l).
Proof.
  induction l as [|k l IH]; intros s; [apply soft2_refl|]. simpl.
  eapply soft2_trans; [|apply IH]. destruct (obs s !! k); apply soft_soft2, soft_emit; exact I.
Qed.

Lemma stabilizeNode_var fuel p s v e s1 x :
  nkind (nd s v) = KVar e -> stabilizeNode fuel p s v = Ok (s1, x) -> soft2 s s1.
Proof.
  intros Hk H. unfold stabilizeNode in H. rewrite Hk in H.
  destruct (pending (nd s v)); [destruct (_ =? _)|]; apply ok_inv in H as [-> _]; try apply soft2_refl.
  apply soft_soft2, soft_upd; intros y; [repeat split|auto].
Qed.

Lemma setStale_soft2 s n s' :
  setStale s n = Ok s' -> soft2 s s' /\ status s' = status s /\ handlers s' = handlers s.
Proof.
  intros H. pose proof H as H0. apply setStale_inv in H as [[_ ->]|[Hu H]]; [split; [apply soft2_refl|auto]|].
  cbn zeta in H. set (s1 := upd s n (set setAt (fun _ => stabNum s))) in *.
  assert (S1 : soft s s1).
  { apply soft_upd; intros y; [repeat split|]. intros Hk (A & B & C). repeat split; cbn; try lia; apply A || apply B. }
  assert (Hk : heap_ok s -> hreg_ok s -> heap_ok s').
  { intros Hk Hr. destruct (setStale_spec s n s' Hr Hk H0) as (_ & Hk1 & _). exact Hk1. }
  destruct H as [[_ ->]|[Hm H]].
  - split; [|auto]. destruct (soft_soft2 _ _ S1) as [A B C D]. split; assumption.
  - apply heapAdd_inv in H as (w & _ & ->). split; [|auto].
    destruct (soft_soft2 _ _ S1) as [A B C D]. split.
    + eapply same_struct_trans; [exact A|apply same_struct_only_heap, only_heap_set].
    + exact B.
    + intros Hs. specialize (C Hs). revert C. apply stamps_ok_ext; reflexivity.
    + exact Hk.
Qed.

Lemma applyDeferredSets_soft2 s s' :
  (forall v, v ∈ setRemoved s ++ setDuring s -> exists e, nkind (nd s v) = KVar e) ->
  applyDeferredSets s = Ok s' ->
  soft2 s s' /\ setDuring s' = [] /\ setRemoved s' = [] /\ status s' = status s /\ handlers s' = handlers s.
Proof.
  intros Hv H. unfold applyDeferredSets in H. apply rbind_ok in H as (s1 & H1 & [= <-]).
  set (f := fun s v => '(s, _) <-! stabilizeNode 0 [] s v; setStale s v) in *.
  assert (L : forall l st st', (forall v, v ∈ l -> exists e, nkind (nd st v) = KVar e) ->
                rfold f l st = Ok st' -> soft2 st st' /\ status st' = status st /\ handlers st' = handlers st).
  { induction l as [|v l IHl]; intros st st' Hl HR; simpl in HR.
    - injection HR as <-. split; [apply soft2_refl|auto].
    - apply rbind_ok in HR as (st1 & Hf & HR). unfold f in Hf.
      apply rbind_ok in Hf as ([st0 x] & H0 & Hf).
      destruct (Hl v ltac:(left)) as [e He].
      pose proof (stabilizeNode_var 0 [] st v e st0 x He H0) as S0.
      assert (B0 : status st0 = status st /\ handlers st0 = handlers st).
      { unfold stabilizeNode in H0. rewrite He in H0.
        destruct (pending (nd st v)); [destruct (_ =? _)|]; apply ok_inv in H0 as [-> _]; auto. }
      destruct (setStale_soft2 st0 v st1 Hf) as (S1 & B1 & B1').
      destruct (IHl st1 st') as (S2 & B2 & B2'); [|exact HR|].
      + intros v' Hv'. destruct (Hl v' ltac:(right; exact Hv')) as [e' He']. exists e'.
        destruct (ss_node _ _ (s2_struct _ _ (soft2_trans _ _ _ S0 S1)) v') as (-> & _). exact He'.
      + split; [eapply soft2_trans; [exact S0|eapply soft2_trans; eauto]|]. destruct B0. split; congruence. }
  destruct (L _ s s1 Hv H1) as (S & B & B').
  split; [|cbn; auto].
  eapply soft2_trans; [exact S|]. apply soft2_book; try reflexivity; cbn; lia.
Qed.

Lemma PInv_soft2_Inv s s' :
  PInv s -> soft2 s s' -> status s' = 0 -> setDuring s' = [] -> setRemoved s' = [] -> handlers s' = [] ->
  Inv s'.
Proof.
  intros [T Iids Ibinds Ikinds Iscopes Iscoping V1 V2 V3 [Q1 Q2 Q3 Q4 Q5] Ishape Istamps Iinval]
         [HS (l & Hlog & Hl) Hst Hk] Hstatus Hsd Hsr Hh.
  assert (Hheap : heap_ok s') by (apply Hk; [apply T|apply Inv_hreg; apply T]).
  destruct HS as [Snext Sbinds Shas Sreg Sobs Sadj Sinvq Snum Smh Snode].
  assert (Hk' : forall n, nkind (nd s' n) = nkind (nd s n)) by (intros n; apply Snode).
  assert (Hd : forall n, decl (nd s' n) = decl (nd s n)) by (intros n; apply Snode).
  assert (Hsc : forall n, scope (nd s' n) = scope (nd s n)) by (intros n; apply Snode).
  assert (Hh' : forall n, height (nd s' n) = height (nd s n)) by (intros n; apply Snode).
  assert (Hhj : forall n, hAdj (nd s' n) = hAdj (nd s n)) by (intros n; apply Snode).
  assert (Hp : forall n, parents (nd s' n) = parents (nd s n)) by (intros n; apply Snode).
  assert (Hc : forall n, children (nd s' n) = children (nd s n)) by (intros n; apply Snode).
  assert (Ho : forall n, observers (nd s' n) = observers (nd s n)) by (intros n; apply Snode).
  assert (Hv : forall n, valid (nd s' n) = valid (nd s n)) by (intros n; apply Snode).
  assert (Hf : forall n, forceNec (nd s' n) = forceNec (nd s n)) by (intros n; apply Snode).
  assert (Hg : forall n, inGraph (nd s' n) = inGraph (nd s n)) by (intros n; apply Snode).
  assert (Hbd : forall b, bd s' b = bd s b) by (intros b; unfold bd; rewrite Sbinds; reflexivity).
  assert (Hnec : forall n, isNecessary (nd s' n) = isNecessary (nd s n)) by (intros; apply isNecessary_ext; auto).
  destruct T as [t_edges0 t_zero0 t_nec0 t_necE0 t_W0 t_par0 t_height0 t_heap0 t_count0 t_obs0 t_valid0 t_log0 t_life0 t_lifeW0 t_nodup0].
  assert (Hnil : forall m : nid, m ∉ []) by (intros m Hm; inversion Hm).
  constructor.
  - apply (ids_ok_ext s s'); auto.
  - apply (binds_wf_ext s s'); auto.
  - apply (kinds_ok_ext s s'); auto.
  - apply (scopes_ok_ext s s'); auto.
  - apply (scoping_ok_ext s s'); auto.
  - split.
    + intros n. rewrite Hsc, Hv. auto.
    + intros n b. rewrite Shas, Hsc, Hv, Hg. unfold inGen. rewrite Hbd. apply V2.
    + intros n b. unfold inGen. rewrite Hbd, !Hv. apply V3.
    + intros n. rewrite Hg, Hv. apply t_valid0.
  - apply (edges_ok_ext s s'); auto.
  - apply (zero_ok_ext s s'); auto.
  - intros n. rewrite Hg, Hnec. apply t_nec0; [apply Hnil|intros []].
  - intros n. rewrite Hg, Hp, Hd. apply t_par0, Hnil.
  - apply (height_ok_ext s s'); auto.
  - exact Hheap.
  - apply (count_ok_ext s s'); auto.
  - apply (obs_ok_ext s s'); auto.
  - destruct Q3 as (A & B & C). split; auto.
    + rewrite Sadj. exact A.
    + rewrite Sinvq. exact Q2.
    + intros n. rewrite Hf. apply Q4.
    + intros n. rewrite Hhj. apply C.
    + rewrite Sadj. exact B.
  - apply (shape_ok_ext s s'); auto.
  - apply Hst, Istamps.
  - split.
    + rewrite Hlog. apply (log_ok_benign s); auto; [intros n Hn; apply (t_life0 n (Hnil n)), Hn|].
      intros n Hn Hx. apply Iinval in Hx. rewrite (t_valid0 n Hn) in Hx. discriminate.
    + intros n. rewrite Hg, Hlog, (lastNU_benign s l _ n Hl). apply t_life0, Hnil.
    + intros n. rewrite Hv, Hlog, (benign_inval s l _ n Hl). apply Iinval.
Qed.

Lemma stabilizeEnd_spec s e s' : PInv s -> stabilizeEnd s e = Ok s' -> Inv s' /\ same_struct s s'.
Proof.
  intros P H. unfold stabilizeEnd in H. apply rbind_ok in H as (s4 & H4 & [= <-]).
  set (s1 := emit (EvPassEnd (classify e)) s) in *.
  unfold runUpdateHandlers in H4.
  set (s2 := foldl _ (s1 <| status := 2 |>) (handlers (s1 <| status := 2 |>))) in *.
  set (s3 := s2 <| handlers := [] |> <| stabNum := stabNum (s2 <| handlers := [] |>) + 1 |>) in *.
  assert (S1 : soft2 s s1) by (apply soft_soft2, soft_emit; exact I).
  assert (S12 : soft2 s1 s2).
  { eapply soft2_trans; [|apply runHandlers_soft2]. apply soft2_book; try reflexivity; lia. }
  assert (S23 : soft2 s2 s3) by (apply soft2_book; try reflexivity; cbn; lia).
  assert (S03 : soft2 s s3) by (eapply soft2_trans; [exact S1|eapply soft2_trans; eauto]).
  assert (G : forall l st, setRemoved (foldl (fun s k => match obs s !! k with
                             | Some n => emit (EvObsUpd k (valueOf s n)) s
                             | None => emit (EvUpd k) s end) st l) = setRemoved st /\
                          setDuring (foldl (fun s k => match obs s !! k with
                             | Some n => emit (EvObsUpd k (valueOf s n)) s
                             | None => emit (EvUpd k) s end) st l) = setDuring st).
  { induction l as [|k l IHl]; intros st; [auto|]. simpl. destruct (IHl (match obs st !! k with
                             | Some n => emit (EvObsUpd k (valueOf st n)) st
                             | None => emit (EvUpd k) st end)) as [-> ->]. destruct (obs st !! k); auto. }
  assert (Hlists : setRemoved s3 = setRemoved s /\ setDuring s3 = setDuring s)
    by (exact (G (handlers (s1 <| status := 2 |>)) (s1 <| status := 2 |>))).
  destruct Hlists as [Er Ed].
  destruct (applyDeferredSets_soft2 s3 s4) as (S34 & Hd4 & Hr4 & Hst4 & Hh4); [|exact H4|].
  { intros v. rewrite Er, Ed, elem_of_app. intros Hv.
    destruct (pq_vars s (p_pq s P) v ltac:(tauto)) as [k Hk]. exists k.
    destruct (ss_node _ _ (s2_struct _ _ S03) v) as (-> & _). exact Hk. }
  assert (Sfin : soft2 s (s4 <| status := 0 |>)).
  { eapply soft2_trans; [exact S03|]. eapply soft2_trans; [exact S34|]. apply soft2_book; try reflexivity; lia. }
  split; [|apply Sfin].
  apply (PInv_soft2_Inv s _ P).
  - exact Sfin.
  - reflexivity.
  - exact Hd4.
  - exact Hr4.
  - cbn. rewrite Hh4. reflexivity.
Qed.

Section pass2.
  Context (Q : state -> Prop) (HQ : forall s s', same_struct s s' -> Q s -> Q s') (HB : bind_spec Q).

  Lemma passLoop_spec fuel : forall p s0 s always s' e at_ always',
    pass_ok Q p s0 s -> passLoop fuel p s always = Ok (s', e, at_, always') ->
    rejected_err e \/ pass_ok Q p s0 s'.
  Proof.
    induction fuel as [|fuel IH]; intros p s0 s always s' e at_ always' K H; [discriminate|].
    simpl in H. destruct (Heap.cnt (heap s) <=? 0); [injection H as <- <- _ _; right; exact K|].
    destruct (Heap.removeMin (heap s)) as [[n w]|] eqn:Erm; [|discriminate].
    set (s1 := s <| heap := w |>) in *.
    destruct K as (P & Hp & Hn & Hq).
    destruct (t_heap _ _ _ (p_t s P)) as [Hi Hqd].
    destruct (removeMin_spec (heap s) n w Hi Erm) as (Hi' & Pm & Hin).
    assert (Hnin : n ∈ Heap.ids (heap s)) by (rewrite Pm; left).
    destruct (Hqd n Hnin) as [Hgn _].
    assert (S1 : soft s s1).
    { apply soft_only_heap; [apply only_heap_set|]. intros _ _. split; [exact Hi'|].
      intros m Hm. assert (Hm' : m ∈ Heap.ids (heap s)) by (rewrite Pm; right; exact Hm).
      destruct (Hqd m Hm') as [A B]. split; [exact A|]. cbn. rewrite Hin.
      pose proof (inv_nodup _ (hinv_inv _ Hi)) as Hnd. rewrite Pm in Hnd.
      apply stdpp.list.NoDup_cons in Hnd as [Hnn _].
      rewrite decide_False by (intros ->; contradiction). exact B. }
    assert (K1 : pass_ok Q p s0 s1).
    { destruct (pass_ok_soft Q HQ p s s s1 ltac:(split; [exact P|split; [exact Hp|split; [reflexivity|exact Hq]]]) S1) as (A & B & C & D).
      split; [exact A|split; [exact B|split; [congruence|exact D]]]. }
    apply rbind_ok in H as ([[s2 e2] at2] & H2 & H).
    destruct (recomputeChain_spec Q HQ HB fuel p s0 s1 n s2 e2 at2 K1 Hgn H2) as [Hrej|K2].
    { destruct Hrej as [-> | ->]; injection H as <- <- _ _; left; unfold rejected_err; auto. }
    destruct e2 as [e0|]; [injection H as <- <- _ _; right; exact K2|].
    apply (IH p s0 s2 _ s' e at_ always' K2 H).
  Qed.

  Lemma requeue_always_soft l : forall s s',
    rfold (fun s n => if height (nd s n) =? unset then Ok s else heapAddIfNotPresent s n) l s = Ok s' ->
    soft s s'.
  Proof.
    induction l as [|n l IH]; intros s s' H; simpl in H; [injection H as <-; apply soft_refl|].
    apply rbind_ok in H as (s1 & H1 & H). eapply soft_trans; [|apply IH, H].
    destruct (height (nd s n) =? unset); [injection H1 as <-; apply soft_refl|apply (soft_heapAddIfNotPresent _ _ _ H1)].
  Qed.

End pass2.

Section pass3.
  Context (Q : state -> Prop) (HQ : forall s s', same_struct s s' -> Q s -> Q s') (HB : bind_spec Q).

  Lemma Inv_PInv_start s : Inv s -> PInv (emit EvPassStart (s <| status := 1 |>)).
  Proof.
    intros HI. set (s0 := s <| status := 1 |>).
    apply (PInv_of_soft s0); [|apply soft_emit; exact I].
    pose proof (Inv_TInv s HI) as T.
    destruct HI as [Iids Ibinds Ikinds Iscopes Iscoping Ivalid Iedges Izero Inec Ipar Iheight Iheap
                    Icount Iobs Iquiet Ishape Istamps Ilife].
    destruct Ivalid as [V1 V2 V3 V4]. destruct Ilife as [L1 L2 L3].
    destruct Iquiet as [q_anum0 q_invq0 q_status0 q_setDuring0 q_setRemoved0 q_handlers0 q_force0 q_hadj0 q_by0].
    assert (SS : same_struct s s0) by (apply same_struct_nodes; reflexivity).
    constructor.
    - apply (TInv_struct [] noE s s0 SS); [reflexivity|exact Iheap|exact T].
    - apply (ids_ok_ext s s0); auto; reflexivity.
    - apply (binds_wf_ext s s0); auto; reflexivity.
    - apply (kinds_ok_ext s s0); auto; reflexivity.
    - exact Iscopes.
    - apply (scoping_ok_ext s s0); auto; reflexivity.
    - exact V1.
    - exact V2.
    - exact V3.
    - split; try reflexivity; try assumption.
      + repeat split; assumption.
      + intros v. cbn. rewrite q_setDuring0, q_setRemoved0. intros [Hx|Hx]; inversion Hx.
    - destruct Ishape. split; assumption.
    - apply (stamps_ok_ext s s0); auto; reflexivity.
    - exact L3.
  Qed.

  Lemma stabilize_spec p cancelled s s' e :
    Inv s -> Q s -> plan_ok s p = true -> stabilize p cancelled s = Ok (s', e) ->
    rejected_err e \/ (Inv s' /\ Q s').
  Proof.
    intros HI Hq Hp H. unfold stabilize in H.
    rewrite (q_status s (inv_quiet s HI)) in H. simpl in H.
    set (s1 := emit EvPassStart (s <| status := 1 |>)) in *.
    pose proof (Inv_PInv_start s HI) as P1. fold s1 in P1.
    assert (SS1 : same_struct s s1) by (apply same_struct_nodes; reflexivity).
    assert (K1 : pass_ok Q p s1 s1).
    { split; [exact P1|]. split; [apply (plan_ok_struct s s1 p SS1 Hp)|]. split; [reflexivity|apply (HQ s s1 SS1 Hq)]. }
    apply rbind_ok in H as ([[[s2 e2] at2] always] & H2 & H).
    assert (K2 : rejected_err e2 \/ pass_ok Q p s1 s2).
    { revert H2. destruct (cancelled && _); intros H2.
      - injection H2 as <- <- _ _. right. exact K1.
      - apply (passLoop_spec Q HQ HB _ p s1 s1 [] s2 e2 at2 always K1 H2). }
    apply rbind_ok in H as (s3 & H3 & H). apply rbind_ok in H as (s4 & H4 & H).
    apply rbind_ok in H as (s5 & H5 & [= <- <-]).
    destruct K2 as [Hrej|K2]; [left; exact Hrej|]. right.
    pose proof (requeue_always_soft always s2 s3 H3) as S3.
    assert (S4 : soft s3 s4).
    { destruct e2 as [[| |n|n| | |]|]; try (injection H4 as <-; apply soft_refl).
      apply rbind_ok in H4 as (s6 & H6 & [= <-]).
      eapply soft_trans; [|eapply soft_trans; [apply (soft_heapAddIfNotPresent _ _ _ H6)|apply soft_errorHandlers]].
      apply soft_upd; intros x; [repeat split|]. intros Hk (A & B & C). repeat split; cbn; try lia; apply B || apply C. }
    destruct (pass_ok_soft Q HQ p s1 s2 s4 K2 (soft_trans _ _ _ S3 S4)) as (P4 & _ & _ & Q4).
    destruct (stabilizeEnd_spec s4 e2 s5 P4 H5) as [I5 SS5]. split; [exact I5|apply (HQ s4 s5 SS5 Q4)].
  Qed.
End pass3.

(** ** Stabilize, for every plan, and StabilizeCancelled *)
Definition is_stabilize (o : op) : bool :=
  match o with Stabilize _ | StabilizeCancelled => true | _ => false end.

Lemma Inv_step_stabilize_gen (Q : state -> Prop) s o s' e :
  (forall s s', same_struct s s' -> Q s -> Q s') -> bind_spec Q ->
  Inv s -> Q s -> op_ok s o = true -> is_stabilize o = true -> step s o = Ok (s', e) ->
  e <> Some ECycle -> e <> Some EHeightLimit -> Inv s' /\ Q s'.
Proof.
  intros HQ HB HI Hq Hok Hg Hstep He1 He2. destruct o; try discriminate; simpl in Hstep, Hok.
  - destruct (stabilize_spec Q HQ HB p false s s' e HI Hq Hok Hstep) as [[->| ->]|R]; [congruence|congruence|exact R].
  - destruct (stabilize_spec Q HQ HB [] true s s' e HI Hq eq_refl Hstep) as [[->| ->]|R]; [congruence|congruence|exact R].
Qed.

(** the bind-free fragment: no bind records, hence no lhs-change node to stabilize *)
Definition bindfree (s : state) : Prop := binds s = ∅.

Lemma bind_spec_bindfree : bind_spec bindfree.
Proof.
  intros fuel p s b s' e Hq P Hp Hk Hg _. exfalso.
  pose proof (p_kinds s P b (has_inGraph s b Hg)) as K. rewrite Hk in K. destruct K as [_ [r Hr]].
  unfold bindfree in Hq. rewrite Hq, lookup_empty in Hr. discriminate.
Qed.

Theorem Inv_step_stabilize_bindfree s o s' e :
  Inv s -> binds s = ∅ -> op_ok s o = true -> is_stabilize o = true -> step s o = Ok (s', e) ->
  e <> Some ECycle -> e <> Some EHeightLimit -> Inv s' /\ binds s' = ∅.
Proof.
  intros HI Hq. apply (Inv_step_stabilize_gen bindfree); auto.
  - intros a b SS H. unfold bindfree. rewrite (ss_binds _ _ SS). exact H.
  - apply bind_spec_bindfree.
Qed.

(** * The stabilization of a bind's lhs-change node: [bind_spec] holds *)

(** * The stabilization of a bind's lhs-change node *)

(** ** the part of the pass invariant that is not about the dependency graph, with a set [D]
       of nodes exempt from "a discarded generation is invalid and unregistered" *)
Record RestM (D : nid -> Prop) (s : state) : Prop := {
  m_ids : ids_ok s;
  m_binds : binds_wf s;
  m_kinds : kinds_ok s;
  m_scopes : scopes_ok s;
  m_scoping : scoping_ok s;
  m_vtop : forall n, scope (nd s n) = None -> valid (nd s n) = true;
  m_vdead : forall n b, has s n -> scope (nd s n) = Some b -> ~ inGen s b n -> ~ D n ->
    valid (nd s n) = false /\ inGraph (nd s n) = false;
  m_vgen : forall n b, inGen s b n -> valid (nd s n) = valid (nd s b);
  m_shape : shape_ok s;
  m_stamps : stamps_ok s;
  m_inval : forall n, valid (nd s n) = false <-> EvInval n ∈ log s;
  m_status : status s = 1;
  m_invq : invq s = [];
  m_adj : adj_idle s;
  m_vars : forall v, v ∈ setDuring s \/ v ∈ setRemoved s -> exists e, nkind (nd s v) = KVar e
}.

Definition noD : nid -> Prop := fun _ => False.

Lemma PInv_split s : PInv s -> TInv [] noE s /\ RestM noD s /\ forall n, forceNec (nd s n) = false.
Proof.
  intros [T A1 A2 A3 A4 A5 V1 V2 V3 [Q1 Q2 Q3 Q4 Q5] A6 A7 A8]. split; [exact T|]. split; [|exact Q4].
  constructor; auto. intros n b H1 H2 H3 _. apply (V2 n b); assumption.
Qed.

Lemma PInv_join s : TInv [] noE s -> RestM noD s -> (forall n, forceNec (nd s n) = false) -> PInv s.
Proof.
  intros T [A1 A2 A3 A4 A5 V1 V2 V3 A6 A7 A8 Q1 Q2 Q3 Q5] Q4. constructor; auto.
  - intros n b H1 H2 H3. apply (V2 n b); auto.
  - constructor; auto.
Qed.

(** ** the failing bind function: only variable writes happened; the scope's node list is restored *)
Lemma alter_alter_id {A} (f g : A -> A) (m : gmap nat A) b :
  (forall x, f (g x) = x) -> alter f b (alter g b m) = m.
Proof.
  intros H. apply map_eq. intros k. destruct (decide (k = b)) as [->|Hne].
  - rewrite !lookup_alter. destruct (m !! b); simpl; [rewrite H|]; reflexivity.
  - rewrite !lookup_alter_ne by congruence. reflexivity.
Qed.

Lemma soft_binds_irrel s t t' B :
  soft (s <| binds := B |>) t -> t' = t <| binds := binds s |> -> soft s t'.
Proof.
  intros S ->. destruct S as [SS Hn Hst (l & Hl & Fl) Hs Hv Hk]. split.
  - destruct SS as [Snext Sbinds Shas Sreg Sobs Sadj Sinvq Snum Smh Snode]. split; try assumption; try reflexivity.
  - exact Hn.
  - exact Hst.
  - exists l. split; [exact Hl|]. exact Fl.
  - intros H. assert (H' : stamps_ok (s <| binds := B |>)) by (revert H; apply stamps_ok_ext; reflexivity).
    specialize (Hs H'). revert Hs. apply stamps_ok_ext; reflexivity.
  - intros H. apply Hv. exact H.
  - intros H1 H2. apply Hk; assumption.
Qed.

(** ** running the bind function: [inst] adds fresh, unregistered nodes to scope [b] *)
Record ext_by (b : nat) (s s' : state) : Prop := {
  eb_next : (next s <= next s')%nat;
  eb_has1 : forall m, has s m -> has s' m;
  eb_has2 : forall m, has s' m -> has s m \/ (next s <= m)%nat;
  eb_old : forall m, has s m -> nd s' m = nd s m;
  eb_dyn : forall m, dyn_eq (nd s' m) (nd s m);
  eb_new : forall m, has s' m -> ~ has s m -> scope (nd s' m) = Some b /\ inGen s' b m;
  eb_gen : forall m, inGen s b m -> inGen s' b m;
  eb_gen2 : forall m, inGen s' b m -> inGen s b m \/ ~ has s m;
  eb_bd : forall b', b' <> b -> is_Some (binds s !! b') -> bd s' b' = bd s b';
  eb_bdb : b_lhs (bd s' b) = b_lhs (bd s b) /\ b_rhs (bd s' b) = b_rhs (bd s b) /\
           b_cases (bd s' b) = b_cases (bd s b) /\ b_memo (bd s' b) = b_memo (bd s b);
  eb_binds1 : forall b', is_Some (binds s !! b') -> is_Some (binds s' !! b');
  eb_bindsN : forall n, has s n -> binds s !! n = None -> binds s' !! n = None;
  eb_reg : reg s' = reg s; eb_obs : obs s' = obs s; eb_heap : heap s' = heap s; eb_adj : adj s' = adj s;
  eb_invq : invq s' = invq s; eb_stabNum : stabNum s' = stabNum s; eb_status : status s' = status s;
  eb_numNodes : numNodes s' = numNodes s; eb_setDuring : setDuring s' = setDuring s;
  eb_setRemoved : setRemoved s' = setRemoved s; eb_handlers : handlers s' = handlers s;
  eb_maxHeight : maxHeight s' = maxHeight s; eb_log : log s' = log s
}.

Lemma ext_by_refl b s : ext_by b s s.
Proof.
  split; try reflexivity; auto.
  - intros m. apply dyn_eq_refl.
  - intros m H1 H2. contradiction.
Qed.

Lemma ext_by_trans b s1 s2 s3 :
  (forall m, has s1 m -> (m < next s1)%nat) -> ext_by b s1 s2 -> ext_by b s2 s3 -> ext_by b s1 s3.
Proof.
  intros Hlt A B. split.
  - pose proof (eb_next _ _ _ A). pose proof (eb_next _ _ _ B). lia.
  - intros m H. apply B, A, H.
  - intros m H. destruct (eb_has2 _ _ _ B m H) as [H2|H2]; [apply A, H2|]. right.
    pose proof (eb_next _ _ _ A). lia.
  - intros m H. rewrite (eb_old _ _ _ B) by (apply A, H). apply A, H.
  - intros m. destruct (eb_dyn _ _ _ A m) as (?&?&?&?&?&?&?&?&?&?&?), (eb_dyn _ _ _ B m) as (?&?&?&?&?&?&?&?&?&?&?).
    repeat split; congruence.
  - intros m H3 H1. destruct (decide (has s2 m)) as [H2|H2].
    + destruct (eb_new _ _ _ A m H2 H1) as [E1 E2]. rewrite (eb_old _ _ _ B m H2). split; [exact E1|apply (eb_gen _ _ _ B), E2].
    + apply (eb_new _ _ _ B m H3 H2).
  - intros m H. apply (eb_gen _ _ _ B), (eb_gen _ _ _ A), H.
  - intros m H. destruct (eb_gen2 _ _ _ B m H) as [H2|H2].
    + apply (eb_gen2 _ _ _ A m H2).
    + right. intros H1. apply H2, A, H1.
  - intros b' Hne Hb. rewrite (eb_bd _ _ _ B b' Hne) by (apply A, Hb). apply A; assumption.
  - destruct (eb_bdb _ _ _ A) as (?&?&?&?), (eb_bdb _ _ _ B) as (?&?&?&?). repeat split; congruence.
  - intros b' H. apply B, A, H.
  - intros n Hn Hnone. apply (eb_bindsN _ _ _ B n (eb_has1 _ _ _ A n Hn)), (eb_bindsN _ _ _ A n Hn), Hnone.
  - rewrite (eb_reg _ _ _ B). apply A. - rewrite (eb_obs _ _ _ B). apply A. - rewrite (eb_heap _ _ _ B). apply A.
  - rewrite (eb_adj _ _ _ B). apply A. - rewrite (eb_invq _ _ _ B). apply A. - rewrite (eb_stabNum _ _ _ B). apply A.
  - rewrite (eb_status _ _ _ B). apply A. - rewrite (eb_numNodes _ _ _ B). apply A.
  - rewrite (eb_setDuring _ _ _ B). apply A. - rewrite (eb_setRemoved _ _ _ B). apply A.
  - rewrite (eb_handlers _ _ _ B). apply A. - rewrite (eb_maxHeight _ _ _ B). apply A. - rewrite (eb_log _ _ _ B). apply A.
Qed.

Lemma bd_alter_eq s f b : is_Some (binds s !! b) ->
  default (mkBind 0%nat 0%nat 0%nat None [] [] 0%nat false []) (alter f b (binds s) !! b) = f (bd s b).
Proof. intros [r Hr]. rewrite lookup_alter. unfold bd. rewrite Hr. reflexivity. Qed.

Lemma ext_by_newNode b s k d v :
  (forall m, has s m -> (m < next s)%nat) -> is_Some (binds s !! b) ->
  ext_by b s (newNode s k d (Some b) v).1.
Proof.
  intros Hlt Hb. set (s' := (newNode s k d (Some b) v).1). set (x := next s).
  assert (Hx : ~ has s x) by (intros H; apply Hlt in H; unfold x in H; lia).
  assert (Hnd : forall m, nd s' m = if decide (m = x) then fresh_node k d (Some b) v else nd s m) by apply nd_newNode.
  assert (Hbinds : binds s' = alter (set b_rhsNodes (fun l => l ++ [x])) b (binds s)) by apply binds_newNode.
  assert (Hbdb : bd s' b = set b_rhsNodes (fun l => l ++ [x]) (bd s b)).
  { unfold bd at 1. rewrite Hbinds. apply bd_alter_eq, Hb. }
  assert (Hbdne : forall b', b' <> b -> bd s' b' = bd s b').
  { intros b' Hne. unfold bd. rewrite Hbinds, lookup_alter_ne by congruence. reflexivity. }
  split.
  - unfold s'. rewrite next_newNode. lia.
  - intros m H. apply has_newNode. auto.
  - intros m [->|H]%has_newNode; [right; unfold x; lia|auto].
  - intros m H. rewrite Hnd, decide_False; [reflexivity|]. intros ->. contradiction.
  - intros m. rewrite Hnd. destruct (decide (m = x)) as [->|]; [|apply dyn_eq_refl].
    rewrite (not_has_nd s x Hx). apply dyn_eq_fresh.
  - intros m [->|H]%has_newNode Hn; [|contradiction]. rewrite Hnd, decide_True by reflexivity. split; [reflexivity|].
    unfold inGen. rewrite Hbdb. cbn. apply elem_of_app. right. left.
  - intros m. unfold inGen. rewrite Hbdb. cbn. intros H. apply elem_of_app. auto.
  - intros m. unfold inGen. rewrite Hbdb. cbn. rewrite elem_of_app, elem_of_list_singleton. intros [H| ->]; auto.
  - intros b' Hne _. apply Hbdne, Hne.
  - rewrite Hbdb. cbn. auto.
  - intros b'. rewrite Hbinds. destruct (decide (b' = b)) as [->|Hne].
    + rewrite lookup_alter. intros [r ->]. eauto.
    + rewrite lookup_alter_ne by congruence. auto.
  - intros n _. rewrite Hbinds. destruct (decide (n = b)) as [->|Hne].
    + rewrite lookup_alter. intros ->. reflexivity.
    + rewrite lookup_alter_ne by congruence. auto.
  - apply reg_newNode. - apply obs_newNode. - apply heap_newNode. - apply adj_newNode.
  - apply invq_newNode. - apply stabNum_newNode. - apply status_newNode. - apply numNodes_newNode.
  - apply setDuring_newNode. - apply setRemoved_newNode. - apply handlers_newNode.
  - apply maxHeight_newNode. - apply log_newNode.
Qed.

Lemma ext_by_insert_bind b s x r :
  binds s !! x = None -> x <> b -> ~ has s x -> ext_by b s (s <| binds := <[x := r]> (binds s) |>).
Proof.
  intros Hx Hne Hxh. set (s' := s <| binds := <[x := r]> (binds s) |>).
  assert (Hnd : forall m, nd s' m = nd s m) by reflexivity.
  split; try reflexivity.
  - auto.
  - auto.
  - intros m. apply dyn_eq_refl.
  - intros m H1 H2. contradiction.
  - intros m. unfold inGen, bd. cbn. rewrite lookup_insert_ne by congruence. auto.
  - intros m. unfold inGen, bd. cbn. rewrite lookup_insert_ne by congruence. auto.
  - intros b' Hb' Hs. unfold bd. cbn. rewrite lookup_insert_ne; [reflexivity|].
    intros <-. rewrite Hx in Hs. destruct Hs; discriminate.
  - unfold bd. cbn. rewrite lookup_insert_ne by congruence. auto.
  - intros b' Hs. cbn. destruct (decide (b' = x)) as [->|]; [rewrite lookup_insert; eauto|].
    rewrite lookup_insert_ne by congruence. exact Hs.
  - intros n Hn Hnone. cbn. rewrite lookup_insert_ne; [exact Hnone|]. intros <-. exact (Hxh Hn).
Qed.

(** ** the static clauses while the bind function of [b] runs ([T]: top of [b]'s scope chain) *)
Definition not_lhs (x : node) : Prop := match nkind x with KBindLhs _ => False | _ => True end.

Definition okin (b : nat) (T : nid) (s : state) (q : nid) : Prop :=
  (has s q /\ not_lhs (nd s q)) /\
  ((scope (nd s q) = None /\ (q < T)%nat) \/ (scope (nd s q) = Some b /\ inGen s b q)).

Record IStat (b : nat) (T : nid) (s : state) : Prop := {
  i_ids : ids_ok s;
  i_bwf : forall b' r, binds s !! b' = Some r ->
            bind_wf s b' (if decide (b' = b) then set b_rhsNodes (fun _ => []) r else r);
  i_bnodes : forall n, inGen s b n -> has s n /\ scope (nd s n) = Some b;
  i_bnodup : NoDup (b_rhsNodes (bd s b));
  i_bsome : is_Some (binds s !! b);
  i_chain : exists d, chain s b T d;
  i_kinds : kinds_ok s;
  i_scopes : scopes_ok s;
  i_decl : forall n q, q ∈ decl (nd s n) ->
    scope (nd s q) = None \/ scope (nd s q) = scope (nd s n) \/
    (exists b0, nkind (nd s n) = KBindMain b0 /\ scope (nd s q) = Some b0 /\ b_rhs (bd s b0) = Some q);
  i_gen : forall n q b0, q ∈ decl (nd s n) -> scope (nd s n) = Some b0 -> scope (nd s q) = Some b0 ->
    inGen s b0 n -> inGen s b0 q;
  i_rhs : forall b0 q, b0 <> b -> b_rhs (bd s b0) = Some q ->
    scope (nd s q) = None \/ (scope (nd s q) = Some b0 /\ inGen s b0 q);
  i_acyc : exists own, own_ok own s /\ (exists d, gchain own s b T d) /\
    (forall n q, q ∈ decl (nd s n) -> gmu_lt own s q n) /\
    (forall b0 r x q, binds s !! b0 = Some r -> (x, Some q) ∈ b_cache r -> gmu_lt own s q (S b0));
  i_lhs : forall n q b0, q ∈ decl (nd s n) -> nkind (nd s q) = KBindLhs b0 -> n = S q;
  i_rhsnl : forall b0 q k0, b_rhs (bd s b0) = Some q -> nkind (nd s q) <> KBindLhs k0;
  i_pair : forall b0 b1, inGen s b0 b1 -> nkind (nd s b1) = KBindLhs b1 -> inGen s b0 (S b1)
}.

Lemma IStat_gen_has b T s b0 n : IStat b T s -> inGen s b0 n -> has s n.
Proof.
  intros I Hg. destruct (decide (b0 = b)) as [->|Hne]; [apply (i_bnodes _ _ _ I n Hg)|].
  unfold inGen, bd in Hg. destruct (binds s !! b0) as [r|] eqn:Er; [|inversion Hg]. simpl in Hg.
  pose proof (i_bwf _ _ _ I b0 r Er) as W. rewrite decide_False in W by exact Hne.
  apply (bw_rhsNodes _ _ _ W n Hg).
Qed.

Lemma IStat_rhs_has b T s b0 q : IStat b T s -> b_rhs (bd s b0) = Some q -> has s q.
Proof.
  intros I Hr. unfold bd in Hr. destruct (binds s !! b0) as [r|] eqn:Er; [|discriminate]. simpl in Hr.
  pose proof (i_bwf _ _ _ I b0 r Er) as W.
  apply (io_decl s (i_ids _ _ _ I) (S b0) q). rewrite (bw_decl_main _ _ _ W).
  destruct (decide (b0 = b)); simpl; rewrite Hr; right; left.
Qed.

Lemma IStat_owner b T s n b0 : IStat b T s -> scope (nd s n) = Some b0 -> has s b0 /\ has s (S b0).
Proof.
  intros I Hs. destruct (i_scopes _ _ _ I n b0 Hs) as [[r Hr] _].
  pose proof (i_bwf _ _ _ I b0 r Hr) as W. split; [apply (bw_has_lhs _ _ _ W)|apply (bw_has_main _ _ _ W)].
Qed.

Lemma chain_has_iff s s' :
  (forall n b0, scope (nd s n) = Some b0 -> has s b0) ->
  (forall n, has s n -> scope (nd s' n) = scope (nd s n)) ->
  forall n t d, has s n -> (chain s n t d <-> chain s' n t d).
Proof.
  intros Hown Hsc n t d Hn. split.
  - intros H. induction H as [n E|n b0 t d E _ IH].
    + apply chain_top. rewrite Hsc by exact Hn. exact E.
    + apply (chain_in s' n b0); [rewrite Hsc by exact Hn; exact E|]. apply IH, (Hown n b0 E).
  - intros H. induction H as [n E|n b0 t d E _ IH].
    + apply chain_top. rewrite <- Hsc by exact Hn. exact E.
    + rewrite Hsc in E by exact Hn. apply (chain_in s n b0); [exact E|]. apply IH, (Hown n b0 E).
Qed.

Lemma gchain_below own s s' x :
  scopes_ok s -> own_ok own s -> (forall n, (n < x)%nat -> scope (nd s' n) = scope (nd s n)) ->
  forall n t d, (n < x)%nat -> (gchain own s n t d <-> gchain own s' n t d).
Proof.
  intros Hs Ho Hsc n t d Hn. split.
  - intros H. induction H as [n E|n b0 t d E _ IH].
    + apply gchain_top. unfold vsc in *. rewrite Hsc by exact Hn. exact E.
    + pose proof (vsc_lt own s n b0 Hs Ho E) as Hlt.
      apply (gchain_in own s' n b0); [unfold vsc in *; rewrite Hsc by exact Hn; exact E|]. apply IH. lia.
  - intros H. induction H as [n E|n b0 t d E _ IH].
    + apply gchain_top. unfold vsc in *. rewrite <- Hsc by exact Hn. exact E.
    + assert (E' : vsc own s n = Some b0) by (unfold vsc in *; rewrite <- Hsc by exact Hn; exact E).
      pose proof (vsc_lt own s n b0 Hs Ho E') as Hlt.
      apply (gchain_in own s n b0); [exact E'|]. apply IH. lia.
Qed.

Lemma chain_gchain own s :
  scopes_ok s -> own_ok own s -> (forall b r, binds s !! b = Some r -> nkind (nd s b) = KBindLhs b) ->
  forall n t d, chain s n t d -> own n = None -> gchain own s n t d.
Proof.
  intros Hs Ho Hk n t d H. induction H as [n E|n b0 t d E _ IH]; intros Hn.
  - apply gchain_top. unfold vsc. rewrite E. exact Hn.
  - apply (gchain_in own s n b0); [unfold vsc; rewrite E; reflexivity|]. apply IH.
    destruct (own b0) as [b1|] eqn:Eo; [|reflexivity]. exfalso.
    destruct (Hs n b0 E) as [[r Hr] _]. destruct (Ho b0 b1 Eo) as (_ & _ & _ & _ & _ & K).
    rewrite (Hk b0 r Hr) in K. exact K.
Qed.

Lemma own_bind_None own s b r : own_ok own s -> binds s !! b = Some r -> nkind (nd s b) = KBindLhs b -> own b = None.
Proof.
  intros Ho Hr Hk. destruct (own b) as [b1|] eqn:Eo; [|reflexivity]. exfalso.
  destruct (Ho b b1 Eo) as (_ & _ & _ & _ & _ & K). rewrite Hk in K. exact K.
Qed.

Lemma bind_wf_mono2 s s' b r :
  (forall n, has s n -> has s' n) ->
  (forall n, has s n -> nd s' n = nd s n) ->
  (forall t d, chain s' b t d -> chain s b t d) ->
  bind_wf s b r -> bind_wf s' b r.
Proof.
  intros Hh Hnd Hch [? ? Hme Hca Hl Hm ? ? ? ? ? Hrn ? ? Hcases].
  constructor; rewrite ?(Hnd b), ?(Hnd (S b)) by assumption; auto.
  - intros x q Hq. destruct (Hca x q Hq) as (A & B & C). rewrite (Hnd q A). auto.
  - intros n Hn. destruct (Hrn n Hn) as [H1 H2]. rewrite (Hnd n H1). auto.
  - intros t d Hc. apply Hch in Hc.
    eapply List.Forall_impl; [|apply (Hcases t d Hc)].
    intros e. apply texp_wf_ext; intros; [apply Hh; assumption|rewrite Hnd by assumption; reflexivity|rewrite Hnd by assumption; reflexivity].
Qed.

Lemma chain_in_inv s n b t d : scope (nd s n) = Some b -> chain s n t d ->
  exists d', d = S d' /\ chain s b t d'.
Proof.
  intros E H. inversion H as [n' E'|n' b' t'' d'' E' C'']; subst; [congruence|].
  assert (b' = b) as -> by congruence. eauto.
Qed.

Lemma okin_ext b T s s' q : ext_by b s s' -> okin b T s q -> okin b T s' q.
Proof.
  intros E [[Hq Hk] H]. unfold okin. rewrite (eb_old _ _ _ E q Hq). split; [split; [apply (eb_has1 _ _ _ E), Hq|exact Hk]|].
  destruct H as [H|[H1 H2]]; [left; exact H|right; split; [exact H1|apply (eb_gen _ _ _ E), H2]].
Qed.

Lemma set_rhsNodes_nil_idem (r : bindrec) f :
  set b_rhsNodes (fun _ => []) (set b_rhsNodes f r) = set b_rhsNodes (fun _ => []) r.
Proof. destruct r; reflexivity. Qed.

(* adding one plain node to the scope of [b] *)
Lemma IStat_newNode b T s k d v :
  IStat b T s -> (forall q, q ∈ d -> okin b T s q) ->
  match k with KReturn | KMap _ | KMap2 _ | KCutoff _ => True | _ => False end ->
  let s' := (newNode s k d (Some b) v).1 in
  IStat b T s' /\ ext_by b s s' /\ okin b T s' (next s).
Proof.
  intros I Hd Hk s'. set (x := next s).
  pose proof (ext_by_newNode b s k d v (io_lt s (i_ids _ _ _ I)) (i_bsome _ _ _ I)) as E. fold s' in E.
  assert (Hx : ~ has s x) by (intros H; apply (io_lt s (i_ids _ _ _ I)) in H; unfold x in H; lia).
  assert (Hnd : forall m, nd s' m = if decide (m = x) then fresh_node k d (Some b) v else nd s m) by apply nd_newNode.
  assert (Hold : forall m, has s m -> nd s' m = nd s m) by apply E.
  assert (Hbinds : binds s' = alter (set b_rhsNodes (fun l => l ++ [x])) b (binds s)) by apply binds_newNode.
  assert (Hbdb : bd s' b = set b_rhsNodes (fun l => l ++ [x]) (bd s b)).
  { unfold bd at 1. rewrite Hbinds. apply bd_alter_eq, (i_bsome _ _ _ I). }
  assert (Hbdne : forall b', b' <> b -> bd s' b' = bd s b').
  { intros b' Hne. unfold bd. rewrite Hbinds, lookup_alter_ne by congruence. reflexivity. }
  assert (Hbrhs : forall b0, b_rhs (bd s' b0) = b_rhs (bd s b0)).
  { intros b0. destruct (decide (b0 = b)) as [->|Hne]; [rewrite Hbdb; reflexivity|rewrite Hbdne by exact Hne; reflexivity]. }
  assert (Hgen : forall b0 m, inGen s' b0 m <-> inGen s b0 m \/ (b0 = b /\ m = x)).
  { intros b0 m. unfold inGen. destruct (decide (b0 = b)) as [->|Hne].
    - rewrite Hbdb. cbn. rewrite elem_of_app, elem_of_list_singleton. tauto.
    - rewrite Hbdne by exact Hne. split; [auto|]. intros [?|[? _]]; [assumption|contradiction]. }
  assert (Hown : forall n b0, scope (nd s n) = Some b0 -> has s b0) by (intros n b0 Hs; apply (IStat_owner b T s n b0 I Hs)).
  assert (Hch : forall n t d0, has s n -> (chain s n t d0 <-> chain s' n t d0)).
  { apply chain_has_iff; [exact Hown|]. intros n Hn. rewrite Hold by exact Hn. reflexivity. }
  assert (Hhasb : has s b) by (destruct (i_bsome _ _ _ I) as [r Hr]; apply (bw_has_lhs _ _ _ (i_bwf _ _ _ I b r Hr))).
  destruct (i_chain _ _ _ I) as [d0 Hc0].
  assert (Hcx : chain s' x T (S d0)).
  { apply (chain_in s' x b); [rewrite Hnd, decide_True by reflexivity; reflexivity|]. apply Hch; assumption. }
  assert (Hmu : forall q n, has s q -> has s n -> mu_lt s q n -> mu_lt s' q n).
  { intros q n Hq Hn H tq dq tn dn Cq Cn. apply H; apply Hch; assumption. }
  assert (Hsx : scope (nd s' x) = Some b) by (rewrite Hnd, decide_True by reflexivity; reflexivity).
  assert (Hdx : decl (nd s' x) = d) by (rewrite Hnd, decide_True by reflexivity; reflexivity).
  assert (Hne' : forall n, n <> x -> nd s' n = nd s n) by (intros n Hn; rewrite Hnd, decide_False by exact Hn; reflexivity).
  split; [|split; [exact E|]].
  - constructor.
    + destruct (i_ids _ _ _ I) as [I1 I2]. split.
      * intros m [->|H]%has_newNode; unfold s'; rewrite next_newNode; [lia|]. apply I1 in H. lia.
      * intros n p. rewrite Hnd. destruct (decide (n = x)) as [->|].
        -- cbn. intros Hp. apply (eb_has1 _ _ _ E). apply (Hd p Hp).
        -- intros Hp. eapply (eb_has1 _ _ _ E), I2, Hp.
    + intros b' r'. rewrite Hbinds. destruct (decide (b' = b)) as [->|Hne].
      * rewrite lookup_alter. destruct (binds s !! b) as [r|] eqn:Er; [|discriminate]. intros [= <-].
        rewrite set_rhsNodes_nil_idem. pose proof (i_bwf _ _ _ I b r Er) as W. rewrite decide_True in W by reflexivity.
        apply (bind_wf_mono2 s s'); auto; [apply E|]. intros t d1. apply Hch, Hhasb.
      * rewrite lookup_alter_ne by congruence. intros Hr. pose proof (i_bwf _ _ _ I b' r' Hr) as W.
        rewrite decide_False in W by exact Hne.
        apply (bind_wf_mono2 s s'); auto; [apply E|]. intros t d1. apply Hch, (bw_has_lhs _ _ _ W).
    + intros n. rewrite Hgen. intros [H|[_ ->]].
      * destruct (i_bnodes _ _ _ I n H) as [H1 H2]. split; [apply E, H1|rewrite Hold by exact H1; exact H2].
      * split; [apply has_newNode; auto|]. rewrite Hnd, decide_True by reflexivity. reflexivity.
    + rewrite Hbdb. cbn. apply NoDup_app. split; [apply (i_bnodup _ _ _ I)|]. split; [|apply NoDup_singleton].
      intros y Hy ->%elem_of_list_singleton. apply Hx, (i_bnodes _ _ _ I x Hy).
    + apply (eb_binds1 _ _ _ E), (i_bsome _ _ _ I).
    + exists d0. apply Hch; assumption.
    + intros n. rewrite Hnd. destruct (decide (n = x)) as [->|Hne].
      * intros _. cbn. destruct k; try exact Logic.I; destruct Hk.
      * intros [?|Hn]%has_newNode; [contradiction|]. pose proof (i_kinds _ _ _ I n Hn) as K.
        destruct (nkind (nd s n)); auto; destruct K as [K1 K2]; (split; [exact K1|apply (eb_binds1 _ _ _ E), K2]).
    + intros n b0. rewrite Hnd. destruct (decide (n = x)) as [->|Hne].
      * cbn. intros [= <-]. split; [apply (eb_binds1 _ _ _ E), (i_bsome _ _ _ I)|].
        destruct (i_bsome _ _ _ I) as [r Hr]. pose proof (bw_has_main _ _ _ (i_bwf _ _ _ I b r Hr)) as Hm.
        apply (io_lt s (i_ids _ _ _ I)) in Hm. unfold x. lia.
      * intros Hs. destruct (i_scopes _ _ _ I n b0 Hs) as [H1 H2]. split; [apply (eb_binds1 _ _ _ E), H1|exact H2].
    + intros n q Hq. destruct (decide (n = x)) as [->|Hne].
      * rewrite Hdx in Hq. rewrite Hsx. destruct (Hd q Hq) as [[Hhq _] [[Hs _]|[Hs _]]]; rewrite (Hold q Hhq); auto.
      * rewrite (Hne' n Hne) in *. assert (Hhq : has s q) by (apply (io_decl s (i_ids _ _ _ I) n q Hq)).
        rewrite (Hold q Hhq). destruct (i_decl _ _ _ I n q Hq) as [?|[?|(b0 & ? & ? & ?)]]; auto.
        right; right. exists b0. rewrite Hbrhs. auto.
    + intros n q b0 Hq Hsn Hsq Hgn. destruct (decide (n = x)) as [->|Hne].
      * rewrite Hdx in Hq. rewrite Hsx in Hsn. injection Hsn as <-. destruct (Hd q Hq) as [[Hhq _] [[Hs _]|[_ Hg]]].
        -- rewrite (Hold q Hhq) in Hsq. congruence.
        -- apply Hgen. left. exact Hg.
      * rewrite (Hne' n Hne) in *. assert (Hhq : has s q) by (apply (io_decl s (i_ids _ _ _ I) n q Hq)).
        rewrite (Hold q Hhq) in Hsq. apply Hgen in Hgn as [Hgn|[_ ->]]; [|congruence].
        apply Hgen. left. apply (i_gen _ _ _ I n q b0 Hq Hsn Hsq Hgn).
    + intros b0 q Hne. rewrite Hbrhs. intros Hr.
      assert (Hhq : has s q).
      { unfold bd in Hr. destruct (binds s !! b0) as [r|] eqn:Er; [|discriminate]. simpl in Hr.
        pose proof (i_bwf _ _ _ I b0 r Er) as W. rewrite decide_False in W by exact Hne.
        apply (io_decl s (i_ids _ _ _ I) (S b0) q). rewrite (bw_decl_main _ _ _ W), Hr. right; left. }
      rewrite (Hold q Hhq). destruct (i_rhs _ _ _ I b0 q Hne Hr) as [Hs|[Hs Hg]]; [auto|].
      right. split; [exact Hs|apply Hgen; auto].
    + destruct (i_acyc _ _ _ I) as (own & O1 & [g0 Hg0] & O2 & O3).
      assert (Hox : own x = None).
      { destruct (own x) as [bo|] eqn:Eo; [|reflexivity]. destruct (Hx (proj1 (O1 x bo Eo))). }
      assert (O1' : own_ok own s').
      { intros n b0 Eo. destruct (O1 n b0 Eo) as (A & B & C & D & F & G).
        pose proof (io_lt s (i_ids _ _ _ I) n A) as Hnx. fold x in Hnx.
        rewrite (Hold n A), (Hne' b0) by lia. split; [apply E, A|auto 10]. }
      assert (Hgch : forall n t d1, has s n -> (gchain own s n t d1 <-> gchain own s' n t d1)).
      { intros n t d1 Hn. apply (gchain_below own s s' x (i_scopes _ _ _ I) O1).
        - intros m Hm. rewrite Hne' by lia. reflexivity.
        - apply (io_lt s (i_ids _ _ _ I) n Hn). }
      assert (Hgx : gchain own s' x T (S g0)).
      { apply (gchain_in own s' x b); [unfold vsc; rewrite Hsx; reflexivity|]. apply Hgch; assumption. }
      assert (Hmug : forall q n, has s q -> has s n -> gmu_lt own s q n -> gmu_lt own s' q n).
      { intros q n Hq Hn H tq dq tn dn Cq Cn. apply H; apply Hgch; assumption. }
      exists own. split; [exact O1'|]. split; [exists g0; apply Hgch; assumption|]. split.
      * intros n q Hq. destruct (decide (n = x)) as [->|Hne].
        -- rewrite Hdx in Hq. intros tq dq tn dn Cq Cn. destruct (Hd q Hq) as [[Hhq _] Hk'].
           destruct (gchain_fun _ _ _ _ _ _ _ Cn Hgx) as [-> ->].
           apply (Hgch q tq dq Hhq) in Cq.
           pose proof (io_lt s (i_ids _ _ _ I) q Hhq) as Hqx.
           destruct Hk' as [[Hs Hlt]|[Hs _]].
           ++ pose proof (gchain_top_le own s (i_scopes _ _ _ I) O1 q tq dq Cq). left. lia.
           ++ destruct (gchain_in_inv own s q b tq dq Hs Cq) as (d' & -> & C'').
              destruct (gchain_fun _ _ _ _ _ _ _ C'' Hg0) as [-> ->]. right. split; [reflexivity|]. right. split; [reflexivity|exact Hqx].
        -- rewrite (Hne' n Hne) in Hq. assert (Hhq : has s q) by (apply (io_decl s (i_ids _ _ _ I) n q Hq)).
           apply Hmug; [exact Hhq|eapply has_decl, Hq|apply (O2 n q Hq)].
      * intros b0 r0 x0 q. rewrite Hbinds. intros Hr Hq.
        assert (exists r1, binds s !! b0 = Some r1 /\ b_cache r1 = b_cache r0) as (r1 & Hr1 & Hc1).
        { destruct (decide (b0 = b)) as [->|Hne].
          - rewrite lookup_alter in Hr. destruct (binds s !! b) as [r1|]; [|discriminate]. injection Hr as <-. eauto.
          - rewrite lookup_alter_ne in Hr by congruence. eauto. }
        rewrite <- Hc1 in Hq. pose proof (i_bwf _ _ _ I b0 r1 Hr1) as W.
        apply Hmug; [|apply (bw_has_main _ _ _ W)|apply (O3 b0 r1 x0 q Hr1 Hq)].
        apply (bw_cache _ _ _ W x0 q). destruct (decide (b0 = b)); exact Hq.
    + intros n q b0 Hq Hkq. destruct (decide (n = x)) as [->|Hne].
      * rewrite Hdx in Hq. destruct (Hd q Hq) as [[Hhq Hnl] _]. rewrite (Hold q Hhq) in Hkq.
        unfold not_lhs in Hnl. rewrite Hkq in Hnl. destruct Hnl.
      * rewrite (Hne' n Hne) in Hq. assert (Hhq : has s q) by (apply (io_decl s (i_ids _ _ _ I) n q Hq)).
        rewrite (Hold q Hhq) in Hkq. apply (i_lhs _ _ _ I n q b0 Hq Hkq).
    + intros b0 q k0. rewrite Hbrhs. intros Hr. rewrite (Hold q (IStat_rhs_has _ _ _ _ _ I Hr)).
      apply (i_rhsnl _ _ _ I b0 q k0 Hr).
    + intros b0 b1 Hg Hkk. apply Hgen in Hg as [Hg|[-> ->]].
      * rewrite (Hold b1 (IStat_gen_has _ _ _ _ _ I Hg)) in Hkk. apply Hgen. left. apply (i_pair _ _ _ I b0 b1 Hg Hkk).
      * exfalso. rewrite Hnd, decide_True in Hkk by reflexivity. cbn in Hkk. rewrite Hkk in Hk. destruct Hk.
  - split; [split; [apply has_newNode; auto|]|].
    + unfold not_lhs. rewrite Hnd, decide_True by reflexivity. cbn. destruct k; try exact Logic.I; destruct Hk.
    + right. split; [exact Hsx|]. apply Hgen. auto.
Qed.

(* adding a nested bind (its lhs-change and main nodes, its record) to the scope of [b] *)
Lemma IStat_newBind b T s cs a :
  IStat b T s -> okin b T s a -> Forall (texp_wf s T true) cs ->
  let s' := (newBindWith false s cs a (Some b)).1 in
  IStat b T s' /\ ext_by b s s' /\ okin b T s' (S (next s)).
Proof.
  intros I Ha Hcs s'. set (x := next s).
  set (rec := mkBind a x (S x) None [] cs 0%nat false []).
  set (s0 := s <| binds := <[x := rec]> (binds s) |>).
  set (s1 := (newNode s0 (KBindLhs x) [a] (Some b) 0).1).
  assert (Es' : s' = (newNode s1 (KBindMain x) [x] (Some b) 0).1).
  { unfold s'. rewrite newBindWith_eq. reflexivity. }
  assert (Hlt : forall m, has s m -> (m < x)%nat) by apply (io_lt s (i_ids _ _ _ I)).
  assert (Hx : ~ has s x) by (intros H; apply Hlt in H; lia).
  assert (HSx : ~ has s (S x)) by (intros H; apply Hlt in H; lia).
  assert (Hbx : binds s !! x = None).
  { destruct (binds s !! x) as [r|] eqn:Er; [|reflexivity]. exfalso. apply Hx.
    pose proof (i_bwf _ _ _ I x r Er) as W. apply (bw_has_lhs _ _ _ W). }
  assert (Hhasb : has s b) by (destruct (i_bsome _ _ _ I) as [r Hr]; apply (bw_has_lhs _ _ _ (i_bwf _ _ _ I b r Hr))).
  assert (Hxb : x <> b) by (intros E; apply Hx; rewrite E; exact Hhasb).
  assert (E0 : ext_by b s s0) by (apply ext_by_insert_bind; assumption).
  assert (Hb0 : is_Some (binds s0 !! b)) by (apply (eb_binds1 _ _ _ E0), (i_bsome _ _ _ I)).
  assert (Hlt0 : forall m, has s0 m -> (m < next s0)%nat) by (intros m Hm; apply Hlt, Hm).
  assert (E1 : ext_by b s0 s1) by (apply ext_by_newNode; assumption).
  assert (Hlt1 : forall m, has s1 m -> (m < next s1)%nat).
  { intros m [->|Hm]%has_newNode; unfold s1; rewrite next_newNode; [unfold s0; cbn; lia|]. apply Hlt0 in Hm. lia. }
  assert (E2 : ext_by b s1 s') by (rewrite Es'; apply ext_by_newNode; [exact Hlt1|apply (eb_binds1 _ _ _ E1), Hb0]).
  assert (E : ext_by b s s').
  { eapply ext_by_trans; [exact Hlt|exact E0|]. eapply ext_by_trans; [exact Hlt0|exact E1|exact E2]. }
  assert (Hn1 : next s1 = S x) by (unfold s1; rewrite next_newNode; reflexivity).
  assert (Hnd : forall m, nd s' m = if decide (m = S x) then fresh_node (KBindMain x) [x] (Some b) 0
                                    else if decide (m = x) then fresh_node (KBindLhs x) [a] (Some b) 0 else nd s m).
  { intros m. rewrite Es', nd_newNode, Hn1. destruct (decide (m = S x)); [reflexivity|].
    unfold s1. rewrite nd_newNode. reflexivity. }
  assert (Hhas : forall m, has s' m <-> m = S x \/ m = x \/ has s m).
  { intros m. rewrite Es', has_newNode, Hn1. unfold s1. rewrite has_newNode. reflexivity. }
  assert (Hold : forall m, has s m -> nd s' m = nd s m) by apply E.
  assert (Hne' : forall n, n <> S x -> n <> x -> nd s' n = nd s n).
  { intros n H1 H2. rewrite Hnd, !decide_False by assumption. reflexivity. }
  assert (Hbinds : binds s' = alter (set b_rhsNodes (fun l => l ++ [S x])) b
                              (alter (set b_rhsNodes (fun l => l ++ [x])) b (<[x := rec]> (binds s)))).
  { rewrite Es', binds_newNode, Hn1. unfold s1. rewrite binds_newNode. reflexivity. }
  assert (Hlook : forall b', binds s' !! b' =
            if decide (b' = b) then set b_rhsNodes (fun l => (l ++ [x]) ++ [S x]) <$> binds s !! b
            else if decide (b' = x) then Some rec else binds s !! b').
  { intros b'. rewrite Hbinds. destruct (decide (b' = b)) as [->|Hne].
    - rewrite !lookup_alter, lookup_insert_ne by congruence. destruct (binds s !! b); reflexivity.
    - rewrite !lookup_alter_ne by congruence. destruct (decide (b' = x)) as [->|]; [apply lookup_insert|].
      apply lookup_insert_ne. congruence. }
  assert (Hbdb : bd s' b = set b_rhsNodes (fun l => (l ++ [x]) ++ [S x]) (bd s b)).
  { unfold bd. rewrite Hlook, decide_True by reflexivity. destruct (i_bsome _ _ _ I) as [r ->]. reflexivity. }
  assert (Hbdx : bd s' x = rec).
  { unfold bd. rewrite Hlook, decide_False, decide_True by congruence. reflexivity. }
  assert (Hbdne : forall b', b' <> b -> b' <> x -> bd s' b' = bd s b').
  { intros b' H1 H2. unfold bd. rewrite Hlook, !decide_False by assumption. reflexivity. }
  assert (Hbrhs : forall b0, b0 <> x -> b_rhs (bd s' b0) = b_rhs (bd s b0)).
  { intros b0 H0. destruct (decide (b0 = b)) as [->|Hne]; [rewrite Hbdb; reflexivity|rewrite Hbdne by assumption; reflexivity]. }
  assert (Hgen : forall b0 m, inGen s' b0 m <-> (b0 <> x /\ inGen s b0 m) \/ (b0 = b /\ (m = x \/ m = S x))).
  { intros b0 m. unfold inGen. destruct (decide (b0 = b)) as [->|Hne].
    - rewrite Hbdb. cbn. rewrite !elem_of_app, !elem_of_list_singleton. split.
      + intros [[H|H]|H]; [left; split; [congruence|exact H]|right; auto|right; auto].
      + intros [[_ H]|[_ [H|H]]]; auto.
    - destruct (decide (b0 = x)) as [->|Hne2].
      + rewrite Hbdx. cbn. split; [intros H; inversion H|]. intros [[H _]|[H _]]; congruence.
      + rewrite Hbdne by assumption. split; [intros H; left; auto|]. intros [[_ H]|[H _]]; [exact H|congruence]. }
  assert (Hown : forall n b0, scope (nd s n) = Some b0 -> has s b0) by (intros n b0 Hs; apply (IStat_owner b T s n b0 I Hs)).
  assert (Hch : forall n t d0, has s n -> (chain s n t d0 <-> chain s' n t d0)).
  { apply chain_has_iff; [exact Hown|]. intros n Hn. rewrite Hold by exact Hn. reflexivity. }
  destruct (i_chain _ _ _ I) as [d0 Hc0].
  assert (Hsx : scope (nd s' x) = Some b) by (rewrite Hnd, decide_False, decide_True by lia; reflexivity).
  assert (HsSx : scope (nd s' (S x)) = Some b) by (rewrite Hnd, decide_True by reflexivity; reflexivity).
  assert (Hdx : decl (nd s' x) = [a]) by (rewrite Hnd, decide_False, decide_True by lia; reflexivity).
  assert (HdSx : decl (nd s' (S x)) = [x]) by (rewrite Hnd, decide_True by reflexivity; reflexivity).
  assert (Hkx : nkind (nd s' x) = KBindLhs x) by (rewrite Hnd, decide_False, decide_True by lia; reflexivity).
  assert (HkSx : nkind (nd s' (S x)) = KBindMain x) by (rewrite Hnd, decide_True by reflexivity; reflexivity).
  assert (Hcx : chain s' x T (S d0)) by (apply (chain_in s' x b); [exact Hsx|apply Hch; assumption]).
  assert (HcSx : chain s' (S x) T (S d0)) by (apply (chain_in s' (S x) b); [exact HsSx|apply Hch; assumption]).
  assert (Hmu : forall q n, has s q -> has s n -> mu_lt s q n -> mu_lt s' q n).
  { intros q n Hq Hn H tq dq tn dn Cq Cn. apply H; apply Hch; assumption. }
  assert (Hbs1 : forall b', is_Some (binds s !! b') -> is_Some (binds s' !! b')) by apply E.
  destruct Ha as [[Hha Hnla] Hka].
  assert (Hmua : mu_lt s' a x).
  { intros tq dq tn dn Cq Cn. destruct (chain_fun _ _ _ _ _ _ Cn Hcx) as [-> ->].
    apply (Hch a tq dq Hha) in Cq. pose proof (Hlt a Hha) as Hax.
    destruct Hka as [[Hs Hl]|[Hs _]].
    - apply chain_top_inv in Cq as [-> ->]; [|exact Hs]. left. exact Hl.
    - destruct (chain_in_inv s a b tq dq Hs Cq) as (d' & -> & C'').
      destruct (chain_fun _ _ _ _ _ _ C'' Hc0) as [-> ->]. right. split; [reflexivity|]. right. split; [reflexivity|exact Hax]. }
  split; [|split; [exact E|]].
  - constructor.
    + destruct (i_ids _ _ _ I) as [I1 I2]. split.
      * intros m Hm. apply Hhas in Hm. rewrite (Nat.le_antisymm (next s') (S (S x))).
        -- destruct Hm as [->|[->|Hm]]; [lia|lia|]. apply Hlt in Hm. lia.
        -- rewrite Es', next_newNode, Hn1. lia.
        -- rewrite Es', next_newNode, Hn1. lia.
      * intros n p Hp. destruct (decide (n = S x)) as [->|H1].
        { rewrite HdSx in Hp. apply elem_of_list_singleton in Hp as ->. apply Hhas. auto. }
        destruct (decide (n = x)) as [->|H2].
        { rewrite Hdx in Hp. apply elem_of_list_singleton in Hp as ->. apply E, Hha. }
        rewrite (Hne' n H1 H2) in Hp. eapply (eb_has1 _ _ _ E), I2, Hp.
    + intros b' r'. rewrite Hlook. destruct (decide (b' = b)) as [->|Hne].
      * destruct (binds s !! b) as [r|] eqn:Er; [|discriminate]. intros [= <-].
        rewrite set_rhsNodes_nil_idem. pose proof (i_bwf _ _ _ I b r Er) as W. rewrite decide_True in W by reflexivity.
        apply (bind_wf_mono2 s s'); auto; [apply E|]. intros t d1. apply Hch, Hhasb.
      * destruct (decide (b' = x)) as [->|Hne2].
        -- intros [= <-]. constructor; try reflexivity.
           ++ cbn. discriminate.
           ++ cbn. intros x0 q Hq. inversion Hq.
           ++ apply Hhas. auto.
           ++ apply Hhas. auto.
           ++ exact Hkx.
           ++ exact HkSx.
           ++ exact Hdx.
           ++ exact HdSx.
           ++ rewrite Hsx, HsSx. reflexivity.
           ++ cbn. intros n Hn. inversion Hn.
           ++ cbn. constructor.
           ++ intros t d1 Hc. destruct (chain_fun _ _ _ _ _ _ Hc Hcx) as [-> ->]. cbn.
              eapply List.Forall_impl; [|exact Hcs]. intros e.
              apply texp_wf_ext; intros; [apply E; assumption|rewrite Hold by assumption; reflexivity|rewrite Hold by assumption; reflexivity].
        -- intros Hr. pose proof (i_bwf _ _ _ I b' r' Hr) as W. rewrite decide_False in W by exact Hne.
           apply (bind_wf_mono2 s s'); auto; [apply E|]. intros t d1. apply Hch, (bw_has_lhs _ _ _ W).
    + intros n. rewrite Hgen. intros [[_ H]|[_ [->| ->]]].
      * destruct (i_bnodes _ _ _ I n H) as [H1 H2]. split; [apply E, H1|rewrite Hold by exact H1; exact H2].
      * split; [apply Hhas; auto|exact Hsx].
      * split; [apply Hhas; auto|exact HsSx].
    + rewrite Hbdb. cbn. apply NoDup_app. split; [apply NoDup_app; split; [apply (i_bnodup _ _ _ I)|split; [|apply NoDup_singleton]]|split; [|apply NoDup_singleton]].
      * intros y Hy ->%elem_of_list_singleton. apply Hx, (i_bnodes _ _ _ I x Hy).
      * intros y Hy ->%elem_of_list_singleton. apply elem_of_app in Hy as [Hy|Hy%elem_of_list_singleton]; [|lia].
        apply HSx, (i_bnodes _ _ _ I (S x) Hy).
    + apply Hbs1, (i_bsome _ _ _ I).
    + exists d0. apply Hch; assumption.
    + intros n Hn. destruct (decide (n = S x)) as [->|H1].
      { rewrite HkSx. split; [reflexivity|]. rewrite Hlook, decide_False, decide_True by congruence. eauto. }
      destruct (decide (n = x)) as [->|H2].
      { rewrite Hkx. split; [reflexivity|]. rewrite Hlook, decide_False, decide_True by congruence. eauto. }
      rewrite (Hne' n H1 H2). apply Hhas in Hn as [?|[?|Hn]]; [contradiction|contradiction|].
      pose proof (i_kinds _ _ _ I n Hn) as K.
      destruct (nkind (nd s n)); auto; destruct K as [K1 K2]; (split; [exact K1|apply Hbs1, K2]).
    + intros n b0 Hs. destruct (decide (n = S x)) as [->|H1]; [|destruct (decide (n = x)) as [->|H2]].
      * rewrite HsSx in Hs. injection Hs as <-. split; [apply Hbs1, (i_bsome _ _ _ I)|].
        destruct (i_bsome _ _ _ I) as [r Hr]. pose proof (bw_has_main _ _ _ (i_bwf _ _ _ I b r Hr)) as Hm.
        apply Hlt in Hm. lia.
      * rewrite Hsx in Hs. injection Hs as <-. split; [apply Hbs1, (i_bsome _ _ _ I)|].
        destruct (i_bsome _ _ _ I) as [r Hr]. pose proof (bw_has_main _ _ _ (i_bwf _ _ _ I b r Hr)) as Hm.
        apply Hlt in Hm. lia.
      * rewrite (Hne' n H1 H2) in Hs. destruct (i_scopes _ _ _ I n b0 Hs) as [A B]. split; [apply Hbs1, A|exact B].
    + intros n q Hq. destruct (decide (n = S x)) as [->|H1]; [|destruct (decide (n = x)) as [->|H2]].
      * rewrite HdSx in Hq. apply elem_of_list_singleton in Hq as ->. right; left. rewrite Hsx, HsSx. reflexivity.
      * rewrite Hdx in Hq. apply elem_of_list_singleton in Hq as ->. rewrite Hsx, (Hold a Hha).
        destruct Hka as [[Hs _]|[Hs _]]; auto.
      * rewrite (Hne' n H1 H2) in *. assert (Hhq : has s q) by (apply (io_decl s (i_ids _ _ _ I) n q Hq)).
        rewrite (Hold q Hhq). destruct (i_decl _ _ _ I n q Hq) as [?|[?|(b0 & Hk1 & Hk2 & Hk3)]]; auto.
        right; right. exists b0. rewrite Hbrhs; [auto|]. intros ->. unfold bd in Hk3. rewrite Hbx in Hk3. discriminate.
    + intros n q b0 Hq Hsn Hsq Hgn. destruct (decide (n = S x)) as [->|H1]; [|destruct (decide (n = x)) as [->|H2]].
      * rewrite HdSx in Hq. apply elem_of_list_singleton in Hq as ->. rewrite HsSx in Hsn. injection Hsn as <-.
        apply Hgen. right. auto.
      * rewrite Hdx in Hq. apply elem_of_list_singleton in Hq as ->. rewrite Hsx in Hsn. injection Hsn as <-.
        rewrite (Hold a Hha) in Hsq. destruct Hka as [[Hs _]|[_ Hg]]; [congruence|].
        apply Hgen. left. split; [congruence|exact Hg].
      * rewrite (Hne' n H1 H2) in *. assert (Hhq : has s q) by (apply (io_decl s (i_ids _ _ _ I) n q Hq)).
        rewrite (Hold q Hhq) in Hsq. apply Hgen in Hgn as [[Hb0x Hgn]|[_ [->| ->]]]; [|congruence|congruence].
        apply Hgen. left. split; [exact Hb0x|]. apply (i_gen _ _ _ I n q b0 Hq Hsn Hsq Hgn).
    + intros b0 q Hne Hr. destruct (decide (b0 = x)) as [->|Hne2]; [rewrite Hbdx in Hr; discriminate|].
      rewrite Hbrhs in Hr by exact Hne2.
      assert (Hhq : has s q).
      { unfold bd in Hr. destruct (binds s !! b0) as [r|] eqn:Er; [|discriminate]. simpl in Hr.
        pose proof (i_bwf _ _ _ I b0 r Er) as W. rewrite decide_False in W by exact Hne.
        apply (io_decl s (i_ids _ _ _ I) (S b0) q). rewrite (bw_decl_main _ _ _ W), Hr. right; left. }
      rewrite (Hold q Hhq). destruct (i_rhs _ _ _ I b0 q Hne Hr) as [Hs|[Hs Hg]]; [auto|].
      right. split; [exact Hs|apply Hgen; auto].
    + destruct (i_acyc _ _ _ I) as (own & O1 & [g0 Hg0] & O2 & O3).
      assert (Hox : own x = None).
      { destruct (own x) as [bo|] eqn:Eo; [|reflexivity]. destruct (Hx (proj1 (O1 x bo Eo))). }
      assert (HoSx : own (S x) = None).
      { destruct (own (S x)) as [bo|] eqn:Eo; [|reflexivity]. pose proof (Hlt _ (proj1 (O1 (S x) bo Eo))). lia. }
      assert (O1' : own_ok own s').
      { intros n b0 Eo. destruct (O1 n b0 Eo) as (A & B & C & D & F & G).
        pose proof (Hlt n A) as Hnx.
        rewrite (Hold n A), (Hne' b0) by lia. split; [apply E, A|auto 10]. }
      assert (Hgch : forall n t d1, has s n -> (gchain own s n t d1 <-> gchain own s' n t d1)).
      { intros n t d1 Hn. apply (gchain_below own s s' x (i_scopes _ _ _ I) O1).
        - intros m Hm. rewrite Hne' by lia. reflexivity.
        - apply (Hlt n Hn). }
      assert (Hgx : gchain own s' x T (S g0)).
      { apply (gchain_in own s' x b); [unfold vsc; rewrite Hsx; reflexivity|]. apply Hgch; assumption. }
      assert (HgSx : gchain own s' (S x) T (S g0)).
      { apply (gchain_in own s' (S x) b); [unfold vsc; rewrite HsSx; reflexivity|]. apply Hgch; assumption. }
      assert (Hmug : forall q n, has s q -> has s n -> gmu_lt own s q n -> gmu_lt own s' q n).
      { intros q n Hq Hn H tq dq tn dn Cq Cn. apply H; apply Hgch; assumption. }
      exists own. split; [exact O1'|]. split; [exists g0; apply Hgch; assumption|]. split.
      * intros n q Hq. destruct (decide (n = S x)) as [->|H1]; [|destruct (decide (n = x)) as [->|H2]].
        -- rewrite HdSx in Hq. apply elem_of_list_singleton in Hq as ->.
           intros tq dq tn dn Cq Cn. destruct (gchain_fun _ _ _ _ _ _ _ Cn HgSx) as [-> ->].
           destruct (gchain_fun _ _ _ _ _ _ _ Cq Hgx) as [-> ->]. right. split; [reflexivity|]. right. split; [reflexivity|lia].
        -- rewrite Hdx in Hq. apply elem_of_list_singleton in Hq as ->.
           intros tq dq tn dn Cq Cn. destruct (gchain_fun _ _ _ _ _ _ _ Cn Hgx) as [-> ->].
           apply (Hgch a tq dq Hha) in Cq. pose proof (Hlt a Hha) as Hax.
           destruct Hka as [[Hs Hl]|[Hs _]].
           ++ pose proof (gchain_top_le own s (i_scopes _ _ _ I) O1 a tq dq Cq). left. lia.
           ++ destruct (gchain_in_inv own s a b tq dq Hs Cq) as (d' & -> & C'').
              destruct (gchain_fun _ _ _ _ _ _ _ C'' Hg0) as [-> ->]. right. split; [reflexivity|]. right. split; [reflexivity|exact Hax].
        -- rewrite (Hne' n H1 H2) in Hq. assert (Hhq : has s q) by (apply (io_decl s (i_ids _ _ _ I) n q Hq)).
           apply Hmug; [exact Hhq|eapply has_decl, Hq|apply (O2 n q Hq)].
      * intros b0 r0 x0 q. rewrite Hlook. intros Hr Hq.
        assert (exists r1, binds s !! b0 = Some r1 /\ b_cache r1 = b_cache r0) as (r1 & Hr1 & Hc1).
        { destruct (decide (b0 = b)) as [->|Hne].
          - destruct (binds s !! b) as [r1|]; [|discriminate]. injection Hr as <-. eauto.
          - destruct (decide (b0 = x)) as [->|Hne2]; [|eauto].
            injection Hr as <-. cbn in Hq. inversion Hq. }
        rewrite <- Hc1 in Hq. pose proof (i_bwf _ _ _ I b0 r1 Hr1) as W.
        apply Hmug; [|apply (bw_has_main _ _ _ W)|apply (O3 b0 r1 x0 q Hr1 Hq)].
        apply (bw_cache _ _ _ W x0 q). destruct (decide (b0 = b)); exact Hq.
    + intros n q b0 Hq Hkq. destruct (decide (n = S x)) as [->|H1]; [|destruct (decide (n = x)) as [->|H2]].
      * rewrite HdSx in Hq. apply elem_of_list_singleton in Hq as ->. reflexivity.
      * rewrite Hdx in Hq. apply elem_of_list_singleton in Hq as ->. rewrite (Hold a Hha) in Hkq.
        unfold not_lhs in Hnla. rewrite Hkq in Hnla. destruct Hnla.
      * rewrite (Hne' n H1 H2) in Hq. assert (Hhq : has s q) by (apply (io_decl s (i_ids _ _ _ I) n q Hq)).
        rewrite (Hold q Hhq) in Hkq. apply (i_lhs _ _ _ I n q b0 Hq Hkq).
    + intros b0 q k0 Hr. destruct (decide (b0 = x)) as [->|Hne2]; [rewrite Hbdx in Hr; discriminate|].
      rewrite Hbrhs in Hr by exact Hne2. rewrite (Hold q (IStat_rhs_has _ _ _ _ _ I Hr)).
      apply (i_rhsnl _ _ _ I b0 q k0 Hr).
    + intros b0 b1 Hg Hkk. apply Hgen in Hg as [[Hb0x Hg]|[-> [->| ->]]].
      * rewrite (Hold b1 (IStat_gen_has _ _ _ _ _ I Hg)) in Hkk. apply Hgen. left. split; [exact Hb0x|]. apply (i_pair _ _ _ I b0 b1 Hg Hkk).
      * apply Hgen. right. auto.
      * exfalso. rewrite HkSx in Hkk. discriminate.
  - split; [split; [apply Hhas; auto|unfold not_lhs; rewrite HkSx; exact Logic.I]|].
    right. split; [exact HsSx|]. apply Hgen. auto.
Qed.

Lemma texp_wf_ext_by b s s' T root e : ext_by b s s' -> texp_wf s T root e -> texp_wf s' T root e.
Proof.
  intros E. apply texp_wf_ext; intros; [apply E; assumption|rewrite (eb_old _ _ _ E) by assumption; reflexivity|rewrite (eb_old _ _ _ E) by assumption; reflexivity].
Qed.

Lemma texp_wf_cases s T cs :
  (fix go (l : list texp) : Prop := match l with [] => True | c :: l => texp_wf s T true c /\ go l end) cs ->
  Forall (texp_wf s T true) cs.
Proof. induction cs as [|c cs IH]; [constructor|]. intros [H1 H2]. constructor; auto. Qed.

Lemma IStat_lt b T s : IStat b T s -> forall m, has s m -> (m < next s)%nat.
Proof. intros I. apply (io_lt s (i_ids _ _ _ I)). Qed.

Lemma inst_spec (b : nat) (T : nid) (x : Z) : forall (e : texp) (root : bool) (s s' : state) (r : option nid),
  IStat b T s -> texp_wf s T root e -> inst s (Some b) x e = (s', r) ->
  IStat b T s' /\ ext_by b s s' /\
  match r with Some a => okin b T s' a | None => root = true /\ s' = s end.
Proof.
  induction e as [k| |t|f e IH|f e1 IH1 e2 IH2|c e IH|cs e IH|]; intros root s s' r I W H; simpl in H.
  - (* TRet *) injection H as <- <-.
    destruct (IStat_newNode b T s KReturn [] k I ltac:(intros q Hq; inversion Hq) Logic.I) as (A & B & C). auto.
  - (* TX *) injection H as <- <-.
    destruct (IStat_newNode b T s KReturn [] x I ltac:(intros q Hq; inversion Hq) Logic.I) as (A & B & C). auto.
  - (* TOuter *) injection H as <- <-. split; [exact I|]. split; [apply ext_by_refl|].
    simpl in W. destruct W as (W1 & W2 & W3 & W4). split; [split; [exact W1|exact W4]|left; auto].
  - (* TMap *) destruct (inst s (Some b) x e) as [s1 a] eqn:E1. injection H as <- <-. simpl in W.
    destruct (IH false s s1 a I W E1) as (I1 & B1 & C1).
    destruct a as [a|]; [|destruct C1; discriminate]. simpl.
    destruct (IStat_newNode b T s1 (KMap f) [a] 0 I1) as (A & B & C); [|exact Logic.I|].
    { intros q ->%elem_of_list_singleton. exact C1. }
    split; [exact A|]. split; [eapply ext_by_trans; [apply (IStat_lt b T s I)|exact B1|exact B]|exact C].
  - (* TMap2 *) destruct (inst s (Some b) x e1) as [s1 a1] eqn:E1. destruct (inst s1 (Some b) x e2) as [s2 a2] eqn:E2.
    injection H as <- <-. simpl in W. destruct W as [W1 W2].
    destruct (IH1 false s s1 a1 I W1 E1) as (I1 & B1 & C1).
    destruct (IH2 false s1 s2 a2 I1 (texp_wf_ext_by b s s1 T false e2 B1 W2) E2) as (I2 & B2 & C2).
    destruct a1 as [a1|]; [|destruct C1; discriminate]. destruct a2 as [a2|]; [|destruct C2; discriminate]. simpl.
    destruct (IStat_newNode b T s2 (KMap2 f) [a1; a2] 0 I2) as (A & B & C); [|exact Logic.I|].
    { intros q Hq. apply elem_of_cons in Hq as [->|Hq]; [apply (okin_ext b T s1 s2 a1 B2 C1)|].
      apply elem_of_list_singleton in Hq as ->. exact C2. }
    split; [exact A|]. split; [|exact C].
    eapply ext_by_trans; [apply (IStat_lt b T s I)|exact B1|].
    eapply ext_by_trans; [apply (IStat_lt b T s1 I1)|exact B2|exact B].
  - (* TCut *) destruct (inst s (Some b) x e) as [s1 a] eqn:E1. injection H as <- <-. simpl in W.
    destruct (IH false s s1 a I W E1) as (I1 & B1 & C1).
    destruct a as [a|]; [|destruct C1; discriminate]. simpl.
    destruct (IStat_newNode b T s1 (KCutoff c) [a] 0 I1) as (A & B & C); [|exact Logic.I|].
    { intros q ->%elem_of_list_singleton. exact C1. }
    split; [exact A|]. split; [eapply ext_by_trans; [apply (IStat_lt b T s I)|exact B1|exact B]|exact C].
  - (* TBind *) destruct (inst s (Some b) x e) as [s1 a] eqn:E1. simpl in W. destruct W as [Wc We].
    destruct (IH false s s1 a I We E1) as (I1 & B1 & C1).
    destruct a as [a|]; [|destruct C1; discriminate]. simpl in H. injection H as <- <-.
    assert (Hcs : Forall (texp_wf s1 T true) cs).
    { eapply List.Forall_impl; [|apply (texp_wf_cases s T cs Wc)]. intros e0. apply (texp_wf_ext_by b s s1 T true e0 B1). }
    destruct (IStat_newBind b T s1 cs a I1 C1 Hcs) as (A & B & C).
    change (IStat b T (newBindWith false s1 cs a (Some b)).1 /\ ext_by b s (newBindWith false s1 cs a (Some b)).1 /\
            okin b T (newBindWith false s1 cs a (Some b)).1 (S (next s1))).
    split; [exact A|]. split; [eapply ext_by_trans; [apply (IStat_lt b T s I)|exact B1|exact B]|exact C].
  - (* TNil *) injection H as <- <-. simpl in W. split; [exact I|]. split; [apply ext_by_refl|auto].
Qed.

(** the graph clauses only read the dynamic fields: they survive fresh nodes, new bind records
    and benign log entries *)
Lemma TInv_dyn E s s' l :
  ids_ok s ->
  (next s <= next s')%nat -> (forall m, has s m -> has s' m) ->
  (forall m, has s' m -> has s m \/ (next s <= m)%nat) ->
  (forall m, dyn_eq (nd s' m) (nd s m)) ->
  (forall m, has s m -> decl (nd s' m) = decl (nd s m)) ->
  (forall m, has s m -> scope (nd s' m) = scope (nd s m)) ->
  reg s' = reg s -> obs s' = obs s -> heap s' = heap s -> numNodes s' = numNodes s ->
  maxHeight s' = maxHeight s -> log s' = l ++ log s -> Forall (ev_benign s) l ->
  (forall n, has s n -> binds s !! n = None -> binds s' !! n = None) ->
  (l = [] \/ forall n, inGraph (nd s n) = true -> EvInval n ∉ log s) ->
  TInv [] E s -> TInv [] E s'.
Proof.
  intros Hids Hnext Hh1 Hh2 Hdyn Hdecl Hscope Hreg Hobs Hheap Hnum Hmh Hlog Hl Hbn Hni T.
  destruct T as [t_edges0 t_zero0 t_nec0 t_necE0 t_W0 t_par0 t_height0 t_heap0 t_count0 t_obs0 t_valid0 t_log0 t_life0 t_lifeW0 t_nodup0].
  assert (Hg : forall m, inGraph (nd s' m) = inGraph (nd s m)) by (intros m; apply (Hdyn m)).
  assert (Hp : forall m, parents (nd s' m) = parents (nd s m)) by (intros m; apply (Hdyn m)).
  assert (Hv : forall m, valid (nd s' m) = valid (nd s m)) by (intros m; apply (Hdyn m)).
  assert (Hnec : forall m, isNecessary (nd s' m) = isNecessary (nd s m)).
  { intros m. destruct (Hdyn m) as (_&_&_&_&_&_&Hc&Ho&_&Hf&_). apply isNecessary_ext; assumption. }
  constructor.
  - apply (extend_edges s s' Hdyn t_edges0).
  - apply (extend_zero s s' Hdyn t_zero0).
  - intros n. rewrite Hg, Hnec. apply t_nec0.
  - intros n. rewrite Hg, Hnec. apply t_necE0.
  - intros n. rewrite Hg, Hnec. apply t_W0.
  - intros n Hn. rewrite Hg, Hp. intros Hgn. rewrite Hdecl by (apply has_inGraph, Hgn). apply t_par0; assumption.
  - apply (extend_height s s' Hdyn Hscope Hmh t_height0).
  - apply (extend_heap s s' Hdyn Hheap t_heap0).
  - apply (extend_count s s' Hdyn Hreg Hobs Hnum t_count0).
  - apply (extend_obs s s' Hnext Hh1 Hh2 Hdyn Hdecl Hscope Hobs Hbn Hids t_obs0).
  - intros n. rewrite Hg, Hv. apply t_valid0.
  - rewrite Hlog. destruct Hni as [->|Hni]; [exact t_log0|].
    apply (log_ok_benign s); auto. intros n Hn.
    apply (t_life0 n ltac:(intros Hw; inversion Hw)), Hn.
  - intros n Hn. rewrite Hg, Hlog, (lastNU_benign s l _ n Hl). apply t_life0, Hn.
  - intros n Hn. rewrite Hlog, (lastNU_benign s l _ n Hl). apply t_lifeW0, Hn.
  - exact t_nodup0.
Qed.

(** ** after the function has run: the record of [b] gets its new right-hand side, the main
       node its new declaration, and the static clauses hold in full again *)
Section finish.
  Context (b : nat) (T : nid) (s3 s7 : state) (root : option nid) (r3 r7 : bindrec).
  Hypothesis (I : IStat b T s3).
  Hypothesis (Hroot : match root with Some a => okin b T s3 a | None => b_rhsNodes r3 = [] end).
  Hypothesis (Hr3 : binds s3 !! b = Some r3) (Hr7 : binds s7 !! b = Some r7).
  Hypothesis (Hbne : forall b', b' <> b -> binds s7 !! b' = binds s3 !! b').
  Hypothesis (Hf : b_lhs r7 = b_lhs r3 /\ b_lhsChange r7 = b_lhsChange r3 /\ b_main r7 = b_main r3 /\
                   b_memo r7 = b_memo r3 /\ b_cases r7 = b_cases r3 /\ b_rhsNodes r7 = b_rhsNodes r3 /\
                   b_rhs r7 = root).
  Hypothesis (Hnm : b_memo r3 = false) (Hfc : b_cache r7 = b_cache r3).
  Hypothesis (Hnext : next s7 = next s3) (Hhas : forall m, has s7 m <-> has s3 m).
  Hypothesis (Hndne : forall m, m <> S b -> nd s7 m = nd s3 m).
  Hypothesis (Hndm : nd s7 (S b) = set decl (fun _ => b :: option_list root) (nd s3 (S b))).

  Local Lemma fin_scope m : scope (nd s7 m) = scope (nd s3 m).
  Proof. destruct (decide (m = S b)) as [->|Hne]; [rewrite Hndm; reflexivity|rewrite Hndne by exact Hne; reflexivity]. Qed.
  Local Lemma fin_kind m : nkind (nd s7 m) = nkind (nd s3 m).
  Proof. destruct (decide (m = S b)) as [->|Hne]; [rewrite Hndm; reflexivity|rewrite Hndne by exact Hne; reflexivity]. Qed.
  Local Lemma fin_decl m : decl (nd s7 m) = if decide (m = S b) then b :: option_list root else decl (nd s3 m).
  Proof. destruct (decide (m = S b)) as [->|Hne]; [rewrite Hndm; reflexivity|rewrite Hndne by exact Hne; reflexivity]. Qed.

  Local Lemma fin_bd b' : b' <> b -> bd s7 b' = bd s3 b'.
  Proof. intros H. unfold bd. rewrite Hbne by exact H. reflexivity. Qed.
  Local Lemma fin_bdb : bd s7 b = r7 /\ bd s3 b = r3.
  Proof. unfold bd. rewrite Hr3, Hr7. auto. Qed.
  Local Lemma fin_gen b' m : inGen s7 b' m <-> inGen s3 b' m.
  Proof.
    unfold inGen. destruct (decide (b' = b)) as [->|Hne]; [|rewrite fin_bd by exact Hne; reflexivity].
    destruct fin_bdb as [-> ->]. destruct Hf as (_&_&_&_&_&->&_). reflexivity.
  Qed.
  Local Lemma fin_chain n t d : chain s7 n t d <-> chain s3 n t d.
  Proof. apply chain_ext_iff. apply fin_scope. Qed.

  Lemma finish_static : ids_ok s7 /\ binds_wf s7 /\ kinds_ok s7 /\ scopes_ok s7 /\ scoping_ok s7.
  Proof.
    pose proof (i_bwf _ _ _ I b r3 Hr3) as Wb. rewrite decide_True in Wb by reflexivity.
    destruct Hf as (F1 & F2 & F3 & F4 & F5 & F6 & F7).
    destruct (i_chain _ _ _ I) as [d0 Hc0].
    assert (Hsm : scope (nd s3 (S b)) = scope (nd s3 b)) by apply (bw_scope _ _ _ Wb).
    assert (HcS : (chain s3 (S b) T d0 /\ scope (nd s3 b) <> None) \/
                  (chain s3 (S b) (S b) 0 /\ T = b /\ d0 = 0%nat)).
    { destruct (scope (nd s3 b)) as [b0|] eqn:Eb.
      - left. split; [|discriminate]. destruct (chain_in_inv s3 b b0 T d0 Eb Hc0) as (d' & -> & C').
        apply (chain_in s3 (S b) b0); [exact Hsm|exact C'].
      - right. destruct (chain_top_inv s3 b T d0 Eb Hc0) as [-> ->]. split; [|auto].
        apply chain_top. exact Hsm. }
    assert (Hroot_has : forall a, root = Some a -> has s3 a).
    { intros a ->. apply Hroot. }
    assert (Hroot_nl : forall a, root = Some a -> not_lhs (nd s3 a)).
    { intros a ->. apply Hroot. }
    split; [|split; [|split; [|split]]].
    - destruct (i_ids _ _ _ I) as [I1 I2]. split.
      + intros m Hm. rewrite Hnext. apply I1, Hhas, Hm.
      + intros n q. rewrite fin_decl, Hhas. destruct (decide (n = S b)) as [->|]; [|apply I2].
        intros [->|Hq]%elem_of_cons; [apply (bw_has_lhs _ _ _ Wb)|].
        destruct root as [a|]; [|inversion Hq]. apply elem_of_list_singleton in Hq as ->. apply Hroot_has. reflexivity.
    - intros b' r' Hr'. destruct (decide (b' = b)) as [->|Hne].
      + rewrite Hr7 in Hr'. injection Hr' as <-. destruct Wb as [W1 W2 W3 W3c W4 W5 W6 W7 W8 W9 W10 W11 W12 W13 W14].
        constructor; rewrite ?F1, ?F2, ?F3, ?F4, ?F5, ?F6, ?F7, ?Hfc, ?fin_kind, ?fin_scope, ?Hhas; auto.
        * rewrite Hnm. discriminate.
        * intros x q Hq. rewrite Hhas, fin_scope. destruct (W3c x q Hq) as (A1 & A2 & A3). split; [exact A1|]. split; [exact A2|].
          intros k. rewrite fin_kind. apply A3.
        * rewrite fin_decl, decide_False by lia. exact W8.
        * rewrite fin_decl, decide_True by reflexivity. reflexivity.
        * intros n Hn. rewrite Hhas, fin_scope. apply (i_bnodes _ _ _ I n). unfold inGen.
          destruct fin_bdb as [_ ->]. exact Hn.
        * pose proof (i_bnodup _ _ _ I) as Hnd. destruct fin_bdb as [_ E]. rewrite E in Hnd. exact Hnd.
        * intros ->. exact Hroot.
        * intros t d Hc. apply fin_chain in Hc.
          eapply List.Forall_impl; [|apply (W14 t d Hc)]. intros e.
          apply texp_wf_ext; intros; [apply Hhas; assumption|apply fin_scope|apply fin_kind].
      + rewrite Hbne in Hr' by exact Hne. pose proof (i_bwf _ _ _ I b' r' Hr') as W. rewrite decide_False in W by exact Hne.
        destruct W as [W1 W2 W3 W3c W4 W5 W6 W7 W8 W9 W10 W11 W12 W13 W14].
        assert (HSb : S b' <> S b) by congruence.
        assert (Hb'S : b' <> S b).
        { intros ->. rewrite (bw_kind_main _ _ _ Wb) in W6. discriminate. }
        constructor; rewrite ?fin_kind, ?fin_scope, ?Hhas; auto.
        * intros x q Hq. rewrite Hhas, fin_scope. destruct (W3c x q Hq) as (A1 & A2 & A3). split; [exact A1|]. split; [exact A2|].
          intros k. rewrite fin_kind. apply A3.
        * rewrite fin_decl, decide_False by exact Hb'S. exact W8.
        * rewrite fin_decl, decide_False by exact HSb. exact W9.
        * intros n Hn. rewrite Hhas, fin_scope. apply W11, Hn.
        * intros t d Hc. apply fin_chain in Hc.
          eapply List.Forall_impl; [|apply (W14 t d Hc)]. intros e.
          apply texp_wf_ext; intros; [apply Hhas; assumption|apply fin_scope|apply fin_kind].
    - intros n Hn. rewrite fin_kind. apply Hhas in Hn. pose proof (i_kinds _ _ _ I n Hn) as K.
      assert (Hdom : forall b0, is_Some (binds s3 !! b0) -> is_Some (binds s7 !! b0)).
      { intros b0 H0. destruct (decide (b0 = b)) as [->|Hne]; [rewrite Hr7; eauto|rewrite Hbne by exact Hne; exact H0]. }
      destruct (nkind (nd s3 n)); auto; destruct K as [K1 K2]; (split; [exact K1|apply Hdom, K2]).
    - intros n b0. rewrite fin_scope. intros Hs. destruct (i_scopes _ _ _ I n b0 Hs) as [A B]. split; [|exact B].
      destruct (decide (b0 = b)) as [->|Hne]; [rewrite Hr7; eauto|rewrite Hbne by exact Hne; exact A].
    - split.
      + intros n q. rewrite fin_decl, !fin_scope, fin_kind. destruct (decide (n = S b)) as [->|Hne].
        * intros [->|Hq]%elem_of_cons; [right; left; symmetry; exact Hsm|].
          destruct root as [a|]; [|inversion Hq]. apply elem_of_list_singleton in Hq as ->.
          destruct Hroot as [_ [[Hs _]|[Hs _]]]; [left; exact Hs|].
          right; right. exists b. split; [apply (bw_kind_main _ _ _ Wb)|]. split; [exact Hs|].
          destruct fin_bdb as [-> _]. exact F7.
        * intros Hq. destruct (i_decl _ _ _ I n q Hq) as [?|[?|(b0 & K1 & K2 & K3)]]; auto.
          right; right. exists b0. split; [exact K1|]. split; [exact K2|].
          rewrite fin_bd; [exact K3|]. intros ->.
          pose proof (i_kinds _ _ _ I n (has_decl s3 n q Hq)) as K. rewrite K1 in K. destruct K as [-> _]. congruence.
      + intros n q b0. rewrite fin_decl, !fin_scope, !fin_gen. destruct (decide (n = S b)) as [->|Hne]; [|apply (i_gen _ _ _ I)].
        intros [->|Hq]%elem_of_cons Hsn Hsq Hgn.
        * apply (i_gen _ _ _ I (S b) b b0); auto. rewrite (bw_decl_main _ _ _ Wb). left.
        * destruct root as [a|]; [|inversion Hq]. apply elem_of_list_singleton in Hq as ->. exfalso.
          destruct Hroot as [_ [[Hs _]|[Hs _]]]; [congruence|].
          assert (b0 = b) as -> by congruence.
          destruct (i_scopes _ _ _ I (S b) b Hsn) as [_ Hlt]. lia.
      + intros b0 q. rewrite fin_scope, fin_gen. destruct (decide (b0 = b)) as [->|Hne].
        * destruct fin_bdb as [-> _]. rewrite F7. intros ->. destruct Hroot as [_ [[Hs _]|[Hs Hg]]]; auto.
        * rewrite fin_bd by exact Hne. apply (i_rhs _ _ _ I b0 q Hne).
      + destruct (i_acyc _ _ _ I) as (own & O1 & [g0 Hg0] & O2 & O3).
        assert (Hob : own b = None) by (apply (own_bind_None own s3 b r3 O1 Hr3), (bw_kind_lhs _ _ _ Wb)).
        assert (HoS : own (S b) = None).
        { destruct (own (S b)) as [b1|] eqn:Eo; [|reflexivity]. exfalso.
          destruct (O1 (S b) b1 Eo) as (_ & _ & _ & _ & _ & K). rewrite (bw_kind_main _ _ _ Wb) in K. exact K. }
        assert (fin_g : forall n t d, gchain own s7 n t d <-> gchain own s3 n t d).
        { intros n t d. split; apply gchain_ext; intros m; [symmetry|]; apply fin_scope. }
        assert (HgS : (gchain own s3 (S b) T g0 /\ scope (nd s3 b) <> None) \/
                      (gchain own s3 (S b) (S b) 0 /\ T = b /\ g0 = 0%nat)).
        { destruct (scope (nd s3 b)) as [b0|] eqn:Eb.
          - left. split; [|discriminate]. destruct (gchain_in_inv own s3 b b0 T g0 Eb Hg0) as (d' & -> & C').
            apply (gchain_in own s3 (S b) b0); [unfold vsc; rewrite Hsm; reflexivity|exact C'].
          - right. destruct (gchain_plain own s3 b T g0 Eb Hob Hg0) as [-> ->]. split; [|auto].
            apply gchain_top. unfold vsc. rewrite Hsm, HoS. reflexivity. }
        exists own. split; [apply (own_ok_ext own s3 s7); auto using fin_scope, fin_kind|]. split.
        * intros n q. rewrite fin_decl. destruct (decide (n = S b)) as [->|Hne].
          -- intros Hq tq dq tn dn Cq Cn. apply fin_g in Cq, Cn.
             destruct HgS as [[HgS _]|(HgS & -> & ->)]; destruct (gchain_fun _ _ _ _ _ _ _ Cn HgS) as [-> ->].
             ++ apply elem_of_cons in Hq as [->|Hq].
                ** destruct (gchain_fun _ _ _ _ _ _ _ Cq Hg0) as [-> ->]. right. split; [reflexivity|]. right. split; [reflexivity|lia].
                ** destruct root as [a|]; [|inversion Hq]. apply elem_of_list_singleton in Hq as ->.
                   destruct Hroot as [_ [[Hs Hl]|[Hs _]]].
                   --- pose proof (gchain_top_le own s3 (i_scopes _ _ _ I) O1 a tq dq Cq). left. lia.
                   --- destruct (gchain_in_inv own s3 a b tq dq Hs Cq) as (d' & -> & C').
                       destruct (gchain_fun _ _ _ _ _ _ _ C' Hg0) as [-> ->]. right. split; [reflexivity|]. left. lia.
             ++ apply elem_of_cons in Hq as [->|Hq].
                ** destruct (gchain_fun _ _ _ _ _ _ _ Cq Hg0) as [-> ->]. left. lia.
                ** destruct root as [a|]; [|inversion Hq]. apply elem_of_list_singleton in Hq as ->.
                   destruct Hroot as [_ [[Hs Hl]|[Hs _]]].
                   --- pose proof (gchain_top_le own s3 (i_scopes _ _ _ I) O1 a tq dq Cq). left. lia.
                   --- destruct (gchain_in_inv own s3 a b tq dq Hs Cq) as (d' & -> & C').
                       destruct (gchain_fun _ _ _ _ _ _ _ C' Hg0) as [-> ->]. left. lia.
          -- intros Hq tq dq tn dn Cq Cn. apply fin_g in Cq, Cn. apply (O2 n q Hq); assumption.
        * intros b0 r0 x0 q Hr0 Hq.
          assert (exists r1, binds s3 !! b0 = Some r1 /\ (x0, Some q) ∈ b_cache r1) as (r1 & Hr1 & Hq1).
          { destruct (decide (b0 = b)) as [->|Hne].
            - rewrite Hr7 in Hr0. injection Hr0 as <-. rewrite Hfc in Hq. eauto.
            - rewrite Hbne in Hr0 by exact Hne. eauto. }
          intros tq dq tn dn Cq Cn. apply fin_g in Cq, Cn. apply (O3 b0 r1 x0 q Hr1 Hq1); assumption.
      + intros n q b0. rewrite fin_decl, fin_kind. destruct (decide (n = S b)) as [->|Hne]; [|apply (i_lhs _ _ _ I)].
        intros [->|Hq]%elem_of_cons Hkq; [reflexivity|].
        destruct root as [a|]; [|inversion Hq]. apply elem_of_list_singleton in Hq as ->.
        pose proof (Hroot_nl a eq_refl) as Hnl. unfold not_lhs in Hnl. rewrite Hkq in Hnl. destruct Hnl.
      + intros b0 q k0. rewrite fin_kind. destruct (decide (b0 = b)) as [->|Hne].
        * destruct fin_bdb as [-> _]. rewrite F7. intros -> Hkq.
          pose proof (Hroot_nl q eq_refl) as Hnl. unfold not_lhs in Hnl. rewrite Hkq in Hnl. destruct Hnl.
        * rewrite fin_bd by exact Hne. apply (i_rhsnl _ _ _ I b0 q k0).
      + intros b0 b1. rewrite !fin_gen, fin_kind. apply (i_pair _ _ _ I b0 b1).
  Qed.
End finish.

Lemma TInv_soft E s s' :
  soft s s' -> hreg_ok s -> (forall n, inGraph (nd s n) = true -> EvInval n ∉ log s) -> TInv [] E s -> TInv [] E s'.
Proof.
  intros S Hr Hni T. destruct (so_log _ _ S) as (l & Hl & Fl).
  pose proof (so_struct _ _ S) as SS.
  assert (Hk : heap_ok s') by (apply (so_heap _ _ S); [apply T|exact Hr]).
  destruct T as [t_edges0 t_zero0 t_nec0 t_necE0 t_W0 t_par0 t_height0 t_heap0 t_count0 t_obs0 t_valid0 t_log0 t_life0 t_lifeW0 t_nodup0].
  destruct SS as [Snext Sbinds Shas Sreg Sobs Sadj Sinvq Snum Smh Snode].
  assert (Hd : forall n, decl (nd s' n) = decl (nd s n)) by (intros n; apply Snode).
  assert (Hsc : forall n, scope (nd s' n) = scope (nd s n)) by (intros n; apply Snode).
  assert (Hh : forall n, height (nd s' n) = height (nd s n)) by (intros n; apply Snode).
  assert (Hp : forall n, parents (nd s' n) = parents (nd s n)) by (intros n; apply Snode).
  assert (Hc : forall n, children (nd s' n) = children (nd s n)) by (intros n; apply Snode).
  assert (Ho : forall n, observers (nd s' n) = observers (nd s n)) by (intros n; apply Snode).
  assert (Hv : forall n, valid (nd s' n) = valid (nd s n)) by (intros n; apply Snode).
  assert (Hf : forall n, forceNec (nd s' n) = forceNec (nd s n)) by (intros n; apply Snode).
  assert (Hg : forall n, inGraph (nd s' n) = inGraph (nd s n)) by (intros n; apply Snode).
  assert (Hnec : forall n, isNecessary (nd s' n) = isNecessary (nd s n)) by (intros; apply isNecessary_ext; auto).
  assert (Hnil : forall m : nid, m ∉ []) by (intros m Hm; inversion Hm).
  constructor.
  - apply (edges_ok_ext s s'); auto.
  - apply (zero_ok_ext s s'); auto.
  - intros n. rewrite Hg, Hnec. apply t_nec0.
  - intros n. rewrite Hg, Hnec. apply t_necE0.
  - intros w Hw. inversion Hw.
  - intros n. rewrite Hg, Hp, Hd. apply t_par0.
  - apply (height_ok_ext s s'); auto.
  - exact Hk.
  - apply (count_ok_ext s s'); auto.
  - apply (obs_ok_ext s s'); auto.
  - intros n. rewrite Hg, Hv. apply t_valid0.
  - rewrite Hl. apply (log_ok_benign s); auto. intros n Hn. apply (t_life0 n (Hnil n)), Hn.
  - intros n _. rewrite Hg, Hl, (lastNU_benign s l _ n Fl). apply t_life0, Hnil.
  - intros w Hw. inversion Hw.
  - constructor.
Qed.

(* a state that differs only in its bind records *)
Lemma TInv_binds E s s' : TInv [] E s ->
  nodes s' = nodes s -> next s' = next s -> reg s' = reg s -> obs s' = obs s -> heap s' = heap s ->
  numNodes s' = numNodes s -> maxHeight s' = maxHeight s -> log s' = log s -> ids_ok s ->
  (forall n, binds s !! n = None -> binds s' !! n = None) -> TInv [] E s'.
Proof.
  intros T Hn Hnx Hr Ho Hw Hnn Hm Hl Hids Hbn.
  assert (Hnd : forall m, nd s' m = nd s m) by (intros m; unfold nd; rewrite Hn; reflexivity).
  assert (Hhas : forall m, has s' m <-> has s m) by (intros m; unfold has; rewrite Hn; reflexivity).
  apply (TInv_dyn E s s' [] Hids); auto; try (rewrite Hnx; lia);
    try (intros m; rewrite Hnd; try reflexivity; try apply dyn_eq_refl; fail);
    try (intros m Hm'; apply Hhas, Hm'; fail); try (intros m Hm'; left; apply Hhas, Hm'; fail);
    try (intros m _; rewrite Hnd; reflexivity); try (intros m _; apply Hbn).
Qed.

Lemma bind_wf_nodes_same s s' b r :
  nodes s' = nodes s -> bind_wf s b r -> bind_wf s' b r.
Proof.
  intros Hn W. assert (Hnd : forall m, nd s' m = nd s m) by (intros m; unfold nd; rewrite Hn; reflexivity).
  assert (Hh : forall m, has s' m <-> has s m) by (intros m; unfold has; rewrite Hn; reflexivity).
  apply (bind_wf_mono2 s s'); auto.
  - intros n. apply Hh.
  - intros t d. apply chain_ext. intros n. rewrite Hnd. reflexivity.
Qed.

Lemma IStat_start t b T d :
  ids_ok t -> binds_wf t -> kinds_ok t -> scopes_ok t -> scoping_ok t ->
  is_Some (binds t !! b) -> chain t b T d ->
  IStat b T (updb t b (set b_rhsNodes (fun _ => []))).
Proof.
  intros Hids Hb Hk Hs [S1 S2 S3 S4 S5 S6 S7] [r Hr] Hc.
  set (f1 := set b_rhsNodes (fun _ : list nid => [])). set (t1 := updb t b f1).
  assert (Hnd : forall m, nd t1 m = nd t m) by reflexivity.
  assert (Hlook : forall b', binds t1 !! b' = if decide (b' = b) then f1 <$> binds t !! b else binds t !! b').
  { intros b'. apply binds_updb_lookup. }
  assert (Hbdb : bd t1 b = f1 (bd t b)) by (apply bd_updb_eq; eauto).
  assert (Hbdne : forall b', b' <> b -> bd t1 b' = bd t b') by (intros b' H; apply bd_updb_ne, H).
  assert (Hrhs : forall b0, b_rhs (bd t1 b0) = b_rhs (bd t b0)).
  { intros b0. destruct (decide (b0 = b)) as [->|H]; [rewrite Hbdb; reflexivity|rewrite Hbdne by exact H; reflexivity]. }
  assert (Hgen : forall b0 m, inGen t1 b0 m <-> b0 <> b /\ inGen t b0 m).
  { intros b0 m. unfold inGen. destruct (decide (b0 = b)) as [->|H].
    - rewrite Hbdb. cbn. split; [intros Hx; inversion Hx|intros [Hx _]; congruence].
    - rewrite Hbdne by exact H. tauto. }
  constructor.
  - apply (ids_ok_ext t t1); auto; reflexivity.
  - intros b' r'. rewrite Hlook. destruct (decide (b' = b)) as [->|Hne].
    + rewrite Hr. intros [= <-]. apply (bind_wf_nodes_same t t1); [reflexivity|].
      destruct (Hb b r Hr) as [W1 W2 W3 W3c W4 W5 W6 W7 W8 W9 W10 W11 W12 W13 W14].
      unfold f1. rewrite set_rhsNodes_nil_idem.
      constructor; auto; cbn; [intros Hm; split; [reflexivity|apply (W3 Hm)]|intros n Hn; inversion Hn|constructor].
    + intros Hr'. apply (bind_wf_nodes_same t t1); [reflexivity|]. apply Hb, Hr'.
  - intros n [_ Hn]%Hgen. destruct (Hb b r Hr) as [_ _ _ _ _ _ _ _ _ _ _ W11 _ _ _].
    unfold inGen, bd in Hn. rewrite Hr in Hn. simpl in Hn. apply (W11 n Hn).
  - rewrite Hbdb. cbn. constructor.
  - rewrite Hlook, decide_True, Hr by reflexivity. eauto.
  - exists d. revert Hc. apply chain_ext. intros n. reflexivity.
  - assert (Hdom : forall b0, is_Some (binds t !! b0) -> is_Some (binds t1 !! b0)).
    { intros b0 [r' K2]. rewrite Hlook. destruct (decide _) as [->|]; [rewrite Hr|rewrite K2]; eauto. }
    intros n Hn. change (has t n) in Hn. change (nd t1 n) with (nd t n). specialize (Hk n Hn).
    destruct (nkind (nd t n)); auto; destruct Hk as [K1 K2]; (split; [exact K1|apply Hdom, K2]).
  - assert (Hdom : forall b0, is_Some (binds t !! b0) -> is_Some (binds t1 !! b0)).
    { intros b0 [r' K2]. rewrite Hlook. destruct (decide _) as [->|]; [rewrite Hr|rewrite K2]; eauto. }
    intros n b0 Hn. change (nd t1 n) with (nd t n) in Hn. destruct (Hs n b0 Hn) as [K2 K3]. split; [apply Hdom, K2|exact K3].
  - intros n q Hq. destruct (S1 n q Hq) as [?|[?|(b0 & ? & ? & ?)]]; auto.
    right; right. exists b0. rewrite Hrhs. auto.
  - intros n q b0 Hq H1 H2 [Hne Hg]%Hgen. apply Hgen. split; [exact Hne|]. apply (S2 n q b0 Hq H1 H2 Hg).
  - intros b0 q Hne. rewrite Hrhs. intros Hq. destruct (S3 b0 q Hq) as [?|[? ?]]; auto.
    right. split; [assumption|]. apply Hgen. auto.
  - destruct S4 as (own & O1 & O2 & O3). exists own.
    assert (Hob : own b = None) by (apply (own_bind_None own t b r O1 Hr), (bw_kind_lhs _ _ _ (Hb b r Hr))).
    split; [apply (own_ok_ext own t t1); auto; reflexivity|]. split.
    { exists d. apply (gchain_ext own t t1); [intros; reflexivity|].
      apply (chain_gchain own t Hs O1); [|exact Hc|exact Hob].
      intros b0 r0 Hr0. apply (bw_kind_lhs _ _ _ (Hb b0 r0 Hr0)). }
    split.
    + intros n q Hq. apply (gmu_lt_ext own t t1); [intros; reflexivity|]. apply O2, Hq.
    + intros b0 r0 x0 q. rewrite Hlook. intros Hr0 Hq. apply (gmu_lt_ext own t t1); [intros; reflexivity|].
      destruct (decide (b0 = b)) as [->|Hne].
      * rewrite Hr in Hr0. injection Hr0 as <-. apply (O3 b r x0 q Hr Hq).
      * apply (O3 b0 r0 x0 q Hr0 Hq).
  - exact S5.
  - intros b0 q k0. rewrite Hrhs. apply S6.
  - intros b0 b1 [Hne Hg]%Hgen Hkk. apply Hgen. split; [exact Hne|]. apply (S7 b0 b1 Hg Hkk).
Qed.

Lemma state_binds_eta (s : state) B : binds s = B -> s <| binds := B |> = s.
Proof. intros <-. destruct s; reflexivity. Qed.

Lemma state_binds_set_set (s : state) B1 B2 : s <| binds := B1 |> <| binds := B2 |> = s <| binds := B2 |>.
Proof. destruct s; reflexivity. Qed.

Lemma nth_texp_wf s T cs k : Forall (texp_wf s T true) cs -> texp_wf s T true (nth k cs TNil).
Proof.
  intros H. destruct (nth_in_or_default k cs TNil) as [Hin| ->]; [|reflexivity].
  rewrite List.Forall_forall in H. apply H, Hin.
Qed.

(** ** registered scope nodes have a registered owner; a registered lhs-change node has its main node registered *)
Lemma TInv_nec_ok s : TInv [] noE s -> nec_ok s.
Proof. intros T n. apply (t_nec _ _ _ T); [intros H; inversion H|intros []]. Qed.

Lemma TInv_par_ok s : TInv [] noE s -> par_ok s.
Proof. intros T n. apply (t_par _ _ _ T). intros H; inversion H. Qed.

Lemma PInv_sreg s : PInv s ->
  forall m b, inGraph (nd s m) = true -> scope (nd s m) = Some b -> inGraph (nd s b) = true.
Proof.
  intros P. pose proof (p_t s P) as T. apply scope_registered;
    first [apply T|apply (TInv_nec_ok s T)|apply (TInv_par_ok s T)|apply (pq_force s (p_pq s P))
          |apply (p_binds s P)|apply (p_kinds s P)|apply (p_scoping s P)].
Qed.

Lemma lhs_main_reg s b :
  edges_ok s -> zero_ok s -> nec_ok s -> par_ok s -> obs_ok s -> (forall m, forceNec (nd s m) = false) ->
  scoping_ok s -> is_Some (binds s !! b) -> nkind (nd s b) = KBindLhs b ->
  inGraph (nd s b) = true -> inGraph (nd s (S b)) = true.
Proof.
  intros He Hz Hnec Hpar Hobs Hf Hsc [r Hr] Hk Hg.
  pose proof Hg as Hn. rewrite (Hnec b) in Hn. apply isNecessary_true in Hn as [Hn|[Hn|Hn]].
  - rewrite Hf in Hn. discriminate.
  - destruct (children (nd s b)) as [|c l] eqn:Ec; [congruence|].
    assert (Hc : c ∈ children (nd s b)) by (rewrite Ec; left).
    pose proof (child_registered s c b He Hz Hc) as Hgc.
    apply (edges_parent_child s c b He) in Hc. rewrite (Hpar c Hgc) in Hc.
    rewrite (sc_lhs s Hsc c b b Hc Hk) in Hgc. exact Hgc.
  - destruct (observers (nd s b)) as [|o l] eqn:Eo; [congruence|].
    assert (Ho : o ∈ observers (nd s b)) by (rewrite Eo; left).
    apply (ob_iff s Hobs) in Ho. rewrite (ob_user s Hobs o b Ho) in Hr. discriminate.
Qed.

(* what the pieces of a bind's stabilization add to the log *)
Lemma setStale_log s n s' : setStale s n = Ok s' -> log s' = log s.
Proof.
  intros H. apply setStale_inv in H as [[_ ->]|[_ H]]; [reflexivity|]. cbn zeta in H.
  destruct H as [[_ ->]|[_ H]]; [reflexivity|]. apply heapAdd_inv in H as (w & _ & ->). reflexivity.
Qed.

Lemma varSet_log s v x s' : varSet s v x = Ok s' -> log s' = log s.
Proof.
  unfold varSet. destruct (_ && _ && _); [intros [= <-]; reflexivity|].
  destruct (status s =? 1); [intros [= <-]; reflexivity|].
  destruct (isNecessary _); [|intros [= <-]; reflexivity]. intros H. apply setStale_log in H. exact H.
Qed.

Lemma applyActions_log acts : forall s s' f0 f,
  rfold (fun '(s, f) a =>
           match f with
           | Some _ => Ok (s, f)
           | None =>
             match a with
             | AFail k => Ok (s, Some k)
             | ASet v x => s <-! varSet s v x; Ok (s, None)
             | AUpdate v d => s <-! varUpdate s v d; Ok (s, None)
             end
           end) acts (s, f0) = Ok (s', f) -> log s' = log s.
Proof.
  induction acts as [|a acts IH]; intros s s' f0 f H; simpl in H; [injection H as <- _; reflexivity|].
  apply rbind_ok in H as ([s1 f1] & H1 & H). rewrite (IH s1 s' f1 f H).
  destruct f0; [injection H1 as <- _; reflexivity|]. destruct a as [k|v x|v d].
  - injection H1 as <- _. reflexivity.
  - apply rbind_ok in H1 as (s2 & H2 & [= <- _]). apply (varSet_log _ _ _ _ H2).
  - apply rbind_ok in H1 as (s2 & H2 & [= <- _]). unfold varUpdate in H2. apply (varSet_log _ _ _ _ H2).
Qed.

Lemma invoke_log_none p s n w s' : invoke p s n w = Ok (s', None) -> log s' = log s.
Proof.
  intros H. unfold invoke in H. apply rbind_ok in H as ([s1 f] & H1 & H).
  unfold applyActions in H1. pose proof (applyActions_log _ _ _ _ _ H1) as E1.
  destruct f as [[|]|]; try discriminate. injection H as <-. exact E1.
Qed.

Lemma isVar_intro s n e : has s n -> nkind (nd s n) = KVar e -> isVar s n = true.
Proof.
  unfold isVar, has, nd. intros [y Hy]. rewrite Hy. simpl. intros ->. reflexivity.
Qed.

(** ** running the function of the bind [b]: from the pass invariant to the state in which the
       record of [b] and the declaration of its main node have been switched to the new
       right-hand side (but the graph still links the old one) *)
Section run_fn.
  Context (p : plan) (s : state) (b : nat).
  Hypothesis (P : PInv s) (Hp : plan_ok s p = true).
  Hypothesis (Hk : nkind (nd s b) = KBindLhs b) (Hg : inGraph (nd s b) = true).
  Hypothesis (Hnomemo : b_memo (bd s b) = false).
  Let f1 := set b_rhsNodes (fun _ : list nid => []).
  Let s1 := updb s b f1.
  Context (s2 : state) (Hinv : invoke p s1 b WFn = Ok (s2, None)).
  Context (x : Z) (s3 : state) (root : option nid).
  Let case := nth (Z.to_nat (x mod Z.of_nat (length (b_cases (bd s b))))) (b_cases (bd s b)) TNil.
  Hypothesis (Hinst : inst s2 (Some b) x case = (s3, root)).
  Let f5 := fun r : bindrec => r <| b_gen := S (b_gen r) |>
                                 <| b_cache := if b_memo r then b_cache r ++ [(x, root)] else b_cache r |>.
  Let s6 := updb (updb (emit (EvBindFn b x root) s3) b f5) b (set b_rhs (fun _ => root)).
  Let s7 := upd s6 (S b) (set decl (fun _ => match root with Some r => [b; r] | None => [b] end)).

  Local Lemma rf_rec : exists r0, binds s !! b = Some r0.
  Proof.
    pose proof (p_kinds s P b (has_inGraph s b Hg)) as K. rewrite Hk in K. apply K.
  Qed.

  Local Lemma rf_soft : soft s (s2 <| binds := binds s |>) /\ binds s2 = binds s1.
  Proof.
    assert (Hst : status s1 = 1) by apply (pq_status s (p_pq s P)).
    pose proof (invoke_soft p s1 b WFn s2 None Hst Hp Hinv) as S12.
    split; [|apply (ss_binds _ _ (so_struct _ _ S12))].
    apply (soft_binds_irrel s s2 _ (binds s1)); [exact S12|reflexivity].
  Qed.

  (* the states along the way *)
  Lemma run_fn_inst : exists T d0,
    chain s b T d0 /\ IStat b T s3 /\ ext_by b s2 s3 /\
    match root with Some a => okin b T s3 a | None => s3 = s2 end /\
    TInv [] noE s2 /\ PInv (s2 <| binds := binds s |>) /\ b_rhsNodes (bd s2 b) = [] /\
    (forall b', b' <> b -> bd s2 b' = bd s b') /\ b_rhs (bd s2 b) = b_rhs (bd s b) /\
    nodes s2 = nodes (s2 <| binds := binds s |>).
  Proof.
    destruct rf_rec as [r0 Hr0]. destruct rf_soft as [S02 Hb2].
    set (s2' := s2 <| binds := binds s |>) in *.
    pose proof (PInv_of_soft s s2' P S02) as P2.
    destruct (PInv_split s2' P2) as (T2' & R2' & F2').
    assert (E2 : s2 = updb s2' b f1).
    { unfold updb, s2'. cbn [binds set]. rewrite state_binds_set_set. symmetry. apply state_binds_eta. exact Hb2. }
    destruct (chain_exists s2' (m_scopes _ _ R2') b) as (T & d0 & Hc2).
    assert (Hsc2 : forall n, scope (nd s2' n) = scope (nd s n)).
    { intros n. apply (ss_node _ _ (so_struct _ _ S02) n). }
    assert (Hc : chain s b T d0) by (revert Hc2; apply chain_ext; intros n; symmetry; apply Hsc2).
    assert (Hbs2' : binds s2' !! b = Some r0) by exact Hr0.
    pose proof (IStat_start s2' b T d0 (m_ids _ _ R2') (m_binds _ _ R2') (m_kinds _ _ R2') (m_scopes _ _ R2')
                  (m_scoping _ _ R2') ltac:(rewrite Hbs2'; eauto) Hc2) as I2.
    fold f1 in I2. rewrite <- E2 in I2.
    assert (Hcase : texp_wf s2 T true case).
    { unfold case. apply nth_texp_wf.
      assert (Ebd : b_cases (bd s b) = b_cases r0) by (unfold bd; rewrite Hr0; reflexivity). rewrite Ebd.
      pose proof (bw_cases _ _ _ (m_binds _ _ R2' b r0 Hbs2') T d0 Hc2) as Hcs.
      eapply List.Forall_impl; [|exact Hcs]. intros e. apply texp_wf_ext; intros; [assumption|reflexivity|reflexivity]. }
    destruct (inst_spec b T x case true s2 s3 root I2 Hcase Hinst) as (I3 & E23 & Hroot).
    exists T, d0. split; [exact Hc|]. split; [exact I3|]. split; [exact E23|]. split.
    { destruct root; [exact Hroot|apply Hroot]. }
    split.
    { apply (TInv_binds noE s2' s2 T2'); try reflexivity; [apply (m_ids _ _ R2')|].
      intros n Hn. rewrite Hb2. unfold s1. rewrite binds_updb_lookup.
      destruct (decide (n = b)) as [->|]; [|exact Hn]. change (binds s2' !! b) with (binds s !! b) in Hn. rewrite Hn. reflexivity. }
    split; [exact P2|]. split.
    { unfold bd. rewrite Hb2. unfold s1. rewrite binds_updb_lookup, decide_True, Hr0 by reflexivity. reflexivity. }
    split; [|split; [|reflexivity]].
    - intros b' Hne. unfold bd. rewrite Hb2. unfold s1. rewrite binds_updb_lookup, decide_False by exact Hne. reflexivity.
    - unfold bd. rewrite Hb2. unfold s1. rewrite binds_updb_lookup, decide_True, Hr0 by reflexivity. reflexivity.
  Qed.

  Let oldNodes := b_rhsNodes (bd s b).
  Let oldRhs := b_rhs (bd s b).

  Record fn_post : Prop := {
    fp_T6 : TInv [] noE s6;
    fp_R7 : RestM (fun n => n ∈ oldNodes) s7;
    fp_vc7 : forall m q, valid (nd s7 m) = true -> q ∈ decl (nd s7 m) -> valid (nd s7 q) = true;
    fp_force : forall n, forceNec (nd s6 n) = false;
    fp_rhs : b_rhs (bd s7 b) = root;
    fp_decl6 : decl (nd s6 (S b)) = b :: option_list oldRhs;
    fp_root : match root with
              | Some r => has s6 r /\ not_lhs (nd s6 r) /\
                          (scope (nd s6 r) = None \/ (scope (nd s6 r) = Some b /\ inGen s7 b r))
              | None => True
              end;
    fp_new : forall n, inGen s7 b n -> ~ has s n;
    fp_old : forall n, n ∈ oldNodes -> has s n /\ scope (nd s6 n) = Some b /\ valid (nd s6 n) = true;
    fp_oldnd : forall n, has s n -> struct_eq (nd s6 n) (nd s n);
    fp_has : forall n, has s n -> has s6 n;
    fp_sreg : forall m b', inGraph (nd s6 m) = true -> scope (nd s6 m) = Some b' -> inGraph (nd s6 b') = true;
    fp_main : inGraph (nd s6 (S b)) = true;
    fp_lhs : inGraph (nd s6 b) = true /\ nkind (nd s6 b) = KBindLhs b;
    fp_oldne : match oldRhs with Some o => o <> b | None => oldNodes = [] end;
    fp_pair1 : forall b1, S b1 ∈ oldNodes -> nkind (nd s6 (S b1)) = KBindMain b1 -> b1 ∈ oldNodes;
    fp_pair2 : forall b1, b1 ∈ oldNodes -> nkind (nd s6 b1) = KBindLhs b1 -> S b1 ∈ oldNodes;
    fp_plan : plan_ok s7 p = true;
    fp_stab : stabNum s7 = stabNum s
  }.

  Lemma run_fn_post : fn_post.
  Proof.
    destruct run_fn_inst as (T & d0 & Hc & I3 & E23 & Hroot & T2 & P2 & Hrn2 & Hbd2 & Hrhs2 & _).
    destruct rf_rec as [r0 Hr0]. destruct rf_soft as [S02 Hb2].
    set (s2' := s2 <| binds := binds s |>) in *.
    destruct (PInv_split s2' P2) as (T2' & R2' & F2').
    assert (Hnd2 : forall m, nd s2 m = nd s2' m) by reflexivity.
    assert (Hhas2 : forall m, has s2 m <-> has s m) by (intros m; apply (ss_has _ _ (so_struct _ _ S02) m)).
    assert (Hst2 : forall m, struct_eq (nd s2 m) (nd s m)) by (intros m; apply (ss_node _ _ (so_struct _ _ S02) m)).
    assert (Hnd6 : forall m, nd s6 m = nd s3 m) by reflexivity.
    assert (Hhas6 : forall m, has s6 m <-> has s3 m) by reflexivity.
    assert (Hold3 : forall m, has s m -> nd s3 m = nd s2 m) by (intros m Hm; apply (eb_old _ _ _ E23), Hhas2, Hm).
    assert (Hbs3 : is_Some (binds s3 !! b)) by apply (i_bsome _ _ _ I3).
    destruct Hbs3 as [r3 Hr3].
    assert (Hbd3 : bd s3 b = r3) by (unfold bd; rewrite Hr3; reflexivity).
    set (r7 := set b_rhs (fun _ => root) (f5 r3)).
    assert (Hr6 : binds s6 !! b = Some r7).
    { unfold s6. rewrite binds_updb_lookup, decide_True by reflexivity. rewrite binds_updb_lookup, decide_True by reflexivity.
      change (binds (emit (EvBindFn b x root) s3)) with (binds s3). rewrite Hr3. reflexivity. }
    assert (Hb6ne : forall b', b' <> b -> binds s6 !! b' = binds s3 !! b').
    { intros b' Hne. unfold s6. rewrite !binds_updb_lookup, !decide_False by exact Hne. reflexivity. }
    assert (Hdroot : (match root with Some r => [b; r] | None => [b] end) = b :: option_list root) by (destruct root; reflexivity).
    assert (Hhas7 : forall m, has s7 m <-> has s3 m) by (intros m; unfold s7; rewrite has_upd; reflexivity).
    assert (HSb3 : has s3 (S b)).
    { pose proof (i_bwf _ _ _ I3 b r3 Hr3) as W. rewrite decide_True in W by reflexivity. apply (bw_has_main _ _ _ W). }
    assert (Hnd7ne : forall m, m <> S b -> nd s7 m = nd s3 m) by (intros m Hm; unfold s7; rewrite nd_upd_ne by exact Hm; reflexivity).
    assert (Hnd7m : nd s7 (S b) = set decl (fun _ => b :: option_list root) (nd s3 (S b))).
    { unfold s7. rewrite nd_upd_eq by exact HSb3. rewrite Hdroot. reflexivity. }
    assert (Hrootk : match root with Some a => okin b T s3 a | None => b_rhsNodes r3 = [] end).
    { destruct root as [a|]; [exact Hroot|]. rewrite <- Hbd3, Hroot. exact Hrn2. }
    assert (Hm3 : b_memo r3 = false).
    { rewrite <- Hbd3. destruct (eb_bdb _ _ _ E23) as (_&_&_&->). unfold bd. rewrite Hb2. unfold s1.
      rewrite binds_updb_lookup, decide_True, Hr0 by reflexivity. cbn.
      unfold bd in Hnomemo. rewrite Hr0 in Hnomemo. exact Hnomemo. }
    destruct (finish_static b T s3 s7 root r3 r7 I3 Hrootk Hr3) as (Fids & Fbinds & Fkinds & Fscopes & Fscoping).
    { exact Hr6. }
    { exact Hb6ne. }
    { unfold r7, f5. cbn. repeat split; reflexivity. }
    { exact Hm3. }
    { unfold r7, f5. cbn. rewrite Hm3. reflexivity. }
    { reflexivity. }
    { exact Hhas7. }
    { exact Hnd7ne. }
    { exact Hnd7m. }
    (* the records of the binds *)
    assert (Hbd7 : forall b', bd s7 b' = bd s6 b') by reflexivity.
    assert (Hbd6b : bd s6 b = r7) by (unfold bd; rewrite Hr6; reflexivity).
    assert (Hbd6ne : forall b', b' <> b -> bd s6 b' = bd s3 b') by (intros b' Hne; unfold bd; rewrite Hb6ne by exact Hne; reflexivity).
    assert (Hgen7b : forall m, inGen s7 b m <-> inGen s3 b m).
    { intros m. unfold inGen. rewrite Hbd7, Hbd6b, Hbd3. reflexivity. }
    assert (Hgen7ne : forall b' m, b' <> b -> inGen s7 b' m <-> inGen s3 b' m).
    { intros b' m Hne. unfold inGen. rewrite Hbd7, Hbd6ne by exact Hne. reflexivity. }
    assert (Hnew : forall m, inGen s3 b m -> ~ has s m).
    { intros m Hm. destruct (eb_gen2 _ _ _ E23 m Hm) as [H2|H2].
      - unfold inGen in H2. rewrite Hrn2 in H2. inversion H2.
      - intros Hs. apply H2, Hhas2, Hs. }
    assert (Hbdold : forall b', b' <> b -> is_Some (binds s !! b') -> bd s3 b' = bd s b').
    { intros b' Hne Hs. rewrite (eb_bd _ _ _ E23 b' Hne); [apply Hbd2, Hne|].
      rewrite Hb2. unfold s1. rewrite binds_updb_lookup, decide_False by exact Hne. exact Hs. }
    assert (Hsc3 : forall m, has s m -> scope (nd s3 m) = scope (nd s m)).
    { intros m Hm. rewrite (Hold3 m Hm). apply (Hst2 m). }
    assert (Hv3 : forall m, valid (nd s3 m) = valid (nd s m)).
    { intros m. destruct (eb_dyn _ _ _ E23 m) as (_&_&_&_&_&_&_&_&->&_). apply (Hst2 m). }
    assert (Hg3 : forall m, inGraph (nd s3 m) = inGraph (nd s m)).
    { intros m. destruct (eb_dyn _ _ _ E23 m) as (_&_&_&_&_&_&_&_&_&_&->). apply (Hst2 m). }
    assert (Hnewsc : forall m, has s3 m -> ~ has s m -> scope (nd s3 m) = Some b /\ inGen s3 b m).
    { intros m H3 Hs. apply (eb_new _ _ _ E23 m H3). intros H2. apply Hs, Hhas2, H2. }
    assert (Hsc7 : forall m, scope (nd s7 m) = scope (nd s3 m)).
    { intros m. destruct (decide (m = S b)) as [->|Hne]; [rewrite Hnd7m; reflexivity|rewrite Hnd7ne by exact Hne; reflexivity]. }
    assert (Hv7 : forall m, valid (nd s7 m) = valid (nd s3 m)).
    { intros m. destruct (decide (m = S b)) as [->|Hne]; [rewrite Hnd7m; reflexivity|rewrite Hnd7ne by exact Hne; reflexivity]. }
    assert (Hg7 : forall m, inGraph (nd s7 m) = inGraph (nd s3 m)).
    { intros m. destruct (decide (m = S b)) as [->|Hne]; [rewrite Hnd7m; reflexivity|rewrite Hnd7ne by exact Hne; reflexivity]. }
    pose proof (PInv_sreg s P) as Hsreg.
    destruct P as [T0 A1 A2 A3 A4 A5 V1 V2 V3 [Q1 Q2 Q3 Q4 Q5] A6 A7 A8].
    assert (Hvb : valid (nd s b) = true) by (apply (t_valid _ _ _ T0), Hg).
    assert (Hhb : has s b) by (apply has_inGraph, Hg).
    assert (Hlog6 : log s6 = [EvBindFn b x root] ++ log s2).
    { change (log s6) with (EvBindFn b x root :: log s3). rewrite (eb_log _ _ _ E23). reflexivity. }
    assert (Hlog2 : exists l, log s2 = l ++ log s /\ Forall (ev_benign s) l) by apply (so_log _ _ S02).
    assert (V3' : forall n b', inGen s7 b' n -> valid (nd s7 n) = valid (nd s7 b')).
    { intros n b' Hg7'. rewrite !Hv7, !Hv3. destruct (decide (b' = b)) as [->|Hne].
        * apply Hgen7b in Hg7'. pose proof (Hnew n Hg7') as Hn. rewrite Hvb.
          rewrite not_has_nd; [reflexivity|exact Hn].
        * apply (Hgen7ne b' n Hne) in Hg7'.
          destruct (decide (is_Some (binds s !! b'))) as [Hs|Hs].
          -- unfold inGen in Hg7'. rewrite (Hbdold b' Hne Hs) in Hg7'. apply (V3 n b' Hg7').
          -- (* a bind created just now has no nodes yet *)
             exfalso. unfold inGen, bd in Hg7'. destruct (binds s3 !! b') as [r'|] eqn:Er'; [|inversion Hg7'].
             simpl in Hg7'. pose proof (i_bwf _ _ _ I3 b' r' Er') as W. rewrite decide_False in W by exact Hne.
             destruct (bw_rhsNodes _ _ _ W n Hg7') as [Hn3 Hsn].
             destruct (decide (has s n)) as [Hn|Hn].
             ++ rewrite (Hsc3 n Hn) in Hsn. apply Hs, (A4 n b' Hsn).
             ++ destruct (Hnewsc n Hn3 Hn). congruence. }
    constructor.
    - (* the graph clauses in s6 *)
      apply (TInv_dyn noE s2 s6 [EvBindFn b x root]); try apply E23; auto.
      + apply (ids_ok_ext s2' s2); try reflexivity. apply (m_ids _ _ R2').
      + intros m Hm. rewrite Hnd6, (eb_old _ _ _ E23 m Hm). reflexivity.
      + intros m Hm. rewrite Hnd6, (eb_old _ _ _ E23 m Hm). reflexivity.
      + constructor; [|constructor]. simpl. destruct (Hst2 b) as (_&_&_&_&_&_&_&_&_&_&->). exact Hg.
      + intros n Hn Hnone. destruct (decide (n = b)) as [->|Hne].
        * exfalso. rewrite Hb2 in Hnone. unfold s1 in Hnone. rewrite binds_updb_lookup, decide_True, Hr0 in Hnone by reflexivity. discriminate.
        * rewrite Hb6ne by exact Hne. apply (eb_bindsN _ _ _ E23 n Hn Hnone).
      + right. intros n Hn. destruct (Hst2 n) as (_&_&_&_&_&_&_&_&_&_&Eg). rewrite Eg in Hn.
        destruct Hlog2 as (l & El & Fl). rewrite El, (benign_inval s l (log s) n Fl). intros Hx.
        apply A8 in Hx. rewrite (t_valid _ _ _ T0 n Hn) in Hx. discriminate.
    - (* the rest, with the old generation exempt *)
      constructor; try assumption.
      + intros n. rewrite Hsc7, Hv7, Hv3. intros Hs.
        destruct (decide (has s n)) as [Hn|Hn]; [apply V1; rewrite <- (Hsc3 n Hn); exact Hs|].
        destruct (decide (has s3 n)) as [H3|H3]; [destruct (Hnewsc n H3 Hn); congruence|].
        rewrite not_has_nd; [reflexivity|]. intros Hx. apply Hn. exact Hx.
      + intros n b' Hn7 Hs7 Hng Hnd. apply Hhas7 in Hn7. rewrite Hsc7 in Hs7. rewrite Hv7, Hg7, Hv3, Hg3.
        destruct (decide (has s n)) as [Hn|Hn].
        * rewrite (Hsc3 n Hn) in Hs7. apply (V2 n b' Hn Hs7). intros Hgs.
          destruct (decide (b' = b)) as [->|Hne]; [exact (Hnd Hgs)|].
          apply Hng. apply Hgen7ne; [exact Hne|]. unfold inGen. rewrite Hbdold; [exact Hgs|exact Hne|apply (A4 n b' Hs7)].
        * destruct (Hnewsc n Hn7 Hn) as [E1 E2]. assert (b' = b) as -> by congruence.
          exfalso. apply Hng, Hgen7b, E2.
      + apply (shape_ok_ext s s7); auto.
        * change (adj s7) with (adj s3). rewrite (eb_adj _ _ _ E23). apply (ss_adj _ _ (so_struct _ _ S02)).
        * change (maxHeight s7) with (maxHeight s3). rewrite (eb_maxHeight _ _ _ E23). apply (ss_maxHeight _ _ (so_struct _ _ S02)).
      + pose proof (so_stamps _ _ S02 A7) as [St1 St2]. split.
        * change (stabNum s7) with (stabNum s3). rewrite (eb_stabNum _ _ _ E23). exact St1.
        * intros n. change (stabNum s7) with (stabNum s3). rewrite (eb_stabNum _ _ _ E23).
          assert (E : recomputedAt (nd s7 n) = recomputedAt (nd s2 n) /\ changedAt (nd s7 n) = changedAt (nd s2 n) /\ setAt (nd s7 n) = setAt (nd s2 n)).
          { destruct (eb_dyn _ _ _ E23 n) as (_&_&<-&<-&<-&_).
            destruct (decide (n = S b)) as [->|Hne]; [rewrite Hnd7m; auto|rewrite Hnd7ne by exact Hne; auto]. }
          destruct E as (-> & -> & ->). apply (St2 n).
      + intros n. rewrite Hv7, Hv3. change (log s7) with (log s6). rewrite Hlog6.
        destruct Hlog2 as (l & -> & Fl). rewrite A8.
        rewrite (benign_inval s ([EvBindFn b x root] ++ l) (log s) n); [reflexivity|].
        apply Forall_app. split; [|exact Fl]. constructor; [exact Hg|constructor].
      + change (status s7) with (status s3). rewrite (eb_status _ _ _ E23). change (status s2) with (status s2'). rewrite (so_status _ _ S02). exact Q1.
      + change (invq s7) with (invq s3). rewrite (eb_invq _ _ _ E23). change (invq s2) with (invq s2').
        rewrite (ss_invq _ _ (so_struct _ _ S02)). exact Q2.
      + destruct (m_adj _ _ R2') as (B1 & B2 & B3). split; [|split].
        * change (adj s7) with (adj s3). rewrite (eb_adj _ _ _ E23). exact B1.
        * change (adj s7) with (adj s3). rewrite (eb_adj _ _ _ E23). exact B2.
        * intros m. assert (E : hAdj (nd s7 m) = hAdj (nd s3 m)).
          { destruct (decide (m = S b)) as [->|Hne]; [rewrite Hnd7m; reflexivity|rewrite Hnd7ne by exact Hne; reflexivity]. }
          rewrite E. destruct (eb_dyn _ _ _ E23 m) as (_&->&_). apply B3.
      + intros v. change (setDuring s7) with (setDuring s3). change (setRemoved s7) with (setRemoved s3).
        rewrite (eb_setDuring _ _ _ E23), (eb_setRemoved _ _ _ E23). intros Hv.
        destruct (m_vars _ _ R2' v Hv) as [e He]. exists e.
        assert (Hhv : has s2 v) by (apply (has_of_field nkind); change (nd s2 v) with (nd s2' v); rewrite He; discriminate).
        assert (E : nkind (nd s7 v) = nkind (nd s3 v)).
        { destruct (decide (v = S b)) as [->|Hne]; [rewrite Hnd7m; reflexivity|rewrite Hnd7ne by exact Hne; reflexivity]. }
        rewrite E, (eb_old _ _ _ E23 v Hhv). exact He.
    - (* validity is closed under the new declarations *)
      intros m q Hvm Hq.
      assert (V1' : forall n, scope (nd s7 n) = None -> valid (nd s7 n) = true).
      { intros n. rewrite Hsc7, Hv7, Hv3. intros Hs.
        destruct (decide (has s n)) as [Hn|Hn]; [apply V1; rewrite <- (Hsc3 n Hn); exact Hs|].
        destruct (decide (has s3 n)) as [H3|H3]; [destruct (Hnewsc n H3 Hn); congruence|].
        rewrite not_has_nd; [reflexivity|]. intros Hx. apply Hn. exact Hx. }
      assert (Vb : forall n, inGen s3 b n -> valid (nd s7 n) = true).
      { intros n Hn. rewrite Hv7, Hv3. rewrite not_has_nd; [reflexivity|apply Hnew, Hn]. }
      destruct (decide (m = S b)) as [->|Hne].
      + rewrite Hnd7m in Hq. cbn in Hq. apply elem_of_cons in Hq as [->|Hq].
        * rewrite Hv7, Hv3. exact Hvb.
        * destruct root as [a|]; [|inversion Hq]. apply elem_of_list_singleton in Hq as ->.
          destruct Hroot as [_ [[E _]|[_ E]]]; [apply V1'; rewrite Hsc7; exact E|apply Vb, E].
      + rewrite Hnd7ne in Hq by exact Hne. destruct (decide (has s m)) as [Hm|Hm].
        * rewrite (Hold3 m Hm) in Hq. destruct (Hst2 m) as (_&Ed&_). rewrite Ed in Hq.
          rewrite Hv7, Hv3 in Hvm |- *.
          apply (valid_closed s A2 A3 A5 V1 V2 V3 m q Hvm Hq).
        * assert (H3 : has s3 m) by (eapply has_decl, Hq).
          destruct (Hnewsc m H3 Hm) as [Esm Gm].
          destruct (sc_decl _ Fscoping m q) as [E|[E|(b0 & Hkm & Hsq & Hr)]].
          { rewrite Hnd7ne by exact Hne. exact Hq. }
          -- apply V1', E.
          -- rewrite Hsc7 in E. rewrite (Hsc7 m), Esm in E. apply Vb. apply Hgen7b.
             apply (sc_gen _ Fscoping m q b); [rewrite Hnd7ne by exact Hne; exact Hq|rewrite Hsc7; exact Esm|rewrite Hsc7; exact E|apply Hgen7b, Gm].
          -- pose proof (Fkinds m ltac:(apply Hhas7, H3)) as Hkm'. rewrite Hkm in Hkm'. destruct Hkm' as [-> [r' Hr']].
             assert (Hb0 : b0 <> b) by congruence.
             destruct (sc_rhs _ Fscoping b0 q Hr) as [E|[_ Gq]]; [congruence|].
             pose proof (Fbinds b0 r' Hr') as W.
             assert (Es0 : scope (nd s7 b0) = Some b).
             { rewrite <- (bw_scope _ _ _ W). rewrite Hsc7. exact Esm. }
             assert (Hbd : b0 ∈ decl (nd s7 (S b0))) by (rewrite (bw_decl_main _ _ _ W); left).
             assert (G0 : inGen s7 b b0).
             { apply (sc_gen _ Fscoping (S b0) b0 b Hbd); [rewrite Hsc7; exact Esm|exact Es0|apply Hgen7b, Gm]. }
             rewrite (V3' q b0 Gq). apply Vb, Hgen7b, G0.
    - intros n. rewrite Hnd6. destruct (eb_dyn _ _ _ E23 n) as (_&_&_&_&_&_&_&_&_&->&_).
      destruct (Hst2 n) as (_&_&_&_&_&_&_&_&_&->&_). apply Q4.
    - rewrite Hbd7, Hbd6b. reflexivity.
    - rewrite Hnd6, (Hold3 (S b)).
      + destruct (Hst2 (S b)) as (_&->&_). rewrite (bw_decl_main _ _ _ (A2 b r0 Hr0)).
        unfold oldRhs, bd. rewrite Hr0. reflexivity.
      + apply (bw_has_main _ _ _ (A2 b r0 Hr0)).
    - destruct root as [a|]; [|exact Logic.I]. destruct Hroot as [[H1 H2] H3]. split; [exact H1|]. split; [exact H2|].
      destruct H3 as [[E _]|[E G]]; [left; exact E|right; split; [exact E|apply Hgen7b, G]].
    - intros n Hn. apply Hnew, Hgen7b, Hn.
    - intros n Hn. unfold oldNodes, bd in Hn. rewrite Hr0 in Hn.
      destruct (bw_rhsNodes _ _ _ (A2 b r0 Hr0) n Hn) as [Hn1 Hn2].
      split; [exact Hn1|]. rewrite Hnd6, (Hold3 n Hn1). destruct (Hst2 n) as (_&_&->&_&_&_&_&_&->&_).
      split; [exact Hn2|]. rewrite (V3 n b); [exact Hvb|]. unfold inGen, bd. rewrite Hr0. exact Hn.
    - intros n Hn. rewrite Hnd6, (Hold3 n Hn). apply Hst2.
    - intros n Hn. apply Hhas6, (eb_has1 _ _ _ E23), Hhas2, Hn.
    - intros m b'. rewrite !Hnd6, !Hg3. intros Hm Hs. rewrite (Hsc3 m (has_inGraph s m Hm)) in Hs.
      apply (Hsreg m b' Hm Hs).
    - rewrite Hnd6, Hg3.
      apply (lhs_main_reg s b (t_edges _ _ _ T0) (t_zero _ _ _ T0) (TInv_nec_ok s T0) (TInv_par_ok s T0)
               (t_obs _ _ _ T0) Q4 A5 (ex_intro _ r0 Hr0) Hk Hg).
    - rewrite Hnd6, Hg3. split; [exact Hg|]. rewrite (Hold3 b Hhb). destruct (Hst2 b) as (->&_). exact Hk.
    - unfold oldRhs, oldNodes, bd. rewrite Hr0. simpl. destruct (b_rhs r0) as [o|] eqn:Eo.
      + intros ->. apply (sc_rhs_nl s A5 b b b); [unfold bd; rewrite Hr0; exact Eo|exact Hk].
      + apply (bw_nil _ _ _ (A2 b r0 Hr0) Eo).
    - intros b1 Hin Hkk. unfold oldNodes in *.
      assert (Hin' : inGen s b (S b1)) by exact Hin.
      destruct (gen_has s A2 b (S b1) Hin') as [HhS HsS].
      rewrite Hnd6, (Hold3 _ HhS) in Hkk. destruct (Hst2 (S b1)) as (Ek&_). rewrite Ek in Hkk.
      pose proof (A3 (S b1) HhS) as K. rewrite Hkk in K. destruct K as [_ [r1 Hr1]].
      pose proof (A2 b1 r1 Hr1) as W1.
      apply (sc_gen s A5 (S b1) b1 b); [rewrite (bw_decl_main _ _ _ W1); left|exact HsS|rewrite <- (bw_scope _ _ _ W1); exact HsS|exact Hin'].
    - intros b1 Hin Hkk. unfold oldNodes in *.
      assert (Hin' : inGen s b b1) by exact Hin.
      destruct (gen_has s A2 b b1 Hin') as [Hh1 _].
      rewrite Hnd6, (Hold3 _ Hh1) in Hkk. destruct (Hst2 b1) as (Ek&_). rewrite Ek in Hkk.
      apply (sc_pair s A5 b b1 Hin' Hkk).
    - revert Hp. unfold plan_ok. rewrite !forallb_forall. intros H y Hy. specialize (H y Hy).
      destruct y as [[n w] a].
      assert (Hiv : forall v, isVar s v = true -> isVar s7 v = true).
      { intros v Hv. apply isVar_true in Hv as [Hh [e He]]. apply (isVar_intro s7 v e); [apply Hhas7, (eb_has1 _ _ _ E23), Hhas2, Hh|].
        assert (E : nkind (nd s7 v) = nkind (nd s3 v)).
        { destruct (decide (v = S b)) as [->|Hne]; [rewrite Hnd7m; reflexivity|rewrite Hnd7ne by exact Hne; reflexivity]. }
        rewrite E, (Hold3 v Hh). destruct (Hst2 v) as (->&_). exact He. }
      destruct a; auto.
    - change (stabNum s7) with (stabNum s3). rewrite (eb_stabNum _ _ _ E23). apply (so_stabNum _ _ S02).
  Qed.
  Lemma run_fn_log : log s6 = EvBindFn b x root :: log s.
  Proof.
    destruct run_fn_inst as (T & d0 & _ & _ & E23 & _).
    change (log s6) with (EvBindFn b x root :: log s3). rewrite (eb_log _ _ _ E23).
    rewrite (invoke_log_none p s1 b WFn s2 Hinv). reflexivity.
  Qed.
End run_fn.

(** ** the mid-pass rest across the frames *)
Lemma RestM_ext D s s' :
  next s' = next s -> binds s' = binds s -> (forall m, has s' m <-> has s m) ->
  adj s' = adj s -> invq s' = invq s -> status s' = status s -> setDuring s' = setDuring s ->
  setRemoved s' = setRemoved s -> maxHeight s' = maxHeight s ->
  stabNum s' = stabNum s -> log s' = log s ->
  (forall m, nkind (nd s' m) = nkind (nd s m) /\ decl (nd s' m) = decl (nd s m) /\
             scope (nd s' m) = scope (nd s m) /\ valid (nd s' m) = valid (nd s m) /\
             inGraph (nd s' m) = inGraph (nd s m) /\
             hAdj (nd s' m) = hAdj (nd s m) /\ recomputedAt (nd s' m) = recomputedAt (nd s m) /\
             changedAt (nd s' m) = changedAt (nd s m) /\ setAt (nd s' m) = setAt (nd s m)) ->
  RestM D s -> RestM D s'.
Proof.
  intros Hn Hb Hh Ha Hq Hst Hsd Hsr Hmh Hsn Hl Hnode [A1 A2 A3 A4 A5 V1 V2 V3 A6 A7 A8 Q1 Q2 Q3 Q5].
  assert (Hk : forall n, nkind (nd s' n) = nkind (nd s n)) by (intros n; apply (Hnode n)).
  assert (Hd : forall n, decl (nd s' n) = decl (nd s n)) by (intros n; apply (Hnode n)).
  assert (Hsc : forall n, scope (nd s' n) = scope (nd s n)) by (intros n; apply (Hnode n)).
  assert (Hv : forall n, valid (nd s' n) = valid (nd s n)) by (intros n; apply (Hnode n)).
  assert (Hg : forall n, inGraph (nd s' n) = inGraph (nd s n)) by (intros n; apply (Hnode n)).
  assert (Hbd : forall b, bd s' b = bd s b) by (intros b; unfold bd; rewrite Hb; reflexivity).
  constructor.
  - apply (ids_ok_ext s s'); auto.
  - apply (binds_wf_ext s s'); auto.
  - apply (kinds_ok_ext s s'); auto.
  - apply (scopes_ok_ext s s'); auto.
  - apply (scoping_ok_ext s s'); auto.
  - intros n. rewrite Hsc, Hv. auto.
  - intros n b. rewrite Hh, Hsc, Hv, Hg. unfold inGen. rewrite Hbd. apply V2.
  - intros n b. unfold inGen. rewrite Hbd, !Hv. apply V3.
  - apply (shape_ok_ext s s'); auto.
  - apply (stamps_ok_ext s s'); auto; intros n; apply (Hnode n).
  - intros n. rewrite Hv, Hl. apply A8.
  - rewrite Hst. exact Q1.
  - rewrite Hq. exact Q2.
  - destruct Q3 as (B1 & B2 & B3). unfold adj_idle. rewrite Ha. split; [exact B1|]. split; [exact B2|].
    intros m. destruct (Hnode m) as (_&_&_&_&_&->&_). apply B3.
  - intros v. rewrite Hsd, Hsr, Hk. apply Q5.
Qed.

Lemma RestM_td_frame D s s' :
  td_frame s s' -> (forall m, valid (nd s' m) = valid (nd s m)) ->
  (forall m, inGraph (nd s' m) = true -> inGraph (nd s m) = true) ->
  RestM D s -> RestM D s'.
Proof.
  intros F Hv Hm [A1 A2 A3 A4 A5 V1 V2 V3 A6 A7 A8 Q1 Q2 Q3 Q5].
  assert (Hk : forall n, nkind (nd s' n) = nkind (nd s n)) by (intros n; apply (tf_static _ _ F n)).
  assert (Hd : forall n, decl (nd s' n) = decl (nd s n)) by (intros n; apply (tf_static _ _ F n)).
  assert (Hsc : forall n, scope (nd s' n) = scope (nd s n)) by (intros n; apply (tf_static _ _ F n)).
  assert (Hbd : forall b, bd s' b = bd s b) by (intros b; unfold bd; rewrite (tf_binds _ _ F); reflexivity).
  constructor.
  - apply (ids_ok_ext s s'); auto; apply F.
  - apply (binds_wf_ext s s'); auto; apply F.
  - apply (kinds_ok_ext s s'); auto; apply F.
  - apply (scopes_ok_ext s s'); auto; apply F.
  - apply (scoping_ok_ext s s'); auto; apply F.
  - intros n. rewrite Hsc, Hv. auto.
  - intros n b. rewrite (tf_has _ _ F), Hsc, Hv. unfold inGen. rewrite Hbd. intros H1 H2 H3 H4.
    destruct (V2 n b H1 H2 H3 H4) as [H5 H6]. split; [exact H5|].
    destruct (inGraph (nd s' n)) eqn:E; [|reflexivity]. apply Hm in E. congruence.
  - intros n b. unfold inGen. rewrite Hbd, !Hv. auto.
  - eapply shape_ok_ext; [apply F|apply F|assumption].
  - destruct A7 as [S1 S2]. split; rewrite (tf_stabNum _ _ F); [exact S1|].
    intros n. destruct (tf_stamps _ _ F n) as [(-> & -> & ->)|(-> & -> & ->)]; [apply S2|lia].
  - intros n. rewrite Hv. destruct (tf_log _ _ F) as (l & -> & Hl). rewrite (unnec_inval l n Hl). auto.
  - rewrite (tf_status _ _ F). exact Q1.
  - rewrite (tf_invq _ _ F). exact Q2.
  - destruct Q3 as (B1 & B2 & B3). unfold adj_idle. rewrite (tf_adj _ _ F). split; [exact B1|]. split; [exact B2|].
    intros m. destruct (tf_hadj _ _ F m) as [-> | ->]; auto.
  - intros v [Hv'|Hv']; rewrite Hk.
    + apply Q5. left. apply (tf_setDuring _ _ F), Hv'.
    + apply Q5. destruct (tf_setRemoved2 _ _ F v Hv'); auto.
Qed.

Lemma RestM_ac_frame D s s' :
  ac_frame s s' -> invq s' = [] -> adj_idle s' ->
  (forall m, inGraph (nd s' m) = true -> valid (nd s' m) = true) ->
  RestM D s -> RestM D s'.
Proof.
  intros F Hq Hidle Hvr [A1 A2 A3 A4 A5 V1 V2 V3 A6 A7 A8 Q1 Q2 Q3 Q5].
  assert (Hk : forall n, nkind (nd s' n) = nkind (nd s n)) by (intros n; apply (cf_static _ _ F n)).
  assert (Hd : forall n, decl (nd s' n) = decl (nd s n)) by (intros n; apply (cf_static _ _ F n)).
  assert (Hsc : forall n, scope (nd s' n) = scope (nd s n)) by (intros n; apply (cf_static _ _ F n)).
  assert (Hv : forall n, valid (nd s' n) = valid (nd s n)) by (intros n; apply (cf_static _ _ F n)).
  assert (Hbd : forall b, bd s' b = bd s b) by (intros b; unfold bd; rewrite (cf_binds _ _ F); reflexivity).
  constructor.
  - apply (ids_ok_ext s s'); auto; apply F.
  - apply (binds_wf_ext s s'); auto; apply F.
  - apply (kinds_ok_ext s s'); auto; apply F.
  - apply (scopes_ok_ext s s'); auto; apply F.
  - apply (scoping_ok_ext s s'); auto; apply F.
  - intros n. rewrite Hsc, Hv. auto.
  - intros n b. rewrite (cf_has _ _ F), Hsc, Hv. unfold inGen. rewrite Hbd. intros H1 H2 H3 H4.
    destruct (V2 n b H1 H2 H3 H4) as [H5 H6]. split; [exact H5|].
    destruct (inGraph (nd s' n)) eqn:E; [|reflexivity]. apply Hvr in E. rewrite Hv in E. congruence.
  - intros n b. unfold inGen. rewrite Hbd, !Hv. apply V3.
  - destruct A6 as [A B]. split; [rewrite (cf_maxHeight _ _ F); exact A|].
    rewrite (cf_len _ _ F), (cf_maxHeight _ _ F). exact B.
  - destruct A7 as [S1 S2]. split; rewrite (cf_stabNum _ _ F); [exact S1|].
    intros n. destruct (cf_static _ _ F n) as (_&_&_&_&_&_& -> & -> & -> &_). apply S2.
  - intros n. rewrite Hv. destruct (cf_log _ _ F) as (l & -> & Hl). rewrite (nec_inval l n Hl). auto.
  - rewrite (cf_status _ _ F). exact Q1.
  - exact Hq.
  - exact Hidle.
  - intros v. rewrite (cf_setDuring _ _ F), (cf_setRemoved _ _ F), Hk. apply Q5.
Qed.

(** ** reopening a registered node [c] whose declaration is being changed *)
Lemma BInv_reopen t t1 c :
  BInv [] t -> inGraph (nd t c) = true ->
  (forall m, inGraph (nd t1 m) = inGraph (nd t m)) ->
  (forall m, observers (nd t1 m) = observers (nd t m)) ->
  (forall m, height (nd t1 m) = height (nd t m)) ->
  (forall m, valid (nd t1 m) = valid (nd t m)) ->
  (forall m, scope (nd t1 m) = scope (nd t m)) ->
  (forall m, m <> c -> parents (nd t1 m) = parents (nd t m) /\ decl (nd t1 m) = decl (nd t m)) ->
  edges_ok t1 ->
  (forall m, m <> c -> inGraph (nd t m) = true -> isNecessary (nd t1 m) = true) ->
  (forall m, inGraph (nd t m) = false ->
     children (nd t1 m) = children (nd t m) /\ forceNec (nd t1 m) = forceNec (nd t m)) ->
  heap t1 = heap t -> reg t1 = reg t -> obs t1 = obs t -> numNodes t1 = numNodes t ->
  maxHeight t1 = maxHeight t -> log t1 = log t -> binds t1 = binds t -> next t1 = next t ->
  (forall m, has t1 m <-> has t m) ->
  BInv [c] t1.
Proof.
  intros [b_edges0 b_zero10 b_zero20 b_nec0 b_par0 b_height0 b_heap0 b_count0 b_obs0 b_valid0 b_sreg0 b_log0 b_life0]
         Hgc Hg Hob Hh Hv Hsc Hpd He Hnec Hun Hheap Hreg Hobs Hnum Hmh Hlog Hbinds Hnext Hhas.
  assert (Hnil : forall m : nid, m ∉ []) by (intros m Hm; inversion Hm).
  assert (Hne : forall m, m ∉ [c] -> m <> c) by (intros m Hm ->; apply Hm; left).
  constructor.
  - exact He.
  - intros m. rewrite Hg, Hh. intros Hm.
    assert (m <> c) by (intros ->; congruence).
    destruct (Hpd m H) as [-> _]. apply b_zero10, Hm.
  - intros m _. rewrite Hg, Hob. intros Hm. destruct (Hun m Hm) as [-> _]. apply b_zero20; [apply Hnil|exact Hm].
  - intros m Hm. apply Hne in Hm. rewrite Hg. destruct (inGraph (nd t m)) eqn:E.
    + symmetry. apply Hnec; assumption.
    + destruct (Hun m E) as [E1 E2]. rewrite (isNecessary_ext (nd t1 m) (nd t m) E2 E1 (Hob m)).
      rewrite <- (b_nec0 m (Hnil m)). symmetry; exact E.
  - intros m Hm. apply Hne in Hm. rewrite Hg. destruct (Hpd m Hm) as [-> ->]. apply b_par0, Hnil.
  - intros m Hm. apply Hne in Hm. rewrite Hg. intros Hgm.
    apply (good_h_ext t t1 m Hmh (proj1 (Hpd m Hm)) (Hsc m) Hh (b_height0 m (Hnil m) Hgm)).
  - apply (heap_ok_ext t t1); auto.
  - apply (count_ok_ext t t1); auto.
  - apply (obs_ok_ext t t1); auto.
  - intros m. rewrite Hg, Hv. apply b_valid0.
  - intros m b. rewrite !Hg, Hsc. apply b_sreg0.
  - rewrite Hlog. exact b_log0.
  - intros m. rewrite Hg, Hlog. apply b_life0.
Qed.

(** switching off the forced necessity of [o] *)
Lemma TInv_unforce t o :
  TInv [] noE t -> has t o ->
  TInv [] (eq o) (upd t o (set forceNec (fun _ => false))).
Proof.
  intros [t_edges0 t_zero0 t_nec0 t_necE0 t_W0 t_par0 t_height0 t_heap0 t_count0 t_obs0 t_valid0 t_log0 t_life0 t_lifeW0 t_nodup0] Ho.
  set (t1 := upd t o (set forceNec (fun _ => false))).
  assert (Hfield : forall {A} (g : node -> A), (forall x f, g (set forceNec f x) = g x) -> forall m, g (nd t1 m) = g (nd t m)).
  { intros A g Hg' m. unfold t1. apply nd_upd_proj. intros x. apply Hg'. }
  assert (Hg : forall m, inGraph (nd t1 m) = inGraph (nd t m)) by (apply Hfield; reflexivity).
  assert (Hnil : forall m : nid, m ∉ []) by (intros m Hm; inversion Hm).
  constructor.
  - apply (edges_ok_ext t t1); auto; apply Hfield; reflexivity.
  - apply (zero_ok_ext t t1); auto; apply Hfield; reflexivity.
  - intros n _ Hn. rewrite Hg. unfold t1. rewrite nd_upd_ne by (intros ->; apply Hn; reflexivity).
    apply t_nec0; [apply Hnil|intros []].
  - intros n <- Hn. rewrite Hg. rewrite (t_nec0 o (Hnil o)); [|intros []].
    apply isNecessary_true in Hn. apply isNecessary_true.
    rewrite (Hfield _ children), (Hfield _ observers) in Hn by reflexivity.
    destruct Hn as [Hn|Hn]; [|auto]. unfold t1 in Hn. rewrite nd_upd_eq in Hn by exact Ho. discriminate.
  - intros w Hw. inversion Hw.
  - intros n _. rewrite Hg, (Hfield _ parents), (Hfield _ decl) by reflexivity. apply t_par0, Hnil.
  - apply (height_ok_ext t t1); auto; apply Hfield; reflexivity.
  - apply (heap_ok_ext t t1); auto; apply Hfield; reflexivity.
  - apply (count_ok_ext t t1); auto.
  - apply (obs_ok_ext t t1); auto; try (apply Hfield; reflexivity). intros m. apply has_upd.
  - intros n. rewrite Hg, (Hfield _ valid) by reflexivity. apply t_valid0.
  - exact t_log0.
  - intros n _. rewrite Hg. apply t_life0, Hnil.
  - intros w Hw. inversion Hw.
  - constructor.
Qed.

(* log extensions without any event that reports a function, a cutoff predicate or a bind function as run *)
Definition norun_ext (s s' : state) : Prop :=
  exists l, log s' = l ++ log s /\ Forall (fun e => ev_runs e = None) l.

Lemma norun_ext_refl s s' : log s' = log s -> norun_ext s s'.
Proof. intros E. exists []. split; [exact E|constructor]. Qed.

Lemma norun_ext_trans s1 s2 s3 : norun_ext s1 s2 -> norun_ext s2 s3 -> norun_ext s1 s3.
Proof.
  intros (l1 & E1 & F1) (l2 & E2 & F2). exists (l2 ++ l1). split; [rewrite E2, E1, app_assoc; reflexivity|].
  apply Forall_app. auto.
Qed.

Lemma norun_ext_of (P : event -> Prop) s s' :
  (forall e, P e -> ev_runs e = None) -> (exists l, log s' = l ++ log s /\ Forall P l) -> norun_ext s s'.
Proof. intros HP (l & E & F). exists l. split; [exact E|]. eapply List.Forall_impl; [|exact F]. exact HP. Qed.

(** ** what [changeParent] leaves untouched *)
Record cp_frame (s s' : state) : Prop := {
  cpf_binds : binds s' = binds s;
  cpf_has : forall m, has s' m <-> has s m;
  cpf_stabNum : stabNum s' = stabNum s;
  cpf_node : forall m, nkind (nd s' m) = nkind (nd s m) /\ decl (nd s' m) = decl (nd s m) /\
                       scope (nd s' m) = scope (nd s m) /\ valid (nd s' m) = valid (nd s m);
  cpf_log : norun_ext s s'
}.

Lemma cp_frame_refl s : cp_frame s s.
Proof. split; auto; try reflexivity. apply norun_ext_refl. reflexivity. Qed.

Lemma cp_frame_trans s1 s2 s3 : cp_frame s1 s2 -> cp_frame s2 s3 -> cp_frame s1 s3.
Proof.
  intros [A1 A2 A3 A4 A5] [B1 B2 B3 B4 B5]. split.
  - congruence.
  - intros m. rewrite B2. apply A2.
  - congruence.
  - intros m. destruct (A4 m) as (?&?&?&?), (B4 m) as (?&?&?&?). repeat split; congruence.
  - eapply norun_ext_trans; eauto.
Qed.

Lemma cp_frame_td s s' : td_frame s s' -> (forall m, valid (nd s' m) = valid (nd s m)) -> cp_frame s s'.
Proof.
  intros F Hv. split; try apply F; [intros m; destruct (tf_static _ _ F m) as (?&?&?&_); auto|].
  apply (norun_ext_of is_unnec); [intros e [n ->]; reflexivity|apply (tf_log _ _ F)].
Qed.

Lemma cp_frame_ac s s' : ac_frame s s' -> cp_frame s s'.
Proof.
  intros F. split; try apply F; [intros m; destruct (cf_static _ _ F m) as (?&?&?&?&_); auto|].
  apply (norun_ext_of is_nec); [intros e [n ->]; reflexivity|apply (cf_log _ _ F)].
Qed.

Section cp.
  Context (D : nid -> Prop) (t6 : state) (b : nat) (oldRhs root : option nid).
  Let c := S b.
  Let t7 := upd t6 c (set decl (fun _ => b :: option_list root)).
  Hypothesis T6 : TInv [] noE t6.
  Hypothesis Hsreg6 : forall m b', inGraph (nd t6 m) = true -> scope (nd t6 m) = Some b' -> inGraph (nd t6 b') = true.
  Hypothesis R7 : RestM D t7.
  Hypothesis Hvc7 : forall m q, valid (nd t7 m) = true -> q ∈ decl (nd t7 m) -> valid (nd t7 q) = true.
  Hypothesis Hforce : forall n, forceNec (nd t6 n) = false.
  Hypothesis Hdecl6 : decl (nd t6 c) = b :: option_list oldRhs.
  Hypothesis Hgb : inGraph (nd t6 b) = true.
  Hypothesis Hgc : inGraph (nd t6 c) = true.
  Hypothesis Hroot : match root with
                     | Some r => has t6 r /\ r <> b /\ valid (nd t6 r) = true /\
                                 (forall b', scope (nd t6 r) = Some b' -> b' = b)
                     | None => True
                     end.
  Hypothesis Hold : match oldRhs with Some o => o <> b | None => True end.
  Hypothesis HD : forall n, D n -> scope (nd t6 n) = Some b.
  Hypothesis HDdec : forall n, D n \/ ~ D n.

  Local Lemma cp_hc : has t6 c.
  Proof. apply has_inGraph, Hgc. Qed.

  Local Lemma cp_nd7 m : nd t7 m = if decide (m = c) then set decl (fun _ => b :: option_list root) (nd t6 c) else nd t6 m.
  Proof. unfold t7. apply nd_upd, cp_hc. Qed.

  Local Lemma cp_field7 {A} (g : node -> A) : (forall x f, g (set decl f x) = g x) -> forall m, g (nd t7 m) = g (nd t6 m).
  Proof. intros Hg' m. rewrite cp_nd7. destruct (decide (m = c)) as [->|]; [apply Hg'|reflexivity]. Qed.

  Local Lemma cp_decl7 m : decl (nd t7 m) = if decide (m = c) then b :: option_list root else decl (nd t6 m).
  Proof. rewrite cp_nd7. destruct (decide (m = c)); reflexivity. Qed.

  Local Lemma cp_has7 m : has t7 m <-> has t6 m.
  Proof. apply has_upd. Qed.

  Local Lemma cp_par6 : parents (nd t6 c) = b :: option_list oldRhs.
  Proof. rewrite (t_par _ _ _ T6 c) by (try exact Hgc; intros H; inversion H). exact Hdecl6. Qed.

  Local Lemma cp_height6 :
    0 <= height (nd t6 c) < maxHeight t6 /\
    (forall p, p ∈ parents (nd t6 c) -> height (nd t6 p) < height (nd t6 c)) /\
    scopeHeight t6 (scope (nd t6 c)) < height (nd t6 c).
  Proof. apply (t_height _ _ _ T6 c Hgc). Qed.

  Local Lemma cp_hb : height (nd t6 b) < height (nd t6 c).
  Proof. destruct cp_height6 as (_ & H & _). apply H. rewrite cp_par6. left. Qed.

  (* the dead nodes, as [addChild_spec] wants them *)
  Local Lemma cp_dead7 n b' :
    has t7 n -> scope (nd t7 n) = Some b' -> ~ inGen t7 b' n ->
    valid (nd t7 n) = false \/ (inGraph (nd t6 b') = true /\ height (nd t6 b') < height (nd t6 c)).
  Proof.
    intros H1 H2 H3. destruct (HDdec n) as [Hd|Hd].
    - right. rewrite (cp_field7 scope) in H2 by reflexivity. rewrite (HD n Hd) in H2. injection H2 as <-.
      split; [exact Hgb|exact cp_hb].
    - left. apply (m_vdead _ _ R7 n b' H1 H2 H3 Hd).
  Qed.

  Local Lemma cp_Sta7 : Sta t7.
  Proof. destruct R7. split; auto. Qed.

  (* nothing to change *)
  Local Lemma cp_same : option_list root = option_list oldRhs -> TInv [] noE t7.
  Proof.
    intros E.
    assert (Hd : forall m, decl (nd t7 m) = decl (nd t6 m)).
    { intros m. rewrite cp_decl7. destruct (decide (m = c)) as [->|]; [|reflexivity]. rewrite E, Hdecl6. reflexivity. }
    apply (TInv_struct _ _ t6 t7); [| |apply (heap_ok_ext t6 t7)|exact T6]; try reflexivity.
    - split; try reflexivity; [apply cp_has7|].
      intros m. repeat split; try (apply cp_field7; reflexivity). apply Hd.
    - apply cp_field7; reflexivity.
    - apply cp_field7; reflexivity.
    - apply T6.
  Qed.

  (* linking the new right-hand side, in a state [t] that agrees with [t7] except for edges and forced necessity *)
  Section add.
    Context (t : state) (r : nid).
    Hypothesis Hr : root = Some r.
    Hypothesis Bt : BInv [c] t.
    Hypothesis Hrel : forall m,
      nkind (nd t m) = nkind (nd t7 m) /\ decl (nd t m) = decl (nd t7 m) /\
      scope (nd t m) = scope (nd t7 m) /\ valid (nd t m) = valid (nd t7 m) /\
      inGraph (nd t m) = inGraph (nd t7 m) /\
      hAdj (nd t m) = hAdj (nd t7 m) /\ recomputedAt (nd t m) = recomputedAt (nd t7 m) /\
      changedAt (nd t m) = changedAt (nd t7 m) /\ setAt (nd t m) = setAt (nd t7 m).
    Hypothesis Hht : forall m, height (nd t m) = height (nd t6 m).
    Hypothesis Hpar : parents (nd t c) = [b].
    Hypothesis Hnc : isNecessary (nd t c) = true.
    Hypothesis (Hnext : next t = next t7) (Hbinds : binds t = binds t7) (Hhas : forall m, has t m <-> has t7 m).
    Hypothesis (Hadj : adj t = adj t7) (Hinvq : invq t = invq t7) (Hstatus : status t = status t7).
    Hypothesis (HsD : setDuring t = setDuring t7) (HsR : setRemoved t = setRemoved t7).
    Hypothesis (Hmh : maxHeight t = maxHeight t7) (Hsn : stabNum t = stabNum t7) (Hlog : log t = log t7).

    Local Lemma add_Rest : RestM D t.
    Proof. apply (RestM_ext D t7 t); auto. Qed.

    Lemma cp_add fuel tC e :
      addChild fuel t c r = Ok (tC, e) ->
      match e with
      | Some x => adj_err x
      | None => BInv [] tC /\ ac_frame t tC /\ RestM D tC
      end.
    Proof.
      intros H. pose proof add_Rest as Rt.
      assert (Hsc : forall m, scope (nd t m) = scope (nd t6 m)).
      { intros m. destruct (Hrel m) as (_&_&->&_). apply cp_field7. reflexivity. }
      assert (Hv : forall m, valid (nd t m) = valid (nd t6 m)).
      { intros m. destruct (Hrel m) as (_&_&_&->&_). apply cp_field7. reflexivity. }
      assert (Hg : forall m, inGraph (nd t m) = inGraph (nd t6 m)).
      { intros m. destruct (Hrel m) as (_&_&_&_&->&_). apply cp_field7. reflexivity. }
      assert (Hbd : forall b', bd t b' = bd t7 b') by (intros b'; unfold bd; rewrite Hbinds; reflexivity).
      rewrite Hr in Hroot. destruct Hroot as (Hhr & Hrb & Hvr & Hsr).
      destruct cp_height6 as (Hrange & Hlow & Hscope).
      assert (St : Sta t).
      { destruct Rt. split; auto. intros m q. destruct (Hrel m) as (_&->&_&->&_). destruct (Hrel q) as (_&_&_&->&_). apply Hvc7. }
      pose proof (addChild_spec fuel t c r tC e St Bt (m_adj _ _ Rt) (m_invq _ _ Rt)) as AC.
      assert (AC' : match e with None => BInv [] tC /\ ac_frame t tC /\ invq tC = [] /\ adj_idle tC | Some x => adj_err x end).
      { apply AC; auto.
        - intros n b' Hn Hs Hno. rewrite Hv, Hg, !Hht.
          rewrite <- (cp_field7 valid) by reflexivity. apply cp_dead7.
          + apply Hhas, Hn.
          + destruct (Hrel n) as (_&_&<-&_). exact Hs.
          + unfold inGen. rewrite <- Hbd. exact Hno.
        - apply Hhas, cp_has7, cp_hc.
        - apply Hhas, cp_has7, Hhr.
        - rewrite Hg. exact Hgc.
        - rewrite Hv. exact Hvr.
        - rewrite Hpar. destruct (Hrel c) as (_&->&_). rewrite cp_decl7, decide_True, Hr by reflexivity. reflexivity.
        - rewrite Hht, Hmh. exact Hrange.
        - rewrite Hsc, Hht, (scopeHeight_ext t6 t) by exact Hht. exact Hscope.
        - intros q. rewrite Hpar, !Hht. intros ->%elem_of_list_singleton. exact cp_hb.
        - intros b'. rewrite Hsc, Hg. intros Hs. rewrite (Hsr b' Hs). exact Hgb. }
      destruct e as [x|]; [exact AC'|]. destruct AC' as (B2 & F2 & Hq2 & Hidle2).
      split; [exact B2|]. split; [exact F2|].
      apply (RestM_ac_frame D t tC F2 Hq2 Hidle2 (b_valid _ _ B2) Rt).
    Qed.
    Lemma nc_cp_add fuel : nocrash (addChild fuel t c r).
    Proof.
      pose proof add_Rest as Rt.
      assert (Hsc : forall m, scope (nd t m) = scope (nd t6 m)).
      { intros m. destruct (Hrel m) as (_&_&->&_). apply cp_field7. reflexivity. }
      assert (Hv : forall m, valid (nd t m) = valid (nd t6 m)).
      { intros m. destruct (Hrel m) as (_&_&_&->&_). apply cp_field7. reflexivity. }
      assert (Hg : forall m, inGraph (nd t m) = inGraph (nd t6 m)).
      { intros m. destruct (Hrel m) as (_&_&_&_&->&_). apply cp_field7. reflexivity. }
      assert (Hbd : forall b', bd t b' = bd t7 b') by (intros b'; unfold bd; rewrite Hbinds; reflexivity).
      rewrite Hr in Hroot. destruct Hroot as (Hhr & Hrb & Hvr & Hsr).
      destruct cp_height6 as (Hrange & Hlow & Hscope).
      assert (St : Sta t).
      { destruct Rt. split; auto. intros m q. destruct (Hrel m) as (_&->&_&->&_). destruct (Hrel q) as (_&_&_&->&_). apply Hvc7. }
      apply (nc_addChild fuel t c r St Bt (m_adj _ _ Rt) (m_shape _ _ Rt) (m_invq _ _ Rt)); auto.
      - intros n b' Hn Hs Hno. rewrite Hv, Hg, !Hht.
        rewrite <- (cp_field7 valid) by reflexivity. apply cp_dead7.
        + apply Hhas, Hn.
        + destruct (Hrel n) as (_&_&<-&_). exact Hs.
        + unfold inGen. rewrite <- Hbd. exact Hno.
      - apply Hhas, cp_has7, cp_hc.
      - apply Hhas, cp_has7, Hhr.
      - rewrite Hg. exact Hgc.
      - rewrite Hv. exact Hvr.
      - rewrite Hpar. destruct (Hrel c) as (_&->&_). rewrite cp_decl7, decide_True, Hr by reflexivity. reflexivity.
      - rewrite Hht, Hmh. exact Hrange.
      - rewrite Hsc, Hht, (scopeHeight_ext t6 t) by exact Hht. exact Hscope.
      - intros q. rewrite Hpar, !Hht. intros ->%elem_of_list_singleton. exact cp_hb.
      - intros b'. rewrite Hsc, Hg. intros Hs. rewrite (Hsr b' Hs). exact Hgb.
    Qed.
  End add.

  Definition cp_post (t8 : state) : Prop :=
    TInv [] noE t8 /\ RestM D t8 /\ (forall n, forceNec (nd t8 n) = false) /\ cp_frame t7 t8.

  Local Lemma cp_fieldA {A} (g : node -> A) o :
    (forall x f, g (set decl f x) = g x) -> (forall x f, g (set parents f x) = g x) ->
    (forall x f, g (set children f x) = g x) ->
    forall m, g (nd (unlink t7 c o) m) = g (nd t6 m).
  Proof.
    intros H1 H2 H3 m. unfold unlink.
    rewrite (nd_upd_proj g _ o (set children (rm c)) m) by (intros x; apply H3).
    rewrite (nd_upd_proj g _ c (set parents (rm o)) m) by (intros x; apply H2).
    apply cp_field7, H1.
  Qed.

  Local Lemma cp_U o : unlink_like t6 (unlink t7 c o) c o.
  Proof.
    split; try reflexivity.
    - intros m. rewrite parents_nd_unlink, (cp_field7 parents) by reflexivity. reflexivity.
    - intros m. rewrite children_nd_unlink, (cp_field7 children) by reflexivity. reflexivity.
    - intros m Hm. rewrite decl_nd_unlink, cp_decl7, decide_False by exact Hm. reflexivity.
    - apply cp_fieldA; reflexivity.
    - apply cp_fieldA; reflexivity.
    - apply cp_fieldA; reflexivity.
    - apply cp_fieldA; reflexivity.
    - apply cp_fieldA; reflexivity.
    - apply cp_fieldA; reflexivity.
    - intros m. rewrite has_unlink. apply cp_has7.
  Qed.

  Local Lemma cp_frame7A o : cp_frame t7 (unlink t7 c o).
  Proof.
    split; try reflexivity; [intros m; apply has_unlink| |apply norun_ext_refl; reflexivity].
    intros m. rewrite nkind_nd_unlink, decl_nd_unlink, scope_nd_unlink, valid_nd_unlink. auto.
  Qed.

  Local Lemma cp_RestA o : RestM D (unlink t7 c o).
  Proof.
    apply (RestM_ext D t7); auto; try reflexivity; [intros m; apply has_unlink|].
    intros m. rewrite nkind_nd_unlink, decl_nd_unlink, scope_nd_unlink, valid_nd_unlink, inGraph_nd_unlink,
      hAdj_nd_unlink, recomputedAt_nd_unlink, changedAt_nd_unlink, setAt_nd_unlink. repeat split.
  Qed.

  (* nothing linked, nothing to link; or the same right-hand side again *)
  Lemma cp_case_same : option_list root = option_list oldRhs -> cp_post t7.
  Proof.
    intros E. split; [apply cp_same, E|]. split; [exact R7|]. split; [|apply cp_frame_refl].
    intros n. rewrite (cp_field7 forceNec) by reflexivity. apply Hforce.
  Qed.

  (* only a new right-hand side *)
  Lemma cp_case_add fuel r t8 e :
    oldRhs = None -> root = Some r -> addChild fuel t7 c r = Ok (t8, e) ->
    match e with Some x => adj_err x | None => cp_post t8 end.
  Proof.
    intros Eo Er H.
    assert (Hnil : forall m : nid, m ∉ []) by (intros m Hm; inversion Hm).
    assert (B7 : BInv [c] t7).
    { apply (BInv_reopen t6 t7 c (TInv_BInv t6 T6 Hsreg6) Hgc); try reflexivity; try (apply cp_field7; reflexivity).
      - intros m Hm. split; [apply cp_field7; reflexivity|]. rewrite cp_decl7, decide_False by exact Hm. reflexivity.
      - apply (edges_ok_ext t6 t7); [apply cp_field7; reflexivity|apply cp_field7; reflexivity|apply T6].
      - intros m _ Hm. rewrite (isNecessary_ext (nd t7 m) (nd t6 m)) by (apply cp_field7; reflexivity).
        rewrite <- (t_nec _ _ _ T6 m (Hnil m)); [exact Hm|intros []].
      - intros m _. split; apply cp_field7; reflexivity.
      - apply cp_has7. }
    pose proof (cp_add t7 r Er B7) as AC.
    specialize (AC ltac:(intros m; repeat split) ltac:(apply cp_field7; reflexivity)).
    assert (Hp7 : parents (nd t7 c) = [b]).
    { rewrite (cp_field7 parents) by reflexivity. rewrite cp_par6, Eo. reflexivity. }
    assert (Hn7 : isNecessary (nd t7 c) = true).
    { rewrite (isNecessary_ext (nd t7 c) (nd t6 c)) by (apply cp_field7; reflexivity).
      rewrite <- (t_nec _ _ _ T6 c (Hnil c)); [exact Hgc|intros []]. }
    specialize (AC Hp7 Hn7 eq_refl eq_refl ltac:(reflexivity) eq_refl eq_refl eq_refl eq_refl eq_refl eq_refl eq_refl eq_refl fuel t8 e H).
    destruct e as [x|]; [exact AC|]. destruct AC as (B8 & F8 & R8).
    split; [apply BInv_TInv, B8|]. split; [exact R8|]. split; [|apply cp_frame_ac, F8].
    intros n. destruct (cf_static _ _ F8 n) as (_&_&_&_&->&_). rewrite (cp_field7 forceNec) by reflexivity. apply Hforce.
  Qed.

  Local Lemma cp_old_facts o : oldRhs = Some o ->
    o <> b /\ o <> c /\ has t6 o /\ inGraph (nd t6 o) = true /\ rm o (parents (nd t6 c)) = [b].
  Proof.
    intros Eo. rewrite Eo in Hold.
    assert (Hop : o ∈ parents (nd t6 c)) by (rewrite cp_par6, Eo; right; left).
    split; [exact Hold|]. split.
    { intros ->. destruct cp_height6 as (_ & H & _). specialize (H c Hop). lia. }
    split; [apply (parent_has t6 c o (t_edges _ _ _ T6) Hop)|].
    split; [apply (parent_registered t6 c o (t_edges _ _ _ T6) (t_zero _ _ _ T6) Hop)|].
    rewrite cp_par6, Eo. simpl. rewrite !rm_cons, rm_nil, decide_False, decide_True by congruence. reflexivity.
  Qed.

  (* only the old right-hand side goes *)
  Lemma cp_case_rm fuel o t8 :
    oldRhs = Some o -> root = None -> checkIfUnnecessary fuel (unlink t7 c o) o = Ok t8 -> cp_post t8.
  Proof.
    intros Eo Er H. destruct (cp_old_facts o Eo) as (Hob & Hoc & Hho & Hgo & Hrm).
    set (tA := unlink t7 c o) in *.
    assert (TA : TInv [] (eq o) tA).
    { apply (TInv_unlink_like [] t6 tA c o T6 (cp_U o)).
      intros n _ Hn. unfold tA. rewrite parents_nd_unlink, decl_nd_unlink, (cp_field7 parents), cp_decl7 by reflexivity.
      destruct (decide (n = c)) as [->|Hne].
      - rewrite Hrm, Er. reflexivity.
      - apply (t_par _ _ _ T6 n); [intros Hx; inversion Hx|exact Hn]. }
    destruct (checkIfUnnecessary_spec fuel tA o [] t8 TA ltac:(intros Hx; inversion Hx) H) as [[T8 _ Hv Hm] F].
    split; [exact T8|]. split; [apply (RestM_td_frame D tA t8 F Hv Hm), cp_RestA|]. split.
    - intros n. destruct (tf_static _ _ F n) as (_&_&_&->&_). unfold tA. rewrite forceNec_nd_unlink, (cp_field7 forceNec) by reflexivity. apply Hforce.
    - eapply cp_frame_trans; [apply (cp_frame7A o)|apply (cp_frame_td tA t8 F Hv)].
  Qed.

  (* the right-hand side is replaced: the old one is kept alive while the new one is linked *)
  Lemma cp_case_swap fuel o r t8 e :
    oldRhs = Some o -> root = Some r -> o <> r ->
    (let s := upd (unlink t7 c o) o (set forceNec (fun _ => true)) in
     s <-? addChild fuel s c r;
     let s := upd s o (set forceNec (fun _ => false)) in
     lift (checkIfUnnecessary fuel s o)) = Ok (t8, e) ->
    match e with Some x => adj_err x | None => cp_post t8 end.
  Proof.
    intros Eo Er Hor H. destruct (cp_old_facts o Eo) as (Hob & Hoc & Hho & Hgo & Hrm).
    assert (Hnil : forall m : nid, m ∉ []) by (intros m Hm; inversion Hm).
    set (tA := unlink t7 c o) in *. cbv zeta in H. set (tB := upd tA o (set forceNec (fun _ => true))) in *.
    assert (HhA : has tA o) by (apply has_unlink, cp_has7, Hho).
    assert (HfB : forall {A} (g : node -> A), (forall x f, g (set forceNec f x) = g x) -> forall m, g (nd tB m) = g (nd tA m)).
    { intros A g Hg' m. unfold tB. apply nd_upd_proj. intros x. apply Hg'. }
    assert (HfldB : forall {A} (g : node -> A),
               (forall x f, g (set forceNec f x) = g x) -> (forall x f, g (set decl f x) = g x) ->
               (forall x f, g (set parents f x) = g x) -> (forall x f, g (set children f x) = g x) ->
               forall m, g (nd tB m) = g (nd t6 m)).
    { intros A g H1 H2 H3 H4 m. rewrite (HfB _ g H1). apply cp_fieldA; assumption. }
    assert (HparB : forall m, parents (nd tB m) = if decide (m = c) then [b] else parents (nd t6 m)).
    { intros m. rewrite (HfB _ parents) by reflexivity. unfold tA. rewrite parents_nd_unlink, (cp_field7 parents) by reflexivity.
      destruct (decide (m = c)) as [->|]; [exact Hrm|reflexivity]. }
    assert (HchiB : forall m, m <> o -> children (nd tB m) = children (nd t6 m)).
    { intros m Hm. rewrite (HfB _ children) by reflexivity. unfold tA. rewrite children_nd_unlink, decide_False by exact Hm.
      apply cp_field7. reflexivity. }
    assert (HforB : forall m, m <> o -> forceNec (nd tB m) = forceNec (nd t6 m)).
    { intros m Hm. unfold tB. rewrite nd_upd_ne by exact Hm. unfold tA. rewrite forceNec_nd_unlink. apply cp_field7. reflexivity. }
    assert (HdeclB : forall m, decl (nd tB m) = decl (nd t7 m)).
    { intros m. rewrite (HfB _ decl) by reflexivity. unfold tA. apply decl_nd_unlink. }
    assert (HhasB : forall m, has tB m <-> has t7 m).
    { intros m. unfold tB. rewrite has_upd. unfold tA. apply has_unlink. }
    assert (BB : BInv [c] tB).
    { apply (BInv_reopen t6 tB c (TInv_BInv t6 T6 Hsreg6) Hgc); try reflexivity; try (apply HfldB; reflexivity).
      - intros m Hm. split; [rewrite HparB, decide_False by exact Hm; reflexivity|].
        rewrite HdeclB, cp_decl7, decide_False by exact Hm. reflexivity.
      - apply (edges_ok_ext tA tB); [apply HfB; reflexivity|apply HfB; reflexivity|].
        apply edges_ok_unlink. apply (edges_ok_ext t6 t7); [apply cp_field7; reflexivity|apply cp_field7; reflexivity|apply T6].
      - intros m Hmc Hm. destruct (decide (m = o)) as [->|Hmo].
        + apply isNecessary_true. left. unfold tB. rewrite nd_upd_eq by exact HhA. reflexivity.
        + rewrite (isNecessary_ext (nd tB m) (nd t6 m)); [|apply HforB, Hmo|apply HchiB, Hmo|apply HfldB; reflexivity].
          rewrite <- (t_nec _ _ _ T6 m (Hnil m)); [exact Hm|intros []].
      - intros m Hm. assert (Hmo : m <> o) by (intros ->; congruence). split; [apply HchiB, Hmo|apply HforB, Hmo].
      - intros m. rewrite HhasB. apply cp_has7. }
    apply ebind_inv in H as (tC & e2 & H2 & Hrest).
    pose proof (cp_add tB r Er BB) as AC.
    assert (HrelB : forall m,
      nkind (nd tB m) = nkind (nd t7 m) /\ decl (nd tB m) = decl (nd t7 m) /\
      scope (nd tB m) = scope (nd t7 m) /\ valid (nd tB m) = valid (nd t7 m) /\
      inGraph (nd tB m) = inGraph (nd t7 m) /\
      hAdj (nd tB m) = hAdj (nd t7 m) /\ recomputedAt (nd tB m) = recomputedAt (nd t7 m) /\
      changedAt (nd tB m) = changedAt (nd t7 m) /\ setAt (nd tB m) = setAt (nd t7 m)).
    { intros m. repeat split; try apply HdeclB;
        (etransitivity; [apply HfldB; reflexivity|symmetry; apply cp_field7; reflexivity]). }
    specialize (AC HrelB).
    specialize (AC ltac:(apply HfldB; reflexivity)).
    assert (HpB : parents (nd tB c) = [b]) by (rewrite HparB, decide_True by reflexivity; reflexivity).
    assert (HnB : isNecessary (nd tB c) = true).
    { rewrite (isNecessary_ext (nd tB c) (nd t6 c)); [|apply HforB; congruence|apply HchiB; congruence|apply HfldB; reflexivity].
      rewrite <- (t_nec _ _ _ T6 c (Hnil c)); [exact Hgc|intros []]. }
    specialize (AC HpB HnB eq_refl eq_refl HhasB eq_refl eq_refl eq_refl eq_refl eq_refl eq_refl eq_refl eq_refl fuel tC e2 H2).
    destruct e2 as [x|].
    { destruct Hrest as [[? _]|(_ & _ & ->)]; [discriminate|]. exact AC. }
    destruct Hrest as [[_ H]|(Hne & _)]; [|congruence]. apply lift_inv in H as [H ->].
    destruct AC as (BC & FC & RC).
    set (tD := upd tC o (set forceNec (fun _ => false))) in *.
    assert (HhC : has tC o) by (apply (cf_has _ _ FC), HhasB, cp_has7, Hho).
    pose proof (TInv_unforce tC o (BInv_TInv tC BC) HhC) as TD. fold tD in TD.
    destruct (checkIfUnnecessary_spec fuel tD o [] t8 TD ltac:(intros Hx; inversion Hx) H) as [[T8 _ Hv Hm] F].
    assert (HfD : forall {A} (g : node -> A), (forall x f, g (set forceNec f x) = g x) -> forall m, g (nd tD m) = g (nd tC m)).
    { intros A g Hg' m. unfold tD. apply nd_upd_proj. intros x. apply Hg'. }
    assert (RD : RestM D tD).
    { apply (RestM_ext D tC tD); auto; try reflexivity; [intros m; apply has_upd|].
      intros m. repeat split; apply HfD; reflexivity. }
    split; [exact T8|]. split; [apply (RestM_td_frame D tD t8 F Hv Hm RD)|]. split.
    - intros n. destruct (tf_static _ _ F n) as (_&_&_&->&_). unfold tD. destruct (decide (n = o)) as [->|Hno].
      + rewrite nd_upd_eq by exact HhC. reflexivity.
      + rewrite nd_upd_ne by exact Hno. destruct (cf_static _ _ FC n) as (_&_&_&_&->&_). rewrite HforB by exact Hno. apply Hforce.
    - apply (cp_frame_trans t7 tD t8); [|apply (cp_frame_td tD t8 F Hv)].
      apply (cp_frame_trans t7 tC tD); [|split; [reflexivity|intros m; apply has_upd|reflexivity|intros m; repeat split; apply HfD; reflexivity|apply norun_ext_refl; reflexivity]].
      apply (cp_frame_trans t7 tB tC); [|apply (cp_frame_ac tB tC FC)].
      split; [reflexivity|exact HhasB|reflexivity| |apply norun_ext_refl; reflexivity].
      intros m. rewrite HdeclB. repeat split; first [apply HfB; reflexivity|idtac].
      + rewrite (HfB _ nkind) by reflexivity. apply nkind_nd_unlink.
      + rewrite (HfB _ scope) by reflexivity. apply scope_nd_unlink.
      + rewrite (HfB _ valid) by reflexivity. apply valid_nd_unlink.
  Qed.

  (* the same cases never fault *)
  Lemma nc_case_add fuel r : oldRhs = None -> root = Some r -> nocrash (addChild fuel t7 c r).
  Proof.
    intros Eo Er.
    assert (Hnil : forall m : nid, m ∉ []) by (intros m Hm; inversion Hm).
    assert (B7 : BInv [c] t7).
    { apply (BInv_reopen t6 t7 c (TInv_BInv t6 T6 Hsreg6) Hgc); try reflexivity; try (apply cp_field7; reflexivity).
      - intros m Hm. split; [apply cp_field7; reflexivity|]. rewrite cp_decl7, decide_False by exact Hm. reflexivity.
      - apply (edges_ok_ext t6 t7); [apply cp_field7; reflexivity|apply cp_field7; reflexivity|apply T6].
      - intros m _ Hm. rewrite (isNecessary_ext (nd t7 m) (nd t6 m)) by (apply cp_field7; reflexivity).
        rewrite <- (t_nec _ _ _ T6 m (Hnil m)); [exact Hm|intros []].
      - intros m _. split; apply cp_field7; reflexivity.
      - apply cp_has7. }
    pose proof (nc_cp_add t7 r Er B7) as AC.
    specialize (AC ltac:(intros m; repeat split) ltac:(apply cp_field7; reflexivity)).
    assert (Hp7 : parents (nd t7 c) = [b]).
    { rewrite (cp_field7 parents) by reflexivity. rewrite cp_par6, Eo. reflexivity. }
    assert (Hn7 : isNecessary (nd t7 c) = true).
    { rewrite (isNecessary_ext (nd t7 c) (nd t6 c)) by (apply cp_field7; reflexivity).
      rewrite <- (t_nec _ _ _ T6 c (Hnil c)); [exact Hgc|intros []]. }
    apply (AC Hp7 Hn7 eq_refl eq_refl ltac:(reflexivity) eq_refl eq_refl eq_refl eq_refl eq_refl eq_refl eq_refl eq_refl fuel).
  Qed.

  Lemma nc_case_rm fuel o : oldRhs = Some o -> root = None -> nocrash (checkIfUnnecessary fuel (unlink t7 c o) o).
  Proof.
    intros Eo Er. destruct (cp_old_facts o Eo) as (Hob & Hoc & Hho & Hgo & Hrm).
    set (tA := unlink t7 c o) in *.
    assert (TA : TInv [] (eq o) tA).
    { apply (TInv_unlink_like [] t6 tA c o T6 (cp_U o)).
      intros n _ Hn. unfold tA. rewrite parents_nd_unlink, decl_nd_unlink, (cp_field7 parents), cp_decl7 by reflexivity.
      destruct (decide (n = c)) as [->|Hne].
      - rewrite Hrm, Er. reflexivity.
      - apply (t_par _ _ _ T6 n); [intros Hx; inversion Hx|exact Hn]. }
    apply (nc_checkIfUnnecessary fuel tA o [] TA). intros Hx; inversion Hx.
  Qed.

  Lemma nc_case_swap fuel o r :
    oldRhs = Some o -> root = Some r -> o <> r ->
    nocrash (let s := upd (unlink t7 c o) o (set forceNec (fun _ => true)) in
             s <-? addChild fuel s c r;
             let s := upd s o (set forceNec (fun _ => false)) in
             lift (checkIfUnnecessary fuel s o)).
  Proof.
    intros Eo Er Hor. destruct (cp_old_facts o Eo) as (Hob & Hoc & Hho & Hgo & Hrm).
    assert (Hnil : forall m : nid, m ∉ []) by (intros m Hm; inversion Hm).
    set (tA := unlink t7 c o) in *. cbv zeta. set (tB := upd tA o (set forceNec (fun _ => true))) in *.
    assert (HhA : has tA o) by (apply has_unlink, cp_has7, Hho).
    assert (HfB : forall {A} (g : node -> A), (forall x f, g (set forceNec f x) = g x) -> forall m, g (nd tB m) = g (nd tA m)).
    { intros A g Hg' m. unfold tB. apply nd_upd_proj. intros x. apply Hg'. }
    assert (HfldB : forall {A} (g : node -> A),
               (forall x f, g (set forceNec f x) = g x) -> (forall x f, g (set decl f x) = g x) ->
               (forall x f, g (set parents f x) = g x) -> (forall x f, g (set children f x) = g x) ->
               forall m, g (nd tB m) = g (nd t6 m)).
    { intros A g H1 H2 H3 H4 m. rewrite (HfB _ g H1). apply cp_fieldA; assumption. }
    assert (HparB : forall m, parents (nd tB m) = if decide (m = c) then [b] else parents (nd t6 m)).
    { intros m. rewrite (HfB _ parents) by reflexivity. unfold tA. rewrite parents_nd_unlink, (cp_field7 parents) by reflexivity.
      destruct (decide (m = c)) as [->|]; [exact Hrm|reflexivity]. }
    assert (HchiB : forall m, m <> o -> children (nd tB m) = children (nd t6 m)).
    { intros m Hm. rewrite (HfB _ children) by reflexivity. unfold tA. rewrite children_nd_unlink, decide_False by exact Hm.
      apply cp_field7. reflexivity. }
    assert (HforB : forall m, m <> o -> forceNec (nd tB m) = forceNec (nd t6 m)).
    { intros m Hm. unfold tB. rewrite nd_upd_ne by exact Hm. unfold tA. rewrite forceNec_nd_unlink. apply cp_field7. reflexivity. }
    assert (HdeclB : forall m, decl (nd tB m) = decl (nd t7 m)).
    { intros m. rewrite (HfB _ decl) by reflexivity. unfold tA. apply decl_nd_unlink. }
    assert (HhasB : forall m, has tB m <-> has t7 m).
    { intros m. unfold tB. rewrite has_upd. unfold tA. apply has_unlink. }
    assert (BB : BInv [c] tB).
    { apply (BInv_reopen t6 tB c (TInv_BInv t6 T6 Hsreg6) Hgc); try reflexivity; try (apply HfldB; reflexivity).
      - intros m Hm. split; [rewrite HparB, decide_False by exact Hm; reflexivity|].
        rewrite HdeclB, cp_decl7, decide_False by exact Hm. reflexivity.
      - apply (edges_ok_ext tA tB); [apply HfB; reflexivity|apply HfB; reflexivity|].
        apply edges_ok_unlink. apply (edges_ok_ext t6 t7); [apply cp_field7; reflexivity|apply cp_field7; reflexivity|apply T6].
      - intros m Hmc Hm. destruct (decide (m = o)) as [->|Hmo].
        + apply isNecessary_true. left. unfold tB. rewrite nd_upd_eq by exact HhA. reflexivity.
        + rewrite (isNecessary_ext (nd tB m) (nd t6 m)); [|apply HforB, Hmo|apply HchiB, Hmo|apply HfldB; reflexivity].
          rewrite <- (t_nec _ _ _ T6 m (Hnil m)); [exact Hm|intros []].
      - intros m Hm. assert (Hmo : m <> o) by (intros ->; congruence). split; [apply HchiB, Hmo|apply HforB, Hmo].
      - intros m. rewrite HhasB. apply cp_has7. }
    assert (HrelB : forall m,
      nkind (nd tB m) = nkind (nd t7 m) /\ decl (nd tB m) = decl (nd t7 m) /\
      scope (nd tB m) = scope (nd t7 m) /\ valid (nd tB m) = valid (nd t7 m) /\
      inGraph (nd tB m) = inGraph (nd t7 m) /\
      hAdj (nd tB m) = hAdj (nd t7 m) /\ recomputedAt (nd tB m) = recomputedAt (nd t7 m) /\
      changedAt (nd tB m) = changedAt (nd t7 m) /\ setAt (nd tB m) = setAt (nd t7 m)).
    { intros m. repeat split; try apply HdeclB;
        (etransitivity; [apply HfldB; reflexivity|symmetry; apply cp_field7; reflexivity]). }
    assert (HpB : parents (nd tB c) = [b]) by (rewrite HparB, decide_True by reflexivity; reflexivity).
    assert (HnB : isNecessary (nd tB c) = true).
    { rewrite (isNecessary_ext (nd tB c) (nd t6 c)); [|apply HforB; congruence|apply HchiB; congruence|apply HfldB; reflexivity].
      rewrite <- (t_nec _ _ _ T6 c (Hnil c)); [exact Hgc|intros []]. }
    apply nc_ebind.
    { apply (nc_cp_add tB r Er BB HrelB ltac:(apply HfldB; reflexivity) HpB HnB eq_refl eq_refl HhasB eq_refl eq_refl eq_refl eq_refl eq_refl eq_refl eq_refl eq_refl fuel). }
    intros tC H2. apply nc_lift.
    destruct (cp_add tB r Er BB HrelB ltac:(apply HfldB; reflexivity) HpB HnB eq_refl eq_refl HhasB eq_refl eq_refl eq_refl eq_refl eq_refl eq_refl eq_refl eq_refl fuel tC None H2) as (BC & FC & RC).
    assert (HhC : has tC o) by (apply (cf_has _ _ FC), HhasB, cp_has7, Hho).
    pose proof (TInv_unforce tC o (BInv_TInv tC BC) HhC) as TD.
    apply (nc_checkIfUnnecessary fuel _ o [] TD). intros Hx; inversion Hx.
  Qed.

  Lemma nc_changeParent fuel oR rt :
    oR = oldRhs -> rt = root -> nocrash (changeParent fuel t7 c oR rt).
  Proof.
    intros Eo Er. unfold changeParent. destruct oR as [o|], rt as [r|].
    - destruct (decide (o = r)) as [->|Hor].
      + rewrite bool_decide_true by reflexivity. apply nc_Ok.
      + rewrite bool_decide_false by exact Hor. apply (nc_case_swap fuel o r (eq_sym Eo) (eq_sym Er) Hor).
    - apply nc_lift. apply (nc_case_rm fuel o (eq_sym Eo) (eq_sym Er)).
    - apply (nc_case_add fuel r (eq_sym Eo) (eq_sym Er)).
    - apply nc_Ok.
  Qed.

  Lemma changeParent_spec fuel oR rt t8 e :
    oR = oldRhs -> rt = root ->
    changeParent fuel t7 c oR rt = Ok (t8, e) ->
    match e with Some x => adj_err x | None => cp_post t8 end.
  Proof.
    intros Eo Er H. unfold changeParent in H. destruct oR as [o|], rt as [r|].
    - destruct (decide (o = r)) as [->|Hor].
      + rewrite bool_decide_true in H by reflexivity. apply ok_inv in H as [-> ->].
        apply cp_case_same. rewrite <- Eo, <- Er. reflexivity.
      + rewrite bool_decide_false in H by exact Hor.
        apply (cp_case_swap fuel o r t8 e (eq_sym Eo) (eq_sym Er) Hor H).
    - apply lift_inv in H as [H ->]. apply (cp_case_rm fuel o t8 (eq_sym Eo) (eq_sym Er) H).
    - apply (cp_case_add fuel r t8 e (eq_sym Eo) (eq_sym Er) H).
    - apply ok_inv in H as [-> ->]. apply cp_case_same. rewrite <- Eo, <- Er. reflexivity.
  Qed.
End cp.

(** ** the discarded generation and everything nested in it is out of the graph *)
Section doomed.
  Context (D : nid -> Prop) (b : nat) (t : state).
  Hypothesis T : TInv [] noE t.
  Hypothesis R : RestM D t.
  Hypothesis Hf : forall n, forceNec (nd t n) = false.
  Hypothesis HD : forall n, D n -> scope (nd t n) = Some b /\ ~ inGen t b n.
  Hypothesis HDdec : forall n, D n \/ ~ D n.

  Inductive doomed : nid -> Prop :=
  | dm_old n : D n -> doomed n
  | dm_in n b1 : scope (nd t n) = Some b1 -> doomed b1 -> doomed n.

  Lemma doomed_scope n : doomed n ->
    exists b1, scope (nd t n) = Some b1 /\ ((b1 = b /\ D n) \/ doomed b1).
  Proof.
    intros [n' Hd|n' b1 Hs Hd].
    - exists b. split; [apply (HD _ Hd)|left; auto].
    - exists b1. auto.
  Qed.

  Lemma doomed_gt n : doomed n -> (b < n)%nat.
  Proof.
    induction 1 as [n Hd|n b1 Hs _ IH].
    - destruct (HD n Hd) as [Hs _]. destruct (m_scopes _ _ R n b Hs). lia.
    - destruct (m_scopes _ _ R n b1 Hs). lia.
  Qed.

  Lemma doomed_unreg n : doomed n -> inGraph (nd t n) = false.
  Proof.
    remember (Z.to_nat (maxHeight t - height (nd t n))) as k eqn:Ek.
    revert n Ek. induction (lt_wf k) as [k _ IH]. intros n Ek Hdm.
    destruct (inGraph (nd t n)) eqn:Hg; [exfalso|reflexivity].
    pose proof (t_edges _ _ _ T) as He. pose proof (t_zero _ _ _ T) as Hz.
    assert (Hnil : forall m : nid, m ∉ []) by (intros m Hm; inversion Hm).
    pose proof Hg as Hn. rewrite (t_nec _ _ _ T n (Hnil n)) in Hn by (intros []).
    destruct (doomed_scope n Hdm) as (b1 & Hsn & Hcase).
    apply isNecessary_true in Hn as [Hn|[Hn|Hn]].
    - rewrite Hf in Hn. discriminate.
    - destruct (children (nd t n)) as [|c' l] eqn:Ec; [congruence|].
      assert (Hc : c' ∈ children (nd t n)) by (rewrite Ec; left).
      pose proof (child_registered t c' n He Hz Hc) as Hgc.
      apply (edges_parent_child t c' n He) in Hc.
      destruct (t_height _ _ _ T c' Hgc) as (Hrange & Hlow & _).
      pose proof (Hlow n Hc) as Hlt.
      destruct (t_height _ _ _ T n Hg) as (Hrange' & _ & _).
      rewrite (t_par _ _ _ T c' (Hnil c') Hgc) in Hc.
      assert (Hvc : valid (nd t c') = true) by (apply (t_valid _ _ _ T), Hgc).
      assert (Hhc : has t c') by (apply has_inGraph, Hgc).
      assert (Hdc : doomed c').
      { (* a valid node of scope b that is not of the current generation is of the discarded one *)
        assert (Hb : scope (nd t c') = Some b -> ~ inGen t b c' -> doomed c').
        { intros Hs Hng. destruct (HDdec c') as [Hd|Hd]; [apply dm_old, Hd|].
          destruct (m_vdead _ _ R c' b Hhc Hs Hng Hd) as [E _]. congruence. }
        destruct (sc_decl t (m_scoping _ _ R) c' n Hc) as [E|[E|(b0 & Hk & Hs0 & Hr)]].
        - congruence.
        - rewrite Hsn in E. destruct Hcase as [[-> Hd]|Hd1].
          + apply Hb; [congruence|]. intros Hgen.
            apply (proj2 (HD n Hd)). apply (sc_gen t (m_scoping _ _ R) c' n b Hc); congruence.
          + apply (dm_in c' b1); [congruence|exact Hd1].
        - rewrite Hsn in Hs0. injection Hs0 as ->.
          pose proof (m_kinds _ _ R c' Hhc) as K. rewrite Hk in K. destruct K as [-> [r0 Hr0]].
          pose proof (m_binds _ _ R b0 r0 Hr0) as W.
          destruct Hcase as [[-> Hd]|Hd0].
          + exfalso. destruct (sc_rhs t (m_scoping _ _ R) b n Hr) as [E|[_ E]]; [congruence|].
            apply (proj2 (HD n Hd)), E.
          + destruct (doomed_scope b0 Hd0) as (b2 & Hs2 & Hcase2).
            assert (HsS : scope (nd t (S b0)) = Some b2) by (rewrite (bw_scope _ _ _ W); exact Hs2).
            destruct Hcase2 as [[-> Hd]|Hd2].
            * apply Hb; [exact HsS|]. intros Hgen. apply (proj2 (HD b0 Hd)).
              apply (sc_gen t (m_scoping _ _ R) (S b0) b0 b); [rewrite (bw_decl_main _ _ _ W); left|exact HsS|exact Hs2|exact Hgen].
            * apply (dm_in (S b0) b2 HsS Hd2). }
      assert (Hgc' : inGraph (nd t c') = false).
      { apply (IH (Z.to_nat (maxHeight t - height (nd t c')))); [|reflexivity|exact Hdc]. subst k. lia. }
      congruence.
    - destruct (observers (nd t n)) as [|o l] eqn:Eo; [congruence|].
      assert (Ho : o ∈ observers (nd t n)) by (rewrite Eo; left).
      apply (ob_iff t (t_obs _ _ _ T)) in Ho. destruct (ob_ids t (t_obs _ _ _ T) o n Ho) as (_ & _ & E). congruence.
  Qed.
End doomed.

(** ** invalidating the discarded generation *)

(* [t] is [t0] up to validity, the recompute stamps and the log *)
Record iv_same (t0 t : state) : Prop := {
  is_next : next t = next t0; is_binds : binds t = binds t0; is_reg : reg t = reg t0; is_obs : obs t = obs t0;
  is_heap : heap t = heap t0; is_adj : adj t = adj t0; is_invq : invq t = invq t0; is_stabNum : stabNum t = stabNum t0;
  is_status : status t = status t0; is_numNodes : numNodes t = numNodes t0; is_setDuring : setDuring t = setDuring t0;
  is_setRemoved : setRemoved t = setRemoved t0; is_handlers : handlers t = handlers t0; is_maxHeight : maxHeight t = maxHeight t0;
  is_has : forall m, has t m <-> has t0 m;
  is_node : forall m,
    nkind (nd t m) = nkind (nd t0 m) /\ decl (nd t m) = decl (nd t0 m) /\ scope (nd t m) = scope (nd t0 m) /\
    height (nd t m) = height (nd t0 m) /\ hAdj (nd t m) = hAdj (nd t0 m) /\ setAt (nd t m) = setAt (nd t0 m) /\
    parents (nd t m) = parents (nd t0 m) /\ children (nd t m) = children (nd t0 m) /\
    observers (nd t m) = observers (nd t0 m) /\ forceNec (nd t m) = forceNec (nd t0 m) /\
    inGraph (nd t m) = inGraph (nd t0 m)
}.

Lemma iv_same_refl t : iv_same t t.
Proof. split; try reflexivity. intros m. repeat split. Qed.

Lemma iv_same_trans t0 t1 t2 : iv_same t0 t1 -> iv_same t1 t2 -> iv_same t0 t2.
Proof.
  intros A B. split; try (rewrite ?(is_next _ _ B), ?(is_binds _ _ B), ?(is_reg _ _ B), ?(is_obs _ _ B), ?(is_heap _ _ B),
      ?(is_adj _ _ B), ?(is_invq _ _ B), ?(is_stabNum _ _ B), ?(is_status _ _ B), ?(is_numNodes _ _ B), ?(is_setDuring _ _ B),
      ?(is_setRemoved _ _ B), ?(is_handlers _ _ B), ?(is_maxHeight _ _ B); apply A).
  - intros m. rewrite (is_has _ _ B). apply A.
  - intros m. destruct (is_node _ _ A m) as (?&?&?&?&?&?&?&?&?&?&?), (is_node _ _ B m) as (?&?&?&?&?&?&?&?&?&?&?).
    repeat split; congruence.
Qed.

Lemma iv_same_emit t e : iv_same t (emit e t).
Proof. split; try reflexivity. intros m. rewrite nd_emit. repeat split. Qed.

Lemma iv_same_upd t n f :
  (forall x, nkind (f x) = nkind x /\ decl (f x) = decl x /\ scope (f x) = scope x /\ height (f x) = height x /\
             hAdj (f x) = hAdj x /\ setAt (f x) = setAt x /\ parents (f x) = parents x /\ children (f x) = children x /\
             observers (f x) = observers x /\ forceNec (f x) = forceNec x /\ inGraph (f x) = inGraph x) ->
  iv_same t (upd t n f).
Proof.
  intros Hf. split; try reflexivity; [intros m; apply has_upd|].
  intros m. destruct (decide (has t n)) as [Hn|Hn]; [|rewrite (upd_missing t n f Hn); repeat split].
  rewrite nd_upd by exact Hn. destruct (decide (m = n)) as [->|]; [apply Hf|repeat split].
Qed.

Lemma invalidateNode_S fuel s n :
  invalidateNode (S fuel) s n =
    if negb (valid (nd s n)) then Ok s else
    let s := emit (EvInval n) s in
    let s := upd s n (fun x => x <| changedAt := stabNum s |> <| recomputedAt := stabNum s |>) in
    s <-! (if isNecessary (nd s n)
           then s <-! removeParents fuel s n;
                Ok (upd s n (set height (fun _ => scopeHeight s (scope (nd s n)) + 1)))
           else Ok s);
    s <-! (match nkind (nd s n) with
           | KBindMain b => rfold (invalidateNode fuel) (b_rhsNodes (bd s b)) s
           | _ => Ok s
           end);
    let s := upd s n (set valid (fun _ => false)) in
    let s := s <| invq := invq s ++ children (nd s n) |> in
    if inHeap s n then heapRemove s n else Ok s.
Proof. reflexivity. Qed.

Lemma rbind_Ok {A B} (x : A) (k : A -> res B) : rbind (Ok x) k = k x.
Proof. reflexivity. Qed.

Section inval.
  Context (D : nid -> Prop) (b : nat) (t0 : state).
  Hypothesis T0 : TInv [] noE t0.
  Hypothesis R0 : RestM D t0.
  Hypothesis Hf0 : forall n, forceNec (nd t0 n) = false.
  Hypothesis HD : forall n, D n -> scope (nd t0 n) = Some b /\ ~ inGen t0 b n.
  Hypothesis HDdec : forall n, D n \/ ~ D n.
  Hypothesis HDpair : forall b1, D (S b1) -> nkind (nd t0 (S b1)) = KBindMain b1 -> D b1.

  Notation dm := (doomed D t0).

  Record JI (P : list nid) (t : state) : Prop := {
    j_same : iv_same t0 t;
    j_valid : forall m, valid (nd t m) = valid (nd t0 m) \/ (valid (nd t m) = false /\ dm m);
    j_stamps : forall m, 0 <= recomputedAt (nd t m) <= stabNum t0 /\ 0 <= changedAt (nd t m) <= stabNum t0;
    j_log : log_ok (log t);
    j_lastNU : forall m, lastNU (log t) m = lastNU (log t0) m;
    j_inval : forall m, EvInval m ∈ log t <-> (valid (nd t m) = false \/ m ∈ P);
    j_P : forall p, p ∈ P -> valid (nd t p) = true;
    j_G : forall b1 m, inGen t b1 m -> valid (nd t m) = true -> valid (nd t (S b1)) = true
  }.

  Definition valid_mono (t t' : state) : Prop := forall m, valid (nd t m) = false -> valid (nd t' m) = false.

  Definition inval_spec (fuel : nat) : Prop := forall P t n t',
    JI P t -> dm n -> (forall p, p ∈ P -> (p < n)%nat) ->
    invalidateNode fuel t n = Ok t' ->
    JI P t' /\ valid (nd t' n) = false /\ valid_mono t t'.

  Lemma inval_loop fuel : inval_spec fuel -> forall l P t t',
    JI P t -> (forall m, m ∈ l -> dm m /\ forall p, p ∈ P -> (p < m)%nat) ->
    rfold (invalidateNode fuel) l t = Ok t' ->
    JI P t' /\ (forall m, m ∈ l -> valid (nd t' m) = false) /\ valid_mono t t'.
  Proof.
    intros IH l. induction l as [|a l IHl]; intros P t t' J Hl H; simpl in H.
    - injection H as <-. split; [exact J|]. split; [intros m Hm; inversion Hm|intros m Hm; exact Hm].
    - destruct (invalidateNode fuel t a) as [t1| |] eqn:E; simpl in H; try discriminate.
      destruct (Hl a ltac:(left)) as [Hda Hpa].
      destruct (IH P t a t1 J Hda Hpa E) as (J1 & Hva & M1).
      destruct (IHl P t1 t' J1 ltac:(intros m Hm; apply Hl; right; exact Hm) H) as (J' & Hvl & M').
      split; [exact J'|]. split.
      + intros m [->|Hm]%elem_of_cons; [apply M', Hva|apply Hvl, Hm].
      + intros m Hm. apply M', M1, Hm.
  Qed.

  Lemma dm_has n : dm n -> has t0 n.
  Proof.
    intros H. destruct (doomed_scope D b t0 HD n H) as (b1 & Hs & _).
    apply (has_of_field scope). rewrite Hs. discriminate.
  Qed.

  Lemma dm_unreg n : dm n -> inGraph (nd t0 n) = false.
  Proof. apply (doomed_unreg D b t0 T0 R0 Hf0 HD HDdec). Qed.

  Lemma inval_step fuel : inval_spec fuel -> inval_spec (S fuel).
  Proof.
    intros IH P t n t' J Hdn HP H. rewrite invalidateNode_S in H.
    destruct (valid (nd t n)) eqn:Hvn; cbn [negb] in H; cbv iota in H.
    2:{ injection H as <-. split; [exact J|]. split; [exact Hvn|intros m Hm; exact Hm]. }
    cbv zeta in H.
    pose proof (j_same _ _ J) as Sm.
    set (s1 := emit (EvInval n) t) in *.
    set (s2 := upd s1 n (fun x => x <| changedAt := stabNum s1 |> <| recomputedAt := stabNum s1 |>)) in *.
    assert (Hhn : has t n) by (apply (is_has _ _ Sm), dm_has, Hdn).
    assert (Hnd2 : forall m, nd s2 m = if decide (m = n) then (nd t n) <| changedAt := stabNum t |> <| recomputedAt := stabNum t |> else nd t m).
    { intros m. unfold s2. rewrite nd_upd by (apply has_emit, Hhn). unfold s1. rewrite !nd_emit. reflexivity. }
    assert (Hv2 : forall m, valid (nd s2 m) = valid (nd t m)).
    { intros m. rewrite Hnd2. destruct (decide (m = n)) as [->|]; reflexivity. }
    assert (S2 : iv_same t0 s2).
    { eapply iv_same_trans; [exact Sm|]. eapply iv_same_trans; [apply (iv_same_emit t (EvInval n))|].
      apply iv_same_upd. intros x. repeat split. }
    assert (HnP : n ∉ P) by (intros Hx; specialize (HP n Hx); lia).
    assert (Hnlog : EvInval n ∉ log t).
    { intros Hx. apply (j_inval _ _ J) in Hx as [Hx|Hx]; [congruence|contradiction]. }
    assert (J2 : JI (n :: P) s2).
    { split.
      - exact S2.
      - intros m. rewrite Hv2. apply (j_valid _ _ J).
      - intros m. rewrite Hnd2. destruct (decide (m = n)) as [->|]; [|apply (j_stamps _ _ J)].
        cbn. rewrite (is_stabNum _ _ Sm). pose proof (st_num _ (m_stamps _ _ R0)). lia.
      - change (log s2) with (EvInval n :: log t). split; [exact Hnlog|apply (j_log _ _ J)].
      - intros m. change (log s2) with (EvInval n :: log t). simpl. apply (j_lastNU _ _ J).
      - intros m. change (log s2) with (EvInval n :: log t). rewrite Hv2, !elem_of_cons, (j_inval _ _ J m).
        split; [intros [[= ->]|[?|?]]; auto|intros [?|[->|?]]; auto].
      - intros p [->|Hp]%elem_of_cons; rewrite Hv2; [exact Hvn|apply (j_P _ _ J), Hp].
      - intros b1 m. unfold inGen. change (bd s2 b1) with (bd t b1). rewrite !Hv2. apply (j_G _ _ J). }
    (* the node is not in the graph: nothing to tear down *)
    assert (Hg0 : inGraph (nd t0 n) = false) by apply dm_unreg, Hdn.
    destruct (t_zero _ _ _ T0 n Hg0) as (_ & Hc0 & Ho0 & _).
    assert (Hnec : isNecessary (nd s2 n) = false).
    { apply isNecessary_false. destruct (is_node _ _ S2 n) as (_&_&_&_&_&_&_&->&->&->&_). auto. }
    rewrite Hnec in H. rewrite rbind_Ok in H. cbv beta in H.
    (* the nested generation *)
    assert (Hk2 : nkind (nd s2 n) = nkind (nd t0 n)) by apply (is_node _ _ S2 n).
    assert (Mid : exists s3, (match nkind (nd s2 n) with
                              | KBindMain b1 => rfold (invalidateNode fuel) (b_rhsNodes (bd s2 b1)) s2
                              | _ => Ok s2 end) = Ok s3 /\
                             JI (n :: P) s3 /\ valid_mono s2 s3 /\
                             (forall b1 m, n = S b1 -> inGen s3 b1 m -> valid (nd s3 m) = false)).
    { rewrite Hk2 in H |- *.
      destruct (match nkind (nd t0 n) with
                | KBindMain b1 => rfold (invalidateNode fuel) (b_rhsNodes (bd s2 b1)) s2
                | _ => Ok s2 end) as [s3| |] eqn:E3; simpl in H; try discriminate.
      exists s3. split; [reflexivity|].
      destruct (nkind (nd t0 n)) as [e0| |f0|f0|f0|c0| |b1|b1] eqn:Ek;
        try (injection E3 as <-; split; [exact J2|]; split; [intros m Hm; exact Hm|];
             intros b1' m -> Hg; exfalso;
             assert (Hb1 : is_Some (binds t0 !! b1'));
             [unfold inGen, bd in Hg; rewrite (is_binds _ _ S2) in Hg; destruct (binds t0 !! b1'); [eauto|inversion Hg]|];
             destruct Hb1 as [r1 Hr1]; pose proof (bw_kind_main _ _ _ (m_binds _ _ R0 b1' r1 Hr1)) as K;
             rewrite Ek in K; discriminate).
      (* a bind's main node *)
      pose proof (m_kinds _ _ R0 n (dm_has n Hdn)) as K. rewrite Ek in K. destruct K as [-> [r1 Hr1]].
      pose proof (m_binds _ _ R0 b1 r1 Hr1) as W.
      assert (Hdb1 : dm b1).
      { destruct (doomed_scope D b t0 HD (S b1) Hdn) as (b2 & Hs2 & [[-> Hd]|Hd2]).
        - apply dm_old. apply HDpair; [exact Hd|exact Ek].
        - apply (dm_in D t0 b1 b2); [rewrite <- (bw_scope _ _ _ W); exact Hs2|exact Hd2]. }
      assert (Hgen : forall m, m ∈ b_rhsNodes (bd s2 b1) -> dm m /\ forall p, p ∈ S b1 :: P -> (p < m)%nat).
      { intros m Hm. change (bd s2 b1) with (bd t b1) in Hm. unfold bd in Hm. rewrite (is_binds _ _ Sm), Hr1 in Hm. simpl in Hm.
        destruct (bw_rhsNodes _ _ _ W m Hm) as [_ Hsm].
        split; [apply (dm_in D t0 m b1 Hsm Hdb1)|].
        destruct (m_scopes _ _ R0 m b1 Hsm) as [_ Hlt].
        intros p [->|Hp]%elem_of_cons; [exact Hlt|]. specialize (HP p Hp). lia. }
      destruct (inval_loop fuel IH _ (S b1 :: P) s2 s3 J2 Hgen E3) as (J3 & Hall & M3).
      split; [exact J3|]. split; [exact M3|].
      intros b1' m [= <-] Hg. apply Hall. unfold inGen in Hg.
      change (bd s2 b1) with (bd t b1). unfold bd in *. rewrite (is_binds _ _ (j_same _ _ J3)) in Hg. rewrite (is_binds _ _ Sm). exact Hg. }
    destruct Mid as (s3 & E3 & J3 & M3 & Hall). rewrite E3 in H. rewrite rbind_Ok in H. cbv beta in H.
    pose proof (j_same _ _ J3) as S3.
    set (s4 := upd s3 n (set valid (fun _ => false))) in *.
    assert (Hhn3 : has s3 n) by (apply (is_has _ _ S3), dm_has, Hdn).
    assert (Hc4 : children (nd s4 n) = []).
    { unfold s4. rewrite nd_upd_eq by exact Hhn3. cbn. destruct (is_node _ _ S3 n) as (_&_&_&_&_&_&_&->&_). exact Hc0. }
    rewrite Hc4 in H.
    set (s5 := s4 <| invq := invq s4 ++ [] |>) in *.
    assert (Hih : inHeap s5 n = false).
    { destruct (inHeap s5 n) eqn:E; [|reflexivity]. exfalso.
      assert (Hk : hinv (heap s5)).
      { change (heap s5) with (heap s3). rewrite (is_heap _ _ S3). apply (t_heap _ _ _ T0). }
      apply (inHeap_iff s5 n Hk) in E. change (heap s5) with (heap s3) in E. rewrite (is_heap _ _ S3) in E.
      destruct (t_heap _ _ _ T0) as [_ Hin]. destruct (Hin n E) as [Hx _]. congruence. }
    rewrite Hih in H. injection H as <-.
    assert (Hnd5 : forall m, nd s5 m = if decide (m = n) then set valid (fun _ => false) (nd s3 n) else nd s3 m).
    { intros m. change (nd s5 m) with (nd s4 m). unfold s4. apply nd_upd, Hhn3. }
    assert (Hv5 : forall m, valid (nd s5 m) = if decide (m = n) then false else valid (nd s3 m)).
    { intros m. rewrite Hnd5. destruct (decide (m = n)) as [->|]; reflexivity. }
    assert (S5 : iv_same t0 s5).
    { eapply iv_same_trans; [exact S3|].
      pose proof (iv_same_upd s3 n (set valid (fun _ => false)) ltac:(intros x; repeat split)) as S4. fold s4 in S4.
      destruct S4. split; try assumption. change (invq s5) with (invq s4 ++ []). rewrite app_nil_r. assumption. }
    split; [|split].
    - split.
      + exact S5.
      + intros m. rewrite Hv5. destruct (decide (m = n)) as [->|]; [right; auto|apply (j_valid _ _ J3)].
      + intros m. rewrite Hnd5. destruct (decide (m = n)) as [->|]; apply (j_stamps _ _ J3).
      + apply (j_log _ _ J3).
      + apply (j_lastNU _ _ J3).
      + intros m. change (log s5) with (log s3). rewrite (j_inval _ _ J3 m), Hv5, elem_of_cons.
        destruct (decide (m = n)) as [->|Hne]; [tauto|]. tauto.
      + intros p Hp. rewrite Hv5. rewrite decide_False by (intros ->; contradiction).
        apply (j_P _ _ J3). right. exact Hp.
      + intros b1 m. unfold inGen. change (bd s5 b1) with (bd s3 b1). rewrite !Hv5.
        destruct (decide (m = n)) as [->|Hmn]; [discriminate|]. intros Hg Hvm.
        destruct (decide (S b1 = n)) as [<-|Hne]; [|apply (j_G _ _ J3 b1 m Hg Hvm)].
        rewrite (Hall b1 m eq_refl Hg) in Hvm. discriminate.
    - rewrite Hv5, decide_True by reflexivity. reflexivity.
    - intros m Hm. rewrite Hv5. destruct (decide (m = n)); [reflexivity|]. apply M3. rewrite Hv2. exact Hm.
  Qed.

  Lemma inval_all fuel : inval_spec fuel.
  Proof.
    induction fuel as [|fuel IH]; [|apply inval_step, IH].
    intros P t n t' _ _ _ H. discriminate.
  Qed.

  (* ... and never faults *)
  Definition inval_nc (fuel : nat) : Prop := forall P t n,
    JI P t -> dm n -> (forall p, p ∈ P -> (p < n)%nat) -> nocrash (invalidateNode fuel t n).

  Lemma inval_nc_loop fuel : inval_nc fuel -> forall l P t,
    JI P t -> (forall m, m ∈ l -> dm m /\ forall p, p ∈ P -> (p < m)%nat) ->
    nocrash (rfold (invalidateNode fuel) l t).
  Proof.
    intros IH l P t J Hl.
    apply (nc_rfold (fun rest st => JI P st /\ forall m, m ∈ rest -> dm m /\ forall p, p ∈ P -> (p < m)%nat)).
    - split; [exact J|exact Hl].
    - intros a rest st [Jst Hrest]. destruct (Hrest a ltac:(left)) as [Hda Hpa]. split.
      + apply (IH P st a Jst Hda Hpa).
      + intros s1 E. split; [apply (inval_all fuel P st a s1 Jst Hda Hpa E)|].
        intros m Hm. apply Hrest. right. exact Hm.
  Qed.

  Lemma inval_nc_step fuel : inval_nc fuel -> inval_nc (S fuel).
  Proof.
    intros IH P t n J Hdn HP. rewrite invalidateNode_S.
    destruct (valid (nd t n)) eqn:Hvn; cbn [negb]; cbv iota; [|apply nc_Ok].
    cbv zeta.
    pose proof (j_same _ _ J) as Sm.
    set (s1 := emit (EvInval n) t) in *.
    set (s2 := upd s1 n (fun x => x <| changedAt := stabNum s1 |> <| recomputedAt := stabNum s1 |>)) in *.
    assert (Hhn : has t n) by (apply (is_has _ _ Sm), dm_has, Hdn).
    assert (Hnd2 : forall m, nd s2 m = if decide (m = n) then (nd t n) <| changedAt := stabNum t |> <| recomputedAt := stabNum t |> else nd t m).
    { intros m. unfold s2. rewrite nd_upd by (apply has_emit, Hhn). unfold s1. rewrite !nd_emit. reflexivity. }
    assert (Hv2 : forall m, valid (nd s2 m) = valid (nd t m)).
    { intros m. rewrite Hnd2. destruct (decide (m = n)) as [->|]; reflexivity. }
    assert (S2 : iv_same t0 s2).
    { eapply iv_same_trans; [exact Sm|]. eapply iv_same_trans; [apply (iv_same_emit t (EvInval n))|].
      apply iv_same_upd. intros x. repeat split. }
    assert (HnP : n ∉ P) by (intros Hx; specialize (HP n Hx); lia).
    assert (Hnlog : EvInval n ∉ log t).
    { intros Hx. apply (j_inval _ _ J) in Hx as [Hx|Hx]; [congruence|contradiction]. }
    assert (J2 : JI (n :: P) s2).
    { split.
      - exact S2.
      - intros m. rewrite Hv2. apply (j_valid _ _ J).
      - intros m. rewrite Hnd2. destruct (decide (m = n)) as [->|]; [|apply (j_stamps _ _ J)].
        cbn. rewrite (is_stabNum _ _ Sm). pose proof (st_num _ (m_stamps _ _ R0)). lia.
      - change (log s2) with (EvInval n :: log t). split; [exact Hnlog|apply (j_log _ _ J)].
      - intros m. change (log s2) with (EvInval n :: log t). simpl. apply (j_lastNU _ _ J).
      - intros m. change (log s2) with (EvInval n :: log t). rewrite Hv2, !elem_of_cons, (j_inval _ _ J m).
        split; [intros [[= ->]|[?|?]]; auto|intros [?|[->|?]]; auto].
      - intros p [->|Hp]%elem_of_cons; rewrite Hv2; [exact Hvn|apply (j_P _ _ J), Hp].
      - intros b1 m. unfold inGen. change (bd s2 b1) with (bd t b1). rewrite !Hv2. apply (j_G _ _ J). }
    assert (Hg0 : inGraph (nd t0 n) = false) by apply dm_unreg, Hdn.
    destruct (t_zero _ _ _ T0 n Hg0) as (_ & Hc0 & Ho0 & _).
    assert (Hnec : isNecessary (nd s2 n) = false).
    { apply isNecessary_false. destruct (is_node _ _ S2 n) as (_&_&_&_&_&_&_&->&->&->&_). auto. }
    rewrite Hnec. rewrite rbind_Ok. cbv beta.
    assert (Hk2 : nkind (nd s2 n) = nkind (nd t0 n)) by apply (is_node _ _ S2 n).
    assert (Main : forall b1, nkind (nd t0 n) = KBindMain b1 ->
              forall m, m ∈ b_rhsNodes (bd s2 b1) -> dm m /\ forall p, p ∈ n :: P -> (p < m)%nat).
    { intros b1 Ek.
      pose proof (m_kinds _ _ R0 n (dm_has n Hdn)) as K. rewrite Ek in K. destruct K as [En [r1 Hr1]]. subst n.
      pose proof (m_binds _ _ R0 b1 r1 Hr1) as W.
      assert (Hdb1 : dm b1).
      { destruct (doomed_scope D b t0 HD (S b1) Hdn) as (b2 & Hs2 & [[-> Hd]|Hd2]).
        - apply dm_old. apply HDpair; [exact Hd|exact Ek].
        - apply (dm_in D t0 b1 b2); [rewrite <- (bw_scope _ _ _ W); exact Hs2|exact Hd2]. }
      intros m Hm. change (bd s2 b1) with (bd t b1) in Hm. unfold bd in Hm. rewrite (is_binds _ _ Sm), Hr1 in Hm. simpl in Hm.
      destruct (bw_rhsNodes _ _ _ W m Hm) as [_ Hsm].
      split; [apply (dm_in D t0 m b1 Hsm Hdb1)|].
      destruct (m_scopes _ _ R0 m b1 Hsm) as [_ Hlt].
      intros p [->|Hp]%elem_of_cons; [exact Hlt|]. specialize (HP p Hp). lia. }
    rewrite Hk2.
    apply nc_rbind.
    - destruct (nkind (nd t0 n)) as [e0| |f0|f0|f0|c0| |b1|b1] eqn:Ek; try apply nc_Ok.
      apply (inval_nc_loop fuel IH _ (n :: P) s2 J2 (Main b1 eq_refl)).
    - intros s3 E3.
      assert (J3 : JI (n :: P) s3).
      { destruct (nkind (nd t0 n)) as [e0| |f0|f0|f0|c0| |b1|b1] eqn:Ek; try (injection E3 as <-; exact J2).
        apply (inval_loop fuel (inval_all fuel) _ (n :: P) s2 s3 J2 (Main b1 eq_refl) E3). }
      pose proof (j_same _ _ J3) as S3.
      match goal with |- nocrash (if inHeap ?s5 n then _ else _) => destruct (inHeap s5 n) eqn:E; [|apply nc_Ok] end.
      apply nc_heapRemove; [|exact E].
      match goal with |- hinv (heap ?s5) => change (heap s5) with (heap s3) end.
      rewrite (is_heap _ _ S3). apply (t_heap _ _ _ T0).
  Qed.

  Lemma inval_nc_all fuel : inval_nc fuel.
  Proof.
    induction fuel as [|fuel IH]; [|apply inval_nc_step, IH].
    intros P t n _ _ _. apply nc_fuel.
  Qed.
End inval.

(** ** the pass invariant after the discarded generation has been invalidated *)
Section inval_done.
  Context (D : nid -> Prop) (b : nat) (t0 : state).
  Hypothesis T0 : TInv [] noE t0.
  Hypothesis R0 : RestM D t0.
  Hypothesis Hf0 : forall n, forceNec (nd t0 n) = false.
  Hypothesis HD : forall n, D n -> scope (nd t0 n) = Some b /\ ~ inGen t0 b n.
  Hypothesis HDdec : forall n, D n \/ ~ D n.
  Hypothesis HDpair2 : forall b1, D b1 -> nkind (nd t0 b1) = KBindLhs b1 -> D (S b1).
  Hypothesis HDvalid : forall n, D n -> valid (nd t0 n) = true.

  Notation dm := (doomed D t0).

  Lemma JI_start : JI D t0 [] t0.
  Proof.
    split.
    - apply iv_same_refl.
    - intros m. left. reflexivity.
    - intros m. destruct (st_le _ (m_stamps _ _ R0) m) as (A & B & _). auto.
    - apply (t_log _ _ _ T0).
    - reflexivity.
    - intros m. rewrite <- (m_inval _ _ R0 m). split; [auto|]. intros [H|H]; [exact H|inversion H].
    - intros p Hp. inversion Hp.
    - intros b1 m Hg Hvm.
      assert (Hb1 : is_Some (binds t0 !! b1)).
      { unfold inGen, bd in Hg. destruct (binds t0 !! b1); [eauto|inversion Hg]. }
      destruct Hb1 as [r1 Hr1]. pose proof (m_binds _ _ R0 b1 r1 Hr1) as W.
      destruct (scope (nd t0 b1)) as [b2|] eqn:Es.
      2:{ apply (m_vtop _ _ R0). rewrite (bw_scope _ _ _ W). exact Es. }
      rewrite (m_vgen _ _ R0 m b1 Hg) in Hvm.
      destruct (HDdec b1) as [Hd|Hd].
      { apply HDvalid, HDpair2; [exact Hd|apply (bw_kind_lhs _ _ _ W)]. }
      destruct (decide (b1 ∈ b_rhsNodes (bd t0 b2))) as [Hin|Hin].
      + pose proof (sc_pair t0 (m_scoping _ _ R0) b2 b1 Hin (bw_kind_lhs _ _ _ W)) as Hin'.
        rewrite (m_vgen _ _ R0 _ b2 Hin'), <- (m_vgen _ _ R0 _ b2 Hin). exact Hvm.
      + destruct (m_vdead _ _ R0 b1 b2 (bw_has_lhs _ _ _ W) Es Hin Hd) as [E _]. congruence.
  Qed.

  Section done.
    Context (t9 : state).
    Hypothesis J : JI D t0 [] t9.
    Hypothesis HDinv : forall m, D m -> valid (nd t9 m) = false.

    Lemma doomed_invalid : forall n, dm n -> valid (nd t9 n) = false.
    Proof.
      intros n. induction (lt_wf n) as [n _ IH]. intros Hdn.
      destruct (doomed_scope D b t0 HD n Hdn) as (b1 & Hsn & [[-> Hd]|Hd1]); [apply HDinv, Hd|].
      destruct (HDdec n) as [Hd|Hd]; [apply HDinv, Hd|].
      destruct (valid (nd t9 n)) eqn:Hv; [exfalso|reflexivity].
      pose proof (j_same _ _ _ _ J) as Sm.
      assert (Hv0 : valid (nd t0 n) = true).
      { destruct (j_valid _ _ _ _ J n) as [E|[E _]]; congruence. }
      assert (Hhn : has t0 n) by (apply (has_of_field scope); rewrite Hsn; discriminate).
      destruct (decide (n ∈ b_rhsNodes (bd t0 b1))) as [Hin|Hin].
      2:{ destruct (m_vdead _ _ R0 n b1 Hhn Hsn Hin Hd) as [E _]. congruence. }
      assert (Hin9 : inGen t9 b1 n) by (unfold inGen, bd; rewrite (is_binds _ _ Sm); exact Hin).
      pose proof (j_G _ _ _ _ J b1 n Hin9 Hv) as HvS.
      assert (Hb1 : is_Some (binds t0 !! b1)).
      { unfold bd in Hin. destruct (binds t0 !! b1); [eauto|inversion Hin]. }
      destruct Hb1 as [r1 Hr1]. pose proof (m_binds _ _ R0 b1 r1 Hr1) as W.
      assert (HdS : dm (S b1)).
      { destruct (doomed_scope D b t0 HD b1 Hd1) as (b2 & Hs2 & [[-> Hdb]|Hd2]).
        - apply dm_old, HDpair2; [exact Hdb|apply (bw_kind_lhs _ _ _ W)].
        - apply (dm_in D t0 (S b1) b2); [rewrite (bw_scope _ _ _ W); exact Hs2|exact Hd2]. }
      destruct (m_scopes _ _ R0 n b1 Hsn) as [_ Hlt].
      rewrite (IH (S b1) Hlt HdS) in HvS. discriminate.
    Qed.

    Lemma inval_PInv : PInv t9.
    Proof.
      pose proof (j_same _ _ _ _ J) as Sm.
      assert (Hnode : forall m, _) by (exact (is_node _ _ Sm)).
      assert (Hk : forall m, nkind (nd t9 m) = nkind (nd t0 m)) by (intros m; apply (Hnode m)).
      assert (Hd : forall m, decl (nd t9 m) = decl (nd t0 m)) by (intros m; apply (Hnode m)).
      assert (Hsc : forall m, scope (nd t9 m) = scope (nd t0 m)) by (intros m; apply (Hnode m)).
      assert (Hh : forall m, height (nd t9 m) = height (nd t0 m)) by (intros m; apply (Hnode m)).
      assert (Hpa : forall m, parents (nd t9 m) = parents (nd t0 m)) by (intros m; apply (Hnode m)).
      assert (Hch : forall m, children (nd t9 m) = children (nd t0 m)) by (intros m; apply (Hnode m)).
      assert (Hob : forall m, observers (nd t9 m) = observers (nd t0 m)) by (intros m; apply (Hnode m)).
      assert (Hfo : forall m, forceNec (nd t9 m) = forceNec (nd t0 m)) by (intros m; apply (Hnode m)).
      assert (Hg : forall m, inGraph (nd t9 m) = inGraph (nd t0 m)) by (intros m; apply (Hnode m)).
      assert (Hbd : forall b', bd t9 b' = bd t0 b') by (intros b'; unfold bd; rewrite (is_binds _ _ Sm); reflexivity).
      assert (Hnil : forall m : nid, m ∉ []) by (intros m Hm; inversion Hm).
      assert (Hdmv : forall m, dm m -> valid (nd t9 m) = false) by exact doomed_invalid.
      assert (Hnd : forall m, ~ dm m -> valid (nd t9 m) = valid (nd t0 m)).
      { intros m Hm. destruct (j_valid _ _ _ _ J m) as [E|[_ E]]; [exact E|contradiction]. }
      assert (Hmono : forall m, valid (nd t0 m) = false -> valid (nd t9 m) = false).
      { intros m Hm. destruct (j_valid _ _ _ _ J m) as [E|[E _]]; congruence. }
      apply PInv_join.
      - destruct T0 as [t_edges0 t_zero0 t_nec0 t_necE0 t_W0 t_par0 t_height0 t_heap0 t_count0 t_obs0 t_valid0 t_log0 t_life0 t_lifeW0 t_nodup0].
        constructor.
        + apply (edges_ok_ext t0 t9); auto.
        + apply (zero_ok_ext t0 t9); auto.
        + intros n _ _. rewrite Hg, (isNecessary_ext (nd t9 n) (nd t0 n)) by auto. apply t_nec0; [apply Hnil|intros []].
        + intros n [].
        + intros w Hw. inversion Hw.
        + intros n _. rewrite Hg, Hpa, Hd. apply t_par0, Hnil.
        + apply (height_ok_ext t0 t9); auto. apply Sm.
        + apply (heap_ok_ext t0 t9); auto. apply Sm.
        + apply (count_ok_ext t0 t9); auto; apply Sm.
        + apply (obs_ok_ext t0 t9); auto; apply Sm.
        + intros n. rewrite Hg. intros Hn. rewrite Hnd; [apply t_valid0, Hn|].
          intros Hdn. rewrite (doomed_unreg D b t0 ltac:(constructor; assumption) R0 Hf0 HD HDdec n Hdn) in Hn. discriminate.
        + apply (j_log _ _ _ _ J).
        + intros n _. rewrite Hg, (j_lastNU _ _ _ _ J). apply t_life0, Hnil.
        + intros w Hw. inversion Hw.
        + constructor.
      - destruct R0 as [A1 A2 A3 A4 A5 V1 V2 V3 A6 A7 A8 Q1 Q2 Q3 Q5]. constructor.
        + apply (ids_ok_ext t0 t9); auto; apply Sm.
        + apply (binds_wf_ext t0 t9); auto; apply Sm.
        + apply (kinds_ok_ext t0 t9); auto; apply Sm.
        + apply (scopes_ok_ext t0 t9); auto; apply Sm.
        + apply (scoping_ok_ext t0 t9); auto; apply Sm.
        + intros n. rewrite Hsc. intros Hs. rewrite Hnd; [apply V1, Hs|].
          intros Hdn. destruct (doomed_scope D b t0 HD n Hdn) as (b1 & Hs1 & _). congruence.
        + intros n b'. rewrite (is_has _ _ Sm), Hsc, Hg. unfold inGen. rewrite Hbd. intros H1 H2 H3 _.
          destruct (HDdec n) as [Hdn|Hdn].
          * split; [apply Hdmv, dm_old, Hdn|].
            apply (doomed_unreg D b t0 T0 ltac:(constructor; assumption) Hf0 HD HDdec n (dm_old D t0 n Hdn)).
          * destruct (V2 n b' H1 H2 H3 Hdn) as [E1 E2]. split; [apply Hmono, E1|exact E2].
        + intros n b1. unfold inGen. rewrite Hbd. intros Hin.
          assert (Hb1 : is_Some (binds t0 !! b1)).
          { unfold bd in Hin. destruct (binds t0 !! b1); [eauto|inversion Hin]. }
          destruct Hb1 as [r1 Hr1].
          assert (Hsn : scope (nd t0 n) = Some b1).
          { apply (bw_rhsNodes _ _ _ (A2 b1 r1 Hr1) n). unfold bd in Hin. rewrite Hr1 in Hin. exact Hin. }
          destruct (j_valid _ _ _ _ J b1) as [E1|[E1 Hd1]].
          * destruct (j_valid _ _ _ _ J n) as [E2|[E2 Hd2]]; [rewrite E1, E2; apply V3, Hin|].
            destruct (doomed_scope D b t0 HD n Hd2) as (b1' & Hs1 & [[-> Hdn]|Hd1]).
            -- exfalso. apply (proj2 (HD n Hdn)). assert (b1 = b) as <- by congruence. exact Hin.
            -- assert (b1' = b1) as -> by congruence. rewrite E2. symmetry. apply Hdmv, Hd1.
          * rewrite E1. apply Hdmv. apply (dm_in D t0 n b1 Hsn Hd1).
        + apply (shape_ok_ext t0 t9); auto; apply Sm.
        + destruct A7 as [S1 S2]. split; rewrite (is_stabNum _ _ Sm); [exact S1|].
          intros n. destruct (j_stamps _ _ _ _ J n) as [B1 B2]. split; [exact B1|]. split; [exact B2|].
          destruct (Hnode n) as (_&_&_&_&_&->&_). apply (S2 n).
        + intros n. rewrite (j_inval _ _ _ _ J n). split; [auto|]. intros [H|H]; [exact H|inversion H].
        + rewrite (is_status _ _ Sm). exact Q1.
        + rewrite (is_invq _ _ Sm). exact Q2.
        + destruct Q3 as (B1 & B2 & B3). unfold adj_idle. rewrite (is_adj _ _ Sm). split; [exact B1|]. split; [exact B2|].
          intros m. destruct (Hnode m) as (_&_&_&_&->&_). apply B3.
        + intros v. rewrite (is_setDuring _ _ Sm), (is_setRemoved _ _ Sm), Hk. apply Q5.
      - intros n. rewrite Hfo. apply Hf0.
    Qed.
  End done.
End inval_done.

Lemma alter_alter_at {A} (f g : A -> A) (m : gmap nat A) b x :
  m !! b = Some x -> f (g x) = x -> alter f b (alter g b m) = m.
Proof.
  intros Hx H. apply map_eq. intros k. destruct (decide (k = b)) as [->|Hne].
  - rewrite !lookup_alter, Hx. simpl. rewrite H. reflexivity.
  - rewrite !lookup_alter_ne by congruence. reflexivity.
Qed.

Lemma RestM_impl (D D' : nid -> Prop) s : (forall n, D n -> D' n) -> RestM D s -> RestM D' s.
Proof.
  intros H [A1 A2 A3 A4 A5 V1 V2 V3 A6 A7 A8 Q1 Q2 Q3 Q5]. constructor; auto.
  intros n b H1 H2 H3 H4. apply (V2 n b); auto.
Qed.

Lemma plan_ok_kinds t t' p :
  (forall m, has t' m <-> has t m) -> (forall m, nkind (nd t' m) = nkind (nd t m)) ->
  plan_ok t p = true -> plan_ok t' p = true.
Proof.
  intros Hh Hk. unfold plan_ok. rewrite !forallb_forall. intros H y Hy. specialize (H y Hy).
  destruct y as [[n w] a].
  assert (Hiv : forall v, isVar t v = true -> isVar t' v = true).
  { intros v Hv. apply isVar_true in Hv as [Hhv [e He]]. apply (isVar_intro t' v e); [apply Hh, Hhv|]. rewrite Hk. exact He. }
  destruct a; auto.
Qed.

Lemma propagateInvalidity_nil_inv fuel s s' : invq s = [] -> propagateInvalidity fuel s = Ok s' -> s' = s.
Proof.
  intros Hq H. destruct fuel as [|fuel]; simpl in H; [discriminate|]. rewrite Hq in H. injection H as <-. reflexivity.
Qed.

(* kinds are static and nodes are never deleted *)
Definition kstable (s s' : state) : Prop :=
  forall m, has s m -> has s' m /\ nkind (nd s' m) = nkind (nd s m).

Lemma kstable_refl s : kstable s s.
Proof. intros m Hm. auto. Qed.

Lemma kstable_trans s1 s2 s3 : kstable s1 s2 -> kstable s2 s3 -> kstable s1 s3.
Proof.
  intros A B m Hm. destruct (A m Hm) as [H2 E2]. destruct (B m H2) as [H3 E3]. split; [exact H3|congruence].
Qed.

Lemma kstable_struct s s' : same_struct s s' -> kstable s s'.
Proof. intros SS m Hm. split; [apply (ss_has _ _ SS), Hm|apply (ss_node _ _ SS m)]. Qed.

(* an error of a user-function invocation is an injected fault of the plan *)
Lemma applyActions_fault acts : forall s s' f0 f,
  rfold (fun '(s, f) a =>
           match f with
           | Some _ => Ok (s, f)
           | None =>
             match a with
             | AFail k => Ok (s, Some k)
             | ASet v x => s <-! varSet s v x; Ok (s, None)
             | AUpdate v d => s <-! varUpdate s v d; Ok (s, None)
             end
           end) acts (s, f0) = Ok (s', f) -> f = f0 \/ exists k, f = Some k /\ AFail k ∈ acts.
Proof.
  induction acts as [|a acts IH]; intros s s' f0 f H; simpl in H.
  - injection H as _ <-. left. reflexivity.
  - apply rbind_ok in H as ([s1 f1] & H1 & H).
    destruct (IH s1 s' f1 f H) as [->|(k & -> & Hk)]; [|right; exists k; split; [reflexivity|right; exact Hk]].
    destruct f0; [injection H1 as _ <-; left; reflexivity|]. destruct a as [k|v x|v d].
    + injection H1 as _ <-. right. exists k. split; [reflexivity|left].
    + apply rbind_ok in H1 as (s2 & _ & [= _ <-]). left. reflexivity.
    + apply rbind_ok in H1 as (s2 & _ & [= _ <-]). left. reflexivity.
Qed.

Lemma invoke_fault p s n w s' x :
  invoke p s n w = Ok (s', Some x) ->
  (x = EUser n \/ x = EPanic n) /\ exists k, AFail k ∈ actions_of p n w.
Proof.
  intros H. unfold invoke in H. apply rbind_ok in H as ([s1 f] & H1 & H).
  unfold applyActions in H1. destruct (applyActions_fault _ _ _ _ _ H1) as [->|(k & -> & Hk)]; [discriminate|].
  split; [|eauto]. destruct k; injection H as _ <-; auto.
Qed.

Lemma invoke_norun p s n w s' e : invoke p s n w = Ok (s', e) -> norun_ext s s'.
Proof.
  intros H. unfold invoke in H. apply rbind_ok in H as ([s1 f] & H1 & H).
  unfold applyActions in H1. pose proof (applyActions_log _ _ _ _ _ H1) as E1.
  destruct f as [[|]|]; injection H as <- _.
  - exists [EvFault n w FErr]. split; [simpl; rewrite E1; reflexivity|repeat constructor].
  - exists [EvFault n w FPanic]. split; [simpl; rewrite E1; reflexivity|repeat constructor].
  - apply norun_ext_refl, E1.
Qed.

Lemma rfold_norun {A} (f : state -> A -> res state) l : forall s s',
  (forall st a st', f st a = Ok st' -> norun_ext st st') -> rfold f l s = Ok s' -> norun_ext s s'.
Proof.
  induction l as [|a l IH]; intros s s' Hf H; simpl in H; [injection H as <-; apply norun_ext_refl; reflexivity|].
  apply rbind_ok in H as (s1 & H1 & H). eapply norun_ext_trans; [apply (Hf _ _ _ H1)|apply (IH _ _ Hf H)].
Qed.

Lemma invalidateNode_norun fuel : forall s n s', invalidateNode fuel s n = Ok s' -> norun_ext s s'.
Proof.
  induction fuel as [|fuel IH]; intros s n s' H; [discriminate|]. rewrite invalidateNode_S in H.
  destruct (negb (valid (nd s n))); [injection H as <-; apply norun_ext_refl; reflexivity|].
  cbv zeta in H. set (s1 := upd (emit (EvInval n) s) n _) in H.
  assert (N1 : norun_ext s s1) by (exists [EvInval n]; split; [reflexivity|repeat constructor]).
  apply rbind_ok in H as (s2 & H2 & H).
  assert (N2 : norun_ext s1 s2).
  { destruct (isNecessary (nd s1 n)); [|injection H2 as <-; apply norun_ext_refl; reflexivity].
    apply rbind_ok in H2 as (s3 & H3 & [= <-]).
    eapply norun_ext_trans; [|apply norun_ext_refl; reflexivity].
    apply (norun_ext_of is_unnec); [intros e [m ->]; reflexivity|].
    apply (tf_log _ _ (proj1 (teardown_frame fuel) s1 n s3 H3)). }
  apply rbind_ok in H as (s4 & H4 & H).
  assert (N4 : norun_ext s2 s4).
  { destruct (nkind (nd s2 n)); try (injection H4 as <-; apply norun_ext_refl; reflexivity).
    apply (rfold_norun _ _ _ _ (fun st a st' Ha => IH st a st' Ha) H4). }
  eapply norun_ext_trans; [exact N1|]. eapply norun_ext_trans; [exact N2|]. eapply norun_ext_trans; [exact N4|].
  match type of H with (if ?c then _ else _) = _ => destruct c end.
  - apply heapRemove_inv in H as (w & _ & ->). apply norun_ext_refl. reflexivity.
  - injection H as <-. apply norun_ext_refl. reflexivity.
Qed.

Lemma invalidate_loop_norun fuel l s s' : rfold (invalidateNode fuel) l s = Ok s' -> norun_ext s s'.
Proof. apply rfold_norun. intros st a st'. apply invalidateNode_norun. Qed.

Theorem bind_full_nomemo fuel p s b s' e :
  PInv s -> plan_ok s p = true -> nkind (nd s b) = KBindLhs b -> inGraph (nd s b) = true ->
  b_memo (bd s b) = false ->
  bindLhsStabilize fuel p s b = Ok (s', e) ->
  rejected_err e \/
  (PInv s' /\ plan_ok s' p = true /\ stabNum s' = stabNum s /\ kstable s s' /\
   (e = None \/ ((e = Some (EUser b) \/ e = Some (EPanic b)) /\ exists k, AFail k ∈ actions_of p b WFn)) /\
   (* the log of a successful run: the bind function's event, and the old generation invalidated *)
   (e = None -> exists x root l1 l2,
      log s' = l2 ++ EvBindFn b x root :: l1 ++ log s /\
      Forall (fun ev => ev_runs ev = None) l1 /\ Forall (fun ev => ev_runs ev = None) l2 /\
      (b_rhs (bd s b) <> None -> forall n, n ∈ b_rhsNodes (bd s b) -> EvInval n ∈ l2))).
Proof.
  intros P Hp Hk Hg Hnm H.
  pose proof (p_kinds s P b (has_inGraph s b Hg)) as K. rewrite Hk in K. destruct K as [_ [r0 Hr0]].
  pose proof (p_binds s P b r0 Hr0) as W0.
  assert (Hbd : bd s b = r0) by (unfold bd; rewrite Hr0; reflexivity).
  pose proof Hnm as Hnm0. rewrite Hbd in Hnm0.
  unfold bindLhsStabilize in H. rewrite Hbd in H. rewrite Hnm0, (bw_main _ _ _ W0) in H.
  cbv zeta in H. cbv iota in H.
  set (f1 := set b_rhsNodes (fun _ : list nid => [])) in *.
  set (s1 := updb s b f1) in *.
  apply rbind_ok in H as ([[sx ex] built] & H1 & H).
  apply rbind_ok in H1 as ([s2 e1] & Hinv & H1).
  assert (Hst1 : status s1 = 1) by apply (pq_status s (p_pq s P)).
  pose proof (invoke_soft p s1 b WFn s2 e1 Hst1 Hp Hinv) as S12.
  destruct e1 as [x1|].
  - (* the bind function failed: the scope's node list is restored *)
    injection H1 as <- <- <-. apply fail_inv in H as [-> ->].
    right.
    assert (E : updb s2 b (set b_rhsNodes (fun _ => b_rhsNodes r0)) = s2 <| binds := binds s |>).
    { assert (Ealt : alter (set b_rhsNodes (fun _ => b_rhsNodes r0)) b (binds s2) = binds s).
      { rewrite (ss_binds _ _ (so_struct _ _ S12)). change (binds s1) with (alter f1 b (binds s)).
        apply (alter_alter_at _ _ (binds s) b r0 Hr0). destruct r0; reflexivity. }
      unfold updb. rewrite Ealt. reflexivity. }
    rewrite E.
    pose proof (soft_binds_irrel s s2 _ (binds s1) S12 eq_refl) as S02.
    split; [apply (PInv_of_soft s _ P S02)|]. split; [apply (plan_ok_struct s _ p (so_struct _ _ S02) Hp)|].
    split; [apply (so_stabNum _ _ S02)|]. split; [apply kstable_struct, (so_struct _ _ S02)|].
    split; [|intros [=]].
    right. destruct (invoke_fault p s1 b WFn s2 x1 Hinv) as [[-> | ->] Hf]; (split; [auto|exact Hf]).
  - (* the bind function returned: instantiate the chosen template *)
    set (x := valueOf s1 (b_lhs r0)) in *.
    set (case := nth (Z.to_nat (x mod Z.of_nat (length (b_cases r0)))) (b_cases r0) TNil) in *.
    destruct (inst s2 (Some b) x case) as [s3 root] eqn:Hinst.
    injection H1 as <- <- <-.
    assert (Hinst' : inst s2 (Some b) x (nth (Z.to_nat (x mod Z.of_nat (length (b_cases (bd s b))))) (b_cases (bd s b)) TNil) = (s3, root))
      by (rewrite Hbd; exact Hinst).
    pose proof (run_fn_post p s b P Hp Hk Hg Hnm s2 Hinv x s3 root Hinst') as FP.
    destruct FP as [T6 R7 Hvc7 Hforce Hrhs Hdecl6 Hroot Hnew Hold Holdnd Hhas6 Hsreg6 Hmain [Hgb6 Hkb6] Holdne Hpair1 Hpair2 Hplan7 Hstab7].
    rewrite Hbd in *.
    set (s6 := updb (updb (emit (EvBindFn b x root) s3) b
                 (fun r => r <| b_gen := S (b_gen r) |> <| b_cache := if b_memo r then b_cache r ++ [(x, root)] else b_cache r |>))
                 b (set b_rhs (fun _ => root))) in *.
    set (oldNodes := b_rhsNodes r0) in *. set (oldRhs := b_rhs r0) in *.
    set (D := fun n : nid => n ∈ oldNodes).
    assert (HDdec : forall n, D n \/ ~ D n) by (intros n; unfold D; destruct (decide (n ∈ oldNodes)); auto).
    assert (Hs7 : upd s6 (S b) (set decl (fun _ => match root with Some r => [b; r] | None => [b] end)) =
                  upd s6 (S b) (set decl (fun _ => b :: option_list root))) by (destruct root; reflexivity).
    rewrite Hs7 in *.
    set (s7 := upd s6 (S b) (set decl (fun _ => b :: option_list root))) in *.
    assert (Hfield7 : forall {A} (g : node -> A), (forall y f, g (set decl f y) = g y) -> forall m, g (nd s7 m) = g (nd s6 m)).
    { intros A g Hg' m. unfold s7. apply nd_upd_proj. intros y. apply Hg'. }
    assert (Hvb6 : valid (nd s6 b) = true) by (apply (t_valid _ _ _ T6), Hgb6).
    assert (Hroot' : match root with
                     | Some r => has s6 r /\ r <> b /\ valid (nd s6 r) = true /\
                                 (forall b', scope (nd s6 r) = Some b' -> b' = b)
                     | None => True end).
    { destruct root as [r|]; [|exact Logic.I]. destruct Hroot as (H1 & H2 & H3).
      split; [exact H1|]. split; [intros ->; unfold not_lhs in H2; rewrite Hkb6 in H2; exact H2|].
      split.
      - rewrite <- (Hfield7 _ valid) by reflexivity. destruct H3 as [E|[E G]].
        + apply (m_vtop _ _ R7). rewrite (Hfield7 _ scope) by reflexivity. exact E.
        + rewrite (m_vgen _ _ R7 r b G). rewrite (Hfield7 _ valid) by reflexivity. exact Hvb6.
      - intros b' Hs. destruct H3 as [E|[E _]]; congruence. }
    apply ebind_inv in H as (t8 & e2 & Hcp & Hrest).
    pose proof (changeParent_spec D s6 b oldRhs root T6 Hsreg6 R7 Hvc7 Hforce Hdecl6 Hgb6 Hmain Hroot'
                  ltac:(destruct oldRhs; [exact Holdne|exact Logic.I])
                  ltac:(intros n Hn; apply (Hold n Hn)) HDdec fuel oldRhs root t8 e2 eq_refl eq_refl Hcp) as CP.
    destruct e2 as [x2|].
    { destruct Hrest as [[? _]|(_ & _ & ->)]; [discriminate|]. left. destruct CP as [-> | ->]; [left|right]; reflexivity. }
    destruct Hrest as [[_ H]|(Hne & _)]; [|congruence].
    destruct CP as (T8 & R8 & Hf8 & F8).
    apply ebind_inv in H as (t9 & e3 & Hiv & Hrest).
    apply lift_inv in Hiv as [Hiv ->]. destruct Hrest as [[_ H]|(Hne & _)]; [|congruence].
    apply lift_inv in H as [H ->]. right.
    assert (Hsc8 : forall m, scope (nd t8 m) = scope (nd s6 m)).
    { intros m. destruct (cpf_node _ _ F8 m) as (_&_&->&_). apply Hfield7. reflexivity. }
    assert (Hv8 : forall m, valid (nd t8 m) = valid (nd s6 m)).
    { intros m. destruct (cpf_node _ _ F8 m) as (_&_&_&->). apply Hfield7. reflexivity. }
    assert (Hk8 : forall m, nkind (nd t8 m) = nkind (nd s6 m)).
    { intros m. destruct (cpf_node _ _ F8 m) as (->&_). apply Hfield7. reflexivity. }
    assert (P9 : PInv t9 /\ (forall m, has t9 m <-> has t8 m) /\ (forall m, nkind (nd t9 m) = nkind (nd t8 m)) /\ stabNum t9 = stabNum t8 /\
                 norun_ext t8 t9 /\ (oldRhs <> None -> forall n, D n -> EvInval n ∈ log t9 /\ EvInval n ∉ log t8)).
    { destruct oldRhs as [o|] eqn:Eo.
      - (* the old generation is invalidated *)
        assert (HD : forall n, D n -> scope (nd t8 n) = Some b /\ ~ inGen t8 b n).
        { intros n Hn. destruct (Hold n Hn) as (Hhn & Hsn & _). split; [rewrite Hsc8; exact Hsn|].
          unfold inGen, bd. rewrite (cpf_binds _ _ F8). intros Hg8. apply (Hnew n Hg8 Hhn). }
        assert (HDp1 : forall b1, D (S b1) -> nkind (nd t8 (S b1)) = KBindMain b1 -> D b1).
        { intros b1 Hd1. rewrite Hk8. apply Hpair1, Hd1. }
        assert (HDp2 : forall b1, D b1 -> nkind (nd t8 b1) = KBindLhs b1 -> D (S b1)).
        { intros b1 Hd1. rewrite Hk8. apply Hpair2, Hd1. }
        assert (HDv : forall n, D n -> valid (nd t8 n) = true).
        { intros n Hn. rewrite Hv8. apply (Hold n Hn). }
        pose proof (JI_start D t8 T8 R8 HDdec HDp2 HDv) as J8.
        pose proof (inval_all D b t8 T8 R8 Hf8 HD HDdec HDp1 fuel) as IS.
        destruct (inval_loop D t8 fuel IS oldNodes [] t8 t9 J8) as (J9 & Hall & _); [|exact Hiv|].
        { intros m Hm. split; [apply dm_old; exact Hm|intros q Hq; inversion Hq]. }
        split; [apply (inval_PInv D b t8 T8 R8 Hf8 HD HDdec HDp2 t9 J9 Hall)|].
        pose proof (j_same _ _ _ _ J9) as Sm. split; [apply Sm|]. split; [intros m; apply (is_node _ _ Sm m)|]. split; [apply Sm|].
        split; [apply (invalidate_loop_norun fuel oldNodes t8 t9 Hiv)|].
        intros _ n Hn. split.
        + apply (j_inval _ _ _ _ J9 n). left. apply Hall, Hn.
        + intros Hx. apply (m_inval _ _ R8 n) in Hx. rewrite (HDv n Hn) in Hx. discriminate.
      - injection Hiv as <-. split; [|split; [reflexivity|split; [reflexivity|split; [reflexivity|split; [apply norun_ext_refl; reflexivity|intros Hx; congruence]]]]].
        apply PInv_join; [exact T8| |exact Hf8].
        apply (RestM_impl D noD t8); [|exact R8]. intros n Hn. unfold D in Hn. rewrite Holdne in Hn. inversion Hn. }
    destruct P9 as (P9 & Hh9 & Hk9 & Hs9 & Hl9 & Hiv9).
    apply propagateInvalidity_nil_inv in H; [|apply (pq_invq t9 (p_pq t9 P9))]. subst s'.
    split; [exact P9|]. split.
    + apply (plan_ok_kinds s7 t9 p); [| |exact Hplan7].
      * intros m. rewrite Hh9. apply (cpf_has _ _ F8).
      * intros m. rewrite Hk9. apply (cpf_node _ _ F8 m).
    + split; [rewrite Hs9, (cpf_stabNum _ _ F8); exact Hstab7|]. split; [|split; [left; reflexivity|]].
      * intros m Hm. split.
        -- apply Hh9, (cpf_has _ _ F8). unfold s7. apply has_upd. apply Hhas6, Hm.
        -- rewrite Hk9, Hk8. apply (Holdnd m Hm).
      * intros _. destruct Hl9 as (l' & El' & Fl'). destruct (cpf_log _ _ F8) as (l & El & Fl).
        change (log (upd s6 (S b) (set decl (fun _ => b :: option_list root)))) with (log s6) in El.
        assert (Hi'' : inst s2 (Some b) x (nth (Z.to_nat (x mod Z.of_nat (length (b_cases (bd s b))))) (b_cases (bd s b)) TNil) = (s3, root))
          by (rewrite Hbd; exact Hinst).
        assert (Hlg6 : log s6 = EvBindFn b x root :: log s) by exact (run_fn_log p s b P Hp Hk Hg s2 Hinv x s3 root Hi'').
        rewrite Hlg6 in El.
        exists x, root, [], (l' ++ l). split; [rewrite El', El, <- app_assoc; reflexivity|].
        split; [constructor|]. split; [apply Forall_app; auto|].
        intros Hne n Hn. destruct (Hiv9 Hne n Hn) as [Hin Hnin].
        rewrite El' in Hin. apply elem_of_app in Hin as [Hin|Hin]; [apply elem_of_app; left; exact Hin|contradiction].
Qed.

Theorem nc_bind_nomemo fuel p s b :
  PInv s -> plan_ok s p = true -> nkind (nd s b) = KBindLhs b -> inGraph (nd s b) = true ->
  b_memo (bd s b) = false ->
  nocrash (bindLhsStabilize fuel p s b).
Proof.
  intros P Hp Hk Hg Hnm.
  pose proof (p_kinds s P b (has_inGraph s b Hg)) as K. rewrite Hk in K. destruct K as [_ [r0 Hr0]].
  pose proof (p_binds s P b r0 Hr0) as W0.
  assert (Hbd : bd s b = r0) by (unfold bd; rewrite Hr0; reflexivity).
  pose proof Hnm as Hnm0. rewrite Hbd in Hnm0.
  unfold bindLhsStabilize. rewrite Hbd. rewrite Hnm0, (bw_main _ _ _ W0).
  cbv zeta. cbv iota.
  set (f1 := set b_rhsNodes (fun _ : list nid => [])) in *.
  set (s1 := updb s b f1) in *.
  destruct (PInv_hreg s P) as [Hr Hkp].
  apply nc_rbind.
  { apply nc_rbind; [apply (nc_invoke p s1 b WFn); [exact Hr|exact Hkp]|].
    intros [s2 e1] _. destruct e1; [apply nc_Ok|]. destruct (inst _ _ _ _); apply nc_Ok. }
  intros [[sx ex] built] H1.
  apply rbind_ok in H1 as ([s2 e1] & Hinv & H1).
  destruct e1 as [x1|].
  { injection H1 as <- <- <-. apply nc_Ok. }
  set (x := valueOf s1 (b_lhs r0)) in *.
  set (case := nth (Z.to_nat (x mod Z.of_nat (length (b_cases r0)))) (b_cases r0) TNil) in *.
  destruct (inst s2 (Some b) x case) as [s3 root] eqn:Hinst.
  injection H1 as <- <- <-.
  assert (Hinst' : inst s2 (Some b) x (nth (Z.to_nat (x mod Z.of_nat (length (b_cases (bd s b))))) (b_cases (bd s b)) TNil) = (s3, root))
    by (rewrite Hbd; exact Hinst).
  pose proof (run_fn_post p s b P Hp Hk Hg Hnm s2 Hinv x s3 root Hinst') as FP.
  destruct FP as [T6 R7 Hvc7 Hforce Hrhs Hdecl6 Hroot Hnew Hold Holdnd Hhas6 Hsreg6 Hmain [Hgb6 Hkb6] Holdne Hpair1 Hpair2 Hplan7 Hstab7].
  rewrite Hbd in *.
  set (s6 := updb (updb (emit (EvBindFn b x root) s3) b
               (fun r => r <| b_gen := S (b_gen r) |> <| b_cache := if b_memo r then b_cache r ++ [(x, root)] else b_cache r |>))
               b (set b_rhs (fun _ => root))) in *.
  set (oldNodes := b_rhsNodes r0) in *. set (oldRhs := b_rhs r0) in *.
  set (D := fun n : nid => n ∈ oldNodes).
  assert (HDdec : forall n, D n \/ ~ D n) by (intros n; unfold D; destruct (decide (n ∈ oldNodes)); auto).
  assert (Hs7 : upd s6 (S b) (set decl (fun _ => match root with Some r => [b; r] | None => [b] end)) =
                upd s6 (S b) (set decl (fun _ => b :: option_list root))) by (destruct root; reflexivity).
  rewrite Hs7 in *.
  set (s7 := upd s6 (S b) (set decl (fun _ => b :: option_list root))) in *.
  assert (Hfield7 : forall {A} (g : node -> A), (forall y f, g (set decl f y) = g y) -> forall m, g (nd s7 m) = g (nd s6 m)).
  { intros A g Hg' m. unfold s7. apply nd_upd_proj. intros y. apply Hg'. }
  assert (Hvb6 : valid (nd s6 b) = true) by (apply (t_valid _ _ _ T6), Hgb6).
  assert (Hroot' : match root with
                   | Some r => has s6 r /\ r <> b /\ valid (nd s6 r) = true /\
                               (forall b', scope (nd s6 r) = Some b' -> b' = b)
                   | None => True end).
  { destruct root as [r|]; [|exact Logic.I]. destruct Hroot as (H1 & H2 & H3).
    split; [exact H1|]. split; [intros ->; unfold not_lhs in H2; rewrite Hkb6 in H2; exact H2|].
    split.
    - rewrite <- (Hfield7 _ valid) by reflexivity. destruct H3 as [E|[E G]].
      + apply (m_vtop _ _ R7). rewrite (Hfield7 _ scope) by reflexivity. exact E.
      + rewrite (m_vgen _ _ R7 r b G). rewrite (Hfield7 _ valid) by reflexivity. exact Hvb6.
    - intros b' Hs. destruct H3 as [E|[E _]]; congruence. }
  assert (Hold' : match oldRhs with Some o => o <> b | None => True end)
    by (destruct oldRhs; [exact Holdne|exact Logic.I]).
  assert (HoldD : forall n, D n -> scope (nd s6 n) = Some b) by (intros n Hn; apply (Hold n Hn)).
  apply nc_ebind.
  { apply (nc_changeParent D s6 b oldRhs root T6 Hsreg6 R7 Hvc7 Hforce Hdecl6 Hgb6 Hmain Hroot' Hold' HoldD HDdec fuel oldRhs root eq_refl eq_refl). }
  intros t8 Hcp.
  pose proof (changeParent_spec D s6 b oldRhs root T6 Hsreg6 R7 Hvc7 Hforce Hdecl6 Hgb6 Hmain Hroot' Hold' HoldD HDdec
                fuel oldRhs root t8 None eq_refl eq_refl Hcp) as (T8 & R8 & Hf8 & F8).
  assert (Hsc8 : forall m, scope (nd t8 m) = scope (nd s6 m)).
  { intros m. destruct (cpf_node _ _ F8 m) as (_&_&->&_). apply Hfield7. reflexivity. }
  assert (Hv8 : forall m, valid (nd t8 m) = valid (nd s6 m)).
  { intros m. destruct (cpf_node _ _ F8 m) as (_&_&_&->). apply Hfield7. reflexivity. }
  assert (Hk8 : forall m, nkind (nd t8 m) = nkind (nd s6 m)).
  { intros m. destruct (cpf_node _ _ F8 m) as (->&_). apply Hfield7. reflexivity. }
  assert (Inval : nocrash (match oldRhs with Some _ => rfold (invalidateNode fuel) oldNodes t8 | None => Ok t8 end) /\
                  forall t9, (match oldRhs with Some _ => rfold (invalidateNode fuel) oldNodes t8 | None => Ok t8 end) = Ok t9 ->
                    invq t9 = []).
  { destruct oldRhs as [o|] eqn:Eo.
    - assert (HD : forall n, D n -> scope (nd t8 n) = Some b /\ ~ inGen t8 b n).
      { intros n Hn. destruct (Hold n Hn) as (Hhn & Hsn & _). split; [rewrite Hsc8; exact Hsn|].
        unfold inGen, bd. rewrite (cpf_binds _ _ F8). intros Hg8. apply (Hnew n Hg8 Hhn). }
      assert (HDp1 : forall b1, D (S b1) -> nkind (nd t8 (S b1)) = KBindMain b1 -> D b1).
      { intros b1 Hd1. rewrite Hk8. apply Hpair1, Hd1. }
      assert (HDp2 : forall b1, D b1 -> nkind (nd t8 b1) = KBindLhs b1 -> D (S b1)).
      { intros b1 Hd1. rewrite Hk8. apply Hpair2, Hd1. }
      assert (HDv : forall n, D n -> valid (nd t8 n) = true).
      { intros n Hn. rewrite Hv8. apply (Hold n Hn). }
      pose proof (JI_start D t8 T8 R8 HDdec HDp2 HDv) as J8.
      assert (Hl : forall m, m ∈ oldNodes -> doomed D t8 m /\ forall q, q ∈ [] -> (q < m)%nat).
      { intros m Hm. split; [apply dm_old; exact Hm|intros q Hq; inversion Hq]. }
      split.
      + apply (inval_nc_loop D b t8 T8 R8 Hf8 HD HDdec HDp1 fuel (inval_nc_all D b t8 T8 R8 Hf8 HD HDdec HDp1 fuel) oldNodes [] t8 J8 Hl).
      + intros t9 Hiv.
        destruct (inval_loop D t8 fuel (inval_all D b t8 T8 R8 Hf8 HD HDdec HDp1 fuel) oldNodes [] t8 t9 J8 Hl Hiv) as (J9 & _ & _).
        rewrite (is_invq _ _ (j_same _ _ _ _ J9)). apply (m_invq _ _ R8).
    - split; [apply nc_Ok|]. intros t9 [= <-]. apply (m_invq _ _ R8). }
  destruct Inval as [In1 In2].
  apply nc_ebind; [apply nc_lift, In1|]. intros t9 Hiv. apply lift_inv in Hiv as [Hiv _].
  apply nc_lift. destruct fuel as [|k]; [apply nc_fuel|].
  rewrite (propagateInvalidity_nil k t9 (In2 t9 Hiv)). apply nc_Ok.
Qed.

(** * Memoized binds: the function builds top-level nodes, owned by the bind in the ghost order *)
Definition acyc (own : nid -> option nat) (s : state) : Prop :=
  own_ok own s /\
  (forall n q, q ∈ decl (nd s n) -> gmu_lt own s q n) /\
  (forall b r x q, binds s !! b = Some r -> (x, Some q) ∈ b_cache r -> gmu_lt own s q (S b)).

Lemma gchain_below2 own own' s s' x :
  scopes_ok s -> own_ok own s ->
  (forall n, (n < x)%nat -> scope (nd s' n) = scope (nd s n) /\ own' n = own n) ->
  forall n t d, (n < x)%nat -> (gchain own s n t d <-> gchain own' s' n t d).
Proof.
  intros Hs Ho Hsc n t d Hn.
  assert (Hv : forall m, (m < x)%nat -> vsc own' s' m = vsc own s m).
  { intros m Hm. unfold vsc. destruct (Hsc m Hm) as [-> ->]. reflexivity. }
  split.
  - intros H. induction H as [n E|n b0 t d E _ IH].
    + apply gchain_top. rewrite Hv by exact Hn. exact E.
    + pose proof (vsc_lt own s n b0 Hs Ho E) as Hlt.
      apply (gchain_in own' s' n b0); [rewrite Hv by exact Hn; exact E|]. apply IH. lia.
  - intros H. induction H as [n E|n b0 t d E _ IH].
    + apply gchain_top. rewrite <- Hv by exact Hn. exact E.
    + rewrite Hv in E by exact Hn.
      pose proof (vsc_lt own s n b0 Hs Ho E) as Hlt.
      apply (gchain_in own s n b0); [exact E|]. apply IH. lia.
Qed.

Definition okinM (own : nid -> option nat) (b : nat) (s : state) (q : nid) : Prop :=
  has s q /\ scope (nd s q) = None /\ not_lhs (nd s q) /\ ((q < b)%nat \/ own q = Some b).

Record MStat (own : nid -> option nat) (b : nat) (n0 : nid) (s : state) : Prop := {
  ms_P : PInv s;
  ms_acyc : acyc own s;
  ms_built : forall n, (n0 <= n)%nat -> has s n -> own n = Some b;
  ms_b : has s b /\ scope (nd s b) = None /\ own b = None /\ (S b < n0)%nat;
  ms_n0 : (n0 <= next s)%nat
}.

Definition mframe (s s' : state) : Prop :=
  (forall m, has s m -> has s' m /\ nd s' m = nd s m) /\ binds s' = binds s /\
  stabNum s' = stabNum s /\ log s' = log s /\ (next s <= next s')%nat.

Lemma mframe_refl s : mframe s s.
Proof. repeat split; auto. Qed.

Lemma mframe_trans s1 s2 s3 : mframe s1 s2 -> mframe s2 s3 -> mframe s1 s3.
Proof.
  intros (A1 & A2 & A3 & A4 & A5) (B1 & B2 & B3 & B4 & B5). repeat split; try congruence; try lia.
  - apply B1, A1, H.
  - destruct (A1 m H) as [H2 E2]. destruct (B1 m H2) as [_ E3]. congruence.
Qed.

Lemma gchain_bind_top own s b : scope (nd s b) = None -> own b = None -> gchain own s b b 0.
Proof. intros E1 E2. apply gchain_top. unfold vsc. rewrite E1. exact E2. Qed.

Lemma gchain_owned own s n b : scope (nd s n) = None -> own n = Some b -> scope (nd s b) = None -> own b = None ->
  gchain own s n b 1.
Proof.
  intros E1 E2 E3 E4. apply (gchain_in own s n b); [unfold vsc; rewrite E1; exact E2|]. apply gchain_bind_top; assumption.
Qed.

Section mnode.
  Context (own : nid -> option nat) (b : nat) (n0 : nid) (s : state) (k : kind) (d : list nid) (v : Z).
  Hypothesis (MS : MStat own b n0 s).
  Hypothesis (Hd : forall q, q ∈ d -> okinM own b s q).
  Hypothesis (Hk : match k with KReturn | KMap _ | KMap2 _ | KCutoff _ => True | _ => False end).
  Let s' := (newNode s k d None v).1.
  Let x := next s.
  Let own' : nid -> option nat := fun n => if decide (n = x) then Some b else own n.

  Local Lemma mn_ids : ids_ok s. Proof. apply (p_ids s (ms_P _ _ _ _ MS)). Qed.

  Local Lemma mn_x : ~ has s x.
  Proof. intros H. apply (io_lt s mn_ids) in H. unfold x in H. lia. Qed.

  Local Lemma mn_nd m : nd s' m = if decide (m = x) then fresh_node k d None v else nd s m.
  Proof. apply nd_newNode. Qed.

  Local Lemma mn_nd_ne m : m <> x -> nd s' m = nd s m.
  Proof. intros H. rewrite mn_nd, decide_False by exact H. reflexivity. Qed.

  Local Lemma mn_nd_has m : has s m -> nd s' m = nd s m.
  Proof. intros H. apply mn_nd_ne. intros ->. exact (mn_x H). Qed.

  Local Lemma mn_dyn m : dyn_eq (nd s' m) (nd s m).
  Proof.
    rewrite mn_nd. destruct (decide (m = x)) as [->|]; [|apply dyn_eq_refl].
    rewrite (not_has_nd s x mn_x). apply dyn_eq_fresh.
  Qed.

  Local Lemma mn_scope m : scope (nd s' m) = scope (nd s m).
  Proof.
    rewrite mn_nd. destruct (decide (m = x)) as [->|]; [|reflexivity].
    rewrite (not_has_nd s x mn_x). reflexivity.
  Qed.

  Local Lemma mn_has m : has s' m <-> m = x \/ has s m.
  Proof. apply has_newNode. Qed.

  Local Lemma mn_binds : binds s' = binds s.
  Proof. unfold s'. rewrite binds_newNode. reflexivity. Qed.

  Local Lemma mn_bd b0 : bd s' b0 = bd s b0.
  Proof. unfold bd. rewrite mn_binds. reflexivity. Qed.

  Lemma MStat_newNode :
    MStat own' b n0 s' /\ okinM own' b s' x /\ (forall q, okinM own b s q -> okinM own' b s' q) /\
    mframe s s' /\ (forall n, has s n -> own' n = own n).
  Proof.
    destruct MS as [P (O1 & O2 & O3) Hbuilt (Hb1 & Hb2 & Hb3 & Hb4) Hn0].
    destruct P as [T Iids Ibinds Ikinds Iscopes Iscoping V1 V2 V3 PQ Ishape Istamps Iinval].
    assert (Hnext : next s' = S x) by (unfold s'; apply next_newNode).
    assert (Hhas1 : forall m, has s m -> has s' m) by (intros m H; apply mn_has; auto).
    assert (Hhas2 : forall m, has s' m -> has s m \/ (next s <= m)%nat).
    { intros m [->|H]%mn_has; [right; unfold x; lia|auto]. }
    assert (Hlt : forall m, has s m -> (m < x)%nat) by (intros m Hm; apply (io_lt s Iids), Hm).
    assert (Hown_old : forall n, has s n -> own' n = own n).
    { intros n Hn. unfold own'. rewrite decide_False; [reflexivity|]. apply Hlt in Hn. lia. }
    assert (Hox : own x = None).
    { destruct (own x) as [b0|] eqn:E; [|reflexivity]. destruct (mn_x (proj1 (O1 x b0 E))). }
    assert (Hbx : b <> x) by (apply Hlt in Hb1; lia).
    assert (Hsc' : scopes_ok s') by (apply (scopes_ok_ext s s'); auto using mn_binds, mn_scope).
    assert (Hkx : nkind (nd s' x) = k) by (rewrite mn_nd, decide_True by reflexivity; reflexivity).
    assert (O1' : own_ok own' s').
    { intros n b0. unfold own'. destruct (decide (n = x)) as [->|Hne].
      - intros [= <-]. split; [apply mn_has; auto|]. rewrite !mn_scope, (not_has_nd s x mn_x).
        split; [reflexivity|]. split; [unfold x in *; lia|]. split; [exact Hb2|].
        rewrite decide_False by exact Hbx. split; [exact Hb3|]. rewrite Hkx. destruct k; try exact I; destruct Hk.
      - intros E. destruct (O1 n b0 E) as (A & B & C & D & F & G).
        rewrite !mn_scope, (mn_nd_has n A). split; [apply Hhas1, A|]. split; [exact B|]. split; [exact C|].
        split; [exact D|]. split; [|exact G]. rewrite decide_False; [exact F|]. apply Hlt in A. lia. }
    assert (Hgch : forall n t d1, (n < x)%nat -> (gchain own s n t d1 <-> gchain own' s' n t d1)).
    { intros n t d1 Hn. apply (gchain_below2 own own' s s' x Iscopes O1); [|exact Hn].
      intros m Hm. split; [apply mn_scope|]. unfold own'. rewrite decide_False by lia. reflexivity. }
    assert (Hmug : forall q n, (q < x)%nat -> (n < x)%nat -> gmu_lt own s q n -> gmu_lt own' s' q n).
    { intros q n Hq Hn H tq dq tn dn Cq Cn. apply H; apply Hgch; assumption. }
    assert (Hgx : gchain own' s' x b 1).
    { apply gchain_owned.
      - rewrite mn_scope, (not_has_nd s x mn_x). reflexivity.
      - unfold own'. rewrite decide_True by reflexivity. reflexivity.
      - rewrite mn_scope. exact Hb2.
      - unfold own'. rewrite decide_False by exact Hbx. exact Hb3. }
    assert (Hacyc' : acyc own' s').
    { split; [exact O1'|]. split.
      - intros n q. rewrite mn_nd. destruct (decide (n = x)) as [->|Hne].
        + cbn. intros Hq tq dq tn dn Cq Cn. destruct (gchain_fun _ _ _ _ _ _ _ Cn Hgx) as [-> ->].
          destruct (Hd q Hq) as (Hhq & Hsq & _ & Hq').
          pose proof (Hlt q Hhq) as Hqx. apply (Hgch q tq dq Hqx) in Cq.
          destruct Hq' as [Hqb|Hqo].
          * pose proof (gchain_top_le own s Iscopes O1 q tq dq Cq). left. lia.
          * destruct (gchain_fun _ _ _ _ _ _ _ Cq (gchain_owned own s q b Hsq Hqo Hb2 Hb3)) as [-> ->].
            right. split; [reflexivity|]. right. split; [reflexivity|exact Hqx].
        + intros Hq. apply Hmug; [apply Hlt, (io_decl s Iids n q Hq)|apply Hlt, (has_decl s n q Hq)|apply O2, Hq].
      - intros b0 r x0 q. rewrite mn_binds. intros Hr Hq. pose proof (Ibinds b0 r Hr) as W.
        apply Hmug; [apply Hlt, (bw_cache _ _ _ W x0 q Hq)|apply Hlt, (bw_has_main _ _ _ W)|apply (O3 b0 r x0 q Hr Hq)]. }
    split; [|split; [|split; [|split]]].
    - constructor.
      + constructor.
        * (* TInv *)
          apply (TInv_dyn noE s s' [] Iids); auto.
          -- rewrite Hnext. unfold x. lia.
          -- apply mn_dyn.
          -- intros m Hm. rewrite mn_nd_has by exact Hm. reflexivity.
          -- intros m Hm. apply mn_scope.
        * (* ids *) split.
          -- intros n [->|H]%mn_has; [lia|]. apply (io_lt s Iids) in H. unfold x in *. lia.
          -- intros n p. rewrite mn_nd. destruct (decide (n = x)) as [->|].
             ++ cbn. intros Hp. apply Hhas1, (Hd p Hp).
             ++ intros Hp. eapply Hhas1, (io_decl s Iids), Hp.
        * (* binds *) intros b0 r. rewrite mn_binds. intros Hr.
          apply (bind_wf_mono s s'); auto using mn_scope.
          -- intros n Hn. rewrite mn_nd_has by exact Hn. reflexivity.
          -- intros n Hn. rewrite mn_nd_has by exact Hn. reflexivity.
        * (* kinds *) intros n. rewrite mn_nd, mn_binds. destruct (decide (n = x)) as [->|Hne].
          -- intros _. cbn. destruct k; try exact I; contradiction.
          -- intros [?|H]%mn_has; [contradiction|]. apply Ikinds, H.
        * exact Hsc'.
        * (* scoping *) destruct Iscoping as [S1 S2 S3 S4 S5 S6 S7]. split;
            [| | | | |intros b1 q b0; rewrite mn_bd; intros Hr; rewrite mn_nd_has by (apply (rhs_has s Iids Ibinds b1 q Hr)); apply (S6 b1 q b0 Hr)
            |intros b0 b1; unfold inGen; rewrite mn_bd; intros Hg; rewrite mn_nd_has by (apply (gen_has s Ibinds b0 b1 Hg)); apply (S7 b0 b1 Hg)].
          -- intros n q. rewrite mn_nd. destruct (decide (n = x)) as [->|Hne].
             ++ cbn. intros Hq. left. rewrite mn_scope. apply (Hd q Hq).
             ++ rewrite !mn_scope. fold (nd s n). intros Hq.
                destruct (S1 n q Hq) as [?|[?|(b0 & ? & ? & ?)]]; auto;
                right; right; exists b0; rewrite mn_bd; auto.
          -- intros n q b0. unfold inGen. rewrite mn_bd, !mn_scope.
             rewrite (mn_nd n). destruct (decide (n = x)) as [->|Hne].
             ++ rewrite (not_has_nd s x mn_x). cbn. discriminate.
             ++ apply S2.
          -- intros b0 q. unfold inGen. rewrite mn_bd, mn_scope. apply S3.
          -- exists own'. exact Hacyc'.
          -- intros n q b0. rewrite (mn_nd n). destruct (decide (n = x)) as [->|Hne].
             ++ cbn. intros Hq Hkq. destruct (Hd q Hq) as (Hhq & _ & Hnl & _). rewrite mn_nd_has in Hkq by exact Hhq.
                unfold not_lhs in Hnl. rewrite Hkq in Hnl. destruct Hnl.
             ++ intros Hq Hkq. rewrite mn_nd_has in Hkq by (eapply (io_decl s Iids), Hq). apply (S5 n q b0 Hq Hkq).
        * intros n. rewrite mn_scope. destruct (mn_dyn n) as (_&_&_&_&_&_&_&_&->&_). apply V1.
        * intros n b0 [->|Hn]%mn_has.
          -- rewrite mn_scope, (not_has_nd s x mn_x). cbn. discriminate.
          -- rewrite mn_nd_has by exact Hn. unfold inGen. rewrite mn_bd. apply V2, Hn.
        * intros n b0. unfold inGen. rewrite mn_bd.
          destruct (mn_dyn n) as (_&_&_&_&_&_&_&_&->&_).
          destruct (mn_dyn b0) as (_&_&_&_&_&_&_&_&->&_). apply V3.
        * destruct PQ as [Q1 Q2 (Q3a & Q3b & Q3c) Q4 Q5]. constructor.
          -- unfold s'. rewrite status_newNode. exact Q1.
          -- unfold s'. rewrite invq_newNode. exact Q2.
          -- unfold adj_idle, s'. rewrite adj_newNode. split; [exact Q3a|]. split; [exact Q3b|].
             intros m. fold s'. destruct (mn_dyn m) as (_&->&_). apply Q3c.
          -- intros n. destruct (mn_dyn n) as (_&_&_&_&_&_&_&_&_&->&_). apply Q4.
          -- intros v0. unfold s'. rewrite setDuring_newNode, setRemoved_newNode. intros Hv.
             destruct (Q5 v0 Hv) as [e He]. exists e. rewrite mn_nd_ne; [exact He|].
             intros ->. rewrite (not_has_nd s x mn_x) in He. discriminate.
        * apply (shape_ok_ext s s'); [| |exact Ishape]; unfold s'; [apply adj_newNode|apply maxHeight_newNode].
        * apply (stamps_ok_ext s s'); [| | | |exact Istamps].
          -- unfold s'. apply stabNum_newNode.
          -- intros n. destruct (mn_dyn n) as (_&_&->&_). reflexivity.
          -- intros n. destruct (mn_dyn n) as (_&_&_&->&_). reflexivity.
          -- intros n. destruct (mn_dyn n) as (_&_&_&_&->&_). reflexivity.
        * intros n. destruct (mn_dyn n) as (_&_&_&_&_&_&_&_&->&_).
          unfold s'. rewrite log_newNode. apply Iinval.
      + exact Hacyc'.
      + intros n Hn [->|Hh]%mn_has.
        * unfold own'. rewrite decide_True by reflexivity. reflexivity.
        * rewrite (Hown_old n Hh). apply Hbuilt; assumption.
      + split; [apply Hhas1, Hb1|]. split; [rewrite mn_scope; exact Hb2|].
        split; [|exact Hb4]. unfold own'. rewrite decide_False by exact Hbx. exact Hb3.
      + rewrite Hnext. unfold x. lia.
    - split; [apply mn_has; auto|]. split; [rewrite mn_scope, (not_has_nd s x mn_x); reflexivity|].
      split; [unfold not_lhs; rewrite Hkx; destruct k; try exact I; destruct Hk|].
      right. unfold own'. rewrite decide_True by reflexivity. reflexivity.
    - intros q (A & B & C & D). split; [apply Hhas1, A|]. rewrite mn_nd_has by exact A.
      split; [exact B|]. split; [exact C|]. rewrite (Hown_old q A). exact D.
    - split; [intros m Hm; split; [apply Hhas1, Hm|apply mn_nd_has, Hm]|]. split; [apply mn_binds|].
      split; [unfold s'; apply stabNum_newNode|]. split; [unfold s'; apply log_newNode|]. rewrite Hnext. unfold x. lia.
    - exact Hown_old.
  Qed.
End mnode.

Lemma texp_wf_mframe s s' T root e : mframe s s' -> texp_wf s T root e -> texp_wf s' T root e.
Proof.
  intros (A & _). apply texp_wf_ext; intros n Hn; destruct (A n Hn) as [H E];
    [exact H|rewrite E; reflexivity|rewrite E; reflexivity].
Qed.

Lemma MStat_inst (b : nat) (n0 : nid) (x : Z) : forall (e : texp) (root : bool) own (s s' : state) (r : option nid),
  MStat own b n0 s -> texp_nobind e = true -> texp_wf s b root e -> inst s None x e = (s', r) ->
  exists own', MStat own' b n0 s' /\ mframe s s' /\ (forall n, has s n -> own' n = own n) /\
    (forall q, okinM own b s q -> okinM own' b s' q) /\
    match r with Some a => okinM own' b s' a | None => root = true /\ s' = s end.
Proof.
  induction e as [k| |t|f e IH|f e1 IH1 e2 IH2|c e IH|cs e IH|]; intros root own s s' r MS NB W H; simpl in H.
  - (* TRet *) injection H as <- <-.
    destruct (MStat_newNode own b n0 s KReturn [] k MS ltac:(intros q Hq; inversion Hq) Logic.I) as (A & B & C & D & E).
    eexists. split; [exact A|]. split; [exact D|]. split; [exact E|]. split; [exact C|exact B].
  - (* TX *) injection H as <- <-.
    destruct (MStat_newNode own b n0 s KReturn [] x MS ltac:(intros q Hq; inversion Hq) Logic.I) as (A & B & C & D & E).
    eexists. split; [exact A|]. split; [exact D|]. split; [exact E|]. split; [exact C|exact B].
  - (* TOuter *) injection H as <- <-. exists own. split; [exact MS|]. split; [apply mframe_refl|].
    split; [auto|]. split; [auto|]. simpl in W. destruct W as (W1 & W2 & W3 & W4).
    split; [exact W1|]. split; [exact W2|]. split; [exact W4|left; exact W3].
  - (* TMap *) destruct (inst s None x e) as [s1 a] eqn:E1. injection H as <- <-. simpl in W, NB.
    destruct (IH false own s s1 a MS NB W E1) as (own1 & MS1 & F1 & O1 & K1 & C1).
    destruct a as [a|]; [|destruct C1; discriminate]. simpl.
    destruct (MStat_newNode own1 b n0 s1 (KMap f) [a] 0 MS1) as (A & B & C & D & E); [|exact Logic.I|].
    { intros q ->%elem_of_list_singleton. exact C1. }
    eexists. split; [exact A|]. split; [eapply mframe_trans; eassumption|]. split.
    { intros n Hn. rewrite (E n (proj1 (proj1 F1 n Hn))). apply O1, Hn. }
    split; [intros q Hq; apply C, K1, Hq|exact B].
  - (* TMap2 *) destruct (inst s None x e1) as [s1 a1] eqn:E1. destruct (inst s1 None x e2) as [s2 a2] eqn:E2.
    injection H as <- <-. simpl in W, NB. destruct W as [W1 W2]. apply andb_true_iff in NB as [NB1 NB2].
    destruct (IH1 false own s s1 a1 MS NB1 W1 E1) as (own1 & MS1 & F1 & O1 & K1 & C1).
    destruct (IH2 false own1 s1 s2 a2 MS1 NB2 (texp_wf_mframe s s1 b false e2 F1 W2) E2) as (own2 & MS2 & F2 & O2 & K2 & C2).
    destruct a1 as [a1|]; [|destruct C1; discriminate]. destruct a2 as [a2|]; [|destruct C2; discriminate]. simpl.
    destruct (MStat_newNode own2 b n0 s2 (KMap2 f) [a1; a2] 0 MS2) as (A & B & C & D & E); [|exact Logic.I|].
    { intros q Hq. apply elem_of_cons in Hq as [->|Hq]; [apply K2, C1|].
      apply elem_of_list_singleton in Hq as ->. exact C2. }
    eexists. split; [exact A|]. split; [eapply mframe_trans; [exact F1|eapply mframe_trans; eassumption]|]. split.
    { intros n Hn. pose proof (proj1 (proj1 F1 n Hn)) as H1. pose proof (proj1 (proj1 F2 n H1)) as H2.
      rewrite (E n H2), (O2 n H1). apply O1, Hn. }
    split; [intros q Hq; apply C, K2, K1, Hq|exact B].
  - (* TCut *) destruct (inst s None x e) as [s1 a] eqn:E1. injection H as <- <-. simpl in W, NB.
    destruct (IH false own s s1 a MS NB W E1) as (own1 & MS1 & F1 & O1 & K1 & C1).
    destruct a as [a|]; [|destruct C1; discriminate]. simpl.
    destruct (MStat_newNode own1 b n0 s1 (KCutoff c) [a] 0 MS1) as (A & B & C & D & E); [|exact Logic.I|].
    { intros q ->%elem_of_list_singleton. exact C1. }
    eexists. split; [exact A|]. split; [eapply mframe_trans; eassumption|]. split.
    { intros n Hn. rewrite (E n (proj1 (proj1 F1 n Hn))). apply O1, Hn. }
    split; [intros q Hq; apply C, K1, Hq|exact B].
  - (* TBind *) simpl in NB. discriminate.
  - (* TNil *) injection H as <- <-. simpl in W. exists own. split; [exact MS|]. split; [apply mframe_refl|]. auto.
Qed.

(* what the three theorems about a memoized bind's recomputation need of the tail *)
Definition tail_ok (s3 s6 : state) (b : nat) (r3 r6 : bindrec) (root : option nid) : Prop :=
  let s7 := upd s6 (S b) (set decl (fun _ => b :: option_list root)) in
  TInv [] noE s6 /\ inGraph (nd s6 b) = true /\
  (forall v, v ∈ setDuring s6 \/ v ∈ setRemoved s6 -> exists e, nkind (nd s6 v) = KVar e) /\
  forall fuel, nocrash (changeParent fuel s7 (S b) (b_rhs r3) root) /\
    forall t8 e, changeParent fuel s7 (S b) (b_rhs r3) root = Ok (t8, e) ->
    match e with
    | Some x => adj_err x
    | None => PInv t8 /\ (forall m, has t8 m <-> has s3 m) /\
              (forall m, nkind (nd t8 m) = nkind (nd s3 m)) /\ stabNum t8 = stabNum s3 /\
              binds t8 = <[b := r6]> (binds s3) /\ norun_ext s6 t8
    end.

(** ** the tail of a memoized bind's recomputation: new right-hand side, possibly a new cache entry *)
Section memo_tail.
  Context (own : nid -> option nat) (s3 s6 : state) (b : nat) (r3 r6 : bindrec) (root : option nid) (l : list event).
  Hypothesis (P3 : PInv s3) (A3 : acyc own s3).
  Hypothesis (Hr3 : binds s3 !! b = Some r3).
  Hypothesis (Hmemo : b_memo r3 = true).
  Hypothesis (Hgb : inGraph (nd s3 b) = true).
  Hypothesis (Hroot : match root with
                      | Some a => has s3 a /\ scope (nd s3 a) = None /\ not_lhs (nd s3 a) /\ gmu_lt own s3 a (S b)
                      | None => True end).
  Hypothesis (Hnodes : nodes s6 = nodes s3) (Hnext : next s6 = next s3).
  Hypothesis (Hb6 : binds s6 = <[b := r6]> (binds s3)).
  Hypothesis (Hf : b_lhs r6 = b_lhs r3 /\ b_lhsChange r6 = b_lhsChange r3 /\ b_main r6 = b_main r3 /\
                   b_memo r6 = b_memo r3 /\ b_cases r6 = b_cases r3 /\ b_rhsNodes r6 = b_rhsNodes r3 /\
                   b_rhs r6 = root).
  Hypothesis (Hcache : forall x q, (x, Some q) ∈ b_cache r6 -> (x, Some q) ∈ b_cache r3 \/ root = Some q).
  Hypothesis (Hreg : reg s6 = reg s3) (Hobs : obs s6 = obs s3) (Hheap : heap s6 = heap s3)
             (Hadj : adj s6 = adj s3) (Hinvq : invq s6 = invq s3) (HstabNum : stabNum s6 = stabNum s3)
             (Hstatus : status s6 = status s3) (HnumNodes : numNodes s6 = numNodes s3)
             (HsetDuring : setDuring s6 = setDuring s3) (HsetRemoved : setRemoved s6 = setRemoved s3)
             (HmaxHeight : maxHeight s6 = maxHeight s3)
             (Hlog : log s6 = l ++ log s3) (Hl : Forall (ev_benign s3) l).
  Let oldRhs := b_rhs r3.
  Let s7 := upd s6 (S b) (set decl (fun _ => b :: option_list root)).

  Local Lemma mt_W : bind_wf s3 b r3. Proof. apply (p_binds s3 P3 b r3 Hr3). Qed.
  Local Lemma mt_nd6 m : nd s6 m = nd s3 m. Proof. unfold nd. rewrite Hnodes. reflexivity. Qed.
  Local Lemma mt_has6 m : has s6 m <-> has s3 m. Proof. unfold has. rewrite Hnodes. reflexivity. Qed.
  Local Lemma mt_hSb : has s6 (S b). Proof. apply mt_has6, (bw_has_main _ _ _ mt_W). Qed.
  Local Lemma mt_nd7 m : nd s7 m = if decide (m = S b) then set decl (fun _ => b :: option_list root) (nd s3 (S b)) else nd s3 m.
  Proof. unfold s7. rewrite (nd_upd s6 (S b) _ m mt_hSb). rewrite !mt_nd6. reflexivity. Qed.
  Local Lemma mt_fld {A} (g : node -> A) : (forall y f, g (set decl f y) = g y) -> forall m, g (nd s7 m) = g (nd s3 m).
  Proof. intros Hg m. rewrite mt_nd7. destruct (decide (m = S b)) as [->|]; [apply Hg|reflexivity]. Qed.
  Local Lemma mt_decl7 m : decl (nd s7 m) = if decide (m = S b) then b :: option_list root else decl (nd s3 m).
  Proof. rewrite mt_nd7. destruct (decide (m = S b)); reflexivity. Qed.
  Local Lemma mt_has7 m : has s7 m <-> has s3 m.
  Proof. unfold s7. rewrite has_upd. apply mt_has6. Qed.
  Local Lemma mt_look b' : binds s7 !! b' = if decide (b' = b) then Some r6 else binds s3 !! b'.
  Proof.
    change (binds s7) with (binds s6). rewrite Hb6. destruct (decide (b' = b)) as [->|Hne];
      [apply lookup_insert|apply lookup_insert_ne; congruence].
  Qed.
  Local Lemma mt_bdb : bd s7 b = r6. Proof. unfold bd. rewrite mt_look, decide_True by reflexivity. reflexivity. Qed.
  Local Lemma mt_bd3 : bd s3 b = r3. Proof. unfold bd. rewrite Hr3. reflexivity. Qed.
  Local Lemma mt_bdne b' : b' <> b -> bd s7 b' = bd s3 b'.
  Proof. intros H. unfold bd. rewrite mt_look, decide_False by exact H. reflexivity. Qed.
  Local Lemma mt_gen b' m : inGen s7 b' m <-> inGen s3 b' m.
  Proof.
    unfold inGen. destruct (decide (b' = b)) as [->|Hne]; [|rewrite mt_bdne by exact Hne; reflexivity].
    rewrite mt_bdb, mt_bd3. destruct Hf as (_&_&_&_&_&->&_). reflexivity.
  Qed.
  Local Lemma mt_dom b' : is_Some (binds s3 !! b') -> is_Some (binds s7 !! b').
  Proof. intros H. rewrite mt_look. destruct (decide (b' = b)); [eauto|exact H]. Qed.
  Local Lemma mt_memo3 : b_rhsNodes r3 = [] /\ scope (nd s3 b) = None /\ Forall (fun e => texp_nobind e = true) (b_cases r3).
  Proof. apply (bw_memo _ _ _ mt_W Hmemo). Qed.
  Local Lemma mt_scS : scope (nd s3 (S b)) = None.
  Proof. rewrite (bw_scope _ _ _ mt_W). apply mt_memo3. Qed.
  Local Lemma mt_chain m t d : chain s7 m t d <-> chain s3 m t d.
  Proof. apply chain_ext_iff. intros n. apply mt_fld. reflexivity. Qed.
  Local Lemma mt_root_has a : root = Some a -> has s3 a /\ scope (nd s3 a) = None /\ not_lhs (nd s3 a) /\ gmu_lt own s3 a (S b).
  Proof. intros E. rewrite E in Hroot. exact Hroot. Qed.

  Lemma memo_T6 : TInv [] noE s6.
  Proof.
    apply (TInv_dyn noE s3 s6 l (p_ids s3 P3)); auto.
    - rewrite Hnext. lia.
    - intros m. apply mt_has6.
    - intros m Hm. left. apply mt_has6, Hm.
    - intros m. rewrite mt_nd6. apply dyn_eq_refl.
    - intros m _. rewrite mt_nd6. reflexivity.
    - intros m _. rewrite mt_nd6. reflexivity.
    - intros n _ Hn. rewrite Hb6, lookup_insert_ne; [exact Hn|]. intros <-. rewrite Hr3 in Hn. discriminate.
    - right. intros n Hn Hx. apply (p_inval s3 P3 n) in Hx.
      rewrite (t_valid _ _ _ (p_t s3 P3) n Hn) in Hx. discriminate.
    - apply (p_t s3 P3).
  Qed.

  Lemma memo_static7 : ids_ok s7 /\ binds_wf s7 /\ kinds_ok s7 /\ scopes_ok s7 /\ scoping_ok s7.
  Proof.
    pose proof mt_W as Wb. destruct mt_memo3 as (Hrn3 & Hscb & _). pose proof mt_scS as HscS.
    pose proof mt_root_has as HRH.
    pose proof Hf as (F1 & F2 & F3 & F4 & F5 & F6 & F7).
    pose proof P3 as [T Iids Ibinds Ikinds Iscopes Iscoping V1 V2 V3 PQ Ishape Istamps Iinval].
    pose proof A3 as (O1 & O2 & O3).
    assert (fsc : forall m, scope (nd s7 m) = scope (nd s3 m)) by (apply mt_fld; reflexivity).
    assert (fk : forall m, nkind (nd s7 m) = nkind (nd s3 m)) by (apply mt_fld; reflexivity).
    split; [|split; [|split; [|split]]].
    - destruct Iids as [I1 I2]. split.
      + intros m Hm. change (next s7) with (next s6). rewrite Hnext. apply I1, mt_has7, Hm.
      + intros n q. rewrite mt_decl7, mt_has7. destruct (decide (n = S b)) as [->|]; [|apply I2].
        intros [->|Hq]%elem_of_cons; [apply (bw_has_lhs _ _ _ Wb)|].
        destruct root as [a|]; [|inversion Hq]. apply elem_of_list_singleton in Hq as ->. apply (HRH a eq_refl).
    - intros b' r'. rewrite mt_look. destruct (decide (b' = b)) as [->|Hne].
      + intros [= <-]. destruct Wb as [W1 W2 W3 W3c W4 W5 W6 W7 W8 W9 W10 W11 W12 W13 W14].
        constructor; rewrite ?F1, ?F2, ?F3, ?F4, ?F5, ?F6, ?F7, ?fk, ?fsc, ?mt_has7; auto.
        * intros x q Hq. rewrite mt_has7, fsc. destruct (Hcache x q Hq) as [Hq'|Hq'].
          -- destruct (W3c x q Hq') as (A1 & A2 & A3'). split; [exact A1|]. split; [exact A2|]. intros k. rewrite fk. apply A3'.
          -- destruct (HRH q Hq') as (A1 & A2 & A3' & _). split; [exact A1|]. split; [exact A2|].
             intros k. rewrite fk. intros E. unfold not_lhs in A3'. rewrite E in A3'. exact A3'.
        * rewrite mt_decl7, decide_False by lia. exact W8.
        * rewrite mt_decl7, decide_True by reflexivity. reflexivity.
        * intros n Hn. rewrite mt_has7, fsc. apply W11, Hn.
        * intros t d Hc. apply mt_chain in Hc.
          eapply List.Forall_impl; [|apply (W14 t d Hc)]. intros e.
          apply texp_wf_ext; intros; [apply mt_has7; assumption|apply fsc|apply fk].
      + intros Hr'. pose proof (Ibinds b' r' Hr') as W.
        destruct W as [W1 W2 W3 W3c W4 W5 W6 W7 W8 W9 W10 W11 W12 W13 W14].
        assert (HSb : S b' <> S b) by congruence.
        assert (Hb'S : b' <> S b).
        { intros ->. rewrite (bw_kind_main _ _ _ Wb) in W6. discriminate. }
        constructor; rewrite ?fk, ?fsc, ?mt_has7; auto.
        * intros x q Hq. rewrite mt_has7, fsc. destruct (W3c x q Hq) as (A1 & A2 & A3'). split; [exact A1|]. split; [exact A2|].
          intros k. rewrite fk. apply A3'.
        * rewrite mt_decl7, decide_False by exact Hb'S. exact W8.
        * rewrite mt_decl7, decide_False by exact HSb. exact W9.
        * intros n Hn. rewrite mt_has7, fsc. apply W11, Hn.
        * intros t d Hc. apply mt_chain in Hc.
          eapply List.Forall_impl; [|apply (W14 t d Hc)]. intros e.
          apply texp_wf_ext; intros; [apply mt_has7; assumption|apply fsc|apply fk].
    - intros n Hn. rewrite fk. apply mt_has7 in Hn. pose proof (Ikinds n Hn) as K.
      destruct (nkind (nd s3 n)); auto; destruct K as [K1 K2]; (split; [exact K1|apply mt_dom, K2]).
    - intros n b0. rewrite fsc. intros Hs. destruct (Iscopes n b0 Hs) as [A B]. split; [apply mt_dom, A|exact B].
    - destruct Iscoping as [S1 S2 S3 S4 S5 S6 S7]. split.
      + intros n q. rewrite mt_decl7, !fsc, fk. destruct (decide (n = S b)) as [->|Hne].
        * intros [->|Hq]%elem_of_cons; [left; exact Hscb|].
          destruct root as [a|]; [|inversion Hq]. apply elem_of_list_singleton in Hq as ->.
          left. apply (HRH a eq_refl).
        * intros Hq. destruct (S1 n q Hq) as [?|[?|(b0 & K1 & K2 & K3)]]; auto.
          right; right. exists b0. split; [exact K1|]. split; [exact K2|].
          rewrite mt_bdne; [exact K3|]. intros ->.
          pose proof (Ikinds n (has_decl s3 n q Hq)) as K. rewrite K1 in K. destruct K as [-> _]. congruence.
      + intros n q b0. rewrite mt_decl7, !fsc, !mt_gen. destruct (decide (n = S b)) as [->|Hne]; [|apply S2].
        intros _ Hsn. rewrite HscS in Hsn. discriminate.
      + intros b0 q. rewrite fsc, mt_gen. destruct (decide (b0 = b)) as [->|Hne].
        * rewrite mt_bdb, F7. intros Hq. left. apply (HRH q Hq).
        * rewrite mt_bdne by exact Hne. apply S3.
      + exists own.
        assert (Hob : own b = None) by (apply (own_bind_None own s3 b r3 O1 Hr3), (bw_kind_lhs _ _ _ Wb)).
        assert (HoS : own (S b) = None).
        { destruct (own (S b)) as [b1|] eqn:Eo; [|reflexivity]. exfalso.
          destruct (O1 (S b) b1 Eo) as (_ & _ & _ & _ & _ & K). rewrite (bw_kind_main _ _ _ Wb) in K. exact K. }
        assert (fin_g : forall n t d, gchain own s7 n t d <-> gchain own s3 n t d).
        { intros n t d. split; apply gchain_ext; intros m; [symmetry|]; apply fsc. }
        assert (HgS : gchain own s3 (S b) (S b) 0) by (apply gchain_bind_top; assumption).
        assert (Hgb0 : gchain own s3 b b 0) by (apply gchain_bind_top; assumption).
        split; [apply (own_ok_ext own s3 s7); auto using mt_has7|]. split.
        * intros n q. rewrite mt_decl7. destruct (decide (n = S b)) as [->|Hne].
          -- intros Hq tq dq tn dn Cq Cn. apply fin_g in Cq, Cn.
             apply elem_of_cons in Hq as [->|Hq].
             ++ destruct (gchain_fun _ _ _ _ _ _ _ Cn HgS) as [-> ->].
                destruct (gchain_fun _ _ _ _ _ _ _ Cq Hgb0) as [-> ->]. left. lia.
             ++ destruct root as [a|]; [|inversion Hq]. apply elem_of_list_singleton in Hq as ->.
                destruct (HRH a eq_refl) as (_ & _ & _ & Hmu). apply Hmu; assumption.
          -- intros Hq tq dq tn dn Cq Cn. apply fin_g in Cq, Cn. apply (O2 n q Hq); assumption.
        * intros b0 r0 x0 q. rewrite mt_look. destruct (decide (b0 = b)) as [->|Hne].
          -- intros [= <-] Hq tq dq tn dn Cq Cn. apply fin_g in Cq, Cn. destruct (Hcache x0 q Hq) as [Hq'|Hq'].
             ++ apply (O3 b r3 x0 q Hr3 Hq'); assumption.
             ++ destruct (HRH q Hq') as (_ & _ & _ & Hmu). apply Hmu; assumption.
          -- intros Hr0 Hq tq dq tn dn Cq Cn. apply fin_g in Cq, Cn. apply (O3 b0 r0 x0 q Hr0 Hq); assumption.
      + intros n q b0. rewrite mt_decl7, fk. destruct (decide (n = S b)) as [->|Hne]; [|apply S5].
        intros [->|Hq]%elem_of_cons Hkq; [reflexivity|].
        destruct root as [a|]; [|inversion Hq]. apply elem_of_list_singleton in Hq as ->.
        destruct (HRH a eq_refl) as (_ & _ & Hnl & _). unfold not_lhs in Hnl. rewrite Hkq in Hnl. destruct Hnl.
      + intros b0 q k0. rewrite fk. destruct (decide (b0 = b)) as [->|Hne].
        * rewrite mt_bdb, F7. intros Hq Hkq.
          destruct (HRH q Hq) as (_ & _ & Hnl & _). unfold not_lhs in Hnl. rewrite Hkq in Hnl. destruct Hnl.
        * rewrite mt_bdne by exact Hne. apply S6.
      + intros b0 b1. rewrite !mt_gen, fk. apply S7.
  Qed.

  Lemma memo_R7 : RestM noD s7.
  Proof.
    destruct memo_static7 as (F1 & F2 & F3 & F4 & F5).
    pose proof P3 as [T Iids Ibinds Ikinds Iscopes Iscoping V1 V2 V3 PQ Ishape Istamps Iinval].
    assert (fsc : forall m, scope (nd s7 m) = scope (nd s3 m)) by (apply mt_fld; reflexivity).
    assert (fk : forall m, nkind (nd s7 m) = nkind (nd s3 m)) by (apply mt_fld; reflexivity).
    assert (fv : forall m, valid (nd s7 m) = valid (nd s3 m)) by (apply mt_fld; reflexivity).
    assert (fg : forall m, inGraph (nd s7 m) = inGraph (nd s3 m)) by (apply mt_fld; reflexivity).
    constructor; try assumption.
    - intros n. rewrite fsc, fv. apply V1.
    - intros n b0. rewrite mt_has7, fsc, mt_gen, fv, fg. intros H1 H2 H3 _. apply (V2 n b0 H1 H2 H3).
    - intros n b0. rewrite mt_gen, !fv. apply V3.
    - apply (shape_ok_ext s3 s7); [| |exact Ishape].
      + change (adj s7) with (adj s6). exact Hadj.
      + change (maxHeight s7) with (maxHeight s6). exact HmaxHeight.
    - apply (stamps_ok_ext s3 s7); [| | | |exact Istamps].
      + change (stabNum s7) with (stabNum s6). exact HstabNum.
      + apply mt_fld. reflexivity.
      + apply mt_fld. reflexivity.
      + apply mt_fld. reflexivity.
    - intros n. rewrite fv. change (log s7) with (log s6). rewrite Hlog, (benign_inval s3 l (log s3) n Hl). apply Iinval.
    - change (status s7) with (status s6). rewrite Hstatus. apply PQ.
    - change (invq s7) with (invq s6). rewrite Hinvq. apply PQ.
    - destruct (pq_adj s3 PQ) as (B1 & B2 & B3). unfold adj_idle. change (adj s7) with (adj s6). rewrite Hadj.
      split; [exact B1|]. split; [exact B2|]. intros m. rewrite (mt_fld hAdj) by reflexivity. apply B3.
    - intros v. change (setDuring s7) with (setDuring s6). change (setRemoved s7) with (setRemoved s6).
      rewrite HsetDuring, HsetRemoved, fk. apply (pq_vars s3 PQ).
  Qed.

  Lemma memo_tail_nc fuel : nocrash (changeParent fuel s7 (S b) oldRhs root) /\
    forall t8 e, changeParent fuel s7 (S b) oldRhs root = Ok (t8, e) ->
    match e with
    | Some x => adj_err x
    | None => PInv t8 /\ (forall m, has t8 m <-> has s3 m) /\
              (forall m, nkind (nd t8 m) = nkind (nd s3 m)) /\ stabNum t8 = stabNum s3 /\
              binds t8 = <[b := r6]> (binds s3) /\ norun_ext s6 t8
    end.
  Proof.
    pose proof memo_T6 as T6. pose proof memo_R7 as R7. pose proof mt_W as Wb.
    pose proof mt_root_has as HRH.
    pose proof P3 as [T Iids Ibinds Ikinds Iscopes Iscoping V1 V2 V3 PQ Ishape Istamps Iinval].
    assert (Hvc7 : forall m q, valid (nd s7 m) = true -> q ∈ decl (nd s7 m) -> valid (nd s7 q) = true).
    { apply (valid_closed s7 (m_binds _ _ R7) (m_kinds _ _ R7) (m_scoping _ _ R7) (m_vtop _ _ R7)); [|apply (m_vgen _ _ R7)].
      intros n b0 H1 H2 H3. apply (m_vdead _ _ R7 n b0 H1 H2 H3). intros []. }
    assert (Hsreg6 : forall m b', inGraph (nd s6 m) = true -> scope (nd s6 m) = Some b' -> inGraph (nd s6 b') = true).
    { intros m b'. rewrite !mt_nd6. apply (PInv_sreg s3 P3). }
    assert (Hforce : forall n, forceNec (nd s6 n) = false) by (intros n; rewrite mt_nd6; apply (pq_force s3 PQ)).
    assert (Hdecl6 : decl (nd s6 (S b)) = b :: option_list oldRhs) by (rewrite mt_nd6; apply (bw_decl_main _ _ _ Wb)).
    assert (Hgb6 : inGraph (nd s6 b) = true) by (rewrite mt_nd6; exact Hgb).
    assert (Hgc6 : inGraph (nd s6 (S b)) = true).
    { rewrite mt_nd6. apply (lhs_main_reg s3 b (t_edges _ _ _ T) (t_zero _ _ _ T) (TInv_nec_ok s3 T) (TInv_par_ok s3 T)
               (t_obs _ _ _ T) (pq_force s3 PQ) Iscoping (ex_intro _ r3 Hr3) (bw_kind_lhs _ _ _ Wb) Hgb). }
    assert (Hroot' : match root with
                     | Some r => has s6 r /\ r <> b /\ valid (nd s6 r) = true /\
                                 (forall b', scope (nd s6 r) = Some b' -> b' = b)
                     | None => True end).
    { destruct root as [r|]; [|exact Logic.I]. destruct (HRH r eq_refl) as (H1 & H2 & H3 & _).
      split; [apply mt_has6, H1|]. split.
      - intros ->. unfold not_lhs in H3. rewrite (bw_kind_lhs _ _ _ Wb) in H3. exact H3.
      - rewrite !mt_nd6. split; [apply V1, H2|]. intros b' Hs. congruence. }
    assert (Hold : match oldRhs with Some o => o <> b | None => True end).
    { unfold oldRhs. destruct (b_rhs r3) as [o|] eqn:Eo; [|exact Logic.I]. intros ->.
      apply (sc_rhs_nl s3 Iscoping b b b); [unfold bd; rewrite Hr3; exact Eo|apply (bw_kind_lhs _ _ _ Wb)]. }
    split.
    { apply (nc_changeParent noD s6 b oldRhs root T6 Hsreg6 R7 Hvc7 Hforce Hdecl6 Hgb6 Hgc6 Hroot' Hold
               ltac:(intros n []) ltac:(intros n; right; intros []) fuel oldRhs root eq_refl eq_refl). }
    intros t8 e Hcp.
    pose proof (changeParent_spec noD s6 b oldRhs root T6 Hsreg6 R7 Hvc7 Hforce Hdecl6 Hgb6 Hgc6 Hroot' Hold
                  ltac:(intros n []) ltac:(intros n; right; intros []) fuel oldRhs root t8 e eq_refl eq_refl Hcp) as CP.
    destruct e as [x2|]; [exact CP|].
    destruct CP as (T8 & R8 & Hf8 & F8).
    split; [apply PInv_join; assumption|]. split; [|split; [|split; [|split]]].
    - intros m. rewrite (cpf_has _ _ F8). apply mt_has7.
    - intros m. destruct (cpf_node _ _ F8 m) as (->&_). apply mt_fld. reflexivity.
    - rewrite (cpf_stabNum _ _ F8). change (stabNum s7) with (stabNum s6). exact HstabNum.
    - rewrite (cpf_binds _ _ F8). change (binds s7) with (binds s6). exact Hb6.
    - exact (cpf_log _ _ F8).
  Qed.

  Lemma memo_vars6 : forall v, v ∈ setDuring s6 \/ v ∈ setRemoved s6 -> exists e, nkind (nd s6 v) = KVar e.
  Proof. intros v. rewrite HsetDuring, HsetRemoved, mt_nd6. apply (pq_vars s3 (p_pq s3 P3)). Qed.

  Lemma memo_tail_ok : tail_ok s3 s6 b r3 r6 root.
  Proof.
    split; [exact memo_T6|]. split; [rewrite mt_nd6; exact Hgb|]. split; [exact memo_vars6|].
    intros fuel. apply memo_tail_nc.
  Qed.
End memo_tail.

Definition memo_tailx (fuel : nat) (s6 : state) (b : nat) (oldRhs root : option nid) : M :=
  s0 <-? changeParent fuel (upd s6 (S b) (set decl (fun _ => match root with Some r => [b; r] | None => [b] end))) (S b) oldRhs root;
  s1 <-? lift (match oldRhs with Some _ => rfold (invalidateNode fuel) [] s0 | None => Ok s0 end);
  lift (propagateInvalidity fuel s1).

Lemma memo_tailx_eq fuel s6 b oldRhs root :
  memo_tailx fuel s6 b oldRhs root =
  (s0 <-? changeParent fuel (upd s6 (S b) (set decl (fun _ => b :: option_list root))) (S b) oldRhs root;
   s1 <-? lift (Ok s0); lift (propagateInvalidity fuel s1)).
Proof.
  unfold memo_tailx.
  assert (Hs7 : (fun _ : list nid => match root with Some r => [b; r] | None => [b] end) = (fun _ => b :: option_list root))
    by (destruct root; reflexivity).
  rewrite Hs7. destruct oldRhs; reflexivity.
Qed.

Lemma tailx_full fuel s3 s6 b r3 r6 root s' e :
  tail_ok s3 s6 b r3 r6 root -> memo_tailx fuel s6 b (b_rhs r3) root = Ok (s', e) ->
  rejected_err e \/
  (PInv s' /\ (forall m, has s' m <-> has s3 m) /\ (forall m, nkind (nd s' m) = nkind (nd s3 m)) /\
   stabNum s' = stabNum s3 /\ e = None /\ binds s' = <[b := r6]> (binds s3) /\ norun_ext s6 s').
Proof.
  intros (_ & _ & _ & TK) H. destruct (TK fuel) as [_ Hcp]. rewrite memo_tailx_eq in H.
  apply ebind_inv in H as (t8 & e2 & Hc & Hrest). specialize (Hcp t8 e2 Hc).
  destruct e2 as [x2|].
  { destruct Hrest as [[? _]|(_ & _ & ->)]; [discriminate|]. left. destruct Hcp as [-> | ->]; [left|right]; reflexivity. }
  destruct Hrest as [[_ H]|(Hne & _)]; [|congruence].
  apply ebind_inv in H as (t9 & e3 & Hiv & Hrest).
  apply lift_inv in Hiv as [Hiv ->]. destruct Hrest as [[_ H]|(Hne & _)]; [|congruence].
  apply lift_inv in H as [H ->]. right. injection Hiv as <-.
  destruct Hcp as (P8 & A & B & C & D & E).
  apply propagateInvalidity_nil_inv in H; [|apply (pq_invq t8 (p_pq t8 P8))]. subst s'. auto 10.
Qed.

Lemma tailx_nc fuel s3 s6 b r3 r6 root :
  tail_ok s3 s6 b r3 r6 root -> nocrash (memo_tailx fuel s6 b (b_rhs r3) root).
Proof.
  intros (_ & _ & _ & TK). destruct (TK fuel) as [Hnc Hcp]. rewrite memo_tailx_eq.
  apply nc_ebind; [exact Hnc|]. intros t8 Hc. destruct (Hcp t8 None Hc) as (P8 & _).
  apply nc_ebind; [apply nc_lift, nc_Ok|]. intros t9 Hiv. apply lift_inv in Hiv as [[= <-] _].
  apply nc_lift. destruct fuel as [|k]; [apply nc_fuel|].
  rewrite (propagateInvalidity_nil k t8 (pq_invq t8 (p_pq t8 P8))). apply nc_Ok.
Qed.

Lemma alter_Some_insert {A} (f : A -> A) (m : gmap nat A) b x : m !! b = Some x -> alter f b m = <[b := f x]> m.
Proof.
  intros Hx. apply map_eq. intros k. destruct (decide (k = b)) as [->|Hne].
  - rewrite lookup_alter, lookup_insert, Hx. reflexivity.
  - rewrite lookup_alter_ne, lookup_insert_ne by congruence. reflexivity.
Qed.

Lemma updb_id s b f r : binds s !! b = Some r -> f r = r -> updb s b f = s.
Proof.
  intros Hr Hf. unfold updb. apply state_binds_eta. symmetry. apply map_eq. intros k.
  destruct (decide (k = b)) as [->|Hne]; [rewrite lookup_alter, Hr; simpl; rewrite Hf; reflexivity|].
  rewrite lookup_alter_ne by congruence. reflexivity.
Qed.

Lemma plan_ok_kstable t t' p : kstable t t' -> plan_ok t p = true -> plan_ok t' p = true.
Proof.
  intros Hks. unfold plan_ok. rewrite !forallb_forall. intros H y Hy. specialize (H y Hy).
  destruct y as [[n w] a].
  assert (Hiv : forall v, isVar t v = true -> isVar t' v = true).
  { intros v Hv. apply isVar_true in Hv as [Hhv [e He]]. destruct (Hks v Hhv) as [H1 H2].
    apply (isVar_intro t' v e); [exact H1|]. rewrite H2. exact He. }
  destruct a; auto.
Qed.

Lemma okinM_root own b n0 s r a :
  MStat own b n0 s -> binds s !! b = Some r -> okinM own b s a -> gmu_lt own s a (S b).
Proof.
  intros MS Hr (H1 & H2 & H3 & H4). destruct (ms_b _ _ _ _ MS) as (B1 & B2 & B3 & B4).
  destruct (ms_acyc _ _ _ _ MS) as (O1 & _). pose proof (p_binds s (ms_P _ _ _ _ MS) b r Hr) as W.
  assert (HoS : own (S b) = None).
  { destruct (own (S b)) as [b1|] eqn:Eo; [|reflexivity]. exfalso.
    destruct (O1 (S b) b1 Eo) as (_ & _ & _ & _ & _ & K). rewrite (bw_kind_main _ _ _ W) in K. exact K. }
  assert (HsS : scope (nd s (S b)) = None) by (rewrite (bw_scope _ _ _ W); exact B2).
  intros tq dq tn dn Cq Cn. apply gchain_plain in Cn as [-> ->]; [|exact HsS|exact HoS].
  destruct H4 as [Hlt|Ho].
  - pose proof (gchain_top_le own s (p_scopes s (ms_P _ _ _ _ MS)) O1 a tq dq Cq). left. lia.
  - destruct (gchain_fun _ _ _ _ _ _ _ Cq (gchain_owned own s a b H2 Ho B2 B3)) as [-> ->]. left. lia.
Qed.

(** the two ways into the tail *)
Definition memo_f5 (x : Z) (root : option nid) : bindrec -> bindrec :=
  fun r => r <| b_gen := S (b_gen r) |> <| b_cache := if b_memo r then b_cache r ++ [(x, root)] else b_cache r |>.

Lemma memo_hit_ok s b r0 x root :
  PInv s -> binds s !! b = Some r0 -> b_memo r0 = true -> inGraph (nd s b) = true ->
  (x, root) ∈ b_cache r0 ->
  tail_ok s (updb s b (set b_rhs (fun _ => root))) b r0 (set b_rhs (fun _ => root) r0) root.
Proof.
  intros P Hr0 Hm0 Hg Hi. pose proof (p_binds s P b r0 Hr0) as W0.
  destruct (sc_acyclic s (p_scoping s P)) as (own & O1 & O2 & O3).
  set (r6 := set b_rhs (fun _ : option nid => root) r0).
  set (s6 := updb s b (set b_rhs (fun _ : option nid => root))).
  assert (Hroot : match root with
                  | Some a => has s a /\ scope (nd s a) = None /\ not_lhs (nd s a) /\ gmu_lt own s a (S b)
                  | None => True end).
  { destruct root as [a|]; [|exact Logic.I]. destruct (bw_cache _ _ _ W0 x a Hi) as (A1 & A2 & A3').
    split; [exact A1|]. split; [exact A2|]. split; [|apply (O3 b r0 x a Hr0 Hi)].
    unfold not_lhs. destruct (nkind (nd s a)) eqn:Ek; try exact Logic.I. exact (A3' _ eq_refl). }
  assert (Hb6 : binds s6 = <[b := r6]> (binds s)).
  { unfold s6, updb. cbn. exact (alter_Some_insert (set b_rhs (fun _ : option nid => root)) (binds s) b r0 Hr0). }
  assert (Hf : b_lhs r6 = b_lhs r0 /\ b_lhsChange r6 = b_lhsChange r0 /\ b_main r6 = b_main r0 /\
               b_memo r6 = b_memo r0 /\ b_cases r6 = b_cases r0 /\ b_rhsNodes r6 = b_rhsNodes r0 /\ b_rhs r6 = root)
    by (unfold r6; cbn; repeat split; reflexivity).
  assert (Hcache : forall x0 q, (x0, Some q) ∈ b_cache r6 -> (x0, Some q) ∈ b_cache r0 \/ root = Some q) by (intros x0 q Hq; left; exact Hq).
  assert (Hl : Forall (ev_benign s) []) by constructor.
  eapply (memo_tail_ok own s s6 b r0 r6 root [] P (conj O1 (conj O2 O3)) Hr0 Hm0 Hg Hroot); try reflexivity; assumption.
Qed.

Lemma memo_miss_ok p s b r0 s2 x s3 root :
  PInv s -> plan_ok s p = true -> binds s !! b = Some r0 -> b_memo r0 = true -> inGraph (nd s b) = true ->
  invoke p s b WFn = Ok (s2, None) ->
  inst s2 None x (nth (Z.to_nat (x mod Z.of_nat (length (b_cases r0)))) (b_cases r0) TNil) = (s3, root) ->
  tail_ok s3 (updb (updb (emit (EvBindFn b x root) s3) b (memo_f5 x root)) b (set b_rhs (fun _ => root)))
          b r0 (set b_rhs (fun _ => root) (memo_f5 x root r0)) root /\
  PInv s2 /\ kstable s s3 /\ stabNum s3 = stabNum s /\ binds s3 = binds s /\ log s3 = log s.
Proof.
  intros P Hp Hr0 Hm0 Hg Hinv Hinst.
  pose proof (p_binds s P b r0 Hr0) as W0. destruct (bw_memo _ _ _ W0 Hm0) as (Hrn0 & Hscb & Hnb).
  assert (Hst1 : status s = 1) by apply (pq_status s (p_pq s P)).
  pose proof (invoke_soft p s b WFn s2 None Hst1 Hp Hinv) as S12.
  pose proof (PInv_of_soft s s2 P S12) as P2.
  pose proof (so_struct _ _ S12) as SS.
  assert (Hb2 : binds s2 = binds s) by apply (ss_binds _ _ SS).
  assert (Hr2 : binds s2 !! b = Some r0) by (rewrite Hb2; exact Hr0).
  assert (Hsc2 : scope (nd s2 b) = None).
  { destruct (ss_node _ _ SS b) as (_&_&->&_). exact Hscb. }
  set (case := nth (Z.to_nat (x mod Z.of_nat (length (b_cases r0)))) (b_cases r0) TNil) in *.
  pose proof (p_binds s2 P2 b r0 Hr2) as W2.
  destruct (sc_acyclic s2 (p_scoping s2 P2)) as (own & O1 & O2 & O3).
  assert (MS2 : MStat own b (next s2) s2).
  { constructor; [exact P2|exact (conj O1 (conj O2 O3))| | |lia].
    - intros n Hn Hh. apply (io_lt s2 (p_ids s2 P2)) in Hh. lia.
    - split; [apply (bw_has_lhs _ _ _ W2)|]. split; [exact Hsc2|].
      split; [apply (own_bind_None own s2 b r0 O1 Hr2), (bw_kind_lhs _ _ _ W2)|].
      apply (io_lt s2 (p_ids s2 P2)), (bw_has_main _ _ _ W2). }
  assert (Hcase : texp_wf s2 b true case).
  { unfold case. apply nth_texp_wf. apply (bw_cases _ _ _ W2 b 0%nat). apply chain_top, Hsc2. }
  assert (Hnbc : texp_nobind case = true).
  { unfold case. clear -Hnb. generalize (Z.to_nat (x mod Z.of_nat (length (b_cases r0)))). intros k.
    revert k. induction Hnb as [|c cs Hc _ IH]; intros [|k]; simpl; auto. }
  destruct (MStat_inst b (next s2) x case true own s2 s3 root MS2 Hnbc Hcase Hinst) as (own3 & MS3 & F23 & Oold & Kold & C3).
  destruct F23 as (F1 & F2 & F3 & F4 & F5).
  assert (Hr3 : binds s3 !! b = Some r0) by (rewrite F2; exact Hr2).
  assert (Hgb3 : inGraph (nd s3 b) = true).
  { rewrite (proj2 (F1 b (bw_has_lhs _ _ _ W2))). destruct (ss_node _ _ SS b) as (_&_&_&_&_&_&_&_&_&_&->). exact Hg. }
  set (r6 := set b_rhs (fun _ : option nid => root) (memo_f5 x root r0)).
  set (s6 := updb (updb (emit (EvBindFn b x root) s3) b (memo_f5 x root)) b (set b_rhs (fun _ : option nid => root))).
  assert (Hroot : match root with
                  | Some a => has s3 a /\ scope (nd s3 a) = None /\ not_lhs (nd s3 a) /\ gmu_lt own3 s3 a (S b)
                  | None => True end).
  { destruct root as [a|]; [|exact Logic.I]. pose proof C3 as (A1 & A2 & A3' & _).
    split; [exact A1|]. split; [exact A2|]. split; [exact A3'|apply (okinM_root own3 b (next s2) s3 r0 a MS3 Hr3 C3)]. }
  assert (Hb6 : binds s6 = <[b := r6]> (binds s3)).
  { unfold s6, updb. cbn. rewrite (alter_Some_insert (memo_f5 x root) (binds s3) b r0 Hr3).
    rewrite (alter_Some_insert (set b_rhs (fun _ : option nid => root)) _ b (memo_f5 x root r0)) by apply lookup_insert.
    apply insert_insert. }
  assert (Hf : b_lhs r6 = b_lhs r0 /\ b_lhsChange r6 = b_lhsChange r0 /\ b_main r6 = b_main r0 /\
               b_memo r6 = b_memo r0 /\ b_cases r6 = b_cases r0 /\ b_rhsNodes r6 = b_rhsNodes r0 /\ b_rhs r6 = root)
    by (unfold r6, memo_f5; cbn; repeat split; reflexivity).
  assert (Hcache : forall x0 q, (x0, Some q) ∈ b_cache r6 -> (x0, Some q) ∈ b_cache r0 \/ root = Some q).
  { intros x0 q. unfold r6, memo_f5. cbn. rewrite Hm0, elem_of_app, elem_of_list_singleton.
    intros [Hq|[= _ <-]]; [left; exact Hq|right; reflexivity]. }
  assert (Hl : Forall (ev_benign s3) [EvBindFn b x root]) by (constructor; [exact Hgb3|constructor]).
  split.
  { eapply (memo_tail_ok own3 s3 s6 b r0 r6 root [EvBindFn b x root] (ms_P _ _ _ _ MS3) (ms_acyc _ _ _ _ MS3) Hr3 Hm0 Hgb3 Hroot);
      try reflexivity; assumption. }
  split; [exact P2|]. split.
  { intros m Hhm. pose proof (proj2 (ss_has _ _ SS m) Hhm) as H2. destruct (F1 m H2) as [H3 E3].
    split; [exact H3|]. rewrite E3. apply (ss_node _ _ SS m). }
  split; [rewrite F3; apply (so_stabNum _ _ S12)|]. split; [rewrite F2; exact Hb2|].
  rewrite F4. apply (invoke_log_none p s b WFn s2 Hinv).
Qed.

(** the normal form of a memoized bind's recomputation *)
Lemma bindLhs_memo_eq fuel p s b r0 :
  binds s !! b = Some r0 -> bind_wf s b r0 -> b_memo r0 = true ->
  bindLhsStabilize fuel p s b =
  let x := valueOf s (b_lhs r0) in
  match list_find (fun kv : Z * option nid => kv.1 = x) (b_cache r0) with
  | Some (_, (_, root)) => memo_tailx fuel (updb s b (set b_rhs (fun _ => root))) b (b_rhs r0) root
  | None =>
    '(s2, e1) <-! invoke p s b WFn;
    match e1 with
    | Some e0 => fail (updb s2 b (set b_rhsNodes (fun _ => []))) e0
    | None =>
      let '(s3, root) := inst s2 (scope (nd s2 b)) x
                           (nth (Z.to_nat (x mod Z.of_nat (length (b_cases r0)))) (b_cases r0) TNil) in
      memo_tailx fuel (updb (updb (emit (EvBindFn b x root) s3) b (memo_f5 x root)) b (set b_rhs (fun _ => root)))
                 b (b_rhs r0) root
    end
  end.
Proof.
  intros Hr0 W0 Hm0.
  assert (Hbd : bd s b = r0) by (unfold bd; rewrite Hr0; reflexivity).
  destruct (bw_memo _ _ _ W0 Hm0) as (Hrn0 & Hscb & Hnb).
  unfold bindLhsStabilize. rewrite Hbd. rewrite Hm0, (bw_main _ _ _ W0).
  cbv zeta. cbv iota.
  assert (Es1 : updb s b (set b_rhsNodes (fun _ : list nid => [])) = s).
  { apply (updb_id s b _ r0 Hr0). destruct r0; cbn in Hrn0; subst; reflexivity. }
  rewrite Es1, Hrn0.
  destruct (list_find _ (b_cache r0)) as [[i [x' root]]|]; [reflexivity|].
  destruct (invoke p s b WFn) as [[s2 [e0|]]| |]; simpl; try reflexivity.
  destruct (inst s2 _ _ _) as [s3 root]. reflexivity.
Qed.

(* the record of the bind after a successful recomputation, and what was logged *)
Definition memo_post (s : state) (b : nat) (r0 : bindrec) (s' : state) : Prop :=
  let x := valueOf s (b_lhs r0) in
  match list_find (fun kv : Z * option nid => kv.1 = x) (b_cache r0) with
  | Some (_, (_, root)) =>
    (* cache hit: the cached root, the record otherwise unchanged, no function ran *)
    binds s' = <[b := set b_rhs (fun _ => root) r0]> (binds s) /\ norun_ext s s'
  | None =>
    (* cache miss: the function ran once and its root was appended to the cache *)
    exists root l2,
      binds s' = <[b := set b_rhs (fun _ => root) (r0 <| b_gen := S (b_gen r0) |> <| b_cache := b_cache r0 ++ [(x, root)] |>)]> (binds s) /\
      log s' = l2 ++ EvBindFn b x root :: log s /\ Forall (fun ev => ev_runs ev = None) l2
  end.

Theorem bind_full_memo_strong fuel p s b s' e :
  PInv s -> plan_ok s p = true -> nkind (nd s b) = KBindLhs b -> inGraph (nd s b) = true ->
  b_memo (bd s b) = true ->
  bindLhsStabilize fuel p s b = Ok (s', e) ->
  rejected_err e \/
  (PInv s' /\ plan_ok s' p = true /\ stabNum s' = stabNum s /\ kstable s s' /\
   (e = None \/ ((e = Some (EUser b) \/ e = Some (EPanic b)) /\ exists k, AFail k ∈ actions_of p b WFn)) /\
   (e = None -> memo_post s b (bd s b) s')).
Proof.
  intros P Hp Hk Hg Hm H.
  pose proof (p_kinds s P b (has_inGraph s b Hg)) as K. rewrite Hk in K. destruct K as [_ [r0 Hr0]].
  pose proof (p_binds s P b r0 Hr0) as W0.
  assert (Hbd : bd s b = r0) by (unfold bd; rewrite Hr0; reflexivity).
  rewrite Hbd in *.
  destruct (bw_memo _ _ _ W0 Hm) as (Hrn0 & Hscb & Hnb).
  rewrite (bindLhs_memo_eq fuel p s b r0 Hr0 W0 Hm) in H. cbv zeta in H. unfold memo_post.
  set (x := valueOf s (b_lhs r0)) in *.
  destruct (list_find (fun kv : Z * option nat => kv.1 = x) (b_cache r0)) as [[i [x' root]]|] eqn:Ef.
  - (* cache hit *)
    apply list_find_Some in Ef as (Hi & Hx' & _). simpl in Hx'. subst x'.
    apply elem_of_list_lookup_2 in Hi.
    pose proof (memo_hit_ok s b r0 x root P Hr0 Hm Hg Hi) as TK.
    destruct (tailx_full fuel _ _ _ _ _ _ s' e TK H) as [Hrej|(P8 & A & B & C & -> & D & E)]; [left; exact Hrej|].
    right. split; [exact P8|].
    assert (Hks : kstable s s') by (intros m Hhm; split; [apply A, Hhm|apply B]).
    split; [apply (plan_ok_kstable s s' p Hks Hp)|]. split; [exact C|]. split; [exact Hks|]. split; [left; reflexivity|].
    intros _. split; [exact D|]. exact E.
  - (* cache miss *)
    apply rbind_ok in H as ([s2 e1] & Hinv & H).
    destruct e1 as [x1|].
    + apply fail_inv in H as [-> ->]. right.
      assert (Hst1 : status s = 1) by apply (pq_status s (p_pq s P)).
      pose proof (invoke_soft p s b WFn s2 (Some x1) Hst1 Hp Hinv) as S12.
      pose proof (so_struct _ _ S12) as SS.
      assert (Hr2 : binds s2 !! b = Some r0) by (rewrite (ss_binds _ _ SS); exact Hr0).
      rewrite (updb_id s2 b _ r0 Hr2) by (destruct r0; cbn in Hrn0; subst; reflexivity).
      split; [exact (PInv_of_soft s s2 P S12)|]. split; [apply (plan_ok_struct s _ p SS Hp)|].
      split; [apply (so_stabNum _ _ S12)|]. split; [apply kstable_struct, SS|]. split; [|discriminate].
      right. destruct (invoke_fault p s b WFn s2 x1 Hinv) as [[-> | ->] Hf]; (split; [auto|exact Hf]).
    + assert (Hsc2 : scope (nd s2 b) = None).
      { assert (Hst1 : status s = 1) by apply (pq_status s (p_pq s P)).
        destruct (ss_node _ _ (so_struct _ _ (invoke_soft p s b WFn s2 None Hst1 Hp Hinv)) b) as (_&_&->&_). exact Hscb. }
      rewrite Hsc2 in H.
      destruct (inst s2 None x (nth (Z.to_nat (x mod Z.of_nat (length (b_cases r0)))) (b_cases r0) TNil)) as [s3 root] eqn:Hinst.
      destruct (memo_miss_ok p s b r0 s2 x s3 root P Hp Hr0 Hm Hg Hinv Hinst) as (TK & P2 & K3 & St3 & B3 & L3).
      destruct (tailx_full fuel _ _ _ _ _ _ s' e TK H) as [Hrej|(P8 & A & B & C & -> & D & E)]; [left; exact Hrej|].
      right. split; [exact P8|].
      assert (Hks : kstable s s').
      { intros m Hhm. destruct (K3 m Hhm) as [H3 E3]. split; [apply A, H3|]. rewrite B. exact E3. }
      split; [apply (plan_ok_kstable s s' p Hks Hp)|]. split; [rewrite C; exact St3|]. split; [exact Hks|]. split; [left; reflexivity|].
      intros _. exists root. destruct E as (l2 & El & Fl). exists l2. split; [|split; [|exact Fl]].
      * rewrite D, B3. unfold memo_f5. rewrite Hm. reflexivity.
      * rewrite El. cbn. rewrite L3. reflexivity.
Qed.

Theorem bind_full_memo fuel p s b s' e :
  PInv s -> plan_ok s p = true -> nkind (nd s b) = KBindLhs b -> inGraph (nd s b) = true ->
  b_memo (bd s b) = true ->
  bindLhsStabilize fuel p s b = Ok (s', e) ->
  rejected_err e \/
  (PInv s' /\ plan_ok s' p = true /\ stabNum s' = stabNum s /\ kstable s s' /\
   (e = None \/ ((e = Some (EUser b) \/ e = Some (EPanic b)) /\ exists k, AFail k ∈ actions_of p b WFn))).
Proof.
  intros P Hp Hk Hg Hm H.
  destruct (bind_full_memo_strong fuel p s b s' e P Hp Hk Hg Hm H) as [Hr|(A & B & C & D & E & _)]; [left; exact Hr|right; auto].
Qed.

Theorem nc_bind_memo fuel p s b :
  PInv s -> plan_ok s p = true -> nkind (nd s b) = KBindLhs b -> inGraph (nd s b) = true ->
  b_memo (bd s b) = true ->
  nocrash (bindLhsStabilize fuel p s b).
Proof.
  intros P Hp Hk Hg Hm.
  pose proof (p_kinds s P b (has_inGraph s b Hg)) as K. rewrite Hk in K. destruct K as [_ [r0 Hr0]].
  pose proof (p_binds s P b r0 Hr0) as W0.
  assert (Hbd : bd s b = r0) by (unfold bd; rewrite Hr0; reflexivity).
  rewrite Hbd in *.
  destruct (bw_memo _ _ _ W0 Hm) as (Hrn0 & Hscb & Hnb).
  rewrite (bindLhs_memo_eq fuel p s b r0 Hr0 W0 Hm). cbv zeta.
  set (x := valueOf s (b_lhs r0)) in *.
  destruct (list_find (fun kv : Z * option nat => kv.1 = x) (b_cache r0)) as [[i [x' root]]|] eqn:Ef.
  - apply list_find_Some in Ef as (Hi & Hx' & _). simpl in Hx'. subst x'.
    apply elem_of_list_lookup_2 in Hi.
    apply (tailx_nc fuel _ _ _ _ _ _ (memo_hit_ok s b r0 x root P Hr0 Hm Hg Hi)).
  - destruct (PInv_hreg s P) as [Hr Hkp].
    apply nc_rbind; [apply (nc_invoke p s b WFn); [exact Hr|exact Hkp]|].
    intros [s2 e1] Hinv. destruct e1 as [x1|]; [apply nc_Ok|].
    assert (Hsc2 : scope (nd s2 b) = None).
    { assert (Hst1 : status s = 1) by apply (pq_status s (p_pq s P)).
      destruct (ss_node _ _ (so_struct _ _ (invoke_soft p s b WFn s2 None Hst1 Hp Hinv)) b) as (_&_&->&_). exact Hscb. }
    rewrite Hsc2.
    destruct (inst s2 None x (nth (Z.to_nat (x mod Z.of_nat (length (b_cases r0)))) (b_cases r0) TNil)) as [s3 root] eqn:Hinst.
    destruct (memo_miss_ok p s b r0 s2 x s3 root P Hp Hr0 Hm Hg Hinv Hinst) as (TK & _).
    apply (tailx_nc fuel _ _ _ _ _ _ TK).
Qed.

Theorem nc_bind fuel p s b :
  PInv s -> plan_ok s p = true -> nkind (nd s b) = KBindLhs b -> inGraph (nd s b) = true ->
  nocrash (bindLhsStabilize fuel p s b).
Proof.
  intros P Hp Hk Hg. destruct (b_memo (bd s b)) eqn:Em.
  - apply (nc_bind_memo fuel p s b P Hp Hk Hg Em).
  - apply (nc_bind_nomemo fuel p s b P Hp Hk Hg Em).
Qed.

Theorem bind_full fuel p s b s' e :
  PInv s -> plan_ok s p = true -> nkind (nd s b) = KBindLhs b -> inGraph (nd s b) = true ->
  bindLhsStabilize fuel p s b = Ok (s', e) ->
  rejected_err e \/
  (PInv s' /\ plan_ok s' p = true /\ stabNum s' = stabNum s /\ kstable s s' /\
   (e = None \/ ((e = Some (EUser b) \/ e = Some (EPanic b)) /\ exists k, AFail k ∈ actions_of p b WFn))).
Proof.
  intros P Hp Hk Hg H. destruct (b_memo (bd s b)) eqn:Em.
  - apply (bind_full_memo fuel p s b s' e P Hp Hk Hg Em H).
  - destruct (bind_full_nomemo fuel p s b s' e P Hp Hk Hg Em H) as [Hr|(A & B & C & D & E & _)]; [left; exact Hr|right; auto].
Qed.

Theorem bind_spec_holds : bind_spec (fun _ => True).
Proof.
  intros fuel p s b s' e _ P Hp Hk Hg H.
  destruct (bind_full fuel p s b s' e P Hp Hk Hg H) as [Hr|(A & B & C & _)]; [left; exact Hr|right; auto].
Qed.

(* [bind_spec] for every predicate that only depends on the static part of the old nodes *)
Definition kclosed (Q : state -> Prop) : Prop := forall s s', kstable s s' -> Q s -> Q s'.

Lemma bind_spec_kclosed Q : kclosed Q -> bind_spec Q.
Proof.
  intros HQ fuel p s b s' e Hq P Hp Hk Hg H.
  destruct (bind_full fuel p s b s' e P Hp Hk Hg H) as [Hr|(A & B & C & D & _)]; [left; exact Hr|right].
  split; [exact A|]. split; [exact B|]. split; [exact C|apply (HQ s s' D Hq)].
Qed.

(** * ParallelStabilize: the same recomputations, one height block at a time *)

(* nodes other than lhs-change nodes are never rejected *)
Lemma stabilizeNode_norej fuel p s n s' e :
  (forall b, nkind (nd s n) <> KBindLhs b) -> stabilizeNode fuel p s n = Ok (s', e) -> ~ rejected_err e.
Proof.
  intros Hk H. unfold stabilizeNode in H.
  assert (Hinv : forall s1 e1 (k : state -> M),
            invoke p s n WFn = Ok (s1, e1) ->
            match e1 with Some e0 => fail s1 e0 | None => k s1 end = Ok (s', e) ->
            (forall st, k st = Ok (s', e) -> e = None) -> ~ rejected_err e).
  { intros s1 e1 k H1 H2 Hk'. destruct e1 as [e0|].
    - apply fail_inv in H2 as [_ ->]. destruct (invoke_fault p s n WFn s1 e0 H1) as [[-> | ->] _]; intros [?|?]; discriminate.
    - rewrite (Hk' s1 H2). intros [?|?]; discriminate. }
  assert (Hok : forall st, ok st = Ok (s', e) -> ~ rejected_err e).
  { intros st [_ ->]%ok_inv. intros [?|?]; discriminate. }
  destruct (nkind (nd s n)) as [eqv| |f|f|f|c| |b|b] eqn:Ek.
  - destruct (pending (nd s n)); [destruct (_ =? _)|]; apply (Hok _ H).
  - apply (Hok _ H).
  - apply rbind_ok in H as ([s1 e1] & H1 & H2).
    apply (Hinv s1 e1 (fun s1 => ok (emit (EvInvoked n [valueOf s (hd 0%nat (decl (nd s n)))] (ap1 f (valueOf s (hd 0%nat (decl (nd s n)))))) (upd s1 n (set value (fun _ => ap1 f (valueOf s (hd 0%nat (decl (nd s n))))))))) H1 H2).
    intros st [_ ->]%ok_inv. reflexivity.
  - apply rbind_ok in H as ([s1 e1] & H1 & H2).
    apply (Hinv s1 e1 (fun s1 => ok (emit (EvInvoked n [valueOf s (nth 0 (decl (nd s n)) 0%nat); valueOf s (nth 1 (decl (nd s n)) 0%nat)] (ap2 f (valueOf s (nth 0 (decl (nd s n)) 0%nat)) (valueOf s (nth 1 (decl (nd s n)) 0%nat)))) (upd s1 n (set value (fun _ => ap2 f (valueOf s (nth 0 (decl (nd s n)) 0%nat)) (valueOf s (nth 1 (decl (nd s n)) 0%nat))))))) H1 H2).
    intros st [_ ->]%ok_inv. reflexivity.
  - apply rbind_ok in H as ([s1 e1] & H1 & H2).
    apply (Hinv s1 e1 (fun s1 => ok (emit (EvInvoked n (map (valueOf s) (decl (nd s n))) (apN f (map (valueOf s) (decl (nd s n))))) (upd s1 n (set value (fun _ => apN f (map (valueOf s) (decl (nd s n)))))))) H1 H2).
    intros st [_ ->]%ok_inv. reflexivity.
  - apply (Hok _ H).
  - apply (Hok _ H).
  - exfalso. apply (Hk b). reflexivity.
  - apply (Hok _ H).
Qed.

Lemma par_children_soft l : forall s s',
  rfold (fun s c => if shouldRecomputeChild s c then heapAdd s c else Ok s) l s = Ok s' -> soft s s'.
Proof.
  induction l as [|c l IH]; intros s s' H; simpl in H; [injection H as <-; apply soft_refl|].
  apply rbind_ok in H as (s1 & H1 & H). eapply soft_trans; [|apply IH, H].
  destruct (shouldRecomputeChild s c) eqn:E; [|injection H1 as <-; apply soft_refl].
  apply (soft_heapAdd s c s1); [|exact H1].
  unfold shouldRecomputeChild in E. destruct (inHeap s c); [discriminate|reflexivity].
Qed.

Section parnode.
  Context (Q : state -> Prop) (HQ : forall s s', same_struct s s' -> Q s -> Q s') (HB : bind_spec Q).

  Lemma recomputeNodeParallel_spec fuel p s n s' e :
    Q s -> PInv s -> plan_ok s p = true -> inGraph (nd s n) = true ->
    recomputeNodeParallel fuel p s n = Ok (s', e) ->
    (rejected_err e \/ pass_ok Q p s s') /\
    ((forall b, nkind (nd s n) <> KBindLhs b) -> ~ rejected_err e).
  Proof.
    intros Hq P Hp Hg H. unfold recomputeNodeParallel in H.
    assert (Hst : status s = 1) by apply (pq_status s (p_pq s P)).
    set (prev := recomputedAt (nd s n)) in *.
    assert (Hprev : 0 <= prev <= stabNum s) by apply (st_le s (p_stamps s P) n).
    set (s1 := upd s n (set recomputedAt (fun _ => stabNum s))) in *.
    assert (S1 : soft s s1).
    { apply soft_upd; intros x; [repeat split|]. intros Hk (A & B & C). repeat split; cbn; try lia; apply B || apply C. }
    assert (K0 : pass_ok Q p s s) by (split; [exact P|split; [exact Hp|split; [reflexivity|exact Hq]]]).
    assert (Hreg : forall st, soft s st -> inGraph (nd st n) = true).
    { intros st S. destruct (ss_node _ _ (so_struct _ _ S) n) as (_&_&_&_&_&_&_&_&_&_&->). exact Hg. }
    apply rbind_ok in H as ([[s2 e2] cut] & H2 & H).
    assert (C2 : soft s s2 /\ ~ rejected_err e2).
    { destruct (nkind (nd s n)) as [| | | | |c| | |] eqn:Ek; try (injection H2 as <- <- <-; split; [exact S1|intros [?|?]; discriminate]).
      apply rbind_ok in H2 as ([s3 e3] & H3 & H2).
      assert (Hst1 : status s1 = 1) by (rewrite (so_status _ _ S1); exact Hst).
      pose proof (invoke_soft p s1 n WCut s3 e3 Hst1 (plan_ok_struct s s1 p (so_struct _ _ S1) Hp) H3) as S3.
      assert (He3 : ~ rejected_err e3).
      { destruct e3 as [x|]; [|intros [?|?]; discriminate].
        destruct (invoke_fault p s1 n WCut s3 x H3) as [[-> | ->] _]; intros [?|?]; discriminate. }
      destruct e3 as [e0|]; injection H2 as <- <- <-.
      - split; [eapply soft_trans; eauto|exact He3].
      - split; [|intros [?|?]; discriminate]. eapply soft_trans; [exact S1|]. eapply soft_trans; [exact S3|].
        apply soft_emit. simpl. apply Hreg. eapply soft_trans; eauto. }
    destruct C2 as [S2 He2].
    (* failing: restore the stamp, queue again, run the error handlers *)
    assert (Fail : forall st e0 st', pass_ok Q p s st ->
               (s0 <-! recomputeFailed st n prev; Ok (errorHandlers s0 n, Some e0)) = Ok (st', e) ->
               pass_ok Q p s st' /\ e = Some e0).
    { intros st e0 st' K HF. apply rbind_ok in HF as (s0 & H0 & [= <- <-]).
      destruct K as (K1 & K2 & K3 & K4).
      split; [|reflexivity]. apply (pass_ok_soft Q HQ p s st); [split; auto|].
      eapply soft_trans; [apply (recomputeFailed_soft Q HQ st n prev s0); [rewrite K3; exact Hprev|exact H0]|apply soft_errorHandlers]. }
    (* a panic: the worker's recover *)
    assert (Panic : forall st m st', pass_ok Q p s st ->
               (s0 <-! heapAddIfNotPresent (upd st n (set recomputedAt (fun _ => 0))) n; Ok (errorHandlers s0 n, Some (EPanic m))) = Ok (st', e) ->
               pass_ok Q p s st' /\ e = Some (EPanic m)).
    { intros st m st' K HF. apply rbind_ok in HF as (s0 & H0 & [= <- <-]).
      split; [|reflexivity]. apply (pass_ok_soft Q HQ p s st); [exact K|].
      eapply soft_trans; [|eapply soft_trans; [apply (soft_heapAddIfNotPresent _ _ _ H0)|apply soft_errorHandlers]].
      apply soft_upd; intros x; [repeat split|]. intros Hk (A & B & C). repeat split; cbn; try lia; apply B || apply C. }
    assert (Nrej : forall x, e = Some (EUser x) \/ e = Some (EPanic x) -> ~ rejected_err e).
    { intros x [-> | ->] [?|?]; discriminate. }
    pose proof (pass_ok_soft Q HQ p s s s2 K0 S2) as K2.
    destruct e2 as [e0|].
    { destruct e0 as [| |x|x| | |]; try (exfalso; apply He2; unfold rejected_err; auto; fail).
      - destruct (Fail s2 _ s' K2 H) as [K ->]. split; [right; exact K|intros _ [?|?]; discriminate].
      - destruct (Panic s2 _ s' K2 H) as [K ->]. split; [right; exact K|intros _ [?|?]; discriminate].
      - destruct (Fail s2 _ s' K2 H) as [K ->]. split; [right; exact K|intros _ [?|?]; discriminate].
      - destruct (Fail s2 _ s' K2 H) as [K ->]. split; [right; exact K|intros _ [?|?]; discriminate].
      - destruct (Fail s2 _ s' K2 H) as [K ->]. split; [right; exact K|intros _ [?|?]; discriminate]. }
    destruct cut.
    { injection H as <- <-. split; [right; exact K2|intros _ [?|?]; discriminate]. }
    apply rbind_ok in H as ([s3 e3] & H3 & H).
    destruct K2 as (P2 & Hp2 & Hn2 & Hq2).
    assert (Hk2 : nkind (nd s2 n) = nkind (nd s n)) by apply (ss_node _ _ (so_struct _ _ S2) n).
    assert (Hnr3 : (forall b, nkind (nd s n) <> KBindLhs b) -> ~ rejected_err e3).
    { intros Hk. apply (stabilizeNode_norej fuel p s2 n s3 e3); [intros b; rewrite Hk2; apply Hk|exact H3]. }
    destruct (stabilizeNode_spec Q HQ HB fuel p s2 n s3 e3 Hq2 P2 Hp2 (Hreg s2 S2) H3) as [Hrej|(P3 & Hp3 & Hn3 & Hq3)].
    { destruct Hrej as [-> | ->]; apply rbind_ok in H as (s0 & _ & [= _ <-]);
        (split; [left; unfold rejected_err; auto|intros Hk; exfalso; apply (Hnr3 Hk); unfold rejected_err; auto]). }
    assert (K3 : pass_ok Q p s s3) by (split; [exact P3|split; [exact Hp3|split; [congruence|exact Hq3]]]).
    destruct e3 as [e0|].
    { destruct e0 as [| |x|x| | |].
      - destruct (Fail s3 _ s' K3 H) as [K ->]. split; [right; exact K|intros Hk; exact (Hnr3 Hk)].
      - destruct (Fail s3 _ s' K3 H) as [K ->]. split; [right; exact K|intros Hk; exact (Hnr3 Hk)].
      - destruct (Fail s3 _ s' K3 H) as [K ->]. split; [right; exact K|intros _ [?|?]; discriminate].
      - destruct (Panic s3 _ s' K3 H) as [K ->]. split; [right; exact K|intros _ [?|?]; discriminate].
      - destruct (Fail s3 _ s' K3 H) as [K ->]. split; [right; exact K|intros _ [?|?]; discriminate].
      - destruct (Fail s3 _ s' K3 H) as [K ->]. split; [right; exact K|intros _ [?|?]; discriminate].
      - destruct (Fail s3 _ s' K3 H) as [K ->]. split; [right; exact K|intros _ [?|?]; discriminate]. }
    (* success: stamp, handlers, children *)
    set (s4 := insert_handler n (upd s3 n (set changedAt (fun _ => stabNum s3)))) in *.
    assert (S4 : soft s3 s4).
    { eapply soft_trans; [|apply soft_handlers].
      apply soft_upd; intros x; [repeat split|]. intros Hk (A & B & C). repeat split; cbn; try lia; apply A || apply C. }
    apply rbind_ok in H as (s5 & H5 & [= <- <-]).
    pose proof (par_children_soft _ _ _ H5) as S5.
    split; [right|intros _ [?|?]; discriminate].
    apply (pass_ok_soft Q HQ p s s3 _ K3).
    eapply soft_trans; [exact S4|]. eapply soft_trans; [exact S5|apply soft_insert_handlers].
  Qed.
End parnode.

Lemma bind_spec_and_k Q sb : bind_spec Q -> bind_spec (fun s => Q s /\ kstable sb s).
Proof.
  intros HB fuel p s b s' e [Hq Hk0] P Hp Hk Hg H.
  destruct (HB fuel p s b s' e Hq P Hp Hk Hg H) as [Hr|(A & B & C & D)]; [left; exact Hr|].
  destruct (bind_full fuel p s b s' e P Hp Hk Hg H) as [Hr|(_ & _ & _ & K & _)]; [left; exact Hr|right].
  split; [exact A|]. split; [exact B|]. split; [exact C|]. split; [exact D|apply (kstable_trans sb s s' Hk0 K)].
Qed.

Definition blockStep (fuel : nat) (p : plan) (acc : state * option err * list nid)
  : nid -> res (state * option err * list nid) :=
  let '(s, e, always) := acc in fun n =>
  if height (nd s n) =? unset then Ok (s, e, always) else
  '(s', e') <-! recomputeNodeParallel fuel p s n;
  let always := if isAlways (nkind (nd s' n)) then always ++ [n] else always in
  Ok (s', match e with Some _ => e | None => e' end, always).

Lemma parLoop_S fuel p s always :
  parLoop (S fuel) p s always =
    if Heap.cnt (heap s) <=? 0 then Ok (s, None, always) else
    let '(block, w) := Heap.takeMinBlock (heap s) in
    let sb := s <| heap := w |> in
    let isLhs n := match nkind (nd sb n) with KBindLhs _ => true | _ => false end in
    '(s2, e, always) <-!
       rfold (blockStep fuel p)
             (filter (fun n => isLhs n = true) block ++ filter (fun n => isLhs n = false) block) (sb, None, always);
    match e with
    | Some _ => Ok (s2, e, always)
    | None => parLoop fuel p s2 always
    end.
Proof. reflexivity. Qed.

Section parloop.
  Context (Q0 : state -> Prop) (HQ0 : forall s s', same_struct s s' -> Q0 s -> Q0 s') (HB0 : bind_spec Q0).
  Context (bad : option err -> Prop) (Hbad0 : ~ bad None).
  Context (p : plan) (s0 : state).
  (* an lhs-change node either succeeds or ends the pass with a bad error *)
  Hypothesis Hlhs : forall fuel st b st' e',
    pass_ok Q0 p s0 st -> nkind (nd st b) = KBindLhs b -> inGraph (nd st b) = true ->
    recomputeNodeParallel fuel p st b = Ok (st', e') -> e' = None \/ bad e'.

  Definition Qb (sb : state) : state -> Prop := fun s => Q0 s /\ kstable sb s.

  Local Lemma HQb sb : forall s s', same_struct s s' -> Qb sb s -> Qb sb s'.
  Proof.
    intros s s' SS [A B]. split; [apply (HQ0 s s' SS A)|apply (kstable_trans sb s s' B), kstable_struct, SS].
  Qed.

  Local Lemma HBb sb : bind_spec (Qb sb).
  Proof. apply bind_spec_and_k, HB0. Qed.

  Local Lemma pass_ok_weaken sb st : pass_ok (Qb sb) p s0 st -> pass_ok Q0 p s0 st.
  Proof. intros (A & B & C & [D _]). split; [exact A|split; [exact B|split; [exact C|exact D]]]. Qed.

  Notation blockStep fuel := (blockStep fuel p).

  (* one node of a block, from a good state *)
  Local Lemma block_node fuel sb st n st' e' :
    pass_ok (Qb sb) p s0 st -> has sb n -> height (nd st n) <> unset ->
    recomputeNodeParallel fuel p st n = Ok (st', e') ->
    inGraph (nd st n) = true /\ nkind (nd st n) = nkind (nd sb n) /\
    (rejected_err e' \/ pass_ok (Qb sb) p s0 st') /\
    ((forall b, nkind (nd sb n) <> KBindLhs b) -> ~ rejected_err e').
  Proof.
    intros (P & Hp & Hn & Hq) Hhn Hh H.
    assert (Hg : inGraph (nd st n) = true).
    { apply (Inv_hreg st (t_zero _ _ _ (p_t st P)) (t_height _ _ _ (p_t st P)) n Hh). }
    assert (Hk : nkind (nd st n) = nkind (nd sb n)) by apply (proj2 Hq n Hhn).
    split; [exact Hg|]. split; [exact Hk|].
    destruct (recomputeNodeParallel_spec (Qb sb) (HQb sb) (HBb sb) fuel p st n st' e' Hq P Hp Hg H) as [A B].
    split; [|intros Hnl; apply B; intros b; rewrite Hk; apply Hnl].
    destruct A as [A|(A1 & A2 & A3 & A4)]; [left; exact A|right].
    split; [exact A1|split; [exact A2|split; [congruence|exact A4]]].
  Qed.

  Definition I1 (sb : state) (acc : state * option err * list nid) : Prop :=
    bad acc.1.2 \/ (pass_ok (Qb sb) p s0 acc.1.1 /\ acc.1.2 = None).
  Definition I2 (sb : state) (acc : state * option err * list nid) : Prop :=
    bad acc.1.2 \/ pass_ok (Qb sb) p s0 acc.1.1.

  Local Lemma bad_some e : bad e -> exists x, e = Some x.
  Proof. destruct e; [eauto|]. intros H. destruct (Hbad0 H). Qed.

  Lemma phase1 fuel sb : forall l acc acc',
    (forall m, m ∈ l -> has sb m /\ exists b, nkind (nd sb m) = KBindLhs b) ->
    I1 sb acc -> rfold (blockStep fuel) l acc = Ok acc' -> I1 sb acc'.
  Proof.
    induction l as [|m l IH]; intros acc acc' Hl HI H; simpl in H; [injection H as <-; exact HI|].
    apply rbind_ok in H as (acc1 & H1 & H). apply (IH acc1 acc'); [intros m' Hm'; apply Hl; right; exact Hm'| |exact H].
    clear H IH. destruct acc as [[st e] al]. unfold blockStep in H1.
    destruct (Z.eqb_spec (height (nd st m)) unset) as [Hu|Hu]; [injection H1 as <-; exact HI|].
    apply rbind_ok in H1 as ([st' e'] & Hr & [= <-]). unfold I1 in *. cbn [fst snd] in *.
    destruct HI as [Hb|[K ->]].
    { left. destruct (bad_some e Hb) as [x ->]. exact Hb. }
    destruct (Hl m ltac:(left)) as [Hhm [b Hkb]].
    destruct (block_node fuel sb st m st' e' K Hhm Hu Hr) as (Hg & Hk & A & _).
    assert (Hkm : nkind (nd st m) = KBindLhs m).
    { rewrite Hk, Hkb. destruct K as (P & _). pose proof (p_kinds st P m (has_inGraph st m Hg)) as Kk.
      rewrite Hk, Hkb in Kk. destruct Kk as [-> _]. reflexivity. }
    destruct (Hlhs fuel st m st' e' (pass_ok_weaken sb st K) Hkm Hg Hr) as [->|Hb]; [|left; exact Hb].
    destruct A as [[?|?]|A]; [discriminate|discriminate|]. right. auto.
  Qed.

  Lemma phase2 fuel sb : forall l acc acc',
    (forall m, m ∈ l -> has sb m /\ forall b, nkind (nd sb m) <> KBindLhs b) ->
    I2 sb acc -> rfold (blockStep fuel) l acc = Ok acc' -> I2 sb acc'.
  Proof.
    induction l as [|m l IH]; intros acc acc' Hl HI H; simpl in H; [injection H as <-; exact HI|].
    apply rbind_ok in H as (acc1 & H1 & H). apply (IH acc1 acc'); [intros m' Hm'; apply Hl; right; exact Hm'| |exact H].
    clear H IH. destruct acc as [[st e] al]. unfold blockStep in H1.
    destruct (Z.eqb_spec (height (nd st m)) unset) as [Hu|Hu]; [injection H1 as <-; exact HI|].
    apply rbind_ok in H1 as ([st' e'] & Hr & [= <-]). unfold I2 in *. cbn [fst snd] in *.
    destruct HI as [Hb|K].
    { left. destruct (bad_some e Hb) as [x ->]. exact Hb. }
    destruct (Hl m ltac:(left)) as [Hhm Hnl].
    destruct (block_node fuel sb st m st' e' K Hhm Hu Hr) as (_ & _ & A & Hnr).
    destruct A as [A|A]; [|right; exact A]. destruct (Hnr Hnl A).
  Qed.

  Lemma parLoop_spec fuel : forall s always s' e always',
    pass_ok Q0 p s0 s -> parLoop fuel p s always = Ok (s', e, always') ->
    bad e \/ pass_ok Q0 p s0 s'.
  Proof.
    induction fuel as [|fuel IH]; intros s always s' e always' K H; [discriminate|].
    rewrite parLoop_S in H. destruct (Heap.cnt (heap s) <=? 0); [injection H as <- <- _; right; exact K|].
    destruct (Heap.takeMinBlock (heap s)) as [block w] eqn:Etb. cbv zeta in H.
    set (sb := s <| heap := w |>) in *.
    destruct K as (P & Hp & Hn & Hq).
    destruct (t_heap _ _ _ (p_t s P)) as [Hi Hqd].
    destruct (takeMinBlock_spec (heap s) block w Hi Etb) as (Hi' & Pm & Hin).
    assert (S1 : soft s sb).
    { apply soft_only_heap; [apply only_heap_set|]. intros _ _. split; [exact Hi'|].
      intros m Hm. assert (Hm' : m ∈ Heap.ids (heap s)) by (rewrite Pm; apply elem_of_app; right; exact Hm).
      destruct (Hqd m Hm') as [A B]. split; [exact A|]. cbn. rewrite Hin.
      pose proof (inv_nodup _ (hinv_inv _ Hi)) as Hnd. rewrite Pm in Hnd.
      apply NoDup_app in Hnd as (_ & Hdis & _).
      rewrite bool_decide_false by (intros Hx; apply (Hdis m Hx Hm)). exact B. }
    assert (Kb : pass_ok (Qb sb) p s0 sb).
    { destruct (pass_ok_soft Q0 HQ0 p s s sb ltac:(split; [exact P|split; [exact Hp|split; [reflexivity|exact Hq]]]) S1) as (A & B & C & D).
      split; [exact A|split; [exact B|split; [congruence|split; [exact D|apply kstable_refl]]]]. }
    assert (Hblock : forall m, m ∈ block -> has sb m).
    { intros m Hm. assert (Hm' : m ∈ Heap.ids (heap s)) by (rewrite Pm; apply elem_of_app; left; exact Hm).
      destruct (Hqd m Hm') as [A _]. apply (has_inGraph s m A). }
    set (isLhs := fun n : nid => match nkind (nd sb n) with KBindLhs _ => true | _ => false end) in *.
    apply rbind_ok in H as ([[s2 e2] always2] & H2 & H).
    rewrite rfold_app in H2. apply rbind_ok in H2 as (acc1 & H21 & H22).
    assert (J1 : I1 sb acc1).
    { refine (phase1 fuel sb _ (sb, None, always) acc1 _ _ H21); [|right; split; [exact Kb|reflexivity]].
      intros m [Hl Hm]%elem_of_list_filter. split; [apply Hblock, Hm|].
      unfold isLhs in Hl. destruct (nkind (nd sb m)); try discriminate. eauto. }
    assert (J2 : I2 sb (s2, e2, always2)).
    { refine (phase2 fuel sb _ acc1 (s2, e2, always2) _ _ H22).
      - intros m [Hl Hm]%elem_of_list_filter. split; [apply Hblock, Hm|].
        intros b Eb. unfold isLhs in Hl. rewrite Eb in Hl. discriminate.
      - destruct J1 as [A|[A _]]; [left; exact A|right; exact A]. }
    unfold I2 in J2. cbn [fst snd] in J2.
    destruct e2 as [x|].
    - injection H as <- <- _. destruct J2 as [A|A]; [left; exact A|right; apply (pass_ok_weaken sb), A].
    - destruct J2 as [A|A]; [destruct (Hbad0 A)|]. apply (IH s2 always2 s' e always' (pass_ok_weaken sb s2 A) H).
  Qed.
End parloop.

Lemma par_requeue_soft l : forall s s',
  rfold (fun s n => if (height (nd s n) =? unset) || inHeap s n then Ok s else heapAdd s n) l s = Ok s' ->
  soft s s'.
Proof.
  induction l as [|n l IH]; intros s s' H; simpl in H; [injection H as <-; apply soft_refl|].
  apply rbind_ok in H as (s1 & H1 & H). eapply soft_trans; [|apply IH, H].
  destruct (height (nd s n) =? unset); simpl in H1; [injection H1 as <-; apply soft_refl|].
  destruct (inHeap s n) eqn:E; [injection H1 as <-; apply soft_refl|apply (soft_heapAdd s n s1 E H1)].
Qed.

Section parstab.
  Context (Q0 : state -> Prop) (HQ0 : forall s s', same_struct s s' -> Q0 s -> Q0 s') (HB0 : bind_spec Q0).
  Context (bad : option err -> Prop) (Hbad0 : ~ bad None).

  Lemma parStabilize_spec p s s' e :
    (forall s0 fuel st b st' e',
       pass_ok Q0 p s0 st -> nkind (nd st b) = KBindLhs b -> inGraph (nd st b) = true ->
       recomputeNodeParallel fuel p st b = Ok (st', e') -> e' = None \/ bad e') ->
    Inv s -> Q0 s -> plan_ok s p = true -> parStabilize p s = Ok (s', e) ->
    bad e \/ (Inv s' /\ Q0 s').
  Proof.
    intros Hlhs HI Hq Hp H. unfold parStabilize in H.
    rewrite (q_status s (inv_quiet s HI)) in H. simpl in H.
    set (s1 := emit EvPassStart (s <| status := 1 |>)) in *.
    pose proof (Inv_PInv_start s HI) as P1. fold s1 in P1.
    assert (SS1 : same_struct s s1) by (apply same_struct_nodes; reflexivity).
    assert (K1 : pass_ok Q0 p s1 s1).
    { split; [exact P1|]. split; [apply (plan_ok_struct s s1 p SS1 Hp)|]. split; [reflexivity|apply (HQ0 s s1 SS1 Hq)]. }
    apply rbind_ok in H as ([[s2 e2] always] & H2 & H).
    destruct (parLoop_spec Q0 HQ0 HB0 bad Hbad0 p s1 (Hlhs s1) _ s1 [] s2 e2 always K1 H2) as [Hb|K2].
    { apply rbind_ok in H as (s3 & _ & H). apply rbind_ok in H as (s4 & _ & [= _ <-]). left. exact Hb. }
    apply rbind_ok in H as (s3 & H3 & H). apply rbind_ok in H as (s4 & H4 & [= <- <-]). right.
    pose proof (par_requeue_soft always s2 s3 H3) as S3.
    destruct (pass_ok_soft Q0 HQ0 p s1 s2 s3 K2 S3) as (P3 & _ & _ & Q3).
    destruct (stabilizeEnd_spec s3 e2 s4 P3 H4) as [I4 SS4]. split; [exact I4|apply (HQ0 s3 s4 SS4 Q3)].
  Qed.
End parstab.

(* the error of recomputing a lhs-change node is the error of its bind *)
Lemma rnp_lhs fuel p s b s' e' :
  nkind (nd s b) = KBindLhs b -> recomputeNodeParallel fuel p s b = Ok (s', e') ->
  exists s3 e3,
    bindLhsStabilize fuel p (upd s b (set recomputedAt (fun _ => stabNum s))) b = Ok (s3, e3) /\ e' = e3.
Proof.
  intros Hk H. unfold recomputeNodeParallel in H. rewrite Hk in H.
  set (s1 := upd s b (set recomputedAt (fun _ => stabNum s))) in *.
  rewrite rbind_Ok in H. cbv beta iota in H.
  apply rbind_ok in H as ([s3 e3] & H3 & H). exists s3, e3.
  assert (Hk1 : nkind (nd s1 b) = KBindLhs b).
  { unfold s1. rewrite nd_upd_proj by reflexivity. exact Hk. }
  unfold stabilizeNode in H3. rewrite Hk1 in H3. split; [exact H3|].
  destruct e3 as [x|].
  - destruct x; apply rbind_ok in H as (s0 & _ & [= _ <-]); reflexivity.
  - apply rbind_ok in H as (s5 & _ & [= _ <-]). reflexivity.
Qed.

Lemma par_plan_clean_spec s p n k :
  par_plan_clean s p = true -> AFail k ∈ actions_of p n WFn ->
  has s n /\ forall b, nkind (nd s n) <> KBindLhs b.
Proof.
  intros Hc Hin. unfold actions_of in Hin. apply elem_of_list_omap in Hin as ([[m w'] a'] & Hin & Hsome).
  unfold par_plan_clean in Hc. rewrite forallb_forall in Hc. apply elem_of_list_In in Hin. specialize (Hc _ Hin). simpl in Hc.
  destruct (Nat.eqb_spec m n) as [->|]; [|discriminate]. destruct w'; simpl in Hsome; [|discriminate].
  injection Hsome as ->. unfold has, nd. destruct (nodes s !! n) as [x|]; [|discriminate].
  split; [eauto|]. simpl. intros b Eb. rewrite Eb in Hc. discriminate.
Qed.

(* under a clean plan a lhs-change node either succeeds or is rejected *)
Lemma par_lhs_clean p sop :
  par_plan_clean sop p = true ->
  forall s0 fuel st b st' e',
    pass_ok (kstable sop) p s0 st -> nkind (nd st b) = KBindLhs b -> inGraph (nd st b) = true ->
    recomputeNodeParallel fuel p st b = Ok (st', e') -> e' = None \/ rejected_err e'.
Proof.
  intros Hc s0 fuel st b st' e' (P & Hp & Hn & Hq) Hk Hg H.
  destruct (rnp_lhs fuel p st b st' e' Hk H) as (s3 & e3 & H3 & ->).
  set (s1 := upd st b (set recomputedAt (fun _ => stabNum st))) in *.
  assert (S1 : soft st s1).
  { apply soft_upd; intros x; [repeat split|]. intros Hk' (A & B & C). repeat split; cbn; try lia; apply B || apply C. }
  pose proof (PInv_of_soft st s1 P S1) as P1.
  assert (Hk1 : nkind (nd s1 b) = KBindLhs b) by (unfold s1; rewrite nd_upd_proj by reflexivity; exact Hk).
  assert (Hg1 : inGraph (nd s1 b) = true) by (unfold s1; rewrite nd_upd_proj by reflexivity; exact Hg).
  destruct (bind_full fuel p s1 b s3 e3 P1 (plan_ok_struct st s1 p (so_struct _ _ S1) Hp) Hk1 Hg1 H3)
    as [Hr|(_ & _ & _ & _ & [->|[_ [k Hf]]])]; [right; exact Hr|left; reflexivity|].
  exfalso. destruct (par_plan_clean_spec sop p b k Hc Hf) as [Hhb Hnl].
  destruct (Hq b Hhb) as [_ E]. apply (Hnl b). rewrite <- E. exact Hk.
Qed.

Lemma kclosed_kstable sop : kclosed (kstable sop).
Proof. intros s s' K H. apply (kstable_trans sop s s' H K). Qed.

Definition is_parstabilize (o : op) : bool := match o with ParStabilize _ => true | _ => false end.

Theorem Inv_step_parstabilize s o s' e :
  Inv s -> op_ok s o = true -> op_clean s o = true -> is_parstabilize o = true -> step s o = Ok (s', e) ->
  e <> Some ECycle -> e <> Some EHeightLimit -> Inv s'.
Proof.
  intros HI Hok Hcl Hgo Hstep He1 He2. destruct o; try discriminate. simpl in Hstep, Hok, Hcl.
  destruct (parStabilize_spec (kstable s) (fun a b SS H => kstable_trans s a b H (kstable_struct a b SS))
              (bind_spec_kclosed _ (kclosed_kstable s)) rejected_err ltac:(intros [?|?]; discriminate)
              p s s' e (par_lhs_clean p s Hcl) HI (kstable_refl s) Hok Hstep) as [[->| ->]|[R _]];
    [congruence|congruence|exact R].
Qed.

(* without bind records there is no lhs-change node: no side condition on the plan *)
Theorem Inv_step_parstabilize_bindfree s o s' e :
  Inv s -> binds s = ∅ -> op_ok s o = true -> is_parstabilize o = true -> step s o = Ok (s', e) ->
  Inv s' /\ binds s' = ∅.
Proof.
  intros HI Hb Hok Hgo Hstep. destruct o; try discriminate. simpl in Hstep, Hok.
  destruct (parStabilize_spec bindfree
              ltac:(intros a b SS H; unfold bindfree; rewrite (ss_binds _ _ SS); exact H)
              bind_spec_bindfree (fun _ => False) ltac:(auto) p s s' e) as [[]|R]; auto.
  intros s0 fuel st b st' e' (P & _ & _ & Hq) Hk Hg _. exfalso.
  pose proof (p_kinds st P b (has_inGraph st b Hg)) as K. rewrite Hk in K. destruct K as [_ [r Hr]].
  unfold bindfree in Hq. rewrite Hq, lookup_empty in Hr. discriminate.
Qed.

(** ** what survives an operation that is rejected half-way: enough for the rest of the pass not to fault *)
Record Wk (s : state) : Prop := {
  w_heap : hinv (heap s);
  w_h : forall m, -1 <= height (nd s m);
  w_vars : forall v, v ∈ setDuring s \/ v ∈ setRemoved s -> exists e, nkind (nd s v) = KVar e
}.

Definition wkf (s s' : state) : Prop :=
  Wk s -> Wk s' /\ forall m, 0 <= height (nd s m) -> 0 <= height (nd s' m).

Lemma wkf_refl s : wkf s s.
Proof. intros W. auto. Qed.

Lemma wkf_trans s1 s2 s3 : wkf s1 s2 -> wkf s2 s3 -> wkf s1 s3.
Proof. intros A B W. destruct (A W) as [W2 H2]. destruct (B W2) as [W3 H3]. split; [exact W3|]. intros m Hm. apply H3, H2, Hm. Qed.

(* a step that touches neither the recompute heap, the heights, the kinds nor the deferred lists *)
Lemma wkf_static s s' :
  heap s' = heap s -> setDuring s' = setDuring s -> setRemoved s' = setRemoved s ->
  (forall m, height (nd s' m) = height (nd s m) /\ nkind (nd s' m) = nkind (nd s m)) -> wkf s s'.
Proof.
  intros Hw Hd Hr Hn [A B C]. split; [split|].
  - rewrite Hw. exact A.
  - intros m. rewrite (proj1 (Hn m)). apply B.
  - intros v. rewrite Hd, Hr, (proj2 (Hn v)). apply C.
  - intros m. rewrite (proj1 (Hn m)). auto.
Qed.

Lemma wkf_upd s n f : (forall x, height (f x) = height x /\ nkind (f x) = nkind x) -> wkf s (upd s n f).
Proof.
  intros Hf. apply wkf_static; try reflexivity. intros m.
  destruct (decide (has s n)) as [Hn|Hn]; [|rewrite (upd_missing s n f Hn); auto].
  rewrite nd_upd by exact Hn. destruct (decide (m = n)) as [->|]; [apply Hf|auto].
Qed.

Lemma wkf_emit s e : wkf s (emit e s).
Proof. apply wkf_static; try reflexivity. intros m. rewrite nd_emit. auto. Qed.

Lemma wkf_link s c p : wkf s (link s c p).
Proof. apply wkf_static; try reflexivity. intros m. rewrite height_nd_link, nkind_nd_link. auto. Qed.

Lemma wkf_unlink s c p : wkf s (unlink s c p).
Proof. apply wkf_static; try reflexivity. intros m. rewrite height_nd_unlink, nkind_nd_unlink. auto. Qed.

Lemma wkf_addNode s n : wkf s (addNode s n).
Proof. apply wkf_static; [apply heap_addNode|apply setDuring_addNode|apply setRemoved_addNode|]. intros m. rewrite height_nd_addNode, nkind_nd_addNode. auto. Qed.

Lemma wkf_setHeight s n h s' e : (Wk s -> 0 <= h) -> setHeight s n h = Ok (s', e) -> wkf s s'.
Proof.
  intros Hh H W. destruct e as [x|]; [apply setHeight_err in H as [_ ->]; auto|].
  specialize (Hh W). destruct W as [A B C].
  destruct (decide (has s n)) as [Hn|Hn].
  - assert (Hht : forall m, height (nd s' m) = if decide (m = n) then h else height (nd s m)) by (intros m; apply (height_nd_setHeight _ _ _ _ H m Hn)).
    split; [split|].
    + rewrite (heap_setHeight _ _ _ _ H). exact A.
    + intros m. rewrite Hht. destruct (decide (m = n)); [lia|apply B].
    + intros v. rewrite (setDuring_setHeight _ _ _ _ H), (setRemoved_setHeight _ _ _ _ H), (proj_nd_setHeight _ _ _ _ H nkind) by reflexivity. apply C.
    + intros m. rewrite Hht. destruct (decide (m = n)); [lia|auto].
  - assert (Hnd : forall m, nd s' m = nd s m).
    { intros m. apply setHeight_inv in H as [(_ & _ & He)|(_ & _ & ->)]; [discriminate|].
      destruct (_ >? _); rewrite upd_missing by exact Hn; reflexivity. }
    split; [split|].
    + rewrite (heap_setHeight _ _ _ _ H). exact A.
    + intros m. rewrite Hnd. apply B.
    + intros v. rewrite (setDuring_setHeight _ _ _ _ H), (setRemoved_setHeight _ _ _ _ H), Hnd. apply C.
    + intros m. rewrite Hnd. auto.
Qed.

Lemma heapAdd_nonneg s n s' : heapAdd s n = Ok s' -> 0 <= height (nd s n).
Proof.
  intros H. destruct (Z.ltb_spec (height (nd s n)) 0) as [Hneg|]; [|assumption].
  rewrite (heapAdd_negative s n Hneg) in H. discriminate.
Qed.

Lemma wkf_only_heap s s' : only_heap s s' -> (hinv (heap s) -> hinv (heap s')) -> wkf s s'.
Proof.
  intros F Hh [A B C]. split; [split|].
  - apply Hh, A.
  - intros m. rewrite (oh_nd _ _ F). apply B.
  - intros v. rewrite (oh_setDuring _ _ F), (oh_setRemoved _ _ F), (oh_nd _ _ F). apply C.
  - intros m. rewrite (oh_nd _ _ F). auto.
Qed.

Lemma wkf_heapAddIfNotPresent s n s' : heapAddIfNotPresent s n = Ok s' -> wkf s s'.
Proof.
  intros H. unfold heapAddIfNotPresent in H. destruct (inHeap s n) eqn:E; [injection H as <-; apply wkf_refl|].
  pose proof (heapAdd_nonneg s n s' H) as Hh.
  apply wkf_only_heap.
  - apply heapAdd_inv in H as (w & _ & ->). apply only_heap_set.
  - intros Hi. apply (heapAdd_spec s n s' Hi E Hh H).
Qed.

Lemma Heap_add_negative w n h : h < 0 -> Heap.add w n h = Crash HeapNegativeHeight.
Proof. intros Hh. unfold Heap.add. destruct (Z.ltb_spec h 0); [reflexivity|lia]. Qed.

Lemma wkf_heapFix s n s' : inHeap s n = true -> heapFix s n = Ok s' -> wkf s s'.
Proof.
  intros E H. apply wkf_only_heap.
  - apply heapFix_inv in H as (w & _ & ->). apply only_heap_set.
  - intros Hi. assert (Hh : 0 <= height (nd s n)).
    { destruct (Z.ltb_spec (height (nd s n)) 0) as [Hneg|]; [|assumption]. exfalso.
      apply heapFix_inv in H as (w & Hw & _). unfold Heap.fix_ in Hw.
      destruct (Heap.remove (heap s) n) as [w'| |]; simpl in Hw; try discriminate.
      rewrite (Heap_add_negative w' n _ Hneg) in Hw. discriminate. }
    apply (heapFix_spec s n s' Hi E Hh H).
Qed.

(** becoming necessary, whatever the outcome *)
Lemma scopeHeight_nonneg s sc : Wk s -> 0 <= scopeHeight s sc + 1.
Proof. intros W. unfold scopeHeight. destruct sc as [b|]; [pose proof (w_h s W b); lia|unfold unset; lia]. Qed.

Lemma wkf_efold {A} (f : state -> A -> M) l : forall s s' e,
  (forall s a s1 e1, f s a = Ok (s1, e1) -> wkf s s1) -> efold f l s = Ok (s', e) -> wkf s s'.
Proof.
  induction l as [|a l IH]; intros s s' e Hf H; simpl in H; [apply ok_inv in H as [-> _]; apply wkf_refl|].
  apply ebind_inv in H as (s1 & e1 & H1 & [[-> H]|(_ & -> & _)]).
  - eapply wkf_trans; [apply (Hf _ _ _ _ H1)|apply (IH _ _ _ Hf H)].
  - apply (Hf _ _ _ _ H1).
Qed.

Lemma wkf_BN fuel : forall s n s' e, becameNecessaryRecursive fuel s n = Ok (s', e) -> wkf s s'.
Proof.
  induction fuel as [|fuel IH]; intros s n s' e H; [discriminate|].
  rewrite BN_S in H. cbn zeta in H.
  set (s2 := if inGraph (nd s n) then addNode s n else emit (EvNec n) (addNode s n)) in *.
  assert (W2 : wkf s s2).
  { unfold s2. destruct (inGraph (nd s n)); [apply wkf_addNode|eapply wkf_trans; [apply wkf_addNode|apply wkf_emit]]. }
  apply ebind_inv in H as (s3 & e3 & H3 & Hrest).
  assert (W3 : wkf s2 s3) by (apply (wkf_setHeight _ _ _ _ _ (fun W => scopeHeight_nonneg s2 _ W) H3)).
  destruct Hrest as [[-> H]|(_ & -> & _)]; [|eapply wkf_trans; eauto].
  apply ebind_inv in H as (s4 & e4 & H4 & Hrest).
  assert (W4 : wkf s3 s4).
  { refine (wkf_efold _ _ _ _ _ (fun st p st1 e1 Hb => _) H4). unfold bn_body in Hb.
    set (st0 := link st n p) in *.
    set (st0' := if valid (nd st0 p) then st0 else st0 <| invq := invq st0 ++ [n] |>) in *.
    assert (W0 : wkf st st0').
    { eapply wkf_trans; [apply wkf_link|]. unfold st0'. destruct (valid (nd st0 p)); [apply wkf_refl|].
      apply wkf_static; try reflexivity. intros m. auto. }
    apply ebind_inv in Hb as (st2 & e2 & H2 & Hrest').
    assert (W2' : wkf st0' st2).
    { destruct (isNecessary (nd st p)); [apply ok_inv in H2 as [-> _]; apply wkf_refl|apply (IH _ _ _ _ H2)]. }
    destruct Hrest' as [[-> Hb]|(_ & -> & _)]; [|eapply wkf_trans; eauto].
    eapply wkf_trans; [exact W0|]. eapply wkf_trans; [exact W2'|].
    destruct (_ >=? _); [|apply ok_inv in Hb as [-> _]; apply wkf_refl].
    refine (wkf_setHeight _ _ _ _ _ (fun W => _) Hb). pose proof (w_h st2 W p). lia. }
  destruct Hrest as [[-> H]|(_ & -> & _)]; [|eapply wkf_trans; [exact W2|eapply wkf_trans; eauto]].
  eapply wkf_trans; [exact W2|]. eapply wkf_trans; [exact W3|]. eapply wkf_trans; [exact W4|].
  destruct (isStale s4 n); [|apply ok_inv in H as [-> _]; apply wkf_refl].
  apply lift_inv in H as [H _]. apply (wkf_heapAddIfNotPresent _ _ _ H).
Qed.

(** adjusting heights, whatever the outcome *)
Lemma wkf_adj s s' :
  heap s' = heap s -> setDuring s' = setDuring s -> setRemoved s' = setRemoved s ->
  (forall m, height (nd s' m) = height (nd s m) /\ nkind (nd s' m) = nkind (nd s m)) -> wkf s s'.
Proof. apply wkf_static. Qed.

Lemma wkf_adjAdd s n s' : adjAdd s n = Ok s' -> wkf s s'.
Proof.
  intros H. apply adjAdd_inv in H as [[_ ->]|(_ & _ & q & _ & ->)]; [apply wkf_refl|].
  apply wkf_static; try reflexivity. intros m.
  match goal with |- height (nd (?a <| adj := ?b |>) m) = _ /\ _ => change (nd (a <| adj := b |>) m) with (nd a m) end.
  destruct (decide (has s n)) as [Hn|Hn]; [|rewrite (upd_missing s n _ Hn); auto].
  rewrite nd_upd by exact Hn. destruct (decide (m = n)) as [->|]; auto.
Qed.

Lemma wkf_adjRemoveMin s r s' : adjRemoveMin s = Ok (r, s') -> wkf s s'.
Proof.
  intros H. apply adjRemoveMin_inv in H as [[_ ->]|(n & x & b' & _ & _ & ->)]; [apply wkf_refl|].
  apply wkf_static; try reflexivity. intros m.
  match goal with |- height (nd (?a <| adj := ?b |>) m) = _ /\ _ => change (nd (a <| adj := b |>) m) with (nd a m) end.
  destruct (decide (has s n)) as [Hn|Hn]; [|rewrite (upd_missing s n _ Hn); auto].
  rewrite nd_upd by exact Hn. destruct (decide (m = n)) as [->|]; auto.
Qed.

Lemma wkf_ensure s oP c p s' e : ensureHeightRequirement s oP c p = Ok (s', e) -> wkf s s'.
Proof.
  intros H. unfold ensureHeightRequirement in H.
  destruct (bool_decide (oP = c)); [apply fail_inv in H as [-> _]; apply wkf_refl|].
  destruct (_ >=? _); [|apply ok_inv in H as [-> _]; apply wkf_refl].
  apply ebind_inv in H as (s1 & e1 & H1 & Hrest). apply lift_inv in H1 as [H1 ->].
  destruct Hrest as [[_ H2]|(Hne & _)]; [|congruence].
  eapply wkf_trans; [apply (wkf_adjAdd _ _ _ H1)|].
  refine (wkf_setHeight _ _ _ _ _ (fun W => _) H2). pose proof (w_h s1 W p). lia.
Qed.

Lemma wkf_adjustLoop fuel : forall s oP s' e, adjustLoop fuel s oP = Ok (s', e) -> wkf s s'.
Proof.
  induction fuel as [|fuel IH]; intros s oP s' e H; [discriminate|].
  rewrite adjustLoop_S in H.
  destruct (a_num (adj s) <=? 0); [apply ok_inv in H as [-> _]; apply wkf_refl|].
  apply rbind_ok in H as ([popped s1] & H1 & H). destruct popped as [p|]; [|discriminate].
  pose proof (wkf_adjRemoveMin _ _ _ H1) as W1.
  apply ebind_inv in H as (s2 & e2 & H2 & Hrest). apply lift_inv in H2 as [H2 ->].
  destruct Hrest as [[_ H]|(Hne & _)]; [|congruence].
  assert (W2 : wkf s1 s2).
  { destruct (inHeap s1 p) eqn:E; [apply (wkf_heapFix _ _ _ E H2)|injection H2 as <-; apply wkf_refl]. }
  apply ebind_inv in H as (s3 & e3 & H3 & Hrest).
  assert (W3 : wkf s2 s3) by (apply (wkf_efold _ _ _ _ _ (fun st c st1 e1 Hc => wkf_ensure _ _ _ _ _ _ Hc) H3)).
  destruct Hrest as [[-> H]|(_ & -> & _)]; [|eapply wkf_trans; [exact W1|eapply wkf_trans; eauto]].
  apply ebind_inv in H as (s4 & e4 & H4 & Hrest).
  assert (W4 : wkf s3 s4).
  { destruct (nkind (nd s3 p)); try (apply ok_inv in H4 as [-> _]; apply wkf_refl).
    refine (wkf_efold _ _ _ _ _ (fun st r st1 e1 Hr => _) H4).
    cbv beta in Hr. revert Hr. destruct (isNecessary (nd st r)); intros Hr; [apply (wkf_ensure _ _ _ _ _ _ Hr)|apply ok_inv in Hr as [-> _]; apply wkf_refl]. }
  assert (W04 : wkf s s4) by (eapply wkf_trans; [exact W1|eapply wkf_trans; [exact W2|eapply wkf_trans; eauto]]).
  destruct Hrest as [[-> H]|(_ & -> & _)]; [|exact W04].
  eapply wkf_trans; [exact W04|apply (IH _ _ _ _ H)].
Qed.

Lemma wkf_adjustHeights fuel s c p s' e : adjustHeights fuel s c p = Ok (s', e) -> wkf s s'.
Proof.
  intros H. unfold adjustHeights in H.
  set (s0 := s <| adj := adj s <| a_lower := height (nd s c) |> |>) in *.
  assert (W0 : wkf s s0) by (apply wkf_static; try reflexivity; intros m; auto).
  apply ebind_inv in H as (s1 & e1 & H1 & Hrest).
  pose proof (wkf_ensure _ _ _ _ _ _ H1) as W1.
  destruct Hrest as [[-> H]|(_ & -> & _)]; [|eapply wkf_trans; eauto].
  eapply wkf_trans; [exact W0|]. eapply wkf_trans; [exact W1|apply (wkf_adjustLoop _ _ _ _ _ H)].
Qed.

(* a rejected [addChild]: nothing beyond linking, registering and height adjustment has happened *)
Lemma wkf_addChild_err fuel s c p s' x : addChild fuel s c p = Ok (s', Some x) -> wkf s s'.
Proof.
  intros H. unfold addChild, addChildWithoutAdjustingHeights in H.
  set (s0 := link s c p) in *.
  set (s0' := if valid (nd s0 p) then s0 else s0 <| invq := invq s0 ++ [c] |>) in *.
  assert (W0 : wkf s s0').
  { eapply wkf_trans; [apply wkf_link|]. unfold s0'. destruct (valid (nd s0 p)); [apply wkf_refl|].
    apply wkf_static; try reflexivity. intros m. auto. }
  apply ebind_inv in H as (s2 & e2 & H2 & Hrest).
  assert (W2 : wkf s0' s2).
  { destruct (isNecessary (nd s p)); [apply ok_inv in H2 as [-> _]; apply wkf_refl|apply (wkf_BN _ _ _ _ _ H2)]. }
  destruct Hrest as [[-> H]|(_ & -> & _)]; [|eapply wkf_trans; eauto].
  apply ebind_inv in H as (s3 & e3 & H3 & Hrest).
  assert (W3 : wkf s2 s3).
  { destruct (_ >=? _); [apply (wkf_adjustHeights _ _ _ _ _ _ H3)|apply ok_inv in H3 as [-> _]; apply wkf_refl]. }
  destruct Hrest as [[-> H]|(_ & -> & _)]; [|eapply wkf_trans; [exact W0|eapply wkf_trans; eauto]].
  (* from here on no error can arise *)
  exfalso. apply ebind_inv in H as (s4 & e4 & H4 & Hrest). apply lift_inv in H4 as [_ ->].
  destruct Hrest as [[_ H]|(Hne & _)]; [|congruence].
  destruct (_ || _); [apply lift_inv in H as [_ ?]; discriminate|apply ok_inv in H as [_ ?]; discriminate].
Qed.

Lemma wkf_changeParent_err fuel s c oP nP s' x : changeParent fuel s c oP nP = Ok (s', Some x) -> wkf s s'.
Proof.
  intros H. unfold changeParent in H. destruct oP as [o|], nP as [n|].
  - destruct (bool_decide (o = n)); [apply ok_inv in H as [_ ?]; discriminate|].
    apply ebind_inv in H as (s2 & e2 & H2 & Hrest).
    destruct Hrest as [[-> H]|(_ & -> & He)].
    + apply lift_inv in H as [_ ?]. discriminate.
    + rewrite <- He in H2. eapply wkf_trans; [apply wkf_unlink|]. eapply wkf_trans; [|apply (wkf_addChild_err _ _ _ _ _ _ H2)].
      apply wkf_upd. intros y. auto.
  - apply lift_inv in H as [_ ?]. discriminate.
  - apply (wkf_addChild_err _ _ _ _ _ _ H).
  - apply ok_inv in H as [_ ?]. discriminate.
Qed.

(** ** the weak invariant at good states, and after a failed bind *)
Lemma TInv_Wk s :
  TInv [] noE s ->
  (forall v, v ∈ setDuring s \/ v ∈ setRemoved s -> exists e, nkind (nd s v) = KVar e) -> Wk s.
Proof.
  intros T Hv. split; [apply (t_heap _ _ _ T)| |exact Hv].
  intros m. destruct (inGraph (nd s m)) eqn:E.
  - destruct (t_height _ _ _ T m E) as ((A & _) & _). lia.
  - destruct (t_zero _ _ _ T m E) as (_ & _ & _ & ->). unfold unset. lia.
Qed.

Lemma PInv_Wk s : PInv s -> Wk s.
Proof. intros P. apply TInv_Wk; [apply (p_t s P)|apply (pq_vars s (p_pq s P))]. Qed.

Lemma PInv_reg_height s n : PInv s -> inGraph (nd s n) = true -> 0 <= height (nd s n).
Proof. intros P Hg. apply (t_height _ _ _ (p_t s P) n Hg). Qed.

Lemma bind_err_W_nomemo fuel p s b s' x :
  PInv s -> plan_ok s p = true -> nkind (nd s b) = KBindLhs b -> inGraph (nd s b) = true ->
  b_memo (bd s b) = false ->
  bindLhsStabilize fuel p s b = Ok (s', Some x) -> Wk s' /\ 0 <= height (nd s' b).
Proof.
  intros P Hp Hk Hg Hnm H.
  pose proof (p_kinds s P b (has_inGraph s b Hg)) as K. rewrite Hk in K. destruct K as [_ [r0 Hr0]].
  pose proof (p_binds s P b r0 Hr0) as W0.
  assert (Hbd : bd s b = r0) by (unfold bd; rewrite Hr0; reflexivity).
  pose proof Hnm as Hnm0. rewrite Hbd in Hnm0.
  unfold bindLhsStabilize in H. rewrite Hbd in H. rewrite Hnm0, (bw_main _ _ _ W0) in H.
  cbv zeta in H. cbv iota in H.
  set (f1 := set b_rhsNodes (fun _ : list nid => [])) in *.
  set (s1 := updb s b f1) in *.
  apply rbind_ok in H as ([[sx ex] built] & H1 & H).
  apply rbind_ok in H1 as ([s2 e1] & Hinv & H1).
  assert (Hst1 : status s1 = 1) by apply (pq_status s (p_pq s P)).
  pose proof (invoke_soft p s1 b WFn s2 e1 Hst1 Hp Hinv) as S12.
  destruct e1 as [x1|].
  - injection H1 as <- <- <-. apply fail_inv in H as [-> _].
    assert (E : updb s2 b (set b_rhsNodes (fun _ => b_rhsNodes r0)) = s2 <| binds := binds s |>).
    { assert (Ealt : alter (set b_rhsNodes (fun _ => b_rhsNodes r0)) b (binds s2) = binds s).
      { rewrite (ss_binds _ _ (so_struct _ _ S12)). change (binds s1) with (alter f1 b (binds s)).
        apply (alter_alter_at _ _ (binds s) b r0 Hr0). destruct r0; reflexivity. }
      unfold updb. rewrite Ealt. reflexivity. }
    rewrite E.
    pose proof (soft_binds_irrel s s2 _ (binds s1) S12 eq_refl) as S02.
    pose proof (PInv_of_soft s _ P S02) as P'. split; [apply PInv_Wk, P'|].
    apply (PInv_reg_height _ b P'). destruct (ss_node _ _ (so_struct _ _ S02) b) as (_&_&_&_&_&_&_&_&_&_&->). exact Hg.
  - set (x0 := valueOf s1 (b_lhs r0)) in *.
    set (case := nth (Z.to_nat (x0 mod Z.of_nat (length (b_cases r0)))) (b_cases r0) TNil) in *.
    destruct (inst s2 (Some b) x0 case) as [s3 root] eqn:Hinst.
    injection H1 as <- <- <-.
    assert (Hinst' : inst s2 (Some b) x0 (nth (Z.to_nat (x0 mod Z.of_nat (length (b_cases (bd s b))))) (b_cases (bd s b)) TNil) = (s3, root))
      by (rewrite Hbd; exact Hinst).
    pose proof (run_fn_post p s b P Hp Hk Hg Hnm s2 Hinv x0 s3 root Hinst') as FP.
    destruct FP as [T6 R7 Hvc7 Hforce Hrhs Hdecl6 Hroot Hnew Hold Holdnd Hhas6 Hsreg6 Hmain [Hgb6 Hkb6] Holdne Hpair1 Hpair2 Hplan7 Hstab7].
    rewrite Hbd in *.
    set (s6 := updb (updb (emit (EvBindFn b x0 root) s3) b
                 (fun r => r <| b_gen := S (b_gen r) |> <| b_cache := if b_memo r then b_cache r ++ [(x0, root)] else b_cache r |>))
                 b (set b_rhs (fun _ => root))) in *.
    set (s7 := upd s6 (S b) (set decl (fun _ => match root with Some r => [b; r] | None => [b] end))) in *.
    apply ebind_inv in H as (t8 & e2 & Hcp & Hrest).
    destruct e2 as [x2|].
    2:{ destruct Hrest as [[_ H]|(Hne & _)]; [|congruence].
        apply ebind_inv in H as (t9 & e3 & Hiv & Hrest). apply lift_inv in Hiv as [_ ->].
        destruct Hrest as [[_ H]|(Hne & _)]; [|congruence]. apply lift_inv in H as [_ ?]. discriminate. }
    destruct Hrest as [[? _]|(_ & -> & _)]; [discriminate|].
    assert (W7 : Wk s7).
    { assert (W6 : Wk s6).
      { apply TInv_Wk; [exact T6|]. intros v Hv. destruct (m_vars _ _ R7 v Hv) as [k Hkv]. exists k.
        unfold s7 in Hkv. rewrite nd_upd_proj in Hkv by reflexivity. exact Hkv. }
      unfold s7. refine (proj1 (wkf_upd s6 (S b) _ _ W6)). intros y. auto. }
    destruct (wkf_changeParent_err _ _ _ _ _ _ _ Hcp W7) as [W8 Hh8]. split; [exact W8|].
    apply Hh8. unfold s7. rewrite nd_upd_proj by reflexivity.
    destruct (t_height _ _ _ T6 b Hgb6) as ((A & _) & _). exact A.
Qed.

Lemma tailx_errW fuel s3 s6 b r3 r6 root s' x :
  tail_ok s3 s6 b r3 r6 root -> memo_tailx fuel s6 b (b_rhs r3) root = Ok (s', Some x) ->
  Wk s' /\ 0 <= height (nd s' b).
Proof.
  intros (T6 & Hgb6 & Hv6 & _) H. rewrite memo_tailx_eq in H.
  set (s7 := upd s6 (S b) (set decl (fun _ => b :: option_list root))) in *.
  apply ebind_inv in H as (t8 & e2 & Hcp & Hrest).
  destruct e2 as [x2|].
  2:{ destruct Hrest as [[_ H]|(Hne & _)]; [|congruence].
      apply ebind_inv in H as (t9 & e3 & Hiv & Hrest). apply lift_inv in Hiv as [_ ->].
      destruct Hrest as [[_ H]|(Hne & _)]; [|congruence]. apply lift_inv in H as [_ ?]. discriminate. }
  destruct Hrest as [[? _]|(_ & -> & _)]; [discriminate|].
  assert (W7 : Wk s7).
  { assert (W6 : Wk s6) by (apply TInv_Wk; [exact T6|exact Hv6]).
    unfold s7. refine (proj1 (wkf_upd s6 (S b) _ _ W6)). intros y. auto. }
  destruct (wkf_changeParent_err _ _ _ _ _ _ _ Hcp W7) as [W8 Hh8]. split; [exact W8|].
  apply Hh8. unfold s7. rewrite nd_upd_proj by reflexivity.
  destruct (t_height _ _ _ T6 b Hgb6) as ((A & _) & _). exact A.
Qed.

Lemma bind_err_W_memo fuel p s b s' x :
  PInv s -> plan_ok s p = true -> nkind (nd s b) = KBindLhs b -> inGraph (nd s b) = true ->
  b_memo (bd s b) = true ->
  bindLhsStabilize fuel p s b = Ok (s', Some x) -> Wk s' /\ 0 <= height (nd s' b).
Proof.
  intros P Hp Hk Hg Hm H.
  pose proof (p_kinds s P b (has_inGraph s b Hg)) as K. rewrite Hk in K. destruct K as [_ [r0 Hr0]].
  pose proof (p_binds s P b r0 Hr0) as W0.
  assert (Hbd : bd s b = r0) by (unfold bd; rewrite Hr0; reflexivity).
  rewrite Hbd in *.
  destruct (bw_memo _ _ _ W0 Hm) as (Hrn0 & Hscb & Hnb).
  rewrite (bindLhs_memo_eq fuel p s b r0 Hr0 W0 Hm) in H. cbv zeta in H.
  set (x0 := valueOf s (b_lhs r0)) in *.
  destruct (list_find (fun kv : Z * option nat => kv.1 = x0) (b_cache r0)) as [[i [x' root]]|] eqn:Ef.
  - apply list_find_Some in Ef as (Hi & Hx' & _). simpl in Hx'. subst x'.
    apply elem_of_list_lookup_2 in Hi.
    apply (tailx_errW fuel _ _ _ _ _ _ s' x (memo_hit_ok s b r0 x0 root P Hr0 Hm Hg Hi) H).
  - apply rbind_ok in H as ([s2 e1] & Hinv & H).
    assert (Hst1 : status s = 1) by apply (pq_status s (p_pq s P)).
    pose proof (invoke_soft p s b WFn s2 e1 Hst1 Hp Hinv) as S12.
    pose proof (so_struct _ _ S12) as SS.
    destruct e1 as [x1|].
    + apply fail_inv in H as [-> _].
      assert (Hr2 : binds s2 !! b = Some r0) by (rewrite (ss_binds _ _ SS); exact Hr0).
      rewrite (updb_id s2 b _ r0 Hr2) by (destruct r0; cbn in Hrn0; subst; reflexivity).
      pose proof (PInv_of_soft s s2 P S12) as P'. split; [apply PInv_Wk, P'|].
      apply (PInv_reg_height _ b P'). destruct (ss_node _ _ SS b) as (_&_&_&_&_&_&_&_&_&_&->). exact Hg.
    + assert (Hsc2 : scope (nd s2 b) = None) by (destruct (ss_node _ _ SS b) as (_&_&->&_); exact Hscb).
      rewrite Hsc2 in H.
      destruct (inst s2 None x0 (nth (Z.to_nat (x0 mod Z.of_nat (length (b_cases r0)))) (b_cases r0) TNil)) as [s3 root] eqn:Hinst.
      destruct (memo_miss_ok p s b r0 s2 x0 s3 root P Hp Hr0 Hm Hg Hinv Hinst) as (TK & _).
      apply (tailx_errW fuel _ _ _ _ _ _ s' x TK H).
Qed.

Lemma bind_err_W fuel p s b s' x :
  PInv s -> plan_ok s p = true -> nkind (nd s b) = KBindLhs b -> inGraph (nd s b) = true ->
  bindLhsStabilize fuel p s b = Ok (s', Some x) -> Wk s' /\ 0 <= height (nd s' b).
Proof.
  intros P Hp Hk Hg H. destruct (b_memo (bd s b)) eqn:Em.
  - apply (bind_err_W_memo fuel p s b s' x P Hp Hk Hg Em H).
  - apply (bind_err_W_nomemo fuel p s b s' x P Hp Hk Hg Em H).
Qed.

(** * The serial pass never faults *)
Definition QT : state -> Prop := fun _ => True.
Lemma HQT : forall s s', same_struct s s' -> QT s -> QT s'.
Proof. intros; exact I. Qed.

Lemma nc_stabilizeNode fuel p s n :
  PInv s -> plan_ok s p = true -> inGraph (nd s n) = true -> nocrash (stabilizeNode fuel p s n).
Proof.
  intros P Hp Hg. unfold stabilizeNode. destruct (PInv_hreg s P) as [Hr Hk].
  assert (Hinv : forall (k : state * option err -> M), (forall x, nocrash (k x)) ->
            nocrash (rbind (invoke p s n WFn) k)).
  { intros k Hk'. apply nc_rbind; [apply nc_invoke; assumption|]. intros x _. apply Hk'. }
  destruct (nkind (nd s n)) as [eqv| |f|f|f|c| |b|b] eqn:Ek.
  - destruct (pending (nd s n)); [destruct (_ =? _)|]; apply nc_Ok.
  - apply nc_Ok.
  - apply Hinv. intros [s1 [e0|]]; apply nc_Ok.
  - apply Hinv. intros [s1 [e0|]]; apply nc_Ok.
  - apply Hinv. intros [s1 [e0|]]; apply nc_Ok.
  - apply nc_Ok.
  - apply nc_Ok.
  - assert (b = n) as ->.
    { pose proof (p_kinds s P n (has_inGraph s n Hg)) as K. rewrite Ek in K. symmetry. apply K. }
    apply (nc_bind fuel p s n P Hp Ek Hg).
  - apply nc_Ok.
Qed.

(* nodes other than lhs-change nodes: a soft step, whatever the outcome *)
Lemma stabilizeNode_soft fuel p s n s' e :
  (forall b, nkind (nd s n) <> KBindLhs b) -> status s = 1 -> plan_ok s p = true -> inGraph (nd s n) = true ->
  stabilizeNode fuel p s n = Ok (s', e) -> soft s s'.
Proof.
  intros Hk Hst Hp Hg H. unfold stabilizeNode in H.
  assert (Hinv : forall s1 e1 r args,
            invoke p s n WFn = Ok (s1, e1) ->
            match e1 with
            | Some e0 => fail s1 e0
            | None => ok (emit (EvInvoked n args r) (upd s1 n (set value (fun _ => r))))
            end = Ok (s', e) -> soft s s').
  { intros s1 e1 r args H1 H2. pose proof (invoke_soft p s n WFn s1 e1 Hst Hp H1) as S1.
    destruct e1 as [e0|].
    - apply fail_inv in H2 as [-> _]. exact S1.
    - apply ok_inv in H2 as [-> _].
      eapply soft_trans; [exact S1|]. eapply soft_trans; [apply soft_value|].
      apply soft_emit. simpl. rewrite nd_upd_proj by reflexivity.
      destruct (ss_node _ _ (so_struct _ _ S1) n) as (_&_&_&_&_&_&_&_&_&_&->). exact Hg. }
  destruct (nkind (nd s n)) as [eqv| |f|f|f|c| |b|b] eqn:Ek.
  - destruct (pending (nd s n)) as [v|].
    + destruct (recomputedAt (nd s n) =? stabNum s); apply ok_inv in H as [-> _]; [apply soft_refl|].
      apply soft_upd; intros x; [repeat split|auto].
    + apply ok_inv in H as [-> _]. apply soft_refl.
  - apply ok_inv in H as [-> _]. apply soft_refl.
  - apply rbind_ok in H as ([s1 e1] & H1 & H2). eapply (Hinv s1 e1 _ _ H1 H2).
  - apply rbind_ok in H as ([s1 e1] & H1 & H2). eapply (Hinv s1 e1 _ _ H1 H2).
  - apply rbind_ok in H as ([s1 e1] & H1 & H2). eapply (Hinv s1 e1 _ _ H1 H2).
  - apply ok_inv in H as [-> _]. apply soft_value.
  - apply ok_inv in H as [-> _]. apply soft_refl.
  - exfalso. apply (Hk b). reflexivity.
  - apply ok_inv in H as [-> _]. apply soft_value.
Qed.

(* the state a failing node leaves: still good enough for the rest of the pass *)
Lemma stabilizeNode_err_W fuel p s n s' x :
  PInv s -> plan_ok s p = true -> inGraph (nd s n) = true ->
  stabilizeNode fuel p s n = Ok (s', Some x) -> Wk s' /\ 0 <= height (nd s' n).
Proof.
  intros P Hp Hg H.
  destruct (nkind (nd s n)) as [eqv| |f|f|f|c| |b|b] eqn:Ek.
  8:{ assert (b = n) as ->.
      { pose proof (p_kinds s P n (has_inGraph s n Hg)) as K. rewrite Ek in K. symmetry. apply K. }
      unfold stabilizeNode in H. rewrite Ek in H. apply (bind_err_W fuel p s n s' x P Hp Ek Hg H). }
  all: assert (S : soft s s') by (apply (stabilizeNode_soft fuel p s n s' (Some x)); [intros b'; rewrite Ek; discriminate|apply (pq_status s (p_pq s P))|exact Hp|exact Hg|exact H]);
       pose proof (PInv_of_soft s s' P S) as P'; (split; [apply PInv_Wk, P'|]);
       apply (PInv_reg_height s' n P'); destruct (ss_node _ _ (so_struct _ _ S) n) as (_&_&_&_&_&_&_&_&_&_&->); exact Hg.
Qed.

Lemma nc_recomputeFailed_W s n prev : Wk s -> 0 <= height (nd s n) -> nocrash (recomputeFailed s n prev).
Proof.
  intros W Hh. unfold recomputeFailed. apply nc_heapAddIfNotPresent; [apply (w_heap s W)|].
  rewrite nd_upd_proj by reflexivity. exact Hh.
Qed.

Lemma wkf_recomputeFailed s n prev s' : recomputeFailed s n prev = Ok s' -> wkf s s'.
Proof.
  intros H. unfold recomputeFailed in H.
  eapply wkf_trans; [|apply (wkf_heapAddIfNotPresent _ _ _ H)]. apply wkf_upd. intros y. auto.
Qed.

Lemma wkf_errorHandlers s n : wkf s (errorHandlers s n).
Proof.
  unfold errorHandlers. destruct (nkind (nd s n)); try apply wkf_emit.
  eapply wkf_trans; apply wkf_emit.
Qed.

Lemma nc_childrenLoop s n : PInv s -> nocrash (childrenLoop s n).
Proof.
  intros P. unfold childrenLoop.
  pose (I := fun (rest : list nid) (st : state * option nid) =>
    soft s st.1 /\ (forall c, c ∈ rest -> inGraph (nd s c) = true) /\
    (forall h, st.2 = Some h -> inHeap st.1 h = false /\ inGraph (nd s h) = true)).
  apply (nc_rfold I).
  - split; [apply soft_refl|]. split; [|discriminate].
    intros c Hc. apply (child_registered s c n (t_edges _ _ _ (p_t s P)) (t_zero _ _ _ (p_t s P)) Hc).
  - intros c rest [st h0] (S & Hreg & Hh). cbn [fst snd] in *.
    assert (Hreg' : forall c', c' ∈ rest -> inGraph (nd s c') = true) by (intros c' Hc'; apply Hreg; right; exact Hc').
    assert (Same : I rest (st, h0)) by (split; [exact S|split; [exact Hreg'|exact Hh]]).
    assert (Pst : PInv st) by (apply (PInv_of_soft s st P S)).
    assert (Hgst : forall m, inGraph (nd st m) = inGraph (nd s m)) by (intros m; apply (ss_node _ _ (so_struct _ _ S) m)).
    destruct (bool_decide_reflect (h0 = Some c)) as [|Hneq]; [split; [apply nc_Ok|intros s1 [= <-]; exact Same]|].
    destruct (shouldRecomputeChild st c) eqn:Esh; simpl; [|split; [apply nc_Ok|intros s1 [= <-]; exact Same]].
    assert (Hcm : inHeap st c = false).
    { unfold shouldRecomputeChild in Esh. destruct (inHeap st c); [discriminate|reflexivity]. }
    destruct h0 as [h|].
    + destruct (Hh h eq_refl) as [Hhm Hhg].
      assert (Hh0 : 0 <= height (nd st h)) by (apply (PInv_reg_height st h Pst); rewrite Hgst; exact Hhg).
      split.
      * apply nc_rbind; [|intros; apply nc_Ok].
        apply nc_heapAdd; [apply (t_heap _ _ _ (p_t st Pst))|exact Hhm|exact Hh0].
      * intros [st1 h1] Hstep. apply rbind_ok in Hstep as (st2 & H2 & [= <- <-]).
        pose proof (soft_heapAdd st h st2 Hhm H2) as S2.
        split; [eapply soft_trans; eauto|]. split; [exact Hreg'|].
        intros h' [= <-]. split; [|apply Hreg; left].
        destruct (t_heap _ _ _ (p_t st Pst)) as [Hi _].
        destruct (heapAdd_spec st h st2 Hi Hhm Hh0 H2) as (_ & I2 & Pm & _).
        apply (inHeap_false_iff st2 c I2). rewrite Pm. rewrite not_elem_of_cons. split.
        -- intros ->. congruence.
        -- apply (inHeap_false_iff st c Hi), Hcm.
    + split; [apply nc_Ok|]. intros [st1 h1] [= <- <-]. split; [exact S|]. split; [exact Hreg'|].
      intros h' [= <-]. split; [exact Hcm|apply Hreg; left].
Qed.

(* one recompute: no fault; and whatever the outcome the weak invariant holds afterwards *)
Lemma rns_nc fuel p s n :
  PInv s -> plan_ok s p = true -> inGraph (nd s n) = true ->
  nocrash (recomputeNodeSerial fuel p s n) /\
  forall s' e imm, recomputeNodeSerial fuel p s n = Ok (s', e, imm) ->
    Wk s' /\ (e <> None -> 0 <= height (nd s' n)).
Proof.
  intros P Hp Hg. unfold recomputeNodeSerial.
  assert (Hst : status s = 1) by apply (pq_status s (p_pq s P)).
  set (prev := recomputedAt (nd s n)) in *.
  set (s1 := upd s n (set recomputedAt (fun _ => stabNum s))) in *.
  assert (S1 : soft s s1).
  { apply soft_upd; intros x; [repeat split|]. intros Hk (A & B & C). repeat split; cbn; try lia; apply B || apply C. }
  assert (K0 : pass_ok QT p s s) by (split; [exact P|split; [exact Hp|split; [reflexivity|exact I]]]).
  assert (Hreg : forall st, soft s st -> inGraph (nd st n) = true).
  { intros st S. destruct (ss_node _ _ (so_struct _ _ S) n) as (_&_&_&_&_&_&_&_&_&_&->). exact Hg. }
  pose proof (PInv_of_soft s s1 P S1) as P1.
  (* failing: the restore and the handlers *)
  assert (Fail : forall st (e0 : err), Wk st -> 0 <= height (nd st n) ->
            nocrash (s0 <-! recomputeFailed st n prev; Ok (errorHandlers s0 n, Some e0, @None nid)) /\
            forall s' e imm, (s0 <-! recomputeFailed st n prev; Ok (errorHandlers s0 n, Some e0, @None nid)) = Ok (s', e, imm) ->
              Wk s' /\ (e <> None -> 0 <= height (nd s' n))).
  { intros st e0 Wst Hh. split; [apply nc_rbind; [apply nc_recomputeFailed_W; assumption|intros; apply nc_Ok]|].
    intros s' e imm HF. apply rbind_ok in HF as (s0 & H0 & [= <- _ _]).
    destruct (wkf_trans _ _ _ (wkf_recomputeFailed _ _ _ _ H0) (wkf_errorHandlers s0 n) Wst) as [W' Hh'].
    split; [exact W'|intros _; apply Hh', Hh]. }
  assert (Good : forall st, soft s st -> Wk st /\ 0 <= height (nd st n)).
  { intros st S. pose proof (PInv_of_soft s st P S) as Pst. split; [apply PInv_Wk, Pst|apply (PInv_reg_height st n Pst), Hreg, S]. }
  (* the cutoff phase *)
  assert (Cut : nocrash (match nkind (nd s n) with
     | KCutoff c =>
       '(s0, e) <-! invoke p s1 n WCut;
       match e with
       | Some e => Ok (s0, Some e, false)
       | None => let v := apCut c (value (nd s n)) (valueOf s1 (hd 0%nat (decl (nd s n)))) in
                 Ok (emit (EvCutoff n (value (nd s n)) (valueOf s1 (hd 0%nat (decl (nd s n)))) v) s0, None, v)
       end
     | _ => Ok (s1, None, false)
     end) /\ forall s2 e2 cut, (match nkind (nd s n) with
     | KCutoff c =>
       '(s0, e) <-! invoke p s1 n WCut;
       match e with
       | Some e => Ok (s0, Some e, false)
       | None => let v := apCut c (value (nd s n)) (valueOf s1 (hd 0%nat (decl (nd s n)))) in
                 Ok (emit (EvCutoff n (value (nd s n)) (valueOf s1 (hd 0%nat (decl (nd s n)))) v) s0, None, v)
       end
     | _ => Ok (s1, None, false)
     end) = Ok (s2, e2, cut) -> soft s s2).
  { destruct (nkind (nd s n)) as [| | | | |c| | |] eqn:Ek; try (split; [apply nc_Ok|intros s2 e2 cut [= <- _ _]; exact S1]).
    split.
    - apply nc_rbind; [apply nc_invoke; apply (PInv_hreg s1 P1)|]. intros [s3 [e3|]] _; apply nc_Ok.
    - intros s2 e2 cut H2. apply rbind_ok in H2 as ([s3 e3] & H3 & H2).
      assert (Hst1 : status s1 = 1) by (rewrite (so_status _ _ S1); exact Hst).
      pose proof (invoke_soft p s1 n WCut s3 e3 Hst1 (plan_ok_struct s s1 p (so_struct _ _ S1) Hp) H3) as S3.
      destruct e3 as [e0|]; injection H2 as <- _ _.
      + eapply soft_trans; eauto.
      + eapply soft_trans; [exact S1|]. eapply soft_trans; [exact S3|].
        apply soft_emit. simpl. apply Hreg. eapply soft_trans; eauto. }
  destruct Cut as [Cut1 Cut2].
  split.
  - apply nc_rbind; [exact Cut1|]. intros [[s2 e2] cut] H2. pose proof (Cut2 s2 e2 cut H2) as S2.
    destruct (Good s2 S2) as [W2 Hh2].
    destruct (pass_ok_soft QT HQT p s s s2 K0 S2) as (P2 & Hp2 & _).
    destruct e2 as [e0|].
    { destruct e0; try apply (proj1 (Fail s2 _ W2 Hh2)). apply nc_Ok. }
    destruct cut; [apply nc_Ok|].
    apply nc_rbind; [apply (nc_stabilizeNode fuel p s2 n P2 Hp2 (Hreg s2 S2))|].
    intros [s3 e3] H3. destruct e3 as [e0|].
    { destruct (stabilizeNode_err_W fuel p s2 n s3 e0 P2 Hp2 (Hreg s2 S2) H3) as [W3 Hh3].
      destruct e0; try apply (proj1 (Fail s3 _ W3 Hh3)). apply nc_Ok. }
    destruct (stabilizeNode_spec QT HQT bind_spec_holds fuel p s2 n s3 None I P2 Hp2 (Hreg s2 S2) H3) as [[?|?]|(P3 & Hp3 & Hn3 & _)]; [discriminate|discriminate|].
    set (s4 := insert_handler n (upd s3 n (set changedAt (fun _ => stabNum s3)))) in *.
    assert (S4 : soft s3 s4).
    { eapply soft_trans; [|apply soft_handlers].
      apply soft_upd; intros x; [repeat split|]. intros Hk (A & B & C). repeat split; cbn; try lia; apply A || apply C. }
    pose proof (PInv_of_soft s3 s4 P3 S4) as P4.
    apply nc_rbind; [apply (nc_childrenLoop s4 n P4)|]. intros [s5 held] H5.
    destruct (childrenLoop_spec s4 n s5 held P4 H5) as [S5 Hheld].
    pose proof (PInv_of_soft s4 s5 P4 S5) as P5.
    apply nc_rbind; [|intros [s6 imm'] _; apply nc_Ok].
    destruct held as [h|]; [|apply nc_Ok]. destruct (Hheld h eq_refl) as [Hm Hgh].
    destruct (canRecomputeImmediately s5 n h); [apply nc_Ok|].
    apply nc_rbind; [|intros; apply nc_Ok].
    apply nc_heapAdd; [apply (t_heap _ _ _ (p_t s5 P5))|exact Hm|apply (PInv_reg_height s5 h P5 Hgh)].
  - intros s' e imm H. apply rbind_ok in H as ([[s2 e2] cut] & H2 & H). pose proof (Cut2 s2 e2 cut H2) as S2.
    destruct (Good s2 S2) as [W2 Hh2].
    destruct (pass_ok_soft QT HQT p s s s2 K0 S2) as (P2 & Hp2 & _).
    destruct e2 as [e0|].
    { destruct e0; try apply (proj2 (Fail s2 _ W2 Hh2) s' e imm H). injection H as <- <- _. auto. }
    destruct cut; [injection H as <- <- _; split; [exact W2|congruence]|].
    apply rbind_ok in H as ([s3 e3] & H3 & H). destruct e3 as [e0|].
    { destruct (stabilizeNode_err_W fuel p s2 n s3 e0 P2 Hp2 (Hreg s2 S2) H3) as [W3 Hh3].
      destruct e0; try apply (proj2 (Fail s3 _ W3 Hh3) s' e imm H). injection H as <- <- _. auto. }
    (* success *)
    destruct (recomputeNodeSerial_spec QT HQT bind_spec_holds fuel p s n s' e imm I P Hp Hg) as [Hrej|[K _]].
    { unfold recomputeNodeSerial. fold prev. fold s1. rewrite H2. rewrite rbind_Ok. cbv beta iota. rewrite H3. rewrite rbind_Ok. cbv beta iota. exact H. }
    { exfalso. apply rbind_ok in H as ([s5 held] & _ & H). apply rbind_ok in H as ([s6 imm'] & _ & [= _ <- _]).
      destruct Hrej; discriminate. }
    destruct K as (P' & _). split; [apply PInv_Wk, P'|].
    apply rbind_ok in H as ([s5 held] & _ & H). apply rbind_ok in H as ([s6 imm'] & _ & [= _ <- _]). congruence.
Qed.

Lemma chain_nc fuel : forall p s0 s n,
  pass_ok QT p s0 s -> inGraph (nd s n) = true ->
  nocrash (recomputeChain fuel p s n) /\
  forall s' e at_, recomputeChain fuel p s n = Ok (s', e, at_) ->
    Wk s' /\ (e <> None -> 0 <= height (nd s' at_)).
Proof.
  induction fuel as [|fuel IH]; intros p s0 s n K Hg; [split; [apply nc_fuel|discriminate]|].
  destruct K as (P & Hp & Hn & Hq). simpl.
  destruct (rns_nc fuel p s n P Hp Hg) as [N1 N2].
  assert (Next : forall s1 c, recomputeNodeSerial fuel p s n = Ok (s1, None, Some c) ->
            pass_ok QT p s0 s1 /\ inGraph (nd s1 c) = true).
  { intros s1 c H1.
    destruct (recomputeNodeSerial_spec QT HQT bind_spec_holds fuel p s n s1 None (Some c) I P Hp Hg H1) as [[?|?]|[(P1 & Hp1 & Hn1 & Hq1) Himm]]; [discriminate|discriminate|].
    split; [split; [exact P1|split; [exact Hp1|split; [congruence|exact Hq1]]]|apply Himm; reflexivity]. }
  split.
  - apply nc_rbind; [exact N1|]. intros [[s1 e1] imm] H1.
    destruct e1 as [e0|]; [apply nc_Ok|]. destruct imm as [c|]; [|apply nc_Ok].
    destruct (Next s1 c H1) as [K1 Hgc]. apply (IH p s0 s1 c K1 Hgc).
  - intros s' e at_ H. apply rbind_ok in H as ([[s1 e1] imm] & H1 & H).
    destruct e1 as [e0|]; [injection H as <- <- <-; apply (N2 s1 (Some e0) imm H1)|].
    destruct imm as [c|]; [|injection H as <- <- <-; apply (N2 s1 None None H1)].
    destruct (Next s1 c H1) as [K1 Hgc]. apply (proj2 (IH p s0 s1 c K1 Hgc) s' e at_ H).
Qed.

Lemma removeMin_some w : hinv w -> 0 < Heap.cnt w -> exists n w', Heap.removeMin w = Some (n, w').
Proof.
  intros [I _] Hc. destruct (Heap.removeMin w) as [[n w']|] eqn:E; [eauto|]. exfalso.
  apply (heap_removeMin_none w I) in E. rewrite (inv_cnt w I), E in Hc. simpl in Hc. lia.
Qed.

Lemma passLoop_nc fuel : forall p s0 s always,
  pass_ok QT p s0 s ->
  nocrash (passLoop fuel p s always) /\
  forall s' e at_ always', passLoop fuel p s always = Ok (s', e, at_, always') ->
    Wk s' /\ (e <> None -> 0 <= height (nd s' at_)).
Proof.
  induction fuel as [|fuel IH]; intros p s0 s always K; [split; [apply nc_fuel|discriminate]|].
  simpl. destruct (Z.leb_spec (Heap.cnt (heap s)) 0) as [Hle|Hpos].
  { split; [apply nc_Ok|]. intros s' e at_ always' [= <- <- _ _]. split; [apply PInv_Wk, K|congruence]. }
  destruct K as (P & Hp & Hn & Hq).
  destruct (t_heap _ _ _ (p_t s P)) as [Hi Hqd].
  destruct (removeMin_some (heap s) Hi Hpos) as (n & w & Erm). rewrite Erm.
  set (s1 := s <| heap := w |>) in *.
  destruct (removeMin_spec (heap s) n w Hi Erm) as (Hi' & Pm & Hin).
  assert (Hnin : n ∈ Heap.ids (heap s)) by (rewrite Pm; left).
  destruct (Hqd n Hnin) as [Hgn _].
  assert (S1 : soft s s1).
  { apply soft_only_heap; [apply only_heap_set|]. intros _ _. split; [exact Hi'|].
    intros m Hm. assert (Hm' : m ∈ Heap.ids (heap s)) by (rewrite Pm; right; exact Hm).
    destruct (Hqd m Hm') as [A B]. split; [exact A|]. cbn. rewrite Hin.
    pose proof (inv_nodup _ (hinv_inv _ Hi)) as Hnd. rewrite Pm in Hnd.
    apply stdpp.list.NoDup_cons in Hnd as [Hnn _].
    rewrite decide_False by (intros ->; contradiction). exact B. }
  assert (K1 : pass_ok QT p s0 s1).
  { destruct (pass_ok_soft QT HQT p s s s1 ltac:(split; [exact P|split; [exact Hp|split; [reflexivity|exact Hq]]]) S1) as (A & B & C & D).
    split; [exact A|split; [exact B|split; [congruence|exact D]]]. }
  destruct (chain_nc fuel p s0 s1 n K1 Hgn) as [C1 C2].
  split.
  - apply nc_rbind; [exact C1|]. intros [[s2 e2] at2] H2. destruct e2 as [e0|]; [apply nc_Ok|].
    destruct (recomputeChain_spec QT HQT bind_spec_holds fuel p s0 s1 n s2 None at2 K1 Hgn H2) as [[?|?]|K2]; [discriminate|discriminate|].
    apply (IH p s0 s2 _ K2).
  - intros s' e at_ always' H. apply rbind_ok in H as ([[s2 e2] at2] & H2 & H).
    destruct e2 as [e0|]; [injection H as <- <- <- _; apply (C2 s2 (Some e0) at2 H2)|].
    destruct (recomputeChain_spec QT HQT bind_spec_holds fuel p s0 s1 n s2 None at2 K1 Hgn H2) as [[?|?]|K2]; [discriminate|discriminate|].
    apply (proj2 (IH p s0 s2 _ K2) s' e at_ always' H).
Qed.

(** the end of the pass, from the weak invariant only *)
Lemma requeue_W l : forall s,
  Wk s ->
  nocrash (rfold (fun s n => if height (nd s n) =? unset then Ok s else heapAddIfNotPresent s n) l s) /\
  forall s', rfold (fun s n => if height (nd s n) =? unset then Ok s else heapAddIfNotPresent s n) l s = Ok s' -> wkf s s'.
Proof.
  induction l as [|n l IH]; intros s W; simpl; [split; [apply nc_Ok|intros s' [= <-]; apply wkf_refl]|].
  assert (Step : nocrash (if height (nd s n) =? unset then Ok s else heapAddIfNotPresent s n) /\
                 forall s1, (if height (nd s n) =? unset then Ok s else heapAddIfNotPresent s n) = Ok s1 -> wkf s s1).
  { destruct (Z.eqb_spec (height (nd s n)) unset) as [E|E].
    - split; [apply nc_Ok|intros s1 [= <-]; apply wkf_refl].
    - split; [|intros s1 H1; apply (wkf_heapAddIfNotPresent _ _ _ H1)].
      apply nc_heapAddIfNotPresent; [apply (w_heap s W)|]. pose proof (w_h s W n). unfold unset in E. lia. }
  destruct Step as [St1 St2]. split.
  - apply nc_rbind; [exact St1|]. intros s1 H1. apply (IH s1), (St2 s1 H1 W).
  - intros s' H. apply rbind_ok in H as (s1 & H1 & H). eapply wkf_trans; [apply (St2 s1 H1)|].
    apply (proj2 (IH s1 (proj1 (St2 s1 H1 W))) s' H).
Qed.

Lemma wkf_setStale s n s' : setStale s n = Ok s' -> wkf s s'.
Proof.
  intros H. apply setStale_inv in H as [[_ ->]|[Hu H]]; [apply wkf_refl|]. cbn zeta in H.
  set (s1 := upd s n (set setAt (fun _ => stabNum s))) in *.
  assert (W1 : wkf s s1) by (apply wkf_upd; intros y; auto).
  destruct H as [[_ ->]|[Hm H]]; [exact W1|]. eapply wkf_trans; [exact W1|].
  apply (wkf_heapAddIfNotPresent s1 n s'). unfold heapAddIfNotPresent.
  change (inHeap s1 n) with (inHeap s n). rewrite Hm. exact H.
Qed.

Lemma nc_setStale_W s n : Wk s -> nocrash (setStale s n).
Proof.
  intros W. unfold setStale. destruct (Z.eqb_spec (height (nd s n)) unset) as [|Hu]; [apply nc_Ok|].
  set (s1 := upd s n (set setAt (fun _ => stabNum s))).
  destruct (inHeap s1 n) eqn:E; [apply nc_Ok|]. apply nc_heapAdd; [apply (w_heap s W)|exact E|].
  unfold s1. rewrite nd_upd_proj by reflexivity. pose proof (w_h s W n). unfold unset in Hu. lia.
Qed.

Lemma nc_applyDeferredSets_W s : Wk s -> nocrash (applyDeferredSets s).
Proof.
  intros W. unfold applyDeferredSets. apply nc_rbind; [|intros; apply nc_Ok].
  apply (nc_rfold (fun rest st => Wk st /\ forall v, v ∈ rest -> exists e, nkind (nd st v) = KVar e)).
  - split; [exact W|]. intros v Hv. apply (w_vars s W v). apply elem_of_app in Hv. tauto.
  - intros v rest st [Wst Hrest]. destruct (Hrest v ltac:(left)) as [e He].
    assert (St0 : forall st0 x, stabilizeNode 0 [] st v = Ok (st0, x) -> wkf st st0).
    { intros st0 x H0. unfold stabilizeNode in H0. rewrite He in H0.
      destruct (pending (nd st v)); [destruct (_ =? _)|]; apply ok_inv in H0 as [-> _]; try apply wkf_refl.
      apply wkf_upd. intros y. auto. }
    split.
    + apply nc_rbind.
      * unfold stabilizeNode. rewrite He. destruct (pending (nd st v)); [destruct (_ =? _)|]; apply nc_Ok.
      * intros [st0 x] H0. apply nc_setStale_W. apply (St0 st0 x H0 Wst).
    + intros st1 H1. apply rbind_ok in H1 as ([st0 x] & H0 & H1).
      pose proof (wkf_trans _ _ _ (St0 st0 x H0) (wkf_setStale _ _ _ H1)) as Wf.
      split; [apply (Wf Wst)|]. intros v' Hv'. destruct (Hrest v' ltac:(right; exact Hv')) as [e' He'].
      (* kinds are static along these steps *)
      assert (Hk : nkind (nd st1 v') = nkind (nd st v')).
      { apply setStale_inv in H1 as [[_ ->]|[_ H1]].
        - unfold stabilizeNode in H0. rewrite He in H0.
          destruct (pending (nd st v)); [destruct (_ =? _)|]; apply ok_inv in H0 as [-> _]; try reflexivity.
          apply nd_upd_proj. reflexivity.
        - cbn zeta in H1. assert (Hk0 : nkind (nd st0 v') = nkind (nd st v')).
          { unfold stabilizeNode in H0. rewrite He in H0.
            destruct (pending (nd st v)); [destruct (_ =? _)|]; apply ok_inv in H0 as [-> _]; try reflexivity.
            apply nd_upd_proj. reflexivity. }
          destruct H1 as [[_ ->]|[_ H1]]; [rewrite nd_upd_proj by reflexivity; exact Hk0|].
          apply heapAdd_inv in H1 as (w & _ & ->).
          change (nd (upd st0 v (set setAt (fun _ => stabNum st0)) <| heap := w |>) v') with (nd (upd st0 v (set setAt (fun _ => stabNum st0))) v').
          rewrite nd_upd_proj by reflexivity. exact Hk0. }
      exists e'. rewrite Hk. exact He'.
Qed.

Lemma nc_stabilizeEnd_W s e : Wk s -> nocrash (stabilizeEnd s e).
Proof.
  intros W. unfold stabilizeEnd. apply nc_rbind; [|intros; apply nc_Ok].
  apply nc_applyDeferredSets_W.
  (* the handlers only log *)
  set (s1 := emit (EvPassEnd (classify e)) s).
  assert (W1 : Wk s1) by (apply (wkf_emit s _ W)).
  unfold runUpdateHandlers.
  assert (G : forall l st, Wk st -> Wk (foldl (fun s k => match obs s !! k with
                             | Some n => emit (EvObsUpd k (valueOf s n)) s
                             | None => emit (EvUpd k) s end) st l)).
  { induction l as [|k l IHl]; intros st Wst; [exact Wst|]. simpl. apply IHl.
    destruct (obs st !! k); apply (wkf_emit st _ Wst). }
  assert (Wst : Wk (s1 <| status := 2 |>)).
  { refine (proj1 (wkf_static s1 _ _ _ _ _ W1)); try reflexivity. intros m. auto. }
  specialize (G (handlers (s1 <| status := 2 |>)) _ Wst).
  refine (proj1 (wkf_static _ _ _ _ _ _ G)); try reflexivity. intros m. auto.
Qed.

Lemma nc_stabilize p cancelled s : Inv s -> plan_ok s p = true -> nocrash (stabilize p cancelled s).
Proof.
  intros HI Hp. unfold stabilize.
  rewrite (q_status s (inv_quiet s HI)). simpl.
  set (s1 := emit EvPassStart (s <| status := 1 |>)) in *.
  pose proof (Inv_PInv_start s HI) as P1. fold s1 in P1.
  assert (SS1 : same_struct s s1) by (apply same_struct_nodes; reflexivity).
  assert (K1 : pass_ok QT p s1 s1).
  { split; [exact P1|]. split; [apply (plan_ok_struct s s1 p SS1 Hp)|]. split; [reflexivity|exact I]. }
  destruct (passLoop_nc (passFuel s1) p s1 s1 [] K1) as [L1 L2].
  assert (Loop : nocrash (if cancelled && (0 <? Heap.cnt (heap s1)) then Ok (s1, Some ECancelled, 0%nat, [])
                          else passLoop (passFuel s1) p s1 []) /\
                 forall s2 e2 at2 always, (if cancelled && (0 <? Heap.cnt (heap s1)) then Ok (s1, Some ECancelled, 0%nat, [])
                          else passLoop (passFuel s1) p s1 []) = Ok (s2, e2, at2, always) ->
                   Wk s2 /\ forall m, e2 = Some (EPanic m) -> 0 <= height (nd s2 at2)).
  { destruct (cancelled && _).
    - split; [apply nc_Ok|]. intros s2 e2 at2 always [= <- <- _ _]. split; [apply PInv_Wk, P1|discriminate].
    - split; [exact L1|]. intros s2 e2 at2 always H2. destruct (L2 s2 e2 at2 always H2) as [A B].
      split; [exact A|]. intros m ->. apply B. discriminate. }
  destruct Loop as [Lp1 Lp2].
  apply nc_rbind; [exact Lp1|]. intros [[[s2 e2] at2] always] H2. destruct (Lp2 s2 e2 at2 always H2) as [W2 Hat].
  destruct (requeue_W always s2 W2) as [R1 R2].
  apply nc_rbind; [exact R1|]. intros s3 H3. destruct (R2 s3 H3 W2) as [W3 Hh3].
  assert (Rec : nocrash (match e2 with
         | Some (EPanic _) =>
           let s := upd s3 at2 (set recomputedAt (fun _ => 0)) in
           s <-! heapAddIfNotPresent s at2;
           Ok (errorHandlers s at2)
         | _ => Ok s3
         end) /\ forall s4, (match e2 with
         | Some (EPanic _) =>
           let s := upd s3 at2 (set recomputedAt (fun _ => 0)) in
           s <-! heapAddIfNotPresent s at2;
           Ok (errorHandlers s at2)
         | _ => Ok s3
         end) = Ok s4 -> Wk s4).
  { destruct e2 as [[| |n|n| | |]|]; try (split; [apply nc_Ok|intros s4 [= <-]; exact W3]).
    set (s3' := upd s3 at2 (set recomputedAt (fun _ => 0))).
    assert (W3' : Wk s3') by (refine (proj1 (wkf_upd s3 at2 _ _ W3)); intros y; auto).
    split.
    - cbv zeta. apply nc_rbind; [|intros; apply nc_Ok]. apply nc_heapAddIfNotPresent; [apply (w_heap _ W3')|].
      unfold s3'. rewrite nd_upd_proj by reflexivity. apply Hh3, (Hat n eq_refl).
    - cbv zeta. intros s4 H4. apply rbind_ok in H4 as (s5 & H5 & [= <-]).
      apply (wkf_trans _ _ _ (wkf_heapAddIfNotPresent _ _ _ H5) (wkf_errorHandlers s5 at2) W3'). }
  destruct Rec as [Rc1 Rc2].
  apply nc_rbind; [exact Rc1|]. intros s4 H4.
  apply nc_rbind; [apply nc_stabilizeEnd_W, (Rc2 s4 H4)|]. intros; apply nc_Ok.
Qed.

Theorem nc_step_stabilize s o : Inv s -> op_ok s o = true -> is_stabilize o = true -> nocrash (step s o).
Proof.
  intros HI Hok Hg. destruct o; try discriminate; simpl in Hok |- *.
  - apply nc_stabilize; assumption.
  - apply nc_stabilize; [exact HI|reflexivity].
Qed.

Theorem nc_step_new s o : is_new o = true -> nocrash (step s o).
Proof. intros Hg. destruct o; try discriminate; simpl; apply nc_Ok. Qed.

(** * Crash-freedom of every operation except ParallelStabilize *)
Theorem nc_step s o :
  Inv s -> op_ok s o = true -> op_clean s o = true -> is_parstabilize o = false -> nocrash (step s o).
Proof.
  intros HI Hok Hcl Hnp.
  destruct o; try (simpl in Hcl; discriminate); try (simpl in Hnp; discriminate).
  - simpl. destruct (nkind _); apply nc_Ok.
  - simpl. destruct (nkind _); apply nc_Ok.
  - apply nc_step_observe; auto.
  - apply nc_step_unobserve; auto.
  - apply nc_step_setvar; auto.
  - apply nc_step_setvar; auto.
  - apply nc_step_addinput; auto.
  - apply nc_step_removeinput; auto.
  - apply nc_step_stabilize; auto.
  - apply nc_step_stabilize; auto.
Qed.

(** * ParallelStabilize: no fault as long as no lhs-change node is in play *)
Lemma rnp_nc fuel p s n :
  PInv s -> plan_ok s p = true -> inGraph (nd s n) = true -> nocrash (recomputeNodeParallel fuel p s n).
Proof.
  intros P Hp Hg. unfold recomputeNodeParallel.
  assert (Hst : status s = 1) by apply (pq_status s (p_pq s P)).
  set (prev := recomputedAt (nd s n)) in *.
  set (s1 := upd s n (set recomputedAt (fun _ => stabNum s))) in *.
  assert (S1 : soft s s1).
  { apply soft_upd; intros x; [repeat split|]. intros Hk (A & B & C). repeat split; cbn; try lia; apply B || apply C. }
  assert (K0 : pass_ok QT p s s) by (split; [exact P|split; [exact Hp|split; [reflexivity|exact I]]]).
  assert (Hreg : forall st, soft s st -> inGraph (nd st n) = true).
  { intros st S. destruct (ss_node _ _ (so_struct _ _ S) n) as (_&_&_&_&_&_&_&_&_&_&->). exact Hg. }
  pose proof (PInv_of_soft s s1 P S1) as P1.
  assert (Fail : forall st (e0 : err), Wk st -> 0 <= height (nd st n) ->
            nocrash (s0 <-! recomputeFailed st n prev; Ok (errorHandlers s0 n, Some e0))).
  { intros st e0 Wst Hh. apply nc_rbind; [apply nc_recomputeFailed_W; assumption|intros; apply nc_Ok]. }
  assert (Panic : forall st m, Wk st -> 0 <= height (nd st n) ->
            nocrash (s0 <-! heapAddIfNotPresent (upd st n (set recomputedAt (fun _ => 0))) n; Ok (errorHandlers s0 n, Some (EPanic m)))).
  { intros st m Wst Hh. apply nc_rbind; [|intros; apply nc_Ok].
    apply nc_heapAddIfNotPresent; [apply (w_heap st Wst)|]. rewrite nd_upd_proj by reflexivity. exact Hh. }
  assert (Good : forall st, soft s st -> Wk st /\ 0 <= height (nd st n)).
  { intros st S. pose proof (PInv_of_soft s st P S) as Pst. split; [apply PInv_Wk, Pst|apply (PInv_reg_height st n Pst), Hreg, S]. }
  apply nc_rbind.
  { destruct (nkind (nd s n)); try apply nc_Ok.
    apply nc_rbind; [apply nc_invoke; apply (PInv_hreg s1 P1)|]. intros [s3 [e3|]] _; apply nc_Ok. }
  intros [[s2 e2] cut] H2.
  assert (S2 : soft s s2).
  { destruct (nkind (nd s n)) as [| | | | |c| | |] eqn:Ek; try (injection H2 as <- _ _; exact S1).
    apply rbind_ok in H2 as ([s3 e3] & H3 & H2).
    assert (Hst1 : status s1 = 1) by (rewrite (so_status _ _ S1); exact Hst).
    pose proof (invoke_soft p s1 n WCut s3 e3 Hst1 (plan_ok_struct s s1 p (so_struct _ _ S1) Hp) H3) as S3.
    destruct e3 as [e0|]; injection H2 as <- _ _.
    - eapply soft_trans; eauto.
    - eapply soft_trans; [exact S1|]. eapply soft_trans; [exact S3|].
      apply soft_emit. simpl. apply Hreg. eapply soft_trans; eauto. }
  destruct (Good s2 S2) as [W2 Hh2].
  destruct (pass_ok_soft QT HQT p s s s2 K0 S2) as (P2 & Hp2 & _).
  destruct e2 as [e0|].
  { destruct e0; try apply (Fail s2 _ W2 Hh2). apply (Panic s2 _ W2 Hh2). }
  destruct cut; [apply nc_Ok|].
  apply nc_rbind; [apply (nc_stabilizeNode fuel p s2 n P2 Hp2 (Hreg s2 S2))|].
  intros [s3 e3] H3. destruct e3 as [e0|].
  { destruct (stabilizeNode_err_W fuel p s2 n s3 e0 P2 Hp2 (Hreg s2 S2) H3) as [W3 Hh3].
    destruct e0; try apply (Fail s3 _ W3 Hh3). apply (Panic s3 _ W3 Hh3). }
  destruct (stabilizeNode_spec QT HQT bind_spec_holds fuel p s2 n s3 None I P2 Hp2 (Hreg s2 S2) H3) as [[?|?]|(P3 & Hp3 & Hn3 & _)]; [discriminate|discriminate|].
  set (s4 := insert_handler n (upd s3 n (set changedAt (fun _ => stabNum s3)))) in *.
  assert (S4 : soft s3 s4).
  { eapply soft_trans; [|apply soft_handlers].
    apply soft_upd; intros x; [repeat split|]. intros Hk (A & B & C). repeat split; cbn; try lia; apply A || apply C. }
  pose proof (PInv_of_soft s3 s4 P3 S4) as P4.
  apply nc_rbind; [|intros; apply nc_Ok].
  apply (nc_rfold (fun (rest : list nid) st => soft s4 st /\ forall c, c ∈ rest -> inGraph (nd s4 c) = true)).
  - split; [apply soft_refl|]. intros c Hc.
    apply (child_registered s4 c n (t_edges _ _ _ (p_t s4 P4)) (t_zero _ _ _ (p_t s4 P4)) Hc).
  - intros c rest st [Sst Hrest].
    pose proof (PInv_of_soft s4 st P4 Sst) as Pst.
    destruct (shouldRecomputeChild st c) eqn:E.
    + assert (Hcm : inHeap st c = false).
      { unfold shouldRecomputeChild in E. destruct (inHeap st c); [discriminate|reflexivity]. }
      split.
      * apply nc_heapAdd; [apply (t_heap _ _ _ (p_t st Pst))|exact Hcm|].
        apply (PInv_reg_height st c Pst). destruct (ss_node _ _ (so_struct _ _ Sst) c) as (_&_&_&_&_&_&_&_&_&_&->).
        apply Hrest. left.
      * intros st1 H1. split; [eapply soft_trans; [exact Sst|apply (soft_heapAdd st c st1 Hcm H1)]|].
        intros c' Hc'. apply Hrest. right. exact Hc'.
    + split; [apply nc_Ok|]. intros st1 [= <-]. split; [exact Sst|]. intros c' Hc'. apply Hrest. right. exact Hc'.
Qed.

Section par_nc.
  Context (Q0 : state -> Prop) (HQ0 : forall s s', same_struct s s' -> Q0 s -> Q0 s') (HB0 : bind_spec Q0).
  (* no lhs-change node is registered *)
  Hypothesis Hnolhs : forall st n b, Q0 st -> PInv st -> inGraph (nd st n) = true -> nkind (nd st n) <> KBindLhs b.

  Lemma block_nc fuel p s0 : forall l acc,
    pass_ok Q0 p s0 acc.1.1 ->
    nocrash (rfold (blockStep fuel p) l acc) /\
    forall acc', rfold (blockStep fuel p) l acc = Ok acc' -> pass_ok Q0 p s0 acc'.1.1.
  Proof.
    induction l as [|m l IH]; intros acc K; simpl; [split; [apply nc_Ok|intros acc' [= <-]; exact K]|].
    destruct acc as [[st e] al]. cbn [fst snd] in K.
    assert (Step : nocrash (blockStep fuel p (st, e, al) m) /\
                   forall acc1, blockStep fuel p (st, e, al) m = Ok acc1 -> pass_ok Q0 p s0 acc1.1.1).
    { unfold blockStep. destruct (Z.eqb_spec (height (nd st m)) unset) as [Hu|Hu].
      - split; [apply nc_Ok|intros acc1 [= <-]; exact K].
      - destruct K as (P & Hp & Hn & Hq).
        assert (Hg : inGraph (nd st m) = true) by (apply (Inv_hreg st (t_zero _ _ _ (p_t st P)) (t_height _ _ _ (p_t st P)) m Hu)).
        split.
        + apply nc_rbind; [apply (rnp_nc fuel p st m P Hp Hg)|]. intros [st' e'] _. apply nc_Ok.
        + intros acc1 H1. apply rbind_ok in H1 as ([st' e'] & Hr & [= <-]). cbn [fst snd].
          destruct (recomputeNodeParallel_spec Q0 HQ0 HB0 fuel p st m st' e' Hq P Hp Hg Hr) as [A B].
          destruct A as [A|(A1 & A2 & A3 & A4)].
          * exfalso. apply (B (fun b => Hnolhs st m b Hq P Hg) A).
          * split; [exact A1|split; [exact A2|split; [congruence|exact A4]]]. }
    destruct Step as [St1 St2]. split.
    - apply nc_rbind; [exact St1|]. intros acc1 H1. apply (IH acc1 (St2 acc1 H1)).
    - intros acc' H. apply rbind_ok in H as (acc1 & H1 & H). apply (proj2 (IH acc1 (St2 acc1 H1)) acc' H).
  Qed.

  Lemma parLoop_nc fuel : forall p s0 s always,
    pass_ok Q0 p s0 s ->
    nocrash (parLoop fuel p s always) /\
    forall s' e always', parLoop fuel p s always = Ok (s', e, always') -> pass_ok Q0 p s0 s'.
  Proof.
    induction fuel as [|fuel IH]; intros p s0 s always K; [split; [apply nc_fuel|discriminate]|].
    rewrite parLoop_S. destruct (Heap.cnt (heap s) <=? 0); [split; [apply nc_Ok|intros s' e always' [= <- _ _]; exact K]|].
    destruct (Heap.takeMinBlock (heap s)) as [block w] eqn:Etb. cbv zeta.
    set (sb := s <| heap := w |>) in *.
    destruct K as (P & Hp & Hn & Hq).
    destruct (t_heap _ _ _ (p_t s P)) as [Hi Hqd].
    destruct (takeMinBlock_spec (heap s) block w Hi Etb) as (Hi' & Pm & Hin).
    assert (S1 : soft s sb).
    { apply soft_only_heap; [apply only_heap_set|]. intros _ _. split; [exact Hi'|].
      intros m Hm. assert (Hm' : m ∈ Heap.ids (heap s)) by (rewrite Pm; apply elem_of_app; right; exact Hm).
      destruct (Hqd m Hm') as [A B]. split; [exact A|]. cbn. rewrite Hin.
      pose proof (inv_nodup _ (hinv_inv _ Hi)) as Hnd. rewrite Pm in Hnd.
      apply NoDup_app in Hnd as (_ & Hdis & _).
      rewrite bool_decide_false by (intros Hx; apply (Hdis m Hx Hm)). exact B. }
    assert (Kb : pass_ok Q0 p s0 sb).
    { destruct (pass_ok_soft Q0 HQ0 p s s sb ltac:(split; [exact P|split; [exact Hp|split; [reflexivity|exact Hq]]]) S1) as (A & B & C & D).
      split; [exact A|split; [exact B|split; [congruence|exact D]]]. }
    match goal with |- nocrash (rbind (rfold _ ?l ?acc) _) /\ _ =>
      destruct (block_nc fuel p s0 l acc Kb) as [B1 B2] end.
    split.
    - apply nc_rbind; [exact B1|]. intros [[s2 e2] always2] H2. specialize (B2 _ H2). cbn [fst snd] in B2.
      destruct e2; [apply nc_Ok|apply (IH p s0 s2 always2 B2)].
    - intros s' e always' H. apply rbind_ok in H as ([[s2 e2] always2] & H2 & H). specialize (B2 _ H2). cbn [fst snd] in B2.
      destruct e2; [injection H as <- _ _; exact B2|apply (proj2 (IH p s0 s2 always2 B2) s' e always' H)].
  Qed.

  Lemma nc_parStabilize p s : Inv s -> Q0 s -> plan_ok s p = true -> nocrash (parStabilize p s).
  Proof.
    intros HI Hq Hp. unfold parStabilize.
    rewrite (q_status s (inv_quiet s HI)). simpl.
    set (s1 := emit EvPassStart (s <| status := 1 |>)) in *.
    pose proof (Inv_PInv_start s HI) as P1. fold s1 in P1.
    assert (SS1 : same_struct s s1) by (apply same_struct_nodes; reflexivity).
    assert (K1 : pass_ok Q0 p s1 s1).
    { split; [exact P1|]. split; [apply (plan_ok_struct s s1 p SS1 Hp)|]. split; [reflexivity|apply (HQ0 s s1 SS1 Hq)]. }
    destruct (parLoop_nc (passFuel s1) p s1 s1 [] K1) as [L1 L2].
    apply nc_rbind; [exact L1|]. intros [[s2 e2] always] H2. destruct (L2 s2 e2 always H2) as (P2 & _).
    pose proof (PInv_Wk s2 P2) as W2.
    assert (Rq : forall l st, Wk st ->
              nocrash (rfold (fun s n => if (height (nd s n) =? unset) || inHeap s n then Ok s else heapAdd s n) l st) /\
              forall st', rfold (fun s n => if (height (nd s n) =? unset) || inHeap s n then Ok s else heapAdd s n) l st = Ok st' -> Wk st').
    { induction l as [|n l IHl]; intros st Wst; simpl; [split; [apply nc_Ok|intros st' [= <-]; exact Wst]|].
      assert (Step : nocrash (if (height (nd st n) =? unset) || inHeap st n then Ok st else heapAdd st n) /\
                     forall st1, (if (height (nd st n) =? unset) || inHeap st n then Ok st else heapAdd st n) = Ok st1 -> Wk st1).
      { destruct (Z.eqb_spec (height (nd st n)) unset) as [E|E]; simpl; [split; [apply nc_Ok|intros st1 [= <-]; exact Wst]|].
        destruct (inHeap st n) eqn:Em; [split; [apply nc_Ok|intros st1 [= <-]; exact Wst]|].
        split.
        - apply nc_heapAdd; [apply (w_heap st Wst)|exact Em|]. pose proof (w_h st Wst n). unfold unset in E. lia.
        - intros st1 H1. refine (proj1 (wkf_heapAddIfNotPresent st n st1 _ Wst)). unfold heapAddIfNotPresent. rewrite Em. exact H1. }
      destruct Step as [A B]. split.
      - apply nc_rbind; [exact A|]. intros st1 H1. apply (IHl st1 (B st1 H1)).
      - intros st' H. apply rbind_ok in H as (st1 & H1 & H). apply (proj2 (IHl st1 (B st1 H1)) st' H). }
    destruct (Rq always s2 W2) as [R1 R2].
    apply nc_rbind; [exact R1|]. intros s3 H3.
    apply nc_rbind; [apply nc_stabilizeEnd_W, (R2 s3 H3)|]. intros; apply nc_Ok.
  Qed.
End par_nc.

Theorem nc_step_parstabilize_bindfree s o :
  Inv s -> binds s = ∅ -> op_ok s o = true -> is_parstabilize o = true -> nocrash (step s o).
Proof.
  intros HI Hb Hok Hg. destruct o; try discriminate. simpl in Hok |- *.
  apply (nc_parStabilize bindfree); auto.
  - intros a b SS H. unfold bindfree. rewrite (ss_binds _ _ SS). exact H.
  - apply bind_spec_bindfree.
  - intros st n b Hq P Hgn Ek.
    pose proof (p_kinds st P n (has_inGraph st n Hgn)) as K. rewrite Ek in K. destruct K as [_ [r Hr]].
    unfold bindfree in Hq. rewrite Hq, lookup_empty in Hr. discriminate.
Qed.

From stdpp Require Import sorting.
Local Open Scope Z_scope.
(** * The invariant implies the boolean well-formedness predicate of EngineWf *)
Lemma forallb_elem {A} (f : A -> bool) l : forallb f l = true <-> forall x, x ∈ l -> f x = true.
Proof.
  rewrite forallb_forall. split; intros H x Hx; apply H; [apply elem_of_list_In|apply elem_of_list_In in Hx]; exact Hx.
Qed.

Lemma elem_of_allNodes s n : n ∈ allNodes s <-> has s n /\ (n < next s)%nat.
Proof.
  unfold allNodes. rewrite elem_of_list_filter, elem_of_seq. unfold has. split; [intros [? ?]|intros [? ?]]; split; auto; lia.
Qed.

Section wfb.
  Context (s : state) (HI : Inv s).

  Lemma wf_edges : edges_symmetric s = true.
  Proof.
    unfold edges_symmetric. apply forallb_elem. intros c _. apply andb_true_iff. split; apply forallb_elem.
    - intros p _. apply Nat.eqb_eq. apply (inv_edges s HI).
    - intros d _. apply Nat.eqb_eq. symmetry. apply (inv_edges s HI).
  Qed.

  Lemma wf_zero : unregistered_zeroed s = true.
  Proof.
    unfold unregistered_zeroed. apply forallb_elem. intros n _. cbn zeta.
    destruct (inGraph (nd s n)) eqn:E; [reflexivity|]. simpl.
    destruct (inv_zero s HI n E) as (-> & -> & -> & ->).
    destruct (inv_heap s HI) as [Hi Hq].
    destruct (inHeap s n) eqn:Em; [|reflexivity].
    apply (inHeap_iff s n Hi) in Em. destruct (Hq n Em). congruence.
  Qed.

  Lemma wf_nec : registered_iff_necessary s = true.
  Proof.
    unfold registered_iff_necessary. apply forallb_elem. intros n _. rewrite (inv_nec s HI n).
    destruct (isNecessary (nd s n)); reflexivity.
  Qed.

  Lemma wf_par : parents_are_declared s = true.
  Proof.
    unfold parents_are_declared. apply forallb_elem. intros n _. cbn zeta.
    destruct (inGraph (nd s n)) eqn:E; [|reflexivity]. simpl.
    rewrite (vo_reg s (inv_valid s HI) n E), (inv_par s HI n E). apply bool_decide_eq_true. reflexivity.
  Qed.

  Lemma wf_height : heights_ordered s = true.
  Proof.
    unfold heights_ordered. apply forallb_elem. intros n _. cbn zeta.
    destruct (inGraph (nd s n)) eqn:E; [|reflexivity]. simpl.
    destruct (inv_height s HI n E) as ((A1 & A2) & B & C).
    rewrite !andb_true_iff. repeat split; try lia.
    apply forallb_elem. intros p Hp. specialize (B p Hp). lia.
  Qed.

  Lemma wf_counts : counts_ok s = true.
  Proof.
    unfold counts_ok. destruct (inv_count s HI) as [C1 C2 C3]. rewrite !andb_true_iff. split; [split|].
    - apply bool_decide_eq_true, C1.
    - apply bool_decide_eq_true. unfold EngineWf.sortn.
      apply (Sorted_unique Nat.le).
      + apply Sorted_merge_sort. apply _.
      + apply Sorted.StronglySorted_Sorted. unfold allNodes.
        assert (G : forall a k, StronglySorted Nat.le (seq a k)).
        { intros a k. revert a. induction k as [|k IH]; intros a; [constructor|]. simpl. constructor; [apply IH|].
          apply List.Forall_forall. intros x Hx. apply in_seq in Hx. lia. }
        assert (F : forall (P : nat -> Prop) `{forall x, Decision (P x)} l, StronglySorted Nat.le l -> StronglySorted Nat.le (filter P l)).
        { intros P HP l Hl. induction Hl as [|a l Hl IH Ha]; [constructor|].
          rewrite filter_cons. destruct (decide (P a)); [|exact IH]. constructor; [exact IH|].
          apply List.Forall_forall. intros x Hx. apply elem_of_list_In, elem_of_list_filter in Hx as [_ Hx].
          rewrite List.Forall_forall in Ha. apply Ha, elem_of_list_In, Hx. }
        apply F, F, G.
      + rewrite merge_sort_Permutation. apply NoDup_Permutation; [exact C1| |].
        * apply stdpp.list.NoDup_filter, stdpp.list.NoDup_filter, NoDup_seq.
        * intros n. rewrite elem_of_list_filter, elem_of_allNodes, C2. split; [|tauto].
          intros Hn. split; [exact Hn|]. pose proof (has_inGraph s n Hn) as Hh.
          split; [exact Hh|apply (io_lt s (inv_ids s HI)), Hh].
    - apply Z.eqb_eq, C3.
  Qed.

  Lemma wf_trans : transients_empty s = true.
  Proof.
    unfold transients_empty. destruct (inv_quiet s HI) as [Q1 Q2 Q3 Q4 Q5 Q6 Q7 Q8 Q9].
    rewrite !andb_true_iff. repeat split; try (apply Z.eqb_eq; assumption); try (apply bool_decide_eq_true; assumption).
    - apply forallb_elem. intros n _. rewrite Q7, Q8. reflexivity.
    - apply forallb_elem. intros q Hq. apply bool_decide_eq_true.
      rewrite stdpp.list.Forall_forall in Q9. apply Q9, Hq.
  Qed.

  Lemma wf_obs : observers_ok s = true.
  Proof.
    unfold observers_ok. destruct (inv_obs s HI) as [O1 O2 O3]. apply andb_true_iff. split.
    - apply forallb_elem. intros n _. apply andb_true_iff. split.
      + apply forallb_elem. intros o Ho. apply bool_decide_eq_true, O1, Ho.
      + apply bool_decide_eq_true, O2.
    - apply forallb_elem. intros [o n] Hon. apply bool_decide_eq_true, O1.
      apply elem_of_map_to_list in Hon. exact Hon.
  Qed.

  Lemma wf_binds : binds_ok s = true.
  Proof.
    unfold binds_ok. apply forallb_elem. intros [b r] Hbr. apply elem_of_map_to_list in Hbr.
    destruct (inv_binds s HI b r Hbr) as [A1 A2 A3 A3c A4 A5 A6 A7 A8 A9 A10 A11 A12 A13 A14].
    rewrite !andb_true_iff. repeat split; try (apply bool_decide_eq_true; assumption).
    - apply bool_decide_eq_true. rewrite A9. destruct (b_rhs r); reflexivity.
    - apply forallb_elem. intros n Hn. apply bool_decide_eq_true. apply (A11 n Hn).
  Qed.

  Lemma wf_heap_inv_b w : hinv w -> heap_inv_b w = true.
  Proof.
    intros [I T]. unfold heap_inv_b.
    assert (Hhin : forall n x, Heap.hin w !! n = Some x <-> n ∈ Heap.ids w /\ Heap.hinOf w n = x).
    { intros n x. rewrite (inv_hin w I). split.
      - intros [Hx Hb]. assert (Hn : n ∈ Heap.ids w) by (apply elem_ids; eauto).
        split; [exact Hn|]. rewrite (hinOf_bucket w n _ I Hb). lia.
      - intros [Hn <-]. split; [apply hinOf_nonneg; [split; assumption|exact Hn]|apply in_own_bucket; assumption]. }
    rewrite !andb_true_iff. repeat split.
    - apply bool_decide_eq_true, (inv_nodup w I).
    - apply Z.eqb_eq, (inv_cnt w I).
    - unfold Heap.sanity. apply andb_true_iff. split.
      + destruct (Z.ltb_spec 0 (Heap.cnt w)) as [Hc|]; [|reflexivity].
        destruct (inv_cursor w I Hc) as (C1 & _). apply andb_true_iff. split; [|apply Z.leb_le, C1].
        apply negb_true_iff, bool_decide_eq_false, T, Hc.
      + apply forallb_elem. intros [x b] Hxb. apply elem_of_lookup_imap in Hxb as (i & y & [= -> ->] & Hl).
        apply forallb_elem. intros n Hn. apply Z.eqb_eq. apply (hinOf_bucket w n i I).
        unfold Heap.bucket. rewrite Hl. exact Hn.
    - apply forallb_elem. intros n Hn. apply negb_true_iff, Z.eqb_neq.
      pose proof (hinOf_nonneg w n ltac:(split; assumption) Hn). unfold unset. lia.
    - apply bool_decide_eq_true. apply NoDup_Permutation.
      + apply NoDup_map_to_list.
      + apply NoDup_fmap_2_strong; [|apply (inv_nodup w I)]. intros a b _ _ [= ->]. reflexivity.
      + intros [n x]. rewrite elem_of_map_to_list, Hhin, elem_of_list_fmap. split.
        * intros [Hn <-]. exists n. auto.
        * intros (m & [= -> ->] & Hm). auto.
    - destruct (Z.ltb_spec 0 (Heap.cnt w)) as [Hc|]; [|reflexivity].
      destruct (inv_cursor w I Hc) as (C1 & C2 & C3). rewrite !andb_true_iff. repeat split; try lia.
      apply forallb_elem. intros n Hn. pose proof (in_own_bucket w n I Hn) as Hb.
      pose proof (hinOf_nonneg w n ltac:(split; assumption) Hn) as H0.
      assert (Hne : Heap.bucket w (Z.to_nat (Heap.hinOf w n)) <> []) by (intros E; rewrite E in Hb; inversion Hb).
      specialize (C2 _ Hne). apply andb_true_iff. split; lia.
  Qed.

  Lemma wf_queued : queued_ok s = true.
  Proof.
    unfold queued_ok. destruct (inv_heap s HI) as [Hi Hq]. apply andb_true_iff. split; [apply wf_heap_inv_b, Hi|].
    apply forallb_elem. intros n Hn. destruct (Hq n Hn) as [-> ->]. simpl. apply Z.eqb_eq. reflexivity.
  Qed.

  Theorem Inv_wfb : wfb s = true.
  Proof.
    unfold wfb, codes.
    rewrite wf_edges, wf_zero, wf_nec, wf_par, wf_height, wf_queued, wf_counts, wf_trans, wf_obs, wf_binds.
    reflexivity.
  Qed.
End wfb.

(** * Purging and clearing the cache of a memoized bind *)
Lemma bind_wf_cache s b r h : (forall l kv, kv ∈ h l -> kv ∈ l) -> bind_wf s b r -> bind_wf s b (set b_cache h r).
Proof.
  intros Hh [W1 W2 W3 W3c W4 W5 W6 W7 W8 W9 W10 W11 W12 W13 W14]. constructor; cbn; auto.
  intros x q Hq. apply (W3c x q), Hh, Hq.
Qed.

Lemma Inv_cache_shrink s b h : (forall (l : list (Z * option nid)) kv, kv ∈ h l -> kv ∈ l) -> Inv s -> Inv (updb s b (set b_cache h)).
Proof.
  intros Hh HI. set (s' := updb s b (set b_cache h)).
  destruct HI as [Iids Ibinds Ikinds Iscopes Iscoping Ivalid Iedges Izero Inec Ipar Iheight Iheap
                  Icount Iobs Iquiet Ishape Istamps Ilife].
  assert (Hlook : forall b', binds s' !! b' = if decide (b' = b) then set b_cache h <$> binds s !! b else binds s !! b')
    by (intros; apply binds_updb_lookup).
  assert (Hdom : forall b', is_Some (binds s !! b') -> is_Some (binds s' !! b')).
  { intros b' [r Hr]. rewrite Hlook. destruct (decide (b' = b)) as [->|]; [rewrite Hr; eauto|eauto]. }
  assert (HbdR : forall b', b_rhs (bd s' b') = b_rhs (bd s b') /\ b_rhsNodes (bd s' b') = b_rhsNodes (bd s b')).
  { intros b'. unfold bd. rewrite Hlook. destruct (decide (b' = b)) as [->|]; [|auto]. destruct (binds s !! b); auto. }
  assert (Hgen : forall b' m, inGen s' b' m <-> inGen s b' m)
    by (intros b' m; unfold inGen; rewrite (proj2 (HbdR b')); reflexivity).
  constructor.
  - apply (ids_ok_ext s s'); auto; reflexivity.
  - intros b' r'. rewrite Hlook. destruct (decide (b' = b)) as [->|Hne].
    + destruct (binds s !! b) as [r|] eqn:Er; [|discriminate]. intros [= <-].
      apply (bind_wf_nodes_same s s'); [reflexivity|]. apply bind_wf_cache; auto.
    + intros Hr. apply (bind_wf_nodes_same s s'); [reflexivity|]. apply Ibinds, Hr.
  - intros n Hn. change (nd s' n) with (nd s n). specialize (Ikinds n Hn).
    destruct (nkind (nd s n)); auto; destruct Ikinds as [K1 K2]; (split; [exact K1|apply Hdom, K2]).
  - intros n b0 Hs. change (nd s' n) with (nd s n) in Hs. destruct (Iscopes n b0 Hs) as [A B]. split; [apply Hdom, A|exact B].
  - destruct Iscoping as [S1 S2 S3 S4 S5 S6 S7]. split.
    + intros n q Hq. destruct (S1 n q Hq) as [?|[?|(b0 & K1 & K2 & K3)]]; auto.
      right; right. exists b0. rewrite (proj1 (HbdR b0)). auto.
    + intros n q b0 Hq H1 H2. rewrite !Hgen. apply (S2 n q b0 Hq H1 H2).
    + intros b0 q. rewrite (proj1 (HbdR b0)), Hgen. apply S3.
    + destruct S4 as (own & O1 & O2 & O3). exists own. split; [exact O1|]. split.
      { intros n q Hq. apply (gmu_lt_ext own s s'); [intros; reflexivity|]. apply O2, Hq. }
      intros b0 r0 x q. rewrite Hlook. intros Hr0 Hq. apply (gmu_lt_ext own s s'); [intros; reflexivity|]. revert Hr0 Hq.
      destruct (decide (b0 = b)) as [->|Hne].
      * destruct (binds s !! b) as [r|] eqn:Er; [|discriminate]. intros [= <-] Hq.
        apply (O3 b r x q Er). cbn in Hq. apply Hh, Hq.
      * apply O3.
    + exact S5.
    + intros b0 q k0. rewrite (proj1 (HbdR b0)). apply S6.
    + intros b0 b1. rewrite !Hgen. apply S7.
  - destruct Ivalid as [V1 V2 V3 V4]. split; [exact V1| | |exact V4].
    + intros n b0 H1 H2. rewrite Hgen. apply (V2 n b0 H1 H2).
    + intros n b0. rewrite Hgen. apply V3.
  - exact Iedges.
  - exact Izero.
  - exact Inec.
  - exact Ipar.
  - exact Iheight.
  - exact Iheap.
  - apply (count_ok_ext s s'); first [exact Icount|reflexivity|intros; reflexivity].
  - destruct Iobs as [H1 H2 H3 H4]. split; [exact H1|exact H2|exact H3|].
    intros o n Ho. rewrite Hlook. destruct (decide (n = b)) as [->|]; [rewrite (H4 o b Ho); reflexivity|apply (H4 o n Ho)].
  - apply (quiet_ext s s'); first [exact Iquiet|reflexivity|intros; reflexivity].
  - apply (shape_ok_ext s s'); first [exact Ishape|reflexivity|intros; reflexivity].
  - apply (stamps_ok_ext s s'); first [exact Istamps|reflexivity|intros; reflexivity].
  - apply (life_ok_ext s s'); first [exact Ilife|reflexivity|intros; reflexivity].
Qed.

Definition is_memo_op (o : op) : bool :=
  match o with PurgeMemo _ _ | ClearMemo _ => true | _ => false end.

Theorem Inv_step_memo_op s o s' e : Inv s -> is_memo_op o = true -> step s o = Ok (s', e) -> Inv s'.
Proof.
  intros HI Ho H. destruct o; try discriminate; simpl in H;
    match type of H with context [nkind ?x] => destruct (nkind x) end;
    apply ok_inv in H as [-> _]; try exact HI; apply Inv_cache_shrink; try exact HI.
  - intros l kv Hkv. apply elem_of_list_filter in Hkv. apply Hkv.
  - intros l kv Hkv. inversion Hkv.
Qed.

(** * All operations; clean histories *)
Theorem Inv_step_stabilize s o s' e :
  Inv s -> op_ok s o = true -> is_stabilize o = true -> step s o = Ok (s', e) ->
  e <> Some ECycle -> e <> Some EHeightLimit -> Inv s'.
Proof.
  intros HI Hok Hg Hstep He1 He2.
  apply (Inv_step_stabilize_gen (fun _ => True) s o s' e ltac:(auto) bind_spec_holds HI I Hok Hg Hstep He1 He2).
Qed.

Theorem Inv_step s o s' e :
  Inv s -> op_ok s o = true -> op_clean s o = true -> step s o = Ok (s', e) ->
  e <> Some ECycle -> e <> Some EHeightLimit -> Inv s'.
Proof.
  intros HI Hok Hcl Hstep He1 He2. pose proof bind_spec_holds as HB.
  destruct o; try (simpl in Hcl; discriminate).
  - apply (Inv_step_new s _ s' e HI Hok Hcl eq_refl Hstep).
  - apply (Inv_step_new s _ s' e HI Hok Hcl eq_refl Hstep).
  - apply (Inv_step_new s _ s' e HI Hok Hcl eq_refl Hstep).
  - apply (Inv_step_new s _ s' e HI Hok Hcl eq_refl Hstep).
  - apply (Inv_step_new s _ s' e HI Hok Hcl eq_refl Hstep).
  - apply (Inv_step_new s _ s' e HI Hok Hcl eq_refl Hstep).
  - apply (Inv_step_new s _ s' e HI Hok Hcl eq_refl Hstep).
  - apply (Inv_step_new s _ s' e HI Hok Hcl eq_refl Hstep).
  - apply (Inv_step_new s _ s' e HI Hok Hcl eq_refl Hstep).
  - eapply Inv_step_memo_op; [exact HI| |exact Hstep]; reflexivity.
  - eapply Inv_step_memo_op; [exact HI| |exact Hstep]; reflexivity.
  - apply (Inv_step_observe s _ s' e HI Hok Hcl eq_refl Hstep He2).
  - apply (Inv_step_unobserve s _ s' e HI Hok eq_refl Hstep).
  - apply (Inv_step_setvar s _ s' e HI Hok eq_refl Hstep).
  - apply (Inv_step_setvar s _ s' e HI Hok eq_refl Hstep).
  - apply (Inv_step_addinput s _ s' e HI Hok Hcl eq_refl Hstep He1 He2).
  - apply (Inv_step_removeinput s _ s' e HI Hok eq_refl Hstep).
  - apply (Inv_step_stabilize_gen (fun _ => True) s _ s' e ltac:(auto) HB HI I Hok eq_refl Hstep He1 He2).
  - apply (Inv_step_stabilize_gen (fun _ => True) s _ s' e ltac:(auto) HB HI I Hok eq_refl Hstep He1 He2).
  - apply (Inv_step_parstabilize s _ s' e HI Hok Hcl eq_refl Hstep He1 He2).
Qed.

(* the earlier conditional form, kept for clients *)
Theorem Inv_step_cond s o s' e :
  bind_spec (fun _ => True) ->
  Inv s -> op_ok s o = true -> op_clean s o = true -> step s o = Ok (s', e) ->
  e <> Some ECycle -> e <> Some EHeightLimit -> Inv s'.
Proof. intros _. apply Inv_step. Qed.

Lemma rejected_not e : rejected e = false -> e <> Some ECycle /\ e <> Some EHeightLimit.
Proof. destruct e as [[]|]; simpl; try discriminate; intros _; split; discriminate. Qed.

Theorem Inv_run_clean_from s os s' :
  Inv s -> run_clean s os = Some s' -> Inv s'.
Proof.
  revert s. induction os as [|o os IH]; intros s HI H; simpl in H; [injection H as <-; exact HI|].
  destruct (op_ok s o && op_clean s o) eqn:Eo; [|discriminate]. apply andb_true_iff in Eo as [Hok Hcl].
  destruct (step s o) as [[s1 e]| |] eqn:Es; try discriminate.
  destruct (rejected e) eqn:Er; [discriminate|]. destruct (rejected_not e Er) as [He1 He2].
  apply (IH s1); [|exact H]. apply (Inv_step s o s1 e HI Hok Hcl Es He1 He2).
Qed.

Theorem Inv_run_clean mh os s :
  (0 < mh)%nat -> run_clean (init mh) os = Some s -> Inv s.
Proof. intros Hmh. apply Inv_run_clean_from. apply Inv_init, Hmh. Qed.

Theorem Inv_run_clean_cond mh os s :
  bind_spec (fun _ => True) -> (0 < mh)%nat -> run_clean (init mh) os = Some s -> Inv s.
Proof. intros _. apply Inv_run_clean. Qed.

(** * The bind-free fragment, over whole histories *)
Lemma heapOp_binds s s' : only_heap s s' -> binds s' = binds s.
Proof. apply oh_binds. Qed.

Lemma heapAddIfNotPresent_binds s n s' : heapAddIfNotPresent s n = Ok s' -> binds s' = binds s.
Proof. intros H. apply oh_binds, (only_heap_heapAddIfNotPresent s n s' H). Qed.

Lemma setStale_binds s n s' : setStale s n = Ok s' -> binds s' = binds s.
Proof.
  intros H. apply setStale_inv in H as [[_ ->]|[_ H]]; [reflexivity|]. cbn zeta in H.
  destruct H as [[_ ->]|[_ H]]; [reflexivity|]. apply heapAdd_inv in H as (w & _ & ->). reflexivity.
Qed.

Lemma varSet_binds s v x s' : varSet s v x = Ok s' -> binds s' = binds s.
Proof.
  unfold varSet. destruct (_ && _ && _); [intros [= <-]; reflexivity|].
  destruct (status s =? 1); [intros [= <-]; reflexivity|].
  destruct (isNecessary _); [|intros [= <-]; reflexivity]. intros H. apply setStale_binds in H. exact H.
Qed.

Lemma invalidateNode_binds fuel : forall s n s', invalidateNode fuel s n = Ok s' -> binds s' = binds s.
Proof.
  induction fuel as [|fuel IH]; intros s n s' H; [discriminate|]. simpl in H.
  destruct (negb (valid (nd s n))); [injection H as <-; reflexivity|].
  set (s1 := upd (emit (EvInval n) s) n _) in H.
  apply rbind_ok in H as (s2 & H2 & H).
  assert (B2 : binds s2 = binds s).
  { destruct (isNecessary (nd s1 n)); [|injection H2 as <-; reflexivity].
    apply rbind_ok in H2 as (s3 & H3 & [= <-]).
    rewrite binds_upd. rewrite (tf_binds _ _ (proj1 (teardown_frame fuel) s1 n s3 H3)). reflexivity. }
  apply rbind_ok in H as (s4 & H4 & H).
  assert (B4 : binds s4 = binds s2).
  { destruct (nkind (nd s2 n)); try (injection H4 as <-; reflexivity).
    revert H4. apply (rfold_pres (fun st => binds st = binds s2)); [reflexivity|].
    intros a st st1 _ Hst Ha. rewrite (IH st a st1 Ha). exact Hst. }
  match type of H with (if ?c then _ else _) = _ => destruct c end.
  - apply heapRemove_inv in H as (w & _ & ->). cbn. congruence.
  - injection H as <-. cbn. congruence.
Qed.

Lemma propagateInvalidity_binds fuel : forall s s', propagateInvalidity fuel s = Ok s' -> binds s' = binds s.
Proof.
  induction fuel as [|fuel IH]; intros s s' H; [discriminate|]. simpl in H.
  destruct (invq s) as [|n q]; [injection H as <-; reflexivity|].
  apply rbind_ok in H as (s1 & H1 & H). rewrite (IH s1 s' H).
  set (s0 := s <| invq := q |>) in *.
  destruct (valid (nd s0 n)); [|injection H1 as <-; reflexivity].
  destruct (shouldBeInvalidated s0 n).
  - apply (invalidateNode_binds fuel s0 n s1 H1).
  - apply (heapAddIfNotPresent_binds s0 n s1 H1).
Qed.

Lemma setHeight_binds s n h s' e : setHeight s n h = Ok (s', e) -> binds s' = binds s.
Proof. intros H. apply (bf_binds _ _ (bn_frame_setHeight s n h s' e H)). Qed.

Lemma ensure_binds s oP c p s' e : ensureHeightRequirement s oP c p = Ok (s', e) -> binds s' = binds s.
Proof.
  unfold ensureHeightRequirement. destruct (bool_decide (oP = c)); [intros [-> _]%fail_inv; reflexivity|].
  destruct (_ >=? _); [|intros [-> _]%ok_inv; reflexivity].
  intros H. apply ebind_inv in H as (s1 & e1 & H1 & Hrest). apply lift_inv in H1 as [H1 ->].
  assert (B1 : binds s1 = binds s).
  { apply adjAdd_inv in H1 as [[_ ->]|(_ & _ & q & _ & ->)]; reflexivity. }
  destruct Hrest as [[_ H2]|(Hne & _)]; [|congruence]. rewrite (setHeight_binds _ _ _ _ _ H2). exact B1.
Qed.

Lemma efold_binds {A} (f : state -> A -> M) l s s' e :
  (forall st a st' e', f st a = Ok (st', e') -> binds st' = binds st) ->
  efold f l s = Ok (s', e) -> binds s' = binds s.
Proof.
  intros Hf. apply (efold_pres (fun st => binds st = binds s)); [reflexivity|].
  intros a st st1 e1 _ Hst Ha. rewrite (Hf st a st1 e1 Ha). exact Hst.
Qed.

Lemma adjustLoop_binds fuel : forall s oP s' e, adjustLoop fuel s oP = Ok (s', e) -> binds s' = binds s.
Proof.
  induction fuel as [|fuel IH]; intros s oP s' e H; [discriminate|]. rewrite adjustLoop_S in H.
  destruct (a_num (adj s) <=? 0); [apply ok_inv in H as [-> _]; reflexivity|].
  apply rbind_ok in H as ([popped s1] & H1 & H). destruct popped as [p|]; [|discriminate].
  assert (B1 : binds s1 = binds s).
  { apply adjRemoveMin_inv in H1 as [[? _]|(n & x & b' & _ & _ & ->)]; [discriminate|reflexivity]. }
  apply ebind_inv in H as (s2 & e2 & H2 & Hrest). apply lift_inv in H2 as [H2 ->].
  assert (B2 : binds s2 = binds s1).
  { destruct (inHeap s1 p); [apply heapFix_inv in H2 as (w & _ & ->); reflexivity|injection H2 as <-; reflexivity]. }
  destruct Hrest as [[_ H]|(Hne & _)]; [|congruence].
  apply ebind_inv in H as (s3 & e3 & H3 & Hrest).
  assert (B3 : binds s3 = binds s2).
  { revert H3. apply efold_binds. intros st a st' e'. apply ensure_binds. }
  destruct Hrest as [[-> H]|(Hne & -> & ->)]; [|congruence].
  apply ebind_inv in H as (s4 & e4 & H4 & Hrest).
  assert (B4 : binds s4 = binds s3).
  { destruct (nkind (nd s3 p)); try (apply ok_inv in H4 as [-> _]; reflexivity).
    revert H4. apply efold_binds. intros st a st' e'. destruct (isNecessary (nd st a)); [apply ensure_binds|].
    intros [-> _]%ok_inv. reflexivity. }
  destruct Hrest as [[-> H]|(Hne & -> & ->)]; [|congruence].
  rewrite (IH s4 oP s' e H). congruence.
Qed.

Lemma adjustHeights_binds fuel s c p s' e : adjustHeights fuel s c p = Ok (s', e) -> binds s' = binds s.
Proof.
  unfold adjustHeights. intros H. apply ebind_inv in H as (s1 & e1 & H1 & Hrest).
  apply ensure_binds in H1. cbn in H1.
  destruct Hrest as [[-> H]|(Hne & -> & ->)]; [|exact H1].
  rewrite (adjustLoop_binds fuel s1 p s' e H). exact H1.
Qed.

Lemma addChild_binds fuel s c p s' e : addChild fuel s c p = Ok (s', e) -> binds s' = binds s.
Proof.
  unfold addChild, addChildWithoutAdjustingHeights. intros H.
  apply ebind_inv in H as (s1 & e1 & H1 & Hrest).
  assert (B1 : binds s1 = binds s).
  { set (s0 := if valid (nd (link s c p) p) then link s c p else (link s c p) <| invq := invq (link s c p) ++ [c] |>) in *.
    assert (B0 : binds s0 = binds s) by (unfold s0; destruct (valid _); reflexivity).
    destruct (isNecessary (nd s p)); [apply ok_inv in H1 as [-> _]; exact B0|].
    rewrite (bf_binds _ _ (proj1 (BN_frame fuel s0 p s1 e1 H1))). exact B0. }
  destruct Hrest as [[-> H]|(Hne & -> & ->)]; [|exact B1].
  apply ebind_inv in H as (s2 & e2 & H2 & Hrest).
  assert (B2 : binds s2 = binds s1).
  { destruct (_ >=? _); [apply (adjustHeights_binds _ _ _ _ _ _ H2)|apply ok_inv in H2 as [-> _]; reflexivity]. }
  destruct Hrest as [[-> H]|(Hne & -> & ->)]; [|congruence].
  apply ebind_inv in H as (s3 & e3 & H3 & Hrest). apply lift_inv in H3 as [H3 ->].
  pose proof (propagateInvalidity_binds _ _ _ H3) as B3.
  destruct Hrest as [[_ H]|(Hne & _)]; [|congruence].
  destruct (_ || _); [apply lift_inv in H as [H _]; rewrite (heapAddIfNotPresent_binds _ _ _ H)|apply ok_inv in H as [-> _]]; congruence.
Qed.

Definition keeps_binds (o : op) : bool :=
  match o with
  | NewBind _ _ | NewBindMemo _ _ | PurgeMemo _ _ | ClearMemo _ | Stabilize _ | StabilizeCancelled | ParStabilize _ => false
  | _ => true
  end.

Lemma step_binds s o s' e : keeps_binds o = true -> step s o = Ok (s', e) -> binds s' = binds s.
Proof.
  intros Hk H. destruct o; try discriminate; simpl in H.
  1-7: apply ok_inv in H as [-> _]; reflexivity.
  - unfold observe in H. destruct (isNecessary _); [apply ok_inv in H as [-> _]; reflexivity|].
    apply ebind_inv in H as (s1 & e1 & H1 & Hrest).
    pose proof (bf_binds _ _ (proj1 (BN_frame _ _ _ _ _ H1))) as B1. cbn in B1.
    destruct Hrest as [[-> H]|(Hne & -> & ->)]; [|exact B1].
    apply lift_inv in H as [H _]. rewrite (propagateInvalidity_binds _ _ _ H). exact B1.
  - apply lift_inv in H as [H _]. unfold unobserve in H. destruct (obs s !! o); [|injection H as <-; reflexivity].
    rewrite (tf_binds _ _ (proj2 (teardown_frame _) _ _ _ H)). reflexivity.
  - apply lift_inv in H as [H _]. apply (varSet_binds _ _ _ _ H).
  - apply lift_inv in H as [H _]. apply (varSet_binds _ _ _ _ H).
  - unfold addInput in H. destruct (_ =? _); [apply ok_inv in H as [-> _]; reflexivity|].
    apply ebind_inv in H as (s1 & e1 & H1 & Hrest). pose proof (addChild_binds _ _ _ _ _ _ H1) as B1. cbn in B1.
    destruct Hrest as [[-> H]|(Hne & -> & ->)]; [|exact B1].
    apply lift_inv in H as [H _]. rewrite (setStale_binds _ _ _ H). exact B1.
  - apply lift_inv in H as [H _]. unfold removeInput in H. destruct (negb _); [injection H as <-; reflexivity|].
    apply rbind_ok in H as (s1 & H1 & H). rewrite (tf_binds _ _ (proj2 (teardown_frame _) _ _ _ H)).
    rewrite (setStale_binds _ _ _ H1). reflexivity.
Qed.

Definition op_nobind (o : op) : bool :=
  match o with NewBind _ _ | NewBindMemo _ _ | PurgeMemo _ _ | ClearMemo _ => false | _ => true end.

Theorem Inv_run_clean_bindfree_from s os s' :
  Inv s -> binds s = ∅ -> forallb op_nobind os = true -> run_clean s os = Some s' -> Inv s' /\ binds s' = ∅.
Proof.
  revert s. induction os as [|o os IH]; intros s HI Hb Hn H; simpl in H; [injection H as <-; auto|].
  simpl in Hn. apply andb_true_iff in Hn as [Hno Hn].
  destruct (op_ok s o && op_clean s o) eqn:Eo; [|discriminate]. apply andb_true_iff in Eo as [Hok Hcl].
  destruct (step s o) as [[s1 e]| |] eqn:Es; try discriminate.
  destruct (rejected e) eqn:Er; [discriminate|]. destruct (rejected_not e Er) as [He1 He2].
  assert (R : Inv s1 /\ binds s1 = ∅).
  { destruct (is_stabilize o) eqn:Est; [|destruct (is_parstabilize o) eqn:Epar].
    - apply (Inv_step_stabilize_bindfree s o s1 e HI Hb Hok Est Es He1 He2).
    - apply (Inv_step_parstabilize_bindfree s o s1 e HI Hb Hok Epar Es).
    - assert (Hk : keeps_binds o = true) by (destruct o; try reflexivity; try discriminate; simpl in Hcl; discriminate).
      split; [|rewrite (step_binds s o s1 e Hk Es); exact Hb].
      destruct o; try discriminate; try (simpl in Hcl; discriminate).
      + apply (Inv_step_new s _ s1 e HI Hok Hcl eq_refl Es).
      + apply (Inv_step_new s _ s1 e HI Hok Hcl eq_refl Es).
      + apply (Inv_step_new s _ s1 e HI Hok Hcl eq_refl Es).
      + apply (Inv_step_new s _ s1 e HI Hok Hcl eq_refl Es).
      + apply (Inv_step_new s _ s1 e HI Hok Hcl eq_refl Es).
      + apply (Inv_step_new s _ s1 e HI Hok Hcl eq_refl Es).
      + apply (Inv_step_new s _ s1 e HI Hok Hcl eq_refl Es).
      + apply (Inv_step_observe s _ s1 e HI Hok Hcl eq_refl Es He2).
      + apply (Inv_step_unobserve s _ s1 e HI Hok eq_refl Es).
      + apply (Inv_step_setvar s _ s1 e HI Hok eq_refl Es).
      + apply (Inv_step_setvar s _ s1 e HI Hok eq_refl Es).
      + apply (Inv_step_addinput s _ s1 e HI Hok Hcl eq_refl Es He1 He2).
      + apply (Inv_step_removeinput s _ s1 e HI Hok eq_refl Es). }
  destruct R as [HI1 Hb1]. apply (IH s1 HI1 Hb1 Hn H).
Qed.

Theorem Inv_run_clean_bindfree mh os s :
  (0 < mh)%nat -> forallb op_nobind os = true -> run_clean (init mh) os = Some s -> Inv s /\ binds s = ∅.
Proof. intros Hmh. apply Inv_run_clean_bindfree_from; [apply Inv_init, Hmh|reflexivity]. Qed.

From incr Require Import EngineRun.
Local Open Scope Z_scope.
(** * Property-level statements (C06, C10, C05) from the invariant *)

(** ** C06 *)
Lemma reachable_registered s n : Inv s -> reachable s n -> inGraph (nd s n) = true.
Proof.
  intros HI H. induction H as [o n Ho|n p _ IH Hp].
  - rewrite (inv_nec s HI n). apply isNecessary_true. right; right.
    apply (ob_iff s (inv_obs s HI)) in Ho. intros E. rewrite E in Ho. inversion Ho.
  - rewrite <- (inv_par s HI n IH) in Hp.
    apply (parent_registered s n p (inv_edges s HI) (inv_zero s HI) Hp).
Qed.

Lemma registered_reachable s n : Inv s -> inGraph (nd s n) = true -> reachable s n.
Proof.
  intros HI. remember (Z.to_nat (maxHeight s - height (nd s n))) as k eqn:Ek.
  revert n Ek. induction (lt_wf k) as [k _ IH]. intros n Ek Hg.
  pose proof Hg as Hn. rewrite (inv_nec s HI n) in Hn. apply isNecessary_true in Hn as [Hn|[Hn|Hn]].
  - rewrite (q_force s (inv_quiet s HI)) in Hn. discriminate.
  - destruct (children (nd s n)) as [|c l] eqn:Ec; [congruence|].
    assert (Hc : c ∈ children (nd s n)) by (rewrite Ec; left).
    pose proof (child_registered s c n (inv_edges s HI) (inv_zero s HI) Hc) as Hgc.
    apply (edges_parent_child s c n (inv_edges s HI)) in Hc.
    destruct (inv_height s HI c Hgc) as (Hc1 & Hc2 & _). specialize (Hc2 n Hc).
    destruct (inv_height s HI n Hg) as (Hn1 & _).
    apply (reach_decl s c n); [|rewrite <- (inv_par s HI c Hgc); exact Hc].
    apply (IH (Z.to_nat (maxHeight s - height (nd s c)))); [subst k; lia|reflexivity|exact Hgc].
  - destruct (observers (nd s n)) as [|o l] eqn:Eo; [congruence|].
    apply (reach_obs s o n). apply (ob_iff s (inv_obs s HI)). rewrite Eo. left.
Qed.

Theorem registered_iff_reachable s n : Inv s -> (inGraph (nd s n) = true <-> reachable s n).
Proof. intros HI. split; [apply registered_reachable, HI|apply reachable_registered, HI]. Qed.

Theorem drain s : Inv s -> obs s = ∅ ->
  reg s = [] /\ Heap.ids (heap s) = [] /\ numNodes s = 0 /\
  forall n, parents (nd s n) = [] /\ children (nd s n) = [].
Proof.
  intros HI Ho.
  assert (Hnone : forall n, inGraph (nd s n) = false).
  { intros n. destruct (inGraph (nd s n)) eqn:E; [|reflexivity].
    apply (registered_reachable s n HI) in E. exfalso. clear -E Ho.
    induction E as [o n H|n p _ IH _]; [rewrite Ho, lookup_empty in H; discriminate|exact IH]. }
  destruct (inv_count s HI) as [C1 C2 C3].
  assert (Hreg : reg s = []).
  { destruct (reg s) as [|x l] eqn:E; [reflexivity|].
    assert (Hx : inGraph (nd s x) = true) by (apply C2; left). rewrite Hnone in Hx. discriminate. }
  split; [exact Hreg|]. split.
  - destruct (Heap.ids (heap s)) as [|x l] eqn:E; [reflexivity|].
    destruct (inv_heap s HI) as [_ Hq]. destruct (Hq x ltac:(rewrite E; left)) as [Hx _].
    rewrite Hnone in Hx. discriminate.
  - split; [rewrite C3, Hreg, Ho; reflexivity|].
    intros n. destruct (inv_zero s HI n (Hnone n)) as (? & ? & _). auto.
Qed.

Lemma reachable_ext s1 s2 : obs s1 = obs s2 -> (forall n, decl (nd s1 n) = decl (nd s2 n)) ->
  forall n, reachable s1 n -> reachable s2 n.
Proof.
  intros Ho Hd n H. induction H as [o n H|n p _ IH Hp].
  - apply (reach_obs s2 o n). rewrite <- Ho. exact H.
  - apply (reach_decl s2 n p IH). rewrite <- Hd. exact Hp.
Qed.

Theorem shape_only s1 s2 : Inv s1 -> Inv s2 -> obs s1 = obs s2 ->
  (forall n, decl (nd s1 n) = decl (nd s2 n)) ->
  forall n, inGraph (nd s1 n) = inGraph (nd s2 n).
Proof.
  intros H1 H2 Ho Hd n.
  destruct (inGraph (nd s1 n)) eqn:E1, (inGraph (nd s2 n)) eqn:E2; try reflexivity.
  - apply (registered_iff_reachable s1 n H1), (reachable_ext s1 s2 Ho Hd), (registered_iff_reachable s2 n H2) in E1. congruence.
  - apply (registered_iff_reachable s2 n H2), (reachable_ext s2 s1) in E2; [|auto|auto].
    apply (registered_iff_reachable s1 n H1) in E2. congruence.
Qed.

(** ** C10 *)
Fixpoint expect_after (n : nid) (b : bool) (l : list event) : bool :=
  match l with
  | [] => b
  | EvNec m :: l' => expect_after n (if decide (m = n) then false else b) l'
  | EvUnnec m :: l' => expect_after n (if decide (m = n) then true else b) l'
  | _ :: l' => expect_after n b l'
  end.

Lemma alternates_snoc n e : forall l b,
  alternates n b (l ++ [e]) <->
  alternates n b l /\
  match e with
  | EvNec m => m = n -> expect_after n b l = true
  | EvUnnec m => m = n -> expect_after n b l = false
  | _ => True
  end.
Proof.
  induction l as [|x l IH]; intros b.
  - simpl. destruct e; simpl; try tauto; destruct (decide (n0 = n)); tauto.
  - simpl. destruct x; simpl; try apply IH; destruct (decide (n0 = n)); rewrite ?IH; tauto.
Qed.

Lemma expect_after_snoc n e l b :
  expect_after n b (l ++ [e]) =
  match e with
  | EvNec m => if decide (m = n) then false else expect_after n b l
  | EvUnnec m => if decide (m = n) then true else expect_after n b l
  | _ => expect_after n b l
  end.
Proof.
  revert b. induction l as [|x l IH]; intros b; [destruct e; reflexivity|].
  simpl. destruct x; simpl; apply IH.
Qed.

Lemma expect_after_lastNU n l :
  expect_after n true (rev l) = match lastNU l n with Some true => false | _ => true end.
Proof.
  induction l as [|e l IH]; [reflexivity|]. simpl. rewrite expect_after_snoc.
  destruct e; simpl; try exact IH; destruct (decide (n0 = n)); auto.
Qed.

Theorem log_alternates l n : log_ok l -> alternates n true (rev l).
Proof.
  induction l as [|e l IH]; [intros _; exact I|]. intros [He Hl]. simpl. apply alternates_snoc.
  split; [apply IH, Hl|]. destruct e; try exact I; intros ->; rewrite expect_after_lastNU; simpl in He.
  - destruct (lastNU l n) as [[|]|]; congruence.
  - rewrite He. reflexivity.
Qed.

Theorem alternation s n : Inv s -> alternates n true (rev (log s)).
Proof. intros HI. apply log_alternates, (lf_log s (inv_life s HI)). Qed.

Lemma log_ok_suffix l1 l2 : log_ok (l1 ++ l2) -> log_ok l2.
Proof. induction l1 as [|e l1 IH]; [auto|]. intros [_ H]. apply IH, H. Qed.

(* the function of [n] runs only while the last necessity event of [n] is [EvNec n]
   ([l_before]: the events logged before [e], most recent first) *)
Theorem runs_only_while_necessary s l_after e l_before n : Inv s ->
  log s = l_after ++ e :: l_before -> ev_runs e = Some n -> lastNU l_before n = Some true.
Proof.
  intros HI El He. pose proof (lf_log s (inv_life s HI)) as H. rewrite El in H.
  apply log_ok_suffix in H. destruct H as [H _]. destruct e; try discriminate; injection He as ->; apply H.
Qed.

(* C08: once a node has been invalidated, none of its functions runs again *)
Theorem never_runs_after_invalidation s l_after e l_before n : Inv s ->
  log s = l_after ++ e :: l_before -> ev_runs e = Some n -> EvInval n ∉ l_before.
Proof.
  intros HI El He. pose proof (lf_log s (inv_life s HI)) as H. rewrite El in H.
  apply log_ok_suffix in H. destruct H as [H _]. destruct e; try discriminate; injection He as ->; apply H.
Qed.

Theorem registered_iff_last_necessary s n : Inv s -> (inGraph (nd s n) = true <-> lastNU (log s) n = Some true).
Proof. intros HI. apply (lf_reg s (inv_life s HI)). Qed.

Lemma log_inval_once l n : log_ok l -> (length (filter (fun e => e = EvInval n) l) <= 1)%nat.
Proof.
  induction l as [|e l IH]; [simpl; lia|]. intros [He Hl]. rewrite filter_cons.
  destruct (decide (e = EvInval n)) as [->|Hne]; [|apply IH, Hl].
  simpl in He. simpl.
  assert (filter (fun e => e = EvInval n) l = []) as ->; [|simpl; lia].
  destruct (filter (fun e => e = EvInval n) l) as [|x l'] eqn:E; [reflexivity|].
  assert (Hx : x ∈ filter (fun e => e = EvInval n) l) by (rewrite E; left).
  apply elem_of_list_filter in Hx as [-> Hx]. contradiction.
Qed.

Theorem invalidated_once s n : Inv s -> (length (filter (fun e => e = EvInval n) (log s)) <= 1)%nat.
Proof. intros HI. apply log_inval_once, (lf_log s (inv_life s HI)). Qed.

(* and an invalidated node is invalid for good *)
Theorem invalidated_iff_invalid s n : Inv s -> (EvInval n ∈ log s <-> valid (nd s n) = false).
Proof. intros HI. symmetry. apply (lf_inval s (inv_life s HI)). Qed.

(** ** C05: what the boolean [wfb] says *)
Theorem Inv_meaning s : Inv s ->
  (forall c p, count_occ_n p (parents (nd s c)) = count_occ_n c (children (nd s p))) /\
  (forall c p, inGraph (nd s c) = true -> p ∈ parents (nd s c) -> height (nd s p) < height (nd s c)) /\
  numNodes s = Z.of_nat (length (filter (fun n => inGraph (nd s n) = true) (allNodes s))) + Z.of_nat (size (obs s)) /\
  (forall n, n ∈ Heap.ids (heap s) -> inGraph (nd s n) = true /\ Heap.hinOf (heap s) n = height (nd s n)) /\
  HeapSpec.inv (heap s).
Proof.
  intros HI. split; [apply (inv_edges s HI)|]. split; [|split; [|split]].
  - intros c p Hc Hp. apply (inv_height s HI c Hc), Hp.
  - pose proof (wf_counts s HI) as W. unfold counts_ok in W. rewrite !andb_true_iff in W.
    destruct W as [[_ W] _]. apply bool_decide_eq_true in W. rewrite <- W.
    unfold EngineWf.sortn. rewrite stdpp.sorting.merge_sort_Permutation. apply (co_num s (inv_count s HI)).
  - apply (inv_heap s HI).
  - apply hinv_inv, (inv_heap s HI).
Qed.

(** ** C05 at operation boundaries of clean histories *)
Theorem wf_every_boundary_bindfree mh os s :
  (0 < mh)%nat -> forallb op_nobind os = true -> run_clean (init mh) os = Some s -> wfb s = true.
Proof. intros Hmh Hn H. apply Inv_wfb. apply (Inv_run_clean_bindfree mh os s Hmh Hn H). Qed.

Theorem wf_every_boundary mh os s :
  (0 < mh)%nat -> run_clean (init mh) os = Some s -> wfb s = true.
Proof. intros Hmh H. apply Inv_wfb. apply (Inv_run_clean mh os s Hmh H). Qed.

Theorem wf_every_boundary_cond mh os s :
  bind_spec (fun _ => True) -> (0 < mh)%nat -> run_clean (init mh) os = Some s -> wfb s = true.
Proof. intros _. apply wf_every_boundary. Qed.

(** ** C08 over histories *)
Theorem history_never_runs_after_invalidation mh os s l_after e l_before n :
  (0 < mh)%nat -> run_clean (init mh) os = Some s ->
  log s = l_after ++ e :: l_before -> ev_runs e = Some n -> EvInval n ∉ l_before.
Proof. intros Hmh H. apply never_runs_after_invalidation, (Inv_run_clean mh os s Hmh H). Qed.

(* the swap of a bind, from any state of a pass: between the bind function's event and the return
   of the lhs-change node's recomputation nothing runs, and every node of the generation being
   replaced is invalidated (hence, by the theorem above, never runs again) *)
Theorem swap_log fuel p s b s' :
  PInv s -> plan_ok s p = true -> nkind (nd s b) = KBindLhs b -> inGraph (nd s b) = true ->
  b_memo (bd s b) = false ->
  bindLhsStabilize fuel p s b = Ok (s', None) ->
  exists x root l1 l2,
    log s' = l2 ++ EvBindFn b x root :: l1 ++ log s /\
    Forall (fun ev => ev_runs ev = None) l1 /\ Forall (fun ev => ev_runs ev = None) l2 /\
    (b_rhs (bd s b) <> None -> forall n, n ∈ b_rhsNodes (bd s b) -> EvInval n ∈ l2).
Proof.
  intros P Hp Hk Hg Hnm H.
  destruct (bind_full_nomemo fuel p s b s' None P Hp Hk Hg Hnm H) as [[?|?]|(_ & _ & _ & _ & _ & L)]; [discriminate|discriminate|].
  apply L. reflexivity.
Qed.

(* a memoized bind, from any state of a pass: on a cache hit the cached root becomes the right-hand
   side, the record is otherwise unchanged and nothing runs; on a miss the function runs once and
   exactly its root is appended to the cache *)
Theorem memo_swap_log fuel p s b s' :
  PInv s -> plan_ok s p = true -> nkind (nd s b) = KBindLhs b -> inGraph (nd s b) = true ->
  b_memo (bd s b) = true ->
  bindLhsStabilize fuel p s b = Ok (s', None) -> memo_post s b (bd s b) s'.
Proof.
  intros P Hp Hk Hg Hm H.
  destruct (bind_full_memo_strong fuel p s b s' None P Hp Hk Hg Hm H) as [[?|?]|(_ & _ & _ & _ & _ & L)]; [discriminate|discriminate|].
  apply L. reflexivity.
Qed.

(** ** C05: no operation of a clean history faults (ParallelStabilize excepted, see below);
       running out of the model's fuel is not excluded *)
Theorem run_no_crash mh os s o :
  (0 < mh)%nat -> run_clean (init mh) os = Some s ->
  op_ok s o = true -> op_clean s o = true -> is_parstabilize o = false ->
  forall c, step s o <> Crash c.
Proof. intros Hmh H Hok Hcl Hnp. apply (nc_step s o (Inv_run_clean mh os s Hmh H) Hok Hcl Hnp). Qed.

Theorem run_no_crash_par_bindfree mh os s o :
  (0 < mh)%nat -> forallb op_nobind os = true -> run_clean (init mh) os = Some s ->
  op_ok s o = true -> is_parstabilize o = true -> forall c, step s o <> Crash c.
Proof.
  intros Hmh Hn H Hok Hg. destruct (Inv_run_clean_bindfree mh os s Hmh Hn H) as [HI Hb].
  apply (nc_step_parstabilize_bindfree s o HI Hb Hok Hg).
Qed.

(** ** Witnesses *)
(* after a clean history ParallelStabilize faults: the first bind of a height block is rejected for
   the height limit while a node waits in the adjust-heights heap; the next bind of the block
   finds the stale entry below its lower bound and dereferences the nil the scan returns *)
Definition h_par_crash : list op :=
  [NewVar 0 false;
   NewBind [TX; TMap (Aff 1 1) (TMap (Aff 1 1) (TMap (Aff 1 1) TX))] 0%nat;
   NewBind [TMap (Aff 1 1) (TMap (Aff 1 1) (TMap (Aff 1 1) TX));
            TMap (Aff 1 1) (TMap (Aff 1 1) (TMap (Aff 1 1) (TMap (Aff 1 1) TX)))] 0%nat;
   NewMap (Aff 1 1) 2%nat; NewMap (Aff 1 1) 5%nat; Observe 6%nat; Observe 4%nat;
   Stabilize []; SetVar 0%nat 1].

Theorem par_crash_refuted : exists os s,
  run_clean (init 8) os = Some s /\ op_ok s (ParStabilize []) = true /\ op_clean s (ParStabilize []) = true /\
  step s (ParStabilize []) = Crash NilDeref.
Proof.
  exists h_par_crash.
  assert (H : match run_clean (init 8) h_par_crash with
              | Some s => match step s (ParStabilize []) with Crash NilDeref => true | _ => false end
              | None => false end = true) by (vm_compute; reflexivity).
  remember (run_clean (init 8) h_par_crash) as r eqn:E. destruct r as [s|]; [|discriminate H].
  exists s. split; [reflexivity|]. split; [reflexivity|]. split; [reflexivity|].
  destruct (step s (ParStabilize [])) as [x|c|]; try discriminate H. destruct c; try discriminate H. reflexivity.
Qed.

(* an operation rejected for the height limit leaves the state ill-formed (MaxHeight 6) *)
Definition h_limit : list op :=
  [NewVar 1 false; NewMap (Aff 1 1) 0%nat; NewMap (Aff 1 1) 1%nat; NewMap (Aff 1 1) 2%nat;
   NewMap (Aff 1 1) 3%nat; NewMap (Aff 1 1) 4%nat; NewMap (Aff 1 1) 5%nat; Observe 6%nat].

Theorem rejection_refuted : exists os s, run (init 6) os = Ok s /\ wfb s = false.
Proof.
  assert (H : match run (init 6) h_limit with Ok s => negb (wfb s) | _ => false end = true) by (vm_compute; reflexivity).
  remember (run (init 6) h_limit) as r eqn:E. destruct r as [s| |]; [|discriminate H|discriminate H].
  exists h_limit, s. split; [symmetry; exact E|]. destruct (wfb s); [discriminate H|reflexivity].
Qed.

(* why [op_clean] asks for top-level nodes: observing a node of a discarded bind generation *)
Definition h_scope_leak : list op :=
  [NewVar 1 false; NewBind [TMap (Aff 1 1) TX] 0%nat; Observe 2%nat; Stabilize [];
   SetVar 0%nat 2; Stabilize []; Observe 5%nat].

Theorem scope_leak_refuted : exists os s, run_unrejected (init 16) os = Some s /\ wfb s = false.
Proof.
  assert (H : match run_unrejected (init 16) h_scope_leak with Some s => negb (wfb s) | None => false end = true) by (vm_compute; reflexivity).
  remember (run_unrejected (init 16) h_scope_leak) as r eqn:E. destruct r as [s|]; [|discriminate H].
  exists h_scope_leak, s. split; [symmetry; exact E|]. destruct (wfb s); [discriminate H|reflexivity].
Qed.

(* ... and so does a top-level node that reads a scope node (found by local-prover) *)
Definition h_scope_read : list op :=
  [NewVar 1 false; NewBind [TMap (Aff 1 0) TX; TMap (Aff 1 1) TX] 0%nat; Observe 2%nat; Stabilize [];
   NewMapN Sum [4%nat]; Observe 6%nat; Stabilize []; SetVar 0%nat 2; Stabilize []; AddInput 6%nat 0%nat].

Theorem scope_read_refuted : exists os s, run_unrejected (init 256) os = Some s /\ wfb s = false.
Proof.
  assert (H : match run_unrejected (init 256) h_scope_read with Some s => negb (wfb s) | None => false end = true) by (vm_compute; reflexivity).
  remember (run_unrejected (init 256) h_scope_read) as r eqn:E. destruct r as [s|]; [|discriminate H].
  exists h_scope_read, s. split; [symmetry; exact E|]. destruct (wfb s); [discriminate H|reflexivity].
Qed.

(* why [op_clean] asks [AddInput n a] for [a < n]: a cycle declared while unobserved is not detected *)
Definition h_cycle : list op :=
  [NewMapN Sum []; NewMapN Sum [0%nat]; AddInput 0%nat 1%nat; Observe 1%nat].

Theorem unobserved_cycle_refuted : exists os s, run_unrejected (init 16) os = Some s /\ wfb s = false.
Proof.
  assert (H : match run_unrejected (init 16) h_cycle with Some s => negb (wfb s) | None => false end = true) by (vm_compute; reflexivity).
  remember (run_unrejected (init 16) h_cycle) as r eqn:E. destruct r as [s|]; [|discriminate H].
  exists h_cycle, s. split; [symmetry; exact E|]. destruct (wfb s); [discriminate H|reflexivity].
Qed.

(* non-vacuity: a clean history with binds (nested, re-run, released) *)
(* ParallelStabilize keeps the first error of a height block: the user error of one bind (node 1)
   masks the height-limit rejection of the bind next to it (node 3); result class XUser, ill-formed *)
Definition h_par_masked : list op :=
  [NewVar 0 false; NewBind [TX; TRet 5] 0%nat;
   NewBind [TX; TMap (Aff 1 1) (TMap (Aff 1 1) (TMap (Aff 1 1) (TMap (Aff 1 1) TX)))] 0%nat;
   Observe 2%nat; Observe 4%nat; Stabilize []; SetVar 0%nat 1; ParStabilize [(1%nat, WFn, AFail FErr)]].

Theorem par_masked_rejection_refuted : exists os s, run_unrejected (init 6) os = Some s /\ wfb s = false.
Proof.
  exists h_par_masked.
  assert (H : match run_unrejected (init 6) h_par_masked with Some s => negb (wfb s) | None => false end = true) by (vm_compute; reflexivity).
  remember (run_unrejected (init 6) h_par_masked) as r eqn:E. destruct r as [s|]; [|discriminate H].
  exists s. split; [reflexivity|]. destruct (wfb s); [discriminate H|reflexivity].
Qed.

(* a clean history mixing both stabilizers, with binds, rebuilds and injected faults *)
Definition h_both : list op :=
  [NewVar 1 false; NewBind [TMap (Aff 1 1) TX; TBind [TRet 3; TX] (TMap (Aff 2 1) TX)] 0%nat; NewMap (Aff 1 1) 0%nat;
   Observe 2%nat; Observe 3%nat;
   ParStabilize [(3%nat, WFn, AFail FErr)]; SetVar 0%nat 2; ParStabilize []; SetVar 0%nat 3; Stabilize []; SetVar 0%nat 4;
   ParStabilize [(3%nat, WFn, AFail FPanic)]; Unobserve 4%nat].

Theorem clean_history_both_stabilizers : exists s, run_clean (init 16) h_both = Some s /\ wfb s = true.
Proof.
  assert (H : match run_clean (init 16) h_both with Some s => wfb s | None => false end = true) by (vm_compute; reflexivity).
  remember (run_clean (init 16) h_both) as r eqn:E. destruct r as [s|]; [|discriminate H].
  exists s. split; [reflexivity|exact H].
Qed.

Definition h_binds : list op :=
  [NewVar 1 false; NewBind [TMap (Aff 1 1) TX; TBind [TRet 3; TX] (TMap (Aff 2 1) TX)] 0%nat; Observe 2%nat;
   Stabilize []; SetVar 0%nat 2; Stabilize []; SetVar 0%nat 3; Stabilize []; Unobserve 3%nat].

Theorem clean_history_with_binds : exists s, run_clean (init 16) h_binds = Some s /\ wfb s = true.
Proof.
  assert (H : match run_clean (init 16) h_binds with Some s => wfb s | None => false end = true) by (vm_compute; reflexivity).
  remember (run_clean (init 16) h_binds) as r eqn:E. destruct r as [s|]; [|discriminate H].
  exists s. split; [reflexivity|exact H].
Qed.

Definition h_static : list op :=
  [NewVar 1 false; NewVar 2 true; NewMap2 (Lin2 1 2 0) 0%nat 1%nat; NewCutoff CParity 2%nat; Observe 3%nat;
   Stabilize []; SetVar 0%nat 5; Stabilize [(2%nat, WFn, AFail FErr)]; Stabilize []; Unobserve 4%nat].

Theorem clean_bindfree_history : exists s,
  forallb op_nobind h_static = true /\ run_clean (init 16) h_static = Some s.
Proof.
  assert (H : match run_clean (init 16) h_static with Some s => true | None => false end = true) by (vm_compute; reflexivity).
  remember (run_clean (init 16) h_static) as r eqn:E. destruct r as [s|]; [|discriminate H].
  exists s. split; reflexivity.
Qed.

(** * Memoized binds: non-vacuity *)
Theorem clean_history_with_memo : exists s, run_clean (init 16) h_memo = Some s /\ wfb s = true /\ bindfn_count s = 4%nat.
Proof.
  assert (H : match run_clean (init 16) h_memo with
              | Some s => wfb s && (bindfn_count s =? 4)%nat | None => false end = true) by (vm_compute; reflexivity).
  remember (run_clean (init 16) h_memo) as r eqn:E. destruct r as [s|]; [|discriminate H].
  apply andb_true_iff in H as [H1 H2]. apply Nat.eqb_eq in H2.
  exists s. split; [reflexivity|]. split; [exact H1|exact H2].
Qed.

(* three stabilizations with the values 1, 2, 1: the function ran twice, the third right-hand
   side is the cached node *)
Theorem memo_cache_hit : exists s,
  run_clean (init 16) h_memo_hit = Some s /\ bindfn_count s = 2%nat /\
  b_rhs (bd s 2%nat) = Some 6%nat /\ b_cache (bd s 2%nat) = [(1, Some 6%nat); (2, Some 8%nat)].
Proof.
  assert (H : match run_clean (init 16) h_memo_hit with
              | Some s => (bindfn_count s =? 2)%nat && bool_decide (b_rhs (bd s 2%nat) = Some 6%nat)
                          && bool_decide (b_cache (bd s 2%nat) = [(1, Some 6%nat); (2, Some 8%nat)])
              | None => false end = true) by (vm_compute; reflexivity).
  remember (run_clean (init 16) h_memo_hit) as r eqn:E. destruct r as [s|]; [|discriminate H].
  apply andb_true_iff in H as [H H3]. apply andb_true_iff in H as [H1 H2].
  apply Nat.eqb_eq in H1. apply bool_decide_eq_true in H2, H3.
  exists s. split; [reflexivity|]. split; [exact H1|]. split; [exact H2|exact H3].
Qed.

(** * C09: what the memo operations do to the cache; cached subgraphs stay alive *)
Lemma memo_main_inv s m : Inv s -> isMemoMain s m = true ->
  exists b, nkind (nd s m) = KBindMain b /\ m = S b /\ is_Some (binds s !! b) /\ b_memo (bd s b) = true.
Proof.
  intros HI H. unfold isMemoMain in H. destruct (nodes s !! m) as [y|] eqn:E; [|discriminate].
  assert (Hh : has s m) by (unfold has; rewrite E; eauto).
  assert (Hy : nd s m = y) by (unfold nd; rewrite E; reflexivity).
  destruct (nkind y) eqn:Ek; try discriminate.
  pose proof (inv_kinds s HI m Hh) as K. rewrite Hy, Ek in K. destruct K as [-> Hb].
  eexists. rewrite Hy. split; [exact Ek|]. auto.
Qed.

Theorem purge_spec s m x b s' e :
  nkind (nd s m) = KBindMain b -> is_Some (binds s !! b) ->
  step s (PurgeMemo m x) = Ok (s', e) ->
  e = None /\ nodes s' = nodes s /\ log s' = log s /\
  (forall b', b' <> b -> bd s' b' = bd s b') /\
  bd s' b = set b_cache (filter (fun kv => fst kv <> x)) (bd s b) /\
  (forall kv, kv ∈ b_cache (bd s' b) <-> kv ∈ b_cache (bd s b) /\ fst kv <> x).
Proof.
  intros Hk Hb H. simpl in H. rewrite Hk in H. apply ok_inv in H as [-> ->].
  split; [reflexivity|]. split; [apply nodes_updb|]. split; [apply log_updb|].
  split; [intros b' Hne; apply bd_updb_ne, Hne|].
  rewrite (bd_updb_eq s b _ Hb). split; [reflexivity|]. intros kv. cbn. rewrite elem_of_list_filter. tauto.
Qed.

Theorem clear_spec s m b s' e :
  nkind (nd s m) = KBindMain b -> is_Some (binds s !! b) ->
  step s (ClearMemo m) = Ok (s', e) ->
  e = None /\ nodes s' = nodes s /\ log s' = log s /\
  (forall b', b' <> b -> bd s' b' = bd s b') /\
  bd s' b = set b_cache (fun _ => []) (bd s b) /\ b_cache (bd s' b) = [].
Proof.
  intros Hk Hb H. simpl in H. rewrite Hk in H. apply ok_inv in H as [-> ->].
  split; [reflexivity|]. split; [apply nodes_updb|]. split; [apply log_updb|].
  split; [intros b' Hne; apply bd_updb_ne, Hne|].
  rewrite (bd_updb_eq s b _ Hb). split; reflexivity.
Qed.

(* a cached right-hand side exists, is a top-level node and is valid at every boundary: it keeps
   tracking the inputs it reads while it is parked, whatever rebuilds happen in between *)
Theorem cached_root_alive s b r x q :
  Inv s -> binds s !! b = Some r -> (x, Some q) ∈ b_cache r ->
  has s q /\ scope (nd s q) = None /\ valid (nd s q) = true /\ EvInval q ∉ log s.
Proof.
  intros HI Hr Hq. destruct (bw_cache _ _ _ (inv_binds s HI b r Hr) x q Hq) as (A & B & _).
  pose proof (vo_top s (inv_valid s HI) q B) as V.
  split; [exact A|]. split; [exact B|]. split; [exact V|].
  intros Hx. apply (lf_inval s (inv_life s HI) q) in Hx. congruence.
Qed.

Theorem memo_hit_spec fuel p s b s' i x' root :
  PInv s -> plan_ok s p = true -> nkind (nd s b) = KBindLhs b -> inGraph (nd s b) = true ->
  b_memo (bd s b) = true ->
  list_find (fun kv : Z * option nid => kv.1 = valueOf s (b_lhs (bd s b))) (b_cache (bd s b)) = Some (i, (x', root)) ->
  bindLhsStabilize fuel p s b = Ok (s', None) ->
  binds s' = <[b := set b_rhs (fun _ => root) (bd s b)]> (binds s) /\ norun_ext s s'.
Proof.
  intros P Hp Hk Hg Hm Ef H. pose proof (memo_swap_log fuel p s b s' P Hp Hk Hg Hm H) as L.
  unfold memo_post in L. cbv zeta in L. rewrite Ef in L. exact L.
Qed.

Theorem memo_miss_spec fuel p s b s' :
  PInv s -> plan_ok s p = true -> nkind (nd s b) = KBindLhs b -> inGraph (nd s b) = true ->
  b_memo (bd s b) = true ->
  list_find (fun kv : Z * option nid => kv.1 = valueOf s (b_lhs (bd s b))) (b_cache (bd s b)) = None ->
  bindLhsStabilize fuel p s b = Ok (s', None) ->
  let x := valueOf s (b_lhs (bd s b)) in
  exists root l2,
    binds s' = <[b := set b_rhs (fun _ => root)
                   (bd s b <| b_gen := S (b_gen (bd s b)) |> <| b_cache := b_cache (bd s b) ++ [(x, root)] |>)]> (binds s) /\
    log s' = l2 ++ EvBindFn b x root :: log s /\ Forall (fun ev => ev_runs ev = None) l2.
Proof.
  intros P Hp Hk Hg Hm Ef H. pose proof (memo_swap_log fuel p s b s' P Hp Hk Hg Hm H) as L.
  unfold memo_post in L. cbv zeta in L. rewrite Ef in L. exact L.
Qed.

Theorem cached_root_alive_history mh os s b r x q :
  (0 < mh)%nat -> run_clean (init mh) os = Some s ->
  binds s !! b = Some r -> (x, Some q) ∈ b_cache r ->
  has s q /\ scope (nd s q) = None /\ valid (nd s q) = true /\ EvInval q ∉ log s.
Proof. intros Hmh H. apply cached_root_alive, (Inv_run_clean mh os s Hmh H). Qed.

Theorem drain_history mh os s :
  (0 < mh)%nat -> run_clean (init mh) os = Some s -> obs s = ∅ ->
  reg s = [] /\ Heap.ids (heap s) = [] /\ numNodes s = 0%Z /\
  forall n, parents (nd s n) = [] /\ children (nd s n) = [].
Proof. intros Hmh H. apply drain, (Inv_run_clean mh os s Hmh H). Qed.

(** * A template instantiates to the same subgraph whatever scope it is built in *)
Lemma bd_newNode_shape s k d sc v b : exists l, bd (newNode s k d sc v).1 b = bd s b <| b_rhsNodes := l |>.
Proof.
  unfold bd. rewrite binds_newNode. destruct sc as [b0|].
  - destruct (decide (b = b0)) as [->|Hne].
    + rewrite lookup_alter. destruct (binds s !! b0) as [r|]; simpl; eexists; [reflexivity|]. reflexivity.
    + rewrite lookup_alter_ne by congruence. exists (b_rhsNodes (default (mkBind 0 0 0 None [] [] 0 false []) (binds s !! b))).
      destruct (default _ _); reflexivity.
  - exists (b_rhsNodes (default (mkBind 0 0 0 None [] [] 0 false []) (binds s !! b))). destruct (default _ _); reflexivity.
Qed.

Lemma set_rhsNodes_twice (r : bindrec) l1 l2 : r <| b_rhsNodes := l1 |> <| b_rhsNodes := l2 |> = r <| b_rhsNodes := l2 |>.
Proof. destruct r; reflexivity. Qed.

Lemma same_upto_scope_refl s : same_upto_scope s s.
Proof.
  split; auto; try reflexivity.
  - intros m. destruct (nd s m); reflexivity.
  - intros b. destruct (bd s b); reflexivity.
  - repeat split.
Qed.

Lemma same_upto_scope_newNode s1 s2 k d sc1 sc2 v :
  same_upto_scope s1 s2 ->
  same_upto_scope (newNode s1 k d sc1 v).1 (newNode s2 k d sc2 v).1 /\
  (newNode s1 k d sc1 v).2 = (newNode s2 k d sc2 v).2.
Proof.
  intros [Hn Hh Hnd Hbd (R1&R2&R3&R4&R5&R6&R7&R8&R9&R10&R11&R12&R13)]. split; [|exact Hn]. split.
  - rewrite !next_newNode, Hn. reflexivity.
  - intros m. rewrite !has_newNode, Hn, Hh. reflexivity.
  - intros m. rewrite !nd_newNode, Hn. destruct (decide (m = next s2)); [reflexivity|apply Hnd].
  - intros b. destruct (bd_newNode_shape s1 k d sc1 v b) as [l1 E1]. destruct (bd_newNode_shape s2 k d sc2 v b) as [l2 E2].
    rewrite E2, E1, (Hbd b). destruct (bd s1 b); reflexivity.
  - rewrite !reg_newNode, !obs_newNode, !heap_newNode, !adj_newNode, !invq_newNode, !stabNum_newNode, !status_newNode,
      !numNodes_newNode, !setDuring_newNode, !setRemoved_newNode, !handlers_newNode, !maxHeight_newNode, !log_newNode.
    repeat split; assumption.
Qed.

Local Opaque newNode.
Theorem inst_scope_irrel x : forall e s1 s2 sc1 sc2,
  texp_nobind e = true -> same_upto_scope s1 s2 ->
  same_upto_scope (inst s1 sc1 x e).1 (inst s2 sc2 x e).1 /\ (inst s1 sc1 x e).2 = (inst s2 sc2 x e).2.
Proof.
  induction e as [k| |t|f e IH|f e1 IH1 e2 IH2|c e IH|cs e IH|]; intros s1 s2 sc1 sc2 NB S; simpl in NB |- *.
  - destruct (same_upto_scope_newNode s1 s2 KReturn [] sc1 sc2 k S) as [A B].
    destruct (newNode s1 KReturn [] sc1 k), (newNode s2 KReturn [] sc2 k). simpl in *. split; [exact A|congruence].
  - destruct (same_upto_scope_newNode s1 s2 KReturn [] sc1 sc2 x S) as [A B].
    destruct (newNode s1 KReturn [] sc1 x), (newNode s2 KReturn [] sc2 x). simpl in *. split; [exact A|congruence].
  - auto.
  - destruct (IH s1 s2 sc1 sc2 NB S) as [A B].
    destruct (inst s1 sc1 x e) as [t1 a1], (inst s2 sc2 x e) as [t2 a2]. simpl in A, B. subst a2.
    destruct (same_upto_scope_newNode t1 t2 (KMap f) [default 0%nat a1] sc1 sc2 0 A) as [A' B'].
    destruct (newNode t1 _ _ sc1 0), (newNode t2 _ _ sc2 0). simpl in *. split; [exact A'|congruence].
  - apply andb_true_iff in NB as [NB1 NB2].
    destruct (IH1 s1 s2 sc1 sc2 NB1 S) as [A B].
    destruct (inst s1 sc1 x e1) as [t1 a1], (inst s2 sc2 x e1) as [t2 a2]. simpl in A, B. subst a2.
    destruct (IH2 t1 t2 sc1 sc2 NB2 A) as [A2 B2].
    destruct (inst t1 sc1 x e2) as [u1 c1], (inst t2 sc2 x e2) as [u2 c2]. simpl in A2, B2. subst c2.
    destruct (same_upto_scope_newNode u1 u2 (KMap2 f) [default 0%nat a1; default 0%nat c1] sc1 sc2 0 A2) as [A' B'].
    destruct (newNode u1 _ _ sc1 0), (newNode u2 _ _ sc2 0). simpl in *. split; [exact A'|congruence].
  - destruct (IH s1 s2 sc1 sc2 NB S) as [A B].
    destruct (inst s1 sc1 x e) as [t1 a1], (inst s2 sc2 x e) as [t2 a2]. simpl in A, B. subst a2.
    destruct (same_upto_scope_newNode t1 t2 (KCutoff c) [default 0%nat a1] sc1 sc2 0 A) as [A' B'].
    destruct (newNode t1 _ _ sc1 0), (newNode t2 _ _ sc2 0). simpl in *. split; [exact A'|congruence].
  - discriminate.
  - auto.
Qed.
Local Transparent newNode.

(* the function of a memoized bind (scope of the bind itself, here none) builds, node for node and
   identifier for identifier, what the function of a plain bind [b] builds in the scope of [b] *)
Corollary memo_builds_what_plain_builds s b x e :
  texp_nobind e = true ->
  same_upto_scope (inst s None x e).1 (inst s (Some b) x e).1 /\ (inst s None x e).2 = (inst s (Some b) x e).2.
Proof. intros NB. apply inst_scope_irrel; [exact NB|apply same_upto_scope_refl]. Qed.

(** * Observers on bind-scope nodes are outside the invariant, not outside [wfb] *)
(* observing a LIVE node of a bind's scope and then swapping the right-hand side leaves a
   registered, invalid, isolated node behind (the observer keeps it necessary; its invalidation
   unlinked it).  [wfb] accepts that state; clause [vo_reg] of [Inv] (registered => valid) does
   not: the exclusion of such observers is a limit of this invariant, no defect was found *)
Theorem inner_observer_outside_invariant : exists s n,
  run_unrejected (init 16) h_inner = Some s /\ wfb s = true /\
  inGraph (nd s n) = true /\ valid (nd s n) = false /\ parents (nd s n) = [] /\ children (nd s n) = [] /\
  ~ Inv s.
Proof.
  assert (H : match run_unrejected (init 16) h_inner with
              | Some s => wfb s && inGraph (nd s 5%nat) && negb (valid (nd s 5%nat)) &&
                          bool_decide (parents (nd s 5%nat) = []) && bool_decide (children (nd s 5%nat) = [])
              | None => false end = true) by (vm_compute; reflexivity).
  remember (run_unrejected (init 16) h_inner) as r eqn:E. destruct r as [s|]; [|discriminate H].
  apply andb_true_iff in H as [H H5]. apply andb_true_iff in H as [H H4]. apply andb_true_iff in H as [H H3].
  apply andb_true_iff in H as [H1 H2].
  apply bool_decide_eq_true in H4, H5.
  assert (Hv : valid (nd s 5%nat) = false) by (destruct (valid (nd s 5%nat)); [discriminate|reflexivity]).
  exists s, 5%nat. split; [reflexivity|]. split; [exact H1|]. split; [exact H2|].
  split; [exact Hv|]. split; [exact H4|]. split; [exact H5|].
  intros HI. rewrite (vo_reg s (inv_valid s HI) 5%nat H2) in Hv. discriminate.
Qed.
