(** C03, "whoever ran was owed", for ParallelStabilize on graphs with binds: every registered node
    that has run in a parallel pass was queued when the pass began, or one of its (current) inputs
    is stamped as changed in the pass, or it became necessary in the pass ([EvNec]).  (A node that
    runs twice, K10/K11, is of the third kind.) *)
From incr Require Import Base Heap HeapSpec HeapProofs EngineDefs Engine EngineRun EngineWf Spec EngineLemmas EngineLocal
     EngineInv EngineInvProofs PassInv PassProofs PassPlanProofs PassBind PassBindProofs PassBindSwap
     PassBindSwapProofs PassBindSwapStep PassBindOps PassBindSwapLog PassBindSwapOwed ParBind ParBindStep ParBindHistory ParBindLog.

Local Arguments valueOf : simpl never.

Definition LOP (h0 : list nid) (s : state) (R : list nid) (evs : list event) : Prop :=
  forall n, inGraph (nd s n) = true -> inP s R n = true \/ isDone s n = true -> reason h0 s evs n.

Lemma LOP_bind h0 s b R s' evs new :
  PInv s -> PInv s' -> LInvP s (b :: R) -> inGraph (nd s b) = true -> bfr s b s' -> bfrP s b R s' ->
  log s' = new ++ log s -> LOP h0 s (b :: R) evs -> LOP h0 s' R (new ++ evs).
Proof.
  intros P P' L Hgb F (FK & FC & FM & FB) El HO n Hg' Hw. set (K := stabNum s).
  assert (HK : stabNum s' = K) by apply (bx_k _ _ _ F).
  pose proof (PInv_Struct s' P') as HS'.
  assert (HWb : inP s (b :: R) b = true).
  { unfold inP. rewrite Hgb, (bool_decide_eq_true_2 (b ∈ b :: R)) by left. apply orb_true_r. }
  assert (Hpers : forall m, m <> S b -> inGraph (nd s m) = true -> inGraph (nd s' m) = true ->
            reason h0 s evs m -> reason h0 s' (new ++ evs) m).
  { intros m Hne Hgm Hgm' [Hh|[(p & Hp & Hc)|He]].
    - left. exact Hh.
    - right. left. exists p. assert (Hp' : p ∈ parents (nd s' m)) by (apply (bx_parents _ _ _ F m p Hgm Hgm' Hne), Hp).
      split; [exact Hp'|]. rewrite HK.
      destruct (decide (p = b)) as [->|Hpb]; [apply (bx_changed _ _ _ F)|].
      assert (Hgp' : inGraph (nd s' p) = true) by (apply (edge_reg s' HS' p m), (parent_edge s' HS'), Hp').
      destruct (bx_stamps _ _ _ F p Hpb) as [(_ & E2 & _)|[(E1 & _)|(E1 & _)]]; [rewrite E2; exact Hc|congruence|].
      rewrite (t_valid _ _ _ (p_t _ P') p Hgp') in E1. discriminate.
    - right. right. apply elem_of_app. right. exact He. }
  assert (Hmain : reason h0 s' (new ++ evs) (S b)).
  { right. left. exists b. destruct (bx_main _ _ _ F) as [_ Hp]. split; [exact Hp|]. rewrite HK. apply (bx_changed _ _ _ F). }
  destruct (decide (n = S b)) as [->|Hnm]; [exact Hmain|].
  destruct (inGraph (nd s n)) eqn:Hg.
  2:{ right. right. apply elem_of_app. left. exact (reg_new s s' new n P P' El Hg Hg'). }
  apply (Hpers n Hnm Hg Hg'). apply (HO n Hg).
  destruct Hw as [Hw|Hd].
  - left. destruct (FC n Hw) as [?|[?|?]]; [assumption|congruence|congruence].
  - destruct (decide (n = b)) as [->|Hnb]; [left; exact HWb|].
    destruct (bx_done _ _ _ F n Hnb Hd) as [E|[_ Hd0]]; [congruence|]. right. exact Hd0.
Qed.

Lemma LOP_step h0 s m R s' evs new :
  PInv s -> LInvP s (m :: R) -> inGraph (nd s m) = true -> isLhs (nkind (nd s m)) = false ->
  stepPostB s m s' None -> LOP h0 s (m :: R) evs -> LOP h0 s' R (new ++ evs).
Proof.
  intros P L Hg Hnl PP HO n Hg' Hw. set (K := stabNum s).
  pose proof (stepPostB_sframe _ _ _ _ PP) as F. pose proof (PInv_Struct s P) as HS.
  assert (HK : stabNum s' = K) by apply (sf_stabNum _ _ F).
  assert (HmW : inP s (m :: R) m = true).
  { unfold inP. rewrite Hg, (bool_decide_eq_true_2 (m ∈ m :: R)) by left. apply orb_true_r. }
  destruct (step_frameP s m R s' HS (PInv_heap s P) L Hg Hnl PP) as (_ & FR2 & _).
  rewrite (sf_inGraph _ _ F) in Hg'.
  assert (Hpers : forall x, reason h0 s evs x -> reason h0 s' (new ++ evs) x).
  { intros x [Hh|[(p & Hp & Hc)|He]].
    - left. exact Hh.
    - right. left. exists p. rewrite (sf_parents _ _ F). split; [exact Hp|]. rewrite HK.
      destruct (decide (p = m)) as [->|Hpm]; [|rewrite (sq_other _ _ _ _ PP p Hpm); exact Hc].
      destruct (sq_case _ _ _ _ PP) as [C|Rn]; [rewrite (cp_changed _ _ _ _ C); exact Hc|apply (rq_changed _ _ _ _ Rn)].
    - right. right. apply elem_of_app. right. exact He. }
  destruct Hw as [Hw|Hd].
  - destruct (FR2 n Hw) as [Hold|(Rn & Hc & _)].
    + apply Hpers, (HO n Hg'). left. exact Hold.
    + right. left. exists m. rewrite (sf_parents _ _ F). split; [apply (st_edge _ HS), Hc|].
      rewrite HK. apply (rq_changed _ _ _ _ Rn).
  - assert (Hd0 : isDone s n = true \/ n = m).
    { destruct (decide (n = m)) as [->|Hne]; [auto|left]. unfold isDone in *. rewrite (sq_other _ _ _ _ PP n Hne), HK in Hd. exact Hd. }
    destruct Hd0 as [Hd0| ->].
    + apply Hpers, (HO n Hg'). right. exact Hd0.
    + apply Hpers, (HO m Hg). left. exact HmW.
Qed.

Definition LOPx (h0 : list nid) (base : list event) (s : state) (R : list nid) : Prop :=
  exists evs, log s = evs ++ base /\ LOP h0 s R evs.

Lemma rnpO h0 base fuel st m R st' :
  Tplain st -> PInv st -> LInvP st (m :: R) -> inGraph (nd st m) = true ->
  recomputeNodeParallel fuel [] st m = Ok (st', None) -> LOPx h0 base st (m :: R) -> LOPx h0 base st' R.
Proof.
  intros TP P L Hg H (evs & El & HO).
  destruct (recomputeNodeParallel_spec PT PT_struct bind_spec_holds fuel [] st m st' None Logic.I P eq_refl Hg H)
    as [[[Hr|Hr]|(P' & _ & Hk & _)] _]; try discriminate.
  destruct (pf_recomputeNodeParallel _ _ _ _ _ _ H) as (_ & _ & _ & _ & _ & _ & _ & (new & Enew & _)).
  exists (new ++ evs). split; [rewrite Enew, El, app_assoc; reflexivity|].
  destruct (isLhs (nkind (nd st m))) eqn:Elhs.
  - destruct (nkind (nd st m)) eqn:K; try discriminate Elhs.
    pose proof (p_kinds _ P m (has_inGraph _ _ Hg)) as Hkk. rewrite K in Hkk. destruct Hkk as [-> _].
    destruct (bind_step_frameP fuel st b R st' TP P L Hg K H P') as [BF BFP].
    exact (LOP_bind h0 st b R st' evs new P P' L Hg BF BFP Enew HO).
  - destruct (rnp_rns fuel st m st' H) as (s1 & imm & Hs & Hadd).
    pose proof (PInv_BFB st P (lp_shape _ _ L)) as HB.
    destruct (rns_stepB fuel st m s1 None imm HB (has_inGraph _ _ Hg) (proj1 (PInv_heap st P)) Elhs Hs) as [_ PP1].
    pose proof (stepPostB_par st m s1 imm st' (proj1 (PInv_heap st P)) PP1 Hadd) as PP.
    exact (LOP_step h0 st m R st' evs new P L Hg Elhs PP HO).
Qed.

Lemma LOP_skip h0 s m R evs : inGraph (nd s m) = false -> LOP h0 s (m :: R) evs -> LOP h0 s R evs.
Proof.
  intros Hgm HO n Hg Hw. apply (HO n Hg). destruct Hw as [Hw|Hd]; [left|right; exact Hd].
  unfold inP in *. apply orb_true_iff in Hw as [Hw|Hw]; [rewrite Hw; reflexivity|].
  apply andb_true_iff in Hw as [H1 H2]. apply bool_decide_eq_true in H1.
  rewrite H2, (bool_decide_eq_true_2 (n ∈ m :: R)) by (right; exact H1). apply orb_true_r.
Qed.

Lemma blockO h0 base fuel l : forall st al st2 al2,
  Tplain st -> PInv st -> LInvP st l -> LOPx h0 base st l ->
  rfold (blockStep fuel []) l (st, None, al) = Ok (st2, None, al2) -> LOPx h0 base st2 [].
Proof.
  induction l as [|m l IH]; intros st al st2 al2 TP P L G H; simpl in H.
  { injection H as <- <-. exact G. }
  apply rbind_ok in H as ([[st1 e1] al1] & H1 & H). unfold blockStep in H1.
  destruct (Z.eqb_spec (height (nd st m)) unset) as [Hu|Hu].
  { injection H1 as <- <- <-. pose proof (PInv_unset st m P Hu) as Hgm.
    apply (IH st al st2 al2 TP P (LInvP_skip st m l Hgm L)); [|exact H].
    destruct G as (evs & El & G). exists evs. split; [exact El|apply (LOP_skip h0 st m l evs Hgm G)]. }
  apply rbind_ok in H1 as ([st' e'] & Hr & [= <- <- <-]).
  destruct e' as [x|]; [pose proof (block_err fuel l _ _ _ _ _ _ H); discriminate|].
  pose proof (PInv_hreg st m P Hu) as Hg.
  destruct (nodeP bind_stepP fuel st m l st' TP P L Hg Hr) as (TP' & P' & L' & _).
  eapply (IH st' _ st2 al2 TP' P' L' (rnpO h0 base fuel st m l st' TP P L Hg Hr G)). exact H.
Qed.

Lemma loopO_par h0 base fuel : forall s al s' al',
  Tplain s -> PInv s -> LInvP s [] -> AW s al -> LOPx h0 base s [] ->
  parLoop fuel [] s al = Ok (s', None, al') -> LOPx h0 base s' [].
Proof.
  induction fuel as [|fuel IH]; intros s al s' al' TP P L HA G H; [discriminate|].
  rewrite parLoop_S in H. destruct (PInv_heap s P) as [I Hq].
  destruct (Z.leb_spec (Heap.cnt (heap s)) 0) as [Hc|Hc]; [injection H as <- <-; exact G|].
  destruct (Heap.takeMinBlock (heap s)) as [block w] eqn:Etb. cbv zeta in H.
  set (sb := s <| heap := w |>) in *.
  set (isL := fun n : nid => match nkind (nd sb n) with KBindLhs _ => true | _ => false end) in *.
  set (order := filter (fun n => isL n = true) block ++ filter (fun n => isL n = false) block) in *.
  apply rbind_ok in H as ([[s2 e2] al2] & H2 & H).
  destruct e2 as [x|]; [discriminate|].
  destruct (heap_takeMinBlock_spec (heap s) block w I Etb) as (Iw & Pm & _).
  assert (Hndb : NoDup block).
  { pose proof (inv_nodup _ I) as Hn. rewrite Pm in Hn. apply NoDup_app in Hn as (Hn & _). exact Hn. }
  assert (Hord : forall x, x ∈ order <-> x ∈ block).
  { intros x. unfold order. rewrite elem_of_app, !elem_of_list_filter. destruct (isL x); intuition congruence. }
  assert (Hndo : NoDup order).
  { unfold order. apply NoDup_app. split; [apply stdpp.list.NoDup_filter, Hndb|]. split; [|apply stdpp.list.NoDup_filter, Hndb].
    intros x [A _]%elem_of_list_filter [B _]%elem_of_list_filter. congruence. }
  destruct (block_start s block w order P L Etb Hndo Hord) as [Pb Lb]. fold sb in Pb, Lb.
  pose proof (Tplain_binds s sb eq_refl TP) as TPb.
  assert (Gb : LOPx h0 base sb order).
  { destruct G as (evs & El & HO). exists evs. split; [exact El|]. intros n Hg Hw. apply (HO n Hg).
    destruct Hw as [Hw|Hd]; [left|right; exact Hd]. rewrite inP_nil.
    assert (Iw' : HeapSpec.inv (heap sb)) by exact Iw. apply (inHeap_iff0 s n I). rewrite Pm, elem_of_app.
    unfold inP in Hw. apply orb_true_iff in Hw as [Hw|Hw].
    - right. apply (inHeap_iff0 sb n Iw'), Hw.
    - apply andb_true_iff in Hw as [H1 _]. apply bool_decide_eq_true in H1. left. apply Hord, H1. }
  destruct (blockP bind_stepP fuel order sb al s2 al2 TPb Pb Lb (AW_heap s w al HA) H2) as (TP2 & P2 & L2 & HA2 & _).
  exact (IH s2 al2 s' al' TP2 P2 L2 HA2 (blockO h0 base fuel order sb al s2 al2 TPb Pb Lb Gb H2) H).
Qed.

(** * the pass: whoever ran was owed *)
Theorem parS_ran_was_owed s s' :
  Inv s -> ValInvB s -> Tplain s -> parStabilize [] s = Ok (s', None) ->
  forall evs n, log s' = evs ++ log s -> inGraph (nd s' n) = true -> recomputedAt (nd s' n) = stabNum s ->
    n ∈ Heap.ids (heap s) \/ (exists p, p ∈ parents (nd s' n) /\ changedAt (nd s' p) = stabNum s) \/ EvNec n ∈ evs.
Proof.
  intros IV V TP H evs n El Hg Hr. pose proof (Inv_wfb s IV) as Hwf.
  destruct (wfb_transients _ Hwf) as (Hst & Hsd & Hsr & Hh).
  destruct (parStabilize_nil_inv s s' Hst Hsd Hsr H) as (sL & always & sR & hev & EL & ER & Es & Hhev).
  fold (PassProofs.passStart s) in EL. set (s1 := PassProofs.passStart s) in *.
  pose proof (LInvP_start s IV V) as L1. fold s1 in L1.
  pose proof (Inv_PInv_start s IV) as P1. change (PInv s1) in P1.
  pose proof (Tplain_binds s s1 eq_refl TP) as TP1.
  assert (Hnd0 : forall y, isDone s1 y = false).
  { intros y. unfold isDone. apply Z.eqb_neq. pose proof (stamps_node_true _ _ (vb_stamps _ V y)).
    change (recomputedAt (nd s y) <> stabNum s). lia. }
  assert (HA1 : AW s1 []) by (intros y _ Hd _; rewrite Hnd0 in Hd; discriminate).
  destruct (loopP bind_stepP _ s1 [] sL always TP1 P1 L1 HA1 EL) as (_ & PL & LL & _ & _ & HkL & _).
  assert (G1 : LOPx (Heap.ids (heap s)) (log s1) s1 []).
  { exists []. split; [reflexivity|]. intros x Hgx [Hw|Hd]; [|rewrite Hnd0 in Hd; discriminate].
    left. destruct (PInv_heap s1 P1) as [I1 _]. rewrite inP_nil in Hw. apply (inHeap_iff0 s1 x I1) in Hw. exact Hw. }
  destruct (loopO_par _ _ _ s1 [] sL always TP1 P1 L1 HA1 G1 EL) as (evsL & ElL & HOL).
  specialize (Es (proj1 (lp_quiet _ _ LL)) (proj2 (lp_quiet _ _ LL))).
  pose proof (requeue_only_heap _ _ _ ER) as OR.
  assert (Hn : nodes s' = nodes sL) by (rewrite Es; cbn; apply (oh_nodes _ _ OR)).
  pose proof (nodes_eq_nd _ _ Hn) as Hnd.
  assert (HkLs : stabNum sL = stabNum s) by exact HkL.
  assert (Hevs : evs = (hev ++ [EvPassEnd XOk]) ++ evsL ++ [EvPassStart]).
  { apply (app_inv_tail (log s)). rewrite <- El, Es. cbn. rewrite (oh_log _ _ OR), ElL, <- !app_assoc. reflexivity. }
  rewrite !Hnd in *.
  destruct (HOL n Hg) as [Hh0|[(p & Hp & Hc)|He]].
  - right. apply isDone_iff. rewrite HkLs. exact Hr.
  - left. exact Hh0.
  - right. left. exists p. rewrite Hnd. split; [exact Hp|]. rewrite <- HkLs. exact Hc.
  - right. right. rewrite Hevs. apply elem_of_app. right. apply elem_of_app. left. exact He.
Qed.
