(** The events of a PARALLEL pass without a plan on a graph with binds (C02 / C03 for
    ParallelStabilize).

    What is different from the serial pass (PassBindSwapLog.v): a node of a height block that one
    bind of the block tears down and another bind of the same block registers again (event
    [EvNec n]) is queued again and ALSO still runs with the block; it then runs a second time when
    its queue entry is reached.  So within one period of necessity (the events after the last
    [EvNec n]) a node runs at most TWICE, and twice only if the period began in this very pass;
    and only its LAST run is guaranteed to have seen the final values of its inputs.

    [cnt n evs]: the number of runs of [n] in [evs] (most recent first) since the last [EvNec n].
    [LGP s0 s R evs]: the invariant ([R]: the pending part of the current block, as in
    [ParBind.LInvP]). *)
From stdpp Require Import sorting.
From incr Require Import Base Heap HeapSpec HeapProofs EngineDefs Engine EngineRun EngineWf Spec EngineLemmas
     EngineInv EngineInvProofs PassInv PassProofs PassBind PassBindProofs PassBindSwap PassBindSwapProofs
     PassBindSwapStep PassBindOps PassBindSwapLog ParBind ParBindStep ParBindHistory.
From incr Require EngineLocal.

Local Arguments valueOf : simpl never.

(** * Counting runs *)
Local Open Scope nat_scope.
Definition is_nec (n : nid) (e : event) : bool := match e with EvNec m => (m =? n)%nat | _ => false end.
Definition run_of (n : nid) (e : event) : bool :=
  match ev_node e with Some m => (m =? n)%nat | None => false end.

Fixpoint cnt (n : nid) (evs : list event) : nat :=
  match evs with
  | [] => 0
  | e :: l => if is_nec n e then 0 else if run_of n e then S (cnt n l) else cnt n l
  end.

Lemma is_nec_true n e : is_nec n e = true <-> e = EvNec n.
Proof.
  destruct e; simpl; try (split; [discriminate|discriminate]).
  rewrite Nat.eqb_eq. split; [intros ->; reflexivity|intros [= ->]; reflexivity].
Qed.

Lemma run_of_true n e : run_of n e = true <-> ev_node e = Some n.
Proof.
  unfold run_of. destruct (ev_node e) as [m|]; [|split; discriminate].
  rewrite Nat.eqb_eq. split; [intros ->; reflexivity|intros [= ->]; reflexivity].
Qed.

Lemma quiet_not_run n e : quiet e -> run_of n e = false.
Proof. unfold quiet, run_of. intros ->. reflexivity. Qed.

Lemma cnt_quiet new : forall n evs, Forall quiet new ->
  cnt n (new ++ evs) = if bool_decide (EvNec n ∈ new) then 0 else cnt n evs.
Proof.
  induction new as [|e new IH]; intros n evs F.
  - cbn [app]. rewrite bool_decide_eq_false_2 by apply not_elem_of_nil. reflexivity.
  - inversion F as [|? ? Qe F']; subst. cbn [app cnt]. destruct (is_nec n e) eqn:En.
    + apply is_nec_true in En as ->. rewrite bool_decide_eq_true_2 by left. reflexivity.
    + rewrite (quiet_not_run n e Qe), (IH n evs F').
      assert (Hne : e <> EvNec n) by (intros ->; rewrite (proj2 (is_nec_true n (EvNec n)) eq_refl) in En; discriminate).
      destruct (decide (EvNec n ∈ new)) as [Hin|Hnin].
      * rewrite !bool_decide_eq_true_2; [reflexivity|right; exact Hin|exact Hin].
      * rewrite !bool_decide_eq_false_2; [reflexivity| |exact Hnin]. intros Hin. apply elem_of_cons in Hin as [?|?]; auto.
Qed.

Lemma cnt_run e n m evs : ev_node e = Some m -> cnt n (e :: evs) = if decide (n = m) then S (cnt n evs) else cnt n evs.
Proof.
  intros He. simpl.
  assert (En : is_nec n e = false) by (destruct e; try reflexivity; discriminate He).
  rewrite En. unfold run_of. rewrite He. destruct (decide (n = m)) as [->|Hne].
  - rewrite Nat.eqb_refl. reflexivity.
  - rewrite (proj2 (Nat.eqb_neq m n)) by congruence. reflexivity.
Qed.

(* no [EvNec n] in a prefix: the count only grows *)
Lemma cnt_app_ge n l : forall l', EvNec n ∉ l -> cnt n l' <= cnt n (l ++ l').
Proof.
  induction l as [|e l IH]; intros l' Hn; [reflexivity|]. simpl.
  assert (He : is_nec n e = false).
  { destruct (is_nec n e) eqn:E; [|reflexivity]. apply is_nec_true in E as ->. exfalso. apply Hn. left. }
  rewrite He. assert (Hl : EvNec n ∉ l) by (intros H; apply Hn; right; exact H).
  pose proof (IH l' Hl). destruct (run_of n e); lia.
Qed.

Lemma cnt_cons_run n e l : ev_node e = Some n -> cnt n (e :: l) = S (cnt n l).
Proof. intros He. rewrite (cnt_run e n n l He), decide_True by reflexivity. reflexivity. Qed.

Lemma cnt_pos_run n : forall evs, 1 <= cnt n evs ->
  exists pre e post, evs = pre ++ e :: post /\ ev_node e = Some n /\ EvNec n ∉ pre /\
                     Forall (fun e2 => ev_node e2 <> Some n) pre.
Proof.
  induction evs as [|a l IH]; simpl; [lia|]. intros H.
  destruct (is_nec n a) eqn:En; [lia|].
  assert (Ha : a <> EvNec n) by (intros ->; rewrite (proj2 (is_nec_true n _) eq_refl) in En; discriminate).
  destruct (run_of n a) eqn:Er.
  - apply run_of_true in Er. exists [], a, l. split; [reflexivity|]. split; [exact Er|]. split; [apply not_elem_of_nil|constructor].
  - destruct (IH H) as (pre & e & post & -> & He & Hn & Hf). exists (a :: pre), e, post.
    split; [reflexivity|]. split; [exact He|]. split.
    + intros Hin. apply elem_of_cons in Hin as [?|?]; auto.
    + constructor; [|exact Hf]. intros E. apply run_of_true in E. congruence.
Qed.

Lemma latest_cnt n pre e post : ev_node e = Some n -> EvNec n ∉ pre -> 1 <= cnt n (pre ++ e :: post).
Proof.
  intros He Hn. pose proof (cnt_app_ge n pre (e :: post) Hn). rewrite (cnt_cons_run n e post He) in H. lia.
Qed.

(** the history-closed facts: at no time did a node have three runs in one period; a second run in a
    period happens only in a period that began in this pass *)
Fixpoint allcnt (evs : list event) : Prop :=
  match evs with
  | [] => True
  | e :: l => (forall n, cnt n (e :: l) <= 2) /\ (forall n, ev_node e = Some n -> 1 <= cnt n l -> EvNec n ∈ l) /\ allcnt l
  end.

Lemma allcnt_quiet new : forall evs, Forall quiet new -> (forall n, cnt n evs <= 2) -> allcnt evs -> allcnt (new ++ evs).
Proof.
  induction new as [|e new IH]; intros evs F Hc H; [exact H|].
  inversion F as [|? ? Qe F']; subst. simpl. split; [|split; [|apply IH; assumption]].
  - intros n. change (cnt n ((e :: new) ++ evs) <= 2). rewrite (cnt_quiet (e :: new) n evs F).
    destruct (bool_decide _); [lia|apply Hc].
  - intros n He. unfold quiet in Qe. congruence.
Qed.

Lemma allcnt_suffix pre : forall evs, allcnt (pre ++ evs) -> allcnt evs.
Proof. induction pre as [|a pre IH]; intros evs H; [exact H|]. apply IH. apply H. Qed.

(* C03, first form: never three runs of a node without an [EvNec] of it in between *)
Lemma allcnt_triple evs pre e1 mid1 e2 mid2 e3 post n :
  allcnt evs -> evs = pre ++ e1 :: mid1 ++ e2 :: mid2 ++ e3 :: post ->
  ev_node e1 = Some n -> ev_node e2 = Some n -> ev_node e3 = Some n ->
  EvNec n ∈ mid1 \/ EvNec n ∈ mid2.
Proof.
  intros H -> H1 H2 H3. apply allcnt_suffix in H. destruct H as [Hc _]. specialize (Hc n).
  destruct (decide (EvNec n ∈ mid1)) as [?|N1]; [auto|]. destruct (decide (EvNec n ∈ mid2)) as [?|N2]; [auto|exfalso].
  rewrite (cnt_cons_run n e1 _ H1) in Hc.
  pose proof (cnt_app_ge n mid1 (e2 :: mid2 ++ e3 :: post) N1) as G1.
  rewrite (cnt_cons_run n e2 _ H2) in G1.
  pose proof (cnt_app_ge n mid2 (e3 :: post) N2) as G2.
  rewrite (cnt_cons_run n e3 _ H3) in G2. lia.
Qed.

(* C03, second form: two runs in one period only if the period began in this pass *)
Lemma allcnt_pair evs pre e mid e' post n :
  allcnt evs -> evs = pre ++ e :: mid ++ e' :: post ->
  ev_node e = Some n -> ev_node e' = Some n -> EvNec n ∈ mid \/ EvNec n ∈ post.
Proof.
  intros H -> H1 H2. apply allcnt_suffix in H. destruct H as (_ & Hp & _).
  destruct (decide (EvNec n ∈ mid)) as [?|N1]; [auto|right].
  assert (Hc : 1 <= cnt n (mid ++ e' :: post)) by (apply latest_cnt; assumption).
  pose proof (Hp n H1 Hc) as Hin. apply elem_of_app in Hin as [?|Hin]; [contradiction|].
  apply elem_of_cons in Hin as [E|?]; [rewrite <- E in H2; discriminate H2|assumption].
Qed.

Lemma cnt_noev n : forall l, (forall e, e ∈ l -> ev_node e <> Some n) -> cnt n l = 0.
Proof.
  induction l as [|a l IH]; intros H; [reflexivity|]. simpl. destruct (is_nec n a); [reflexivity|].
  assert (Ha : run_of n a = false).
  { destruct (run_of n a) eqn:E; [|reflexivity]. apply run_of_true in E. exfalso. apply (H a); [left|exact E]. }
  rewrite Ha. apply IH. intros e He. apply H. right. exact He.
Qed.

Local Close Scope nat_scope.

(** * Which recomputes log an event *)
Definition evKind (k : kind) : bool :=
  match k with KMap _ | KMap2 _ | KMapN _ | KCutoff _ => true | _ => false end.

Lemma invoke_nil0 s n w : invoke [] s n w = Ok (s, None).
Proof. reflexivity. Qed.

Lemma stabilizeNode_log fuel s m s2 e :
  isLhs (nkind (nd s m)) = false -> stabilizeNode fuel [] s m = Ok (s2, e) ->
  e = None /\
  match nkind (nd s m) with
  | KMap _ | KMap2 _ | KMapN _ => exists ev, ev_node ev = Some m /\ log s2 = ev :: log s
  | _ => log s2 = log s
  end.
Proof.
  intros Hnl H. unfold stabilizeNode in H. cbv zeta in H.
  destruct (nkind (nd s m)) eqn:K; try discriminate Hnl; try rewrite invoke_nil0 in H; cbn [rbind] in H.
  - destruct (pending (nd s m)); [destruct (recomputedAt (nd s m) =? stabNum s)|]; injection H as <- <-; auto.
  - injection H as <- <-; auto.
  - injection H as <- <-. split; [reflexivity|]. eexists. split; [|reflexivity]. reflexivity.
  - injection H as <- <-. split; [reflexivity|]. eexists. split; [|reflexivity]. reflexivity.
  - injection H as <- <-. split; [reflexivity|]. eexists. split; [|reflexivity]. reflexivity.
  - injection H as <- <-; auto.
  - injection H as <- <-; auto.
  - injection H as <- <-; auto.
Qed.

Lemma rns_log_kind fuel s m s' imm :
  has s m -> isLhs (nkind (nd s m)) = false -> recomputeNodeSerial fuel [] s m = Ok (s', None, imm) ->
  if evKind (nkind (nd s m)) then exists e, ev_node e = Some m /\ log s' = e :: log s else log s' = log s.
Proof.
  intros Hm Hnl H. rewrite EngineLocal.recomputeNodeSerial_unfold in H. cbv zeta in H.
  set (s0 := upd s m (set recomputedAt (fun _ => stabNum s))) in *.
  assert (Hk0 : nkind (nd s0 m) = nkind (nd s m)) by (apply (nd_upd_proj nkind); reflexivity).
  assert (Tail : forall s2 e2, stabilizeNode fuel [] s2 m = Ok (s2, e2) -> True) by auto. clear Tail.
  assert (After : forall s1, nkind (nd s1 m) = nkind (nd s m) ->
            ('(s2, e) <-! stabilizeNode fuel [] s1 m;
             match e with
             | Some e0 => EngineLocal.failTail s2 m (recomputedAt (nd s m)) e0
             | None => EngineLocal.successTail s2 m
             end) = Ok (s', None, imm) ->
            match nkind (nd s m) with
            | KMap _ | KMap2 _ | KMapN _ => exists ev, ev_node ev = Some m /\ log s' = ev :: log s1
            | _ => log s' = log s1
            end).
  { intros s1 Hk1 H1. apply rbind_ok in H1 as ([s2 e2] & Hs & H1).
    destruct (stabilizeNode_log fuel s1 m s2 e2 ltac:(rewrite Hk1; exact Hnl) Hs) as [-> Hl]. rewrite Hk1 in Hl.
    apply EngineLocal.successTail_shape in H1 as [_ Hh]. apply EngineLocal.hhOnly_log in Hh.
    change (log s' = log s2) in Hh. rewrite Hh. exact Hl. }
  unfold EngineLocal.maybeCutoff in H. destruct (nkind (nd s m)) eqn:K; try discriminate Hnl; cbn [rbind evKind] in *.
  - exact (After s0 Hk0 H).
  - exact (After s0 Hk0 H).
  - exact (After s0 Hk0 H).
  - exact (After s0 Hk0 H).
  - exact (After s0 Hk0 H).
  - rewrite invoke_nil0 in H. cbn [rbind] in H.
    set (s1 := emit _ s0) in *. destruct (apCut c _ _).
    + injection H as <- _. eexists. split; [|reflexivity]. reflexivity.
    + pose proof (After s1 Hk0 H) as Hl. rewrite Hl. eexists. split; [|reflexivity]. reflexivity.
  - exact (After s0 Hk0 H).
  - exact (After s0 Hk0 H).
Qed.

(** * The invariant *)
(* an event is right for the current state; for a cutoff that cut, unlike [PassInv.ev_ok], nothing
   is said about the change stamp: an earlier run of the same period may have set it *)
Definition ev_okP (s : state) (e : event) : bool :=
  match e with
  | EvInvoked n args r =>
    isDone s n && bool_decide (args = map (valueOf s) (decl (nd s n))) && (r =? value (nd s n))
  | EvCutoff n old new v =>
    isDone s n && (if v then value (nd s n) =? old else value (nd s n) =? new)
  | _ => true
  end.

Lemma ev_okP_done s e n : ev_node e = Some n -> ev_okP s e = true -> isDone s n = true.
Proof.
  destruct e; try discriminate; intros [= ->]; unfold ev_okP; rewrite !andb_true_iff; tauto.
Qed.

Record LGP (s0 s : state) (R : list nid) (evs : list event) : Prop := {
  gp_kind : forall e n, e ∈ evs -> ev_node e = Some n -> has s n /\ evKind (nkind (nd s n)) = true;
  (* C02: the LAST run of the current period of a registered node that is not owed again *)
  gp_ok : forall pre e post n, evs = pre ++ e :: post -> ev_node e = Some n -> EvNec n ∉ pre ->
            Forall (fun e2 => ev_node e2 <> Some n) pre ->
            inGraph (nd s n) = true -> inP s R n = false -> ev_okP s e = true;
  gp_done : forall n, inGraph (nd s n) = true -> (1 <= cnt n evs)%nat -> isDone s n = true;
  gp_two : forall n, inGraph (nd s n) = true -> (2 <= cnt n evs)%nat -> inP s R n = false;
  gp_pend : forall n, inGraph (nd s n) = true -> (1 <= cnt n evs)%nat -> n ∈ R -> inHeap s n = false;
  gp_nec4 : forall n, inGraph (nd s n) = true -> n ∈ R -> inHeap s n = true -> EvNec n ∈ evs;
  gp_nec5 : forall n, inGraph (nd s n) = true -> (1 <= cnt n evs)%nat -> inP s R n = true -> EvNec n ∈ evs;
  gp_le : forall n, (cnt n evs <= 2)%nat;
  gp_all : allcnt evs;
  gp_keep : forall n, inGraph (nd s n) = true -> EvNec n ∉ evs -> isDone s n = false ->
            value (nd s n) = value (nd s0 n) /\ recomputedAt (nd s n) = recomputedAt (nd s0 n) /\
            changedAt (nd s n) = changedAt (nd s0 n);
  gp_val : forall n, inGraph (nd s n) = true -> EvNec n ∉ evs -> changedAt (nd s n) <> stabNum s ->
            value (nd s n) = value (nd s0 n)
}.

Definition LGPx (s0 : state) (base : list event) (s : state) (R : list nid) : Prop :=
  exists evs, log s = evs ++ base /\ LGP s0 s R evs.

Lemma LGP_start s0 : LGP s0 s0 [] [].
Proof.
  constructor; try (intros; simpl in *; lia); auto.
  all: try (intros e n He; inversion He; fail).
  all: try (intros pre e post n E; destruct pre; discriminate E).
  all: try (intros n _ Hn; inversion Hn; fail).
  all: try exact Logic.I.
Qed.

(* the invariant depends on the state through its nodes, its stabilization number and [inP]/[inHeap] *)
Lemma LGP_ext s0 s s' R R' evs :
  (forall n, nd s' n = nd s n) -> (forall n, has s' n <-> has s n) -> stabNum s' = stabNum s ->
  (forall n, inGraph (nd s n) = true -> inP s' R' n = inP s R n) ->
  (forall n, n ∈ R' -> inGraph (nd s n) = true -> inHeap s' n = true -> n ∈ R /\ inHeap s n = true) ->
  (forall n, n ∈ R' -> inGraph (nd s n) = true -> (1 <= cnt n evs)%nat -> inHeap s' n = false) ->
  LGP s0 s R evs -> LGP s0 s' R' evs.
Proof.
  intros Hnd Hhas Hk HW H4 H3 [A B C D E F G H I J K].
  assert (Hv : forall p, valueOf s' p = valueOf s p).
  { intros p. apply valueOf_ext. intros n. rewrite Hnd. auto. }
  assert (Hok : forall e, ev_okP s' e = ev_okP s e).
  { intros e. destruct e; try reflexivity; unfold ev_okP, isDone; rewrite !Hnd, Hk; [|reflexivity].
    rewrite (map_ext _ _ Hv). reflexivity. }
  constructor.
  - intros e n He Hn. rewrite Hnd, Hhas. apply (A e n He Hn).
  - intros pre e post n E1 E2 E3 E4 Hg Hw. rewrite Hnd in Hg. rewrite (HW n Hg) in Hw. rewrite Hok. eauto.
  - intros n Hg Hc. unfold isDone. rewrite Hnd, Hk in *. apply (C n Hg Hc).
  - intros n Hg Hc. rewrite Hnd in Hg. rewrite (HW n Hg). apply (D n Hg Hc).
  - intros n Hg Hc Hn. rewrite Hnd in Hg. apply (H3 n Hn Hg Hc).
  - intros n Hg Hn Hq. rewrite Hnd in Hg. destruct (H4 n Hn Hg Hq) as [X Y]. apply (F n Hg X Y).
  - intros n Hg Hc Hw. rewrite Hnd in Hg. rewrite (HW n Hg) in Hw. apply (G n Hg Hc Hw).
  - exact H.
  - exact I.
  - intros n Hg Hn Hd. unfold isDone in Hd. rewrite Hnd, Hk in *. apply (J n Hg Hn Hd).
  - intros n Hg Hn Hc. rewrite Hnd, Hk in *. apply (K n Hg Hn Hc).
Qed.


(** * One node of a block that is not a lhs-change node *)
Section StepLP.
  Context (s0 s : state) (m : nid) (R : list nid) (s' : state) (evs : list event).
  Context (HS : Struct s) (HBF : BFB s)
          (Hh : HeapSpec.inv (heap s) /\
                forall q, q ∈ Heap.ids (heap s) ->
                  inGraph (nd s q) = true /\ Heap.hinOf (heap s) q = height (nd s q))
          (L : LInvP s (m :: R)) (Hmreg : inGraph (nd s m) = true)
          (Hnl : isLhs (nkind (nd s m)) = false)
          (PP : stepPostB s m s' None) (G : LGP s0 s (m :: R) evs)
          (HK : if evKind (nkind (nd s m)) then exists e, ev_node e = Some m /\ log s' = e :: log s
                else log s' = log s).

  Let k := stabNum s.
  Let F : sframe s s' := stepPostB_sframe _ _ _ _ PP.

  Local Lemma QmW : inP s (m :: R) m = true.
  Proof. unfold inP. rewrite Hmreg, (bool_decide_eq_true_2 (m ∈ m :: R)) by left. apply orb_true_r. Qed.
  Local Lemma QmR : m ∉ R.
  Proof. pose proof (lp_nodup _ _ L) as H. apply stdpp.list.NoDup_cons in H as [H _]. exact H. Qed.
  Local Lemma Qk' : stabNum s' = k. Proof. apply (sf_stabNum _ _ F). Qed.
  Local Lemma Qnd_ne n : n <> m -> nd s' n = nd s n. Proof. apply (sq_other _ _ _ _ PP). Qed.
  Local Lemma Qrec_m : recomputedAt (nd s' m) = k. Proof. rewrite (sq_self _ _ _ _ PP). reflexivity. Qed.
  Local Lemma Qdm : isDone s' m = true. Proof. apply isDone_iff. rewrite Qk'. exact Qrec_m. Qed.
  Local Lemma Qkd n : nkind (nd s' n) = nkind (nd s n) /\ decl (nd s' n) = decl (nd s n).
  Proof. split; [apply (sf_nkind _ _ F)|apply (sf_decl _ _ F)]. Qed.
  Local Lemma Qvalue_ne n : n <> m -> value (nd s' n) = value (nd s n).
  Proof. intros Hn. rewrite (Qnd_ne n Hn). reflexivity. Qed.
  Local Lemma Qdone_ne n : n <> m -> isDone s' n = isDone s n.
  Proof. intros Hn. unfold isDone. rewrite (Qnd_ne n Hn), Qk'. reflexivity. Qed.

  Local Lemma FR :
    (forall x, inP s (m :: R) x = true -> x <> m -> inP s' R x = true) /\
    (forall x, inP s' R x = true ->
       inP s (m :: R) x = true \/ (runPostB s m s' None /\ x ∈ children (nd s m) /\ owedC s' x = true)) /\
    (inP s' R m = true -> inHeap s m = true) /\
    (forall x, inHeap s' x = true -> inHeap s x = true \/ x ∈ children (nd s m)).
  Proof. exact (step_frameP s m R s' HS Hh L Hmreg Hnl PP). Qed.

  (* a node that has run and is below [m] is owed *)
  Local Lemma below_owed n : reach s m n -> isDone s n = true -> inP s (m :: R) n = true.
  Proof. intros Hr Hd. apply (lp_B _ _ L m n QmW Hr Hd). Qed.

  (* not owed after the step: not owed before it *)
  Local Lemma notW_back n : n <> m -> inP s' R n = false -> inP s (m :: R) n = false.
  Proof.
    intros Hne H. destruct (inP s (m :: R) n) eqn:E; [|reflexivity].
    rewrite (proj1 FR n E Hne) in H. discriminate.
  Qed.

  Local Lemma Qval p : inGraph (nd s p) = true -> p <> m ->
    ~ (nkind (nd s p) = KAlways /\ reach s m p) -> valueOf s' p = valueOf s p.
  Proof. intros. apply (valueOf_changed s s' m p HS Qkd Qvalue_ne); assumption. Qed.

  Local Lemma Qval_cut p : cutPost s m s' None -> valueOf s' p = valueOf s p.
  Proof.
    intros C. apply valueOf_ext. intros n. destruct (Qkd n) as [-> ->]. split; [reflexivity|]. split; [reflexivity|].
    destruct (decide (n = m)) as [->|Hn]; [apply C|apply Qvalue_ne, Hn].
  Qed.

  Local Lemma Qval_decl_m p : p ∈ decl (nd s m) -> valueOf s' p = valueOf s p.
  Proof.
    intros Hp. assert (Hpar : p ∈ parents (nd s m)) by (apply (st_par _ HS); [exact Hmreg|exact Hp]).
    pose proof (parent_edge s HS _ _ Hpar) as He.
    apply Qval.
    - apply (edge_reg s HS _ _ He).
    - intros ->. pose proof (edge_height s HS _ _ He). lia.
    - intros [_ Hr]. exact (parent_not_reach s HS _ _ Hpar Hr).
  Qed.

  (* the inputs of a node that has run and is not owed read the same after the step *)
  Local Lemma Qval_done n p : inGraph (nd s n) = true -> isDone s n = true -> inP s (m :: R) n = false ->
    p ∈ decl (nd s n) -> valueOf s' p = valueOf s p.
  Proof.
    intros Hg Hd Hw Hp. destruct (sq_case _ _ _ _ PP) as [C|Rn]; [apply Qval_cut, C|].
    pose proof (decl_parent s HS n p Hg Hp) as He.
    assert (Hnr : ~ reach s m p).
    { intros Hr. assert (reach s m n) as Hrn by (eapply rtc_r; eauto).
      rewrite (below_owed n Hrn Hd) in Hw. discriminate. }
    apply Qval.
    - apply (edge_reg s HS _ _ He).
    - intros ->. apply Hnr, rtc_refl.
    - tauto.
  Qed.

  Local Lemma ev_okP_keep e n : ev_node e = Some n -> inGraph (nd s n) = true -> n <> m ->
    inP s (m :: R) n = false -> ev_okP s e = true -> ev_okP s' e = true.
  Proof.
    intros Hn Hg Hne Hw Hok. pose proof (ev_okP_done s e n Hn Hok) as Hd.
    assert (Hd' : isDone s' n = true) by (rewrite (Qdone_ne n Hne); exact Hd).
    destruct e; try discriminate Hn; injection Hn as ->; unfold ev_okP in *; rewrite Hd'; simpl.
    - rewrite !andb_true_iff in Hok. destruct Hok as [[_ Ha] Hr]. apply andb_true_iff. split.
      + apply bool_decide_eq_true in Ha. apply bool_decide_eq_true. rewrite Ha, (sf_decl _ _ F).
        apply map_ext_in. intros p Hp. symmetry. apply (Qval_done n p Hg Hd Hw). apply elem_of_list_In, Hp.
      + rewrite (Qnd_ne n Hne). exact Hr.
    - rewrite andb_true_iff in Hok. destruct Hok as [_ Hv]. rewrite (Qnd_ne n Hne). exact Hv.
  Qed.

  (* the events of the step: none, or one event of [m] that is right for [s'] *)
  Local Lemma stepP_events : exists new, log s' = new ++ log s /\
    (new = [] \/ exists e, new = [e] /\ ev_node e = Some m /\ ev_okP s' e = true).
  Proof.
    destruct (sq_case _ _ _ _ PP) as [C|Rn].
    - destruct (cp_kind _ _ _ _ C) as (c0 & K & Hcut & Hl).
      exists [EvCutoff m (value (nd s m)) (valueOf s (hd 0%nat (decl (nd s m)))) true].
      split; [exact Hl|]. right. eexists. split; [reflexivity|]. split; [reflexivity|].
      unfold ev_okP. rewrite Qdm. simpl. rewrite (cp_value _ _ _ _ C). apply Z.eqb_refl.
    - destruct (rq_log _ _ _ _ Rn) as (nev & Hl & Hnev). exists nev. split; [exact Hl|].
      destruct Hnev as [->|[->|(o & ->)]]; [auto|right|right].
      + eexists. split; [reflexivity|]. split; [reflexivity|]. unfold ev_okP. rewrite Qdm. simpl.
        apply andb_true_iff. split; [|apply Z.eqb_refl].
        apply bool_decide_eq_true. rewrite (sf_decl _ _ F). apply map_ext_in. intros p Hp.
        symmetry. apply Qval_decl_m. apply elem_of_list_In, Hp.
      + eexists. split; [reflexivity|]. split; [reflexivity|]. unfold ev_okP. rewrite Qdm. simpl. apply Z.eqb_refl.
  Qed.

  Lemma stepP_LGP : exists new, log s' = new ++ log s /\ LGP s0 s' R (new ++ evs).
  Proof.
    destruct G as [A B C D E Fh Gn Hle Hall J K].
    destruct FR as (FR1 & FR2 & FR3 & FR4).
    assert (Hreg : forall n, inGraph (nd s' n) = inGraph (nd s n)) by (intros n; apply (sf_inGraph _ _ F)).
    assert (Hcm : (cnt m evs <= 1)%nat).
    { destruct (le_lt_dec (cnt m evs) 1) as [?|Hgt]; [assumption|]. pose proof QmW as Hw. rewrite (D m Hmreg) in Hw by lia. discriminate Hw. }
    (* clauses that do not depend on the new event *)
    assert (X_two : forall n, n <> m -> inGraph (nd s n) = true -> (2 <= cnt n evs)%nat -> inP s' R n = false).
    { intros n Hne Hg Hc. destruct (inP s' R n) eqn:Ew; [exfalso|reflexivity].
      destruct (FR2 n Ew) as [Ho|(_ & Hch & _)]; [rewrite (D n Hg Hc) in Ho; discriminate|].
      assert (Hr : reach s m n) by (apply rtc_once; exact Hch).
      pose proof (below_owed n Hr (C n Hg ltac:(lia))) as Hb. rewrite (D n Hg Hc) in Hb. discriminate Hb. }
    assert (X_child : forall n, n ∈ R -> inGraph (nd s n) = true -> inHeap s n = false -> n ∈ children (nd s m) -> False).
    { intros n Hn Hg Hq Hch. assert (Hr : reach s m n) by (apply rtc_once; exact Hch).
      pose proof (lp_M _ _ L n m ltac:(right; exact Hn) Hg Hq QmW Hr) as <-. exact (QmR Hn). }
    assert (X_pend : forall n, inGraph (nd s n) = true -> (1 <= cnt n evs)%nat -> n ∈ R -> inHeap s' n = false).
    { intros n Hg Hc Hn. pose proof (E n Hg Hc ltac:(right; exact Hn)) as Hq.
      destruct (inHeap s' n) eqn:Eq; [exfalso|reflexivity].
      destruct (FR4 n Eq) as [?|Hch]; [congruence|exact (X_child n Hn Hg Hq Hch)]. }
    assert (X_nec4 : forall n, inGraph (nd s n) = true -> n ∈ R -> inHeap s' n = true -> EvNec n ∈ evs).
    { intros n Hg Hn Hq'. destruct (inHeap s n) eqn:Eq; [apply (Fh n Hg ltac:(right; exact Hn) Eq)|exfalso].
      destruct (FR4 n Hq') as [?|Hch]; [congruence|exact (X_child n Hn Hg Eq Hch)]. }
    assert (X_nec5 : forall n, n <> m -> inGraph (nd s n) = true -> (1 <= cnt n evs)%nat -> inP s' R n = true -> EvNec n ∈ evs).
    { intros n Hne Hg Hc Hw. destruct (FR2 n Hw) as [Ho|(_ & Hch & _)]; [apply (Gn n Hg Hc Ho)|].
      assert (Hr : reach s m n) by (apply rtc_once; exact Hch).
      apply (Gn n Hg Hc (below_owed n Hr (C n Hg Hc))). }
    assert (X_keep : forall n, inGraph (nd s' n) = true -> EvNec n ∉ evs -> isDone s' n = false ->
              value (nd s' n) = value (nd s0 n) /\ recomputedAt (nd s' n) = recomputedAt (nd s0 n) /\
              changedAt (nd s' n) = changedAt (nd s0 n)).
    { intros n Hg' Hnec Hd'. assert (Hne : n <> m) by (intros ->; rewrite Qdm in Hd'; discriminate).
      rewrite Hreg in Hg'. rewrite (Qdone_ne n Hne) in Hd'. rewrite (Qnd_ne n Hne). apply (J n Hg' Hnec Hd'). }
    assert (X_val : forall n, inGraph (nd s' n) = true -> EvNec n ∉ evs -> changedAt (nd s' n) <> stabNum s' ->
              value (nd s' n) = value (nd s0 n)).
    { intros n Hg' Hnec Hc'. rewrite Hreg in Hg'. destruct (decide (n = m)) as [->|Hne].
      - destruct (sq_case _ _ _ _ PP) as [Cc|Rn].
        + rewrite (cp_value _ _ _ _ Cc). apply (K m Hg' Hnec). rewrite <- (cp_changed _ _ _ _ Cc). fold k. rewrite <- Qk'. exact Hc'.
        + exfalso. apply Hc'. rewrite Qk'. apply (rq_changed _ _ _ _ Rn).
      - rewrite (Qnd_ne n Hne), Qk' in *. apply (K n Hg' Hnec Hc'). }
    assert (X_ok : forall pre e post n, evs = pre ++ e :: post -> ev_node e = Some n -> EvNec n ∉ pre ->
              Forall (fun e2 => ev_node e2 <> Some n) pre -> n <> m ->
              inGraph (nd s' n) = true -> inP s' R n = false -> ev_okP s' e = true).
    { intros pre e post n E1 E2 E3 E4 Hne Hg' Hw'. rewrite Hreg in Hg'.
      pose proof (notW_back n Hne Hw') as Hw.
      apply (ev_okP_keep e n E2 Hg' Hne Hw). apply (B pre e post n E1 E2 E3 E4 Hg' Hw). }
    assert (X_kind : forall e n, e ∈ evs -> ev_node e = Some n -> has s' n /\ evKind (nkind (nd s' n)) = true).
    { intros e n He Hn. rewrite (sf_has _ _ F), (sf_nkind _ _ F). apply (A e n He Hn). }
    destruct stepP_events as (new & Hl & [->|(e0 & -> & Hn0 & Hok0)]).
    - (* no event: [m] is of a kind that logs none, and has no event at all *)
      exists []. split; [exact Hl|]. cbn [app].
      assert (Hev : evKind (nkind (nd s m)) = false).
      { destruct (evKind (nkind (nd s m))); [|reflexivity]. destruct HK as (e & _ & He). rewrite Hl in He. cbn in He.
        exfalso. apply (f_equal (@length event)) in He. cbn in He. lia. }
      assert (Hno : forall e, e ∈ evs -> ev_node e <> Some m).
      { intros e He Hn. destruct (A e m He Hn) as [_ X]. congruence. }
      pose proof (cnt_noev m evs Hno) as Hc0.
      constructor.
      + exact X_kind.
      + intros pre e post n E1 E2 E3 E4 Hg' Hw'. apply (X_ok pre e post n E1 E2 E3 E4); try assumption.
        intros ->. apply (Hno e); [rewrite E1; apply elem_of_app; right; left|exact E2].
      + intros n Hg' Hc. destruct (decide (n = m)) as [->|Hne]; [exact Qdm|].
        rewrite (Qdone_ne n Hne). rewrite Hreg in Hg'. apply (C n Hg' Hc).
      + intros n Hg' Hc. rewrite Hreg in Hg'. apply (X_two n); [intros ->; lia|exact Hg'|exact Hc].
      + intros n Hg' Hc Hn. rewrite Hreg in Hg'. apply (X_pend n Hg' Hc Hn).
      + intros n Hg' Hn Hq. rewrite Hreg in Hg'. apply (X_nec4 n Hg' Hn Hq).
      + intros n Hg' Hc Hw. rewrite Hreg in Hg'. apply (X_nec5 n); [intros ->; lia|exact Hg'|exact Hc|exact Hw].
      + exact Hle.
      + exact Hall.
      + exact X_keep.
      + exact X_val.
    - exists [e0]. split; [exact Hl|]. cbn [app].
      assert (Hcnt : forall n, cnt n (e0 :: evs) = if decide (n = m) then S (cnt n evs) else cnt n evs).
      { intros n. apply (cnt_run e0 n m evs Hn0). }
      assert (Hnec0 : forall n, EvNec n ∉ e0 :: evs -> EvNec n ∉ evs) by (intros n H Hin; apply H; right; exact Hin).
      constructor.
      + intros e n He Hn. apply elem_of_cons in He as [->|He]; [|apply (X_kind e n He Hn)].
        assert (n = m) as -> by congruence. rewrite (sf_has _ _ F), (sf_nkind _ _ F). split; [apply has_inGraph, Hmreg|].
        destruct (evKind (nkind (nd s m))); [reflexivity|exfalso]. rewrite Hl in HK. cbn in HK.
        apply (f_equal (@length event)) in HK. cbn in HK. lia.
      + intros pre e post n E1 E2 E3 E4 Hg' Hw'. destruct pre as [|p0 pre]; cbn in E1.
        * injection E1 as <- _. exact Hok0.
        * injection E1 as <- E1. inversion E4 as [|? ? Hp0 E4']; subst.
          apply (X_ok pre e post n eq_refl E2); try assumption.
          -- intros Hin. apply E3. right. exact Hin.
          -- intros ->. apply Hp0. exact Hn0.
      + intros n Hg' Hc. destruct (decide (n = m)) as [->|Hne]; [exact Qdm|].
        rewrite (Qdone_ne n Hne). rewrite Hreg in Hg'. rewrite Hcnt, decide_False in Hc by exact Hne. apply (C n Hg' Hc).
      + intros n Hg' Hc. rewrite Hreg in Hg'. rewrite Hcnt in Hc. destruct (decide (n = m)) as [->|Hne].
        * assert (Hq : inHeap s m = false) by (apply (E m Hg'); [lia|left]).
          destruct (inP s' R m) eqn:Ew; [|reflexivity]. rewrite (FR3 eq_refl) in Hq. discriminate.
        * apply (X_two n Hne Hg' Hc).
      + intros n Hg' Hc Hn. rewrite Hreg in Hg'. assert (Hne : n <> m) by (intros ->; exact (QmR Hn)).
        rewrite Hcnt, decide_False in Hc by exact Hne. apply (X_pend n Hg' Hc Hn).
      + intros n Hg' Hn Hq. rewrite Hreg in Hg'. right. apply (X_nec4 n Hg' Hn Hq).
      + intros n Hg' Hc Hw. rewrite Hreg in Hg'. right. destruct (decide (n = m)) as [->|Hne].
        * apply (Fh m Hg'); [left|apply FR3, Hw].
        * rewrite Hcnt, decide_False in Hc by exact Hne. apply (X_nec5 n Hne Hg' Hc Hw).
      + intros n. rewrite Hcnt. destruct (decide (n = m)) as [->|]; [lia|apply Hle].
      + cbn [allcnt]. split; [|split; [|exact Hall]].
        * intros n. rewrite Hcnt. destruct (decide (n = m)) as [->|]; [lia|apply Hle].
        * intros n Hn Hc. assert (n = m) as -> by congruence. apply (Gn m Hmreg Hc QmW).
      + intros n Hg' Hnec Hd'. apply (X_keep n Hg' (Hnec0 n Hnec) Hd').
      + intros n Hg' Hnec Hc'. apply (X_val n Hg' (Hnec0 n Hnec) Hc').
  Qed.
End StepLP.

(** * The recompute of a lhs-change node *)
Lemma LGP_bind s0 s b R s' evs new :
  PInv s -> PInv s' -> LInvP s (b :: R) -> inGraph (nd s b) = true -> nkind (nd s b) = KBindLhs b ->
  bfr s b s' -> bfrP s b R s' -> log s' = new ++ log s -> Forall quiet new ->
  LGP s0 s (b :: R) evs -> LGP s0 s' R (new ++ evs).
Proof.
  intros P P' L Hgb Hkb F (FK & FC & FM & FB) El Hq [A B C D E Fh Gn Hle Hall J K].
  assert (HbW : inP s (b :: R) b = true).
  { unfold inP. rewrite Hgb, (bool_decide_eq_true_2 (b ∈ b :: R)) by left. apply orb_true_r. }
  assert (HbR : b ∉ R) by (pose proof (lp_nodup _ _ L) as H; apply stdpp.list.NoDup_cons in H as [H _]; exact H).
  assert (Hnob : forall e, e ∈ evs -> ev_node e <> Some b).
  { intros e He Hn. destruct (A e b He Hn) as [_ X]. rewrite Hkb in X. discriminate. }
  pose proof (cnt_noev b evs Hnob) as Hcb.
  assert (Hcnt : forall n, cnt n (new ++ evs) = if bool_decide (EvNec n ∈ new) then 0%nat else cnt n evs)
    by (intros n; apply cnt_quiet, Hq).
  assert (Hcnt1 : forall n, (1 <= cnt n (new ++ evs))%nat -> EvNec n ∉ new /\ cnt n (new ++ evs) = cnt n evs).
  { intros n Hc. rewrite Hcnt in *. destruct (bool_decide_reflect (EvNec n ∈ new)); [lia|auto]. }
  assert (Hback : forall n, inGraph (nd s' n) = true -> EvNec n ∉ new -> inGraph (nd s n) = true)
    by (intros n Hg Hn; apply (reg_back s s' new n P P' El Hg Hn)).
  (* a registered node other than [b] keeps its stamps *)
  assert (Hkeep : forall n, inGraph (nd s' n) = true -> n <> b ->
            recomputedAt (nd s' n) = recomputedAt (nd s n) /\ changedAt (nd s' n) = changedAt (nd s n)).
  { intros n Hg' Hne. destruct (bx_stamps _ _ _ F n Hne) as [(E1 & E2 & _)|[(E1 & _)|(E1 & _)]]; [auto|congruence|].
    rewrite (t_valid _ _ _ (p_t _ P') n Hg') in E1. discriminate. }
  assert (Hdone : forall n, inGraph (nd s' n) = true -> n <> b -> isDone s' n = isDone s n).
  { intros n Hg' Hne. unfold isDone. rewrite (bx_k _ _ _ F). destruct (Hkeep n Hg' Hne) as [-> _]. reflexivity. }
  assert (Hbmain : reach s b (S b)) by (apply rtc_once, (bx_edge _ _ _ F)).
  assert (HI : HeapSpec.inv (heap s)) by apply (PInv_heap s P).
  (* the cases of "owed after the step" for a node that has run *)
  assert (Hcases : forall n, inGraph (nd s n) = true -> isDone s n = true -> inP s' R n = true -> inP s (b :: R) n = true).
  { intros n Hg Hd Hw. destruct (FC n Hw) as [?|[->|Hu]]; [assumption| |congruence].
    apply (lp_B _ _ L b (S b) HbW Hbmain Hd). }
  (* the main node as a pending member that is not queued: impossible *)
  assert (Hmain_pend : S b ∈ R -> inGraph (nd s (S b)) = true -> inHeap s (S b) = false -> False).
  { intros Hn Hg Hqm. pose proof (lp_M _ _ L (S b) b ltac:(right; exact Hn) Hg Hqm HbW Hbmain). lia. }
  constructor.
  - intros e n He Hn. apply elem_of_app in He as [He|He].
    { rewrite Forall_forall in Hq. apply elem_of_list_In in He. specialize (Hq e He). unfold quiet in Hq. congruence. }
    destruct (A e n He Hn) as [Hh Hk]. split; [apply (bx_has _ _ _ F n Hh)|].
    destruct (bx_old _ _ _ F n Hh) as (-> & _). exact Hk.
  - intros pre' e post n E1 Hn Hnec Hfa Hg' Hw'.
    destruct (split_quiet_l new evs pre' e post E1 Hq ltac:(congruence)) as (pre & -> & Ee).
    assert (Hnn : EvNec n ∉ new) by (intros Hin; apply Hnec, elem_of_app; auto).
    pose proof (Hback n Hg' Hnn) as Hg.
    assert (Hne : n <> b) by (intros ->; apply (Hnob e); [rewrite Ee; apply elem_of_app; right; left|exact Hn]).
    assert (Hnm : n <> S b) by (intros ->; rewrite FM in Hw'; discriminate).
    assert (Hw : inP s (b :: R) n = false).
    { destruct (inP s (b :: R) n) eqn:Ew; [|reflexivity]. rewrite (FK n Ew Hne Hg') in Hw'. discriminate. }
    assert (Hok : ev_okP s e = true).
    { apply (B pre e post n Ee Hn); try assumption.
      - intros Hin. apply Hnec, elem_of_app. auto.
      - apply Forall_app in Hfa. apply Hfa. }
    pose proof (ev_okP_done s e n Hn Hok) as Hd.
    assert (Hd' : isDone s' n = true) by (rewrite (Hdone n Hg' Hne); exact Hd).
    pose proof (has_inGraph _ _ Hg) as Hhas. destruct (bx_old _ _ _ F n Hhas) as (_ & Ev & Ed).
    destruct e; try discriminate Hn; injection Hn as ->; unfold ev_okP in *; rewrite Hd'; simpl.
    + rewrite !andb_true_iff in Hok. destruct Hok as [[_ Ha] Hr]. apply andb_true_iff. split.
      * apply bool_decide_eq_true in Ha. apply bool_decide_eq_true. rewrite Ha, (Ed Hnm).
        apply map_ext_in. intros p Hp. symmetry. apply (bx_valueOf _ _ _ F).
        apply (io_decl _ (p_ids _ P) n). apply elem_of_list_In, Hp.
      * rewrite Ev. exact Hr.
    + rewrite andb_true_iff in Hok. destruct Hok as [_ Hv]. rewrite Ev. exact Hv.
  - intros n Hg' Hc. destruct (Hcnt1 n Hc) as [Hnn Ec]. rewrite Ec in Hc.
    pose proof (Hback n Hg' Hnn) as Hg. assert (Hne : n <> b) by (intros ->; lia).
    rewrite (Hdone n Hg' Hne). apply (C n Hg Hc).
  - intros n Hg' Hc. destruct (Hcnt1 n ltac:(lia)) as [Hnn Ec]. rewrite Ec in Hc.
    pose proof (Hback n Hg' Hnn) as Hg.
    destruct (inP s' R n) eqn:Ew; [exfalso|reflexivity].
    pose proof (Hcases n Hg (C n Hg ltac:(lia)) Ew) as Hx. rewrite (D n Hg Hc) in Hx. discriminate Hx.
  - intros n Hg' Hc Hn. destruct (Hcnt1 n Hc) as [Hnn Ec]. rewrite Ec in Hc.
    pose proof (Hback n Hg' Hnn) as Hg. pose proof (E n Hg Hc ltac:(right; exact Hn)) as Hqn.
    destruct (inHeap s' n) eqn:Eq; [exfalso|reflexivity].
    destruct (bx_queued _ _ _ F n Eq) as [?|[->|?]]; [congruence| |congruence].
    exact (Hmain_pend Hn Hg Hqn).
  - intros n Hg' Hn Hq'. apply elem_of_app. destruct (decide (EvNec n ∈ new)) as [?|Hnn]; [auto|right].
    pose proof (Hback n Hg' Hnn) as Hg.
    destruct (inHeap s n) eqn:Eq; [apply (Fh n Hg ltac:(right; exact Hn) Eq)|exfalso].
    destruct (bx_queued _ _ _ F n Hq') as [?|[->|?]]; [congruence| |congruence].
    exact (Hmain_pend Hn Hg Eq).
  - intros n Hg' Hc Hw. destruct (Hcnt1 n Hc) as [Hnn Ec]. rewrite Ec in Hc.
    pose proof (Hback n Hg' Hnn) as Hg. apply elem_of_app. right.
    apply (Gn n Hg Hc). apply (Hcases n Hg (C n Hg Hc) Hw).
  - intros n. rewrite Hcnt. destruct (bool_decide _); [lia|apply Hle].
  - apply (allcnt_quiet new evs Hq Hle Hall).
  - intros n Hg' Hnec Hd'.
    assert (Hnn : EvNec n ∉ new) by (intros Hin; apply Hnec, elem_of_app; auto).
    pose proof (Hback n Hg' Hnn) as Hg.
    assert (Hne : n <> b).
    { intros ->. destruct (bx_self _ _ _ F) as [Eb _]. unfold isDone in Hd'. rewrite (bx_k _ _ _ F), Eb, Z.eqb_refl in Hd'. discriminate. }
    destruct (Hkeep n Hg' Hne) as [E1 E2]. rewrite (Hdone n Hg' Hne) in Hd'.
    destruct (J n Hg ltac:(intros Hin; apply Hnec, elem_of_app; auto) Hd') as (C1 & C2 & C3).
    destruct (bx_old _ _ _ F n (has_inGraph _ _ Hg)) as (_ & Ev & _). repeat split; congruence.
  - intros n Hg' Hnec Hc'.
    assert (Hnn : EvNec n ∉ new) by (intros Hin; apply Hnec, elem_of_app; auto).
    pose proof (Hback n Hg' Hnn) as Hg.
    assert (Hne : n <> b) by (intros ->; apply Hc'; rewrite (bx_changed _ _ _ F), (bx_k _ _ _ F); reflexivity).
    destruct (Hkeep n Hg' Hne) as [E1 E2].
    destruct (bx_old _ _ _ F n (has_inGraph _ _ Hg)) as (_ & Ev & _). rewrite Ev.
    apply (K n Hg); [intros Hin; apply Hnec, elem_of_app; auto|]. rewrite <- E2, <- (bx_k _ _ _ F). exact Hc'.
Qed.

(** * One node of a block, a skipped node, the start of a block *)
Lemma nodeLP fuel s0 st m R st' evs :
  Tplain st -> PInv st -> LInvP st (m :: R) -> inGraph (nd st m) = true ->
  recomputeNodeParallel fuel [] st m = Ok (st', None) -> LGP s0 st (m :: R) evs ->
  exists new, log st' = new ++ log st /\ LGP s0 st' R (new ++ evs).
Proof.
  intros TP P L Hg H G.
  destruct (recomputeNodeParallel_spec PT PT_struct bind_spec_holds fuel [] st m st' None Logic.I P eq_refl Hg H)
    as [[[Hr|Hr]|(P' & _ & Hk & _)] _]; try discriminate.
  destruct (isLhs (nkind (nd st m))) eqn:El.
  - destruct (nkind (nd st m)) eqn:K; try discriminate El.
    pose proof (p_kinds _ P m (has_inGraph _ _ Hg)) as Hkk. rewrite K in Hkk. destruct Hkk as [-> _].
    destruct (bind_step_frameP fuel st b R st' TP P L Hg K H P') as [BF BFP].
    destruct (bx_log _ _ _ BF) as (new & El' & Hq). exists new. split; [exact El'|].
    exact (LGP_bind s0 st b R st' evs new P P' L Hg K BF BFP El' Hq G).
  - destruct (rnp_rns fuel st m st' H) as (s1 & imm & Hs & Hadd).
    pose proof (PInv_BFB st P (lp_shape _ _ L)) as HB.
    destruct (rns_stepB fuel st m s1 None imm HB (has_inGraph _ _ Hg) (proj1 (PInv_heap st P)) El Hs) as [_ PP1].
    pose proof (stepPostB_par st m s1 imm st' (proj1 (PInv_heap st P)) PP1 Hadd) as PP.
    assert (Hlog : log st' = log s1).
    { destruct imm as [c|]; [|subst; reflexivity]. apply heapAdd_inv in Hadd as (w & _ & ->). reflexivity. }
    pose proof (rns_log_kind fuel st m s1 imm (has_inGraph _ _ Hg) El Hs) as HK. rewrite <- Hlog in HK.
    exact (stepP_LGP s0 st m R st' evs (PInv_Struct st P) (PInv_heap st P) L Hg El PP G HK).
Qed.

Lemma LGP_skip s0 s m R evs : inGraph (nd s m) = false -> LGP s0 s (m :: R) evs -> LGP s0 s R evs.
Proof.
  intros Hg G. apply (LGP_ext s0 s s (m :: R) R evs); try reflexivity; try exact G.
  - intros n Hn. unfold inP. f_equal. destruct (decide (n = m)) as [->|Hne]; [congruence|].
    f_equal. apply bool_decide_ext. rewrite elem_of_cons. tauto.
  - intros n Hn _ Hq. split; [right; exact Hn|exact Hq].
  - intros n Hn Hgn Hc. apply (gp_pend _ _ _ _ G n Hgn Hc). right. exact Hn.
Qed.

Lemma LGP_block_start s0 s block w order evs :
  PInv s -> Heap.takeMinBlock (heap s) = (block, w) -> (forall x, x ∈ order <-> x ∈ block) ->
  LGP s0 s [] evs -> LGP s0 (s <| heap := w |>) order evs.
Proof.
  intros P Etb Hord G. set (sb := s <| heap := w |>).
  destruct (PInv_heap s P) as [I Hq].
  destruct (heap_takeMinBlock_spec (heap s) block w I Etb) as (Iw & Pm & _).
  assert (Iw' : HeapSpec.inv (heap sb)) by exact Iw.
  assert (Hout : forall n, n ∈ order -> inHeap sb n = false).
  { intros n Hn. destruct (inHeap sb n) eqn:E; [exfalso|reflexivity]. apply (inHeap_iff0 sb n Iw') in E.
    apply Hord in Hn. pose proof (inv_nodup _ I) as Hnd. rewrite Pm in Hnd. apply NoDup_app in Hnd as (_ & Hdis & _).
    exact (Hdis n Hn E). }
  apply (LGP_ext s0 s sb [] order evs); try reflexivity; try exact G.
  - intros n _. rewrite inP_nil. apply eq_true_iff_eq. unfold inP. rewrite orb_true_iff, andb_true_iff, bool_decide_eq_true.
    rewrite (inHeap_iff0 sb n Iw'), (inHeap_iff0 s n I), Pm, elem_of_app, Hord. change (heap sb) with w.
    change (nd sb n) with (nd s n). split; [intros [?|[? _]]; auto|intros [Hx|?]; auto].
    right. split; [exact Hx|]. apply Hq. rewrite Pm. apply elem_of_app. left. exact Hx.
  - intros n Hn _ Hqn. rewrite (Hout n Hn) in Hqn. discriminate.
  - intros n Hn _ _. apply (Hout n Hn).
Qed.

(** * The blocks and the loop *)
Lemma blockLP fuel s0 base l : forall st al st2 al2,
  Tplain st -> PInv st -> LInvP st l -> LGPx s0 base st l ->
  rfold (blockStep fuel []) l (st, None, al) = Ok (st2, None, al2) -> LGPx s0 base st2 [].
Proof.
  induction l as [|m l IH]; intros st al st2 al2 TP P L G H; simpl in H.
  { injection H as <- <-. exact G. }
  apply rbind_ok in H as ([[st1 e1] al1] & H1 & H). unfold blockStep in H1.
  destruct (Z.eqb_spec (height (nd st m)) unset) as [Hu|Hu].
  { injection H1 as <- <- <-. pose proof (PInv_unset st m P Hu) as Hgm.
    apply (IH st al st2 al2 TP P (LInvP_skip st m l Hgm L)); [|exact H].
    destruct G as (evs & El & G). exists evs. split; [exact El|apply (LGP_skip s0 st m l evs Hgm G)]. }
  apply rbind_ok in H1 as ([st' e'] & Hr & [= <- <- <-]).
  destruct e' as [x|]; [pose proof (block_err fuel l _ _ _ _ _ _ H); discriminate|].
  pose proof (PInv_hreg st m P Hu) as Hg.
  destruct (nodeP bind_stepP fuel st m l st' TP P L Hg Hr) as (TP' & P' & L' & _).
  destruct G as (evs & El & G).
  destruct (nodeLP fuel s0 st m l st' evs TP P L Hg Hr G) as (new & El1 & G1).
  eapply (IH st' _ st2 al2 TP' P' L'); [|exact H].
  exists (new ++ evs). split; [rewrite El1, El, app_assoc; reflexivity|exact G1].
Qed.

Lemma loopLP fuel s0 base : forall s al s' al',
  Tplain s -> PInv s -> LInvP s [] -> AW s al -> LGPx s0 base s [] ->
  parLoop fuel [] s al = Ok (s', None, al') -> LGPx s0 base s' [].
Proof.
  induction fuel as [|fuel IH]; intros s al s' al' TP P L HA G H; [discriminate|].
  rewrite parLoop_S in H. destruct (PInv_heap s P) as [I Hq].
  destruct (Z.leb_spec (Heap.cnt (heap s)) 0) as [Hc|Hc]; [injection H as <- <-; exact G|].
  destruct (Heap.takeMinBlock (heap s)) as [block w] eqn:Etb. cbv zeta in H.
  set (sb := s <| heap := w |>) in *.
  set (isL := fun n : nid => match nkind (nd sb n) with KBindLhs _ => true | _ => false end) in *.
  set (order := filter (fun n => isL n = true) block ++ filter (fun n => isL n = false) block) in *.
  apply rbind_ok in H as ([[s2 e2] al2] & H2 & H).
  destruct e2 as [x|]; [discriminate|].
  destruct (heap_takeMinBlock_spec (heap s) block w I Etb) as (_ & Pm & _).
  assert (Hndb : NoDup block).
  { pose proof (inv_nodup _ I) as Hn. rewrite Pm in Hn. apply NoDup_app in Hn as (Hn & _). exact Hn. }
  assert (Hord : forall x, x ∈ order <-> x ∈ block).
  { intros x. unfold order. rewrite elem_of_app, !elem_of_list_filter. destruct (isL x); intuition congruence. }
  assert (Hndo : NoDup order).
  { unfold order. apply NoDup_app. split; [apply stdpp.list.NoDup_filter, Hndb|]. split; [|apply stdpp.list.NoDup_filter, Hndb].
    intros x [A _]%elem_of_list_filter [B _]%elem_of_list_filter. congruence. }
  destruct (block_start s block w order P L Etb Hndo Hord) as [Pb Lb]. fold sb in Pb, Lb.
  pose proof (Tplain_binds s sb eq_refl TP) as TPb.
  assert (Gb : LGPx s0 base sb order).
  { destruct G as (evs & El & G). exists evs. split; [exact El|]. apply (LGP_block_start s0 s block w order evs P Etb Hord G). }
  pose proof (blockLP fuel s0 base order sb al s2 al2 TPb Pb Lb Gb H2) as G2.
  destruct (blockP bind_stepP fuel order sb al s2 al2 TPb Pb Lb (AW_heap s w al HA) H2) as (TP2 & P2 & L2 & HA2 & _).
  exact (IH s2 al2 s' al' TP2 P2 L2 HA2 G2 H).
Qed.

(** * The pass *)
Local Open Scope nat_scope.
Lemma cnt_snoc_quiet n q : Forall quiet q -> EvNec n ∉ q -> forall l, cnt n (l ++ q) = cnt n l.
Proof.
  intros Fq Hn l. induction l as [|a l IH].
  - cbn [app]. rewrite <- (app_nil_r q), (cnt_quiet q n [] Fq), (bool_decide_eq_false_2 _ Hn). reflexivity.
  - cbn [app cnt]. rewrite IH. reflexivity.
Qed.

Lemma allcnt_snoc_quiet q : Forall quiet q -> (forall n, EvNec n ∉ q) -> forall l, allcnt l -> allcnt (l ++ q).
Proof.
  intros Fq Hn. induction l as [|a l IH]; intros H.
  - cbn [app]. rewrite <- (app_nil_r q). apply (allcnt_quiet q [] Fq); [intros n; simpl; lia|exact Logic.I].
  - destruct H as (H1 & H2 & H3). cbn [app allcnt]. split; [|split; [|apply IH, H3]].
    + intros n. change (cnt n ((a :: l) ++ q) <= 2). rewrite (cnt_snoc_quiet n q Fq (Hn n)). apply H1.
    + intros n Ha Hc. rewrite (cnt_snoc_quiet n q Fq (Hn n)) in Hc. apply elem_of_app. left. apply (H2 n Ha Hc).
Qed.
Local Close Scope nat_scope.

Record PassLogP (s s' : state) : Prop := {
  (* C02: the LAST run of the current period of necessity of a node that is registered when the pass
     returns saw the values its inputs hold then, and returned the value the node holds then *)
  plp_last : forall evs pre e post n, log s' = evs ++ log s -> evs = pre ++ e :: post ->
      ev_node e = Some n -> EvNec n ∉ pre -> Forall (fun e2 => ev_node e2 <> Some n) pre ->
      inGraph (nd s' n) = true ->
      recomputedAt (nd s' n) = stabNum s /\
      match e with
      | EvInvoked _ args r => args = map (valueOf s') (decl (nd s' n)) /\ r = value (nd s' n)
      | EvCutoff _ old new true => value (nd s' n) = old
      | EvCutoff _ old new false => value (nd s' n) = new
      | _ => True
      end;
  (* C03: at most two runs in one period of necessity ... *)
  plp_triple : forall evs pre e1 mid1 e2 mid2 e3 post n, log s' = evs ++ log s ->
      evs = pre ++ e1 :: mid1 ++ e2 :: mid2 ++ e3 :: post ->
      ev_node e1 = Some n -> ev_node e2 = Some n -> ev_node e3 = Some n ->
      EvNec n ∈ mid1 \/ EvNec n ∈ mid2;
  (* ... and two only in a period that began in this pass *)
  plp_pair : forall evs pre e mid e' post n, log s' = evs ++ log s -> evs = pre ++ e :: mid ++ e' :: post ->
      ev_node e = Some n -> ev_node e' = Some n -> EvNec n ∈ mid \/ EvNec n ∈ post;
  plp_keep : forall evs n, log s' = evs ++ log s -> inGraph (nd s' n) = true -> EvNec n ∉ evs ->
      recomputedAt (nd s' n) <> stabNum s ->
      value (nd s' n) = value (nd s n) /\ recomputedAt (nd s' n) = recomputedAt (nd s n) /\
      changedAt (nd s' n) = changedAt (nd s n);
  plp_changed : forall evs n, log s' = evs ++ log s -> inGraph (nd s' n) = true -> EvNec n ∉ evs ->
      value (nd s' n) <> value (nd s n) -> changedAt (nd s' n) = stabNum s;
  plp_stale : forall n, inGraph (nd s' n) = true -> isStale s' n = true -> nkind (nd s' n) = KAlways;
  plp_owed : forall n p, inGraph (nd s' n) = true -> p ∈ parents (nd s' n) ->
      changedAt (nd s' p) = stabNum s -> recomputedAt (nd s' n) = stabNum s
}.

Theorem parS_log s s' :
  Inv s -> ValInvB s -> Tplain s -> parStabilize [] s = Ok (s', None) -> PassLogP s s'.
Proof.
  intros IV V TP H. pose proof (Inv_wfb s IV) as Hwf.
  destruct (wfb_transients _ Hwf) as (Hst & Hsd & Hsr & Hh).
  destruct (parStabilize_nil_inv s s' Hst Hsd Hsr H) as (sL & always & sR & hev & EL & ER & Es & Hhev).
  fold (passStart s) in EL. set (s1 := passStart s) in *.
  pose proof (LInvP_start s IV V) as L1. fold s1 in L1.
  pose proof (Inv_PInv_start s IV) as P1. fold (passStart s) in P1. fold s1 in P1.
  pose proof (Tplain_binds s s1 eq_refl TP) as TP1.
  assert (HA1 : AW s1 []).
  { intros y _ Hd _. exfalso. pose proof (stamps_node_true _ _ (vb_stamps _ V y)). unfold isDone in Hd. apply Z.eqb_eq in Hd.
    change (recomputedAt (nd s y) = stabNum s) in Hd. lia. }
  destruct (loopP bind_stepP _ s1 [] sL always TP1 P1 L1 HA1 EL) as (TPL & PL & LPL & HAL & Hemp & HkL & CL).
  assert (G1 : LGPx s1 (log s1) s1 []) by (exists []; split; [reflexivity|apply LGP_start]).
  destruct (loopLP _ s1 (log s1) s1 [] sL always TP1 P1 L1 HA1 G1 EL) as (evsL & ElL & GL).
  destruct (PInv_heap sL PL) as [IL HqL].
  pose proof (LInvC_of_LInvP sL IL Hemp LPL) as LL.
  specialize (Es (proj1 (lc_quiet _ _ LL)) (proj2 (lc_quiet _ _ LL))).
  pose proof (requeue_only_heap _ _ _ ER) as OR.
  assert (Hn : nodes s' = nodes sL) by (rewrite Es; cbn; apply (oh_nodes _ _ OR)).
  pose proof (nodes_eq_nd _ _ Hn) as Hnd.
  assert (HkLs : stabNum sL = stabNum s) by exact HkL.
  assert (Hlog : log s' = (hev ++ [EvPassEnd XOk]) ++ evsL ++ [EvPassStart] ++ log s).
  { rewrite Es. cbn. rewrite (oh_log _ _ OR), ElL. rewrite <- !app_assoc. reflexivity. }
  assert (HQ : Forall quiet (hev ++ [EvPassEnd XOk])).
  { apply Forall_app. split; [|constructor; [reflexivity|constructor]].
    eapply List.Forall_impl; [|exact Hhev]. exact handler_quiet. }
  assert (HQ2 : Forall quiet [EvPassStart]) by (constructor; [reflexivity|constructor]).
  assert (Hevs : forall evs, log s' = evs ++ log s -> evs = (hev ++ [EvPassEnd XOk]) ++ evsL ++ [EvPassStart]).
  { intros evs E. apply (app_inv_tail (log s)). rewrite <- E, Hlog, <- !app_assoc. reflexivity. }
  assert (Hvo : forall p, valueOf s' p = valueOf sL p) by (intros p; apply valueOf_nodes, Hn).
  pose proof (PInv_Struct sL PL) as HSL.
  assert (HnoW : forall n, inP sL [] n = false).
  { intros n. rewrite inP_nil. destruct (inHeap sL n) eqn:E; [|reflexivity]. apply (inHeap_iff0 sL n IL) in E.
    rewrite Hemp in E. inversion E. }
  (* the history-closed facts, for all events of the pass *)
  assert (Hall : allcnt ((hev ++ [EvPassEnd XOk]) ++ evsL ++ [EvPassStart])).
  { assert (Hn2 : forall n, EvNec n ∉ [EvPassStart]).
    { intros n Hin. apply elem_of_list_singleton in Hin. discriminate. }
    apply (allcnt_quiet _ _ HQ).
    - intros n. rewrite (cnt_snoc_quiet n [EvPassStart] HQ2 (Hn2 n)). apply (gp_le _ _ _ _ GL).
    - apply (allcnt_snoc_quiet [EvPassStart] HQ2 Hn2), (gp_all _ _ _ _ GL). }
  destruct GL as [A B C D E Fh Gn Hle Hal J K].
  constructor.
  - intros evs pre e post n E1 E2 Hn' Hnec Hfa Hg. rewrite (Hevs evs E1) in E2.
    destruct (split_quiet_l _ _ pre e post E2 HQ ltac:(congruence)) as (pre2 & -> & E3).
    destruct (split_quiet_r evsL [EvPassStart] pre2 e post E3 HQ2 ltac:(congruence)) as (post2 & -> & E4).
    rewrite Hnd in Hg.
    assert (Hok : ev_okP sL e = true).
    { apply (B pre2 e post2 n E4 Hn'); [| |exact Hg|apply HnoW].
      - intros Hin. apply Hnec, elem_of_app. auto.
      - apply Forall_app in Hfa. apply Hfa. }
    pose proof (ev_okP_done sL e n Hn' Hok) as Hd. apply isDone_iff in Hd. rewrite HkLs in Hd.
    rewrite Hnd. split; [exact Hd|].
    destruct e; try exact Logic.I; injection Hn' as ->; unfold ev_okP in Hok; rewrite !andb_true_iff in Hok.
    + destruct Hok as [[_ Ha] Hr]. apply bool_decide_eq_true in Ha. apply Z.eqb_eq in Hr.
      split; [|exact Hr]. rewrite Ha. apply map_ext. intros p. symmetry. apply Hvo.
    + destruct Hok as [_ Hv]. destruct verdict; apply Z.eqb_eq in Hv; exact Hv.
  - intros evs pre e1 mid1 e2 mid2 e3 post n E1 E2. rewrite (Hevs evs E1) in E2. apply (allcnt_triple _ _ _ _ _ _ _ _ n Hall E2).
  - intros evs pre e mid e' post n E1 E2. rewrite (Hevs evs E1) in E2. apply (allcnt_pair _ _ _ _ _ _ n Hall E2).
  - intros evs n E1 Hg Hnec Hr. rewrite (Hevs evs E1) in Hnec. rewrite Hnd in *.
    assert (Hd : isDone sL n = false).
    { unfold isDone. apply Z.eqb_neq. rewrite HkLs. exact Hr. }
    apply (J n Hg); [|exact Hd]. intros Hin. apply Hnec. apply elem_of_app. right. apply elem_of_app. left. exact Hin.
  - intros evs n E1 Hg Hnec Hv. rewrite (Hevs evs E1) in Hnec. rewrite Hnd in *.
    destruct (Z.eq_dec (changedAt (nd sL n)) (stabNum s)) as [Ec|Ec]; [exact Ec|exfalso].
    apply Hv. apply (K n Hg); [|rewrite HkLs; exact Ec].
    intros Hin. apply Hnec. apply elem_of_app. right. apply elem_of_app. left. exact Hin.
  - intros n Hg Hs. rewrite Hnd in *. rewrite (isStale_nodes sL s' n Hn) in Hs.
    exact (proj1 (endC_stale_always sL PL LL Hemp n Hg Hs)).
  - intros n p Hg Hp Hc. rewrite !Hnd in *.
    destruct (isDone sL n) eqn:Ed; [apply isDone_iff in Ed; congruence|exfalso].
    pose proof (PassBindSwapProofs.fresh sL PL LL Hemp n p Hg Hp) as Hf.
    pose proof (stamps_node_false _ _ (lc_stamps _ _ LL n)) as Hsn.
    unfold isDone in Ed. apply Z.eqb_neq in Ed. lia.
Qed.

(** * The statements, one by one *)
(* C02 for the parallel pass *)
Theorem parS_args_final s s' :
  Inv s -> ValInvB s -> Tplain s -> parStabilize [] s = Ok (s', None) ->
  forall evs pre n args r post, log s' = evs ++ log s -> evs = pre ++ EvInvoked n args r :: post ->
    EvNec n ∉ pre -> Forall (fun e2 => ev_node e2 <> Some n) pre -> inGraph (nd s' n) = true ->
    args = map (valueOf s') (decl (nd s' n)) /\ r = value (nd s' n) /\ recomputedAt (nd s' n) = stabNum s.
Proof.
  intros IV V TP H evs pre n args r post E1 E2 Hnec Hfa Hg.
  destruct (plp_last _ _ (parS_log s s' IV V TP H) evs pre _ post n E1 E2 eq_refl Hnec Hfa Hg) as (A & B & C). auto.
Qed.

Theorem parS_cut_kept s s' :
  Inv s -> ValInvB s -> Tplain s -> parStabilize [] s = Ok (s', None) ->
  forall evs pre n old new post, log s' = evs ++ log s -> evs = pre ++ EvCutoff n old new true :: post ->
    EvNec n ∉ pre -> Forall (fun e2 => ev_node e2 <> Some n) pre -> inGraph (nd s' n) = true ->
    value (nd s' n) = old /\ recomputedAt (nd s' n) = stabNum s.
Proof.
  intros IV V TP H evs pre n old new post E1 E2 Hnec Hfa Hg.
  destruct (plp_last _ _ (parS_log s s' IV V TP H) evs pre _ post n E1 E2 eq_refl Hnec Hfa Hg) as (A & B). auto.
Qed.

(* C03 for the parallel pass: at most two runs per period of necessity; two only in a period that
   began in this pass; a node that was not registered anew in the pass runs at most once *)
Theorem parS_twice s s' :
  Inv s -> ValInvB s -> Tplain s -> parStabilize [] s = Ok (s', None) ->
  forall evs, log s' = evs ++ log s ->
  (forall pre e1 mid1 e2 mid2 e3 post n, evs = pre ++ e1 :: mid1 ++ e2 :: mid2 ++ e3 :: post ->
     ev_node e1 = Some n -> ev_node e2 = Some n -> ev_node e3 = Some n -> EvNec n ∈ mid1 \/ EvNec n ∈ mid2) /\
  (forall pre e mid e' post n, evs = pre ++ e :: mid ++ e' :: post ->
     ev_node e = Some n -> ev_node e' = Some n -> EvNec n ∈ mid \/ EvNec n ∈ post) /\
  (forall pre e mid e' post n, evs = pre ++ e :: mid ++ e' :: post ->
     ev_node e = Some n -> ev_node e' = Some n -> EvNec n ∈ evs).
Proof.
  intros IV V TP H evs E. pose proof (parS_log s s' IV V TP H) as PL.
  split; [|split].
  - intros pre e1 mid1 e2 mid2 e3 post n. apply (plp_triple _ _ PL evs _ _ _ _ _ _ _ n E).
  - intros pre e mid e' post n. apply (plp_pair _ _ PL evs _ _ _ _ _ n E).
  - intros pre e mid e' post n E2 H1 H2. destruct (plp_pair _ _ PL evs pre e mid e' post n E E2 H1 H2) as [Hin|Hin];
      rewrite E2; apply elem_of_app; right; right; apply elem_of_app; [left|right; right]; exact Hin.
Qed.

Theorem parS_runs s s' :
  Inv s -> ValInvB s -> Tplain s -> parStabilize [] s = Ok (s', None) ->
  let k := stabNum s in
  forall evs, log s' = evs ++ log s ->
  (forall n p, inGraph (nd s' n) = true -> p ∈ parents (nd s' n) -> changedAt (nd s' p) = k ->
     recomputedAt (nd s' n) = k) /\
  (forall n, inGraph (nd s' n) = true -> isStale s' n = true -> nkind (nd s' n) = KAlways) /\
  (forall n, inGraph (nd s' n) = true -> EvNec n ∉ evs -> recomputedAt (nd s' n) <> k ->
     value (nd s' n) = value (nd s n) /\ recomputedAt (nd s' n) = recomputedAt (nd s n) /\
     changedAt (nd s' n) = changedAt (nd s n)) /\
  (forall n, inGraph (nd s' n) = true -> EvNec n ∉ evs -> value (nd s' n) <> value (nd s n) ->
     changedAt (nd s' n) = k).
Proof.
  intros IV V TP H k evs E. pose proof (parS_log s s' IV V TP H) as PL.
  split; [exact (plp_owed _ _ PL)|split; [exact (plp_stale _ _ PL)|split]].
  - intros n Hg Hnec Hr. exact (plp_keep _ _ PL evs n E Hg Hnec Hr).
  - intros n Hg Hnec Hv. exact (plp_changed _ _ PL evs n E Hg Hnec Hv).
Qed.

(** * The serial form of C03 fails for the parallel pass *)
Definition once_statement_par : Prop := forall s s',
  Inv s -> ValInvB s -> Tplain s -> parStabilize [] s = Ok (s', None) ->
  forall evs pre e mid e' post n, log s' = evs ++ log s -> evs = pre ++ e :: mid ++ e' :: post ->
    ev_node e = Some n -> ev_node e' = Some n -> EvNec n ∈ mid.

Lemma exD2_pre_run : histP_run (init 64) (take 12 exD2_ops) = Some exD2_pre.
Proof.
  assert (H : match histP_run (init 64) (take 12 exD2_ops) with Some _ => true | None => false end = true)
    by (vm_compute; reflexivity).
  unfold exD2_pre. destruct (histP_run (init 64) (take 12 exD2_ops)) as [s|]; [reflexivity|discriminate H].
Qed.

Lemma exD2_pre_hyps : Inv exD2_pre /\ ValInvB exD2_pre /\ Tplain exD2_pre.
Proof.
  assert (TP0 : Tplain (init 64)) by (intros b r Hr; inversion Hr).
  destruct (histP_inv (take 12 exD2_ops) (init 64) exD2_pre (Inv_init 64 ltac:(lia)) (ValInvB_init 64) TP0 eq_refl exD2_pre_run)
    as (A & B & C & _). auto.
Qed.

Definition exD2_post : state := match parStabilize [] exD2_pre with Ok (s', None) => s' | _ => init 0 end.

(* the events of the pass, most recent first: node 3 is invoked twice after its [EvNec] *)
Definition exD2_evs : list event :=
  [EvUpd 13; EvUpd 12; EvObsUpd 9 8; EvObsUpd 8 5; EvUpd 7; EvUpd 6; EvUpd 5; EvUpd 4; EvUpd 3;
   EvUpd 1; EvUpd 0; EvPassEnd XOk; EvInvoked 13 [10] 8;
   EvInvoked 3 [20] 10; EvInvoked 3 [20] 10;
   EvInval 11; EvUnnec 11; EvNec 2; EvNec 3; EvNec 13; EvBindFn 6 3 (Some 13%nat); EvInval 10;
   EvUnnec 2; EvUnnec 3; EvUnnec 10; EvNec 12; EvBindFn 4 3 (Some 12%nat); EvPassStart].

Lemma exD2_pass : parStabilize [] exD2_pre = Ok (exD2_post, None) /\ log exD2_post = exD2_evs ++ log exD2_pre.
Proof.
  assert (H : match parStabilize [] exD2_pre with
              | Ok (s', None) => bool_decide (log s' = exD2_evs ++ log exD2_pre)
              | _ => false end = true) by (vm_compute; reflexivity).
  unfold exD2_post. destruct (parStabilize [] exD2_pre) as [[s' [e|]]| |]; try discriminate H.
  apply bool_decide_eq_true in H. auto.
Qed.

Theorem once_statement_par_refuted : ~ once_statement_par.
Proof.
  intros S. destruct exD2_pre_hyps as (IV & V & TP). destruct exD2_pass as (H & El).
  pose proof (S exD2_pre exD2_post IV V TP H exD2_evs (take 13 exD2_evs) (EvInvoked 3 [20] 10) []
                (EvInvoked 3 [20] 10) (drop 15 exD2_evs) 3%nat El eq_refl eq_refl eq_refl) as Hin. inversion Hin.
Qed.

Lemma exD2_ex :
  (Inv exD2_pre /\ ValInvB exD2_pre /\ Tplain exD2_pre) /\
  parStabilize [] exD2_pre = Ok (exD2_post, None) /\ log exD2_post = exD2_evs ++ log exD2_pre /\
  exD2_evs = take 13 exD2_evs ++ EvInvoked 3 [20] 10 :: [] ++ EvInvoked 3 [20] 10 :: drop 15 exD2_evs /\
  EvNec 3%nat ∈ drop 15 exD2_evs.
Proof.
  split; [exact exD2_pre_hyps|]. destruct exD2_pass as [A B]. split; [exact A|]. split; [exact B|].
  split; [reflexivity|]. apply elem_of_list_In. cbn. tauto.
Qed.
