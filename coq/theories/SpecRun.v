(** Evaluating the hypotheses of the C01 theorems along replayed histories: after every
    successful pass without mid-pass writes, all four hypotheses of
    [C01_consistent_implies_spec] and its conclusion must hold on the model state. *)
From incr Require Import Base Heap EngineDefs Engine EngineWf Spec SpecProofs.

(* reports (operation index, code): 1 = not locally consistent, 2 = an observer disagrees with
   eval, 3 = wfb fails, 4 = closed fails, 5 = templates contain a parity cutoff (the history is
   then outside the theorem's domain and is skipped, not reported).
   Also skipped: states in which an invalidated node is still registered -- a node of a discarded
   bind generation kept in the graph by an observer of its own.  Such a node has no from-scratch
   meaning any more ([consistent] asks every registered node to be valid), and the property
   speaks of the observers of live nodes. *)
Definition all_valid (s : state) : bool := forallb (fun n => valid (nd s n)) (registered s).
Fixpoint c01_hyp_trace (s : state) (os : list op) (i : nat) : option (nat * nat) :=
  match os with
  | [] => None
  | o :: os =>
    if negb (op_ok s o) then Some (i, 99%nat) else
    match step (s <| log := [] |>) o with
    | Ok (s', None) =>
      if is_pass o && negb (has_writes o) && templates_ok s' && all_valid s' then
        if negb (wfb s') then Some (i, 3%nat)
        else if negb (closed s') then Some (i, 4%nat)
        else if negb (consistent s') then Some (i, 1%nat)
        else if negb (observers_agree s') then Some (i, 2%nat)
        else c01_hyp_trace s' os (S i)
      else c01_hyp_trace s' os (S i)
    | Ok (s', Some _) => c01_hyp_trace s' os (S i)
    | Crash _ => Some (i, 98%nat)
    | OutOfFuel => Some (i, 97%nat)
    end
  end.

(** The quiescent invariant along replayed histories, with the height clause (Q5) read for live
    nodes only: an invalidated node of a discarded generation that an observer of its own keeps
    registered is not lifted when its former bind is (it is no longer among the bind's
    right-hand-side nodes), so it may sit at or below the lhs-change node's height.  Nothing
    depends on the height of a node that can never run again; [EngineWf.wfb] and the theorems
    about it ([EngineInv.Inv_wfb]) speak of states without such nodes. *)
Definition heights_ordered_live (s : state) : bool :=
  forallb (fun n => let x := nd s n in
     negb (inGraph x) || negb (valid x) ||
     ((0 <=? height x) && (height x <? maxHeight s)
      && forallb (fun p => height (nd s p) <? height x) (parents x)
      && (scopeHeight s (scope x) <? height x)))
    (allNodes s).

Definition codes_live (s : state) : list nat :=
  filter (fun c => negb ((c =? 5)%nat && heights_ordered_live s)) (codes s).

Fixpoint wf_trace_live (s : state) (os : list op) (i : nat) : option (nat * list nat) :=
  match os with
  | [] => None
  | o :: os =>
    if negb (op_ok s o) then Some (i, [99%nat]) else
    match step (s <| log := [] |>) o with
    | Ok (s', _) => match codes_live s' with
                    | [] => wf_trace_live s' os (S i)
                    | cs => Some (i, cs)
                    end
    | Crash _ => Some (i, [98%nat])
    | OutOfFuel => Some (i, [97%nat])
    end
  end.
