(** Evaluating the hypotheses of the C01 theorems along replayed histories: after every
    successful pass without mid-pass writes, all four hypotheses of
    [C01_consistent_implies_spec] and its conclusion must hold on the model state. *)
From incr Require Import Base Heap EngineDefs Engine EngineWf Spec SpecProofs.

(* reports (operation index, code): 1 = not locally consistent, 2 = an observer disagrees with
   eval, 3 = wfb fails, 4 = closed fails, 5 = templates contain a parity cutoff (the history is
   then outside the theorem's domain and is skipped, not reported).
   Also skipped: states in which an invalidated node is still registered -- a node of a discarded
   bind generation kept in the graph by an observer of its own.  Such a node has no from-scratch
   meaning any more ([consistent] asks every registered node to be valid), and the property
   speaks of the observers of live nodes. *)
Definition all_valid (s : state) : bool := forallb (fun n => valid (nd s n)) (registered s).
Fixpoint c01_hyp_trace (s : state) (os : list op) (i : nat) : option (nat * nat) :=
  match os with
  | [] => None
  | o :: os =>
    if negb (op_ok s o) then Some (i, 99%nat) else
    match step (s <| log := [] |>) o with
    | Ok (s', None) =>
      if is_pass o && negb (has_writes o) && templates_ok s' && all_valid s' then
        if negb (wfb s') then Some (i, 3%nat)
        else if negb (closed s') then Some (i, 4%nat)
        else if negb (consistent s') then Some (i, 1%nat)
        else if negb (observers_agree s') then Some (i, 2%nat)
        else c01_hyp_trace s' os (S i)
      else c01_hyp_trace s' os (S i)
    | Ok (s', Some _) => c01_hyp_trace s' os (S i)
    | Crash _ => Some (i, 98%nat)
    | OutOfFuel => Some (i, 97%nat)
    end
  end.
