(** C07 on graphs WITH binds (binds may swap, templates may nest): a serial pass in which one node
    function -- the function of a Map / Map2 / MapN node, or the function of a bind -- returns an
    error or panics.  The pass returns that error; the structural invariant [EngineInv.Inv], the
    quiescent value invariant [PassBind.ValInvB] and the template restriction [Tplain] hold
    afterwards (the failed node and whatever the pass had not reached are still queued), so a
    fault-free retry converges (PassBindSwapStep.passS_consistent). *)
From incr Require Import Base Heap HeapSpec HeapProofs EngineDefs Engine EngineRun EngineWf Spec EngineLemmas EngineLocal
     EngineInv EngineInvProofs PassInv PassProofs PassPlanProofs PassBind PassBindProofs PassBindSwap PassBindSwapProofs
     PassBindSwapStep PassBindOps.
From incr Require Import SpecProofs.

Local Arguments valueOf : simpl never.

(** * 1. Which recomputes a plan touches *)
Definition fnKind (k : kind) : bool := mapKind k || isLhs k.

Lemma bindLhs_plan_eq fuel p q s b :
  actions_of p b WFn = actions_of q b WFn -> bindLhsStabilize fuel p s b = bindLhsStabilize fuel q s b.
Proof. intros H. unfold bindLhsStabilize. cbv zeta. rewrite (invoke_eq p q _ b WFn H). reflexivity. Qed.

Lemma rns_plan_eq fuel p q s m :
  actions_of p m WCut = actions_of q m WCut ->
  (fnKind (nkind (nd s m)) = true -> actions_of p m WFn = actions_of q m WFn) ->
  (forall b, nkind (nd s m) = KBindLhs b -> b = m) ->
  recomputeNodeSerial fuel p s m = recomputeNodeSerial fuel q s m.
Proof.
  intros Hc Hf Hb. rewrite !recomputeNodeSerial_unfold. cbv zeta.
  set (s0 := upd s m (set recomputedAt (fun _ => stabNum s))).
  assert (Hmc : maybeCutoff p s0 m (nd s m) = maybeCutoff q s0 m (nd s m)).
  { unfold maybeCutoff. destruct (nkind (nd s m)); try reflexivity.
    rewrite (invoke_eq p q s0 m WCut Hc). reflexivity. }
  rewrite Hmc. destruct (maybeCutoff q s0 m (nd s m)) as [[[s1 e1] cut]| |] eqn:E1; simpl; try reflexivity.
  destruct e1; [reflexivity|]. destruct cut; [reflexivity|].
  assert (Hk1 : nkind (nd s1 m) = nkind (nd s m)).
  { apply maybeCutoff_spec in E1 as (V1 & _). destruct (vps_fields _ _ (V1 m)) as (-> & _).
    apply (nd_upd_proj nkind). reflexivity. }
  assert (Hsn : stabilizeNode fuel p s1 m = stabilizeNode fuel q s1 m).
  { unfold stabilizeNode. rewrite Hk1. unfold fnKind in Hf.
    destruct (nkind (nd s m)) eqn:K; try reflexivity;
      try (rewrite (invoke_eq p q s1 m WFn (Hf eq_refl)); reflexivity).
    rewrite (Hb b eq_refl). apply bindLhs_plan_eq. apply Hf. reflexivity. }
  rewrite Hsn. reflexivity.
Qed.

Definition faultPlan (x : nid) (k : faultkind) : plan := [(x, WFn, AFail k)].

Lemma faultPlan_actions x k m w :
  actions_of (faultPlan x k) m w = if (x =? m)%nat && which_eqb w WFn then [AFail k] else [].
Proof. unfold faultPlan, actions_of. simpl. destruct ((x =? m)%nat && which_eqb w WFn); reflexivity. Qed.

(** every recompute but that of [x] -- when [x] has a function -- is the plan-free one *)
Lemma rns_faultPlan_other fuel x k s m :
  (forall b, nkind (nd s m) = KBindLhs b -> b = m) ->
  (m <> x \/ fnKind (nkind (nd s m)) = false) ->
  recomputeNodeSerial fuel (faultPlan x k) s m = recomputeNodeSerial fuel [] s m.
Proof.
  intros Hb Hx. apply rns_plan_eq; [| |exact Hb].
  - rewrite faultPlan_actions. simpl. rewrite andb_false_r. reflexivity.
  - intros Hf. rewrite faultPlan_actions. destruct Hx as [Hx|Hx]; [|congruence].
    destruct (Nat.eqb_spec x m); [congruence|reflexivity].
Qed.

(** * 2. The failing recompute of a lhs-change node: the bind function returns an error *)
Lemma bindrec_eta_rhsNodes (r : bindrec) l :
  set b_rhsNodes (fun _ => b_rhsNodes r) (set b_rhsNodes (fun _ => l) r) = r.
Proof. destruct r; reflexivity. Qed.

Lemma nodes_ext s s' :
  (forall y, nd s' y = nd s y) -> (forall y, has s' y <-> has s y) -> nodes s' = nodes s.
Proof.
  intros Hnd Hhas. apply map_eq. intros i.
  destruct (nodes s !! i) as [y|] eqn:E.
  - assert (Hi : has s' i) by (apply Hhas; exists y; exact E). destruct Hi as [y' E'].
    rewrite E'. f_equal. rewrite <- (nd_lookup _ _ _ E'), <- (nd_lookup _ _ _ E). apply Hnd.
  - destruct (nodes s' !! i) as [y'|] eqn:E'; [|reflexivity].
    assert (Hi : has s i) by (apply Hhas; exists y'; exact E'). destruct Hi as [y E2]. congruence.
Qed.

(* the state a failed recompute of [x] leaves: the one before it, [x] queued, events logged *)
Record failedTo (s : state) (x : nid) (s' : state) : Prop := {
  ft_nodes : nodes s' = nodes s;
  ft_binds : binds s' = binds s;
  ft_fields : next s' = next s /\ stabNum s' = stabNum s /\ setDuring s' = setDuring s /\ setRemoved s' = setRemoved s;
  ft_log : LQ s s';
  ft_hinv : HeapSpec.inv (heap s');
  ft_heap : forall y, y ∈ Heap.ids (heap s') <-> y = x \/ y ∈ Heap.ids (heap s);
  ft_handlers : handlers s' = handlers s
}.

Lemma failedTo_of s x sB s3 l :
  HeapSpec.inv (heap s) -> 0 <= height (nd s x) ->
  (forall y, nd sB y = nd s y) -> (forall y, has sB y <-> has s y) -> binds sB = binds s -> heap sB = heap s ->
  (next sB = next s /\ stabNum sB = stabNum s /\ setDuring sB = setDuring s /\ setRemoved sB = setRemoved s) ->
  log sB = l ++ log s -> Forall quiet l -> handlers sB = handlers s ->
  heapAddIfNotPresent sB x = Ok s3 ->
  forall s', nodes s' = nodes s3 -> binds s' = binds s3 -> heap s' = heap s3 -> handlers s' = handlers s3 ->
    (next s' = next s3 /\ stabNum s' = stabNum s3 /\ setDuring s' = setDuring s3 /\ setRemoved s' = setRemoved s3) ->
    LQ s3 s' -> failedTo s x s'.
Proof.
  intros I Hh Hnd Hhas Hb Hheap (F1 & F2 & F3 & F4) Hl Hq HhB E3 s' En Eb Eh Ehd (G1 & G2 & G3 & G4) Hl'.
  assert (IB : HeapSpec.inv (heap sB)) by (rewrite Hheap; exact I).
  destruct (heapAddIfNotPresent_spec0 sB x s3 IB ltac:(rewrite Hnd; exact Hh) E3) as (O3 & I3 & M3 & _).
  constructor.
  - rewrite En, (oh_nodes _ _ O3). apply nodes_ext; assumption.
  - rewrite Eb, (oh_binds _ _ O3). exact Hb.
  - rewrite G1, G2, G3, G4, (oh_next _ _ O3), (oh_stabNum _ _ O3), (oh_setDuring _ _ O3), (oh_setRemoved _ _ O3). auto.
  - eapply LQ_trans; [|exact Hl']. eapply LQ_trans; [|apply LQ_oh, O3]. exists l. auto.
  - rewrite Eh. exact I3.
  - intros y. rewrite Eh, M3, Hheap. reflexivity.
  - rewrite Ehd, (oh_handlers _ _ O3). exact HhB.
Qed.

Lemma rns_failPlan_fail_map x s s' e imm fuel :
  has s x -> mapKind (nkind (nd s x)) = true -> HeapSpec.inv (heap s) -> 0 <= height (nd s x) ->
  recomputeNodeSerial fuel (failPlan x) s x = Ok (s', e, imm) ->
  e = Some (EUser x) /\ imm = None /\ failedTo s x s'.
Proof.
  intros Hx Hmk I Hh H.
  destruct (rns_failPlan_fail fuel x s s' e imm Hx Hmk H) as (-> & -> & s3 & E3 & ->).
  split; [reflexivity|]. split; [reflexivity|].
  set (sA := upd s x (set recomputedAt (fun _ => stabNum s))) in *.
  set (sB := upd (emit (EvFault x WFn FErr) sA) x (set recomputedAt (fun _ => recomputedAt (nd s x)))) in *.
  apply (failedTo_of s x sB s3 [EvFault x WFn FErr] I Hh); try reflexivity; try exact E3.
  - intros y. unfold sB. destruct (decide (y = x)) as [->|Hy].
    + rewrite nd_upd_eq by (apply has_emit, has_upd, Hx). rewrite nd_emit. unfold sA. rewrite nd_upd_eq by exact Hx.
      apply node_eta_rec.
    + rewrite nd_upd_ne by exact Hy. rewrite nd_emit. unfold sA. apply nd_upd_ne, Hy.
  - intros y. unfold sB. rewrite has_upd, has_emit. apply has_upd.
  - repeat split.
  - repeat constructor.
  - repeat split.
  - apply LQ_emit. reflexivity.
Qed.

Lemma rns_failPlan_fail_lhs b s s' e imm fuel :
  has s b -> nkind (nd s b) = KBindLhs b -> is_Some (binds s !! b) -> b_memo (bd s b) = false ->
  HeapSpec.inv (heap s) -> 0 <= height (nd s b) ->
  recomputeNodeSerial fuel (failPlan b) s b = Ok (s', e, imm) ->
  e = Some (EUser b) /\ imm = None /\ failedTo s b s'.
Proof.
  intros Hx Hk [r Hr] Hmemo I Hh H. rewrite recomputeNodeSerial_unfold in H. cbv zeta in H.
  set (s0 := upd s b (set recomputedAt (fun _ => stabNum s))) in *.
  assert (Hk0 : nkind (nd s0 b) = KBindLhs b) by (unfold s0; rewrite (nd_upd_proj nkind) by reflexivity; exact Hk).
  assert (Hmc : maybeCutoff (failPlan b) s0 b (nd s b) = Ok (s0, None, false)).
  { unfold maybeCutoff. rewrite Hk. reflexivity. }
  rewrite Hmc in H. simpl in H.
  assert (Hbd0 : bd s0 b = r) by (unfold bd; change (binds s0) with (binds s); rewrite Hr; reflexivity).
  assert (Hbd : bd s b = r) by (unfold bd; rewrite Hr; reflexivity).
  set (s1 := updb s0 b (set b_rhsNodes (fun _ : list nid => []))) in *.
  set (sF := updb (emit (EvFault b WFn FErr) s1) b (set b_rhsNodes (fun _ => b_rhsNodes r))).
  assert (Hsn : stabilizeNode fuel (failPlan b) s0 b = Ok (sF, Some (EUser b))).
  { unfold stabilizeNode. rewrite Hk0. unfold bindLhsStabilize. cbv zeta. rewrite Hbd0.
    rewrite Hbd in Hmemo. rewrite Hmemo. fold s1.
    assert (Hinv : invoke (failPlan b) s1 b WFn = Ok (emit (EvFault b WFn FErr) s1, Some (EUser b))).
    { unfold invoke. rewrite failPlan_actions, Nat.eqb_refl. reflexivity. }
    rewrite Hinv. reflexivity. }
  rewrite Hsn in H. simpl in H. unfold recomputeFailed in H.
  set (sB := upd sF b (set recomputedAt (fun _ => recomputedAt (nd s b)))) in *.
  destruct (heapAddIfNotPresent sB b) as [s3| |] eqn:E3; simpl in H; try discriminate.
  injection H as <- <- <-. split; [reflexivity|]. split; [reflexivity|].
  assert (HndB : forall y, nd sB y = nd s y).
  { intros y. unfold sB. destruct (decide (y = b)) as [->|Hy].
    - rewrite nd_upd_eq by (unfold sF; rewrite has_updb; apply has_emit; unfold s1; rewrite has_updb; apply has_upd, Hx).
      unfold sF. rewrite nd_updb, nd_emit. unfold s1. rewrite nd_updb. unfold s0. rewrite nd_upd_eq by exact Hx.
      apply node_eta_rec.
    - rewrite nd_upd_ne by exact Hy. unfold sF. rewrite nd_updb, nd_emit. unfold s1. rewrite nd_updb. unfold s0.
      apply nd_upd_ne, Hy. }
  assert (HbB : binds sB = binds s).
  { change (binds sB) with (alter (set b_rhsNodes (fun _ => b_rhsNodes r)) b
                              (alter (set b_rhsNodes (fun _ : list nid => [])) b (binds s))).
    apply map_eq. intros i. destruct (decide (i = b)) as [->|Hi].
    - rewrite !lookup_alter, Hr. simpl. rewrite bindrec_eta_rhsNodes. reflexivity.
    - rewrite !lookup_alter_ne by congruence. reflexivity. }
  apply (failedTo_of s b sB s3 [EvFault b WFn FErr] I Hh HndB); try reflexivity; try exact E3; try exact HbB.
  - intros y. unfold sB. rewrite has_upd. unfold sF. rewrite has_updb, has_emit. unfold s1. rewrite has_updb. apply has_upd.
  - repeat split.
  - repeat constructor.
  - unfold errorHandlers. destruct (nkind (nd s3 b)); reflexivity.
  - unfold errorHandlers. destruct (nkind (nd s3 b)); reflexivity.
  - unfold errorHandlers. destruct (nkind (nd s3 b)); reflexivity.
  - unfold errorHandlers. destruct (nkind (nd s3 b)); reflexivity.
  - unfold errorHandlers. destruct (nkind (nd s3 b)); repeat split.
  - unfold errorHandlers. destruct (nkind (nd s3 b));
      try (apply LQ_emit; reflexivity).
    eapply LQ_trans; apply LQ_emit; reflexivity.
Qed.

(** * 3. The loop invariant across a failed recompute *)
Lemma reach_nodes s s' : nodes s' = nodes s -> forall a b, reach s' a b <-> reach s a b.
Proof.
  intros Hn a b. pose proof (nodes_eq_nd _ _ Hn) as Hnd. unfold reach.
  split; induction 1; try apply rtc_refl; eapply rtc_l; eauto; unfold edge in *; [rewrite <- Hnd|rewrite Hnd]; assumption.
Qed.

Lemma LInvC_transport s cur s' cur' :
  LInvC s cur -> nodes s' = nodes s -> binds s' = binds s -> next s' = next s -> stabNum s' = stabNum s ->
  setDuring s' = setDuring s -> setRemoved s' = setRemoved s ->
  (forall x, inW s' cur' x = inW s cur x) ->
  (forall m x, cur' = Some m -> x ∈ Heap.ids (heap s') -> reach s x m -> False) ->
  LInvC s' cur'.
Proof.
  intros L Hn Hb Hx Hk Hsd Hsr HW HM. pose proof (nodes_eq_nd _ _ Hn) as Hnd.
  pose proof (reach_nodes s s' Hn) as Hr.
  assert (Hdone : forall n, isDone s' n = isDone s n) by (intros n; unfold isDone; rewrite Hnd, Hk; reflexivity).
  constructor.
  - intros n y E. rewrite Hn in E. exact (lc_shape _ _ L n y E).
  - intros n. unfold stamps_node. rewrite Hnd, Hk. apply (lc_stamps _ _ L n).
  - intros x n Hx' Hxn. rewrite HW in Hx'. rewrite Hdone. apply (lc_B _ _ L x n Hx'). apply Hr, Hxn.
  - intros m x Hc Hx' Hxm. apply (HM m x Hc Hx'). apply Hr, Hxm.
  - intros n. rewrite Hnd, Hdone, (isStale_nodes s s' n Hn), HW. apply (lc_owed _ _ L n).
  - intros n Hg Hw Hgd. rewrite Hnd in Hg. rewrite HW in Hw. rewrite (guarded_ext s s' cur cur' n Hn Hk HW) in Hgd.
    rewrite (clean_ok_nodes s s' n Hn Hb Hx). apply (lc_clean _ _ L n Hg Hw Hgd).
  - intros n. rewrite Hnd. apply (lc_unreg _ _ L n).
  - rewrite Hsd, Hsr. exact (lc_quiet _ _ L).
Qed.

Lemma failedTo_LInvC s x s' :
  PInv s -> LInvC s (Some x) -> failedTo s x s' -> LInvC s' None /\ inHeap s' x = true.
Proof.
  intros P L F. destruct (PInv_heap s P) as [I _]. destruct (ft_fields _ _ _ F) as (F1 & F2 & F3 & F4).
  pose proof (ft_hinv _ _ _ F) as I'.
  split.
  - apply (LInvC_transport s (Some x) s' None L (ft_nodes _ _ _ F) (ft_binds _ _ _ F) F1 F2 F3 F4).
    + intros y. apply eq_true_iff_eq. rewrite (inW_iff s' None y I'), (inW_iff s (Some x) y I), (ft_heap _ _ _ F).
      split; [intros [[->|?]|?]; auto; discriminate|intros [?|[= ->]]; auto].
    + discriminate.
  - apply (inHeap_iff0 s' x I'), (ft_heap _ _ _ F). left. reflexivity.
Qed.

(* the failing recompute, for either kind of function *)
Lemma failed_stepC fuel x s s' e imm :
  Tplain s -> PInv s -> LInvC s (Some x) -> inGraph (nd s x) = true -> fnKind (nkind (nd s x)) = true ->
  recomputeNodeSerial fuel (failPlan x) s x = Ok (s', e, imm) ->
  e = Some (EUser x) /\ imm = None /\ failedTo s x s' /\ Tplain s' /\ PInv s' /\ LInvC s' None /\ inHeap s' x = true.
Proof.
  intros TP P L Hg Hf H. pose proof (has_inGraph _ _ Hg) as Hx. destruct (PInv_heap s P) as [I _].
  pose proof (st_hnonneg _ (PInv_Struct s P) x Hg) as Hh.
  assert (R : e = Some (EUser x) /\ imm = None /\ failedTo s x s').
  { unfold fnKind in Hf. destruct (mapKind (nkind (nd s x))) eqn:Emk.
    - exact (rns_failPlan_fail_map x s s' e imm fuel Hx Emk I Hh H).
    - simpl in Hf. destruct (nkind (nd s x)) eqn:K; try discriminate Hf.
      pose proof (p_kinds _ P x Hx) as Hkk. rewrite K in Hkk. destruct Hkk as [-> [r Hr]].
      apply (rns_failPlan_fail_lhs b s s' e imm fuel Hx K); try assumption; [eauto|].
      unfold bd. rewrite Hr. apply (bw_memo _ _ _ (p_binds _ P b r Hr)). }
  destruct R as (-> & -> & F). split; [reflexivity|]. split; [reflexivity|]. split; [exact F|].
  split; [apply (Tplain_binds s s' (ft_binds _ _ _ F) TP)|].
  destruct (recomputeNodeSerial_spec PT PT_struct bind_spec_holds fuel (failPlan x) s x s' _ None Logic.I P eq_refl Hg H)
    as [Hr|[(P' & _) _]]; [destruct Hr; discriminate|].
  split; [exact P'|]. exact (failedTo_LInvC s x s' P L F).
Qed.

(** * 4. A plan-free recompute has no error but a rejected edge (cycle / height limit) *)
Definition okErr (e : option err) : Prop := match e with None => True | Some x => adj_err x end.

Lemma E_setHeight s n h s' e : setHeight s n h = Ok (s', e) -> okErr e.
Proof. intros H. apply setHeight_inv in H as [(_ & _ & ->)|(_ & -> & _)]; [right; reflexivity|exact Logic.I]. Qed.

Lemma E_efold {A} (f : state -> A -> M) l : (forall s a s' e, f s a = Ok (s', e) -> okErr e) ->
  forall s s' e, efold f l s = Ok (s', e) -> okErr e.
Proof.
  intros Hf. induction l as [|a l IH]; intros s s' e H; simpl in H.
  - apply ok_inv in H as [_ ->]. exact Logic.I.
  - apply ebind_inv in H as (s1 & e1 & E1 & [[-> H]|(_ & _ & ->)]); [eapply IH; eauto|eapply Hf; eauto].
Qed.

Lemma E_ensure s o c p s' e : ensureHeightRequirement s o c p = Ok (s', e) -> okErr e.
Proof.
  unfold ensureHeightRequirement. destruct (bool_decide _); [intros [_ ->]%fail_inv; left; reflexivity|].
  destruct (_ >=? _); [|intros [_ ->]%ok_inv; exact Logic.I].
  intros H. apply ebind_inv in H as (s1 & e1 & E1 & [[-> H]|(Hne & _ & ->)]).
  - eapply E_setHeight; eauto.
  - apply lift_inv in E1 as [_ ->]. congruence.
Qed.

Lemma E_adjustLoop fuel : forall s o s' e, adjustLoop fuel s o = Ok (s', e) -> okErr e.
Proof.
  induction fuel as [|fuel IH]; intros s o s' e H; [discriminate|]. cbn [adjustLoop] in H.
  destruct (_ <=? 0); [apply ok_inv in H as [_ ->]; exact Logic.I|].
  destruct (adjRemoveMin s) as [[r s1]| |] eqn:E1; simpl in H; try discriminate.
  destruct r as [p|]; [|discriminate].
  apply ebind_inv in H as (s2 & e2 & E2 & H).
  assert (He2 : e2 = None).
  { unfold lift in E2. destruct (if inHeap s1 p then heapFix s1 p else Ok s1) as [x| |]; simpl in E2; try discriminate.
    injection E2 as _ <-. reflexivity. }
  destruct H as [[_ H]|(Hne & _ & _)]; [|congruence].
  apply ebind_inv in H as (s3 & e3 & E3 & H).
  assert (G3 : okErr e3).
  { refine (E_efold _ _ _ _ _ _ E3). intros st c st' e' Hc. eapply E_ensure; eauto. }
  destruct H as [[-> H]|(_ & _ & ->)]; [|exact G3].
  apply ebind_inv in H as (s4 & e4 & E4 & H).
  assert (G4 : okErr e4).
  { destruct (nkind (nd s3 p)); try (apply ok_inv in E4 as [_ ->]; exact Logic.I).
    refine (E_efold _ _ _ _ _ _ E4). intros st r st' e' Hc.
    destruct (isNecessary (nd st r)); [eapply E_ensure; eauto|apply ok_inv in Hc as [_ ->]; exact Logic.I]. }
  destruct H as [[-> H]|(_ & _ & ->)]; [eapply IH; eauto|exact G4].
Qed.

Lemma E_adjustHeights fuel s oc op s' e : adjustHeights fuel s oc op = Ok (s', e) -> okErr e.
Proof.
  unfold adjustHeights. intros H. apply ebind_inv in H as (s1 & e1 & E1 & H).
  pose proof (E_ensure _ _ _ _ _ _ E1) as G1.
  destruct H as [[-> H]|(_ & _ & ->)]; [eapply E_adjustLoop; eauto|exact G1].
Qed.

Lemma E_BN fuel : forall s n s' e, becameNecessaryRecursive fuel s n = Ok (s', e) -> okErr e.
Proof.
  induction fuel as [|fuel IH]; intros s n s' e H; [discriminate|]. cbn [becameNecessaryRecursive] in H.
  apply ebind_inv in H as (s3 & e3 & E3 & H).
  pose proof (E_setHeight _ _ _ _ _ E3) as G3.
  destruct H as [[-> H]|(_ & _ & ->)]; [|exact G3].
  apply ebind_inv in H as (s4 & e4 & E4 & H).
  assert (G4 : okErr e4).
  { refine (E_efold _ _ _ _ _ _ E4). intros st p st' e' Hb.
    apply ebind_inv in Hb as (sc & ec & Ec & Hb).
    assert (Gc : okErr ec).
    { destruct (isNecessary (nd st p)); [apply ok_inv in Ec as [_ ->]; exact Logic.I|eapply IH; eauto]. }
    destruct Hb as [[-> Hb]|(_ & _ & ->)]; [|exact Gc].
    destruct (_ >=? _); [eapply E_setHeight; eauto|apply ok_inv in Hb as [_ ->]; exact Logic.I]. }
  destruct H as [[-> H]|(_ & _ & ->)]; [|exact G4].
  destruct (isStale s4 n); [apply lift_inv in H as [_ ->]|apply ok_inv in H as [_ ->]]; exact Logic.I.
Qed.

Lemma E_addChild fuel s c p s' e : addChild fuel s c p = Ok (s', e) -> okErr e.
Proof.
  unfold addChild. intros H.
  apply ebind_inv in H as (s1 & e1 & E1 & H).
  assert (G1 : okErr e1).
  { unfold addChildWithoutAdjustingHeights in E1.
    destruct (isNecessary (nd s p)); [apply ok_inv in E1 as [_ ->]; exact Logic.I|eapply E_BN; eauto]. }
  destruct H as [[-> H]|(_ & _ & ->)]; [|exact G1].
  apply ebind_inv in H as (s2 & e2 & E2 & H).
  assert (G2 : okErr e2).
  { destruct (_ >=? _); [eapply E_adjustHeights; eauto|apply ok_inv in E2 as [_ ->]; exact Logic.I]. }
  destruct H as [[-> H]|(_ & _ & ->)]; [|exact G2].
  apply ebind_inv in H as (s3 & e3 & E3 & H).
  apply lift_inv in E3 as [_ ->].
  destruct H as [[_ H]|(Hne & _ & _)]; [|congruence].
  destruct (_ || _); [apply lift_inv in H as [_ ->]|apply ok_inv in H as [_ ->]]; exact Logic.I.
Qed.

Lemma E_changeParent fuel s c o n s' e : changeParent fuel s c o n = Ok (s', e) -> okErr e.
Proof.
  unfold changeParent. destruct o as [o|], n as [n|].
  - destruct (bool_decide (o = n)); [intros [_ ->]%ok_inv; exact Logic.I|]. intros H.
    apply ebind_inv in H as (s1 & e1 & E1 & H).
    pose proof (E_addChild _ _ _ _ _ _ E1) as G1.
    destruct H as [[-> H]|(_ & _ & ->)]; [|exact G1].
    apply lift_inv in H as [_ ->]. exact Logic.I.
  - intros H. apply lift_inv in H as [_ ->]. exact Logic.I.
  - intros H. eapply E_addChild; eauto.
  - intros [_ ->]%ok_inv. exact Logic.I.
Qed.

Lemma invoke_nil s n w : invoke [] s n w = Ok (s, None).
Proof. reflexivity. Qed.

Lemma E_bindLhs fuel s b s' e : bindLhsStabilize fuel [] s b = Ok (s', e) -> okErr e.
Proof.
  unfold bindLhsStabilize. cbv zeta. intros H.
  apply rbind_ok in H as ([[sx ex] built] & H1 & H).
  assert (Hex : ex = None).
  { destruct (if b_memo (bd s b) then _ else None) as [[? [? ?]]|]; [injection H1 as _ <- _; reflexivity|].
    rewrite invoke_nil in H1. cbn [rbind] in H1.
    destruct (inst _ _ _ _) as [s3 root]. injection H1 as _ <- _. reflexivity. }
  subst ex. destruct built as [root|]; [|discriminate].
  apply ebind_inv in H as (t8 & e2 & Hcp & H).
  pose proof (E_changeParent _ _ _ _ _ _ _ Hcp) as G.
  destruct H as [[-> H]|(_ & _ & ->)]; [|exact G].
  apply ebind_inv in H as (t9 & e3 & Hiv & H). apply lift_inv in Hiv as [_ ->].
  destruct H as [[_ H]|(Hne & _ & _)]; [|congruence].
  apply lift_inv in H as [_ ->]. exact Logic.I.
Qed.

Lemma E_stabilizeNode fuel s n s' e : stabilizeNode fuel [] s n = Ok (s', e) -> okErr e.
Proof.
  unfold stabilizeNode. destruct (nkind (nd s n)).
  - destruct (pending (nd s n)); [destruct (_ =? _)|]; intros [_ ->]%ok_inv; exact Logic.I.
  - intros [_ ->]%ok_inv; exact Logic.I.
  - rewrite invoke_nil. cbn [rbind]. intros [_ ->]%ok_inv; exact Logic.I.
  - rewrite invoke_nil. cbn [rbind]. intros [_ ->]%ok_inv; exact Logic.I.
  - rewrite invoke_nil. cbn [rbind]. intros [_ ->]%ok_inv; exact Logic.I.
  - intros [_ ->]%ok_inv; exact Logic.I.
  - intros [_ ->]%ok_inv; exact Logic.I.
  - apply E_bindLhs.
  - intros [_ ->]%ok_inv; exact Logic.I.
Qed.

Lemma failTail_err s n prev e0 s' e imm : failTail s n prev e0 = Ok (s', e, imm) -> e = Some e0.
Proof.
  unfold failTail. destruct e0; try (intros H; apply rbind_ok in H as (? & _ & [= _ <- _]); reflexivity).
  intros [= _ <- _]. reflexivity.
Qed.

Lemma E_rns fuel s n s' e imm : recomputeNodeSerial fuel [] s n = Ok (s', e, imm) -> okErr e.
Proof.
  rewrite recomputeNodeSerial_unfold. cbv zeta. intros H.
  apply rbind_ok in H as ([[s1 e1] cut] & H1 & H).
  assert (He1 : e1 = None).
  { unfold maybeCutoff in H1. destruct (nkind (nd s n)); injection H1 as _ <- _; reflexivity. }
  subst e1. destruct cut; [injection H as _ <- _; exact Logic.I|].
  apply rbind_ok in H as ([s2 e2] & H2 & H).
  pose proof (E_stabilizeNode _ _ _ _ _ H2) as G.
  destruct e2 as [e0|].
  - rewrite (failTail_err _ _ _ _ _ _ _ H). exact G.
  - unfold successTail in H. cbv zeta in H.
    apply rbind_ok in H as ([sa held] & _ & H). apply rbind_ok in H as ([sb imm'] & _ & [= _ <- _]). exact Logic.I.
Qed.

(** * 5. The loop of a pass in which the function of [x] returns an error *)
Definition rejErr (e : option err) : Prop := exists r, e = Some r /\ adj_err r.

Lemma AW_nodes s s' always : nodes s' = nodes s -> stabNum s' = stabNum s -> AW s always -> AW s' always.
Proof.
  intros Hn Hk HA y. pose proof (nodes_eq_nd _ _ Hn) as Hnd. unfold isDone. rewrite !Hnd, Hk. apply HA.
Qed.

Lemma chain_failC x fuel : forall s n s' e at_ always,
  Tplain s -> PInv s -> LInvC s (Some n) -> inGraph (nd s n) = true ->
  AW s always -> (isAlways (nkind (nd s n)) = true -> n ∈ always) ->
  recomputeChain fuel (failPlan x) s n = Ok (s', e, at_) ->
  rejErr e \/
  (Tplain s' /\ PInv s' /\ LInvC s' None /\ stabNum s' = stabNum s /\ CF s s' /\ AW s' always /\
   (e = None \/ (e = Some (EUser x) /\ inHeap s' x = true))).
Proof.
  induction fuel as [|fuel IH]; intros s n s' e at_ always TP P L Hg HA Hn H; [discriminate|].
  cbn [recomputeChain] in H.
  destruct (recomputeNodeSerial fuel (failPlan x) s n) as [[[s1 e1] imm]| |] eqn:E1; simpl in H; try discriminate.
  destruct (decide (n = x /\ fnKind (nkind (nd s n)) = true)) as [[-> Hf]|Hno].
  - destruct (failed_stepC fuel x s s1 e1 imm TP P L Hg Hf E1) as (-> & -> & F & TP1 & P1 & L1 & Hq).
    injection H as <- <- <-. right. destruct (ft_fields _ _ _ F) as (_ & Fk & _).
    split; [exact TP1|]. split; [exact P1|]. split; [exact L1|]. split; [exact Fk|].
    split; [apply CF_binds, (ft_binds _ _ _ F)|]. split; [exact (AW_nodes s s1 always (ft_nodes _ _ _ F) Fk HA)|].
    right. auto.
  - change (failPlan x) with (faultPlan x FErr) in E1. rewrite rns_faultPlan_other in E1.
    2:{ intros b K. pose proof (p_kinds _ P n (has_inGraph _ _ Hg)) as Hkk. rewrite K in Hkk. symmetry. apply Hkk. }
    2:{ destruct (decide (n = x)) as [->|]; [right|left; assumption].
        destruct (fnKind (nkind (nd s x))); [exfalso; apply Hno; auto|reflexivity]. }
    pose proof (E_rns _ _ _ _ _ _ E1) as Ge.
    destruct e1 as [r|].
    { left. exists r. split; [|exact Ge]. destruct imm; injection H as _ <- _; reflexivity. }
    destruct (rnsT fuel s n s1 imm TP P L Hg E1) as (TP1 & P1 & L1 & Hk1 & Himm & C1).
    destruct (rnsT2 fuel s n s1 imm TP P L Hg E1) as (Hd & Hna).
    assert (HA1 : AW s1 always).
    { intros y A B C. destruct (Hd y B C A) as [(X1 & X2 & X3)|[-> X]]; [apply (HA y X3 X1 X2)|apply Hn, X]. }
    destruct imm as [c|].
    + destruct (IH s1 c s' e at_ always TP1 P1 L1 (Himm c eq_refl) HA1) as [R|(TP' & P' & L' & Hk' & C' & HA' & He)];
        [intros Hc; rewrite (Hna c eq_refl) in Hc; discriminate|exact H|left; exact R|].
      right. split; [exact TP'|]. split; [exact P'|]. split; [exact L'|]. split; [congruence|].
      split; [eapply CF_trans; eauto|]. split; [exact HA'|exact He].
    + injection H as <- <- <-. right. auto 10.
Qed.

Lemma loop_failC x fuel : forall s always s' e at_ always',
  Tplain s -> PInv s -> LInvC s None -> AW s always ->
  passLoop fuel (failPlan x) s always = Ok (s', e, at_, always') ->
  rejErr e \/
  (Tplain s' /\ PInv s' /\ LInvC s' None /\ stabNum s' = stabNum s /\ CF s s' /\ AW s' always' /\
   ((e = None /\ Heap.ids (heap s') = []) \/ (e = Some (EUser x) /\ inHeap s' x = true))).
Proof.
  induction fuel as [|fuel IH]; intros s always s' e at_ always' TP P L HA H; [discriminate|].
  cbn [passLoop] in H. destruct (PInv_heap s P) as [I _].
  destruct (Z.leb_spec (Heap.cnt (heap s)) 0) as [Hc|Hc].
  { injection H as <- <- _ <-. right. split; [exact TP|]. split; [exact P|]. split; [exact L|]. split; [reflexivity|].
    split; [apply CF_binds; reflexivity|]. split; [exact HA|]. left. split; [reflexivity|apply cnt_zero_ids; assumption]. }
  destruct (Heap.removeMin (heap s)) as [[n w]|] eqn:Erm; [|discriminate].
  set (s2 := s <| heap := w |>) in *.
  set (always2 := if isAlways (nkind (nd s2 n)) then always ++ [n] else always) in *.
  destruct (recomputeChain fuel (failPlan x) s2 n) as [[[s3 e3] at3]| |] eqn:E3; simpl in H; try discriminate.
  destruct (pop_LInvC s n w P L Erm) as (L2 & P2 & Hgn). fold s2 in L2, P2.
  pose proof (Tplain_binds s s2 eq_refl TP) as TP2.
  assert (HA2 : AW s2 always2).
  { intros y A B C. unfold always2. destruct (isAlways (nkind (nd s2 n))); [apply elem_of_app; left|]; apply (HA y A B C). }
  assert (Hn2 : isAlways (nkind (nd s2 n)) = true -> n ∈ always2).
  { intros E. unfold always2. rewrite E. apply elem_of_app. right. left. }
  destruct (chain_failC x fuel s2 n s3 e3 at3 always2 TP2 P2 L2 Hgn HA2 Hn2 E3)
    as [R|(TP3 & P3 & L3 & Hk3 & C3 & HA3 & He3)].
  { left. destruct R as (r & -> & Hr). injection H as _ <- _ _. exists r. auto. }
  assert (C03 : CF s s3) by (apply (CF_trans s s2 s3); [apply CF_binds; reflexivity|exact C3]).
  destruct e3 as [e3|].
  - injection H as <- <- _ <-. destruct He3 as [?|[-> Hq]]; [discriminate|]. right.
    split; [exact TP3|]. split; [exact P3|]. split; [exact L3|]. split; [exact Hk3|]. split; [exact C03|].
    split; [exact HA3|]. right. auto.
  - destruct (IH s3 always2 s' e at_ always' TP3 P3 L3 HA3 H) as [R|(TP' & P' & L' & Hk' & C' & HA' & He')]; [left; exact R|].
    right. split; [exact TP'|]. split; [exact P'|]. split; [exact L'|]. split; [rewrite Hk', Hk3; reflexivity|].
    split; [eapply CF_trans; eauto|]. split; [exact HA'|exact He'].
Qed.

(** * 6. From the loop invariant (with a possibly non-empty queue) to the quiescent invariant *)
Lemma finish_ValInvB sL always s' :
  PInv sL -> LInvC sL None -> AW sL always ->
  nodes s' = nodes sL -> binds s' = binds sL -> next s' = next sL -> stabNum s' = stabNum sL + 1 ->
  (forall y, inHeap sL y = true -> inHeap s' y = true) ->
  (forall y, y ∈ always -> inGraph (nd sL y) = true -> inHeap s' y = true) ->
  ValInvB s'.
Proof.
  intros PL LL HAL Hn Hb Hx Hk' Hq Hqa.
  pose proof (nodes_eq_nd _ _ Hn) as Hnd. destruct (PInv_heap sL PL) as [IL _].
  pose proof (PInv_Struct sL PL) as HSL. pose proof (PInv_BFB sL PL (lc_shape _ _ LL)) as HBL.
  pose proof (st_num sL (p_stamps sL PL)) as Hkpos.
  assert (HstL : forall n, 0 <= changedAt (nd sL n) <= stabNum sL /\ 0 <= recomputedAt (nd sL n) <= stabNum sL /\
                           (changedAt (nd sL n) = stabNum sL -> recomputedAt (nd sL n) = stabNum sL)).
  { intros n. apply stamps_node_false, (lc_stamps _ _ LL). }
  assert (HnotW : forall n, inHeap s' n = false -> inW sL None n = false).
  { intros n Hf. unfold inW. rewrite orb_false_r. destruct (inHeap sL n) eqn:E; [|reflexivity].
    rewrite (Hq n E) in Hf. discriminate. }
  assert (Hgd : forall n, guarded s' None n = true -> guarded sL None n = true).
  { intros n Hg. unfold guarded in *. rewrite Hnd in Hg. apply forallb_intro. intros p Hp.
    pose proof (forallb_elem _ _ _ Hg Hp) as Hb2. cbv beta in Hb2. rewrite !Hnd in Hb2.
    apply andb_true_iff in Hb2 as [H1 H2]. rewrite H1. simpl. apply negb_true_iff in H2. apply negb_true_iff.
    unfold volq in *. rewrite ?Hnd in H2. destruct (nkind (nd sL p)); try reflexivity.
    - apply HnotW. unfold inW in H2. rewrite orb_false_r in H2. exact H2.
    - rewrite ?Hnd, Hk' in H2. apply Z.ltb_ge in H2. pose proof (HstL p). lia. }
  constructor.
  - intros n y E. rewrite Hn in E. exact (lc_shape _ _ LL n y E).
  - intros n. unfold stamps_node. rewrite Hnd, Hk'. pose proof (HstL n).
    rewrite !andb_true_iff, !Z.leb_le, !Z.ltb_lt. lia.
  - intros n Hg Hv. rewrite Hnd in *. apply (lc_unreg _ _ LL n Hg Hv).
  - intros n Hg Hs. rewrite Hnd in Hg. rewrite (isStale_nodes sL s' n Hn) in Hs.
    destruct (isDone sL n) eqn:Ed.
    + apply Hqa; [|exact Hg]. apply (HAL n); [|exact Ed|exact Hg].
      apply isDone_iff in Ed. unfold isStale in Hs. rewrite (t_valid _ _ _ (p_t _ PL) n Hg) in Hs. simpl in Hs.
      assert (Hsw : staleWrtParents sL (nd sL n) = false).
      { unfold staleWrtParents. destruct (existsb _ _) eqn:Ex; [|reflexivity].
        apply existsb_elem in Ex as (p & _ & Hp). apply Z.gtb_lt in Hp. pose proof (HstL p). lia. }
      assert (H0 : (recomputedAt (nd sL n) =? 0) = false) by (apply Z.eqb_neq; lia).
      destruct (nkind (nd sL n)) eqn:K; try reflexivity; try discriminate Hs; rewrite ?H0, ?Hsw in Hs; discriminate Hs.
    + apply Hq. pose proof (lc_owed _ _ LL n Hg Ed Hs) as Hw. unfold inW in Hw. rewrite orb_false_r in Hw. exact Hw.
  - intros n Hg Hnq Hgd'. rewrite Hnd in *.
    rewrite (consistent_valB_nodes sL s' n _ Hn Hb).
    pose proof (lc_clean _ _ LL n Hg (HnotW n Hnq) (Hgd n Hgd')) as Hc.
    unfold clean_ok in Hc. apply andb_true_iff in Hc as [Hc _]. exact Hc.
  - intros b Hg K Hnq Hgd'. rewrite Hnd in *. rewrite (matchesOK_nodes sL s' b Hn Hb Hx).
    destruct (bb_main _ HBL _ _ K) as (_ & KL & Hd).
    assert (E1 : edge sL b (S b)) by (apply (decl_parent sL HSL _ _ Hg); rewrite Hd; left).
    destruct (edge_reg sL HSL _ _ E1) as [HgL _].
    pose proof (lc_clean _ _ LL b HgL (HnotW b Hnq) (Hgd b Hgd')) as HcL.
    unfold clean_ok in HcL. apply andb_true_iff in HcL as [_ HcL].
    rewrite KL, Hg, K in HcL. rewrite !bool_decide_eq_true_2 in HcL by reflexivity. exact HcL.
Qed.

(** * 7. C07 with binds: the function of [x] returns an error *)
Lemma failPlan_plan_ok s x : plan_ok s (failPlan x) = true.
Proof. reflexivity. Qed.

Theorem passF_error s x s' e :
  Inv s -> ValInvB s -> Tplain s -> stabilize (failPlan x) false s = Ok (s', Some e) ->
  e <> ECycle -> e <> EHeightLimit ->
  e = EUser x /\ Inv s' /\ ValInvB s' /\ Tplain s' /\ CF s s' /\ inHeap s' x = true.
Proof.
  intros IV V TP H Hne1 Hne2. pose proof (Inv_wfb s IV) as Hwf.
  destruct (wfb_transients _ Hwf) as (Hst & Hsd & Hsr & Hh).
  assert (IV' : Inv s').
  { apply (Inv_step_stabilize s (Stabilize (failPlan x)) s' (Some e) IV); try reflexivity; [exact H|congruence|congruence]. }
  destruct (stabilize_decompose _ _ _ _ _ Hst H) as (sL & at_ & always & s2 & s3 & EL & ER & EP & EE).
  unfold passResult in EL. cbv zeta in EL. simpl in EL.
  set (s1 := EngineLocal.passStart s) in *.
  pose proof (LInvC_start s IV V) as L1. change (PassProofs.passStart s) with s1 in L1.
  pose proof (Inv_PInv_start s IV) as P1. change (PInv s1) in P1.
  pose proof (Tplain_binds s s1 eq_refl TP) as TP1.
  assert (HA1 : AW s1 []).
  { intros y _ Hd _. exfalso. pose proof (stamps_node_true _ _ (vb_stamps _ V y)). unfold isDone in Hd. apply Z.eqb_eq in Hd.
    change (recomputedAt (nd s y) = stabNum s) in Hd. lia. }
  destruct (loop_failC x _ s1 [] sL (Some e) at_ always TP1 P1 L1 HA1 EL)
    as [(r & [= ->] & [->| ->])|(TPL & PL & LL & HkL & CL & HAL & He)]; [congruence|congruence|].
  destruct He as [[? _]|[[= ->] HqL]]; [discriminate|].
  injection EP as <-.
  destruct (PInv_heap sL PL) as [IL HqLh].
  pose proof (requeue_only_heap _ _ _ ER) as OR.
  destruct (requeue_mem always sL s2 IL ER) as (IR & MR & AR).
  destruct (stabilizeEnd_quiet s2 _ s' ltac:(rewrite (oh_setDuring _ _ OR); exact (proj1 (lc_quiet _ _ LL)))
              ltac:(rewrite (oh_setRemoved _ _ OR); exact (proj2 (lc_quiet _ _ LL))) EE)
    as (En & Eh & Eb & Ex & Ek & _).
  assert (Hn : nodes s' = nodes sL) by (rewrite En; apply (oh_nodes _ _ OR)).
  assert (Hb : binds s' = binds sL) by (rewrite Eb; apply (oh_binds _ _ OR)).
  assert (Hq' : forall y, y ∈ Heap.ids (heap s2) -> inHeap s' y = true).
  { intros y Hy. unfold inHeap. rewrite Eh. apply (inHeap_iff0 s2 y IR), Hy. }
  assert (V' : ValInvB s').
  { apply (finish_ValInvB sL always s' PL LL HAL Hn Hb).
    - rewrite Ex. apply (oh_next _ _ OR).
    - rewrite Ek, (oh_stabNum _ _ OR). reflexivity.
    - intros y Hy. apply Hq', MR, (inHeap_iff0 sL y IL), Hy.
    - intros y Hy Hg. apply Hq', AR; [exact Hy|]. pose proof (st_hnonneg _ (PInv_Struct sL PL) y Hg). unfold unset. lia. }
  split; [reflexivity|]. split; [exact IV'|]. split; [exact V'|].
  split; [apply (Tplain_binds sL s' Hb TPL)|].
  split; [apply (CF_trans s sL s'); [|apply CF_binds, Hb]; apply (CF_trans s s1 sL); [apply CF_binds; reflexivity|exact CL]|].
  apply Hq', MR, (inHeap_iff0 sL x IL), HqL.
Qed.

(** * 8. A node function that panics *)
Record panickedTo (s : state) (x : nid) (s' : state) : Prop := {
  pk_other : forall y, y <> x -> nd s' y = nd s y;
  pk_self : nd s' x = nd s x <| recomputedAt := stabNum s |>;
  pk_has : forall y, has s' y <-> has s y;
  pk_binds : binds s' = binds s;
  pk_heap : heap s' = heap s;
  pk_fields : next s' = next s /\ stabNum s' = stabNum s /\ setDuring s' = setDuring s /\ setRemoved s' = setRemoved s
}.

Lemma rns_panic_map x s s' e imm fuel :
  has s x -> mapKind (nkind (nd s x)) = true ->
  recomputeNodeSerial fuel (panicPlan x) s x = Ok (s', e, imm) ->
  e = Some (EPanic x) /\ imm = None /\ panickedTo s x s'.
Proof.
  intros Hx Hmk H. destruct (rns_panicPlan_fail fuel x s s' e imm Hx Hmk H) as (-> & -> & ->).
  split; [reflexivity|]. split; [reflexivity|]. constructor; try reflexivity.
  - intros y Hy. rewrite nd_emit. apply nd_upd_ne, Hy.
  - rewrite nd_emit. apply nd_upd_eq, Hx.
  - intros y. rewrite has_emit. apply has_upd.
  - repeat split.
Qed.

Lemma rns_panic_lhs b s s' e imm fuel :
  has s b -> nkind (nd s b) = KBindLhs b -> is_Some (binds s !! b) -> b_memo (bd s b) = false ->
  recomputeNodeSerial fuel (panicPlan b) s b = Ok (s', e, imm) ->
  e = Some (EPanic b) /\ imm = None /\ panickedTo s b s'.
Proof.
  intros Hx Hk [r Hr] Hmemo H. rewrite recomputeNodeSerial_unfold in H. cbv zeta in H.
  set (s0 := upd s b (set recomputedAt (fun _ => stabNum s))) in *.
  assert (Hk0 : nkind (nd s0 b) = KBindLhs b) by (unfold s0; rewrite (nd_upd_proj nkind) by reflexivity; exact Hk).
  assert (Hmc : maybeCutoff (panicPlan b) s0 b (nd s b) = Ok (s0, None, false)).
  { unfold maybeCutoff. rewrite Hk. reflexivity. }
  rewrite Hmc in H. simpl in H.
  assert (Hbd0 : bd s0 b = r) by (unfold bd; change (binds s0) with (binds s); rewrite Hr; reflexivity).
  assert (Hbd : bd s b = r) by (unfold bd; rewrite Hr; reflexivity).
  set (s1 := updb s0 b (set b_rhsNodes (fun _ : list nid => []))) in *.
  set (sF := updb (emit (EvFault b WFn FPanic) s1) b (set b_rhsNodes (fun _ => b_rhsNodes r))).
  assert (Hsn : stabilizeNode fuel (panicPlan b) s0 b = Ok (sF, Some (EPanic b))).
  { unfold stabilizeNode. rewrite Hk0. unfold bindLhsStabilize. cbv zeta. rewrite Hbd0.
    rewrite Hbd in Hmemo. rewrite Hmemo. fold s1.
    assert (Hinv : invoke (panicPlan b) s1 b WFn = Ok (emit (EvFault b WFn FPanic) s1, Some (EPanic b))).
    { unfold invoke. rewrite panicPlan_actions, Nat.eqb_refl. reflexivity. }
    rewrite Hinv. reflexivity. }
  rewrite Hsn in H. simpl in H. injection H as <- <- <-. split; [reflexivity|]. split; [reflexivity|].
  constructor; try reflexivity.
  - intros y Hy. unfold sF. rewrite nd_updb, nd_emit. unfold s1. rewrite nd_updb. unfold s0. apply nd_upd_ne, Hy.
  - unfold sF. rewrite nd_updb, nd_emit. unfold s1. rewrite nd_updb. unfold s0. apply nd_upd_eq, Hx.
  - intros y. unfold sF. rewrite has_updb, has_emit. unfold s1. rewrite has_updb. apply has_upd.
  - change (binds sF) with (alter (set b_rhsNodes (fun _ => b_rhsNodes r)) b
                              (alter (set b_rhsNodes (fun _ : list nid => [])) b (binds s))).
    apply map_eq. intros i. destruct (decide (i = b)) as [->|Hi].
    + rewrite !lookup_alter, Hr. simpl. rewrite bindrec_eta_rhsNodes. reflexivity.
    + rewrite !lookup_alter_ne by congruence. reflexivity.
  - repeat split.
Qed.

Lemma panic_stepC fuel x s s' e imm :
  PInv s -> inGraph (nd s x) = true -> fnKind (nkind (nd s x)) = true ->
  recomputeNodeSerial fuel (panicPlan x) s x = Ok (s', e, imm) ->
  e = Some (EPanic x) /\ imm = None /\ panickedTo s x s'.
Proof.
  intros P Hg Hf H. pose proof (has_inGraph _ _ Hg) as Hx.
  unfold fnKind in Hf. destruct (mapKind (nkind (nd s x))) eqn:Emk.
  - exact (rns_panic_map x s s' e imm fuel Hx Emk H).
  - simpl in Hf. destruct (nkind (nd s x)) eqn:K; try discriminate Hf.
    pose proof (p_kinds _ P x Hx) as Hkk. rewrite K in Hkk. destruct Hkk as [-> [r Hr]].
    apply (rns_panic_lhs b s s' e imm fuel Hx K); try assumption; [eauto|].
    unfold bd. rewrite Hr. apply (bw_memo _ _ _ (p_binds _ P b r Hr)).
Qed.

(* the state just before the panicking recompute *)
Definition beforePanic (s : state) (x : nid) (always : list nid) (sG s' : state) : Prop :=
  Tplain sG /\ PInv sG /\ LInvC sG (Some x) /\ inGraph (nd sG x) = true /\ fnKind (nkind (nd sG x)) = true /\
  stabNum sG = stabNum s /\ CF s sG /\ AW sG always /\ panickedTo sG x s'.

Lemma chain_panicC x fuel : forall s n s' e at_ always,
  Tplain s -> PInv s -> LInvC s (Some n) -> inGraph (nd s n) = true ->
  AW s always -> (isAlways (nkind (nd s n)) = true -> n ∈ always) ->
  recomputeChain fuel (panicPlan x) s n = Ok (s', e, at_) ->
  rejErr e \/
  (e = None /\ Tplain s' /\ PInv s' /\ LInvC s' None /\ stabNum s' = stabNum s /\ CF s s' /\ AW s' always) \/
  (e = Some (EPanic x) /\ at_ = x /\ exists sG, beforePanic s x always sG s').
Proof.
  induction fuel as [|fuel IH]; intros s n s' e at_ always TP P L Hg HA Hn H; [discriminate|].
  cbn [recomputeChain] in H.
  destruct (recomputeNodeSerial fuel (panicPlan x) s n) as [[[s1 e1] imm]| |] eqn:E1; simpl in H; try discriminate.
  destruct (decide (n = x /\ fnKind (nkind (nd s n)) = true)) as [[-> Hf]|Hno].
  - destruct (panic_stepC fuel x s s1 e1 imm P Hg Hf E1) as (-> & -> & K).
    injection H as <- <- <-. right. right. split; [reflexivity|]. split; [reflexivity|]. exists s.
    split; [exact TP|]. split; [exact P|]. split; [exact L|]. split; [exact Hg|]. split; [exact Hf|].
    split; [reflexivity|]. split; [apply CF_binds; reflexivity|]. split; [exact HA|exact K].
  - change (panicPlan x) with (faultPlan x FPanic) in E1. rewrite rns_faultPlan_other in E1.
    2:{ intros b K. pose proof (p_kinds _ P n (has_inGraph _ _ Hg)) as Hkk. rewrite K in Hkk. symmetry. apply Hkk. }
    2:{ destruct (decide (n = x)) as [->|]; [right|left; assumption].
        destruct (fnKind (nkind (nd s x))); [exfalso; apply Hno; auto|reflexivity]. }
    pose proof (E_rns _ _ _ _ _ _ E1) as Ge.
    destruct e1 as [r|].
    { left. exists r. split; [|exact Ge]. destruct imm; injection H as _ <- _; reflexivity. }
    destruct (rnsT fuel s n s1 imm TP P L Hg E1) as (TP1 & P1 & L1 & Hk1 & Himm & C1).
    destruct (rnsT2 fuel s n s1 imm TP P L Hg E1) as (Hd & Hna).
    assert (HA1 : AW s1 always).
    { intros y A B C. destruct (Hd y B C A) as [(X1 & X2 & X3)|[-> X]]; [apply (HA y X3 X1 X2)|apply Hn, X]. }
    destruct imm as [c|].
    + destruct (IH s1 c s' e at_ always TP1 P1 L1 (Himm c eq_refl) HA1)
        as [R|[(-> & TP' & P' & L' & Hk' & C' & HA')|(-> & -> & sG & TG & PG & LG & HgG & HfG & HkG & CG & HAG & KG)]];
        [intros Hc; rewrite (Hna c eq_refl) in Hc; discriminate|exact H|left; exact R| |].
      * right. left. split; [reflexivity|]. split; [exact TP'|]. split; [exact P'|]. split; [exact L'|].
        split; [congruence|]. split; [eapply CF_trans; eauto|exact HA'].
      * right. right. split; [reflexivity|]. split; [reflexivity|]. exists sG.
        split; [exact TG|]. split; [exact PG|]. split; [exact LG|]. split; [exact HgG|]. split; [exact HfG|].
        split; [congruence|]. split; [eapply CF_trans; eauto|]. split; [exact HAG|exact KG].
    + injection H as <- <- <-. right. left. auto 10.
Qed.

Lemma loop_panicC x fuel : forall s always s' e at_ always',
  Tplain s -> PInv s -> LInvC s None -> AW s always ->
  passLoop fuel (panicPlan x) s always = Ok (s', e, at_, always') ->
  rejErr e \/
  (e = None /\ Tplain s' /\ PInv s' /\ LInvC s' None /\ stabNum s' = stabNum s /\ CF s s' /\ AW s' always' /\
   Heap.ids (heap s') = []) \/
  (e = Some (EPanic x) /\ at_ = x /\ exists sG, beforePanic s x always' sG s').
Proof.
  induction fuel as [|fuel IH]; intros s always s' e at_ always' TP P L HA H; [discriminate|].
  cbn [passLoop] in H. destruct (PInv_heap s P) as [I _].
  destruct (Z.leb_spec (Heap.cnt (heap s)) 0) as [Hc|Hc].
  { injection H as <- <- _ <-. right. left. split; [reflexivity|]. split; [exact TP|]. split; [exact P|]. split; [exact L|].
    split; [reflexivity|]. split; [apply CF_binds; reflexivity|]. split; [exact HA|apply cnt_zero_ids; assumption]. }
  destruct (Heap.removeMin (heap s)) as [[n w]|] eqn:Erm; [|discriminate].
  set (s2 := s <| heap := w |>) in *.
  set (always2 := if isAlways (nkind (nd s2 n)) then always ++ [n] else always) in *.
  destruct (recomputeChain fuel (panicPlan x) s2 n) as [[[s3 e3] at3]| |] eqn:E3; simpl in H; try discriminate.
  destruct (pop_LInvC s n w P L Erm) as (L2 & P2 & Hgn). fold s2 in L2, P2.
  pose proof (Tplain_binds s s2 eq_refl TP) as TP2.
  assert (HA2 : AW s2 always2).
  { intros y A B C. unfold always2. destruct (isAlways (nkind (nd s2 n))); [apply elem_of_app; left|]; apply (HA y A B C). }
  assert (Hn2 : isAlways (nkind (nd s2 n)) = true -> n ∈ always2).
  { intros E. unfold always2. rewrite E. apply elem_of_app. right. left. }
  assert (C02 : CF s s2) by (apply CF_binds; reflexivity).
  destruct (chain_panicC x fuel s2 n s3 e3 at3 always2 TP2 P2 L2 Hgn HA2 Hn2 E3)
    as [R|[(-> & TP3 & P3 & L3 & Hk3 & C3 & HA3)|(-> & -> & sG & TG & PG & LG & HgG & HfG & HkG & CG & HAG & KG)]].
  - left. destruct R as (r & -> & Hr). injection H as _ <- _ _. exists r. auto.
  - destruct (IH s3 always2 s' e at_ always' TP3 P3 L3 HA3 H)
      as [R|[(-> & TP' & P' & L' & Hk' & C' & HA' & Hemp)|(-> & -> & sG & TG & PG & LG & HgG & HfG & HkG & CG & HAG & KG)]].
    + left. exact R.
    + right. left. split; [reflexivity|]. split; [exact TP'|]. split; [exact P'|]. split; [exact L'|].
      split; [rewrite Hk', Hk3; reflexivity|]. split; [|auto].
      eapply CF_trans; [exact C02|]. eapply CF_trans; eauto.
    + right. right. split; [reflexivity|]. split; [reflexivity|]. exists sG.
      split; [exact TG|]. split; [exact PG|]. split; [exact LG|]. split; [exact HgG|]. split; [exact HfG|].
      split; [rewrite HkG, Hk3; reflexivity|]. split; [|auto].
      eapply CF_trans; [exact C02|]. eapply CF_trans; eauto.
  - injection H as <- <- <- <-. right. right. split; [reflexivity|]. split; [reflexivity|]. exists sG.
    split; [exact TG|]. split; [exact PG|]. split; [exact LG|]. split; [exact HgG|]. split; [exact HfG|].
    split; [exact HkG|]. split; [exact (CF_trans s s2 sG C02 CG)|]. split; [exact HAG|exact KG].
Qed.

(** resetting the stamp of a queued node that has a function keeps the quiescent invariant *)
Lemma ValInvB_reset s x s' :
  ValInvB s -> BFB s -> inHeap s x = true -> fnKind (nkind (nd s x)) = true ->
  (forall n, n <> x -> nd s' n = nd s n) -> nd s' x = nd s x <| recomputedAt := 0 |> ->
  (forall n, has s' n <-> has s n) -> heap s' = heap s -> binds s' = binds s -> next s' = next s ->
  stabNum s' = stabNum s -> ValInvB s'.
Proof.
  intros V HB Hqx Hfk Hne Hx Hhas Hh Hb Hnx Hk.
  assert (Hf : forall (A : Type) (g : node -> A) n, (forall y a, g (y <| recomputedAt := a |>) = g y) -> g (nd s' n) = g (nd s n)).
  { intros A g n Hg. destruct (decide (n = x)) as [->|Hn]; [rewrite Hx; apply Hg|rewrite (Hne n Hn); reflexivity]. }
  assert (Hq : forall n, inHeap s' n = inHeap s n) by (intros n; unfold inHeap; rewrite Hh; reflexivity).
  assert (Hval : forall p, valueOf s' p = valueOf s p).
  { intros p. apply valueOf_ext. intros n. repeat split; apply Hf; reflexivity. }
  assert (Hxna : forall p, nkind (nd s p) = KAlways -> p <> x).
  { intros p K ->. rewrite K in Hfk. discriminate. }
  assert (Hgd : forall n, n <> x -> guarded s' None n = guarded s None n).
  { intros n Hn. unfold guarded. rewrite (Hne n Hn). apply forallb_ext. intros p _.
    rewrite (Hf _ changedAt) by reflexivity. f_equal. f_equal. unfold volq, inW.
    rewrite (Hf _ nkind), Hq, Hk by reflexivity. destruct (nkind (nd s p)) eqn:Kp; try reflexivity.
    rewrite (Hne p (Hxna p Kp)). reflexivity. }
  assert (Hkpos : 1 <= stabNum s) by (pose proof (stamps_node_true _ _ (vb_stamps _ V 0%nat)); lia).
  constructor.
  - intros n y E. assert (Hn : has s n) by (apply Hhas; exists y; exact E). destruct Hn as [y0 E0].
    rewrite <- (nd_lookup _ _ _ E). rewrite (shape_node_ext n (nd s n) (nd s' n)); try (apply Hf; reflexivity).
    rewrite (nd_lookup _ _ _ E0). exact (vb_shape _ V n y0 E0).
  - intros n. pose proof (stamps_node_true _ _ (vb_stamps _ V n)) as Hs. apply stamps_node_true_intro; rewrite Hk.
    + rewrite (Hf _ changedAt) by reflexivity. lia.
    + destruct (decide (n = x)) as [->|Hn]; [rewrite Hx; simpl; lia|rewrite (Hne n Hn); lia].
  - intros n. rewrite (Hf _ inGraph), (Hf _ valid), (Hf _ changedAt) by reflexivity. intros Hg Hv.
    destruct (vb_unreg _ V n Hg Hv) as [H1 H2]. split; [|exact H2].
    destruct (decide (n = x)) as [->|Hn]; [rewrite Hx; reflexivity|rewrite (Hne n Hn); exact H1].
  - intros n Hg Hs. rewrite Hq. destruct (decide (n = x)) as [->|Hn]; [exact Hqx|].
    rewrite (Hf _ inGraph) in Hg by reflexivity. apply (vb_owed _ V n Hg). rewrite <- Hs. symmetry.
    apply isStale_same; [apply Hne, Hn|exact Hk|]. intros p _. apply Hf; reflexivity.
  - intros n Hg Hnq Hgd'. rewrite Hq in Hnq. rewrite (Hf _ inGraph) in Hg by reflexivity.
    assert (Hn : n <> x) by (intros ->; congruence).
    rewrite (Hgd n Hn) in Hgd'. rewrite (Hne n Hn).
    rewrite (consistent_valB_ext s s' n _ HB Hb); [exact (vb_clean _ V n Hg Hnq Hgd')| | |].
    + apply Hf; reflexivity.
    + apply Hf; reflexivity.
    + intros p _. apply Hval.
  - intros b Hg K Hnq Hgd'. rewrite Hq in Hnq. rewrite (Hf _ inGraph) in Hg by reflexivity.
    rewrite (Hf _ nkind) in K by reflexivity.
    assert (Hn : b <> x) by (intros ->; congruence).
    rewrite (Hgd b Hn) in Hgd'.
    rewrite (matchesOK_ext s s' b Hb Hnx); [exact (vb_match _ V b Hg K Hnq Hgd')| | |].
    + intros n. repeat split; apply Hf; reflexivity.
    + intros n _. apply Hf; reflexivity.
    + apply Hval.
Qed.

Lemma panicPlan_plan_ok s x : plan_ok s (panicPlan x) = true.
Proof. reflexivity. Qed.

Theorem passF_panic s x s' e :
  Inv s -> ValInvB s -> Tplain s -> stabilize (panicPlan x) false s = Ok (s', Some e) ->
  e <> ECycle -> e <> EHeightLimit ->
  e = EPanic x /\ Inv s' /\ ValInvB s' /\ Tplain s' /\ CF s s' /\ inHeap s' x = true.
Proof.
  intros IV V TP H Hne1 Hne2. pose proof (Inv_wfb s IV) as Hwf.
  destruct (wfb_transients _ Hwf) as (Hst & Hsd & Hsr & Hh).
  assert (IV' : Inv s').
  { apply (Inv_step_stabilize s (Stabilize (panicPlan x)) s' (Some e) IV); try reflexivity; [exact H|congruence|congruence]. }
  destruct (stabilize_decompose _ _ _ _ _ Hst H) as (sL & at_ & always & s2 & s3 & EL & ER & EP & EE).
  unfold passResult in EL. cbv zeta in EL. simpl in EL.
  set (s1 := EngineLocal.passStart s) in *.
  pose proof (LInvC_start s IV V) as L1. change (PassProofs.passStart s) with s1 in L1.
  pose proof (Inv_PInv_start s IV) as P1. change (PInv s1) in P1.
  pose proof (Tplain_binds s s1 eq_refl TP) as TP1.
  assert (HA1 : AW s1 []).
  { intros y _ Hd _. exfalso. pose proof (stamps_node_true _ _ (vb_stamps _ V y)). unfold isDone in Hd. apply Z.eqb_eq in Hd.
    change (recomputedAt (nd s y) = stabNum s) in Hd. lia. }
  destruct (loop_panicC x _ s1 [] sL (Some e) at_ always TP1 P1 L1 HA1 EL)
    as [(r & [= ->] & [->| ->])|[(? & _)|([= ->] & -> & sG & TG & PG & LG & HgG & HfG & HkG & CG & HAG & KG)]];
    [congruence|congruence|discriminate|].
  destruct (PInv_heap sG PG) as [IG HqG]. pose proof (PInv_Struct sG PG) as HSG.
  pose proof (has_inGraph _ _ HgG) as Hxh.
  assert (Hxq : x ∉ Heap.ids (heap sG)).
  { intros Hq. exact (lc_M _ _ LG x x eq_refl Hq (rtc_refl _ _)). }
  destruct (pk_fields _ _ _ KG) as (Kn & Kk & Ksd & Ksr).
  (* node records at the end of the loop *)
  assert (HndL : forall n, nd sL n = if decide (n = x) then nd sG x <| recomputedAt := stabNum sG |> else nd sG n).
  { intros n. destruct (decide (n = x)) as [->|Hn]; [apply (pk_self _ _ _ KG)|apply (pk_other _ _ _ KG n Hn)]. }
  assert (HhL : forall n, height (nd sL n) = height (nd sG n)).
  { intros n. rewrite HndL. destruct (decide (n = x)) as [->|]; reflexivity. }
  assert (IL : HeapSpec.inv (heap sL)) by (rewrite (pk_heap _ _ _ KG); exact IG).
  pose proof (requeue_only_heap _ _ _ ER) as OR.
  destruct (requeue_mem always sL s2 IL ER) as (IR & MR & AR).
  (* the recovery *)
  unfold recoverPanic in EP.
  set (s2' := upd s2 x (set recomputedAt (fun _ => 0))) in *.
  destruct (heapAddIfNotPresent s2' x) as [s3'| |] eqn:E3; simpl in EP; try discriminate. injection EP as <-.
  assert (Hx2 : has s2 x) by (apply (oh_has _ _ OR), (pk_has _ _ _ KG), Hxh).
  assert (Hnd2' : forall n, nd s2' n = if decide (n = x) then nd sG x <| recomputedAt := 0 |> else nd sG n).
  { intros n. unfold s2'. rewrite nd_upd by exact Hx2. destruct (decide (n = x)) as [->|Hn].
    - rewrite (oh_nd _ _ OR), HndL, decide_True by reflexivity. apply node_set_rec2.
    - rewrite (oh_nd _ _ OR), HndL, decide_False by exact Hn. reflexivity. }
  assert (I2' : HeapSpec.inv (heap s2')) by exact IR.
  destruct (heapAddIfNotPresent_spec0 s2' x s3' I2') as (O3 & I3 & M3 & _); [|exact E3|].
  { rewrite Hnd2', decide_True by reflexivity. apply (st_hnonneg _ HSG x HgG). }
  assert (Hsd3 : setDuring (errorHandlers s3' x) = [] /\ setRemoved (errorHandlers s3' x) = []).
  { assert (Hsd3' : setDuring s3' = [] /\ setRemoved s3' = []).
    { rewrite (oh_setDuring _ _ O3), (oh_setRemoved _ _ O3). unfold s2'. cbn.
      rewrite (oh_setDuring _ _ OR), (oh_setRemoved _ _ OR), Ksd, Ksr. exact (lc_quiet _ _ LG). }
    unfold errorHandlers. destruct (nkind (nd s3' x)); exact Hsd3'. }
  destruct (stabilizeEnd_quiet _ _ s' (proj1 Hsd3) (proj2 Hsd3) EE) as (En & Eh & Eb & Ex & Ek & _).
  assert (EH : nodes (errorHandlers s3' x) = nodes s3' /\ heap (errorHandlers s3' x) = heap s3' /\
               binds (errorHandlers s3' x) = binds s3' /\ next (errorHandlers s3' x) = next s3' /\
               stabNum (errorHandlers s3' x) = stabNum s3').
  { unfold errorHandlers. destruct (nkind (nd s3' x)); repeat split. }
  destruct EH as (EH1 & EH2 & EH3 & EH4 & EH5).
  assert (Hnd' : forall n, nd s' n = if decide (n = x) then nd sG x <| recomputedAt := 0 |> else nd sG n).
  { intros n. rewrite (nodes_eq_nd _ _ En n), (nodes_eq_nd _ _ EH1 n), (oh_nd _ _ O3). apply Hnd2'. }
  assert (Hheap' : heap s' = heap s3') by (rewrite Eh; exact EH2).
  assert (I' : HeapSpec.inv (heap s')) by (rewrite Hheap'; exact I3).
  assert (Hids' : forall y, y ∈ Heap.ids (heap s') <-> y = x \/ y ∈ Heap.ids (heap s2)).
  { intros y. rewrite Hheap', M3. reflexivity. }
  assert (Hb' : binds s' = binds sG).
  { rewrite Eb, EH3, (oh_binds _ _ O3). unfold s2'. cbn. rewrite (oh_binds _ _ OR). apply (pk_binds _ _ _ KG). }
  assert (Hx' : next s' = next sG).
  { rewrite Ex, EH4, (oh_next _ _ O3). unfold s2'. cbn. rewrite (oh_next _ _ OR). exact Kn. }
  assert (Hk' : stabNum s' = stabNum sG + 1).
  { rewrite Ek, EH5, (oh_stabNum _ _ O3). unfold s2'. cbn. rewrite (oh_stabNum _ _ OR), Kk. reflexivity. }
  assert (Hhas' : forall n, has s' n <-> has sG n).
  { intros n. unfold has. rewrite En, EH1, (oh_nodes _ _ O3). fold (has s2' n). unfold s2'.
    rewrite has_upd, (oh_has _ _ OR). apply (pk_has _ _ _ KG). }
  (* the virtual state: [sG] with [x] back in the queue *)
  destruct (heapAdd_ok_of_height sG x (st_hnonneg _ HSG x HgG)) as [sV EV].
  assert (Hxq' : inHeap sG x = false) by (apply (inHeap_false_iff0 sG x IG), Hxq).
  destruct (heapAdd_spec0 sG x sV IG Hxq' (st_hnonneg _ HSG x HgG) EV) as (OV & IV0 & PV & _).
  assert (PVv : PInv sV) by (apply (PInv_of_soft sG sV PG), (soft_heapAdd sG x sV Hxq' EV)).
  assert (FV : failedTo sG x sV).
  { constructor.
    - apply (oh_nodes _ _ OV).
    - apply (oh_binds _ _ OV).
    - rewrite (oh_next _ _ OV), (oh_stabNum _ _ OV), (oh_setDuring _ _ OV), (oh_setRemoved _ _ OV). auto.
    - apply LQ_oh, OV.
    - exact IV0.
    - intros y. rewrite PV, elem_of_cons. reflexivity.
    - apply (oh_handlers _ _ OV). }
  destruct (failedTo_LInvC sG x sV PG LG FV) as [LV _].
  assert (HAV : AW sV always) by (apply (AW_nodes sG sV always (oh_nodes _ _ OV) (oh_stabNum _ _ OV) HAG)).
  set (sW := sV <| heap := heap s' |> <| stabNum := stabNum sV + 1 |>).
  assert (VW : ValInvB sW).
  { apply (finish_ValInvB sV always sW PVv LV HAV); try reflexivity.
    - intros y Hy. apply (inHeap_iff0 sV y IV0) in Hy. rewrite PV, elem_of_cons in Hy.
      apply (inHeap_iff0 sW y I'), Hids'. destruct Hy as [->|Hy]; [auto|right].
      apply MR. rewrite (pk_heap _ _ _ KG). exact Hy.
    - intros y Hy Hg. apply (inHeap_iff0 sW y I'), Hids'. right. apply AR; [exact Hy|].
      rewrite HhL. rewrite (oh_nd _ _ OV) in Hg. pose proof (st_hnonneg _ HSG y Hg). unfold unset. lia. }
  assert (V' : ValInvB s').
  { apply (ValInvB_reset sW x s' VW).
    - apply (BFB_nodes sV sW eq_refl eq_refl eq_refl). apply (PInv_BFB sV PVv (lc_shape _ _ LV)).
    - apply (inHeap_iff0 sW x I'), Hids'. auto.
    - change (nd sW x) with (nd sV x). rewrite (oh_nd _ _ OV). exact HfG.
    - intros n Hn. change (nd sW n) with (nd sV n). rewrite (oh_nd _ _ OV), Hnd', decide_False by exact Hn. reflexivity.
    - change (nd sW x) with (nd sV x). rewrite (oh_nd _ _ OV), Hnd', decide_True by reflexivity. reflexivity.
    - intros n. change (has sW n) with (has sV n). rewrite (oh_has _ _ OV). apply Hhas'.
    - reflexivity.
    - change (binds sW) with (binds sV). rewrite (oh_binds _ _ OV). exact Hb'.
    - change (next sW) with (next sV). rewrite (oh_next _ _ OV). exact Hx'.
    - change (stabNum sW) with (stabNum sV + 1). rewrite (oh_stabNum _ _ OV). exact Hk'. }
  split; [reflexivity|]. split; [exact IV'|]. split; [exact V'|].
  split; [apply (Tplain_binds sG s' Hb' TG)|].
  split; [apply (CF_trans s sG s'); [|apply CF_binds, Hb']; apply (CF_trans s s1 sG); [apply CF_binds; reflexivity|exact CG]|].
  apply (inHeap_iff0 s' x I'), Hids'. auto.
Qed.

(** * 9. A pass with such a plan in which the function was not reached: the plan-free outcome *)
Lemma finish_none sL always s2 s' :
  Tplain sL -> PInv sL -> LInvC sL None -> AW sL always -> Heap.ids (heap sL) = [] ->
  requeueAlways always sL = Ok s2 -> stabilizeEnd s2 None = Ok s' ->
  ValInvB s' /\ Tplain s' /\ CF sL s' /\ consistent s' = true.
Proof.
  intros TPL PL LL HAL Hemp ER EE.
  destruct (PInv_heap sL PL) as [IL _].
  pose proof (requeue_only_heap _ _ _ ER) as OR.
  destruct (requeue_mem always sL s2 IL ER) as (IR & MR & AR).
  destruct (stabilizeEnd_quiet s2 _ s' ltac:(rewrite (oh_setDuring _ _ OR); exact (proj1 (lc_quiet _ _ LL)))
              ltac:(rewrite (oh_setRemoved _ _ OR); exact (proj2 (lc_quiet _ _ LL))) EE)
    as (En & Eh & Eb & Ex & Ek & _).
  assert (Hn : nodes s' = nodes sL) by (rewrite En; apply (oh_nodes _ _ OR)).
  assert (Hb : binds s' = binds sL) by (rewrite Eb; apply (oh_binds _ _ OR)).
  assert (Hx : next s' = next sL) by (rewrite Ex; apply (oh_next _ _ OR)).
  assert (Hq' : forall y, y ∈ Heap.ids (heap s2) -> inHeap s' y = true).
  { intros y Hy. unfold inHeap. rewrite Eh. apply (inHeap_iff0 s2 y IR), Hy. }
  split; [|split; [apply (Tplain_binds sL s' Hb TPL)|split; [apply CF_binds, Hb|exact (endC_consistent sL PL LL Hemp s' Hn Hb Hx)]]].
  apply (finish_ValInvB sL always s' PL LL HAL Hn Hb Hx).
  - rewrite Ek, (oh_stabNum _ _ OR). reflexivity.
  - intros y Hy. apply Hq', MR, (inHeap_iff0 sL y IL), Hy.
  - intros y Hy Hg. apply Hq', AR; [exact Hy|]. pose proof (st_hnonneg _ (PInv_Struct sL PL) y Hg). unfold unset. lia.
Qed.

Lemma pass_start_factsB s : Inv s -> ValInvB s -> Tplain s ->
  let s1 := EngineLocal.passStart s in
  Tplain s1 /\ PInv s1 /\ LInvC s1 None /\ AW s1 [].
Proof.
  intros IV V TP s1.
  pose proof (LInvC_start s IV V) as L1. change (PassProofs.passStart s) with s1 in L1.
  pose proof (Inv_PInv_start s IV) as P1. change (PInv s1) in P1.
  split; [apply (Tplain_binds s s1 eq_refl TP)|]. split; [exact P1|]. split; [exact L1|].
  intros y _ Hd _. exfalso. pose proof (stamps_node_true _ _ (vb_stamps _ V y)). unfold isDone in Hd. apply Z.eqb_eq in Hd.
  change (recomputedAt (nd s y) = stabNum s) in Hd. lia.
Qed.

Theorem passF_fail_none s x s' :
  Inv s -> ValInvB s -> Tplain s -> stabilize (failPlan x) false s = Ok (s', None) ->
  Inv s' /\ ValInvB s' /\ Tplain s' /\ CF s s' /\ consistent s' = true.
Proof.
  intros IV V TP H. pose proof (Inv_wfb s IV) as Hwf. destruct (wfb_transients _ Hwf) as (Hst & _).
  assert (IV' : Inv s').
  { apply (Inv_step_stabilize s (Stabilize (failPlan x)) s' None IV); try reflexivity; [exact H|discriminate|discriminate]. }
  destruct (stabilize_decompose _ _ _ _ _ Hst H) as (sL & at_ & always & s2 & s3 & EL & ER & EP & EE).
  unfold passResult in EL. cbv zeta in EL. simpl in EL. apply recoverPanic_None in EP as ->.
  destruct (pass_start_factsB s IV V TP) as (TP1 & P1 & L1 & HA1).
  destruct (loop_failC x _ _ [] sL None at_ always TP1 P1 L1 HA1 EL)
    as [(r & ? & _)|(TPL & PL & LL & HkL & CL & HAL & He)]; [discriminate|].
  destruct He as [[_ Hemp]|[? _]]; [|discriminate].
  destruct (finish_none sL always s2 s' TPL PL LL HAL Hemp ER EE) as (V' & T' & C' & Hc).
  split; [exact IV'|]. split; [exact V'|]. split; [exact T'|]. split; [|exact Hc].
  apply (CF_trans s sL s'); [|exact C']. apply (CF_trans s (EngineLocal.passStart s) sL); [apply CF_binds; reflexivity|exact CL].
Qed.

Theorem passF_panic_none s x s' :
  Inv s -> ValInvB s -> Tplain s -> stabilize (panicPlan x) false s = Ok (s', None) ->
  Inv s' /\ ValInvB s' /\ Tplain s' /\ CF s s' /\ consistent s' = true.
Proof.
  intros IV V TP H. pose proof (Inv_wfb s IV) as Hwf. destruct (wfb_transients _ Hwf) as (Hst & _).
  assert (IV' : Inv s').
  { apply (Inv_step_stabilize s (Stabilize (panicPlan x)) s' None IV); try reflexivity; [exact H|discriminate|discriminate]. }
  destruct (stabilize_decompose _ _ _ _ _ Hst H) as (sL & at_ & always & s2 & s3 & EL & ER & EP & EE).
  unfold passResult in EL. cbv zeta in EL. simpl in EL. apply recoverPanic_None in EP as ->.
  destruct (pass_start_factsB s IV V TP) as (TP1 & P1 & L1 & HA1).
  destruct (loop_panicC x _ _ [] sL None at_ always TP1 P1 L1 HA1 EL)
    as [(r & ? & _)|[(_ & TPL & PL & LL & HkL & CL & HAL & Hemp)|(? & _)]]; [discriminate| |discriminate].
  destruct (finish_none sL always s2 s' TPL PL LL HAL Hemp ER EE) as (V' & T' & C' & Hc).
  split; [exact IV'|]. split; [exact V'|]. split; [exact T'|]. split; [|exact Hc].
  apply (CF_trans s sL s'); [|exact C']. apply (CF_trans s (EngineLocal.passStart s) sL); [apply CF_binds; reflexivity|exact CL].
Qed.

(** the retry: whatever the failed pass left, a plan-free pass that completes converges *)
Theorem passF_retry s x s' e s'' :
  Inv s -> ValInvB s -> Tplain s ->
  (stabilize (failPlan x) false s = Ok (s', Some e) \/ stabilize (panicPlan x) false s = Ok (s', Some e)) ->
  e <> ECycle -> e <> EHeightLimit ->
  stabilize [] false s' = Ok (s'', None) ->
  consistent s'' = true /\ Inv s'' /\ ValInvB s'' /\ Tplain s'' /\
  (templates_ok s = true -> observers_agree s'' = true).
Proof.
  intros IV V TP H Hn1 Hn2 H2.
  assert (R : Inv s' /\ ValInvB s' /\ Tplain s' /\ CF s s').
  { destruct H as [H|H].
    - destruct (passF_error s x s' e IV V TP H Hn1 Hn2) as (_ & A & B & C & D & _). auto.
    - destruct (passF_panic s x s' e IV V TP H Hn1 Hn2) as (_ & A & B & C & D & _). auto. }
  destruct R as (I1 & V1 & T1 & C1).
  destruct (passS_consistent s' s'' I1 V1 T1 H2) as (Hc & I2 & Hwf2 & HSh).
  destruct (passS_ValInvB s' s'' I1 V1 T1 H2) as (V2 & T2 & C2).
  split; [exact Hc|]. split; [exact I2|]. split; [exact V2|]. split; [exact T2|].
  intros Ht. apply (passS_observers_agree s' s'' I1 V1 T1 H2).
  apply (templates_ok_CF s' s'' C2), (templates_ok_CF s s' C1), Ht.
Qed.

(** * 10. Histories with failing and panicking node functions, on graphs with binds *)
Definition isFaultOp (o : op) : bool := match o with Stabilize p => isFailPlan p | _ => false end.

Fixpoint histF_run (s : state) (os : list op) : option state :=
  match os with
  | [] => Some s
  | o :: os =>
    if histB_op o && parity_op o && op_ok s o && op_clean s o then
      match step s o with
      | Ok (s', None) => histF_run s' os
      | _ => None
      end
    else if isFaultOp o then
      match step s o with
      | Ok (s', e) => if rejected e then None else histF_run s' os
      | _ => None
      end
    else None
  end.

Lemma stepF_inv s o s' e :
  Inv s -> ValInvB s -> Tplain s -> templates_ok s = true -> isFaultOp o = true ->
  step s o = Ok (s', e) -> rejected e = false ->
  Inv s' /\ ValInvB s' /\ Tplain s' /\ templates_ok s' = true.
Proof.
  intros IV V TP Ht Ho H Hr. destruct o; try discriminate Ho. simpl in Ho, H.
  destruct (isFailPlan_eq p Ho) as [x [-> | ->]].
  - destruct e as [e|].
    + destruct (passF_error s x s' e IV V TP H) as (_ & A & B & C & D & _);
        [intros ->; discriminate Hr|intros ->; discriminate Hr|].
      split; [exact A|]. split; [exact B|]. split; [exact C|apply (templates_ok_CF s s' D Ht)].
    + destruct (passF_fail_none s x s' IV V TP H) as (A & B & C & D & _).
      split; [exact A|]. split; [exact B|]. split; [exact C|apply (templates_ok_CF s s' D Ht)].
  - destruct e as [e|].
    + destruct (passF_panic s x s' e IV V TP H) as (_ & A & B & C & D & _);
        [intros ->; discriminate Hr|intros ->; discriminate Hr|].
      split; [exact A|]. split; [exact B|]. split; [exact C|apply (templates_ok_CF s s' D Ht)].
    + destruct (passF_panic_none s x s' IV V TP H) as (A & B & C & D & _).
      split; [exact A|]. split; [exact B|]. split; [exact C|apply (templates_ok_CF s s' D Ht)].
Qed.

Lemma histF_inv os : forall s0 s,
  Inv s0 -> ValInvB s0 -> Tplain s0 -> templates_ok s0 = true -> histF_run s0 os = Some s ->
  Inv s /\ ValInvB s /\ Tplain s /\ templates_ok s = true.
Proof.
  induction os as [|o os IH]; intros s0 s IV V TP Ht H; simpl in H; [injection H as <-; auto|].
  destruct (histB_op o && parity_op o && op_ok s0 o && op_clean s0 o) eqn:Eo.
  - rewrite !andb_true_iff in Eo. destruct Eo as [[[Ho Hpo] Hok] Hcl].
    destruct (step s0 o) as [[s1 [e|]]| |] eqn:Es; try discriminate.
    destruct (stepB_inv s0 o s1 IV V TP Ho Hok Hcl Es) as (I1 & V1 & T1).
    apply (IH s1 s I1 V1 T1 (stepB_templates s0 o s1 IV V TP Ho Hpo Es Ht) H).
  - destruct (isFaultOp o) eqn:Ef; [|discriminate].
    destruct (step s0 o) as [[s1 e]| |] eqn:Es; try discriminate.
    destruct (rejected e) eqn:Er; [discriminate|].
    destruct (stepF_inv s0 o s1 e IV V TP Ht Ef Es Er) as (I1 & V1 & T1 & Ht1).
    apply (IH s1 s I1 V1 T1 Ht1 H).
Qed.

Lemma histF_split os1 : forall s0 o os2 sf,
  histF_run s0 (os1 ++ o :: os2) = Some sf ->
  exists s1, histF_run s0 os1 = Some s1 /\ histF_run s1 (o :: os2) = Some sf.
Proof.
  induction os1 as [|a os1 IH]; intros s0 o os2 sf H; [exists s0; auto|].
  simpl in H |- *.
  destruct (histB_op a && parity_op a && op_ok s0 a && op_clean s0 a).
  - destruct (step s0 a) as [[s1 [e|]]| |]; try discriminate. apply (IH s1 o os2 sf H).
  - destruct (isFaultOp a); [|discriminate].
    destruct (step s0 a) as [[s1 e]| |]; try discriminate. destruct (rejected e); [discriminate|].
    apply (IH s1 o os2 sf H).
Qed.

(** whatever failures and panics the earlier passes of the history had, every plan-free pass ends
    with every registered node consistent and every observer reading the from-scratch value *)
Theorem C07_history_binds_proof mh os1 os2 sf :
  (0 < mh)%nat -> histF_run (init mh) (os1 ++ Stabilize [] :: os2) = Some sf ->
  exists s1 s2, histF_run (init mh) os1 = Some s1 /\ step s1 (Stabilize []) = Ok (s2, None) /\
    consistent s2 = true /\ observers_agree s2 = true /\ Inv s2 /\ ValInvB s2.
Proof.
  intros Hmh H. destruct (histF_split os1 (init mh) _ os2 sf H) as (s1 & H1 & H2).
  assert (TP0 : Tplain (init mh)) by (intros b r Hr; inversion Hr).
  destruct (histF_inv os1 (init mh) s1 (Inv_init mh Hmh) (ValInvB_init mh) TP0 eq_refl H1) as (I1 & V1 & T1 & Ht1).
  simpl in H2.
  destruct (stabilize [] false s1) as [[s2 [e|]]| |] eqn:Es; try discriminate.
  exists s1, s2. split; [exact H1|]. split; [exact Es|].
  destruct (passS_ValInvB s1 s2 I1 V1 T1 Es) as (V2 & T2 & C2).
  destruct (passS_observers_agree s1 s2 I1 V1 T1 Es (templates_ok_CF s1 s2 C2 Ht1)) as (A & B & C & _).
  auto.
Qed.

(** * 11. Example: a bind function that fails, a retry that swaps, a panic after a swap *)
Definition exF_ops : list op :=
  [ NewVar 2 false; NewVar 3 false;
    NewBind [TMap (Aff 1 1) (TOuter 1%nat); TRet 5] 0%nat;     (* lhs-change 2, main 3 *)
    NewMap (Aff 2 0) 3%nat;                                    (* 4 *)
    Observe 4%nat;
    Stabilize [];
    SetVar 0%nat 3;
    Stabilize (failPlan 2);       (* the bind function returns an error: EUser 2 *)
    Stabilize [];                 (* the retry: the bind swaps to [Return 5] *)
    SetVar 0%nat 4; SetVar 1%nat 7;
    Stabilize (panicPlan 4);      (* the bind swaps back (new Map node 8), then node 4's function panics *)
    Stabilize (failPlan 8);       (* node 8 is not reached again: the pass completes *)
    Stabilize [] ].

Lemma exF_runs : exists s, histF_run (init 64) exF_ops = Some s.
Proof.
  assert (H : match histF_run (init 64) exF_ops with Some _ => true | None => false end = true)
    by (vm_compute; reflexivity).
  destruct (histF_run (init 64) exF_ops) as [s|]; [eauto|discriminate H].
Qed.

Lemma exF_fail : exists s s', histF_run (init 64) (take 7 exF_ops) = Some s /\
  Inv s /\ ValInvB s /\ Tplain s /\ stabilize (failPlan 2) false s = Ok (s', Some (EUser 2%nat)) /\
  nkind (nd s 2%nat) = KBindLhs 2.
Proof.
  assert (H : match histF_run (init 64) (take 7 exF_ops) with
              | Some s => match stabilize (failPlan 2) false s with
                          | Ok (_, Some (EUser 2%nat)) => match nkind (nd s 2%nat) with KBindLhs 2%nat => true | _ => false end
                          | _ => false end
              | None => false end = true) by (vm_compute; reflexivity).
  destruct (histF_run (init 64) (take 7 exF_ops)) as [s|] eqn:E; [|discriminate H].
  destruct (stabilize (failPlan 2) false s) as [[s' [[| |n|n| | |]|]]| |] eqn:E2; try discriminate H.
  destruct n as [|[|[|n]]]; try discriminate H.
  exists s, s'. split; [reflexivity|].
  assert (TP0 : Tplain (init 64)) by (intros b r Hr; inversion Hr).
  destruct (histF_inv _ (init 64) s (Inv_init 64 ltac:(lia)) (ValInvB_init 64) TP0 eq_refl E) as (I1 & V1 & T1 & _).
  split; [exact I1|]. split; [exact V1|]. split; [exact T1|]. split; [exact E2|].
  destruct (nkind (nd s 2%nat)) as [| | | | | | |b|]; try discriminate H. destruct b as [|[|[|b]]]; try discriminate H. reflexivity.
Qed.

Lemma exF_panic : exists s s', histF_run (init 64) (take 11 exF_ops) = Some s /\
  Inv s /\ ValInvB s /\ Tplain s /\ stabilize (panicPlan 4) false s = Ok (s', Some (EPanic 4%nat)).
Proof.
  assert (H : match histF_run (init 64) (take 11 exF_ops) with
              | Some s => match stabilize (panicPlan 4) false s with
                          | Ok (_, Some (EPanic 4%nat)) => true
                          | _ => false end
              | None => false end = true) by (vm_compute; reflexivity).
  destruct (histF_run (init 64) (take 11 exF_ops)) as [s|] eqn:E; [|discriminate H].
  destruct (stabilize (panicPlan 4) false s) as [[s' [[| |n|n| | |]|]]| |] eqn:E2; try discriminate H.
  destruct n as [|[|[|[|[|n]]]]]; try discriminate H.
  exists s, s'. split; [reflexivity|].
  assert (TP0 : Tplain (init 64)) by (intros b r Hr; inversion Hr).
  destruct (histF_inv _ (init 64) s (Inv_init 64 ltac:(lia)) (ValInvB_init 64) TP0 eq_refl E) as (I1 & V1 & T1 & _).
  split; [exact I1|]. split; [exact V1|]. split; [exact T1|exact E2].
Qed.
