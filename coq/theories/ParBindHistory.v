(** Histories of programs with binds that mix the two stabilizers: [Stabilize []] and
    [ParStabilize []].  Every operation keeps [Inv], [ValInvB], [Tplain]; after every pass of
    either kind the graph is consistent and the observers read the from-scratch values. *)
From incr Require Import Base Heap HeapSpec EngineDefs Engine EngineRun EngineWf Spec SpecProofs EngineLemmas
     EngineInv EngineInvProofs PassInv PassProofs PassBind PassBindProofs PassBindSwap PassBindSwapProofs
     PassBindSwapStep PassBindOps ParBind ParBindStep.

Definition isParNil (o : op) : bool := match o with ParStabilize p => bool_decide (p = []) | _ => false end.
Definition histP_op (o : op) : bool := histB_op o || isParNil o.

Lemma isParNil_inv o : isParNil o = true -> o = ParStabilize [].
Proof. destruct o; try discriminate. simpl. intros H. apply bool_decide_eq_true in H. subst. reflexivity. Qed.

Lemma histB_not_par o : histB_op o = true -> isParNil o = false.
Proof. destruct o; try discriminate; reflexivity. Qed.

Theorem stepP_inv s o s' :
  Inv s -> ValInvB s -> Tplain s -> histP_op o = true -> op_ok s o = true -> op_clean s o = true ->
  step s o = Ok (s', None) -> Inv s' /\ ValInvB s' /\ Tplain s'.
Proof.
  intros IV V TP Ho Hok Hcl H. unfold histP_op in Ho. apply orb_true_iff in Ho as [Ho|Ho].
  - exact (stepB_inv s o s' IV V TP Ho Hok Hcl H).
  - apply isParNil_inv in Ho. subst o. cbn [step] in H.
    destruct (parS_consistent s s' IV V TP H) as (_ & I' & _ & _ & V' & T' & _). auto.
Qed.

Theorem stepP_templates s o s' :
  Inv s -> ValInvB s -> Tplain s -> histP_op o = true -> parity_op o = true ->
  step s o = Ok (s', None) -> templates_ok s = true -> templates_ok s' = true.
Proof.
  intros IV V TP Ho Hpo H Ht. unfold histP_op in Ho. apply orb_true_iff in Ho as [Ho|Ho].
  - exact (stepB_templates s o s' IV V TP Ho Hpo H Ht).
  - apply isParNil_inv in Ho. subst o. cbn [step] in H.
    destruct (parS_consistent s s' IV V TP H) as (_ & _ & _ & _ & _ & _ & C).
    apply (templates_ok_CF s s' C Ht).
Qed.

Fixpoint histP_run (s : state) (os : list op) : option state :=
  match os with
  | [] => Some s
  | o :: os =>
    if histP_op o && parity_op o && op_ok s o && op_clean s o then
      match step s o with
      | Ok (s', None) => histP_run s' os
      | _ => None
      end
    else None
  end.

Lemma histP_inv os : forall s0 s,
  Inv s0 -> ValInvB s0 -> Tplain s0 -> templates_ok s0 = true -> histP_run s0 os = Some s ->
  Inv s /\ ValInvB s /\ Tplain s /\ templates_ok s = true.
Proof.
  induction os as [|o os IH]; intros s0 s IV V TP Ht H; simpl in H; [injection H as <-; auto|].
  destruct (histP_op o && parity_op o && op_ok s0 o && op_clean s0 o) eqn:Eo; [|discriminate].
  rewrite !andb_true_iff in Eo. destruct Eo as [[[Ho Hpo] Hok] Hcl].
  destruct (step s0 o) as [[s1 [e|]]| |] eqn:Es; try discriminate.
  destruct (stepP_inv s0 o s1 IV V TP Ho Hok Hcl Es) as (I1 & V1 & T1).
  apply (IH s1 s I1 V1 T1 (stepP_templates s0 o s1 IV V TP Ho Hpo Es Ht) H).
Qed.

Lemma histP_split os1 : forall s0 o os2 sf,
  histP_run s0 (os1 ++ o :: os2) = Some sf ->
  exists s1 s2, histP_run s0 os1 = Some s1 /\ histP_op o = true /\ step s1 o = Ok (s2, None) /\
                histP_run s2 os2 = Some sf.
Proof.
  induction os1 as [|a os1 IH]; intros s0 o os2 sf H; simpl in H.
  - destruct (histP_op o && parity_op o && op_ok s0 o && op_clean s0 o) eqn:Eo; [|discriminate].
    rewrite !andb_true_iff in Eo. destruct Eo as [[[Ho _] _] _].
    destruct (step s0 o) as [[s2 [e|]]| |] eqn:Es; try discriminate. exists s0, s2. auto.
  - destruct (histP_op a && parity_op a && op_ok s0 a && op_clean s0 a) eqn:Ea; [|discriminate].
    destruct (step s0 a) as [[s1 [e|]]| |] eqn:Es; try discriminate.
    destruct (IH s1 o os2 sf H) as (t1 & t2 & H1 & H2 & H3 & H4). exists t1, t2. split; [|auto].
    simpl. rewrite Ea, Es. exact H1.
Qed.

(* a history of the serial fragment is a history of the mixed one *)
Lemma histB_histP os : forall s0 s, histB_run s0 os = Some s -> histP_run s0 os = Some s.
Proof.
  induction os as [|o os IH]; intros s0 s H; simpl in *; [exact H|].
  unfold histP_op. destruct (histB_op o); simpl in *; [|discriminate].
  destruct (parity_op o && op_ok s0 o && op_clean s0 o); simpl in *; [|discriminate].
  destruct (step s0 o) as [[s1 [e|]]| |]; try discriminate. apply IH, H.
Qed.

(** C01 along whole histories with binds in which serial and parallel passes alternate freely *)
Theorem C01_history_both mh os1 o os2 sf :
  (0 < mh)%nat -> histP_run (init mh) (os1 ++ o :: os2) = Some sf -> is_pass o = true ->
  exists s1 s2, histP_run (init mh) os1 = Some s1 /\ step s1 o = Ok (s2, None) /\
    consistent s2 = true /\ observers_agree s2 = true /\ Inv s2 /\ ValInvB s2 /\ wfb s2 = true.
Proof.
  intros Hmh H Hp. destruct (histP_split os1 (init mh) o os2 sf H) as (s1 & s2 & H1 & Ho & Hs & _).
  exists s1, s2. split; [exact H1|]. split; [exact Hs|].
  assert (Ht0 : templates_ok (init mh) = true) by reflexivity.
  assert (TP0 : Tplain (init mh)) by (intros b r Hr; inversion Hr).
  destruct (histP_inv os1 (init mh) s1 (Inv_init mh Hmh) (ValInvB_init mh) TP0 Ht0 H1) as (I1 & V1 & T1 & Ht1).
  unfold histP_op in Ho. apply orb_true_iff in Ho as [Ho|Ho].
  - assert (Hpass : stabilize [] false s1 = Ok (s2, None)).
    { destruct o; try discriminate Hp; try discriminate Ho; cbn [step] in Hs.
      - apply bool_decide_eq_true in Ho. subst p. exact Hs.
      - apply stabilize_cancelled_ok, Hs. }
    destruct (passS_ValInvB s1 s2 I1 V1 T1 Hpass) as (V2 & _ & C).
    destruct (passS_observers_agree s1 s2 I1 V1 T1 Hpass (templates_ok_CF s1 s2 C Ht1)) as (Hc & Ho' & I2 & Hwf).
    auto 10.
  - apply isParNil_inv in Ho. subst o. cbn [step] in Hs.
    destruct (parS_consistent s1 s2 I1 V1 T1 Hs) as (Hc & I2 & Hwf & _ & V2 & _ & C).
    destruct (parS_agree s1 s2 I1 V1 T1 Hs (templates_ok_CF s1 s2 C Ht1)) as (_ & Ho' & _ & _).
    auto 10.
Qed.

(** * Examples *)
(* the swapping history of PassBindOps.exH_ops, the stabilizers alternating *)
Definition exP_ops : list op :=
  [ NewVar 2 false;                                            (* 0 *)
    NewVar 3 false;                                            (* 1 *)
    NewBind [TMap (Aff 1 1) (TOuter 1%nat); TRet 5] 0%nat;     (* bind 2: lhs-change 2, main 3 *)
    NewMap (Aff 2 0) 3%nat;                                    (* 4 *)
    Observe 4%nat;                                             (* observer 5 *)
    ParStabilize [];                                           (* first generation, in parallel *)
    SetVar 1%nat 4;
    Stabilize [];
    SetVar 0%nat 3;
    ParStabilize [];                                           (* a swap in a parallel pass *)
    SetVar 0%nat 4;
    Stabilize [];                                              (* a swap back in a serial pass *)
    SetVar 0%nat 5;
    SetVar 1%nat 9;
    ParStabilize [] ].

Lemma exP_runs : exists s, histP_run (init 64) exP_ops = Some s.
Proof.
  assert (H : match histP_run (init 64) exP_ops with Some _ => true | None => false end = true)
    by (vm_compute; reflexivity).
  destruct (histP_run (init 64) exP_ops) as [s|]; [eauto|discriminate H].
Qed.

(* two binds at the same height; node 2 (a Map over var 1... see below) is used by the first case of
   bind A and by the second case of bind B.  In the last pass both binds swap in the same height
   block as node 2 is queued in: bind A tears node 2 down, bind B registers it again (it is queued
   again), the block then runs it, and the next block runs it once more. *)
Definition exD2_ops : list op :=
  [ NewVar 2 false;                                            (* 0: input of bind A *)
    NewVar 2 false;                                            (* 1: input of bind B *)
    NewVar 10 false;                                           (* 2 *)
    NewMap (Aff 1 1) 2%nat;                                    (* 3: x = var 2 + 1, height 1 *)
    NewBind [TMap (Aff 2 0) (TOuter 3%nat); TRet 5] 0%nat;     (* bind 4: lhs-change 4, main 5 *)
    NewBind [TRet 7; TMap (Aff 3 0) (TOuter 3%nat)] 1%nat;     (* bind 6: lhs-change 6, main 7 *)
    Observe 5%nat;
    Observe 7%nat;
    ParStabilize [];
    SetVar 0%nat 3;                                            (* bind A drops x *)
    SetVar 1%nat 3;                                            (* bind B takes x *)
    SetVar 2%nat 20;                                           (* x is stale *)
    ParStabilize [] ].

Definition exD2_pre : state := match histP_run (init 64) (take 12 exD2_ops) with Some s => s | None => init 0 end.

Lemma exD2_runs :
  match histP_run (init 64) (take 12 exD2_ops) with
  | Some s =>
    match parStabilize [] s with
    | Ok (s', None) =>
      consistent s' && observers_agree s' &&
      (* node 3 ran twice in the pass *)
      (length (List.filter (fun e => match e with EvInvoked 3%nat _ _ => true | _ => false end)
                      (take (length (log s') - length (log s)) (log s'))) =? 2)%nat
    | _ => false
    end
  | None => false
  end = true.
Proof. vm_compute. reflexivity. Qed.

(* the parallel pass from [exS_pre] (PassBindSwapProofs: Inv, ValInvB, Tplain hold) runs the bind
   function of bind 2 *)
Lemma exS_par :
  match parStabilize [] exS_pre with
  | Ok (s', None) => consistent s' && observers_agree s' && bool_decide (EvBindFn 2 2 (Some 6%nat) ∈ log s')
  | _ => false
  end = true.
Proof. vm_compute. reflexivity. Qed.
