(** Model of sentinel.go inside the part of graph.go it uses: watchNode, unwatchNode,
    the sentinel loops of becameNecessaryRecursive and zeroNode, the "always" requeue at the
    end of Stabilize / parallelStabilize, and a sentinel's Cutoff (= not fires) with
    shouldRecomputeChild on the watched node.

    Node kinds: [KVar], [KMap f a] (one input, [f] from the affine family) and [KSent]
    (a sentinel; the node it watches is the field [watched]).  Nodes are kept in creation
    order, a node's identity is its index.  Every node carries
      val, height, reg (Var/Map: Node.inGraph; Sentinel: membership of graph.sentinels),
      obs (len(n.observers)), rAt/cAt/sAt (recomputedAt/changedAt/setAt), queued
      (heightInRecomputeHeap != HeightUnset)
    and, for a sentinel, the two halves of its watch edge: [lchild] (the sentinel's children
    list holds the watched node) and [lparent] (the watched node's parents list holds the
    sentinel).  The dependency edge of a Map is not stored: a Map is linked to its input
    exactly while it is in the graph, so "children of n" is "registered Maps over n"
    (that both halves of THAT edge agree is C05's business, not this file's).

    The recompute heap is the set of queued nodes; a pass removes a queued node of the
    lowest height until none is left ([pick]).  The serial pass's "held child" shortcut
    changes the order within a pass, not what is recomputed; here every child goes through
    the heap, which is also what ParallelStabilize does.

    Simplifications, each checked by the replay (SentinelRun.v) on every generated history:
    - shouldRecomputeChild's [isNecessary] test on a child is [reg]: a listed child is in the
      graph, and in the graph = necessary is C06;
    - its fallback [isStale()] for a Map with recomputedAt = num is false (no stamp exceeds
      num) and is dropped; for a Var it is varIncr.Stale(), which compares a field nothing
      writes with recomputedAt and is false: a sentinel never wakes a Var;
    - adjustHeights (used by watchNode when the watched node is in the graph) is one sweep
      over the nodes in creation order raising every registered Map above its input: inputs
      precede dependents, every node has one input, so this is what the height-ordered walk
      computes;
    - becameNecessaryRecursive registers a Map's input before the Map (Go: after linking);
      the two touch different nodes;
    - all nodes live in the top scope (a sentinel's height is 0); a pass stopped by a failing
      predicate is [OStabilizeStopped], see there.

    [cfg] holds one switch per repaired line; [head] (all true) is /repo at HEAD:
      cfg_relink_on_return  640a5e6  zeroNode removes the sentinel's child entry and
                                     becameNecessaryRecursive links a missing watch edge again
      cfg_order_watch_edge  2d28149  watchNode / becameNecessaryRecursive raise the watched
                                     node above its sentinel
      cfg_start_attached    8b0f30c  watchNode queues the sentinel if the watched node is in
                                     the graph
    and one for a line that a seeded change removed on the parallel path:
      cfg_requeue_panicked           recomputePanicked puts the node whose function panicked
                                     back on the recompute heap *)
From incr Require Import Base.
Local Open Scope nat_scope.

Record cfg := Cfg {
  cfg_relink_on_return : bool;
  cfg_order_watch_edge : bool;
  cfg_start_attached : bool;
  cfg_requeue_panicked : bool
}.
Definition head : cfg := Cfg true true true true.

Record fn := Aff { fa : Z; fb : Z }.
Definition apply (f : fn) (x : Z) : Z := (fa f * x + fb f)%Z.

Inductive kind := KVar | KMap (f : fn) (a : nid) | KSent.

Record node := Node {
  kind_ : kind;
  val : Z;
  height : nat;
  reg : bool;
  obs : nat;
  rAt : nat;
  cAt : nat;
  sAt : nat;
  queued : bool;
  watched : option nid;
  lchild : bool;
  lparent : bool
}.

Record state := State { num : nat; nodes : list node }.

Definition node0 : node := Node KVar 0%Z 0 false 0 0 0 0 false None false false.
Definition init : state := State 1 [].

Definition nd (l : list node) (n : nid) : node := default node0 (l !! n).

Definition isSent (x : node) : bool := match kind_ x with KSent => true | _ => false end.
Definition isMap (x : node) : bool := match kind_ x with KMap _ _ => true | _ => false end.
Definition isMapOf (x : node) (n : nid) : bool :=
  match kind_ x with KMap _ a => a =? n | _ => false end.
Definition watches (x : node) (n : nid) : bool :=
  match watched x with Some w => w =? n | None => false end.

(** ** field updates *)
Definition set_val (x : node) (v : Z) : node :=
  Node (kind_ x) v (height x) (reg x) (obs x) (rAt x) (cAt x) (sAt x) (queued x) (watched x) (lchild x) (lparent x).
Definition set_height (x : node) (h : nat) : node :=
  Node (kind_ x) (val x) h (reg x) (obs x) (rAt x) (cAt x) (sAt x) (queued x) (watched x) (lchild x) (lparent x).
Definition set_obs (x : node) (o : nat) : node :=
  Node (kind_ x) (val x) (height x) (reg x) o (rAt x) (cAt x) (sAt x) (queued x) (watched x) (lchild x) (lparent x).
Definition set_queued (x : node) (q : bool) : node :=
  Node (kind_ x) (val x) (height x) (reg x) (obs x) (rAt x) (cAt x) (sAt x) q (watched x) (lchild x) (lparent x).
Definition set_links (x : node) (c p : bool) : node :=
  Node (kind_ x) (val x) (height x) (reg x) (obs x) (rAt x) (cAt x) (sAt x) (queued x) (watched x) c p.
(* addNode + setHeight *)
Definition entered (x : node) (h : nat) : node :=
  Node (kind_ x) (val x) h true (obs x) (rAt x) (cAt x) (sAt x) (queued x) (watched x) (lchild x) (lparent x).
(* zeroNode on the node itself (its own children and parents lists are cleared) *)
Definition zeroed (x : node) : node :=
  Node (kind_ x) (val x) 0 false 0 0 0 0 false (watched x) false (lparent x).
(* SetStale *)
Definition staled (x : node) (n : nat) : node :=
  Node (kind_ x) (val x) (height x) (reg x) (obs x) (rAt x) (cAt x) n true (watched x) (lchild x) (lparent x).
(* recomputePanicked: recomputedAt = 0 *)
Definition panicked_ (x : node) : node :=
  Node (kind_ x) (val x) (height x) (reg x) (obs x) 0 (cAt x) (sAt x) (queued x) (watched x) (lchild x) (lparent x).
(* taken off the heap and recomputed at pass [n]; [chg]: not cut off *)
Definition ran (x : node) (n : nat) (chg : bool) (v : Z) : node :=
  Node (kind_ x) v (height x) (reg x) (obs x) n (if chg then n else cAt x) (sAt x) false (watched x) (lchild x) (lparent x).

Definition upd (l : list node) (n : nid) (f : node -> node) : list node :=
  imap (fun i x => if i =? n then f x else x) l.

(** ** necessity: observers, or a dependent in the graph *)
Definition hasChild (l : list node) (n : nid) : bool :=
  existsb (fun x => reg x && isMapOf x n) l.
Definition isNecessary (l : list node) (n : nid) : bool :=
  (0 <? obs (nd l n)) || hasChild l n.

(** ** Node.isStale *)
Definition isStale (l : list node) (n : nid) : bool :=
  let x := nd l n in
  match kind_ x with
  | KVar => false                                       (* varIncr.Stale *)
  | KSent => true                                       (* sentinelIncr.Stale *)
  | KMap _ a =>
    (rAt x =? 0)
    || (reg x && (rAt x <? cAt (nd l a)))                 (* the input, linked while in the graph *)
    || existsb (fun y => watches y n && lparent y && (rAt x <? cAt y)) l   (* sentinels among n.parents *)
  end.

(** ** becameNecessaryRecursive *)

(* the sentinel loop's setHeight: above every sentinel that watches n, in list order *)
Definition sentHeight (l : list node) (n : nid) (h0 : nat) : nat :=
  fold_left (fun h x => if watches x n && (h <=? height x) then S (height x) else h) l h0.

(* what becameNecessaryRecursive does once the node's input is in place: [hpar] is the
   height the input demands (0 for a var) *)
Definition enter (c : cfg) (l : list node) (n : nid) (hpar : nat) : list node :=
  let h := if cfg_order_watch_edge c then sentHeight l n hpar else hpar in
  let l1 := imap (fun i x =>
                    if i =? n then entered x h
                    else if watches x n then
                      let x := if cfg_relink_on_return c && negb (lparent x) then set_links x true true else x in
                      set_queued x true                  (* recomputeHeap.addIfNotPresent(sentinel) *)
                    else x) l in
  if isStale l1 n then upd l1 n (fun x => set_queued x true) else l1.

Fixpoint bnr (c : cfg) (fuel : nat) (l : list node) (n : nid) : list node :=
  match fuel with
  | O => l
  | S fuel =>
    match kind_ (nd l n) with
    | KVar => enter c l n 0
    | KMap _ a =>
      let l1 := if isNecessary l a then l else bnr c fuel l a in
      enter c l1 n (S (height (nd l1 a)))
    | KSent => l
    end
  end.

(** ** becameUnnecessary; removeNode; zeroNode *)
Definition zero (c : cfg) (l : list node) (n : nid) : list node :=
  imap (fun i x =>
          if i =? n then zeroed x
          else if watches x n then
            (* nn.parents = nil; with the repair also sn.removeChild(nn.id) *)
            set_links x (if cfg_relink_on_return c then false else lchild x) false
          else x) l.

Fixpoint bun (c : cfg) (fuel : nat) (l : list node) (n : nid) : list node :=
  match fuel with
  | O => l
  | S fuel =>
    if negb (reg (nd l n)) then l else
    let l1 := zero c l n in
    match kind_ (nd l n) with
    | KMap _ a => if isNecessary l1 a then l1 else bun c fuel l1 a
    | _ => l1
    end
  end.

(** ** adjustHeights *)
Definition bump (l : list node) (i : nid) : list node :=
  let x := nd l i in
  match kind_ x with
  | KMap _ a => if reg x && (height x <=? height (nd l a))
                then upd l i (fun x => set_height x (S (height (nd l a)))) else l
  | _ => l
  end.
Definition sweep (l : list node) : list node := fold_left bump (seq 0 (length l)) l.

(** ** operations *)
Inductive op :=
| ONewVar (v : Z)
| ONewMap (f : fn) (a : nid)
| ONewSentinel (w : nid)
| OObserve (n : nid)
| OUnobserve (n : nid)
| OSetVar (n : nid) (v : Z)
| OUnwatch (x : nid)
| OStabilize (fires : list nid)
| OStabilizeStopped (fires ran failed panicked : list nid).

Definition NewVar (l : list node) (v : Z) : list node :=
  l ++ [Node KVar v 0 false 0 0 0 0 false None false false].

Definition NewMap (l : list node) (f : fn) (a : nid) : list node :=
  if (a <? length l) && negb (isSent (nd l a))
  then l ++ [Node (KMap f a) 0%Z 0 false 0 0 0 0 false None false false] else l.

(* SentinelContext -> watchNode.  The node it watches is raised first and the sentinel added
   (linked, at height 0, queued if the node is in the graph) afterwards; Go links first, the
   two steps touch different nodes. *)
Definition NewSentinel (c : cfg) (l : list node) (w : nid) : list node :=
  if (w <? length l) && negb (isSent (nd l w)) then
    let inGraph := reg (nd l w) in
    let l1 := if cfg_order_watch_edge c && inGraph && (height (nd l w) <=? 0)
              then sweep (upd l w (fun y => set_height y 1)) else l in
    l1 ++ [Node KSent 0%Z 0 true 0 0 0 0 (cfg_start_attached c && inGraph) (Some w) true true]
  else l.

(* observeNode *)
Definition Observe (c : cfg) (l : list node) (n : nid) : list node :=
  if (n <? length l) && negb (isSent (nd l n)) then
    let l1 := if isNecessary l n then l else bnr c (S n) l n in
    upd l1 n (fun x => set_obs x (S (obs x)))
  else l.

(* unobserveNode *)
Definition Unobserve (c : cfg) (l : list node) (n : nid) : list node :=
  if isSent (nd l n) then l else                (* a sentinel has no observers *)
  match obs (nd l n) with
  | O => l
  | S k =>
    let l1 := upd l n (fun x => set_obs x k) in
    if isNecessary l1 n then l1 else bun c (S n) l1 n
  end.

(* Var.Set outside a pass *)
Definition SetVar (s : state) (n : nid) (v : Z) : list node :=
  let l := nodes s in
  match kind_ (nd l n) with
  | KVar =>
    let l1 := upd l n (fun x => set_val x v) in
    if isNecessary l1 n && reg (nd l1 n) then upd l1 n (fun x => staled x (num s)) else l1
  | _ => l
  end.

(* Unwatch -> unwatchNode: removeSentinel (zeroNode), removeSentinel from the node, unlink *)
Definition Unwatch (l : list node) (x : nid) : list node :=
  let y := nd l x in
  if isSent y && bool_decide (watched y <> None) then
    upd l x (fun y => Node KSent (val y) 0 false 0 0 0 0 false None false false)
  else l.

(** ** a pass *)

(* a queued node of the lowest height (the first such in creation order) *)
Fixpoint pick_from (l : list node) (i : nid) : option (nid * nat) :=
  match l with
  | [] => None
  | x :: t =>
    let r := pick_from t (S i) in
    if queued x then
      match r with
      | Some (j, h) => if height x <=? h then Some (i, height x) else r
      | None => Some (i, height x)
      end
    else r
  end.
Definition pick (l : list node) : option nid := fst <$> pick_from l 0.

Definition inb (n : nid) (l : list nid) : bool := existsb (Nat.eqb n) l.

(* the children loop of recomputeNode for a Var or Map: shouldRecomputeChild on every dependent *)
Definition queueKids (N : nat) (n : nid) (l : list node) : list node :=
  imap (fun _ x => if isMapOf x n && reg x && negb (queued x) && (rAt x <? N)
                   then set_queued x true else x) l.

Record plog := PLog { runs : list (nid * Z); evals : list nid }.
Definition plog0 : plog := PLog [] [].

Definition stepNode (N : nat) (fires : list nid) (l : list node) (n : nid) (g : plog) : list node * plog :=
  let x := nd l n in
  match kind_ x with
  | KVar => (queueKids N n (upd l n (fun x => ran x N true (val x))), g)
  | KMap f a =>
    let arg := val (nd l a) in
    (queueKids N n (upd l n (fun x => ran x N true (apply f arg))), PLog (runs g ++ [(n, arg)]) (evals g))
  | KSent =>
    let fire := inb n fires in
    let l1 := upd l n (fun x => ran x N fire (val x)) in
    let g := PLog (runs g) (evals g ++ [n]) in
    if fire && lchild x then
      match watched x with
      | Some w =>
        let y := nd l1 w in
        if isMap y && reg y && negb (queued y) && (rAt y <? N)
        then (upd l1 w (fun y => set_queued y true), g) else (l1, g)
      | None => (l1, g)
      end
    else (l1, g)
  end.

Fixpoint stabLoop (fuel : nat) (N : nat) (fires : list nid) (l : list node) (g : plog) : list node * plog :=
  match fuel with
  | O => (l, g)
  | S fuel =>
    match pick l with
    | None => (l, g)
    | Some n => let '(l, g) := stepNode N fires l n g in stabLoop fuel N fires l g
    end
  end.

(* "always" nodes taken off the heap during the pass go back on it when the pass ends *)
Definition requeue (N : nat) (l : list node) : list node :=
  imap (fun _ x => if isSent x && (rAt x =? N) && reg x then set_queued x true else x) l.

Definition Stabilize (s : state) (fires : list nid) : state * plog :=
  let N := num s in
  let '(l, g) := stabLoop (length (nodes s)) N fires (nodes s) plog0 in
  (State (S N) (requeue N l), g).

(** ** a pass stopped by a failing predicate

    A sentinel's predicate (sentinelIncr.Cutoff) returns an error or panics.  Sentinels sit
    at height 0, so whatever the heap handed out before the pass stopped sat at height 0 as
    well; under Stabilize a node recomputed directly after its input (the "held child"
    chain) may sit higher.  The pass is given by the nodes that were recomputed, in an order
    in which inputs precede dependents ([ran]; Stabilize: the height-0 nodes the heap handed
    out before the first failing sentinel, with the chains of dependents recomputed directly
    after them; ParallelStabilize: the rest of the height-0 block) and the sentinels whose
    predicate was evaluated and failed ([failed]: returned an
    error, recomputeFailed puts recomputedAt back and the node back on the heap; [panicked]:
    recomputePanicked sets recomputedAt to 0 and puts the node back).  Which nodes these are
    depends on the order inside the heap's height-0 block, which this model does not fix: the
    lists are a parameter of the operation, the harness reports them, and the theorems hold
    for every choice.  Nothing is done for a listed node that is not [runnable].
    The pass ends as every pass does: "always" nodes that ran are requeued, the stabilization
    number advances.  (With [failed] and [panicked] empty this is a pass stopped by a
    cancelled context.) *)
(* a listed node is recomputed if it is queued and either sits at height 0 or is a Map whose
   input was recomputed in this pass (recomputeNodeSerial hands a single-input dependent
   straight back to Graph.recompute, ahead of whatever is still queued at height 0) *)
Definition runnable (N : nat) (l : list node) (k : nid) : bool :=
  queued (nd l k) &&
  ((height (nd l k) =? 0) ||
   match kind_ (nd l k) with KMap _ a => rAt (nd l a) =? N | _ => false end).

Definition runListed (N : nat) (fires skip : list nid) (lg : list node * plog) (k : nid) : list node * plog :=
  if runnable N (fst lg) k && negb (inb k skip)
  then stepNode N fires (fst lg) k (snd lg) else lg.

Definition failStep (c : cfg) (pan : bool) (lg : list node * plog) (x : nid) : list node * plog :=
  if queued (nd (fst lg) x) && isSent (nd (fst lg) x)
  then (if pan
        then upd (fst lg) x (fun y => if cfg_requeue_panicked c then panicked_ y else set_queued (panicked_ y) false)
        else fst lg,
        PLog (runs (snd lg)) (evals (snd lg) ++ [x]))
  else lg.

Definition stoppedLoop (c : cfg) (N : nat) (fires ran failed panicked : list nid) (l : list node) : list node * plog :=
  let lg := fold_left (runListed N fires (failed ++ panicked)) ran (l, plog0) in
  let lg := fold_left (failStep c false) failed lg in
  fold_left (failStep c true) panicked lg.

Definition StabilizeStopped (c : cfg) (s : state) (fires ran failed panicked : list nid) : state * plog :=
  let N := num s in
  let lg := stoppedLoop c N fires ran failed panicked (nodes s) in
  (State (S N) (requeue N (fst lg)), snd lg).

Definition step (c : cfg) (s : state) (o : op) : state * plog :=
  match o with
  | ONewVar v => (State (num s) (NewVar (nodes s) v), plog0)
  | ONewMap f a => (State (num s) (NewMap (nodes s) f a), plog0)
  | ONewSentinel w => (State (num s) (NewSentinel c (nodes s) w), plog0)
  | OObserve n => (State (num s) (Observe c (nodes s) n), plog0)
  | OUnobserve n => (State (num s) (Unobserve c (nodes s) n), plog0)
  | OSetVar n v => (State (num s) (SetVar s n v), plog0)
  | OUnwatch x => (State (num s) (Unwatch (nodes s) x), plog0)
  | OStabilize fires => Stabilize s fires
  | OStabilizeStopped fires ran failed panicked => StabilizeStopped c s fires ran failed panicked
  end.

Definition run (c : cfg) (s : state) (ops : list op) : state :=
  fold_left (fun s o => fst (step c s o)) ops s.

(** * Specification vocabulary (shared by SentinelProofs.v and Properties/C03_sentinel.v) *)

(** [anc l x b]: [b] is [x] or one of the inputs above it *)
Inductive anc (l : list node) : nid -> nid -> Prop :=
| anc_refl x : anc l x x
| anc_step x f a b : kind_ (nd l x) = KMap f a -> anc l a b -> anc l x b.

(** the from-scratch value of a node: a var's current value pushed through the functions *)
Inductive scratch (l : list node) : nid -> Z -> Prop :=
| scratch_var n : kind_ (nd l n) = KVar -> scratch l n (val (nd l n))
| scratch_map n f a v : kind_ (nd l n) = KMap f a -> scratch l a v -> scratch l n (apply f v).

(** the log of the pass that an [OStabilize] at the end of a history performs *)
Definition last_pass (c : cfg) (ops : list op) (fires : list nid) : state * plog :=
  Stabilize (run c init ops) fires.

(** the stopped pass that an [OStabilizeStopped] at the end of a history performs *)
Definition last_stopped (c : cfg) (ops : list op) (fires ran failed panicked : list nid) : state * plog :=
  StabilizeStopped c (run c init ops) fires ran failed panicked.

Definition count_runs (n : nid) (g : plog) : nat :=
  length (filter (fun r => fst r = n) (runs g)).
Definition count_evals (n : nid) (g : plog) : nat :=
  length (filter (fun e => e = n) (evals g)).

(** Statement 1 (at every operation boundary).  While a sentinel watches: it is registered,
    at the base height, the two halves of its watch edge agree; while the watched node is in
    the graph the edge is there, the node sits above the sentinel, and the sentinel is
    queued (it runs in every pass).  (A node that has not been in the graph since the
    sentinel was attached carries the edge too: watchNode links unconditionally; once it
    has left the graph the edge is gone, both halves, until it returns.) *)
Definition watching_ok (l : list node) (x w : nid) : Prop :=
  reg (nd l x) = true /\ height (nd l x) = 0 /\ lchild (nd l x) = lparent (nd l x) /\
  (reg (nd l w) = true ->
     lchild (nd l x) = true /\ lparent (nd l x) = true /\ height (nd l x) < height (nd l w) /\
     queued (nd l x) = true).

(** not (or no longer) watching: no half of an edge is left, and a sentinel is out of the
    graph and of the heap *)
Definition not_watching_ok (l : list node) (x : nid) : Prop :=
  lchild (nd l x) = false /\ lparent (nd l x) = false /\
  (isSent (nd l x) = true -> reg (nd l x) = false /\ queued (nd l x) = false).

Definition watch_stmt (c : cfg) (ops : list op) (x : nid) : Prop :=
  let l := nodes (run c init ops) in
  match watched (nd l x) with
  | Some w => w < x /\ isSent (nd l x) = true /\ isSent (nd l w) = false /\ watching_ok l x w
  | None => not_watching_ok l x
  end.

(** Statement 2 (clause (c) of C03).  In the pass that follows a history, a watching
    sentinel whose node is in the graph is evaluated exactly once; if it fires and the node
    is a Map, the Map's function runs exactly once. *)
Definition pass_stmt (c : cfg) (ops : list op) (fires : list nid) (x w : nid) : Prop :=
  let l := nodes (run c init ops) in
  let g := snd (last_pass c ops fires) in
  watched (nd l x) = Some w -> reg (nd l w) = true ->
  count_evals x g = 1 /\
  (x ∈ fires -> isMap (nd l w) = true -> count_runs w g = 1).

(** Statement 5a.  After a stopped pass every watching sentinel whose node is in the graph is
    queued and its watch edge is intact. *)
Definition stopped_stmt (c : cfg) (ops : list op) (fires ran failed panicked : list nid) (x w : nid) : Prop :=
  let l := nodes (fst (last_stopped c ops fires ran failed panicked)) in
  watched (nd l x) = Some w -> reg (nd l w) = true ->
  queued (nd l x) = true /\ lchild (nd l x) = true /\ lparent (nd l x) = true /\
  height (nd l x) < height (nd l w).

(** operations that neither write a var nor make anything necessary *)
Definition quiet (o : op) : Prop :=
  match o with
  | OSetVar _ _ | OObserve _ | OStabilize (_ :: _) | OStabilizeStopped _ _ _ _ => False
  | _ => True
  end.
